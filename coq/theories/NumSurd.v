(* NumSurd.v — theorems about the surd kernel of the %num model: exactness of add/sub/mul/div in
   Q(sqrt n), canonical `build` forms, nil on incompatible radicals, the sign decision, the
   square-free search, and "never a runtime error" for every exported operation. *)
From Coq Require Import QArith Qabs Lia ZArith Znumtheory.
From Quiver Require Import Base Num NumProofs.
Open Scope Z_scope.

(* ---------------------------------------------------------------- vocabulary *)
Definition nonsquare (n : Z) : Prop := forall k, k * k <> n.
Definition squarefree (n : Z) : Prop := forall k, 1 < k -> ~ (k * k | n).

Lemma squarefree_nonsquare n : 1 < n -> squarefree n -> nonsquare n.
Proof.
  intros Hn Hsf k E. apply (Hsf (Z.abs k)).
  - nia.
  - exists 1. rewrite <- E. nia.
Qed.

(* well-formed number: canonical coefficients; a surd has b <> 0 and a non-square radical > 1 *)
Definition wf_num (x : num) : Prop :=
  match x with
  | NC c => wfc c
  | NSurd a b n => wfc a /\ wfc b /\ ~ cq b == 0 /\ 1 < n /\ nonsquare n
  end.
Definition is_surd (x : num) : Prop := match x with NSurd _ _ _ => True | NC _ => False end.

(* elements of Q(sqrt n) as pairs (a, b) = a + b sqrt n *)
Definition qpair := (Q * Q)%type.
Definition peq (p q : qpair) : Prop := fst p == fst q /\ snd p == snd q.
Definition padd (p q : qpair) : qpair := (fst p + fst q, snd p + snd q)%Q.
Definition psub (p q : qpair) : qpair := (fst p - fst q, snd p - snd q)%Q.
Definition pmul (n : Z) (p q : qpair) : qpair :=
  (fst p * fst q + snd p * snd q * inject_Z n, fst p * snd q + snd p * fst q)%Q.
Definition pnorm (n : Z) (q : qpair) : Q := (fst q * fst q - snd q * snd q * inject_Z n)%Q.
Definition pdiv (n : Z) (p q : qpair) : qpair :=
  ((fst p * fst q - snd p * snd q * inject_Z n) / pnorm n q, (snd p * fst q - fst p * snd q) / pnorm n q)%Q.
Definition pzero (p : qpair) : Prop := fst p == 0 /\ snd p == 0.

(* x denotes the element p of Q(sqrt n) *)
Definition denotes (x : num) (n : Z) (p : qpair) : Prop :=
  match x with
  | NC c => cq c == fst p /\ snd p == 0
  | NSurd a b m => m = n /\ cq a == fst p /\ cq b == snd p
  end.

Lemma denotes_peq x n p q : denotes x n p -> peq p q -> denotes x n q.
Proof.
  destruct x as [c|a b m]; cbn; intros H [E1 E2].
  - destruct H as [H1 H2]. split; [now rewrite <- E1 | now rewrite <- E2].
  - destruct H as (Hm & H1 & H2). repeat split; [assumption | now rewrite <- E1 | now rewrite <- E2].
Qed.

(* the canonical forms `build` produces: lowered coefficients; a surd only with b <> 0 *)
Definition lowered (c : coeff) : Prop := match c with CRat _ d => d <> 1 | CInt _ => True end.
Definition built (x : num) : Prop :=
  match x with
  | NC c => lowered c
  | NSurd a b _ => lowered a /\ lowered b
  end.

(* pdiv really is division in the ring: (p / q) * q = p when the norm of q is non-zero *)
Lemma pdiv_pmul n p q : ~ pnorm n q == 0 -> peq (pmul n (pdiv n p q) q) p.
Proof.
  destruct p as [a b], q as [c d]. unfold peq, pmul, pdiv, pnorm. cbn [fst snd]. intros H.
  split; field; exact H.
Qed.

(* ---------------------------------------------------------------- irrationality of sqrt n *)
Lemma square_ratio_is_square x y n : y <> 0 -> x * x = n * (y * y) -> exists k, n = k * k.
Proof.
  intros Hy E.
  remember (Z.gcd x y) as g eqn:Hg.
  assert (Hgpos : 0 < g).
  { pose proof (Z.gcd_nonneg x y). assert (g <> 0) by (subst g; intros Z0; apply Z.gcd_eq_0_r in Z0; lia). lia. }
  assert (Hdx : (g | x)) by (subst g; apply Z.gcd_divide_l).
  assert (Hdy : (g | y)) by (subst g; apply Z.gcd_divide_r).
  destruct Hdx as [x' Hx]. destruct Hdy as [y' Hy'].
  assert (Hco : Z.gcd x' y' = 1).
  { assert (Z.gcd (x / g) (y / g) = 1) by (apply Z.gcd_div_gcd; lia).
    rewrite Hx, Hy' in H. rewrite !Z.div_mul in H by lia. exact H. }
  assert (E' : x' * x' = n * (y' * y')).
  { subst x y. apply Z.mul_cancel_r with (p := g * g); [nia |]. lia. }
  assert (Hy0 : y' <> 0) by (intros ->; lia).
  assert (Hdiv : (y' | x')).
  { apply Z.gauss with (m := x'); [exists (n * y'); lia | now rewrite Z.gcd_comm]. }
  assert (Hone : Z.abs y' = 1).
  { assert (Hd : (y' | Z.gcd x' y')) by (apply Z.gcd_greatest; [exact Hdiv | apply Z.divide_refl]).
    rewrite Hco in Hd. apply Z.divide_1_r in Hd. lia. }
  exists x'. assert (y' * y' = 1) by nia. nia.
Qed.

Lemma nonsquare_norm_Z n p s : nonsquare n -> s <> 0 -> p * p <> n * (s * s).
Proof. intros Hn Hs E. destruct (square_ratio_is_square p s n Hs E) as [k Hk]. apply (Hn k). now symmetry. Qed.

(* the norm a^2 - b^2 n of a non-zero element is non-zero *)
Lemma norm_nonzero n a b : nonsquare n -> canon a -> canon b ->
  ~ (qval a == 0 /\ qval b == 0) -> ~ (qval a * qval a - qval b * qval b * inject_Z n == 0)%Q.
Proof.
  destruct a as [p q], b as [r s]. intros Hn [Hq _] [Hs _] Hnz E.
  unfold qval, inject_Z, Qeq, Qminus, Qplus, Qmult, Qopp in E. cbn [Qnum Qden] in E.
  rewrite !Pos2Z.inj_mul, !Z2Pos.id in E by assumption.
  assert (E' : (p * s) * (p * s) = n * ((r * q) * (r * q))) by nia.
  destruct (Z.eq_dec r 0) as [->|Hr].
  - assert (p = 0) by nia. subst p. apply Hnz. split; apply qval_zero; auto.
  - apply (nonsquare_norm_Z n (p * s) (r * q) Hn); [nia | exact E'].
Qed.

(* ---------------------------------------------------------------- lower / explode / radical / build *)
Lemma lower_spec c : wfc c -> wfc (lower c) /\ cq (lower c) == cq c /\ lowered (lower c).
Proof.
  intros Hc. destruct c as [z|n d]; cbn [lower].
  - repeat split; try apply wfc_int; reflexivity.
  - destruct (Z.eqb_spec d 1) as [->|Hd].
    + split; [apply wfc_int |]. split; [reflexivity | exact I].
    + split; [exact Hc |]. split; [reflexivity | exact Hd].
Qed.

Lemma lower_rat_spec r : canon r ->
  wfc (lower (rat_coeff r)) /\ cq (lower (rat_coeff r)) == qval r /\ lowered (lower (rat_coeff r)).
Proof. destruct r as [n d]. intros C. apply (lower_spec (CRat n d)). exact C. Qed.

Lemma canon_zero : canon (Rat 0 1).
Proof. split; [lia | reflexivity]. Qed.
Lemma canon_int n : canon (Rat n 1).
Proof. split; [lia | apply Z.gcd_1_r]. Qed.
Lemma qval_int n : qval (Rat n 1) = inject_Z n.
Proof. reflexivity. Qed.

Lemma rsign_zero r : canon r -> ((rsign r =? 0) = true <-> qval r == 0).
Proof.
  destruct r as [n d]. intros [Hd _]. unfold rsign. rewrite bi_compare_zero, Z.eqb_eq.
  symmetry. now apply qval_zero.
Qed.

(* explode of a well-formed number: canonical parts that denote it *)
Lemma explode_spec x : wf_num x ->
  exists a b m, explode x = (a, b, m) /\ canon a /\ canon b /\ denotes x m (qval a, qval b) /\
                (is_surd x -> ~ qval b == 0 /\ 1 < m /\ nonsquare m) /\ (~ is_surd x -> b = Rat 0 1 /\ m = 1).
Proof.
  destruct x as [c|a b n]; cbn [wf_num explode].
  - intros Hc. exists (to_rational c), (Rat 0 1), 1. split; [reflexivity |].
    split; [exact Hc |]. split; [apply canon_zero |]. split; [split; reflexivity |].
    split; [intros [] | auto].
  - intros (Ha & Hb & Hnz & Hn & Hns). exists (to_rational a), (to_rational b), n.
    split; [reflexivity |]. split; [exact Ha |]. split; [exact Hb |].
    split; [repeat split; reflexivity |]. split; [auto | intros H; exfalso; apply H; exact I].
Qed.

(* build for a genuine radical *)
Lemma build_spec a b n : canon a -> canon b -> 1 < n -> nonsquare n ->
  exists r, build a b n = Val r /\ denotes r n (qval a, qval b) /\ wf_num r /\ built r /\
            (is_surd r <-> ~ qval b == 0).
Proof.
  intros Ha Hb Hn Hns. unfold build. rewrite bi_compare_zero.
  destruct (Z.eqb_spec n 1) as [->|_]; [lia |].
  destruct (lower_rat_spec a Ha) as (Wa & Va & La). destruct (lower_rat_spec b Hb) as (Wb & Vb & Lb).
  destruct (rsign b =? 0) eqn:S.
  - apply rsign_zero in S; [| exact Hb].
    exists (NC (lower (rat_coeff a))). split; [reflexivity |]. cbn [denotes wf_num built is_surd fst snd].
    split; [split; [exact Va | exact S] |]. split; [exact Wa |]. split; [exact La | tauto].
  - assert (Hnz : ~ qval b == 0) by (intros Z0; apply rsign_zero in Z0; [congruence | exact Hb]).
    exists (NSurd (lower (rat_coeff a)) (lower (rat_coeff b)) n). split; [reflexivity |].
    cbn [denotes wf_num built is_surd fst snd].
    split; [repeat split; assumption |]. split; [| split; [split; assumption | tauto]].
    repeat split; try assumption. now rewrite Vb.
Qed.

(* the prologue shared by the surd operations: either the radicals are incompatible (both operands
   surds, different n) and the result is nil, or a shared radical n > 1 is chosen and both operands
   denote elements of Q(sqrt n) *)
Lemma with_radical_spec {A} x y (k : rat -> rat -> rat -> rat -> Z -> outcome (option A)) :
  wf_num x -> wf_num y -> is_surd x \/ is_surd y ->
  (exists a b n c d m, x = NSurd a b n /\ y = NSurd c d m /\ n <> m /\ with_radical x y k = Val None) \/
  (exists a1 b1 a2 b2 n, with_radical x y k = k a1 b1 a2 b2 n /\
      canon a1 /\ canon b1 /\ canon a2 /\ canon b2 /\ 1 < n /\ nonsquare n /\
      denotes x n (qval a1, qval b1) /\ denotes y n (qval a2, qval b2) /\
      (forall m px, denotes x m px -> 1 < m -> is_surd x -> m = n) /\
      (forall m py, denotes y m py -> 1 < m -> is_surd y -> m = n)).
Proof.
  intros Hx Hy Hs.
  destruct (explode_spec x Hx) as (a1 & b1 & n1 & E1 & Ca1 & Cb1 & D1 & S1 & N1).
  destruct (explode_spec y Hy) as (a2 & b2 & n2 & E2 & Ca2 & Cb2 & D2 & S2 & N2).
  unfold with_radical. rewrite E1, E2. unfold radical.
  destruct (rsign b1 =? 0) eqn:R1.
  - (* x is a coefficient; y must be the surd *)
    apply rsign_zero in R1; [| exact Cb1].
    assert (Hnx : ~ is_surd x) by (intros H; apply S1 in H; tauto).
    assert (Hsy : is_surd y) by tauto.
    destruct (S2 Hsy) as (Hb2 & Hn2 & Hns2).
    right. exists a1, b1, a2, b2, n2. split; [reflexivity |]. do 6 (split; [assumption |]).
    split.
    { destruct x as [c|? ? ?]; [| exfalso; apply Hnx; exact I]. cbn [denotes fst snd] in *. tauto. }
    split; [exact D2 |]. split.
    { intros m px _ _ H. contradiction. }
    { intros m py Dm _ _. destruct y as [c|a b n]; [destruct Hsy |]. cbn [denotes explode] in *.
      injection E2 as _ _ <-. destruct Dm as [<- _]. reflexivity. }
  - assert (Hb1 : ~ qval b1 == 0) by (intros Z0; apply rsign_zero in Z0; [congruence | exact Cb1]).
    assert (Hsx : is_surd x).
    { destruct x as [c|? ? ?]; [| exact I]. exfalso. destruct (N1 (fun H => H)) as [-> _]. apply Hb1. reflexivity. }
    destruct (S1 Hsx) as (_ & Hn1 & Hns1).
    assert (Hmx : forall m px, denotes x m px -> 1 < m -> is_surd x -> m = n1).
    { intros m px Dm _ _. destruct x as [c|a b n]; [destruct Hsx |]. cbn [denotes explode] in *.
      injection E1 as _ _ <-. destruct Dm as [<- _]. reflexivity. }
    destruct (rsign b2 =? 0) eqn:R2.
    + apply rsign_zero in R2; [| exact Cb2].
      assert (Hny : ~ is_surd y) by (intros H; apply S2 in H; tauto).
      right. exists a1, b1, a2, b2, n1. split; [reflexivity |]. do 6 (split; [assumption |]).
      split; [exact D1 |]. split.
      { destruct y as [c|? ? ?]; [| exfalso; apply Hny; exact I]. cbn [denotes fst snd] in *. tauto. }
      split; [exact Hmx |]. intros m py _ _ H. contradiction.
    + assert (Hb2 : ~ qval b2 == 0) by (intros Z0; apply rsign_zero in Z0; [congruence | exact Cb2]).
      assert (Hsy : is_surd y).
      { destruct y as [c|? ? ?]; [| exact I]. exfalso. destruct (N2 (fun H => H)) as [-> _]. apply Hb2. reflexivity. }
      rewrite bi_compare_zero. destruct (Z.eqb_spec n1 n2) as [<-|Hne].
      * right. exists a1, b1, a2, b2, n1. split; [reflexivity |]. do 6 (split; [assumption |]).
        split; [exact D1 |]. split; [exact D2 |]. split; [exact Hmx |].
        intros m py Dm _ _. destruct y as [c|a b n]; [destruct Hsy |]. cbn [denotes explode] in *.
        injection E2 as _ _ <-. destruct Dm as [<- _]. reflexivity.
      * left. destruct x as [c|a b n]; [destruct Hsx |]. destruct y as [c|c d m]; [destruct Hsy |].
        cbn [explode] in E1, E2. injection E1 as _ _ <-. injection E2 as _ _ <-.
        exists a, b, n, c, d, m. repeat split; assumption.
Qed.

Lemma denotes_fun x n p q : denotes x n p -> denotes x n q -> peq p q.
Proof.
  destruct x as [c|a b m]; cbn; unfold peq.
  - intros [H1 H2] [H3 H4]. split; [now rewrite <- H1, <- H3 | now rewrite H2, H4].
  - intros (_ & H1 & H2) (_ & H3 & H4). split; [now rewrite <- H1, <- H3 | now rewrite <- H2, <- H4].
Qed.

(* ---------------------------------------------------------------- the arithmetic kernels are exact *)
Ltac kstep H :=
  let r := fresh "r" in let E := fresh "E" in let C := fresh "C" in let V := fresh "V" in
  destruct H as (r & E & C & V); rewrite E; cbn [obind].

Definition kernel_ok (k : rat -> rat -> rat -> rat -> Z -> outcome (option num))
                     (pop : Z -> qpair -> qpair -> qpair) (pre : Z -> qpair -> Prop) : Prop :=
  forall a1 b1 a2 b2 n, canon a1 -> canon b1 -> canon a2 -> canon b2 -> 1 < n -> nonsquare n ->
    pre n (qval a2, qval b2) ->
    exists r, k a1 b1 a2 b2 n = Val (Some r) /\
              denotes r n (pop n (qval a1, qval b1) (qval a2, qval b2)) /\ wf_num r /\ built r.

Definition k_add := fun a1 b1 a2 b2 n => a <- radd a1 a2 ;; b <- radd b1 b2 ;; r <- build a b n ;; Val (Some r).
Definition k_sub := fun a1 b1 a2 b2 n => a <- rsub a1 a2 ;; b <- rsub b1 b2 ;; r <- build a b n ;; Val (Some r).

Lemma kernel_add_ok : kernel_ok k_add (fun _ => padd) (fun _ _ => True).
Proof.
  intros a1 b1 a2 b2 n Ca1 Cb1 Ca2 Cb2 Hn Hns _. unfold k_add.
  kstep (radd_spec a1 a2 Ca1 Ca2). kstep (radd_spec b1 b2 Cb1 Cb2).
  destruct (build_spec r r0 n C C0 Hn Hns) as (res & E1 & D & W & B & _). rewrite E1. cbn [obind].
  exists res. split; [reflexivity |]. split; [| split; assumption].
  eapply denotes_peq; [exact D |]. split; cbn [fst snd padd]; assumption.
Qed.

Lemma kernel_sub_ok : kernel_ok k_sub (fun _ => psub) (fun _ _ => True).
Proof.
  intros a1 b1 a2 b2 n Ca1 Cb1 Ca2 Cb2 Hn Hns _. unfold k_sub.
  kstep (rsub_spec a1 a2 Ca1 Ca2). kstep (rsub_spec b1 b2 Cb1 Cb2).
  destruct (build_spec r r0 n C C0 Hn Hns) as (res & E1 & D & W & B & _). rewrite E1. cbn [obind].
  exists res. split; [reflexivity |]. split; [| split; assumption].
  eapply denotes_peq; [exact D |]. split; cbn [fst snd psub]; assumption.
Qed.

Definition k_mul := fun a1 b1 a2 b2 n =>
    a1a2 <- rmul a1 a2 ;; b1b2 <- rmul b1 b2 ;; b1b2n <- rmul b1b2 (Rat n 1) ;;
    a <- radd a1a2 b1b2n ;;
    a1b2 <- rmul a1 b2 ;; a2b1 <- rmul a2 b1 ;;
    b <- radd a1b2 a2b1 ;;
    r <- build a b n ;; Val (Some r).

Lemma kernel_mul_ok : kernel_ok k_mul pmul (fun _ _ => True).
Proof.
  intros a1 b1 a2 b2 n Ca1 Cb1 Ca2 Cb2 Hn Hns _. unfold k_mul.
  kstep (rmul_spec a1 a2 Ca1 Ca2). kstep (rmul_spec b1 b2 Cb1 Cb2).
  kstep (rmul_spec r0 (Rat n 1) C0 (canon_int n)). kstep (radd_spec r r1 C C1).
  kstep (rmul_spec a1 b2 Ca1 Cb2). kstep (rmul_spec a2 b1 Ca2 Cb1). kstep (radd_spec r3 r4 C3 C4).
  destruct (build_spec r2 r5 n C2 C5 Hn Hns) as (res & E6 & D & W & B & _). rewrite E6. cbn [obind].
  exists res. split; [reflexivity |]. split; [| split; assumption].
  eapply denotes_peq; [exact D |]. split; cbn [fst snd pmul].
  - rewrite V2, V, V1, V0, qval_int. reflexivity.
  - rewrite V5, V3, V4. ring.
Qed.

Definition k_div := fun a1 b1 a2 b2 n =>
    a2a2 <- rmul a2 a2 ;; b2b2 <- rmul b2 b2 ;; b2b2n <- rmul b2b2 (Rat n 1) ;;
    dd <- rsub a2a2 b2b2n ;;
    if rsign dd =? 0 then Val None
    else
      a1a2 <- rmul a1 a2 ;; b1b2 <- rmul b1 b2 ;; b1b2n <- rmul b1b2 (Rat n 1) ;;
      na <- rsub a1a2 b1b2n ;;
      a <- rquot na dd ;;
      b1a2 <- rmul b1 a2 ;; a1b2 <- rmul a1 b2 ;;
      nb <- rsub b1a2 a1b2 ;;
      b <- rquot nb dd ;;
      r <- build a b n ;; Val (Some r).

Lemma kernel_div_ok : kernel_ok k_div pdiv (fun _ p => ~ pzero p).
Proof.
  intros a1 b1 a2 b2 n Ca1 Cb1 Ca2 Cb2 Hn Hns Hnz. unfold k_div. unfold pzero in Hnz. cbn [fst snd] in Hnz.
  kstep (rmul_spec a2 a2 Ca2 Ca2). kstep (rmul_spec b2 b2 Cb2 Cb2).
  kstep (rmul_spec r0 (Rat n 1) C0 (canon_int n)). kstep (rsub_spec r r1 C C1).
  assert (Hdd : ~ qval r2 == 0).
  { rewrite V2, V, V1, V0, qval_int. apply norm_nonzero; assumption. }
  destruct (rsign r2 =? 0) eqn:S; [apply rsign_zero in S; [contradiction | exact C2] |].
  kstep (rmul_spec a1 a2 Ca1 Ca2). kstep (rmul_spec b1 b2 Cb1 Cb2).
  kstep (rmul_spec r4 (Rat n 1) C4 (canon_int n)). kstep (rsub_spec r3 r5 C3 C5).
  kstep (rquot_spec r6 r2 C6 C2 Hdd).
  kstep (rmul_spec b1 a2 Cb1 Ca2). kstep (rmul_spec a1 b2 Ca1 Cb2). kstep (rsub_spec r8 r9 C8 C9).
  kstep (rquot_spec r10 r2 C10 C2 Hdd).
  destruct (build_spec r7 r11 n C7 C11 Hn Hns) as (res & E12 & D & W & B & _). rewrite E12. cbn [obind].
  exists res. split; [reflexivity |]. split; [| split; assumption].
  eapply denotes_peq; [exact D |]. unfold pdiv, pnorm. split; cbn [fst snd].
  - rewrite V7, V6, V3, V5, V4, V2, V, V1, V0, !qval_int. reflexivity.
  - rewrite V11, V10, V8, V9, V2, V, V1, V0, !qval_int. reflexivity.
Qed.

(* division by zero: nil *)
Lemma kernel_div_zero a1 b1 a2 b2 n : canon a1 -> canon b1 -> canon a2 -> canon b2 ->
  pzero (qval a2, qval b2) -> k_div a1 b1 a2 b2 n = Val None.
Proof.
  intros Ca1 Cb1 Ca2 Cb2 [Z1 Z2]. cbn [fst snd] in Z1, Z2. unfold k_div.
  kstep (rmul_spec a2 a2 Ca2 Ca2). kstep (rmul_spec b2 b2 Cb2 Cb2).
  kstep (rmul_spec r0 (Rat n 1) C0 (canon_int n)). kstep (rsub_spec r r1 C C1).
  assert (Hdd : qval r2 == 0) by (rewrite V2, V, V1, V0, Z1, Z2; ring).
  apply rsign_zero in Hdd; [| exact C2]. now rewrite Hdd.
Qed.

Lemma surd_ops_unfold x y :
  surd_add x y = with_radical x y k_add /\ surd_sub x y = with_radical x y k_sub /\
  surd_mul x y = with_radical x y k_mul /\ surd_div x y = with_radical x y k_div.
Proof. repeat split; reflexivity. Qed.

(* lifting a kernel through the prologue *)
Lemma with_radical_exact k pop pre x y n px py :
  kernel_ok k pop pre ->
  (forall m p p' q q', peq p p' -> peq q q' -> peq (pop m p q) (pop m p' q')) ->
  (forall m q q', peq q q' -> pre m q -> pre m q') ->
  wf_num x -> wf_num y -> is_surd x \/ is_surd y -> 1 < n ->
  denotes x n px -> denotes y n py -> pre n py ->
  exists r, with_radical x y k = Val (Some r) /\ denotes r n (pop n px py) /\ wf_num r /\ built r.
Proof.
  intros Hk Hpop Hpre Hx Hy Hs Hn Dx Dy Hp.
  destruct (with_radical_spec x y k Hx Hy Hs) as
    [(a & b & n1 & c & d & m & -> & -> & Hne & _) |
     (a1 & b1 & a2 & b2 & n0 & E & Ca1 & Cb1 & Ca2 & Cb2 & Hn0 & Hns & D1 & D2 & U1 & U2)].
  - exfalso. cbn [denotes] in Dx, Dy. destruct Dx as [-> _]. destruct Dy as [-> _]. now apply Hne.
  - assert (n0 = n).
    { destruct Hs as [Hs|Hs]; [symmetry; apply (U1 n px Dx Hn Hs) | symmetry; apply (U2 n py Dy Hn Hs)]. }
    subst n0. rewrite E.
    pose proof (denotes_fun _ _ _ _ D1 Dx) as P1. pose proof (denotes_fun _ _ _ _ D2 Dy) as P2.
    assert (Hp' : pre n (qval a2, qval b2)).
    { apply (Hpre n py); [| exact Hp]. destruct P2; split; symmetry; assumption. }
    destruct (Hk a1 b1 a2 b2 n Ca1 Cb1 Ca2 Cb2 Hn Hns Hp') as (r & Er & Dr & W & B).
    exists r. split; [exact Er |]. split; [| split; assumption].
    eapply denotes_peq; [exact Dr |]. apply Hpop; assumption.
Qed.

Lemma padd_peq (m : Z) p p' q q' : peq p p' -> peq q q' -> peq (padd p q) (padd p' q').
Proof. intros [A B] [C D]. split; cbn [fst snd padd]; [now rewrite A, C | now rewrite B, D]. Qed.
Lemma psub_peq (m : Z) p p' q q' : peq p p' -> peq q q' -> peq (psub p q) (psub p' q').
Proof. intros [A B] [C D]. split; cbn [fst snd psub]; [now rewrite A, C | now rewrite B, D]. Qed.
Lemma pmul_peq m p p' q q' : peq p p' -> peq q q' -> peq (pmul m p q) (pmul m p' q').
Proof. intros [A B] [C D]. split; cbn [fst snd pmul]; now rewrite A, B, C, D. Qed.
Lemma pdiv_peq m p p' q q' : peq p p' -> peq q q' -> peq (pdiv m p q) (pdiv m p' q').
Proof. intros [A B] [C D]. unfold pdiv, pnorm. split; cbn [fst snd]; now rewrite A, B, C, D. Qed.
Lemma pzero_peq (m : Z) q q' : peq q q' -> ~ pzero q -> ~ pzero q'.
Proof. intros [A B] H [Z1 Z2]. apply H. split; [now rewrite A | now rewrite B]. Qed.

(* the exported operations route surd operands to the kernel *)
Lemma public_surd_route x y : is_surd x \/ is_surd y ->
  add (Some x) (Some y) = surd_add x y /\ sub (Some x) (Some y) = surd_sub x y /\
  mul (Some x) (Some y) = surd_mul x y /\ div (Some x) (Some y) = surd_div x y /\
  compare (Some x) (Some y) = surd_compare x y.
Proof.
  intros [H|H].
  - destruct x as [c|a b n]; [destruct H |]. repeat split; reflexivity.
  - destruct y as [c|a b n]; [destruct H |]. destruct x as [[z|p q]|a' b' n']; repeat split; reflexivity.
Qed.

(* surd add/sub/mul/div are exact in Q(sqrt n); results in canonical build form *)
Theorem surd_arith_exact x y n px py :
  wf_num x -> wf_num y -> is_surd x \/ is_surd y -> 1 < n -> denotes x n px -> denotes y n py ->
  (exists r, add (Some x) (Some y) = Val (Some r) /\ denotes r n (padd px py) /\ wf_num r /\ built r) /\
  (exists r, sub (Some x) (Some y) = Val (Some r) /\ denotes r n (psub px py) /\ wf_num r /\ built r) /\
  (exists r, mul (Some x) (Some y) = Val (Some r) /\ denotes r n (pmul n px py) /\ wf_num r /\ built r) /\
  (~ pzero py -> exists r, div (Some x) (Some y) = Val (Some r) /\ denotes r n (pdiv n px py) /\ wf_num r /\ built r).
Proof.
  intros Hx Hy Hs Hn Dx Dy.
  destruct (public_surd_route x y Hs) as (-> & -> & -> & -> & _).
  destruct (surd_ops_unfold x y) as (-> & -> & -> & ->).
  split; [| split; [| split]].
  - apply (with_radical_exact k_add (fun _ => padd) (fun _ _ => True)); auto using kernel_add_ok, padd_peq.
  - apply (with_radical_exact k_sub (fun _ => psub) (fun _ _ => True)); auto using kernel_sub_ok, psub_peq.
  - apply (with_radical_exact k_mul pmul (fun _ _ => True)); auto using kernel_mul_ok, pmul_peq.
  - intros Hnz. apply (with_radical_exact k_div pdiv (fun _ p => ~ pzero p)); auto using kernel_div_ok, pdiv_peq.
    intros m q q' P H. exact (pzero_peq m q q' P H).
Qed.

(* ---------------------------------------------------------------- incompatible radicals *)
Lemma with_radical_mixed {A} a b n c d m (k : rat -> rat -> rat -> rat -> Z -> outcome (option A)) :
  wf_num (NSurd a b n) -> wf_num (NSurd c d m) -> n <> m ->
  with_radical (NSurd a b n) (NSurd c d m) k = Val None.
Proof.
  intros Hx Hy Hne.
  destruct (with_radical_spec _ _ k Hx Hy (or_introl I)) as
    [(? & ? & ? & ? & ? & ? & _ & _ & _ & E) | (a1 & b1 & a2 & b2 & n0 & _ & _ & _ & _ & _ & Hn0 & _ & _ & _ & U1 & U2)].
  - exact E.
  - exfalso. destruct Hx as (_ & _ & _ & Hn & _). destruct Hy as (_ & _ & _ & Hm & _).
    assert (n = n0) by (apply (U1 n (cq a, cq b)); [repeat split; reflexivity | exact Hn | exact I]).
    assert (m = n0) by (apply (U2 m (cq c, cq d)); [repeat split; reflexivity | exact Hm | exact I]).
    congruence.
Qed.

Theorem mixed_radicals_nil a b n c d m :
  let x := NSurd a b n in let y := NSurd c d m in
  wf_num x -> wf_num y -> n <> m ->
  add (Some x) (Some y) = Val None /\ sub (Some x) (Some y) = Val None /\
  mul (Some x) (Some y) = Val None /\ div (Some x) (Some y) = Val None /\
  compare (Some x) (Some y) = Val None /\
  eqp (Some x) (Some y) = Val false /\ ltp (Some x) (Some y) = Val false /\ lep (Some x) (Some y) = Val false /\
  gtp (Some x) (Some y) = Val false /\ gep (Some x) (Some y) = Val false /\
  min_fixed (Some x) (Some y) = Val None /\ max_fixed (Some x) (Some y) = Val None /\
  (forall z, clamp_fixed (Some x) (Some y) z = Val None \/ z = None).
Proof.
  intros x y Hx Hy Hne.
  assert (C : compare (Some x) (Some y) = Val None) by (apply with_radical_mixed; assumption).
  split; [apply with_radical_mixed; assumption |]. split; [apply with_radical_mixed; assumption |].
  split; [apply with_radical_mixed; assumption |]. split; [apply with_radical_mixed; assumption |].
  split; [exact C |].
  unfold eqp, ltp, lep, gtp, gep, pred, min_fixed, max_fixed. rewrite C. cbn [obind].
  repeat split; try reflexivity.
  intros [z|]; [left | now right]. unfold clamp_fixed. unfold x, y in *. rewrite C. reflexivity.
Qed.

Lemma nonsquare_2 : nonsquare 2.
Proof. intros k E. assert (-2 < k < 2) by nia. assert (k = -1 \/ k = 0 \/ k = 1) by lia. lia. Qed.
Lemma nonsquare_3 : nonsquare 3.
Proof. intros k E. assert (-2 < k < 2) by nia. assert (k = -1 \/ k = 0 \/ k = 1) by lia. lia. Qed.
Lemma nonsquare_5 : nonsquare 5.
Proof. intros k E. assert (-3 < k < 3) by nia. assert (k = -2 \/ k = -1 \/ k = 0 \/ k = 1 \/ k = 2) by lia. lia. Qed.

Definition sqrt2 := NSurd (CInt 0) (CInt 1) 2.
Definition sqrt3 := NSurd (CInt 0) (CInt 1) 3.
Definition sqrt5 := NSurd (CInt 0) (CInt 1) 5.
Lemma wf_sqrt2 : wf_num sqrt2.
Proof. repeat split; try apply wfc_int; try lia; [discriminate | apply nonsquare_2]. Qed.
Lemma wf_sqrt3 : wf_num sqrt3.
Proof. repeat split; try apply wfc_int; try lia; [discriminate | apply nonsquare_3]. Qed.
Lemma wf_sqrt5 : wf_num sqrt5.
Proof. repeat split; try apply wfc_int; try lia; [discriminate | apply nonsquare_5]. Qed.

(* F14: the code as written does NOT yield nil for min/max/clamp on incompatible radicals *)
Theorem minmax_mixed_radicals_refuted :
  exists x y z, wf_num x /\ wf_num y /\ wf_num z /\
    (exists a b n c d m, x = NSurd a b n /\ y = NSurd c d m /\ n <> m) /\
    min (Some x) (Some y) = Val (Some x) /\ max (Some x) (Some y) = Val (Some x) /\
    clamp (Some x) (Some y) (Some z) = Val (Some x).
Proof.
  exists sqrt2, sqrt3, sqrt5. split; [apply wf_sqrt2 |]. split; [apply wf_sqrt3 |]. split; [apply wf_sqrt5 |].
  split; [exists (CInt 0), (CInt 1), 2, (CInt 0), (CInt 1), 3; repeat split; lia |].
  repeat split; vm_compute; reflexivity.
Qed.

(* ---------------------------------------------------------------- the sign of a + b sqrt n *)
(* the decision procedure of num.qv:154-176, as a function of the values *)
Definition surd_sign (qa qb : Q) (n : Z) : Z :=
  match (qb ?= 0)%Q with
  | Eq => zcmp (qa ?= 0)%Q
  | Gt => match (qa ?= 0)%Q with Lt => - zcmp (qa * qa ?= qb * qb * inject_Z n)%Q | _ => 1 end
  | Lt => match (qa ?= 0)%Q with Gt => zcmp (qa * qa ?= qb * qb * inject_Z n)%Q | _ => -1 end
  end.

Lemma zcmp_bi a b : bi_compare a b = zcmp (a ?= b).
Proof. reflexivity. Qed.

Lemma ssign_spec a b n : canon a -> canon b ->
  ssign a b n = Val (surd_sign (qval a) (qval b) n).
Proof.
  intros Ca Cb. unfold ssign, surd_sign.
  rewrite (rsign_spec b Cb), (rsign_spec a Ca).
  destruct (qval b ?= 0)%Q eqn:Sb; cbn [zcmp].
  - reflexivity.
  - change (bi_compare (-1) 0 =? 0) with false. change (bi_compare (-1) 0 =? 1) with false. cbv iota.
    kstep (rmul_spec a a Ca Ca). kstep (rmul_spec b b Cb Cb). kstep (rmul_spec r0 (Rat n 1) C0 (canon_int n)).
    rewrite (rcompare_spec r r1 C C1). rewrite V, V1, V0, qval_int.
    destruct (qval a ?= 0)%Q; cbn [zcmp]; reflexivity.
  - change (bi_compare 1 0 =? 0) with false. change (bi_compare 1 0 =? 1) with true. cbv iota.
    kstep (rmul_spec a a Ca Ca). kstep (rmul_spec b b Cb Cb). kstep (rmul_spec r0 (Rat n 1) C0 (canon_int n)).
    rewrite (rcompare_spec r r1 C C1). rewrite V, V1, V0, qval_int.
    destruct (qval a ?= 0)%Q; cbn [zcmp]; try reflexivity.
    destruct (qval a * qval a ?= qval b * qval b * inject_Z n)%Q; reflexivity.
Qed.

Lemma surd_sign_range qa qb n : surd_sign qa qb n = -1 \/ surd_sign qa qb n = 0 \/ surd_sign qa qb n = 1.
Proof.
  unfold surd_sign. destruct (qb ?= 0)%Q; destruct (qa ?= 0)%Q;
    try destruct (qa * qa ?= qb * qb * inject_Z n)%Q; cbn; lia.
Qed.

Lemma surd_sign_proper qa qa' qb qb' n : qa == qa' -> qb == qb' -> surd_sign qa qb n = surd_sign qa' qb' n.
Proof.
  intros H1 H2. unfold surd_sign.
  assert (E1 : (qb ?= 0)%Q = (qb' ?= 0)%Q) by (apply Qcompare_comp; [exact H2 | reflexivity]).
  assert (E2 : (qa ?= 0)%Q = (qa' ?= 0)%Q) by (apply Qcompare_comp; [exact H1 | reflexivity]).
  assert (E3 : (qa * qa ?= qb * qb * inject_Z n)%Q = (qa' * qa' ?= qb' * qb' * inject_Z n)%Q)
    by (apply Qcompare_comp; [rewrite H1 | rewrite H2]; reflexivity).
  rewrite E1, E2, E3. reflexivity.
Qed.

(* compare on operands of one field: the sign of the difference; never an error *)
Definition k_cmp := fun a1 b1 a2 b2 n => a <- rsub a1 a2 ;; b <- rsub b1 b2 ;; s <- ssign a b n ;; Val (Some s).

Lemma compare_surd x y : wf_num x -> wf_num y -> is_surd x \/ is_surd y ->
  (exists a b n c d m, x = NSurd a b n /\ y = NSurd c d m /\ n <> m /\ compare (Some x) (Some y) = Val None) \/
  (exists n px py, 1 < n /\ nonsquare n /\ denotes x n px /\ denotes y n py /\
     compare (Some x) (Some y) = Val (Some (surd_sign (fst (psub px py)) (snd (psub px py)) n))).
Proof.
  intros Hx Hy Hs. destruct (public_surd_route x y Hs) as (_ & _ & _ & _ & ->).
  change (surd_compare x y) with (with_radical x y k_cmp).
  destruct (with_radical_spec x y k_cmp Hx Hy Hs) as
    [(a & b & n1 & c & d & m & Ex & Ey & Hne & E) |
     (a1 & b1 & a2 & b2 & n0 & E & Ca1 & Cb1 & Ca2 & Cb2 & Hn0 & Hns & D1 & D2 & _ & _)].
  - left. exists a, b, n1, c, d, m. auto.
  - right. exists n0, (qval a1, qval b1), (qval a2, qval b2).
    do 4 (split; [assumption |]). rewrite E. unfold k_cmp.
    kstep (rsub_spec a1 a2 Ca1 Ca2). kstep (rsub_spec b1 b2 Cb1 Cb2).
    rewrite (ssign_spec r r0 n0 C C0). cbn [obind psub fst snd].
    do 2 f_equal. apply surd_sign_proper; assumption.
Qed.

Lemma compare_total x y : wf_num x -> wf_num y ->
  exists c, compare (Some x) (Some y) = Val c /\
            (c = None \/ c = Some (-1) \/ c = Some 0 \/ c = Some 1).
Proof.
  intros Hx Hy.
  destruct x as [cx|ax bx nx].
  - destruct y as [cy|ay by_ ny].
    + rewrite compare_coeff by assumption. eexists. split; [reflexivity |].
      destruct (cq cx ?= cq cy)%Q; cbn; tauto.
    + destruct (compare_surd (NC cx) (NSurd ay by_ ny) Hx Hy (or_intror I)) as
        [(? & ? & ? & ? & ? & ? & _ & _ & _ & E) | (n & px & py & _ & _ & _ & _ & E)];
        rewrite E; eexists; (split; [reflexivity |]); [tauto |].
      destruct (surd_sign_range (fst (psub px py)) (snd (psub px py)) n) as [H|[H|H]]; rewrite H; tauto.
  - destruct (compare_surd (NSurd ax bx nx) y Hx Hy (or_introl I)) as
        [(? & ? & ? & ? & ? & ? & _ & _ & _ & E) | (n & px & py & _ & _ & _ & _ & E)];
        rewrite E; eexists; (split; [reflexivity |]); [tauto |].
    destruct (surd_sign_range (fst (psub px py)) (snd (psub px py)) n) as [H|[H|H]]; rewrite H; tauto.
Qed.

(* ---------------------------------------------------------------- the square-free search (num.qv:104-119) *)
Definition sq_inv (N : Z) (s : sqstate) : Prop :=
  let '(k, m, d) := s in
  0 < k /\ 0 < m /\ 2 <= d /\ k * k * m = N /\ (forall e, 2 <= e < d -> ~ (e * e | m)).
Definition sq_post (N : Z) (r : outcome (Z * Z)) : Prop :=
  exists k m, r = Val (k, m) /\ 0 < k /\ 0 < m /\ k * k * m = N /\ squarefree m.
(* potential: 0 on terminal states (d^2 > m), else 2m - d + 1 > 0 *)
Definition sq_mu (s : sqstate) : Z := let '(k, m, d) := s in if d * d <=? m then 2 * m - d + 1 else 0.

Lemma sq_mu_nonneg s : sq_inv 1 s \/ True -> 0 <= sq_mu s \/ True.
Proof. tauto. Qed.

Lemma sqfree_step_spec N s : sq_inv N s ->
  match sqfree_step s with
  | inr r => sq_post N r
  | inl s' => sq_inv N s' /\ sq_mu s' + 1 <= sq_mu s /\ 0 <= sq_mu s'
  end.
Proof.
  destruct s as [[k m] d]. intros (Hk & Hm & Hd & HN & Hsf). unfold sqfree_step.
  rewrite bi_compare_pos.
  destruct (Z.ltb_spec m (d * d)) as [Hterm|Hcont].
  - (* d^2 > m: done, m is square-free *)
    exists k, m. repeat split; try assumption.
    intros e He [q Hq]. assert (Hq0 : 0 < q) by nia.
    assert (e < d) by nia. apply (Hsf e); [lia | exists q; exact Hq].
  - assert (Hdd : d * d <> 0) by nia.
    unfold bi_modulo, bi_divide. destruct (Z.eqb_spec (d * d) 0) as [?|_]; [contradiction |].
    destruct (Z.eqb_spec (Z.rem m (d * d)) 0) as [Hrem|Hrem].
    + apply Z.rem_divide in Hrem; [| exact Hdd]. destruct Hrem as [q Hq].
      assert (Hquot : Z.quot m (d * d) = q) by (rewrite Hq; apply Z.quot_mul; exact Hdd).
      rewrite Hquot. assert (Hq0 : 0 < q) by nia.
      split; [| split].
      * unfold sq_inv. repeat split; try nia.
        intros e He [q' Hq']. apply (Hsf e He). exists (q' * (d * d)). rewrite Hq, Hq'. ring.
      * unfold sq_mu. destruct (Z.leb_spec (d * d) m) as [_|?]; [| lia].
        destruct (Z.leb_spec (d * d) q); nia.
      * unfold sq_mu. destruct (Z.leb_spec (d * d) q); nia.
    + split; [| split].
      * unfold sq_inv. repeat split; try assumption; try lia.
        intros e He Hdiv. destruct (Z.eq_dec e d) as [->|Hne].
        -- apply Hrem. apply Z.rem_divide; assumption.
        -- apply (Hsf e); [lia | exact Hdiv].
      * unfold sq_mu. destruct (Z.leb_spec (d * d) m) as [_|?]; [| lia].
        destruct (Z.leb_spec ((d + 1) * (d + 1)) m); nia.
      * unfold sq_mu. destruct (Z.leb_spec ((d + 1) * (d + 1)) m); nia.
Qed.

Lemma sqfree_pow_spec N n s : sq_inv N s ->
  match sqfree_pow n s with
  | inr r => sq_post N r
  | inl s' => sq_inv N s' /\ sq_mu s' + 2 ^ Z.of_nat n <= sq_mu s /\ 0 <= sq_mu s'
  end.
Proof.
  revert s. induction n as [|n IH]; intros s Hs.
  - cbn [sqfree_pow]. pose proof (sqfree_step_spec N s Hs) as H. destruct (sqfree_step s); [| exact H].
    change (2 ^ Z.of_nat 0) with 1. exact H.
  - cbn [sqfree_pow]. pose proof (IH s Hs) as H1. destruct (sqfree_pow n s) as [s1|r]; [| exact H1].
    destruct H1 as (I1 & M1 & P1). pose proof (IH s1 I1) as H2.
    destruct (sqfree_pow n s1) as [s2|r]; [| exact H2].
    destruct H2 as (I2 & M2 & P2). split; [exact I2 |]. split; [| exact P2].
    rewrite Nat2Z.inj_succ, Z.pow_succ_r by lia. lia.
Qed.

(* the fuel passed by `sqfree` always suffices, no modulo/divide by zero is reached, and the result
   is the square-free factorisation: N = k^2 m with m square-free *)
Theorem sqfree_spec N : 0 < N -> sq_post N (sqfree 1 N 2).
Proof.
  intros HN. unfold sqfree.
  assert (I0 : sq_inv N (1, N, 2)).
  { unfold sq_inv. repeat split; try lia. }
  pose proof (sqfree_pow_spec N (sqfree_fuel N) (1, N, 2) I0) as H.
  destruct (sqfree_pow (sqfree_fuel N) (1, N, 2)) as [s'|r]; [| exact H].
  exfalso. destruct H as (_ & M & P).
  assert (Hmu : sq_mu (1, N, 2) <= 2 * N) by (unfold sq_mu; destruct (2 * 2 <=? N); lia).
  assert (Hpow : 2 * N < 2 ^ Z.of_nat (sqfree_fuel N)).
  { unfold sqfree_fuel. rewrite !Nat2Z.inj_succ, Z2Nat.id by apply Z.log2_nonneg.
    rewrite !Z.pow_succ_r by (pose proof (Z.log2_nonneg N); lia).
    pose proof (Z.log2_spec N HN) as [_ Hl]. rewrite Z.pow_succ_r in Hl by apply Z.log2_nonneg. lia. }
  lia.
Qed.

(* ---------------------------------------------------------------- sqrt (num.qv:354-367) *)
Theorem sqrt_coeff c p q : wfc c -> to_rational c = Rat p q ->
  (p < 0 -> sqrt (Some (NC c)) = Val None) /\
  (p = 0 -> sqrt (Some (NC c)) = Val (Some (NInt 0))) /\
  (0 < p -> exists r, sqrt (Some (NC c)) = Val (Some r) /\ built r /\
      ((exists c', r = NC c' /\ wfc c' /\ (0 < cq c')%Q /\ cq c' * cq c' == cq c) \/
       (exists b m, r = NSurd (CInt 0) b m /\ wfc b /\ (0 < cq b)%Q /\ 1 < m /\ squarefree m /\
                    cq b * cq b * inject_Z m == cq c))).
Proof.
  intros Hc E. pose proof Hc as Hc'. unfold wfc in Hc'. rewrite E in Hc'. destruct Hc' as [Hq _].
  cbn [sqrt]. rewrite E. rewrite bi_compare_neg, bi_compare_zero.
  split; [| split].
  - intros Hp. destruct (Z.ltb_spec p 0); [reflexivity | lia].
  - intros ->. reflexivity.
  - intros Hp. destruct (Z.ltb_spec p 0); [lia |]. destruct (Z.eqb_spec p 0); [lia |].
    destruct (sqfree_spec (p * q) ltac:(nia)) as (k & m & Esq & Hk & Hm & Hkm & Hsf).
    rewrite Esq. cbn [obind].
    destruct (reduce_q k q Hq) as (b & Eb & Cb & Vb). rewrite Eb. cbn [obind].
    assert (Hbpos : (0 < qval b)%Q).
    { rewrite Vb. unfold qval, Qlt. cbn [Qnum Qden]. lia. }
    assert (Hval : qval b * qval b * inject_Z m == cq c).
    { rewrite Vb. unfold cq. rewrite E. unfold qval, inject_Z, Qeq, Qmult. cbn [Qnum Qden].
      rewrite !Pos2Z.inj_mul, !Z2Pos.id by assumption. nia. }
    destruct (Z.eq_dec m 1) as [->|Hm1].
    + (* perfect square: a plain rational / integer *)
      unfold build. change (bi_compare 1 1 =? 0) with true. cbv iota.
      destruct (radd_spec (Rat 0 1) b canon_zero Cb) as (r & Er & Cr & Vr). rewrite Er. cbn [obind].
      destruct (lower_rat_spec r Cr) as (W & V & L).
      eexists. split; [reflexivity |]. split; [exact L |]. left. eexists. split; [reflexivity |].
      split; [exact W |]. assert (Vr' : qval r == qval b) by (rewrite Vr; unfold qval at 1; cbn; ring).
      split; [rewrite V, Vr'; exact Hbpos |]. rewrite V, Vr'. rewrite <- Hval. change (inject_Z 1) with 1%Q. ring.
    + assert (Hm2 : 1 < m) by lia.
      destruct (build_spec (Rat 0 1) b m canon_zero Cb Hm2 (squarefree_nonsquare m Hm2 Hsf))
        as (r & Er & D & W & B & S).
      rewrite Er. cbn [obind]. exists r. split; [reflexivity |]. split; [exact B |]. right.
      assert (Hs : is_surd r) by (apply S; intros Z0; rewrite Z0 in Hbpos; discriminate).
      destruct r as [?|a' b' m']; [destruct Hs |].
      unfold build in Er. rewrite bi_compare_zero in Er. destruct (Z.eqb_spec m 1); [lia |].
      destruct (rsign b =? 0); [discriminate |]. injection Er as <- <- <-.
      destruct (lower_rat_spec b Cb) as (Wb & Vb' & Lb).
      exists (lower (rat_coeff b)), m. split; [reflexivity |]. split; [exact Wb |].
      split; [rewrite Vb'; exact Hbpos |]. split; [exact Hm2 |]. split; [exact Hsf |].
      rewrite Vb'. exact Hval.
Qed.

(* ---------------------------------------------------------------- never a runtime error *)
Definition wf_opt (o : opt) : Prop := match o with Some x => wf_num x | None => True end.

Lemma pzero_dec (p : qpair) : {pzero p} + {~ pzero p}.
Proof.
  destruct p as [a b]. unfold pzero. cbn [fst snd].
  destruct (Qeq_dec a 0); [destruct (Qeq_dec b 0); [left; tauto | right; tauto] | right; tauto].
Qed.

Lemma with_radical_total k pop pre x y :
  kernel_ok k pop pre ->
  (forall a1 b1 a2 b2 n, canon a1 -> canon b1 -> canon a2 -> canon b2 -> ~ pre n (qval a2, qval b2) ->
       k a1 b1 a2 b2 n = Val None) ->
  (forall n p, {pre n p} + {~ pre n p}) ->
  wf_num x -> wf_num y -> is_surd x \/ is_surd y ->
  exists v, with_radical x y k = Val v /\ wf_opt v.
Proof.
  intros Hk Hz Hdec Hx Hy Hs.
  destruct (with_radical_spec x y k Hx Hy Hs) as
    [(? & ? & ? & ? & ? & ? & _ & _ & _ & E) |
     (a1 & b1 & a2 & b2 & n & E & Ca1 & Cb1 & Ca2 & Cb2 & Hn & Hns & _)].
  - exists None. split; [exact E | exact I].
  - rewrite E. destruct (Hdec n (qval a2, qval b2)) as [Hp|Hp].
    + destruct (Hk a1 b1 a2 b2 n Ca1 Cb1 Ca2 Cb2 Hn Hns Hp) as (r & Er & _ & W & _).
      exists (Some r). split; [exact Er | exact W].
    + rewrite (Hz a1 b1 a2 b2 n Ca1 Cb1 Ca2 Cb2 Hp). exists None. split; [reflexivity | exact I].
Qed.

Lemma true_dec : forall (n : Z) (p : qpair), {True} + {~ True}.
Proof. intros. left. exact I. Qed.

Lemma wfc_result_opt r : wfc r -> wf_opt (Some (NC r)).
Proof. intros H. exact H. Qed.

Lemma arith_total x y : wf_num x -> wf_num y ->
  (exists v, add (Some x) (Some y) = Val v /\ wf_opt v) /\ (exists v, sub (Some x) (Some y) = Val v /\ wf_opt v) /\
  (exists v, mul (Some x) (Some y) = Val v /\ wf_opt v) /\ (exists v, div (Some x) (Some y) = Val v /\ wf_opt v).
Proof.
  intros Hx Hy.
  assert (Hcase : (exists cx cy, x = NC cx /\ y = NC cy) \/ (is_surd x \/ is_surd y)).
  { destruct x as [cx|? ? ?]; [| right; left; exact I]. destruct y as [cy|? ? ?]; [| right; right; exact I].
    left. eauto. }
  destruct Hcase as [(cx & cy & -> & ->) | Hs].
  - cbn [wf_num] in Hx, Hy.
    destruct (add_coeff cx cy Hx Hy) as (r1 & E1 & W1 & _). destruct (sub_coeff cx cy Hx Hy) as (r2 & E2 & W2 & _).
    destruct (mul_coeff cx cy Hx Hy) as (r3 & E3 & W3 & _).
    split; [eexists; split; [exact E1 | exact W1] |]. split; [eexists; split; [exact E2 | exact W2] |].
    split; [eexists; split; [exact E3 | exact W3] |].
    destruct (div_coeff cx cy Hx Hy) as [Hz Hnz]. destruct (Qeq_dec (cq cy) 0) as [Z0|NZ].
    + exists None. split; [apply Hz; exact Z0 | exact I].
    + destruct (Hnz NZ) as (n & d & E & C & _). exists (Some (NRat n d)). split; [exact E | exact C].
  - destruct (public_surd_route x y Hs) as (-> & -> & -> & -> & _).
    destruct (surd_ops_unfold x y) as (-> & -> & -> & ->).
    split; [apply (with_radical_total k_add (fun _ => padd) (fun _ _ => True)); auto using kernel_add_ok, true_dec; intros; tauto |].
    split; [apply (with_radical_total k_sub (fun _ => psub) (fun _ _ => True)); auto using kernel_sub_ok, true_dec; intros; tauto |].
    split; [apply (with_radical_total k_mul pmul (fun _ _ => True)); auto using kernel_mul_ok, true_dec; intros; tauto |].
    apply (with_radical_total k_div pdiv (fun _ p => ~ pzero p)); auto using kernel_div_ok.
    + intros a1 b1 a2 b2 n Ca1 Cb1 Ca2 Cb2 Hp. apply kernel_div_zero; try assumption.
      destruct (pzero_dec (qval a2, qval b2)); [assumption | contradiction].
    + intros n p. destruct (pzero_dec p); [right; tauto | left; assumption].
Qed.

Lemma compare_opt_total x y : wf_opt x -> wf_opt y -> exists c, compare x y = Val c.
Proof.
  intros Hx Hy. destruct x as [x|]; [| eexists; reflexivity].
  destruct y as [y|]; [| destruct x as [[?|? ?]|? ? ?]; eexists; reflexivity].
  destruct (compare_total x y Hx Hy) as (c & E & _). eauto.
Qed.

Lemma neg_total x : wf_opt x -> exists v, neg x = Val v /\ wf_opt v.
Proof.
  intros Hx. destruct x as [[c|a b n]|]; [| | exists None; split; [reflexivity | exact I]].
  - destruct (neg_coeff c Hx) as (r & E & W & _). exists (Some (NC r)). split; [exact E | exact W].
  - destruct Hx as (Ha & Hb & Hnz & Hn & Hns). cbn [neg].
    kstep (rneg_spec (to_rational a) Ha). kstep (rneg_spec (to_rational b) Hb).
    destruct (build_spec r r0 n C C0 Hn Hns) as (res & E1 & _ & W & _). rewrite E1. cbn [obind].
    exists (Some res). split; [reflexivity | exact W].
Qed.

Lemma abs_total x : wf_opt x -> exists v, abs x = Val v /\ wf_opt v.
Proof.
  intros Hx. destruct x as [[c|a b n]|]; [| | exists None; split; [reflexivity | exact I]].
  - destruct (abs_coeff c Hx) as (r & E & W & _). exists (Some (NC r)). split; [exact E | exact W].
  - pose proof Hx as (Ha & Hb & Hnz & Hn & Hns). cbn [abs].
    rewrite (ssign_spec _ _ n Ha Hb). cbn [obind].
    destruct (surd_sign (qval (to_rational a)) (qval (to_rational b)) n =? -1).
    + kstep (rneg_spec (to_rational a) Ha). kstep (rneg_spec (to_rational b) Hb).
      destruct (build_spec r r0 n C C0 Hn Hns) as (res & E1 & _ & W & _). rewrite E1. cbn [obind].
      exists (Some res). split; [reflexivity | exact W].
    + exists (Some (NSurd a b n)). split; [reflexivity | exact Hx].
Qed.

Lemma to_int_total x : wf_num x -> exists t, to_int (Some x) = Val (Some t).
Proof.
  intros Hx. destruct x as [c|a b n].
  - destruct (to_rational c) as [m d] eqn:E. rewrite (to_int_coeff c m d Hx E). eauto.
  - destruct Hx as (Ha & Hb & Hnz & Hn & Hns). cbn [to_int].
    rewrite (ssign_spec _ _ n Ha Hb). cbn [obind].
    assert (Hpair : exists pa qa pb qb,
      (if bi_compare (surd_sign (qval (to_rational a)) (qval (to_rational b)) n) 0 =? -1
       then ra <- rneg (to_rational a) ;; rb <- rneg (to_rational b) ;; Val (ra, rb)
       else Val (to_rational a, to_rational b)) = Val (Rat pa qa, Rat pb qb) /\ 0 < qa /\ 0 < qb).
    { destruct (bi_compare _ 0 =? -1).
      - destruct (rneg_spec (to_rational a) Ha) as ([pa qa] & E1 & [C1 _] & _).
        destruct (rneg_spec (to_rational b) Hb) as ([pb qb] & E2 & [C2 _] & _).
        rewrite E1, E2. cbn [obind]. exists pa, qa, pb, qb. auto.
      - unfold wfc in Ha, Hb. destruct (to_rational a) as [pa qa]. destruct (to_rational b) as [pb qb].
        destruct Ha as [C1 _]. destruct Hb as [C2 _]. exists pa, qa, pb, qb. auto. }
    destruct Hpair as (pa & qa & pb & qb & E & Hqa & Hqb). rewrite E. cbn [obind].
    unfold bi_sqrt. pose proof (Z.square_nonneg (pb * qa)) as Hsq.
    destruct (Z.ltb_spec (pb * qa * (pb * qa) * n) 0) as [Hneg|_]; [nia |]. cbn [obind].
    rewrite bi_divide_ok by nia. cbn [obind]. eauto.
Qed.

Lemma wf_int t : wf_num (NInt t).
Proof. apply wfc_int. Qed.

Lemma floor_total x : wf_num x -> exists f, floor (Some x) = Val (Some f).
Proof.
  intros Hx. unfold floor. destruct (to_int_total x Hx) as (t & E). rewrite E. cbn [obind optz_num option_map].
  destruct (compare_total x (NInt t) Hx (wf_int t)) as (c & Ec & _). rewrite Ec. cbn [obind].
  destruct c as [ [ | p | p ] | ]; try (eexists; reflexivity).
  destruct p; eexists; reflexivity.
Qed.

Lemma ceil_total x : wf_num x -> exists f, ceil (Some x) = Val (Some f).
Proof.
  intros Hx. unfold ceil. destruct (to_int_total x Hx) as (t & E). rewrite E. cbn [obind optz_num option_map].
  destruct (compare_total x (NInt t) Hx (wf_int t)) as (c & Ec & _). rewrite Ec. cbn [obind].
  destruct c as [ [ | p | p ] | ]; try (eexists; reflexivity).
  destruct p; eexists; reflexivity.
Qed.

Lemma round_total x : wf_num x -> exists f, round (Some x) = Val (Some f).
Proof.
  intros Hx. unfold round. destruct (floor_total x Hx) as (f & E). rewrite E. cbn [obind need_int].
  assert (Hmid : wf_num (NRat (f * 2 + 1) 2)) by (split; [lia | apply gcd_odd_2]).
  destruct (compare_total x _ Hx Hmid) as (c & Ec & Hc). rewrite Ec. cbn [obind].
  destruct Hc as [-> | [-> | [-> | ->]]]; try (eexists; reflexivity); destruct (bi_compare f 0 =? -1); eexists; reflexivity.
Qed.

Lemma sqrt_total x : wf_opt x -> exists v, sqrt x = Val v.
Proof.
  intros Hx. destruct x as [[c|a b n]|]; try (eexists; reflexivity).
  destruct (to_rational c) as [p q] eqn:E.
  destruct (sqrt_coeff c p q Hx E) as (H1 & H2 & H3).
  destruct (Z.lt_trichotomy p 0) as [Hp|[Hp|Hp]].
  - rewrite (H1 Hp). eauto.
  - rewrite (H2 Hp). eauto.
  - destruct (H3 Hp) as (r & Er & _). rewrite Er. eauto.
Qed.

(* No exported operation, on nil or well-formed operands, reaches integer_divide / integer_modulo by
   zero, integer_sqrt of a negative, a builtin applied to nil, or fuel exhaustion: the outcome is
   always a value. *)
Theorem never_errs op x y z : wf_opt x -> wf_opt y -> wf_opt z ->
  exists v, run_op op [x; y; z] = Val v.
Proof.
  intros Hx Hy Hz. unfold run_op, arg. cbn [nth].
  assert (Hc : forall u w, wf_opt u -> wf_opt w -> exists c, compare u w = Val c) by (intros; now apply compare_opt_total).
  assert (Hbin : forall (f : opt -> opt -> outcome opt),
            (forall a b, wf_num a -> wf_num b -> exists v, f (Some a) (Some b) = Val v) ->
            (forall b, f None b = Val None) -> (forall a, f (Some a) None = Val None) ->
            exists v, rn (f x y) = Val v).
  { intros f H1 H2 H3. destruct x as [a|]; [| rewrite H2; eexists; reflexivity].
    destruct y as [b|]; [| rewrite H3; eexists; reflexivity].
    destruct (H1 a b Hx Hy) as (v & E). rewrite E. eexists; reflexivity. }
  assert (Hr : forall a : num, (forall (f : opt -> opt -> outcome opt), True) -> True) by auto.
  destruct op.
  - apply Hbin; [intros a b Ha Hb; destruct (arith_total a b Ha Hb) as ((v & E & _) & _); eauto | reflexivity | intros [[?|? ?]|? ? ?]; reflexivity].
  - apply Hbin; [intros a b Ha Hb; destruct (arith_total a b Ha Hb) as (_ & (v & E & _) & _); eauto | reflexivity | intros [[?|? ?]|? ? ?]; reflexivity].
  - apply Hbin; [intros a b Ha Hb; destruct (arith_total a b Ha Hb) as (_ & _ & (v & E & _) & _); eauto | reflexivity | intros [[?|? ?]|? ? ?]; reflexivity].
  - apply Hbin; [intros a b Ha Hb; destruct (arith_total a b Ha Hb) as (_ & _ & _ & (v & E & _)); eauto | reflexivity | intros [[?|? ?]|? ? ?]; reflexivity].
  - destruct (neg_total x Hx) as (v & E & _). rewrite E. eexists; reflexivity.
  - destruct (abs_total x Hx) as (v & E & _). rewrite E. eexists; reflexivity.
  - (* min *) apply Hbin; [| reflexivity | intros [[?|? ?]|? ? ?]; reflexivity].
    intros a b Ha Hb. unfold min. destruct (compare_total a b Ha Hb) as (c & E & _). rewrite E. cbn [obind].
    destruct c as [ [ | p | p ] | ]; try (eexists; reflexivity). destruct p; eexists; reflexivity.
  - (* max *) apply Hbin; [| reflexivity | intros [[?|? ?]|? ? ?]; reflexivity].
    intros a b Ha Hb. unfold max. destruct (compare_total a b Ha Hb) as (c & E & _). rewrite E. cbn [obind].
    destruct c as [ [ | p | p ] | ]; try (eexists; reflexivity). destruct p; eexists; reflexivity.
  - (* clamp *)
    destruct x as [a|]; [| eexists; reflexivity].
    destruct y as [b|]; [| destruct a as [[?|? ?]|? ? ?]; eexists; reflexivity].
    destruct z as [c|]; [| destruct a as [[?|? ?]|? ? ?]; destruct b as [[?|? ?]|? ? ?]; eexists; reflexivity].
    unfold clamp. destruct (compare_total a b Hx Hy) as (c1 & E1 & H1). rewrite E1. cbn [obind].
    destruct (compare_total a c Hx Hz) as (c2 & E2 & H2).
    destruct H1 as [-> | [-> | [-> | ->]]]; try (eexists; reflexivity); rewrite E2; cbn [obind];
      destruct H2 as [-> | [-> | [-> | ->]]]; eexists; reflexivity.
  - (* sign *) unfold sign. destruct (Hc x (Some (NInt 0)) Hx (wf_int 0)) as (c & E). rewrite E. eexists; reflexivity.
  - destruct (sqrt_total x Hx) as (v & E). rewrite E. eexists; reflexivity.
  - destruct x as [[[?|? ?]|? ? ?]|]; eexists; reflexivity.
  - destruct x as [[[?|? ?]|? ? ?]|]; eexists; reflexivity.
  - destruct x as [a|]; [| eexists; reflexivity]. destruct (to_int_total a Hx) as (t & E). rewrite E. eexists; reflexivity.
  - destruct x as [a|]; [| eexists; reflexivity]. destruct (floor_total a Hx) as (t & E). rewrite E. eexists; reflexivity.
  - destruct x as [a|]; [| eexists; reflexivity]. destruct (ceil_total a Hx) as (t & E). rewrite E. eexists; reflexivity.
  - destruct x as [a|]; [| eexists; reflexivity]. destruct (round_total a Hx) as (t & E). rewrite E. eexists; reflexivity.
  - unfold eqp, pred. destruct (Hc x y Hx Hy) as (c & E). rewrite E. destruct c; eexists; reflexivity.
  - unfold ltp, pred. destruct (Hc x y Hx Hy) as (c & E). rewrite E. destruct c; eexists; reflexivity.
  - unfold lep, pred. destruct (Hc x y Hx Hy) as (c & E). rewrite E. destruct c; eexists; reflexivity.
  - unfold gtp, pred. destruct (Hc x y Hx Hy) as (c & E). rewrite E. destruct c; eexists; reflexivity.
  - unfold gep, pred. destruct (Hc x y Hx Hy) as (c & E). rewrite E. destruct c; eexists; reflexivity.
  - (* min_fixed *) apply Hbin; [| reflexivity | intros [[?|? ?]|? ? ?]; reflexivity].
    intros a b Ha Hb. unfold min_fixed. destruct (compare_total a b Ha Hb) as (c & E & _). rewrite E. cbn [obind].
    destruct c as [ [ | p | p ] | ]; try (eexists; reflexivity). destruct p; eexists; reflexivity.
  - (* max_fixed *) apply Hbin; [| reflexivity | intros [[?|? ?]|? ? ?]; reflexivity].
    intros a b Ha Hb. unfold max_fixed. destruct (compare_total a b Ha Hb) as (c & E & _). rewrite E. cbn [obind].
    destruct c as [ [ | p | p ] | ]; try (eexists; reflexivity). destruct p; eexists; reflexivity.
  - (* clamp_fixed *)
    destruct x as [a|]; [| eexists; reflexivity].
    destruct y as [b|]; [| destruct a as [[?|? ?]|? ? ?]; eexists; reflexivity].
    destruct z as [c|]; [| destruct a as [[?|? ?]|? ? ?]; destruct b as [[?|? ?]|? ? ?]; eexists; reflexivity].
    unfold clamp_fixed. destruct (compare_total a b Hx Hy) as (c1 & E1 & H1). rewrite E1. cbn [obind].
    destruct (compare_total a c Hx Hz) as (c2 & E2 & H2).
    destruct H1 as [-> | [-> | [-> | ->]]]; try (eexists; reflexivity); rewrite E2; cbn [obind];
      destruct H2 as [-> | [-> | [-> | ->]]]; eexists; reflexivity.
Qed.
