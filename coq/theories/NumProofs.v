(* NumProofs.v — theorems about the rational kernel and the exported operations of the %num model
   (Num.v) on integer / rational operands.  The surd kernel is in NumSurd.v. *)
From Coq Require Import QArith Qabs Lia ZArith Znumtheory.
From Quiver Require Import Base Num.
Open Scope Z_scope.

(* ---------------------------------------------------------------- vocabulary *)

(* canonical form: denominator positive, lowest terms *)
Definition canon (r : rat) : Prop := let '(Rat n d) := r in 0 < d /\ Z.gcd n d = 1.
(* the value of a rational with positive denominator, in Coq's Q *)
Definition qval (r : rat) : Q := let '(Rat n d) := r in Qmake n (Z.to_pos d).
(* well-formed coefficient, its value *)
Definition wfc (c : coeff) : Prop := canon (to_rational c).
Definition cq (c : coeff) : Q := qval (to_rational c).
Definition is_int (c : coeff) : Prop := match c with CInt _ => True | CRat _ _ => False end.

Lemma wfc_int z : wfc (CInt z).
Proof. unfold wfc, canon, to_rational. split; [lia | apply Z.gcd_1_r]. Qed.

Lemma cq_int z : cq (CInt z) = inject_Z z.
Proof. reflexivity. Qed.

Lemma qval_div n d : 0 < d -> qval (Rat n d) == inject_Z n / inject_Z d.
Proof.
  intros Hd. unfold qval. rewrite Qmake_Qdiv. rewrite Z2Pos.id by assumption. reflexivity.
Qed.

(* Qeq / Qcompare on values are cross-multiplication *)
Lemma qval_eq a b c d : 0 < b -> 0 < d -> (qval (Rat a b) == qval (Rat c d) <-> a * d = c * b).
Proof.
  intros Hb Hd. unfold qval, Qeq. cbn [Qnum Qden]. rewrite !Z2Pos.id by assumption. reflexivity.
Qed.

Lemma qval_compare a b c d : 0 < b -> 0 < d ->
  (qval (Rat a b) ?= qval (Rat c d))%Q = (a * d ?= c * b).
Proof.
  intros Hb Hd. unfold qval, Qcompare. cbn [Qnum Qden]. rewrite !Z2Pos.id by assumption. reflexivity.
Qed.

(* a canonical form is determined by its value *)
Lemma canon_unique a b c d :
  canon (Rat a b) -> canon (Rat c d) -> a * d = c * b -> a = c /\ b = d.
Proof.
  intros [Hb Gb] [Hd Gd] E.
  assert (Hbd : (b | d)).
  { apply Z.gauss with (m := a); [| rewrite Z.gcd_comm; exact Gb]. exists c. exact E. }
  assert (Hdb : (d | b)).
  { apply Z.gauss with (m := c); [| rewrite Z.gcd_comm; exact Gd]. exists a. symmetry. exact E. }
  assert (b = d) by (apply Z.divide_antisym_nonneg; [lia | lia | exact Hbd | exact Hdb]).
  subst d. split; [nia | reflexivity].
Qed.

Lemma canon_qval_unique x y : canon x -> canon y -> qval x == qval y -> x = y.
Proof.
  destruct x as [a b], y as [c d]. intros Hx Hy E.
  pose proof Hx as [Hb _]. pose proof Hy as [Hd _].
  apply (qval_eq a b c d Hb Hd) in E.
  destruct (canon_unique _ _ _ _ Hx Hy E). congruence.
Qed.

(* ---------------------------------------------------------------- builtins *)
Lemma bi_compare_cases a b :
  (a < b /\ bi_compare a b = -1) \/ (a = b /\ bi_compare a b = 0) \/ (b < a /\ bi_compare a b = 1).
Proof.
  unfold bi_compare. destruct (Z.compare_spec a b); [right; left | left | right; right]; auto.
Qed.

Lemma bi_compare_neg a b : (bi_compare a b =? -1) = (a <? b).
Proof. destruct (bi_compare_cases a b) as [[H E]|[[H E]|[H E]]]; rewrite E; cbn; symmetry; [apply Z.ltb_lt | apply Z.ltb_ge | apply Z.ltb_ge]; lia. Qed.
Lemma bi_compare_zero a b : (bi_compare a b =? 0) = (a =? b).
Proof. destruct (bi_compare_cases a b) as [[H E]|[[H E]|[H E]]]; rewrite E; cbn; symmetry; [apply Z.eqb_neq | apply Z.eqb_eq | apply Z.eqb_neq]; lia. Qed.
Lemma bi_compare_pos a b : (bi_compare a b =? 1) = (b <? a).
Proof. destruct (bi_compare_cases a b) as [[H E]|[[H E]|[H E]]]; rewrite E; cbn; symmetry; [apply Z.ltb_ge | apply Z.ltb_ge | apply Z.ltb_lt]; lia. Qed.

Lemma bi_divide_ok a b : b <> 0 -> bi_divide a b = Val (Z.quot a b).
Proof. intros H. unfold bi_divide. destruct (Z.eqb_spec b 0); [contradiction | reflexivity]. Qed.

(* ---------------------------------------------------------------- reduce *)

Definition reduce_body (n d : Z) : outcome rat :=
  let g := bi_gcd n d in n' <- bi_divide n g ;; d' <- bi_divide d g ;; Val (Rat n' d').

Lemma reduce_f_S f n d :
  reduce_f (S f) (Rat n d) =
  if bi_compare d 0 =? -1 then reduce_f f (Rat (n * -1) (d * -1)) else reduce_body n d.
Proof. reflexivity. Qed.

Lemma reduce_body_eq n d : 0 < d ->
  reduce_body n d = Val (Rat (n / Z.gcd n d) (d / Z.gcd n d)).
Proof.
  intros Hd. unfold reduce_body, bi_gcd.
  assert (Hg : Z.gcd n d <> 0) by (intros E; apply Z.gcd_eq_0_r in E; lia).
  cbv zeta. rewrite !bi_divide_ok by assumption. cbn [obind].
  rewrite !Z.quot_div_exact by (auto using Z.gcd_divide_l, Z.gcd_divide_r). reflexivity.
Qed.

(* closed form of reduce for every non-zero denominator; in particular fuel 2 suffices *)
Lemma reduce_eq n d : d <> 0 ->
  reduce (Rat n d) = Val (Rat (Z.sgn d * n / Z.gcd n d) (Z.abs d / Z.gcd n d)).
Proof.
  intros Hd. unfold reduce. rewrite reduce_f_S, bi_compare_neg.
  destruct (Z.ltb_spec d 0) as [Hneg|Hpos].
  - rewrite reduce_f_S, bi_compare_neg.
    destruct (Z.ltb_spec (d * -1) 0) as [H|_]; [lia |].
    rewrite reduce_body_eq by lia.
    replace (n * -1) with (- n) by lia. replace (d * -1) with (- d) by lia.
    rewrite Z.gcd_opp_l, Z.gcd_opp_r.
    replace (Z.sgn d) with (-1) by lia. replace (Z.abs d) with (- d) by lia.
    replace (-1 * n) with (- n) by lia. reflexivity.
  - rewrite reduce_body_eq by lia.
    replace (Z.sgn d) with 1 by lia. replace (Z.abs d) with d by lia.
    replace (1 * n) with n by lia. reflexivity.
Qed.

(* reduce yields the canonical form and preserves the value (cross-multiplied) *)
Lemma reduce_spec n d : d <> 0 ->
  exists n' d', reduce (Rat n d) = Val (Rat n' d') /\ canon (Rat n' d') /\ n' * d = n * d'.
Proof.
  intros Hd. rewrite reduce_eq by assumption.
  remember (Z.gcd n d) as g eqn:Hgdef.
  assert (Hg : 0 < g).
  { pose proof (Z.gcd_nonneg n d). assert (g <> 0) by (subst g; intros E; apply Z.gcd_eq_0_r in E; lia). lia. }
  assert (Hdn : (g | n)) by (subst g; apply Z.gcd_divide_l).
  assert (Hdd : (g | d)) by (subst g; apply Z.gcd_divide_r).
  destruct Hdn as [qn Hn]. destruct Hdd as [qd Hdv].
  exists (Z.sgn d * n / g), (Z.abs d / g). split; [reflexivity |].
  assert (E1 : Z.sgn d * n / g = Z.sgn d * qn).
  { rewrite Hn. rewrite Z.mul_assoc. apply Z.div_mul. lia. }
  assert (E2 : Z.abs d / g = Z.abs qd).
  { rewrite Hdv. rewrite Z.abs_mul. rewrite (Z.abs_eq g) by lia. apply Z.div_mul. lia. }
  split.
  - unfold canon. split.
    + rewrite E2. assert (qd <> 0) by (intros ->; lia). lia.
    + assert (G : Z.gcd (Z.sgn d * n) (Z.abs d) = g).
      { rewrite Hgdef. destruct (Z.sgn_spec d) as [[? S]|[[? S]|[? S]]]; rewrite S.
        - replace (1 * n) with n by lia. now rewrite Z.gcd_abs_r.
        - lia.
        - replace (-1 * n) with (- n) by lia. now rewrite Z.gcd_opp_l, Z.gcd_abs_r. }
      apply Z.gcd_div_gcd; [lia | now symmetry].
  - rewrite E1, E2. clear E1 E2 Hgdef.
    destruct (Z.sgn_spec d) as [[Hs S]|[[Hs S]|[Hs S]]]; rewrite S; clear S.
    + assert (0 < qd) by nia. rewrite (Z.abs_eq qd) by lia. subst n d. ring.
    + lia.
    + assert (qd < 0) by nia. rewrite (Z.abs_neq qd) by lia. subst n d. ring.
Qed.

(* value preservation stated in Q, for any non-zero (possibly negative) denominator *)
Lemma reduce_value n d r : d <> 0 -> reduce (Rat n d) = Val r ->
  canon r /\ qval r == inject_Z n / inject_Z d.
Proof.
  intros Hd E. destruct (reduce_spec n d Hd) as (n' & d' & E' & C & X).
  rewrite E in E'. injection E' as ->. split; [exact C |].
  destruct C as [Hd' _]. rewrite qval_div by assumption.
  assert (Hq : ~ inject_Z d == 0) by (change 0%Q with (inject_Z 0); rewrite inject_Z_injective; lia).
  assert (Hq' : ~ inject_Z d' == 0) by (change 0%Q with (inject_Z 0); rewrite inject_Z_injective; lia).
  apply (Qmult_inj_r _ _ (inject_Z d' * inject_Z d)).
  { intros Z0. apply Qmult_integral in Z0. tauto. }
  transitivity (inject_Z (n' * d)); [rewrite inject_Z_mult; field; assumption |].
  rewrite X. rewrite inject_Z_mult. field. assumption.
Qed.

(* reduce is the identity on canonical forms *)
Lemma reduce_canon_id r : canon r -> reduce r = Val r.
Proof.
  destruct r as [n d]. intros [Hd G]. rewrite reduce_eq by lia. rewrite G.
  rewrite !Z.div_1_r. replace (Z.sgn d) with 1 by lia. replace (Z.abs d) with d by lia.
  now replace (1 * n) with n by lia.
Qed.

(* ---------------------------------------------------------------- rational arithmetic kernel *)

Lemma reduce_q n d : 0 < d ->
  exists r, reduce (Rat n d) = Val r /\ canon r /\ qval r == qval (Rat n d).
Proof.
  intros Hd. destruct (reduce_spec n d) as (n' & d' & E & C & X); [lia |].
  exists (Rat n' d'). split; [exact E | split; [exact C |]].
  destruct C as [Hd' _]. apply qval_eq; assumption.
Qed.

Lemma radd_spec x y : canon x -> canon y ->
  exists r, radd x y = Val r /\ canon r /\ qval r == qval x + qval y.
Proof.
  destruct x as [a b], y as [c d]. intros [Hb _] [Hd _]. unfold radd.
  destruct (reduce_q (a * d + c * b) (b * d)) as (r & E & C & V); [nia |].
  exists r. split; [exact E | split; [exact C |]]. rewrite V.
  unfold qval, Qplus, Qeq. cbn [Qnum Qden]. rewrite Pos2Z.inj_mul, !Z2Pos.id by nia. ring.
Qed.

Lemma rsub_spec x y : canon x -> canon y ->
  exists r, rsub x y = Val r /\ canon r /\ qval r == qval x - qval y.
Proof.
  destruct x as [a b], y as [c d]. intros [Hb _] [Hd _]. unfold rsub.
  destruct (reduce_q (a * d - c * b) (b * d)) as (r & E & C & V); [nia |].
  exists r. split; [exact E | split; [exact C |]]. rewrite V.
  unfold qval, Qminus, Qplus, Qopp, Qeq. cbn [Qnum Qden]. rewrite Pos2Z.inj_mul, !Z2Pos.id by nia. ring.
Qed.

Lemma rmul_spec x y : canon x -> canon y ->
  exists r, rmul x y = Val r /\ canon r /\ qval r == qval x * qval y.
Proof.
  destruct x as [a b], y as [c d]. intros [Hb _] [Hd _]. unfold rmul.
  destruct (reduce_q (a * c) (b * d)) as (r & E & C & V); [nia |].
  exists r. split; [exact E | split; [exact C |]]. rewrite V.
  unfold qval, Qmult, Qeq. cbn [Qnum Qden]. rewrite Pos2Z.inj_mul, !Z2Pos.id by nia. ring.
Qed.

Lemma qval_zero n d : 0 < d -> (qval (Rat n d) == 0 <-> n = 0).
Proof.
  intros Hd. unfold qval, Qeq. cbn [Qnum Qden]. lia.
Qed.

Lemma rquot_spec x y : canon x -> canon y -> ~ qval y == 0 ->
  exists r, rquot x y = Val r /\ canon r /\ qval r == qval x / qval y.
Proof.
  destruct x as [a b], y as [c d]. intros [Hb _] [Hd _] Hnz. unfold rquot.
  assert (Hc : c <> 0) by (intros ->; apply Hnz; apply qval_zero; [assumption | reflexivity]).
  destruct (reduce_spec (a * d) (b * c)) as (n' & d' & E & C & X); [nia |].
  exists (Rat n' d'). split; [exact E | split; [exact C |]].
  destruct C as [Hd' _].
  rewrite !qval_div by assumption.
  assert (Hqb : ~ inject_Z b == 0) by (change 0%Q with (inject_Z 0); rewrite inject_Z_injective; lia).
  assert (Hqc : ~ inject_Z c == 0) by (change 0%Q with (inject_Z 0); rewrite inject_Z_injective; lia).
  assert (Hqd : ~ inject_Z d == 0) by (change 0%Q with (inject_Z 0); rewrite inject_Z_injective; lia).
  assert (Hqd' : ~ inject_Z d' == 0) by (change 0%Q with (inject_Z 0); rewrite inject_Z_injective; lia).
  apply (Qmult_inj_r _ _ (inject_Z d' * (inject_Z b * inject_Z c))).
  { intros Z0. apply Qmult_integral in Z0. destruct Z0 as [Z0|Z0]; [tauto |].
    apply Qmult_integral in Z0. tauto. }
  transitivity (inject_Z (n' * (b * c))); [rewrite !inject_Z_mult; field; assumption |].
  rewrite X. rewrite !inject_Z_mult. field. repeat split; assumption.
Qed.

Lemma rneg_spec x : canon x -> exists r, rneg x = Val r /\ canon r /\ qval r == - qval x.
Proof.
  destruct x as [a b]. intros [Hb _]. unfold rneg.
  destruct (reduce_q (a * -1) b) as (r & E & C & V); [lia |].
  exists r. split; [exact E | split; [exact C |]]. rewrite V.
  unfold qval, Qopp, Qeq. cbn [Qnum Qden]. ring.
Qed.

Lemma rcompare_spec x y : canon x -> canon y ->
  rcompare x y = match (qval x ?= qval y)%Q with Lt => -1 | Eq => 0 | Gt => 1 end.
Proof.
  destruct x as [a b], y as [c d]. intros [Hb _] [Hd _]. unfold rcompare, bi_compare.
  now rewrite qval_compare.
Qed.

Lemma rsign_spec x : canon x ->
  rsign x = match (qval x ?= 0)%Q with Lt => -1 | Eq => 0 | Gt => 1 end.
Proof.
  destruct x as [a b]. intros [Hb _]. unfold rsign, bi_compare, qval, Qcompare. cbn [Qnum Qden].
  now rewrite Z.mul_1_r, Z.mul_0_l.
Qed.

(* ---------------------------------------------------------------- nil propagation *)
Lemma nil_propagates_unary :
  neg None = Val None /\ abs None = Val None /\ sign None = Val None /\ sqrt None = Val None /\
  numer None = Val None /\ denom None = Val None /\ to_int None = Val None /\ floor None = Val None /\
  ceil None = Val None /\ round None = Val None.
Proof. repeat split; reflexivity. Qed.

Lemma nil_propagates_left :
  forall y z, add None y = Val None /\ sub None y = Val None /\ mul None y = Val None /\ div None y = Val None /\
    min None y = Val None /\ max None y = Val None /\ clamp None y z = Val None /\
    eqp None y = Val false /\ ltp None y = Val false /\ lep None y = Val false /\
    gtp None y = Val false /\ gep None y = Val false.
Proof. intros. repeat split; reflexivity. Qed.

Lemma nil_propagates_right :
  forall x z, add x None = Val None /\ sub x None = Val None /\ mul x None = Val None /\ div x None = Val None /\
    min x None = Val None /\ max x None = Val None /\ clamp x None z = Val None /\ clamp x z None = Val None /\
    eqp x None = Val false /\ ltp x None = Val false /\ lep x None = Val false /\
    gtp x None = Val false /\ gep x None = Val false.
Proof.
  intros x z. repeat split;
    try (destruct x as [[[?|? ?]|? ? ?]|]; reflexivity);
    destruct x as [[[?|? ?]|? ? ?]|]; destruct z as [[[?|? ?]|? ? ?]|]; reflexivity.
Qed.

(* ---------------------------------------------------------------- exported operations on int/rational operands *)
Definition zcmp (c : comparison) : Z := match c with Lt => -1 | Eq => 0 | Gt => 1 end.

Lemma wfc_rat n d : wfc (CRat n d) = canon (Rat n d).
Proof. reflexivity. Qed.

Lemma inject_Z_sub a b : inject_Z (a - b) == inject_Z a - inject_Z b.
Proof. unfold Z.sub. rewrite inject_Z_plus, inject_Z_opp. reflexivity. Qed.

(* add/sub/mul: exact value; int op int stays int; any rational operand gives a canonical Rational *)
Lemma arith_coeff sop rop iop (qop : Q -> Q -> Q) x y :
  (forall a b, canon a -> canon b -> exists r, rop a b = Val r /\ canon r /\ qval r == qop (qval a) (qval b)) ->
  (forall a b, inject_Z (iop a b) == qop (inject_Z a) (inject_Z b)) ->
  wfc x -> wfc y ->
  exists r, arith sop rop iop (Some (NC x)) (Some (NC y)) = Val (Some (NC r)) /\ wfc r /\
            cq r == qop (cq x) (cq y) /\ (is_int r <-> is_int x /\ is_int y).
Proof.
  intros Hrop Hiop Hx Hy.
  destruct x as [a|a b].
  - destruct y as [c|c d].
    + exists (CInt (iop a c)). cbn [arith]. split; [reflexivity |]. split; [apply wfc_int |].
      split; [rewrite !cq_int; apply Hiop | cbn; tauto].
    + destruct (Hrop (to_rational (CInt a)) (Rat c d)) as (r & E & C & V); [apply wfc_int | exact Hy |].
      destruct r as [n' d']. exists (CRat n' d'). cbn [arith]. rewrite E. cbn [obind rat_coeff].
      split; [reflexivity |]. split; [exact C |]. split; [exact V | cbn; tauto].
  - destruct (Hrop (Rat a b) (to_rational y)) as (r & E & C & V); [exact Hx | exact Hy |].
    destruct r as [n' d']. exists (CRat n' d'). cbn [arith].
    assert (E' : arith sop rop iop (Some (NC (CRat a b))) (Some (NC y)) = Val (Some (NC (CRat n' d')))).
    { destruct y; cbn [arith]; rewrite E; reflexivity. }
    split; [exact E' |]. split; [exact C |]. split; [exact V | cbn; tauto].
Qed.

Lemma add_coeff x y : wfc x -> wfc y ->
  exists r, add (Some (NC x)) (Some (NC y)) = Val (Some (NC r)) /\ wfc r /\
            cq r == cq x + cq y /\ (is_int r <-> is_int x /\ is_int y).
Proof. apply arith_coeff; [apply radd_spec | intros; rewrite inject_Z_plus; reflexivity]. Qed.
Lemma sub_coeff x y : wfc x -> wfc y ->
  exists r, sub (Some (NC x)) (Some (NC y)) = Val (Some (NC r)) /\ wfc r /\
            cq r == cq x - cq y /\ (is_int r <-> is_int x /\ is_int y).
Proof. apply arith_coeff; [apply rsub_spec | apply inject_Z_sub]. Qed.
Lemma mul_coeff x y : wfc x -> wfc y ->
  exists r, mul (Some (NC x)) (Some (NC y)) = Val (Some (NC r)) /\ wfc r /\
            cq r == cq x * cq y /\ (is_int r <-> is_int x /\ is_int y).
Proof. apply arith_coeff; [apply rmul_spec | intros; rewrite inject_Z_mult; reflexivity]. Qed.

Lemma add_int a b : add (Some (NInt a)) (Some (NInt b)) = Val (Some (NInt (a + b))).
Proof. reflexivity. Qed.
Lemma sub_int a b : sub (Some (NInt a)) (Some (NInt b)) = Val (Some (NInt (a - b))).
Proof. reflexivity. Qed.
Lemma mul_int a b : mul (Some (NInt a)) (Some (NInt b)) = Val (Some (NInt (a * b))).
Proof. reflexivity. Qed.

(* div: always a canonical Rational, or nil exactly when the divisor is zero *)
Lemma div_coeff x y : wfc x -> wfc y ->
  (cq y == 0 -> div (Some (NC x)) (Some (NC y)) = Val None) /\
  (~ cq y == 0 -> exists n d, div (Some (NC x)) (Some (NC y)) = Val (Some (NRat n d)) /\
                             canon (Rat n d) /\ qval (Rat n d) == cq x / cq y).
Proof.
  intros Hx Hy. unfold cq, wfc in *.
  assert (E : div (Some (NC x)) (Some (NC y)) =
              let '(Rat a b) := to_rational x in let '(Rat c d) := to_rational y in
              if c =? 0 then Val None else r <- reduce (Rat (a * d) (b * c)) ;; Val (Some (NC (rat_coeff r)))).
  { destruct x, y; reflexivity. }
  rewrite E. clear E.
  destruct (to_rational x) as [a b] eqn:Ex. destruct (to_rational y) as [c d] eqn:Ey.
  pose proof Hy as [Hd _].
  split.
  - intros Z0. apply qval_zero in Z0; [| exact Hd]. subst c. reflexivity.
  - intros Hnz. destruct (rquot_spec (Rat a b) (Rat c d) Hx Hy Hnz) as ([n' d'] & Er & C & V).
    assert (Hc : c <> 0) by (intros ->; apply Hnz; apply qval_zero; [assumption | reflexivity]).
    destruct (Z.eqb_spec c 0) as [?|_]; [contradiction |].
    unfold rquot in Er. rewrite Er. cbn [obind rat_coeff]. exists n', d'. split; [reflexivity | split; assumption].
Qed.

Lemma compare_coeff x y : wfc x -> wfc y ->
  compare (Some (NC x)) (Some (NC y)) = Val (Some (zcmp (cq x ?= cq y)%Q)).
Proof.
  intros Hx Hy.
  destruct x as [a|a b].
  - destruct y as [c|c d].
    + cbn [compare]. unfold bi_compare, cq, to_rational, qval, Qcompare, zcmp. cbn [Qnum Qden].
      now rewrite !Z.mul_1_r.
    + cbn [compare]. rewrite rcompare_spec; [reflexivity | apply wfc_int | exact Hy].
  - assert (E : compare (Some (NC (CRat a b))) (Some (NC y)) = Val (Some (rcompare (Rat a b) (to_rational y)))).
    { destruct y; reflexivity. }
    rewrite E. rewrite rcompare_spec; [reflexivity | exact Hx | exact Hy].
Qed.

Lemma sign_coeff x : wfc x -> sign (Some (NC x)) = Val (Some (zcmp (cq x ?= 0)%Q)).
Proof. intros Hx. unfold sign, NInt. rewrite compare_coeff; [reflexivity | exact Hx | apply wfc_int]. Qed.

Lemma preds_coeff x y : wfc x -> wfc y ->
  let X := Some (NC x) in let Y := Some (NC y) in
  (exists b, eqp X Y = Val b /\ (b = true <-> cq x == cq y)) /\
  (exists b, ltp X Y = Val b /\ (b = true <-> (cq x < cq y)%Q)) /\
  (exists b, lep X Y = Val b /\ (b = true <-> (cq x <= cq y)%Q)) /\
  (exists b, gtp X Y = Val b /\ (b = true <-> (cq y < cq x)%Q)) /\
  (exists b, gep X Y = Val b /\ (b = true <-> (cq y <= cq x)%Q)).
Proof.
  intros Hx Hy X Y. unfold eqp, ltp, lep, gtp, gep, pred, X, Y.
  rewrite compare_coeff by assumption. cbn [obind].
  destruct (cq x ?= cq y)%Q eqn:C; cbn; repeat split; eexists; (split; [reflexivity |]);
    rewrite ?Qeq_alt, ?Qlt_alt, ?Qle_alt; rewrite <- ?(Qcompare_antisym (cq x) (cq y)), ?C; cbn;
    split; congruence.
Qed.

(* neg / abs preserve the kind *)
Lemma neg_coeff x : wfc x ->
  exists r, neg (Some (NC x)) = Val (Some (NC r)) /\ wfc r /\ cq r == - cq x /\ (is_int r <-> is_int x).
Proof.
  intros Hx. destruct x as [a|a b].
  - exists (CInt (a * -1)). split; [reflexivity |]. split; [apply wfc_int |]. split; [| cbn; tauto].
    rewrite !cq_int. replace (a * -1) with (- a) by lia. rewrite inject_Z_opp. reflexivity.
  - destruct (rneg_spec (Rat a b) Hx) as ([n' d'] & E & C & V).
    exists (CRat n' d'). cbn [neg]. unfold rneg in E. rewrite E. cbn [obind rat_coeff].
    split; [reflexivity |]. split; [exact C |]. split; [exact V | cbn; tauto].
Qed.

Lemma abs_coeff x : wfc x ->
  exists r, abs (Some (NC x)) = Val (Some (NC r)) /\ wfc r /\ cq r == Qabs (cq x) /\ (is_int r <-> is_int x).
Proof.
  intros Hx. destruct x as [a|a b].
  - exists (CInt (Z.abs a)). split; [reflexivity |]. split; [apply wfc_int |]. split; [| cbn; tauto].
    reflexivity.
  - exists (CRat (Z.abs a) b). split; [reflexivity |]. destruct Hx as [Hb G]. split.
    + split; [exact Hb | now rewrite Z.gcd_abs_l].
    + split; [reflexivity | cbn; tauto].
Qed.

Lemma numer_denom_coeff x : wfc x ->
  exists n d, numer (Some (NC x)) = Val (Some n) /\ denom (Some (NC x)) = Val (Some d) /\
              0 < d /\ Z.gcd n d = 1 /\ cq x == inject_Z n / inject_Z d.
Proof.
  intros Hx. destruct x as [a|a b].
  - exists a, 1. repeat split; try reflexivity; try lia. { apply Z.gcd_1_r. }
    rewrite cq_int. unfold Qdiv. change (inject_Z 1) with 1%Q. field.
  - exists a, b. destruct Hx as [Hb G]. repeat split; try reflexivity; try assumption.
    unfold cq. cbn [to_rational]. now apply qval_div.
Qed.

(* min / max / clamp on int/rational operands *)
Lemma min_coeff x y : wfc x -> wfc y ->
  exists r, min (Some (NC x)) (Some (NC y)) = Val (Some (NC r)) /\ (r = x \/ r = y) /\
            (cq r <= cq x)%Q /\ (cq r <= cq y)%Q.
Proof.
  intros Hx Hy. unfold min. rewrite compare_coeff by assumption. cbn [obind].
  destruct (cq x ?= cq y)%Q eqn:C; cbn [zcmp].
  - exists x. split; [reflexivity |]. split; [now left |]. apply Qeq_alt in C. split; [apply Qle_refl | rewrite C; apply Qle_refl].
  - exists x. split; [reflexivity |]. split; [now left |]. apply Qlt_alt in C. split; [apply Qle_refl | now apply Qlt_le_weak].
  - exists y. split; [reflexivity |]. split; [now right |]. apply Qgt_alt in C. split; [now apply Qlt_le_weak | apply Qle_refl].
Qed.

Lemma max_coeff x y : wfc x -> wfc y ->
  exists r, max (Some (NC x)) (Some (NC y)) = Val (Some (NC r)) /\ (r = x \/ r = y) /\
            (cq x <= cq r)%Q /\ (cq y <= cq r)%Q.
Proof.
  intros Hx Hy. unfold max. rewrite compare_coeff by assumption. cbn [obind].
  destruct (cq x ?= cq y)%Q eqn:C; cbn [zcmp].
  - exists x. split; [reflexivity |]. split; [now left |]. apply Qeq_alt in C. split; [apply Qle_refl | rewrite C; apply Qle_refl].
  - exists y. split; [reflexivity |]. split; [now right |]. apply Qlt_alt in C. split; [now apply Qlt_le_weak | apply Qle_refl].
  - exists x. split; [reflexivity |]. split; [now left |]. apply Qgt_alt in C. split; [apply Qle_refl | now apply Qlt_le_weak].
Qed.

Lemma clamp_coeff x lo hi : wfc x -> wfc lo -> wfc hi -> (cq lo <= cq hi)%Q ->
  exists r, clamp (Some (NC x)) (Some (NC lo)) (Some (NC hi)) = Val (Some (NC r)) /\
            (r = x \/ r = lo \/ r = hi) /\ (cq lo <= cq r)%Q /\ (cq r <= cq hi)%Q /\
            ((cq lo <= cq x)%Q -> (cq x <= cq hi)%Q -> r = x).
Proof.
  intros Hx Hlo Hhi Hle. unfold clamp. rewrite compare_coeff by assumption. cbn [obind].
  destruct (cq x ?= cq lo)%Q eqn:C1; cbn [zcmp].
  2:{ apply Qlt_alt in C1. exists lo. split; [reflexivity |]. split; [tauto |].
      split; [apply Qle_refl |]. split; [exact Hle |]. intros H1 _. exfalso. apply (Qlt_not_le _ _ C1 H1). }
  all: rewrite compare_coeff by assumption; cbn [obind];
    assert (Hlx : (cq lo <= cq x)%Q)
      by (first [apply Qeq_alt in C1; rewrite C1; apply Qle_refl | apply Qgt_alt in C1; now apply Qlt_le_weak]);
    destruct (cq x ?= cq hi)%Q eqn:C2; cbn [zcmp].
  all: try (apply Qeq_alt in C2; exists x; split; [reflexivity |]; split; [tauto |];
            split; [exact Hlx |]; split; [rewrite C2; apply Qle_refl | tauto]).
  all: try (apply Qlt_alt in C2; exists x; split; [reflexivity |]; split; [tauto |];
            split; [exact Hlx |]; split; [now apply Qlt_le_weak | tauto]).
  all: apply Qgt_alt in C2; exists hi; split; [reflexivity |]; split; [tauto |];
       split; [exact Hle |]; split; [apply Qle_refl |]; intros _ H2; exfalso; apply (Qlt_not_le _ _ C2 H2).
Qed.

(* to_int / floor / ceil / round on int/rational operands (m/d canonical) *)
Lemma to_int_coeff x m d : wfc x -> to_rational x = Rat m d ->
  to_int (Some (NC x)) = Val (Some (Z.quot m d)).
Proof.
  intros Hx E. unfold wfc in Hx. rewrite E in Hx. destruct Hx as [Hd _].
  cbn [to_int]. rewrite E. rewrite bi_divide_ok by lia. reflexivity.
Qed.

Lemma compare_coeff_int x m d t : wfc x -> to_rational x = Rat m d ->
  compare (Some (NC x)) (Some (NInt t)) = Val (Some (zcmp (m ?= t * d))).
Proof.
  intros Hx E. unfold NInt. rewrite compare_coeff; [| exact Hx | apply wfc_int].
  unfold cq. rewrite E. unfold wfc in Hx. rewrite E in Hx. destruct Hx as [Hd _].
  cbn [to_rational]. rewrite qval_compare by lia. now rewrite Z.mul_1_r.
Qed.

Lemma floor_coeff x m d : wfc x -> to_rational x = Rat m d ->
  floor (Some (NC x)) = Val (Some (m / d)).
Proof.
  intros Hx E. pose proof Hx as Hx'. unfold wfc in Hx'. rewrite E in Hx'. destruct Hx' as [Hd _].
  unfold floor. rewrite (to_int_coeff x m d Hx E). cbn [obind optz_num option_map].
  rewrite (compare_coeff_int x m d _ Hx E). cbn [obind].
  pose proof (Z.quot_rem' m d) as Hqr. pose proof (Z.rem_bound_abs m d ltac:(lia)) as Hb.
  pose proof (Z.rem_sign_mul m d ltac:(lia)) as Hs.
  set (t := Z.quot m d) in *. set (r := Z.rem m d) in *.
  destruct (Z.compare_spec m (t * d)) as [Heq|Hlt|Hgt]; cbn [zcmp need_int].
  - f_equal. f_equal. apply Z.div_unique with (r := 0); lia.
  - f_equal. f_equal. apply Z.div_unique with (r := r + d); [left; nia | nia].
  - f_equal. f_equal. apply Z.div_unique with (r := r); [left; nia | nia].
Qed.

Lemma ceil_coeff x m d : wfc x -> to_rational x = Rat m d ->
  ceil (Some (NC x)) = Val (Some (- ((- m) / d))).
Proof.
  intros Hx E. pose proof Hx as Hx'. unfold wfc in Hx'. rewrite E in Hx'. destruct Hx' as [Hd _].
  unfold ceil. rewrite (to_int_coeff x m d Hx E). cbn [obind optz_num option_map].
  rewrite (compare_coeff_int x m d _ Hx E). cbn [obind].
  pose proof (Z.quot_rem' m d) as Hqr. pose proof (Z.rem_bound_abs m d ltac:(lia)) as Hb.
  pose proof (Z.rem_sign_mul m d ltac:(lia)) as Hs.
  set (t := Z.quot m d) in *. set (r := Z.rem m d) in *.
  destruct (Z.compare_spec m (t * d)) as [Heq|Hlt|Hgt]; cbn [zcmp need_int].
  - f_equal. f_equal. assert (Hq : - m / d = - t) by (symmetry; apply Z.div_unique with (r := 0); lia). lia.
  - f_equal. f_equal. assert (Hq : - m / d = - t) by (symmetry; apply Z.div_unique with (r := - r); [left; nia | nia]). lia.
  - f_equal. f_equal. assert (Hq : - m / d = - (t + 1)) by (symmetry; apply Z.div_unique with (r := d - r); [left; nia | nia]). lia.
Qed.

(* floor and ceil bracket the value: f <= m/d < f+1, c-1 < m/d <= c *)
Lemma floor_ceil_bounds m d : 0 < d ->
  (m / d) * d <= m < (m / d + 1) * d /\ (- ((- m) / d) - 1) * d < m <= - ((- m) / d) * d.
Proof.
  intros Hd. pose proof (Z.div_mod m d ltac:(lia)). pose proof (Z.mod_pos_bound m d Hd).
  pose proof (Z.div_mod (- m) d ltac:(lia)). pose proof (Z.mod_pos_bound (- m) d Hd). nia.
Qed.

Lemma gcd_odd_2 f : Z.gcd (f * 2 + 1) 2 = 1.
Proof. rewrite Z.gcd_comm, Z.add_comm. rewrite Z.gcd_add_mult_diag_r. reflexivity. Qed.

(* round: nearest integer, ties away from zero *)
Lemma round_coeff x m d : wfc x -> to_rational x = Rat m d ->
  exists r, round (Some (NC x)) = Val (Some r) /\
            2 * Z.abs (m - r * d) <= d /\ (2 * Z.abs (m - r * d) = d -> Z.abs m < Z.abs (r * d)).
Proof.
  intros Hx E. pose proof Hx as Hx'. unfold wfc in Hx'. rewrite E in Hx'. destruct Hx' as [Hd _].
  unfold round. rewrite (floor_coeff x m d Hx E). cbn [obind need_int].
  destruct (floor_ceil_bounds m d Hd) as [[Hf1 Hf2] _].
  set (f := m / d) in *.
  assert (Hmid : wfc (CRat (f * 2 + 1) 2)) by (split; [lia | apply gcd_odd_2]).
  unfold NRat. rewrite !compare_coeff by assumption. cbn [obind].
  assert (C : (cq x ?= cq (CRat (f * 2 + 1) 2))%Q = (m * 2 ?= (f * 2 + 1) * d)).
  { unfold cq. rewrite E. cbn [to_rational]. apply qval_compare; lia. }
  rewrite C.
  destruct (Z.compare_spec (m * 2) ((f * 2 + 1) * d)) as [Heq|Hlt|Hgt]; cbn [zcmp].
  - rewrite bi_compare_neg. destruct (Z.ltb_spec f 0) as [Hneg|Hnn].
    + exists f. split; [reflexivity |]. split; [lia |]. intros _. nia.
    + exists (f + 1). split; [reflexivity |]. split; [lia |]. intros _. nia.
  - exists f. split; [reflexivity |]. split; lia.
  - exists (f + 1). split; [reflexivity |]. split; lia.
Qed.

(* ---------------------------------------------------------------- field and order laws, through the value map *)
Lemma coeff_unique r1 r2 : wfc r1 -> wfc r2 -> (is_int r1 <-> is_int r2) -> cq r1 == cq r2 -> r1 = r2.
Proof.
  intros W1 W2 K V. destruct r1 as [a|a b], r2 as [c|c d]; cbn in K; try tauto.
  - rewrite !cq_int in V. apply (proj1 (inject_Z_injective a c)) in V. congruence.
  - pose proof (canon_qval_unique (Rat a b) (Rat c d) W1 W2 V) as E. congruence.
Qed.

Definition andthen (o : outcome opt) (f : opt -> outcome opt) : outcome opt := r <- o ;; f r.

Lemma add_comm_coeff x y : wfc x -> wfc y ->
  add (Some (NC x)) (Some (NC y)) = add (Some (NC y)) (Some (NC x)).
Proof.
  intros Hx Hy. destruct (add_coeff x y Hx Hy) as (r1 & E1 & W1 & V1 & K1).
  destruct (add_coeff y x Hy Hx) as (r2 & E2 & W2 & V2 & K2). rewrite E1, E2. do 3 f_equal.
  apply coeff_unique; [assumption | assumption | tauto | rewrite V1, V2; ring].
Qed.

Lemma mul_comm_coeff x y : wfc x -> wfc y ->
  mul (Some (NC x)) (Some (NC y)) = mul (Some (NC y)) (Some (NC x)).
Proof.
  intros Hx Hy. destruct (mul_coeff x y Hx Hy) as (r1 & E1 & W1 & V1 & K1).
  destruct (mul_coeff y x Hy Hx) as (r2 & E2 & W2 & V2 & K2). rewrite E1, E2. do 3 f_equal.
  apply coeff_unique; [assumption | assumption | tauto | rewrite V1, V2; ring].
Qed.

Lemma add_assoc_coeff x y z : wfc x -> wfc y -> wfc z ->
  andthen (add (Some (NC x)) (Some (NC y))) (fun xy => add xy (Some (NC z))) =
  andthen (add (Some (NC y)) (Some (NC z))) (fun yz => add (Some (NC x)) yz).
Proof.
  intros Hx Hy Hz. unfold andthen.
  destruct (add_coeff x y Hx Hy) as (xy & E1 & W1 & V1 & K1). rewrite E1. cbn [obind].
  destruct (add_coeff xy z W1 Hz) as (r1 & E2 & W2 & V2 & K2). rewrite E2.
  destruct (add_coeff y z Hy Hz) as (yz & E3 & W3 & V3 & K3). rewrite E3. cbn [obind].
  destruct (add_coeff x yz Hx W3) as (r2 & E4 & W4 & V4 & K4). rewrite E4. do 3 f_equal.
  apply coeff_unique; [assumption | assumption | tauto | rewrite V2, V1, V4, V3; ring].
Qed.

Lemma mul_assoc_coeff x y z : wfc x -> wfc y -> wfc z ->
  andthen (mul (Some (NC x)) (Some (NC y))) (fun xy => mul xy (Some (NC z))) =
  andthen (mul (Some (NC y)) (Some (NC z))) (fun yz => mul (Some (NC x)) yz).
Proof.
  intros Hx Hy Hz. unfold andthen.
  destruct (mul_coeff x y Hx Hy) as (xy & E1 & W1 & V1 & K1). rewrite E1. cbn [obind].
  destruct (mul_coeff xy z W1 Hz) as (r1 & E2 & W2 & V2 & K2). rewrite E2.
  destruct (mul_coeff y z Hy Hz) as (yz & E3 & W3 & V3 & K3). rewrite E3. cbn [obind].
  destruct (mul_coeff x yz Hx W3) as (r2 & E4 & W4 & V4 & K4). rewrite E4. do 3 f_equal.
  apply coeff_unique; [assumption | assumption | tauto | rewrite V2, V1, V4, V3; ring].
Qed.

Lemma distrib_coeff x y z : wfc x -> wfc y -> wfc z ->
  andthen (add (Some (NC y)) (Some (NC z))) (fun s => mul (Some (NC x)) s) =
  andthen (mul (Some (NC x)) (Some (NC y))) (fun p => andthen (mul (Some (NC x)) (Some (NC z))) (fun q => add p q)).
Proof.
  intros Hx Hy Hz. unfold andthen.
  destruct (add_coeff y z Hy Hz) as (s & E1 & W1 & V1 & K1). rewrite E1. cbn [obind].
  destruct (mul_coeff x s Hx W1) as (r1 & E2 & W2 & V2 & K2). rewrite E2.
  destruct (mul_coeff x y Hx Hy) as (p & E3 & W3 & V3 & K3). rewrite E3. cbn [obind].
  destruct (mul_coeff x z Hx Hz) as (q & E4 & W4 & V4 & K4). rewrite E4. cbn [obind].
  destruct (add_coeff p q W3 W4) as (r2 & E5 & W5 & V5 & K5). rewrite E5. do 3 f_equal.
  apply coeff_unique; [assumption | assumption | tauto | rewrite V2, V1, V5, V3, V4; ring].
Qed.

Lemma sub_add_inverse_coeff x y : wfc x -> wfc y ->
  exists d r, sub (Some (NC x)) (Some (NC y)) = Val (Some (NC d)) /\
              add (Some (NC d)) (Some (NC y)) = Val (Some (NC r)) /\ cq r == cq x.
Proof.
  intros Hx Hy. destruct (sub_coeff x y Hx Hy) as (d & E1 & W1 & V1 & _).
  destruct (add_coeff d y W1 Hy) as (r & E2 & W2 & V2 & _).
  exists d, r. split; [exact E1 | split; [exact E2 |]]. rewrite V2, V1. ring.
Qed.

Lemma div_self_coeff x : wfc x -> ~ cq x == 0 ->
  div (Some (NC x)) (Some (NC x)) = Val (Some (NRat 1 1)).
Proof.
  intros Hx Hnz. destruct (div_coeff x x Hx Hx) as [_ H]. destruct (H Hnz) as (n & d & E & C & V).
  rewrite E. assert (R : Rat n d = Rat 1 1).
  { apply canon_qval_unique; [exact C | split; [lia | reflexivity] |]. rewrite V. unfold qval. cbn. field. exact Hnz. }
  injection R as -> ->. reflexivity.
Qed.

Lemma div_mul_inverse_coeff x y : wfc x -> wfc y -> ~ cq y == 0 ->
  exists q r, div (Some (NC x)) (Some (NC y)) = Val (Some (NC q)) /\
              mul (Some (NC q)) (Some (NC y)) = Val (Some (NC r)) /\ cq r == cq x.
Proof.
  intros Hx Hy Hnz. destruct (div_coeff x y Hx Hy) as [_ H]. destruct (H Hnz) as (n & d & E & C & V).
  destruct (mul_coeff (CRat n d) y C Hy) as (r & E2 & W2 & V2 & _).
  exists (CRat n d), r. split; [exact E | split; [exact E2 |]]. rewrite V2. unfold cq at 1. cbn [to_rational].
  rewrite V. field. exact Hnz.
Qed.

(* the order: total, antisymmetric, transitive *)
Lemma compare_total_antisym_coeff x y : wfc x -> wfc y ->
  exists c, (c = -1 \/ c = 0 \/ c = 1) /\
            compare (Some (NC x)) (Some (NC y)) = Val (Some c) /\
            compare (Some (NC y)) (Some (NC x)) = Val (Some (- c)) /\
            (c = 0 <-> cq x == cq y) /\ (c = -1 <-> (cq x < cq y)%Q) /\ (c = 1 <-> (cq y < cq x)%Q).
Proof.
  intros Hx Hy. rewrite !compare_coeff by assumption. rewrite <- (Qcompare_antisym (cq x) (cq y)).
  destruct (cq x ?= cq y)%Q eqn:C; cbn [zcmp CompOpp]; eexists;
    (split; [| split; [reflexivity | split; [reflexivity |]]]); try tauto;
    rewrite Qeq_alt, Qlt_alt, (Qlt_alt (cq y)); rewrite <- (Qcompare_antisym (cq x) (cq y)), C; cbn [CompOpp];
    repeat split; intros; try lia; try discriminate; try reflexivity.
Qed.

Lemma le_trans_coeff x y z : wfc x -> wfc y -> wfc z ->
  lep (Some (NC x)) (Some (NC y)) = Val true -> lep (Some (NC y)) (Some (NC z)) = Val true ->
  lep (Some (NC x)) (Some (NC z)) = Val true.
Proof.
  intros Hx Hy Hz H1 H2.
  destruct (preds_coeff x y Hx Hy) as (_ & _ & (b1 & E1 & I1) & _).
  destruct (preds_coeff y z Hy Hz) as (_ & _ & (b2 & E2 & I2) & _).
  destruct (preds_coeff x z Hx Hz) as (_ & _ & (b3 & E3 & I3) & _).
  rewrite E1 in H1. rewrite E2 in H2. rewrite E3. f_equal. apply I3.
  apply Qle_trans with (cq y); [apply I1 | apply I2]; congruence.
Qed.

(* ---------------------------------------------------------------- literal desugaring (parser.rs reduce_rational) *)
Lemma lit_reduce_spec n d : 0 < d ->
  reduce (Rat n d) = Val (lit_reduce n d) /\ canon (lit_reduce n d) /\
  qval (lit_reduce n d) == inject_Z n / inject_Z d.
Proof.
  intros Hd.
  assert (Hg : Z.gcd n d <> 0) by (intros E; apply Z.gcd_eq_0_r in E; lia).
  assert (E : reduce (Rat n d) = Val (lit_reduce n d)).
  { rewrite reduce_eq by lia. unfold lit_reduce. destruct (Z.eqb_spec (Z.gcd n d) 0); [contradiction |].
    rewrite !Z.quot_div_exact by (auto using Z.gcd_divide_l, Z.gcd_divide_r).
    replace (Z.sgn d) with 1 by lia. replace (Z.abs d) with d by lia. now replace (1 * n) with n by lia. }
  split; [exact E |]. apply reduce_value; [lia | exact E].
Qed.
