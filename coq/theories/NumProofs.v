(* NumProofs.v — theorems about the %num model (Num.v). *)
From Coq Require Import QArith Lia.
From Quiver Require Import Base Num.
Open Scope Z_scope.

(* ---------------------------------------------------------------- nil propagation *)
Lemma nil_propagates_unary :
  neg None = Val None /\ abs None = Val None /\ sign None = Val None /\ sqrt None = Val None /\
  numer None = Val None /\ denom None = Val None /\ to_int None = Val None /\ floor None = Val None /\
  ceil None = Val None /\ round None = Val None.
Proof. repeat split; reflexivity. Qed.
