(* NarrowCallable.v — intersect_types on two CALLABLE types never drops a function value that belongs to
   both, for the model with the F25 repair (dea0269: two callable types always overlap) and the
   F25b repair (79f9965: intersect_pair builds the exact meet fn(p1 | p2) -> (r1 /\ r2), receive c1 | c2,
   when neither operand is assignable to the other).
   The components (parameter, result, receive type) are first-order cycle-free.  Membership is read in
   the registry AFTER the call (the one the program continues with): a function value is judged by its
   declared signature, and the meet's parameter type does not exist before the call.
   Ingredients: the converse of union_type_ids_keeps (a value of the union is a value of a piece, at
   the same step index — unions do not consume the index), mem_reflects / mem_extends to move
   first-order memberships between the registries of the call, intersect_spec for the results. *)
From Quiver Require Import Base Types Rel Sem SemProofs RelProofs OverlapProofs TypesProofs Narrow NarrowProofs.
From Coq Require Import Arith Lia.
Close Scope Z_scope.
Open Scope nat_scope.

Lemma variants_extends P P' x : extends P P' -> FO P x -> get_type_variants P' x = get_type_variants P x.
Proof.
  intros [HT _] Hfo. unfold get_type_variants.
  inversion Hfo as [? Hl|? Hl|? Hl|? ? Hl|? vs Hl Hvs|? tid info Hl Ht Hfs]; subst; rewrite Hl, (HT _ _ Hl); reflexivity.
Qed.

(* a value of union_type_ids pieces is a value of one of the pieces (same step index) *)
Lemma union_type_ids_converse P pieces P' r :
  (forall x, In x pieces -> FO P x) ->
  union_type_ids P pieces = (P', r) ->
  forall n v, inhab P' n [] v r -> exists x, In x pieces /\ inhab P' n [] v x.
Proof.
  intros Hfo H.
  destruct (union_type_ids_keeps P pieces P' r Hfo H) as (He & _ & _).
  unfold union_type_ids in H.
  set (flat := flat_map (fun id => match lookup_type P id with Some (TUnion variants) => variants | _ => [id] end) pieces) in *.
  assert (Hback : forall n v y, In y flat -> inhab P' n [] v y -> exists x, In x pieces /\ inhab P' n [] v x).
  { intros n v y Hy Hv. apply in_flat_map in Hy. destruct Hy as [x [Hx Hy]].
    exists x. split; [exact Hx|].
    eapply (variant_member P' x n v y); [eapply FO_extends; [exact He|apply Hfo; exact Hx]| |exact Hv].
    rewrite (variants_extends P P' x He (Hfo x Hx)). unfold get_type_variants.
    pose proof (Hfo x Hx) as Hq.
    destruct (lookup_type P x) as [[]|] eqn:Hl; try exact Hy. inversion Hq; congruence. }
  assert (Hflat_fo : forall y, In y flat -> FO P y).
  { intros y Hy. apply in_flat_map in Hy. destruct Hy as [x [Hx Hy]].
    pose proof (variants_FO P x (Hfo x Hx) y) as Hv. unfold get_type_variants in Hv.
    destruct (lookup_type P x) as [[]|] eqn:Hl; try (apply Hv; exact Hy).
    pose proof (Hfo x Hx) as Hq. inversion Hq; congruence. }
  assert (Huniq : forall y, In y (dedup [] flat) <-> In y flat).
  { intros y. rewrite In_dedup. cbn. tauto. }
  destruct (dedup [] flat) as [|u1 [|u2 us]] eqn:Hd.
  - destruct (never_spec _ _ _ H) as [_ Hl]. intros n v Hv. exfalso. eapply never_uninhabited; eassumption.
  - inversion H; subst. intros n v Hv. eapply Hback; [apply Huniq; left; reflexivity|exact Hv].
  - destruct (register_type_spec _ _ _ _ H) as [_ Hl].
    intros n v Hv. destruct n; [destruct Hv|]. cbn [inhab] in Hv.
    inversion Hv as [| | | |? ? ? vs u Hlu Hin Hu| | | | | |]; subst; try congruence.
    rewrite Hl in Hlu. inversion Hlu; subst vs.
    eapply (Hback (S n) v u); [apply Huniq; exact Hin|].
    eapply (FO_env P' (S n) u [r] [] v); [eapply FO_extends; [exact He|apply Hflat_fo; apply Huniq; exact Hin]|].
    cbn [inhab]. exact Hu.
Qed.

(* what membership of a value in a callable type says *)
Lemma fun_member_inv P t p r rc n E v :
  lookup_type P t = Some (TCallable p r rc) -> inhab P (S n) E v t ->
  exists c p' r' rc', v = VFun c /\ lookup_type P c = Some (TCallable p' r' rc') /\
    (forall w, inhab P n (t :: E) w p -> inhab P n [c] w p') /\
    (forall w, inhab P n [c] w r' -> inhab P n (t :: E) w r) /\
    (forall w, inhab P n (t :: E) w rc -> inhab P n [c] w rc').
Proof.
  intros Hl H. cbn [inhab] in H.
  inversion H as [| | | | | | | | |? ? p0 r0 rc0 c p' r' rc' Hlt Hlc Hp Hr Hrc|]; subst; try congruence.
  rewrite Hl in Hlt. inversion Hlt; subst p0 r0 rc0.
  exists c, p', r', rc'. repeat split; assumption.
Qed.

Section CallableMeet.
  Variable cfg : rel_cfg.
  Variable rel_fuel : nat.
  Hypothesis Hany : cfg_any_callable cfg = true.

  (* since dea0269 two callable types always overlap *)
  Lemma overlap_callable_true P a b p1 r1 c1 p2 r2 c2 r :
    lookup_type P a = Some (TCallable p1 r1 c1) -> lookup_type P b = Some (TCallable p2 r2 c2) ->
    types_overlap cfg rel_fuel P a b = Some r -> r = true.
  Proof.
    intros Hla Hlb Hr. unfold types_overlap, types_overlap_with in Hr.
    destruct (check_rel cfg P Any rel_fuel [] [] [] a b) as [[r0 A1]|] eqn:Hc; [|discriminate]. cbn in Hr.
    inversion Hr; subst r0. destruct r; [reflexivity|exfalso].
    destruct rel_fuel as [|f]; [discriminate|].
    cbn [check_rel] in Hc. unfold step in Hc.
    destruct (Nat.eqb a b); [discriminate|].
    destruct (assumed [] (a, b)); [discriminate|].
    rewrite Hla, Hlb in Hc. cbn in Hc. rewrite Hany in Hc. cbn in Hc. discriminate.
  Qed.

  Lemma intersect_pair_callable f P a b p1 r1 c1 p2 r2 c2 P' r :
    ISpec (intersect_types cfg rel_fuel f) ->
    intersect_pair cfg rel_fuel (S f) P a b = Some (P', r) ->
    lookup_type P a = Some (TCallable p1 r1 c1) -> lookup_type P b = Some (TCallable p2 r2 c2) ->
    FO P p1 -> FO P r1 -> FO P c1 -> FO P p2 -> FO P r2 -> FO P c2 ->
    extends P P' /\ (exists p0 r0 c0, lookup_type P' r = Some (TCallable p0 r0 c0)) /\
    forall n v, inhab P' n [] v a -> inhab P' n [] v b -> inhab P' n [] v r.
  Proof.
    intros IHt H Hla Hlb Fp1 Fr1 Fc1 Fp2 Fr2 Fc2. rewrite intersect_pair_S in H.
    destruct (Nat.eqb a b) eqn:Eab.
    { injection H as HP Hr; subst P' r. split; [apply extends_refl|]. split; [eauto|]. intros n v Hva _. exact Hva. }
    destruct (never P) as [P0 nid] eqn:Hn. destruct (never_spec _ _ _ Hn) as [He0 Hlnid].
    pose proof (proj1 He0 _ _ Hla) as Hla0. pose proof (proj1 He0 _ _ Hlb) as Hlb0.
    rewrite Hla0, Hlb0 in H. cbv beta iota in H.
    unfold current_meet_callable in H. cbn [negb] in H. cbv beta iota in H.
    assert (Hkeep_a : extends P P0 /\ (exists p0 r0 c0, lookup_type P0 a = Some (TCallable p0 r0 c0)) /\
                      forall n v, inhab P0 n [] v a -> inhab P0 n [] v b -> inhab P0 n [] v a).
    { split; [exact He0|]. split; [eauto|]. intros n v Hva _. exact Hva. }
    assert (Hkeep_b : extends P P0 /\ (exists p0 r0 c0, lookup_type P0 b = Some (TCallable p0 r0 c0)) /\
                      forall n v, inhab P0 n [] v a -> inhab P0 n [] v b -> inhab P0 n [] v b).
    { split; [exact He0|]. split; [eauto|]. intros n v _ Hvb. exact Hvb. }
    assert (Hdefault : match types_overlap cfg rel_fuel P0 a b with
                       | Some true => Some (P0, a) | Some false => Some (P0, nid) | None => None end = Some (P', r) ->
              extends P P' /\ (exists p0 r0 c0, lookup_type P' r = Some (TCallable p0 r0 c0)) /\
              forall n v, inhab P' n [] v a -> inhab P' n [] v b -> inhab P' n [] v r).
    { intros Hd. destruct (types_overlap cfg rel_fuel P0 a b) as [ov|] eqn:Hov; [|discriminate Hd].
      rewrite (overlap_callable_true P0 a b _ _ _ _ _ _ ov Hla0 Hlb0 Hov) in Hd.
      injection Hd as HP Hr; subst P' r. exact Hkeep_a. }
    destruct (cyclic cfg rel_fuel P0 a) as [ca|] eqn:Hca; [|discriminate H].
    destruct (if ca then Some true else cyclic cfg rel_fuel P0 b) as [cy|] eqn:Hcy; [|discriminate H].
    destruct cy; [apply Hdefault; exact H|].
    destruct (is_compatible cfg rel_fuel P0 a b) as [[|]|] eqn:Hab; [injection H as HP Hr; subst P' r; exact Hkeep_a| |discriminate H].
    destruct (is_compatible cfg rel_fuel P0 b a) as [[|]|] eqn:Hba; [injection H as HP Hr; subst P' r; exact Hkeep_b| |discriminate H].
    (* the exact meet *)
    pose proof (FO_extends _ _ _ He0 Fp1) as Fp1_0. pose proof (FO_extends _ _ _ He0 Fp2) as Fp2_0.
    destruct (union_type_ids P0 [p1; p2]) as [P1 pu] eqn:Hu1.
    assert (Hpieces1 : forall x, In x [p1; p2] -> FO P0 x) by (intros x [<-|[<-|[]]]; assumption).
    destruct (union_type_ids_keeps P0 [p1; p2] P1 pu Hpieces1 Hu1) as (He1 & Fpu & _).
    pose proof (union_type_ids_converse P0 [p1; p2] P1 pu Hpieces1 Hu1) as Hconv1.
    assert (He01 : extends P P1) by (eapply extends_trans; eassumption).
    destruct (intersect_types cfg rel_fuel f P1 r1 r2) as [[P2 ri]|] eqn:Hi; [|discriminate H].
    destruct (IHt P1 r1 r2 P2 ri Hi (FO_extends _ _ _ He01 Fr1) (FO_extends _ _ _ He01 Fr2)) as (He2 & Fri & Hkeep).
    assert (He02 : extends P P2) by (eapply extends_trans; eassumption).
    destruct (union_type_ids P2 [c1; c2]) as [P3 cu] eqn:Hu2.
    assert (Hpieces2 : forall x, In x [c1; c2] -> FO P2 x)
      by (intros x [<-|[<-|[]]]; eapply FO_extends; try exact He02; assumption).
    destruct (union_type_ids_keeps P2 [c1; c2] P3 cu Hpieces2 Hu2) as (He3 & Fcu & _).
    pose proof (union_type_ids_converse P2 [c1; c2] P3 cu Hpieces2 Hu2) as Hconv2.
    injection H as H. destruct (register_type_spec _ _ _ _ H) as [He4 Hlr].
    assert (He1' : extends P1 P') by (eapply extends_trans; [exact He2|eapply extends_trans; eassumption]).
    assert (He2' : extends P2 P') by (eapply extends_trans; eassumption).
    assert (He' : extends P P') by (eapply extends_trans; [exact He01|exact He1']).
    split; [exact He'|]. split; [eauto|].
    intros n v Hva Hvb. destruct n; [destruct Hva|].
    destruct (fun_member_inv P' a p1 r1 c1 n [] v (proj1 He' _ _ Hla) Hva) as (c & p' & r' & rc' & -> & Hlc & Hpa & Hra & Hca').
    destruct (fun_member_inv P' b p2 r2 c2 n [] (VFun c) (proj1 He' _ _ Hlb) Hvb) as (c0 & p'0 & r'0 & rc'0 & Hc0 & Hlc0 & Hpb & Hrb & Hcb').
    inversion Hc0; subst c0. rewrite Hlc in Hlc0. inversion Hlc0; subst p'0 r'0 rc'0.
    pose proof (FO_extends _ _ _ He' Fp1) as Fp1'. pose proof (FO_extends _ _ _ He' Fp2) as Fp2'.
    pose proof (FO_extends _ _ _ He' Fr1) as Fr1'. pose proof (FO_extends _ _ _ He' Fr2) as Fr2'.
    pose proof (FO_extends _ _ _ He' Fc1) as Fc1'. pose proof (FO_extends _ _ _ He' Fc2) as Fc2'.
    cbn [inhab]. eapply Inh_fun; [exact Hlr|exact Hlc| | |].
    - (* a parameter of the meet is a parameter of a or of b *)
      intros w Hw.
      pose proof (FO_env P' n pu [r] [] w (FO_extends _ _ _ He1' Fpu) Hw) as Hw0.
      pose proof (mem_reflects P1 P' He1' n pu Fpu [] w Hw0) as Hw1.
      destruct (Hconv1 n w Hw1) as [x [Hx Hwx]].
      pose proof (mem_extends P1 P' n w x He1' (FO_extends _ _ _ He1 (Hpieces1 x Hx)) Hwx) as Hwx'.
      destruct Hx as [<-|[<-|[]]].
      + apply Hpa. eapply FO_env; [exact Fp1'|exact Hwx'].
      + apply Hpb. eapply FO_env; [exact Fp2'|exact Hwx'].
    - (* a result of the function is a result of a and of b, hence of their intersection *)
      intros w Hw.
      pose proof (FO_env P' n r1 [a] [] w Fr1' (Hra w Hw)) as H1.
      pose proof (FO_env P' n r2 [b] [] w Fr2' (Hrb w Hw)) as H2.
      pose proof (mem_reflects P1 P' He1' n r1 (FO_extends _ _ _ He01 Fr1) [] w H1) as H1'.
      pose proof (mem_reflects P1 P' He1' n r2 (FO_extends _ _ _ He01 Fr2) [] w H2) as H2'.
      pose proof (Hkeep n w H1' H2') as Hri.
      eapply FO_env; [eapply FO_extends; [exact He2'|exact Fri]|].
      eapply mem_extends; [exact He2'|exact Fri|exact Hri].
    - (* a message the meet receives is received by a or by b *)
      intros w Hw.
      pose proof (FO_env P' n cu [r] [] w (FO_extends _ _ _ He4 Fcu) Hw) as Hw0.
      pose proof (mem_reflects P3 P' He4 n cu Fcu [] w Hw0) as Hw1.
      destruct (Hconv2 n w Hw1) as [x [Hx Hwx]].
      pose proof (mem_extends P3 P' n w x He4 (FO_extends _ _ _ He3 (Hpieces2 x Hx)) Hwx) as Hwx'.
      destruct Hx as [<-|[<-|[]]].
      + apply Hca'. eapply FO_env; [exact Fc1'|exact Hwx'].
      + apply Hcb'. eapply FO_env; [exact Fc2'|exact Hwx'].
  Qed.
End CallableMeet.

Theorem intersect_keeps_callable : forall cfg rel_fuel fuel P a b P' r p1 r1 c1 p2 r2 c2,
  cfg_any_callable cfg = true ->
  lookup_type P a = Some (TCallable p1 r1 c1) -> lookup_type P b = Some (TCallable p2 r2 c2) ->
  fo_domain P p1 = true -> fo_domain P r1 = true -> fo_domain P c1 = true ->
  fo_domain P p2 = true -> fo_domain P r2 = true -> fo_domain P c2 = true ->
  intersect_types cfg rel_fuel fuel P a b = Some (P', r) ->
  extends P P' /\ forall n v, inhab P' n [] v a -> inhab P' n [] v b -> inhab P' n [] v r.
Proof.
  intros cfg rel_fuel fuel P a b P' r p1 r1 c1 p2 r2 c2 Hany Hla Hlb Dp1 Dr1 Dc1 Dp2 Dr2 Dc2 H.
  destruct fuel as [|[|f]]; [discriminate H| |].
  { rewrite intersect_types_S in H. destruct (never P) as [P0 nid].
    unfold get_type_variants in H. rewrite Hla, Hlb in H. cbn in H. discriminate H. }
  rewrite intersect_types_S in H.
  destruct (never P) as [P0 nid] eqn:Hn. destruct (never_spec _ _ _ Hn) as [He0 Hlnid].
  unfold get_type_variants in H. rewrite Hla, Hlb in H. cbn [isect_outer isect_inner] in H.
  destruct (intersect_pair cfg rel_fuel (S f) P0 a b) as [[P1 piece]|] eqn:Hp; [|discriminate H].
  destruct (intersect_pair_callable cfg rel_fuel Hany f P0 a b p1 r1 c1 p2 r2 c2 P1 piece
              (proj1 (intersect_spec cfg rel_fuel f)) Hp (proj1 He0 _ _ Hla) (proj1 He0 _ _ Hlb)
              (FO_extends _ _ _ He0 (fob_FO _ _ _ Dp1)) (FO_extends _ _ _ He0 (fob_FO _ _ _ Dr1))
              (FO_extends _ _ _ He0 (fob_FO _ _ _ Dc1)) (FO_extends _ _ _ He0 (fob_FO _ _ _ Dp2))
              (FO_extends _ _ _ He0 (fob_FO _ _ _ Dr2)) (FO_extends _ _ _ He0 (fob_FO _ _ _ Dc2)))
    as (He1 & (p0 & r0 & c0 & Hlpiece) & Hkeep).
  assert (Hne : Nat.eqb piece nid = false).
  { apply Nat.eqb_neq. intros ->. rewrite (proj1 He1 _ _ Hlnid) in Hlpiece. discriminate Hlpiece. }
  rewrite Hne in H. cbn [app] in H.
  unfold union_type_ids in H. cbn [flat_map] in H. rewrite Hlpiece in H. cbn in H.
  injection H as HP Hr; subst P' r.
  split; [eapply extends_trans; eassumption|exact Hkeep].
Qed.

(* ---------------------------------------------------------------- process / process *)
(* meet(x, y) of narrowing.rs (fix_F25b): both known => intersect; one unknown => the other *)
Definition meet_of (it : registry -> nat -> nat -> option (registry * nat)) (P : registry) (x y : option nat)
  : option (registry * option nat) :=
  match x, y with
  | Some x, Some y => match it P x y with
                      | None => None
                      | Some (P', m) => Some (P', Some m)
                      end
  | Some x, None => Some (P, Some x)
  | None, Some y => Some (P, Some y)
  | None, None => Some (P, None)
  end.

Lemma meet_of_spec it P x y P1 m :
  ISpec it -> meet_of it P x y = Some (P1, m) ->
  (forall x0, x = Some x0 -> FO P x0) -> (forall y0, y = Some y0 -> FO P y0) ->
  extends P P1 /\ (forall m0, m = Some m0 -> FO P1 m0) /\
  forall Pf, extends P1 Pf -> forall m0, m = Some m0 -> forall n w,
    (forall x0, x = Some x0 -> inhab Pf n [] w x0) -> (forall y0, y = Some y0 -> inhab Pf n [] w y0) ->
    inhab Pf n [] w m0.
Proof.
  intros Hit H Fx Fy. unfold meet_of in H. destruct x as [x|]; destruct y as [y|].
  - destruct (it P x y) as [[P2 m1]|] eqn:Hi; [|discriminate H]. injection H as HP Hm; subst P2 m.
    destruct (Hit P x y P1 m1 Hi (Fx x eq_refl) (Fy y eq_refl)) as (He & Fm & Hkeep).
    split; [exact He|]. split; [intros m0 Hm0; inversion Hm0; subst; exact Fm|].
    intros Pf Hef m0 Hm0 n w Hx Hy. inversion Hm0; subst m0.
    assert (Hpf : extends P Pf) by (eapply extends_trans; eassumption).
    eapply mem_extends; [exact Hef|exact Fm|].
    apply Hkeep; (eapply mem_reflects; [exact Hpf| |]); [apply Fx; reflexivity|apply Hx; reflexivity|apply Fy; reflexivity|apply Hy; reflexivity].
  - injection H as HP Hm; subst P1 m. split; [apply extends_refl|]. split; [intros m0 Hm0; inversion Hm0; subst; apply Fx; reflexivity|].
    intros Pf _ m0 Hm0 n w Hx _. inversion Hm0; subst. apply Hx. reflexivity.
  - injection H as HP Hm; subst P1 m. split; [apply extends_refl|]. split; [intros m0 Hm0; inversion Hm0; subst; apply Fy; reflexivity|].
    intros Pf _ m0 Hm0 n w _ Hy. inversion Hm0; subst. apply Hy. reflexivity.
  - injection H as HP Hm; subst P1 m. split; [apply extends_refl|]. split; [intros m0 Hm0; discriminate Hm0|].
    intros Pf _ m0 Hm0. discriminate Hm0.
Qed.

(* what membership of a value in a process type says *)
Lemma proc_member_inv P t s r n E v :
  lookup_type P t = Some (TProcess s r) -> inhab P (S n) E v t ->
  exists c s' r', v = VProc c /\ lookup_type P c = Some (TProcess (Some s') (Some r')) /\
    (forall s0, s = Some s0 -> forall w, inhab P n [] w s' -> inhab P n E w s0) /\
    (forall r0, r = Some r0 -> forall w, inhab P n [] w r' -> inhab P n E w r0).
Proof.
  intros Hl H. cbn [inhab] in H.
  inversion H as [| | | | | | | | | |? ? s1 r1 c s' r' Hlt Hlc Hs Hr]; subst; try congruence.
  rewrite Hl in Hlt. inversion Hlt; subst s1 r1.
  exists c, s', r'. repeat split; assumption.
Qed.

Section ProcessMeet.
  Variable cfg : rel_cfg.
  Variable rel_fuel : nat.
  Hypothesis Hany : cfg_any_callable cfg = true.

  Lemma overlap_process_true P a b s1 r1 s2 r2 r :
    lookup_type P a = Some (TProcess s1 r1) -> lookup_type P b = Some (TProcess s2 r2) ->
    types_overlap cfg rel_fuel P a b = Some r -> r = true.
  Proof.
    intros Hla Hlb Hr. unfold types_overlap, types_overlap_with in Hr.
    destruct (check_rel cfg P Any rel_fuel [] [] [] a b) as [[r0 A1]|] eqn:Hc; [|discriminate]. cbn in Hr.
    inversion Hr; subst r0. destruct r; [reflexivity|exfalso].
    destruct rel_fuel as [|f]; [discriminate|].
    cbn [check_rel] in Hc. unfold step in Hc.
    destruct (Nat.eqb a b); [discriminate|].
    destruct (assumed [] (a, b)); [discriminate|].
    rewrite Hla, Hlb in Hc. cbn in Hc. rewrite Hany in Hc. cbn in Hc. discriminate.
  Qed.

  Lemma intersect_pair_process_S f P a b P0 nid s1 r1 s2 r2 :
    Nat.eqb a b = false -> never P = (P0, nid) ->
    lookup_type P0 a = Some (TProcess s1 r1) -> lookup_type P0 b = Some (TProcess s2 r2) ->
    intersect_pair cfg rel_fuel (S f) P a b =
      let default :=
        match types_overlap cfg rel_fuel P0 a b with
        | None => None
        | Some true => Some (P0, a)
        | Some false => Some (P0, nid)
        end in
      match cyclic cfg rel_fuel P0 a with
      | None => None
      | Some ca =>
      match (if ca then Some true else cyclic cfg rel_fuel P0 b) with
      | None => None
      | Some true => default
      | Some false =>
        match is_compatible cfg rel_fuel P0 a b with
        | None => None
        | Some true => Some (P0, a)
        | Some false =>
        match is_compatible cfg rel_fuel P0 b a with
        | None => None
        | Some true => Some (P0, b)
        | Some false =>
          match meet_of (intersect_types cfg rel_fuel f) P0 s1 s2 with
          | None => None
          | Some (P1, send) =>
            match meet_of (intersect_types cfg rel_fuel f) P1 r1 r2 with
            | None => None
            | Some (P2, receive) => Some (register_type P2 (TProcess send receive))
            end
          end
        end end
      end end.
  Proof. intros Eab Hn Hla Hlb. rewrite intersect_pair_S, Eab, Hn, Hla, Hlb. reflexivity. Qed.

  Lemma intersect_pair_process f P a b s1 r1 s2 r2 P' r :
    ISpec (intersect_types cfg rel_fuel f) ->
    intersect_pair cfg rel_fuel (S f) P a b = Some (P', r) ->
    lookup_type P a = Some (TProcess s1 r1) -> lookup_type P b = Some (TProcess s2 r2) ->
    (forall x, s1 = Some x -> FO P x) -> (forall x, r1 = Some x -> FO P x) ->
    (forall x, s2 = Some x -> FO P x) -> (forall x, r2 = Some x -> FO P x) ->
    extends P P' /\ (exists s0 r0, lookup_type P' r = Some (TProcess s0 r0)) /\
    forall n v, inhab P' n [] v a -> inhab P' n [] v b -> inhab P' n [] v r.
  Proof.
    intros IHt H Hla Hlb Fs1 Fr1 Fs2 Fr2.
    destruct (Nat.eqb a b) eqn:Eab.
    { rewrite intersect_pair_S, Eab in H. injection H as HP Hr; subst P' r.
      split; [apply extends_refl|]. split; [eauto|]. intros n v Hva _. exact Hva. }
    destruct (never P) as [P0 nid] eqn:Hn. destruct (never_spec _ _ _ Hn) as [He0 Hlnid].
    pose proof (proj1 He0 _ _ Hla) as Hla0. pose proof (proj1 He0 _ _ Hlb) as Hlb0.
    rewrite (intersect_pair_process_S f P a b P0 nid s1 r1 s2 r2 Eab Hn Hla0 Hlb0) in H. cbv zeta in H.
    assert (Hkeep_a : extends P P0 /\ (exists s0 r0, lookup_type P0 a = Some (TProcess s0 r0)) /\
                      forall n v, inhab P0 n [] v a -> inhab P0 n [] v b -> inhab P0 n [] v a).
    { split; [exact He0|]. split; [eauto|]. intros n v Hva _. exact Hva. }
    assert (Hkeep_b : extends P P0 /\ (exists s0 r0, lookup_type P0 b = Some (TProcess s0 r0)) /\
                      forall n v, inhab P0 n [] v a -> inhab P0 n [] v b -> inhab P0 n [] v b).
    { split; [exact He0|]. split; [eauto|]. intros n v _ Hvb. exact Hvb. }
    assert (Hdefault : match types_overlap cfg rel_fuel P0 a b with
                       | Some true => Some (P0, a) | Some false => Some (P0, nid) | None => None end = Some (P', r) ->
              extends P P' /\ (exists s0 r0, lookup_type P' r = Some (TProcess s0 r0)) /\
              forall n v, inhab P' n [] v a -> inhab P' n [] v b -> inhab P' n [] v r).
    { intros Hd. destruct (types_overlap cfg rel_fuel P0 a b) as [ov|] eqn:Hov; [|discriminate Hd].
      rewrite (overlap_process_true P0 a b _ _ _ _ ov Hla0 Hlb0 Hov) in Hd.
      injection Hd as HP Hr; subst P' r. exact Hkeep_a. }
    destruct (cyclic cfg rel_fuel P0 a) as [ca|] eqn:Hca; [|discriminate H].
    destruct (if ca then Some true else cyclic cfg rel_fuel P0 b) as [cy|] eqn:Hcy; [|discriminate H].
    destruct cy; [apply Hdefault; exact H|].
    destruct (is_compatible cfg rel_fuel P0 a b) as [[|]|] eqn:Hab; [injection H as HP Hr; subst P' r; exact Hkeep_a| |discriminate H].
    destruct (is_compatible cfg rel_fuel P0 b a) as [[|]|] eqn:Hba; [injection H as HP Hr; subst P' r; exact Hkeep_b| |discriminate H].
    (* the exact meet: component-wise intersection *)
    destruct (meet_of (intersect_types cfg rel_fuel f) P0 s1 s2) as [[P1 send]|] eqn:Hm1; [|discriminate H].
    destruct (meet_of_spec _ P0 s1 s2 P1 send IHt Hm1
                (fun x Hx => FO_extends _ _ _ He0 (Fs1 x Hx)) (fun x Hx => FO_extends _ _ _ He0 (Fs2 x Hx)))
      as (He1 & Fsend & Hks).
    assert (He01 : extends P P1) by (eapply extends_trans; eassumption).
    destruct (meet_of (intersect_types cfg rel_fuel f) P1 r1 r2) as [[P2 receive]|] eqn:Hm2; [|discriminate H].
    destruct (meet_of_spec _ P1 r1 r2 P2 receive IHt Hm2
                (fun x Hx => FO_extends _ _ _ He01 (Fr1 x Hx)) (fun x Hx => FO_extends _ _ _ He01 (Fr2 x Hx)))
      as (He2 & Freceive & Hkr).
    injection H as H. destruct (register_type_spec _ _ _ _ H) as [He3 Hlr].
    assert (He1' : extends P1 P') by (eapply extends_trans; eassumption).
    assert (He' : extends P P') by (eapply extends_trans; [exact He01|exact He1']).
    split; [exact He'|]. split; [eauto|].
    intros n v Hva Hvb. destruct n; [destruct Hva|].
    destruct (proc_member_inv P' a s1 r1 n [] v (proj1 He' _ _ Hla) Hva) as (c & s' & r' & -> & Hlc & Hsa & Hra).
    destruct (proc_member_inv P' b s2 r2 n [] (VProc c) (proj1 He' _ _ Hlb) Hvb) as (c0 & s'0 & r'0 & Hc0 & Hlc0 & Hsb & Hrb).
    inversion Hc0; subst c0. rewrite Hlc in Hlc0. inversion Hlc0; subst s'0 r'0.
    cbn [inhab]. eapply Inh_proc; [exact Hlr|exact Hlc| |].
    - intros s0 Hs0 w Hw. eapply (Hks P' He1' s0 Hs0 n w).
      + intros x0 Hx0. eapply Hsa; [exact Hx0|exact Hw].
      + intros y0 Hy0. eapply Hsb; [exact Hy0|exact Hw].
    - intros r0 Hr0 w Hw. eapply (Hkr P' He3 r0 Hr0 n w).
      + intros x0 Hx0. eapply Hra; [exact Hx0|exact Hw].
      + intros y0 Hy0. eapply Hrb; [exact Hy0|exact Hw].
  Qed.
End ProcessMeet.

Theorem intersect_keeps_process : forall cfg rel_fuel fuel P a b P' r s1 r1 s2 r2,
  cfg_any_callable cfg = true ->
  lookup_type P a = Some (TProcess s1 r1) -> lookup_type P b = Some (TProcess s2 r2) ->
  (forall x, s1 = Some x -> fo_domain P x = true) -> (forall x, r1 = Some x -> fo_domain P x = true) ->
  (forall x, s2 = Some x -> fo_domain P x = true) -> (forall x, r2 = Some x -> fo_domain P x = true) ->
  intersect_types cfg rel_fuel fuel P a b = Some (P', r) ->
  extends P P' /\ forall n v, inhab P' n [] v a -> inhab P' n [] v b -> inhab P' n [] v r.
Proof.
  intros cfg rel_fuel fuel P a b P' r s1 r1 s2 r2 Hany Hla Hlb Ds1 Dr1 Ds2 Dr2 H.
  destruct fuel as [|[|f]]; [discriminate H| |].
  { rewrite intersect_types_S in H. destruct (never P) as [P0 nid].
    unfold get_type_variants in H. rewrite Hla, Hlb in H. cbn in H. discriminate H. }
  rewrite intersect_types_S in H.
  destruct (never P) as [P0 nid] eqn:Hn. destruct (never_spec _ _ _ Hn) as [He0 Hlnid].
  unfold get_type_variants in H. rewrite Hla, Hlb in H. cbn [isect_outer isect_inner] in H.
  destruct (intersect_pair cfg rel_fuel (S f) P0 a b) as [[P1 piece]|] eqn:Hp; [|discriminate H].
  destruct (intersect_pair_process cfg rel_fuel Hany f P0 a b s1 r1 s2 r2 P1 piece
              (proj1 (intersect_spec cfg rel_fuel f)) Hp (proj1 He0 _ _ Hla) (proj1 He0 _ _ Hlb)
              (fun x Hx => FO_extends _ _ _ He0 (fob_FO _ _ _ (Ds1 x Hx))) (fun x Hx => FO_extends _ _ _ He0 (fob_FO _ _ _ (Dr1 x Hx)))
              (fun x Hx => FO_extends _ _ _ He0 (fob_FO _ _ _ (Ds2 x Hx))) (fun x Hx => FO_extends _ _ _ He0 (fob_FO _ _ _ (Dr2 x Hx))))
    as (He1 & (s0 & r0 & Hlpiece) & Hkeep).
  assert (Hne : Nat.eqb piece nid = false).
  { apply Nat.eqb_neq. intros ->. rewrite (proj1 He1 _ _ Hlnid) in Hlpiece. discriminate Hlpiece. }
  rewrite Hne in H. cbn [app] in H.
  unfold union_type_ids in H. cbn [flat_map] in H. rewrite Hlpiece in H. cbn in H.
  injection H as HP Hr; subst P' r.
  split; [eapply extends_trans; eassumption|exact Hkeep].
Qed.
