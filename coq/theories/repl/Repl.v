(* Repl.v — model of the REPL's bookkeeping (C11): which local slot every session variable lives
   in, how the slots are renumbered between lines, what a line appends, what is released.

   Mirrors (pinned working tree of /repo):
     quiver-environment/src/repl.rs      Repl::evaluate (84-204), keep_indices (262-273),
                                         compact (281-307), request_variable (209-234),
                                         get_variables (237-257)
     quiver-environment/src/worker.rs    compact_locals (737-760), resume_process (441-478),
                                         get_result (600-630: release_orphan_locals before reporting)
     quiver-core/src/executor.rs         replace_locals (447), release_orphan_locals (469),
                                         frame exit keeps the locals of a persistent process's
                                         last frame (1195-1197)
     quiver-compiler/src/compiler.rs     local_count = max variable index + 1 (522-533), the
                                         parameter slot (551-556)

   What is NOT modelled (inputs of the model instead): the parser, the compiler (a line arrives as
   its verdict: rejected by the parser / by the compiler / compiled to a new binding map), and the
   VM (a compiled line arrives with the list of values its Store instructions append and its
   result).  Values are abstract (any type V with a nil).  Local indices are `usize` in the code
   and `nat` here: the only arithmetic on them is `max + 1` and `enumerate`, far from 2^64.
   The commands CompactLocals / ResumeProcess / GetResult travel through one FIFO queue to the
   worker that owns the process, so their effects are modelled in program order. *)
From Coq Require Import List Arith Bool PeanoNat.
From Quiver Require Import Base.
Import ListNotations.
Local Open Scope nat_scope.

Definition name := nat.                       (* variable / alias names, interned *)

(* compiler/scopes.rs:9 `enum Binding` — only the index matters to the bookkeeping *)
Inductive binding := BVar (index : nat) | BAlias.

(* HashMap<String, Binding>: an association list with unique keys; the code never depends on its
   iteration order except through sorts (keep_indices, get_variables). *)
Definition bindings := list (name * binding).

(* quiver-environment EnvironmentError classes the modelled paths can produce *)
Inductive env_err := LocalNotFound (index : nat) | VariableNotFound.

Inductive wres (A : Type) := WOk (a : A) | WErr (e : env_err).
Arguments WOk {A} a.
Arguments WErr {A} e.

Fixpoint lookup (x : name) (b : bindings) : option binding :=
  match b with
  | [] => None
  | (y, bd) :: r => if Nat.eqb x y then Some bd else lookup x r
  end.

(* the indices of the variables, in map order *)
Fixpoint var_indices (b : bindings) : list nat :=
  match b with
  | [] => []
  | (_, BVar i) :: r => i :: var_indices r
  | (_, BAlias) :: r => var_indices r
  end.

(* `indices.sort()` *)
Fixpoint insert (x : nat) (l : list nat) : list nat :=
  match l with
  | [] => [x]
  | y :: r => if x <=? y then x :: l else y :: insert x r
  end.
Fixpoint sort (l : list nat) : list nat :=
  match l with
  | [] => []
  | x :: r => insert x (sort r)
  end.

(* repl.rs:262 keep_indices: sorted local indices of every bound variable *)
Definition keep_indices (b : bindings) : list nat := sort (var_indices b).

(* repl.rs:290-293: `for (new_idx, &old_idx) in keep.iter().enumerate() { map.insert(old, new) }`
   — a later insert of the same key replaces the earlier one *)
Fixpoint index_mapping_from (start : nat) (keep : list nat) (old : nat) : option nat :=
  match keep with
  | [] => None
  | k :: r =>
      match index_mapping_from (S start) r old with
      | Some j => Some j
      | None => if Nat.eqb k old then Some start else None
      end
  end.
Definition index_mapping (keep : list nat) (old : nat) : option nat := index_mapping_from 0 keep old.

(* repl.rs:296-303: rewrite every variable's index; `.expect("Invalid variable index")` = Panic 301 *)
Fixpoint renumber (keep : list nat) (b : bindings) : outcome bindings :=
  match b with
  | [] => Val []
  | (x, BAlias) :: r => r' <- renumber keep r ;; Val ((x, BAlias) :: r')
  | (x, BVar i) :: r =>
      match index_mapping keep i with
      | Some j => r' <- renumber keep r ;; Val ((x, BVar j) :: r')
      | None => Panic 301
      end
  end.

(* compiler.rs:522-533: local_count = max index + 1, 0 without variables *)
Definition local_count (b : bindings) : nat :=
  match var_indices b with
  | [] => 0
  | l => S (fold_right Nat.max 0 l)
  end.

(* what the compiler returns for an accepted line (compiler.rs `Compiled`), as far as the
   bookkeeping reads it *)
Record compiled := mkCompiled {
  c_bindings : bindings;       (* result.bindings: the complete new map *)
  c_has_expr : bool;           (* instructions non-empty (a parameter slot was allocated and stored) *)
  c_result_nil : bool;         (* result_type is nil *)
}.

Section Repl.
  Context {V : Type}.
  Variable vnil : V.

  (* the REPL (repl.rs:33) together with the part of its persistent process it relies on *)
  Record session := mkSession {
    s_bindings : bindings;      (* Repl.bindings *)
    s_locals : list V;          (* process.locals *)
    s_result : V;               (* process.result = Some(Ok v): the sleeping process's stored result *)
    s_lrt_nil : bool;           (* Repl.last_result_type == Type::nil() *)
    s_pending : option nat;     (* Environment.locals_counts[pid]: the locals count the worker reported
                                   with the last result, until the REPL takes it (take_locals_count) *)
  }.

  (* Repl::new (repl.rs:44): start_process(None) creates a sleeping process with result nil *)
  Definition initial : session := mkSession [] [] vnil true None.

  (* repl.rs forget_unstored_bindings: `if let Some(n) = env.take_locals_count(pid)` drop every
     variable whose index is >= n (a line that short-circuits binds variables it never stores;
     locals are stored in index order, so those are exactly the ones beyond the count) *)
  Fixpoint retain_below (n : nat) (b : bindings) : bindings :=
    match b with
    | [] => []
    | (x, BVar i) :: r => if i <? n then (x, BVar i) :: retain_below n r else retain_below n r
    | (x, BAlias) :: r => (x, BAlias) :: retain_below n r
    end.
  Definition forget (s : session) : session :=
    match s_pending s with
    | Some n => mkSession (retain_below n (s_bindings s)) (s_locals s) (s_result s) (s_lrt_nil s) None
    | None => s
    end.

  (* worker.rs:743-751: build the kept values, `LocalNotFound` on a bad index (nothing replaced) *)
  Fixpoint gather (ls : list V) (keep : list nat) : wres (list V) :=
    match keep with
    | [] => WOk []
    | i :: r =>
        match nth_error ls i with
        | None => WErr (LocalNotFound i)
        | Some v => match gather ls r with
                    | WOk l => WOk (v :: l)
                    | WErr e => WErr e
                    end
        end
    end.

  (* executor.rs:469 release_orphan_locals: every slot whose index is not kept becomes nil *)
  Fixpoint release_from (i : nat) (ls : list V) (keep : list nat) : list V :=
    match ls with
    | [] => []
    | v :: r => (if existsb (Nat.eqb i) keep then v else vnil) :: release_from (S i) r keep
    end.
  Definition release_orphan_locals (ls : list V) (keep : list nat) : list V := release_from 0 ls keep.

  (* repl.rs:281 compact + worker.rs:737 compact_locals + executor.rs:447 replace_locals *)
  Inductive compacted :=
  | CPanic (site : nat)
  | CWorkerError (e : env_err) (s : session)   (* the bindings are already rewritten; Worker::step returns Err *)
  | COk (s : session).

  Definition compact_core (s : session) : compacted :=
    let keep := keep_indices (s_bindings s) in
    match renumber keep (s_bindings s) with
    | Panic site => CPanic site
    | Err _ => CPanic 0
    | Val b' =>
        match gather (s_locals s) keep with
        | WErr e => CWorkerError e (mkSession b' (s_locals s) (s_result s) (s_lrt_nil s) (s_pending s))
        | WOk ls' => COk (mkSession b' ls' (s_result s) (s_lrt_nil s) (s_pending s))
        end
    end.
  (* compact begins with forget_unstored_bindings *)
  Definition compact (s : session) : compacted := compact_core (forget s).

  (* what running the line does to the process *)
  Record ran := mkRan {
    r_stored : list V;           (* values appended to locals after the parameter, in Store order *)
    r_value : V;                 (* the line's result *)
  }.

  Inductive line :=
  | LParseError
  | LCompileError
  | LOk (c : compiled) (r : ran).

  Inductive eval_result :=
  | EParseError (s : session)                  (* Err(ReplError::Parser) *)
  | EPanic (site : nat)
  | EWorkerError (e : env_err) (s : session)   (* the worker's step failed on CompactLocals *)
  | ECompileError (s : session)                (* Err(ReplError::Compiler) *)
  | ENone (s : session)                        (* Ok(None): no executable code *)
  | EValue (v : V) (s : session).              (* Ok(Some(request)) answered with v *)

  (* Repl::evaluate (repl.rs:84-204) followed by the worker handling ResumeProcess, running the
     wrapper function to completion and answering GetResult{keep_locals} *)
  Definition evaluate (s : session) (l : line) : eval_result :=
    match l with
    | LParseError => EParseError s                              (* repl.rs:91, before anything else *)
    | _ =>
        match compact s with                                    (* repl.rs:95 *)
        | CPanic site => EPanic site
        | CWorkerError e s' => EWorkerError e s'
        | COk s1 =>
            match l with
            | LParseError => EParseError s
            | LCompileError => ECompileError s1                 (* repl.rs:129: nothing committed *)
            | LOk c r =>
                if c_has_expr c then
                  (* repl.rs:143-145 commit; worker.rs:467-469 push the stored result, frame at base 0;
                     the wrapper's first instruction stores it (compiler.rs:555); the line appends
                     its stores; frame exit keeps the locals; worker.rs:629 releases the orphans *)
                  let ls := s_locals s1 ++ s_result s1 :: r_stored r in
                  let keep := keep_indices (c_bindings c) in
                  (* worker.rs get_result: the result travels with `locals_count = process.locals.len()` *)
                  EValue (r_value r)
                    (mkSession (c_bindings c) (release_orphan_locals ls keep) (r_value r) (c_result_nil c)
                               (Some (length ls)))
                else
                  (* repl.rs: no function, the process is not resumed; the recorded type of the
                     previous result is kept along with the result (`if !instructions.is_empty()`) *)
                  ENone (mkSession (c_bindings c) (s_locals s1) (s_result s1) (s_lrt_nil s1) (s_pending s1))
            end
        end
    end.

  (* the same line without the final orphan release (the state between frame exit and GetResult) *)
  Definition run_line_unreleased (s1 : session) (c : compiled) (r : ran) : session :=
    mkSession (c_bindings c) (s_locals s1 ++ s_result s1 :: r_stored r) (r_value r) (c_result_nil c)
              (Some (length (s_locals s1 ++ s_result s1 :: r_stored r))).

  (* repl.rs:209 request_variable -> environment.rs request_locals -> worker.rs:696 get_locals *)
  (* (request_variable begins with forget_unstored_bindings; the state change it makes is the one
     `compact` would make next, so it is modelled as a query on `forget s`) *)
  Definition request_variable (s : session) (x : name) : wres V :=
    let s := forget s in
    match lookup x (s_bindings s) with
    | Some (BVar i) =>
        match nth_error (s_locals s) i with
        | Some v => WOk v
        | None => WErr (LocalNotFound i)
        end
    | _ => WErr VariableNotFound
    end.

  (* repl.rs:237 get_variables: the variables sorted by local index (stable sort_by_key) *)
  Fixpoint vars_of (b : bindings) : list (name * nat) :=
    match b with
    | [] => []
    | (x, BVar i) :: r => (x, i) :: vars_of r
    | (_, BAlias) :: r => vars_of r
    end.
  Fixpoint insert_by_index (p : name * nat) (l : list (name * nat)) : list (name * nat) :=
    match l with
    | [] => [p]
    | q :: r => if snd p <=? snd q then p :: l else q :: insert_by_index p r
    end.
  Fixpoint sort_by_index (l : list (name * nat)) : list (name * nat) :=
    match l with
    | [] => []
    | p :: r => insert_by_index p (sort_by_index r)
    end.
  Definition get_variables (s : session) : list name := map fst (sort_by_index (vars_of (s_bindings s))).

  Definition session_of (r : eval_result) : option session :=
    match r with
    | EParseError s | EWorkerError _ s | ECompileError s | ENone s | EValue _ s => Some s
    | EPanic _ => None
    end.

  (* a whole history *)
  Fixpoint run_history (s : session) (ls : list line) : list eval_result :=
    match ls with
    | [] => []
    | l :: r =>
        let e := evaluate s l in
        e :: match e with
             | EPanic _ | EWorkerError _ _ => []        (* the session is over *)
             | EParseError s' | ECompileError s' | ENone s' | EValue _ s' => run_history s' r
             end
    end.

  (* ---------------------------------------------------------------------------------------------
     abstract step semantics for split_equivalence: a step maps (environment, input value) to
     (environment, value); `isnil` recognises nil. *)
  Section Steps.
    Context {env step : Type}.
    Variable exec : step -> env -> V -> env * V.
    Variable isnil : V -> bool.

    (* compile_top_level (compiler.rs:689-722): steps thread; a nil result of a non-final step
       jumps to the end with nil (for the final step the result is the value either way) *)
    Fixpoint run_seq (ss : list step) (e : env) (v : V) : env * V :=
      match ss with
      | [] => (e, v)
      | s :: r =>
          let (e', v') := exec s e v in
          if isnil v' then (e', v') else run_seq r e' v'
      end.

    (* the REPL: each line is its own sequence, fed the stored result; no short-circuit between lines *)
    Fixpoint run_lines (ls : list (list step)) (e : env) (v : V) : env * V :=
      match ls with
      | [] => (e, v)
      | l :: r => let (e', v') := run_seq l e v in run_lines r e' v'
      end.

    (* the values the REPL prints: one per line *)
    Fixpoint line_values (ls : list (list step)) (e : env) (v : V) : list V :=
      match ls with
      | [] => []
      | l :: r => let (e', v') := run_seq l e v in v' :: line_values r e' v'
      end.
  End Steps.
End Repl.

