(* ReplProofs.v — theorems about the REPL bookkeeping model (Repl.v) for C11. *)
From Coq Require Import List Arith Bool PeanoNat Lia.
From Quiver Require Import Base repl.Repl.
Import ListNotations.
Local Open Scope nat_scope.

(* ------------------------------------------------------------------------------------------- *)
(* sort                                                                                         *)
(* ------------------------------------------------------------------------------------------- *)
Lemma insert_In x y l : In y (insert x l) <-> y = x \/ In y l.
Proof.
  induction l as [|a l IH]; cbn [insert].
  - cbn. intuition.
  - destruct (x <=? a); cbn [In]; [intuition|]. rewrite IH. intuition.
Qed.

Lemma sort_In y l : In y (sort l) <-> In y l.
Proof.
  induction l as [|a l IH]; cbn [sort]; [tauto|].
  rewrite insert_In, IH. cbn. intuition.
Qed.

Lemma insert_length x l : length (insert x l) = S (length l).
Proof.
  induction l as [|a l IH]; cbn [insert]; [reflexivity|].
  destruct (x <=? a); cbn [length]; [reflexivity|]. now rewrite IH.
Qed.

Lemma sort_length l : length (sort l) = length l.
Proof. induction l as [|a l IH]; cbn [sort]; [reflexivity|]. now rewrite insert_length, IH. Qed.

(* sortedness as "every earlier element <= every later one" *)
Fixpoint sorted (l : list nat) : Prop :=
  match l with
  | [] => True
  | x :: r => (forall y, In y r -> x <= y) /\ sorted r
  end.

Lemma insert_sorted x l : sorted l -> sorted (insert x l).
Proof.
  induction l as [|a l IH]; cbn [insert sorted]; intros Hs.
  - split; [intros y []|exact I].
  - destruct Hs as [Ha Hs]. destruct (x <=? a) eqn:E.
    + apply Nat.leb_le in E. cbn [sorted]. split; [|split; assumption].
      intros y [<-|Hy]; [assumption|]. specialize (Ha y Hy). lia.
    + apply Nat.leb_gt in E. cbn [sorted]. split; [|auto].
      intros y Hy. apply insert_In in Hy. destruct Hy as [->|Hy]; [lia|auto].
Qed.

Lemma sort_sorted l : sorted (sort l).
Proof. induction l as [|a l IH]; cbn [sort]; [exact I|]. now apply insert_sorted. Qed.

(* ------------------------------------------------------------------------------------------- *)
(* index_mapping: the position of the LAST occurrence                                           *)
(* ------------------------------------------------------------------------------------------- *)
Lemma index_mapping_from_spec st keep old j :
  index_mapping_from st keep old = Some j ->
  st <= j /\ nth_error keep (j - st) = Some old /\
  (forall k, j - st < k -> nth_error keep k <> Some old).
Proof.
  revert st j. induction keep as [|a keep IH]; intros st j; cbn [index_mapping_from]; [discriminate|].
  destruct (index_mapping_from (S st) keep old) as [j'|] eqn:E.
  - intros [= <-]. destruct (IH _ _ E) as (Hle & Hn & Hlast).
    split; [lia|]. replace (j' - st) with (S (j' - S st)) by lia. cbn [nth_error]. split; [assumption|].
    intros k Hk. destruct k as [|k]; [lia|]. cbn [nth_error]. apply Hlast. lia.
  - destruct (Nat.eqb a old) eqn:Ea; [|discriminate]. apply Nat.eqb_eq in Ea. subst a.
    intros [= <-]. split; [lia|]. rewrite Nat.sub_diag. cbn [nth_error]. split; [reflexivity|].
    intros k Hk. destruct k as [|k]; [lia|]. cbn [nth_error]. intros Hn.
    assert (Hin : In old keep) by (eapply nth_error_In; eassumption).
    clear -E Hin. revert st E. induction keep as [|b keep IH]; intros st E; [destruct Hin|].
    cbn [index_mapping_from] in E. destruct (index_mapping_from (S (S st)) keep old) eqn:E2; [discriminate|].
    destruct (Nat.eqb b old) eqn:Eb; [discriminate|]. apply Nat.eqb_neq in Eb.
    destruct Hin as [->|Hin]; [congruence|]. eapply IH; eassumption.
Qed.

Lemma index_mapping_from_complete st keep old :
  In old keep -> exists j, index_mapping_from st keep old = Some j.
Proof.
  revert st. induction keep as [|a keep IH]; intros st Hin; [destruct Hin|].
  cbn [index_mapping_from]. destruct (index_mapping_from (S st) keep old) as [j|] eqn:E; [eauto|].
  destruct Hin as [->|Hin].
  - rewrite Nat.eqb_refl. eauto.
  - destruct (IH (S st) Hin) as [j Hj]. congruence.
Qed.

Lemma index_mapping_spec keep old j :
  index_mapping keep old = Some j ->
  nth_error keep j = Some old /\ (forall k, j < k -> nth_error keep k <> Some old).
Proof.
  unfold index_mapping. intros H. apply index_mapping_from_spec in H.
  rewrite Nat.sub_0_r in H. tauto.
Qed.

(* on a sorted list the map is monotone, strictly on distinct keys *)
Lemma sorted_nth_le l i j a b :
  sorted l -> i <= j -> nth_error l i = Some a -> nth_error l j = Some b -> a <= b.
Proof.
  revert i j. induction l as [|x l IH]; intros i j Hs Hij Hi Hj; [destruct i; discriminate|].
  destruct Hs as [Hx Hs]. destruct i as [|i], j as [|j]; cbn [nth_error] in *.
  - injection Hi as <-. injection Hj as <-. lia.
  - injection Hi as <-. apply Hx. eapply nth_error_In; eassumption.
  - lia.
  - apply (IH i j); auto. lia.
Qed.

Lemma index_mapping_mono keep a b ja jb :
  sorted keep -> index_mapping keep a = Some ja -> index_mapping keep b = Some jb ->
  a < b -> ja < jb.
Proof.
  intros Hs Ha Hb Hab. apply index_mapping_spec in Ha, Hb. destruct Ha as [Ha _], Hb as [Hb _].
  destruct (Nat.lt_ge_cases ja jb) as [|Hge]; [assumption|].
  pose proof (sorted_nth_le _ _ _ _ _ Hs Hge Hb Ha). lia.
Qed.

(* ------------------------------------------------------------------------------------------- *)
(* renumber                                                                                     *)
(* ------------------------------------------------------------------------------------------- *)
Lemma var_indices_In b x i : In (x, BVar i) b -> In i (var_indices b).
Proof.
  induction b as [|[y bd] b IH]; [intros []|].
  intros [H|H].
  - injection H as -> ->. cbn. now left.
  - destruct bd; cbn [var_indices]; [right|]; auto.
Qed.

Lemma var_indices_In_inv b i : In i (var_indices b) -> exists x, In (x, BVar i) b.
Proof.
  induction b as [|[y [k|]] b IH]; cbn [var_indices]; [intros []| |].
  - intros [<-|H]; [exists y; cbn; now left|]. destruct (IH H) as [x Hx]. exists x. cbn. now right.
  - intros H. destruct (IH H) as [x Hx]. exists x. cbn. now right.
Qed.

Lemma renumber_total keep b :
  (forall i, In i (var_indices b) -> In i keep) -> exists b', renumber keep b = Val b'.
Proof.
  induction b as [|[x bd] b IH]; intros Hk; cbn [renumber]; [eauto|].
  destruct bd as [i|].
  - destruct (index_mapping_from_complete 0 keep i) as [j Hj]; [apply Hk; cbn; now left|].
    unfold index_mapping. rewrite Hj.
    destruct IH as [b' Hb']; [intros k Hin; apply Hk; cbn; now right|]. rewrite Hb'. cbn. eauto.
  - destruct IH as [b' Hb']; [intros k Hin; apply Hk; exact Hin|]. rewrite Hb'. cbn. eauto.
Qed.

(* the renumbered map, entry by entry *)
Lemma renumber_In keep b b' x bd' :
  renumber keep b = Val b' -> In (x, bd') b' ->
  (bd' = BAlias /\ In (x, BAlias) b) \/
  (exists i j, bd' = BVar j /\ In (x, BVar i) b /\ index_mapping keep i = Some j).
Proof.
  revert b'. induction b as [|[y bd] b IH]; intros b'; cbn [renumber].
  - intros [= <-] [].
  - destruct bd as [i|].
    + destruct (index_mapping keep i) as [j|] eqn:E; [|discriminate].
      destruct (renumber keep b) as [r| |] eqn:Er; cbn [obind]; try discriminate.
      intros [= <-] [H|H].
      * injection H as -> <-. right. exists i, j. cbn. auto.
      * destruct (IH _ eq_refl H) as [[? ?]|(i0 & j0 & ? & ? & ?)]; [left|right; exists i0, j0]; cbn; auto.
    + destruct (renumber keep b) as [r| |] eqn:Er; cbn [obind]; try discriminate.
      intros [= <-] [H|H].
      * injection H as -> <-. left. cbn. auto.
      * destruct (IH _ eq_refl H) as [[? ?]|(i0 & j0 & ? & ? & ?)]; [left|right; exists i0, j0]; cbn; auto.
Qed.

Lemma renumber_lookup keep b b' x :
  renumber keep b = Val b' ->
  lookup x b' = match lookup x b with
                | Some (BVar i) => option_map BVar (index_mapping keep i)
                | Some BAlias => Some BAlias
                | None => None
                end.
Proof.
  revert b'. induction b as [|[y bd] b IH]; intros b'; cbn [renumber].
  - intros [= <-]. reflexivity.
  - destruct bd as [i|].
    + destruct (index_mapping keep i) as [j|] eqn:E; [|discriminate].
      destruct (renumber keep b) as [r| |] eqn:Er; cbn [obind]; try discriminate.
      intros [= <-]. cbn [lookup]. destruct (Nat.eqb x y); [now rewrite E|]. now apply IH.
    + destruct (renumber keep b) as [r| |] eqn:Er; cbn [obind]; try discriminate.
      intros [= <-]. cbn [lookup]. destruct (Nat.eqb x y); [reflexivity|]. now apply IH.
Qed.

Lemma renumber_vars_of keep b b' :
  renumber keep b = Val b' ->
  Forall2 (fun p q => fst p = fst q /\ index_mapping keep (snd p) = Some (snd q)) (vars_of b) (vars_of b').
Proof.
  revert b'. induction b as [|[y bd] b IH]; intros b'; cbn [renumber].
  - intros [= <-]. constructor.
  - destruct bd as [i|].
    + destruct (index_mapping keep i) as [j|] eqn:E; [|discriminate].
      destruct (renumber keep b) as [r| |] eqn:Er; cbn [obind]; try discriminate.
      intros [= <-]. cbn [vars_of]. constructor; [cbn; auto|]. now apply IH.
    + destruct (renumber keep b) as [r| |] eqn:Er; cbn [obind]; try discriminate.
      intros [= <-]. cbn [vars_of]. now apply IH.
Qed.

Lemma renumber_keys keep b b' :
  renumber keep b = Val b' -> map fst b' = map fst b.
Proof.
  revert b'. induction b as [|[y bd] b IH]; intros b'; cbn [renumber].
  - intros [= <-]. reflexivity.
  - destruct bd as [i|].
    + destruct (index_mapping keep i) as [j|]; [|discriminate].
      destruct (renumber keep b) as [r| |] eqn:Er; cbn [obind]; try discriminate.
      intros [= <-]. cbn. f_equal. now apply IH.
    + destruct (renumber keep b) as [r| |] eqn:Er; cbn [obind]; try discriminate.
      intros [= <-]. cbn. f_equal. now apply IH.
Qed.

(* ------------------------------------------------------------------------------------------- *)
(* the session invariant and the three operations                                               *)
(* ------------------------------------------------------------------------------------------- *)
Section Proofs.
  Context {V : Type}.
  Variable vnil : V.

  (* every bound variable's slot holds the variable's value *)
  Definition aligned (val : name -> V) (s : @session V) : Prop :=
    forall x i, In (x, BVar i) (s_bindings s) -> nth_error (s_locals s) i = Some (val x).

  Lemma gather_spec (ls : list V) keep :
    (forall i, In i keep -> i < length ls) ->
    exists ls', gather ls keep = WOk ls' /\ length ls' = length keep /\
                forall j i, nth_error keep j = Some i -> nth_error ls' j = nth_error ls i.
  Proof.
    induction keep as [|a keep IH]; intros Hk; cbn [gather].
    - exists []. repeat split. intros [|j] i; discriminate.
    - destruct (nth_error ls a) as [v|] eqn:Ea.
      2:{ apply nth_error_None in Ea. specialize (Hk a (or_introl eq_refl)). lia. }
      destruct IH as (ls' & -> & Hlen & Hnth); [intros i Hi; apply Hk; now right|].
      exists (v :: ls'). split; [reflexivity|]. split; [cbn; now rewrite Hlen|].
      intros [|j] i; cbn [nth_error]; [intros [= <-]; now rewrite Ea|apply Hnth].
  Qed.

  Lemma release_from_nth keep (ls : list V) st i :
    nth_error (release_from vnil st ls keep) i =
    match nth_error ls i with
    | Some v => Some (if existsb (Nat.eqb (st + i)) keep then v else vnil)
    | None => None
    end.
  Proof.
    revert st i. induction ls as [|v ls IH]; intros st i; cbn [release_from].
    - destruct i; reflexivity.
    - destruct i as [|i]; cbn [nth_error].
      + now rewrite Nat.add_0_r.
      + rewrite IH. now replace (S st + i) with (st + S i) by lia.
  Qed.

  Lemma release_keeps keep (ls : list V) i :
    In i keep -> nth_error (release_orphan_locals vnil ls keep) i = nth_error ls i.
  Proof.
    intros Hin. unfold release_orphan_locals. rewrite release_from_nth. cbn [Nat.add].
    destruct (nth_error ls i); [|reflexivity].
    replace (existsb (Nat.eqb i) keep) with true; [reflexivity|].
    symmetry. apply existsb_exists. exists i. split; [assumption|apply Nat.eqb_refl].
  Qed.

  Lemma release_length keep (ls : list V) : length (release_orphan_locals vnil ls keep) = length ls.
  Proof.
    unfold release_orphan_locals. generalize 0. induction ls as [|v ls IH]; intros st; cbn; [reflexivity|].
    now rewrite IH.
  Qed.

  Lemma keep_indices_In b x i : In (x, BVar i) b -> In i (keep_indices b).
  Proof. intros H. unfold keep_indices. apply (proj2 (sort_In _ _)). eapply var_indices_In; eassumption. Qed.

  (* (3) orphan release preserves alignment *)
  Lemma release_aligned val (s : @session V) :
    aligned val s ->
    aligned val (mkSession (s_bindings s)
                           (release_orphan_locals vnil (s_locals s) (keep_indices (s_bindings s)))
                           (s_result s) (s_lrt_nil s) (s_pending s)).
  Proof.
    intros Ha x i Hin. cbn [s_bindings s_locals] in *.
    rewrite release_keeps by (eapply keep_indices_In; eassumption). now apply Ha.
  Qed.

  (* local_count after compaction: max of the renumbered indices + 1 = number of kept slots *)
  Lemma fold_max_le l m : (forall i, In i l -> i <= m) -> fold_right Nat.max 0 l <= m.
  Proof. induction l as [|a l IH]; intros H; cbn; [lia|]. pose proof (H a (or_introl eq_refl)).
         assert (fold_right Nat.max 0 l <= m) by (apply IH; intros; apply H; now right). lia. Qed.
  Lemma fold_max_ge l i : In i l -> i <= fold_right Nat.max 0 l.
  Proof. induction l as [|a l IH]; intros []; cbn; [subst; lia|]. specialize (IH H). lia. Qed.

  Lemma vars_of_indices b : map snd (vars_of b) = var_indices b.
  Proof. induction b as [|[x [i|]] b IH]; cbn; [reflexivity| |]; now rewrite ?IH. Qed.

  Lemma sorted_last_max l d : sorted l -> l <> [] -> forall y, In y l -> y <= last l d.
  Proof.
    induction l as [|a l IH]; intros Hs Hne y Hy; [congruence|].
    destruct Hs as [Ha Hs]. destruct l as [|b l].
    - destruct Hy as [<-|[]]. cbn. lia.
    - change (last (a :: b :: l) d) with (last (b :: l) d).
      destruct Hy as [<-|Hy].
      + apply Ha. clear. generalize b. induction l as [|c l IH]; intros b0; cbn; [now left|].
        right. apply IH.
      + apply IH; [assumption|discriminate|assumption].
  Qed.

  Lemma last_nth (l : list nat) d : l <> [] -> nth_error l (length l - 1) = Some (last l d).
  Proof.
    induction l as [|a l IH]; intros Hne; [congruence|].
    destruct l as [|b l]; [reflexivity|].
    change (last (a :: b :: l) d) with (last (b :: l) d).
    replace (length (a :: b :: l) - 1) with (S (length (b :: l) - 1)) by (cbn; lia).
    cbn [nth_error]. apply IH. discriminate.
  Qed.

  Lemma renumber_var_indices keep b b' :
    renumber keep b = Val b' ->
    Forall2 (fun i j => index_mapping keep i = Some j) (var_indices b) (var_indices b').
  Proof.
    intros Hr. pose proof (renumber_vars_of _ _ _ Hr) as HF.
    rewrite <- !vars_of_indices. induction HF as [|p q l l' [_ Hpq] _ IH]; cbn; constructor; assumption.
  Qed.

  Lemma Forall2_len {A B} (R : A -> B -> Prop) l l' : Forall2 R l l' -> length l = length l'.
  Proof. induction 1; cbn; congruence. Qed.

  Lemma Forall2_In_r {A B} (R : A -> B -> Prop) l l' y :
    Forall2 R l l' -> In y l' -> exists x, In x l /\ R x y.
  Proof.
    induction 1 as [|a b l l' Hab _ IH]; intros Hin; [destruct Hin|].
    destruct Hin as [<-|Hin]; [exists a; cbn; auto|].
    destruct (IH Hin) as (x & ? & ?). exists x. cbn. auto.
  Qed.
  Lemma Forall2_In_l {A B} (R : A -> B -> Prop) l l' x :
    Forall2 R l l' -> In x l -> exists y, In y l' /\ R x y.
  Proof.
    induction 1 as [|a b l l' Hab _ IH]; intros Hin; [destruct Hin|].
    destruct Hin as [<-|Hin]; [exists b; cbn; auto|].
    destruct (IH Hin) as (y & ? & ?). exists y. cbn. auto.
  Qed.

  (* compiler.rs:522: what the compiler computes from the renumbered map is the physical length
     of the compacted locals: this is why compaction is correctness-critical *)
  Lemma compact_local_count b b' :
    renumber (keep_indices b) b = Val b' -> local_count b' = length (keep_indices b).
  Proof.
    intros Hr. pose proof (renumber_var_indices _ _ _ Hr) as HF.
    unfold local_count. set (keep := keep_indices b) in *.
    assert (Hlen : length (var_indices b') = length keep).
    { rewrite <- (Forall2_len _ _ _ HF). unfold keep, keep_indices. now rewrite sort_length. }
    destruct (var_indices b') as [|j0 js] eqn:Ejs.
    - cbn in Hlen. lia.
    - assert (Hpos : 0 < length keep) by (rewrite <- Hlen; cbn; lia).
      rewrite <- Ejs in HF |- *. clear Hlen.
      assert (Hne : keep <> []) by (intros E; rewrite E in Hpos; cbn in Hpos; lia).
      assert (Hs : sorted keep) by apply sort_sorted.
      set (M := last keep 0).
      assert (HM : nth_error keep (length keep - 1) = Some M) by (apply last_nth; assumption).
      assert (HMin : In M (var_indices b)).
      { apply (proj1 (sort_In _ _)). fold (keep_indices b). fold keep. eapply nth_error_In; eassumption. }
      destruct (Forall2_In_l _ _ _ _ HF HMin) as (jM & HjM & HmapM).
      apply index_mapping_spec in HmapM. destruct HmapM as [HnM HlastM].
      assert (HjMeq : jM = length keep - 1).
      { assert (jM < length keep) by (apply nth_error_Some; congruence).
        destruct (Nat.lt_ge_cases jM (length keep - 1)) as [Hlt|]; [|lia].
        exfalso. exact (HlastM _ Hlt HM). }
      assert (Hub : fold_right Nat.max 0 (var_indices b') <= length keep - 1).
      { apply fold_max_le. intros j Hj. destruct (Forall2_In_r _ _ _ _ HF Hj) as (i & _ & Hm).
        apply index_mapping_spec in Hm. destruct Hm as [Hn _].
        assert (j < length keep) by (apply nth_error_Some; congruence). lia. }
      pose proof (fold_max_ge _ _ HjM) as Hlb.
      lia.
  Qed.

  Definition in_range (s : @session V) : Prop :=
    forall x i, In (x, BVar i) (s_bindings s) -> i < length (s_locals s).

  Lemma aligned_in_range val s : aligned val s -> in_range s.
  Proof. intros Ha x i Hin. apply nth_error_Some. rewrite (Ha x i Hin). discriminate. Qed.

  (* (1) compaction: never fails on a session whose variable slots exist, preserves alignment,
     keeps result and result type, and leaves local_count = physical length *)
  Lemma compact_core_ok (s : @session V) :
    in_range s ->
    exists b' ls',
      compact_core s = COk (mkSession b' ls' (s_result s) (s_lrt_nil s) (s_pending s)) /\
      renumber (keep_indices (s_bindings s)) (s_bindings s) = Val b' /\
      length ls' = length (keep_indices (s_bindings s)) /\
      (forall j i, nth_error (keep_indices (s_bindings s)) j = Some i -> nth_error ls' j = nth_error (s_locals s) i) /\
      local_count b' = length ls'.
  Proof.
    intros Hr. unfold compact_core. set (keep := keep_indices (s_bindings s)).
    destruct (renumber_total keep (s_bindings s)) as [b' Hb'].
    { intros i Hi. unfold keep, keep_indices. now apply (proj2 (sort_In _ _)). }
    rewrite Hb'.
    destruct (gather_spec (s_locals s) keep) as (ls' & Hg & Hlen & Hnth).
    { intros i Hi. unfold keep, keep_indices in Hi. apply (proj1 (sort_In _ _)) in Hi.
      destruct (var_indices_In_inv _ _ Hi) as [x Hx]. exact (Hr x i Hx). }
    rewrite Hg. exists b', ls'. repeat split; try assumption.
    rewrite Hlen. now apply compact_local_count.
  Qed.

  Lemma compact_core_aligned val (s : @session V) :
    aligned val s ->
    exists s1, compact_core s = COk s1 /\ aligned val s1 /\
               s_result s1 = s_result s /\ s_lrt_nil s1 = s_lrt_nil s /\
               local_count (s_bindings s1) = length (s_locals s1) /\ s_pending s1 = s_pending s.
  Proof.
    intros Ha. destruct (compact_core_ok s (aligned_in_range _ _ Ha)) as (b' & ls' & Hc & Hr & Hlen & Hnth & Hlc).
    eexists. split; [exact Hc|]. cbn [s_bindings s_locals s_result s_lrt_nil s_pending]. repeat split; try assumption.
    intros x j Hin. cbn [s_bindings s_locals] in *.
    destruct (renumber_In _ _ _ _ _ Hr Hin) as [[Hbd _]|(i & j' & Hbd & Hold & Hmap)]; [discriminate|].
    injection Hbd as <-. apply index_mapping_spec in Hmap. destruct Hmap as [Hn _].
    rewrite (Hnth _ _ Hn). now apply Ha.
  Qed.

  (* forget_unstored_bindings *)
  Lemma retain_below_In n b x bd :
    In (x, bd) (retain_below n b) <-> In (x, bd) b /\ match bd with BVar i => i < n | BAlias => True end.
  Proof.
    induction b as [|[y [k|]] b IH]; cbn [retain_below].
    - cbn. tauto.
    - destruct (Nat.ltb_spec k n) as [Hlt|Hge]; cbn [In]; rewrite IH.
      + split; [intros [H|[H1 H2]]|intros [[H|H] H2]]; auto.
        injection H as <- <-. auto.
      + split; [intros [H1 H2]; auto|intros [[H|H] H2]; auto].
        injection H as <- <-. lia.
    - cbn [In]. rewrite IH. split; [intros [H|[H1 H2]]|intros [[H|H] H2]]; auto.
      injection H as <- <-. auto.
  Qed.

  Lemma forget_pending (s : @session V) : s_pending (forget s) = None.
  Proof. unfold forget. destruct (s_pending s) eqn:E; [reflexivity|assumption]. Qed.
  Lemma forget_idem (s : @session V) : forget (forget s) = forget s.
  Proof. unfold forget at 1. now rewrite forget_pending. Qed.
  Lemma forget_none (s : @session V) : s_pending s = None -> forget s = s.
  Proof. unfold forget. now intros ->. Qed.
  Lemma forget_fields (s : @session V) :
    s_locals (forget s) = s_locals s /\ s_result (forget s) = s_result s /\ s_lrt_nil (forget s) = s_lrt_nil s.
  Proof. unfold forget. destruct (s_pending s); repeat split. Qed.

  (* whatever a line bound, once the REPL has forgotten the variables beyond the reported locals
     count every remaining variable addresses an existing slot (the repair of F51) *)
  Lemma forget_in_range (s : @session V) :
    s_pending s = Some (length (s_locals s)) -> in_range (forget s).
  Proof.
    intros Hp x i Hin. unfold forget in *. rewrite Hp in *. cbn [s_bindings s_locals] in *.
    apply retain_below_In in Hin. tauto.
  Qed.

  (* (1) compaction (which begins by forgetting): never fails, preserves alignment, keeps result
     and result type, leaves local_count = physical length *)
  Lemma compact_aligned val (s : @session V) :
    aligned val (forget s) ->
    exists s1, compact s = COk s1 /\ aligned val s1 /\
               s_result s1 = s_result s /\ s_lrt_nil s1 = s_lrt_nil s /\
               local_count (s_bindings s1) = length (s_locals s1) /\ s_pending s1 = None.
  Proof.
    intros Ha. destruct (compact_core_aligned val _ Ha) as (s1 & Hc & Ha1 & Hr & Hl & Hlc & Hp).
    destruct (forget_fields s) as (_ & Hfr & Hfl).
    exists s1. unfold compact. rewrite Hr, Hl, Hp, Hfr, Hfl, forget_pending. auto 10.
  Qed.

  Lemma compact_in_range (s : @session V) :
    in_range (forget s) -> exists s1, compact s = COk s1 /\ s_pending s1 = None.
  Proof.
    intros Hr. destruct (compact_core_ok _ Hr) as (b' & ls' & Hc & _).
    eexists. split; [exact Hc|]. cbn. apply forget_pending.
  Qed.
End Proofs.

Section Lines.
  Context {V : Type}.
  Variable vnil : V.

  (* What the compiler must deliver for the bookkeeping to stay aligned (its slot discipline):
     every variable of the new map is either an old variable at its compacted slot with its old
     value, or lives in a slot at or after the line's parameter slot n (= local_count = physical
     length after compaction), and then — IF the line stored that slot at all — the slot holds the
     variable's value.  A variable whose slot was never stored (the line short-circuited before its
     step) needs nothing: the REPL forgets it. *)
  Definition line_wf (s1 : @session V) (c : compiled) (r : @ran V) (val val' : name -> V) : Prop :=
    forall x i, In (x, BVar i) (c_bindings c) ->
      (i < length (s_locals s1) /\ In (x, BVar i) (s_bindings s1) /\ val' x = val x) \/
      (c_has_expr c = true /\ length (s_locals s1) <= i /\
       (i < length (s_locals s1 ++ s_result s1 :: r_stored r) ->
        nth_error (s_result s1 :: r_stored r) (i - length (s_locals s1)) = Some (val' x))).

  (* (2) a successful line, observed after the REPL forgot the unstored variables *)
  Lemma line_aligned val val' (s1 : @session V) c r :
    aligned val s1 -> line_wf s1 c r val val' -> c_has_expr c = true ->
    aligned val' (forget (mkSession (c_bindings c)
                   (release_orphan_locals vnil (s_locals s1 ++ s_result s1 :: r_stored r) (keep_indices (c_bindings c)))
                   (r_value r) (c_result_nil c) (Some (length (s_locals s1 ++ s_result s1 :: r_stored r))))).
  Proof.
    intros Ha Hwf _ x i Hin. unfold forget in *. cbn [s_pending s_bindings s_locals] in *.
    apply retain_below_In in Hin. destruct Hin as [Hin Hlt].
    rewrite release_keeps by (eapply keep_indices_In; eassumption).
    destruct (Hwf x i Hin) as [(Hlt' & Hold & Hv)|(_ & Hge & Hn)].
    - rewrite nth_error_app1 by assumption. rewrite Hv. now apply Ha.
    - rewrite nth_error_app2 by assumption. exact (Hn Hlt).
  Qed.

  (* the parameter of a line is the stored result of the previous one (worker.rs:467-469) *)
  Lemma line_parameter_is_previous_result (s1 : @session V) c r :
    nth_error (s_locals (run_line_unreleased s1 c r)) (length (s_locals s1)) = Some (s_result s1).
  Proof. cbn. rewrite nth_error_app2 by lia. now rewrite Nat.sub_diag. Qed.

  (* repl_alignment: the invariant (stated on the session as the REPL sees it once it has forgotten
     the unstored variables, which it does before every compaction and lookup) through a whole
     `evaluate`, whatever the line is *)
  Theorem repl_alignment_thm val (s : @session V) (l : line) :
    aligned val (forget s) ->
    match l with
    | LParseError => evaluate vnil s l = EParseError s
    | LCompileError => exists s1, evaluate vnil s l = ECompileError s1 /\ aligned val (forget s1)
    | LOk c r =>
        exists s1, compact s = COk s1 /\ aligned val s1 /\
                   local_count (s_bindings s1) = length (s_locals s1) /\
        forall val', line_wf s1 c r val val' ->
          if c_has_expr c
          then exists s', evaluate vnil s l = EValue (r_value r) s' /\ aligned val' (forget s') /\ s_result s' = r_value r
          else exists s', evaluate vnil s l = ENone s' /\ aligned val' (forget s') /\ s_result s' = s_result s
    end.
  Proof.
    intros Ha. destruct l as [| |c r].
    - reflexivity.
    - destruct (compact_aligned val s Ha) as (s1 & Hc & Ha1 & _ & _ & _ & Hp). exists s1. cbn. rewrite Hc.
      split; [reflexivity|]. now rewrite (forget_none _ Hp).
    - destruct (compact_aligned val s Ha) as (s1 & Hc & Ha1 & Hres & _ & Hlc & Hp).
      exists s1. repeat split; try assumption. intros val' Hwf. cbn [evaluate]. rewrite Hc.
      destruct (c_has_expr c) eqn:Ehe.
      + eexists. split; [reflexivity|]. split; [|reflexivity]. now apply (line_aligned val val').
      + eexists. split; [reflexivity|]. split; [|now cbn].
        rewrite forget_none by (cbn; assumption).
        intros x i Hin. cbn [s_bindings s_locals] in *.
        destruct (Hwf x i Hin) as [(Hlt & Hold & Hv)|(Hhe & _)].
        * rewrite Hv. now apply Ha1.
        * (* a line without expressions stores nothing: it cannot introduce a variable *)
          congruence.
  Qed.

  (* the repair of F51 in general: whatever a line with expressions binds and stores, the session
     it leaves can be compacted (no LocalNotFound out of Worker::step), i.e. the next line runs *)
  Theorem session_survives_thm (s : @session V) c r :
    in_range (forget s) -> c_has_expr c = true ->
    exists s', evaluate vnil s (LOk c r) = EValue (r_value r) s' /\ in_range (forget s') /\
               exists s1', compact s' = COk s1'.
  Proof.
    intros Hr He. destruct (compact_in_range s Hr) as (s1 & Hc & _).
    cbn [evaluate]. rewrite Hc, He. eexists. split; [reflexivity|].
    assert (Hir : in_range (forget (mkSession (c_bindings c)
              (release_orphan_locals vnil (s_locals s1 ++ s_result s1 :: r_stored r) (keep_indices (c_bindings c)))
              (r_value r) (c_result_nil c) (Some (length (s_locals s1 ++ s_result s1 :: r_stored r)))))).
    { apply forget_in_range. cbn [s_pending s_locals]. now rewrite release_length. }
    split; [exact Hir|]. destruct (compact_in_range _ Hir) as (s1' & Hc' & _). eauto.
  Qed.
End Lines.

Lemma lookup_In x b bd : lookup x b = Some bd -> In (x, bd) b.
Proof.
  induction b as [|[y bd'] b IH]; cbn [lookup]; [discriminate|].
  destruct (Nat.eqb x y) eqn:E.
  - apply Nat.eqb_eq in E. subst y. intros [= <-]. now left.
  - intros H. right. now apply IH.
Qed.

(* get_variables is insensitive to an order-preserving renumbering *)
Section SortByIndex.
  Variable keep : list nat.
  Hypothesis keep_sorted : sorted keep.
  Let R (p q : name * nat) : Prop := fst p = fst q /\ index_mapping keep (snd p) = Some (snd q).

  Lemma leb_pres p q p' q' : R p q -> R p' q' -> (snd p <=? snd p') = (snd q <=? snd q').
  Proof.
    intros [_ H] [_ H'].
    destruct (Nat.leb_spec (snd p) (snd p')) as [Hle|Hgt]; symmetry.
    - apply Nat.leb_le. destruct (Nat.eq_dec (snd p) (snd p')) as [E|NE].
      + rewrite E in H. rewrite H in H'. injection H' as ->. lia.
      + pose proof (index_mapping_mono keep _ _ _ _ keep_sorted H H' ltac:(lia)). lia.
    - apply Nat.leb_gt. exact (index_mapping_mono keep _ _ _ _ keep_sorted H' H Hgt).
  Qed.

  Lemma insert_by_index_F2 p q l l' :
    R p q -> Forall2 R l l' -> Forall2 R (insert_by_index p l) (insert_by_index q l').
  Proof.
    intros Hpq HF. induction HF as [|a b l l' Hab HF IH]; cbn [insert_by_index].
    - constructor; [assumption|constructor].
    - rewrite (leb_pres _ _ _ _ Hpq Hab). destruct (snd q <=? snd b).
      + constructor; [assumption|]. constructor; assumption.
      + constructor; assumption.
  Qed.

  Lemma sort_by_index_F2 l l' : Forall2 R l l' -> Forall2 R (sort_by_index l) (sort_by_index l').
  Proof.
    induction 1 as [|a b l l' Hab HF IH]; cbn [sort_by_index]; [constructor|].
    now apply insert_by_index_F2.
  Qed.

  Lemma F2_names l l' : Forall2 R l l' -> map fst l = map fst l'.
  Proof. induction 1 as [|a b l l' [Hab _] _ IH]; cbn; [reflexivity|]. now rewrite Hab, IH. Qed.
End SortByIndex.

Section Rejected.
  Context {V : Type}.
  Variable vnil : V.

  (* a line the parser rejects: nothing happens (repl.rs:91 returns before `compact`) *)
  Theorem rejected_by_parser_inert (s : @session V) : evaluate vnil s LParseError = EParseError s.
  Proof. reflexivity. Qed.

  (* a line the compiler rejects: `compact` has already run (repl.rs:95 precedes 118-129), so the
     session is the compacted one (of the session as it is after forgetting the variables the last
     line never stored, which `compact` does first): same names, same aliases, same stored result and result type,
     variable indices renumbered by `index_mapping (keep_indices ..)`, locals gathered in that
     order — and every observation a user can make is unchanged *)
  Theorem rejected_by_compiler_inert val (s : @session V) :
    aligned val (forget s) ->
    exists s1,
      evaluate vnil s LCompileError = ECompileError s1 /\
      renumber (keep_indices (s_bindings (forget s))) (s_bindings (forget s)) = Val (s_bindings s1) /\
      map fst (s_bindings s1) = map fst (s_bindings (forget s)) /\
      s_result s1 = s_result s /\ s_lrt_nil s1 = s_lrt_nil s /\
      (forall x, request_variable s1 x = request_variable s x) /\
      get_variables s1 = get_variables (forget s) /\
      (forall x, lookup x (s_bindings s1) = Some BAlias <-> lookup x (s_bindings (forget s)) = Some BAlias) /\
      aligned val (forget s1).
  Proof.
    intros Ha. set (s0 := forget s) in *. pose proof (aligned_in_range _ _ Ha) as Hrange.
    destruct (compact_core_ok s0 Hrange) as (b' & ls' & Hc & Hr & Hlen & Hnth & Hlc).
    destruct (compact_core_aligned val s0 Ha) as (s1' & Hc' & Ha1 & _).
    rewrite Hc in Hc'. injection Hc' as <-.
    destruct (forget_fields s) as (_ & Hfr & Hfl). fold s0 in Hfr, Hfl.
    assert (Hp0 : s_pending s0 = None) by apply forget_pending.
    eexists. split; [cbn [evaluate]; unfold compact; fold s0; rewrite Hc; reflexivity|].
    cbn [s_bindings s_locals s_result s_lrt_nil].
    split; [assumption|]. split; [eapply renumber_keys; eassumption|].
    split; [assumption|]. split; [assumption|].
    split; [|split; [|split]].
    - intros x. unfold request_variable. fold s0.
      rewrite (forget_none (mkSession b' ls' (s_result s0) (s_lrt_nil s0) (s_pending s0))) by (cbn; assumption).
      cbn [s_bindings s_locals].
      rewrite (renumber_lookup _ _ _ x Hr).
      destruct (lookup x (s_bindings s0)) as [[i|]|] eqn:El; try reflexivity.
      pose proof (lookup_In _ _ _ El) as Hin.
      destruct (index_mapping_from_complete 0 (keep_indices (s_bindings s0)) i) as [j Hj];
        [eapply keep_indices_In; eassumption|].
      unfold index_mapping. rewrite Hj. cbn [option_map].
      pose proof (index_mapping_spec _ _ _ Hj) as [Hn _]. rewrite (Hnth _ _ Hn). now rewrite (Ha x i Hin).
    - unfold get_variables. cbn [s_bindings]. symmetry.
      eapply F2_names. apply sort_by_index_F2; [apply sort_sorted|].
      exact (renumber_vars_of _ _ _ Hr).
    - intros x. rewrite (renumber_lookup _ _ _ x Hr).
      destruct (lookup x (s_bindings s0)) as [[i|]|]; try tauto.
      destruct (index_mapping _ i); cbn; split; discriminate.
    - rewrite forget_none by (cbn; assumption). assumption.
  Qed.
End Rejected.

(* ------------------------------------------------------------------------------------------- *)
(* split_equivalence                                                                            *)
(* ------------------------------------------------------------------------------------------- *)
Section Split.
  Context {V env step : Type}.
  Variable exec : step -> env -> V -> env * V.
  Variable isnil : V -> bool.
  Notation run_seq := (run_seq exec isnil).
  Notation run_lines := (run_lines exec isnil).
  Notation line_values := (line_values exec isnil).

  (* one sequence cut in two: the second part runs unless the (non-empty) first part ended in nil *)
  Lemma run_seq_app a b e v :
    run_seq (a ++ b) e v =
    match a with
    | [] => run_seq b e v
    | _ => let (e', v') := run_seq a e v in if isnil v' then (e', v') else run_seq b e' v'
    end.
  Proof.
    revert e v. induction a as [|s a IH]; intros e v; [reflexivity|].
    cbn [app Repl.run_seq]. destruct (exec s e v) as [e1 v1]. destruct (isnil v1) eqn:En.
    - now rewrite En.
    - rewrite IH. destruct a as [|s' a]; [cbn; now rewrite En|reflexivity].
  Qed.

  (* "no line before the last one that has steps evaluated to nil" *)
  Fixpoint lines_nil_free (ls : list (list step)) (e : env) (v : V) : Prop :=
    match ls with
    | [] => True
    | l :: r =>
        let (e', v') := run_seq l e v in
        (l = [] \/ isnil v' = false \/ concat r = []) /\ lines_nil_free r e' v'
    end.

  Theorem split_equivalence_thm ls e v :
    lines_nil_free ls e v -> run_lines ls e v = run_seq (concat ls) e v.
  Proof.
    revert e v. induction ls as [|l r IH]; intros e v; [reflexivity|].
    cbn [lines_nil_free Repl.run_lines concat]. rewrite run_seq_app.
    destruct (run_seq l e v) as [e' v'] eqn:El. intros [Hl Hr]. rewrite (IH _ _ Hr).
    destruct l as [|s l].
    - cbn in El. now injection El as <- <-.
    - destruct Hl as [Hl|[Hl|Hl]]; [discriminate|now rewrite Hl|].
      rewrite Hl. cbn [Repl.run_seq]. now destruct (isnil v').
  Qed.

  (* the value printed for every line is the value of the one program made of the lines so far *)
  Theorem split_equivalence_per_line ls e v k :
    lines_nil_free ls e v -> k < length ls ->
    nth_error (line_values ls e v) k = Some (snd (run_seq (concat (firstn (S k) ls)) e v)).
  Proof.
    revert e v k. induction ls as [|l r IH]; intros e v k Hnf Hk; [cbn in Hk; lia|].
    cbn [lines_nil_free] in Hnf. cbn [Repl.line_values firstn concat].
    destruct (run_seq l e v) as [e' v'] eqn:El. destruct Hnf as [Hl Hr].
    destruct k as [|k].
    - cbn [nth_error firstn concat]. now rewrite app_nil_r, El.
    - cbn [nth_error]. cbn [length] in Hk. rewrite (IH e' v' k Hr ltac:(lia)).
      rewrite run_seq_app. rewrite El. destruct l as [|s l].
      + cbn in El. now injection El as <- <-.
      + destruct Hl as [Hl|[Hl|Hl]]; [discriminate|now rewrite Hl|].
        (* nothing follows: r has no steps, so every later prefix is empty as well *)
        assert (Hc : concat (firstn (S k) r) = []).
        { clear -Hl. revert k. induction r as [|a r IHr]; intros k; [reflexivity|].
          cbn [concat] in Hl. apply app_eq_nil in Hl. destruct Hl as [-> Hl].
          cbn [firstn concat app]. destruct k; [now destruct r|]. now apply IHr. }
        rewrite Hc. cbn [Repl.run_seq]. now destruct (isnil v').
  Qed.
End Split.

(* ------------------------------------------------------------------------------------------- *)
(* non-vacuity and the refuted case                                                             *)
(* ------------------------------------------------------------------------------------------- *)
Module Examples.
  (* values are numbers, nil is 0; names: x = 0, t = 1 (an alias), z = 2, w = 3 *)
  Definition s_ex : @session nat :=
    mkSession [(0, BVar 3); (1, BAlias); (2, BVar 1)] [0; 20; 0; 10] 77 false None.
  Definition val_ex (x : name) : nat := match x with 0 => 10 | 2 => 20 | _ => 0 end.

  Lemma s_ex_aligned : aligned val_ex (forget s_ex).
  Proof.
    intros x i Hin. cbn in Hin.
    destruct Hin as [H|[H|[H|[]]]]; try discriminate; injection H as <- <-; reflexivity.
  Qed.

  (* compaction really renumbers here: x 3 -> 1, z 1 -> 0, locals [20; 10] *)
  Example compact_ex :
    compact s_ex = COk (mkSession [(0, BVar 1); (1, BAlias); (2, BVar 0)] [20; 10] 77 false None).
  Proof. reflexivity. Qed.

  (* a line `w = <99>, x = <55>` (shadowing x): parameter at slot 2, w at 3, a temporary at 4, x at 5 *)
  Definition c_ex : compiled := mkCompiled [(0, BVar 5); (1, BAlias); (2, BVar 0); (3, BVar 3)] true false.
  Definition r_ex : @ran nat := mkRan [99; 1; 55] 1.
  Definition val_ex' (x : name) : nat := match x with 0 => 55 | 2 => 20 | 3 => 99 | _ => 0 end.

  Example line_wf_ex :
    line_wf (mkSession [(0, BVar 1); (1, BAlias); (2, BVar 0)] [20; 10] 77 false None) c_ex r_ex val_ex val_ex'.
  Proof.
    intros x i Hin. cbn in Hin.
    destruct Hin as [H|[H|[H|[H|[]]]]]; try discriminate; injection H as <- <-; cbn.
    - right. repeat split; lia.
    - left. repeat split; [lia|auto].
    - right. repeat split; lia.
  Qed.

  Example evaluate_ex :
    evaluate 0 s_ex (LOk c_ex r_ex) =
    EValue 1 (mkSession [(0, BVar 5); (1, BAlias); (2, BVar 0); (3, BVar 3)] [20; 0; 0; 99; 0; 55] 1 false (Some 6)).
  Proof. reflexivity. Qed.

  (* the compile-rejected line on the same session: observationally the same session *)
  Example rejected_ex :
    evaluate 0 s_ex LCompileError = ECompileError (mkSession [(0, BVar 1); (1, BAlias); (2, BVar 0)] [20; 10] 77 false None)
    /\ get_variables s_ex = [2; 0]
    /\ request_variable s_ex 0 = WOk 10.
  Proof. repeat split. Qed.

  (* split_equivalence: steps add their number to the value; step 0 yields nil (0) *)
  Definition exec_ex (s : nat) (e : list nat) (v : nat) : list nat * nat := (s :: e, if Nat.eqb s 0 then 0 else v + s).
  Example split_ex :
    lines_nil_free exec_ex (Nat.eqb 0) [[1; 2]; []; [3]; [4; 5]] [] 0 /\
    run_lines exec_ex (Nat.eqb 0) [[1; 2]; []; [3]; [4; 5]] [] 0 = ([5; 4; 3; 2; 1], 15) /\
    line_values exec_ex (Nat.eqb 0) [[1; 2]; []; [3]; [4; 5]] [] 0 = [3; 3; 6; 15].
  Proof. cbn. repeat split; auto. Qed.
  (* ... and the hypothesis matters: with a nil line in the middle the REPL goes on, the program stops *)
  Example split_nil_differs :
    run_lines exec_ex (Nat.eqb 0) [[1; 0]; [3]] [] 0 <> run_seq exec_ex (Nat.eqb 0) (concat [[1; 0]; [3]]) [] 0.
  Proof. cbn. discriminate. Qed.

  (* F51 (repaired by fd5925d): the line `5 =6, x = 7` on a fresh session: the compiler returns x at
     slot 1, the run stores only the parameter (the second step is skipped), the worker reports 1
     local.  The REPL forgets x: `request_variable x` answers VariableNotFound, the invariant holds
     on what is left, and the next line compacts and runs (before the repair: LocalNotFound out of
     Worker::step, the session was lost). *)
  Definition c_f51 : compiled := mkCompiled [(0, BVar 1)] true false.
  Definition r_f51 : @ran nat := mkRan [] 0.
  Definition s_f51 : @session nat := mkSession [(0, BVar 1)] [0] 0 false (Some 1).
  Lemma shortcircuit_survives :
    evaluate 0 (initial 0) (LOk c_f51 r_f51) = EValue 0 s_f51 /\
    (forall val, ~ aligned val s_f51) /\
    (forall val, aligned val (forget s_f51)) /\
    request_variable s_f51 0 = WErr VariableNotFound /\
    get_variables s_f51 = [0] /\
    evaluate 0 s_f51 LCompileError = ECompileError (mkSession [] [] 0 false None) /\
    evaluate 0 s_f51 (LOk (mkCompiled [(1, BVar 1)] true false) (mkRan [9] 1))
      = EValue 1 (mkSession [(1, BVar 1)] [0; 9] 1 false (Some 2)).
  Proof.
    split; [reflexivity|]. split.
    { intros val Ha. specialize (Ha 0 1 (or_introl eq_refl)). discriminate. }
    split; [intros val x i []|]. repeat split.
  Qed.
End Examples.
