(* BinaryShiftProofs.v — binary_shift agrees with the reference spec (logical shift of the big-endian bit string). *)
From Quiver Require Import BuiltinWf.
From Coq Require Import Lia.

Local Open Scope Z_scope.

(* ================================================================== A. be_val / be_bytes library *)

Lemma pow256_pos m : 0 < 256 ^ Z.of_nat m.
Proof. apply Z.pow_pos_nonneg; lia. Qed.

Lemma pow256_S m : 256 ^ Z.of_nat (S m) = 256 * 256 ^ Z.of_nat m.
Proof. rewrite Nat2Z.inj_succ, Z.pow_succ_r by lia. reflexivity. Qed.

Lemma pow256_add a b : 256 ^ Z.of_nat (a + b) = 256 ^ Z.of_nat a * 256 ^ Z.of_nat b.
Proof. rewrite Nat2Z.inj_add, Z.pow_add_r by lia. reflexivity. Qed.

Lemma pow256_pow2 m : 256 ^ m = 2 ^ (8 * m).
Proof.
  destruct (Z.le_gt_cases 0 m) as [H|H].
  - rewrite Z.pow_mul_r by lia. reflexivity.
  - rewrite !Z.pow_neg_r by lia. reflexivity.
Qed.

Lemma be_val_fold acc l :
  fold_left (fun a b => a * 256 + b) l acc = acc * 256 ^ Z.of_nat (length l) + be_val l.
Proof.
  revert acc. induction l as [|b l IH]; intros acc.
  - cbn [fold_left length]. unfold be_val. cbn [fold_left]. rewrite Z.pow_0_r. lia.
  - unfold be_val. cbn [fold_left]. rewrite (IH (acc * 256 + b)), (IH (0 * 256 + b)).
    cbn [length]. rewrite pow256_S. ring.
Qed.

Lemma be_val_nil : be_val [] = 0.
Proof. reflexivity. Qed.

Lemma be_val_cons b l : be_val (b :: l) = b * 256 ^ Z.of_nat (length l) + be_val l.
Proof.
  unfold be_val at 1. cbn [fold_left]. rewrite be_val_fold. ring.
Qed.

Lemma be_val_app l1 l2 :
  be_val (l1 ++ l2) = be_val l1 * 256 ^ Z.of_nat (length l2) + be_val l2.
Proof.
  unfold be_val at 1. rewrite fold_left_app. fold (be_val l1). apply be_val_fold.
Qed.

Lemma be_val_snoc l b : be_val (l ++ [b]) = be_val l * 256 + b.
Proof.
  rewrite be_val_app. cbn [length]. rewrite be_val_cons, be_val_nil. cbn [length].
  change (Z.of_nat 1) with 1. change (Z.of_nat 0) with 0. rewrite Z.pow_1_r, Z.pow_0_r. ring.
Qed.

Lemma be_val_bound l : bytes_ok l -> 0 <= be_val l < 256 ^ Z.of_nat (length l).
Proof.
  intros H. induction H as [|b l Hb Hl IH].
  - rewrite be_val_nil. cbn [length]. rewrite Z.pow_0_r. lia.
  - rewrite be_val_cons. cbn [length]. rewrite pow256_S.
    pose proof (pow256_pos (length l)) as Hp. nia.
Qed.

Lemma be_val_repeat0 n : be_val (repeat 0 n) = 0.
Proof.
  induction n as [|n IH]; [reflexivity|]. cbn [repeat]. rewrite be_val_cons, IH. lia.
Qed.

Lemma be_val_repeat0_app n l : be_val (repeat 0 n ++ l) = be_val l.
Proof. rewrite be_val_app, be_val_repeat0. lia. Qed.

Lemma be_val_app_repeat0 l n : be_val (l ++ repeat 0 n) = be_val l * 256 ^ Z.of_nat n.
Proof. rewrite be_val_app, be_val_repeat0, repeat_length. lia. Qed.

Lemma be_bytes_length n v : length (be_bytes n v) = n.
Proof. induction n as [|n IH]; [reflexivity|]. cbn [be_bytes length]. rewrite IH. reflexivity. Qed.

Lemma be_bytes_ok n v : bytes_ok (be_bytes n v).
Proof.
  induction n as [|n IH]; [constructor|]. cbn [be_bytes]. constructor; [|exact IH].
  apply Z.mod_pos_bound. lia.
Qed.

(* the digits below position m do not see multiples of 256^m *)
Lemma be_bytes_drop_gen j m c x : (j <= m)%nat ->
  be_bytes j (c * 256 ^ Z.of_nat m + x) = be_bytes j x.
Proof.
  induction j as [|j IH]; intros Hj; [reflexivity|].
  cbn [be_bytes]. rewrite IH by lia. f_equal.
  replace m with ((m - S j) + 1 + j)%nat at 1 by lia.
  rewrite !pow256_add. change (256 ^ Z.of_nat 1) with 256.
  pose proof (pow256_pos j) as Hp.
  replace (c * (256 ^ Z.of_nat (m - S j) * 256 * 256 ^ Z.of_nat j) + x)
    with (c * 256 ^ Z.of_nat (m - S j) * 256 * 256 ^ Z.of_nat j + x) by ring.
  rewrite Z.div_add_l by lia.
  rewrite Z.add_comm, Z_mod_plus_full. reflexivity.
Qed.

Lemma be_bytes_drop m c x : be_bytes m (c * 256 ^ Z.of_nat m + x) = be_bytes m x.
Proof. apply be_bytes_drop_gen. lia. Qed.

Lemma be_bytes_mod n v : be_bytes n v = be_bytes n (v mod 256 ^ Z.of_nat n).
Proof.
  pose proof (pow256_pos n) as Hp.
  rewrite (Z.div_mod v (256 ^ Z.of_nat n)) at 1 by lia.
  rewrite (Z.mul_comm (256 ^ Z.of_nat n)). apply be_bytes_drop.
Qed.

Lemma be_bytes_0 n : be_bytes n 0 = repeat 0 n.
Proof.
  induction n as [|n IH]; [reflexivity|]. cbn [be_bytes repeat]. rewrite IH, Z.div_0_l.
  - reflexivity.
  - pose proof (pow256_pos n). lia.
Qed.

Lemma be_bytes_be_val l : bytes_ok l -> be_bytes (length l) (be_val l) = l.
Proof.
  intros H. induction H as [|b l Hb Hl IH]; [reflexivity|].
  cbn [length be_bytes]. rewrite be_val_cons.
  pose proof (be_val_bound l Hl) as Hv. pose proof (pow256_pos (length l)) as Hp.
  rewrite be_bytes_drop, IH. f_equal.
  rewrite Z.div_add_l by lia. rewrite (Z.div_small (be_val l)) by lia.
  rewrite Z.add_0_r. apply Z.mod_small. lia.
Qed.

(* the characterisation used for all four loops *)
Lemma be_bytes_unique n v res :
  length res = n -> bytes_ok res -> be_val res = v -> res = be_bytes n v.
Proof. intros <- Hok <-. symmetry. apply be_bytes_be_val. exact Hok. Qed.

Lemma be_val_firstn_skipn k l :
  be_val l = be_val (firstn k l) * 256 ^ Z.of_nat (length l - k) + be_val (skipn k l).
Proof.
  rewrite <- (firstn_skipn k l) at 1. rewrite be_val_app, skipn_length. reflexivity.
Qed.

(* ================================================================== C. byte-level facts (finite sweep) *)

Definition bit_shifts : list Z := [1; 2; 3; 4; 5; 6; 7].

Lemma bit_shifts_In rr : 1 <= rr <= 7 -> In rr bit_shifts.
Proof. intros H. unfold bit_shifts. cbn [In]. lia. Qed.

Lemma sweep3 (P : Z -> Z -> Z -> bool) :
  forallb (fun rr => forallb (fun s => forallb (fun c => P rr s c) (zrange 128)) (zrange 256))
          bit_shifts = true ->
  forall rr s c, 1 <= rr <= 7 -> 0 <= s < 256 -> 0 <= c < 128 -> P rr s c = true.
Proof.
  intros H rr s c Hrr Hs Hc.
  rewrite forallb_forall in H. specialize (H rr (bit_shifts_In rr Hrr)).
  rewrite forallb_forall in H. specialize (H s (proj2 (zrange_In 256 s) Hs)).
  rewrite forallb_forall in H. exact (H c (proj2 (zrange_In 128 c) Hc)).
Qed.

Lemma sweep2 (P : Z -> Z -> bool) :
  forallb (fun rr => forallb (fun s => P rr s) (zrange 256)) bit_shifts = true ->
  forall rr s, 1 <= rr <= 7 -> 0 <= s < 256 -> P rr s = true.
Proof.
  intros H rr s Hrr Hs.
  rewrite forallb_forall in H. specialize (H rr (bit_shifts_In rr Hrr)).
  rewrite forallb_forall in H. exact (H s (proj2 (zrange_In 256 s) Hs)).
Qed.

Lemma pow2_rr_le rr : 1 <= rr <= 7 -> 2 <= 2 ^ rr <= 128.
Proof.
  intros H. split.
  - change 2 with (2 ^ 1) at 1. apply Z.pow_le_mono_r; lia.
  - change 128 with (2 ^ 7). apply Z.pow_le_mono_r; lia.
Qed.

Definition shl_byte_test (rr s c : Z) : bool :=
  implb (c <? 2 ^ rr)
        ((Z.lor (wrap_u8 (Z.shiftl s rr)) c =? (s * 2 ^ rr) mod 256 + c)
         && ((s * 2 ^ rr) mod 256 + c <? 256)).

Lemma shl_byte_sweep :
  forallb (fun rr => forallb (fun s => forallb (fun c => shl_byte_test rr s c) (zrange 128)) (zrange 256))
          bit_shifts = true.
Proof. vm_compute. reflexivity. Qed.

Lemma shl_byte rr s c : 1 <= rr <= 7 -> 0 <= s < 256 -> 0 <= c < 2 ^ rr ->
  Z.lor (wrap_u8 (Z.shiftl s rr)) c = (s * 2 ^ rr) mod 256 + c /\ (s * 2 ^ rr) mod 256 + c < 256.
Proof.
  intros Hrr Hs Hc. pose proof (pow2_rr_le rr Hrr) as Hp.
  pose proof (sweep3 shl_byte_test shl_byte_sweep rr s c Hrr Hs ltac:(lia)) as H.
  unfold shl_byte_test in H.
  destruct (Z.ltb_spec c (2 ^ rr)) as [_|Hge]; [|lia]. cbn [implb] in H.
  apply andb_prop in H. destruct H as [H1 H2].
  apply Z.eqb_eq in H1. apply Z.ltb_lt in H2. split; assumption.
Qed.

Definition shl_carry_test (rr s : Z) : bool :=
  (Z.shiftr s (8 - rr) =? (s * 2 ^ rr) / 256) && ((s * 2 ^ rr) / 256 <? 2 ^ rr)
  && (0 <=? (s * 2 ^ rr) / 256).

Lemma shl_carry_sweep :
  forallb (fun rr => forallb (fun s => shl_carry_test rr s) (zrange 256)) bit_shifts = true.
Proof. vm_compute. reflexivity. Qed.

Lemma shl_carry_byte rr s : 1 <= rr <= 7 -> 0 <= s < 256 ->
  Z.shiftr s (8 - rr) = (s * 2 ^ rr) / 256 /\ 0 <= (s * 2 ^ rr) / 256 < 2 ^ rr.
Proof.
  intros Hrr Hs. pose proof (sweep2 shl_carry_test shl_carry_sweep rr s Hrr Hs) as H.
  unfold shl_carry_test in H.
  apply andb_prop in H. destruct H as [H H3]. apply andb_prop in H. destruct H as [H1 H2].
  apply Z.eqb_eq in H1. apply Z.ltb_lt in H2. apply Z.leb_le in H3. repeat split; assumption.
Qed.

Definition shr_byte_test (rr s t : Z) : bool :=
  implb (t <? 2 ^ rr)
        ((Z.lor (Z.shiftr s rr) (t * 2 ^ (8 - rr)) =? s / 2 ^ rr + t * 2 ^ (8 - rr))
         && (s / 2 ^ rr + t * 2 ^ (8 - rr) <? 256) && (0 <=? s / 2 ^ rr + t * 2 ^ (8 - rr))).

Lemma shr_byte_sweep :
  forallb (fun rr => forallb (fun s => forallb (fun c => shr_byte_test rr s c) (zrange 128)) (zrange 256))
          bit_shifts = true.
Proof. vm_compute. reflexivity. Qed.

Lemma shr_byte rr s t : 1 <= rr <= 7 -> 0 <= s < 256 -> 0 <= t < 2 ^ rr ->
  Z.lor (Z.shiftr s rr) (t * 2 ^ (8 - rr)) = s / 2 ^ rr + t * 2 ^ (8 - rr)
  /\ 0 <= s / 2 ^ rr + t * 2 ^ (8 - rr) < 256.
Proof.
  intros Hrr Hs Ht. pose proof (pow2_rr_le rr Hrr) as Hp.
  pose proof (sweep3 shr_byte_test shr_byte_sweep rr s t Hrr Hs ltac:(lia)) as H.
  unfold shr_byte_test in H.
  destruct (Z.ltb_spec t (2 ^ rr)) as [_|Hge]; [|lia]. cbn [implb] in H.
  apply andb_prop in H. destruct H as [H H3]. apply andb_prop in H. destruct H as [H1 H2].
  apply Z.eqb_eq in H1. apply Z.ltb_lt in H2. apply Z.leb_le in H3. repeat split; assumption.
Qed.

Definition shr_carry_test (rr s : Z) : bool :=
  wrap_u8 (Z.shiftl s (8 - rr)) =? (s mod 2 ^ rr) * 2 ^ (8 - rr).

Lemma shr_carry_sweep :
  forallb (fun rr => forallb (fun s => shr_carry_test rr s) (zrange 256)) bit_shifts = true.
Proof. vm_compute. reflexivity. Qed.

Lemma shr_carry_byte rr s : 1 <= rr <= 7 -> 0 <= s < 256 ->
  wrap_u8 (Z.shiftl s (8 - rr)) = (s mod 2 ^ rr) * 2 ^ (8 - rr).
Proof.
  intros Hrr Hs. pose proof (sweep2 shr_carry_test shr_carry_sweep rr s Hrr Hs) as H.
  unfold shr_carry_test in H. apply Z.eqb_eq in H. exact H.
Qed.

Lemma pow2_split rr : 1 <= rr <= 7 -> 2 ^ rr * 2 ^ (8 - rr) = 256.
Proof. intros H. rewrite <- Z.pow_add_r by lia. replace (rr + (8 - rr)) with 8 by lia. reflexivity. Qed.

(* D. no index panics *)
Lemma nth_byte bytes j : bytes_ok bytes -> 0 <= j < Z.of_nat (length bytes) ->
  exists b, nth_error bytes (Z.to_nat j) = Some b /\ 0 <= b < 256.
Proof.
  intros Hok Hj. destruct (nth_error bytes (Z.to_nat j)) as [b|] eqn:E.
  - exists b. split; [reflexivity|]. apply nth_error_In in E.
    unfold bytes_ok in Hok. rewrite Forall_forall in Hok. apply Hok. exact E.
  - apply nth_error_None in E. lia.
Qed.

(* ================================================================== B1. aligned shifts *)

Lemma shl_aligned_list bytes q : bytes_ok bytes -> (q <= length bytes)%nat ->
  shl_aligned bytes (Z.of_nat (length bytes)) (Z.of_nat q) = Val (skipn q bytes ++ repeat 0 q).
Proof.
  intros Hok Hq. unfold shl_aligned.
  set (L := skipn q bytes ++ repeat 0 q).
  assert (HL : length L = length bytes).
  { unfold L. rewrite app_length, skipn_length, repeat_length. lia. }
  rewrite <- (map_id L). rewrite <- (map_zrange_nth L (fun b => b)). rewrite HL.
  apply omap_val. intros x Hx. apply zrange_In in Hx.
  destruct (Z.ltb_spec (x + Z.of_nat q) (Z.of_nat (length bytes))) as [Hlt|Hge].
  - destruct (nth_byte bytes (x + Z.of_nat q) Hok ltac:(lia)) as [b [Eb _]]. rewrite Eb.
    unfold L. rewrite nth_error_app1 by (rewrite skipn_length; lia).
    rewrite nth_error_skipn_add.
    replace (q + Z.to_nat x)%nat with (Z.to_nat (x + Z.of_nat q)) by lia. rewrite Eb. reflexivity.
  - unfold L. rewrite nth_error_app2 by (rewrite skipn_length; lia).
    rewrite nth_error_repeat_lt by (rewrite skipn_length; lia). reflexivity.
Qed.

Lemma shl_aligned_ok bytes q : bytes_ok bytes -> (q <= length bytes)%nat ->
  exists res, shl_aligned bytes (Z.of_nat (length bytes)) (Z.of_nat q) = Val res
    /\ length res = length bytes /\ bytes_ok res
    /\ be_val res = (be_val bytes * 256 ^ Z.of_nat q) mod 256 ^ Z.of_nat (length bytes).
Proof.
  intros Hok Hq. exists (skipn q bytes ++ repeat 0 q).
  assert (Hlen : length (skipn q bytes ++ repeat 0 q) = length bytes).
  { rewrite app_length, skipn_length, repeat_length. lia. }
  assert (Hres : bytes_ok (skipn q bytes ++ repeat 0 q)).
  { apply Forall_app. split; [apply Forall_skipn_keep; exact Hok | apply Forall_repeat_intro; lia]. }
  split; [apply shl_aligned_list; assumption|]. split; [exact Hlen|]. split; [exact Hres|].
  pose proof (be_val_bound _ Hres) as Hb. rewrite Hlen in Hb.
  rewrite be_val_app_repeat0 in Hb |- *.
  rewrite (be_val_firstn_skipn q bytes).
  apply Z.mod_unique with (q := be_val (firstn q bytes)); [left; exact Hb|].
  replace (length bytes) with ((length bytes - q) + q)%nat at 2 by lia.
  rewrite pow256_add. ring.
Qed.

Lemma shr_aligned_ok bytes q : bytes_ok bytes -> (q <= length bytes)%nat ->
  exists res, shr_aligned bytes (Z.of_nat (length bytes)) (Z.of_nat q) = Val res
    /\ length res = length bytes /\ bytes_ok res
    /\ be_val res = be_val bytes / 256 ^ Z.of_nat q.
Proof.
  intros Hok Hq. unfold shr_aligned.
  destruct (Z.ltb_spec (Z.of_nat (length bytes)) (Z.of_nat q)) as [Hlt|_]; [lia|].
  rewrite Nat2Z.id. replace (Z.to_nat (Z.of_nat (length bytes) - Z.of_nat q)) with (length bytes - q)%nat by lia.
  eexists. split; [reflexivity|].
  split; [rewrite app_length, repeat_length, firstn_length; lia|].
  split.
  { apply Forall_app. split; [apply Forall_repeat_intro; lia | apply Forall_firstn_keep; exact Hok]. }
  rewrite be_val_repeat0_app.
  rewrite (be_val_firstn_skipn (length bytes - q) bytes).
  replace (length bytes - (length bytes - q))%nat with q by lia.
  pose proof (be_val_bound _ (Forall_skipn_keep _ (length bytes - q)%nat _ Hok)) as Hb.
  rewrite skipn_length in Hb. replace (length bytes - (length bytes - q))%nat with q in Hb by lia.
  pose proof (pow256_pos q) as Hp.
  rewrite Z.div_add_l by lia. rewrite (Z.div_small _ _ Hb). lia.
Qed.

(* ================================================================== B2. shl_carry *)

Definition shl_f (bytes : list Z) (len byte_shift bit_shift : Z) (st : Z * list Z) (i : Z)
  : outcome (Z * list Z) :=
  let (carry, acc) := st in
  if i + byte_shift <? len
  then match nth_error bytes (Z.to_nat (i + byte_shift)) with
       | Some src => Val (Z.shiftr src (8 - bit_shift),
                          Z.lor (wrap_u8 (Z.shiftl src bit_shift)) carry :: acc)
       | None => Panic 5 end
  else Val (carry, 0 :: acc).

Lemma shl_carry_unfold bytes len q rr :
  shl_carry bytes len q rr =
  (st <- ofold (shl_f bytes len q rr) (rev (zrange len)) (0, []) ;; Val (snd st)).
Proof. reflexivity. Qed.

(* state after the indices n-1, ..., i have been processed *)
Definition shl_inv (bytes : list Z) (q : nat) (rr : Z) (i : nat) (carry : Z) (acc : list Z) : Prop :=
  length acc = (length bytes - i)%nat /\ bytes_ok acc /\ 0 <= carry < 2 ^ rr
  /\ ((length bytes <= i + q)%nat -> carry = 0)
  /\ carry * 256 ^ Z.of_nat (length bytes - i) + be_val acc
     = be_val (skipn (i + q) bytes) * 2 ^ rr * 256 ^ Z.of_nat q.

Lemma shl_step_arith s p h m carry A B X Y :
  s * p = 256 * h + m -> carry * (A * B) + X = Y * p * B ->
  h * (256 * (A * B)) + ((m + carry) * (A * B) + X) = (s * A + Y) * p * B.
Proof.
  intros H1 H2.
  replace (h * (256 * (A * B)) + ((m + carry) * (A * B) + X))
    with ((256 * h + m) * (A * B) + (carry * (A * B) + X)) by ring.
  rewrite <- H1, H2. ring.
Qed.

Lemma shl_step bytes q rr i carry acc :
  bytes_ok bytes -> 1 <= rr <= 7 -> (S i <= length bytes)%nat ->
  shl_inv bytes q rr (S i) carry acc ->
  exists carry' acc',
    shl_f bytes (Z.of_nat (length bytes)) (Z.of_nat q) rr (carry, acc) (Z.of_nat i) = Val (carry', acc')
    /\ shl_inv bytes q rr i carry' acc'.
Proof.
  intros Hok Hrr Hi (Hlen & Hacc & Hc & Hc0 & Heq).
  unfold shl_f.
  destruct (Z.ltb_spec (Z.of_nat i + Z.of_nat q) (Z.of_nat (length bytes))) as [Hlt|Hge].
  - destruct (nth_byte bytes (Z.of_nat i + Z.of_nat q) Hok ltac:(lia)) as [s [Es Hs]].
    rewrite Es. do 2 eexists. split; [reflexivity|].
    destruct (shl_byte rr s carry Hrr Hs Hc) as [Eb Hb].
    destruct (shl_carry_byte rr s Hrr Hs) as [Ec Hcb].
    pose proof (Z.mod_pos_bound (s * 2 ^ rr) 256 ltac:(lia)) as Hm.
    rewrite Eb, Ec.
    unfold shl_inv. split; [cbn [length]; lia|].
    split; [constructor; [lia|exact Hacc]|].
    split; [exact Hcb|]. split; [lia|].
    replace (Z.to_nat (Z.of_nat i + Z.of_nat q)) with (i + q)%nat in Es by lia.
    rewrite (skipn_nth_cons bytes (i + q) s Es).
    rewrite !be_val_cons, Hlen, skipn_length.
    change (S i + q)%nat with (S (i + q)) in Heq.
    replace (length bytes - i)%nat with (S (length bytes - S i)) by lia.
    rewrite pow256_S.
    replace (length bytes - S i)%nat with ((length bytes - S (i + q)) + q)%nat in Heq |- * by lia.
    rewrite pow256_add in Heq |- *.
    apply shl_step_arith; [|exact Heq].
    rewrite (Z.div_mod (s * 2 ^ rr) 256) at 1 by lia. reflexivity.
  - do 2 eexists. split; [reflexivity|].
    assert (E0 : carry = 0) by (apply Hc0; lia). subst carry.
    unfold shl_inv. split; [cbn [length]; lia|].
    split; [constructor; [lia|exact Hacc]|].
    split; [exact Hc|]. split; [reflexivity|].
    rewrite skipn_all2 in Heq |- * by lia.
    rewrite be_val_cons, be_val_nil in *. lia.
Qed.

Lemma shl_loop bytes q rr : bytes_ok bytes -> 1 <= rr <= 7 ->
  forall i carry acc, (i <= length bytes)%nat -> shl_inv bytes q rr i carry acc ->
  exists carry' acc',
    ofold (shl_f bytes (Z.of_nat (length bytes)) (Z.of_nat q) rr) (rev (zrange (Z.of_nat i))) (carry, acc)
      = Val (carry', acc')
    /\ shl_inv bytes q rr 0 carry' acc'.
Proof.
  intros Hok Hrr. induction i as [|i IH]; intros carry acc Hi Hinv.
  - exists carry, acc. split; [reflexivity | exact Hinv].
  - rewrite Nat2Z.inj_succ, <- Z.add_1_r, zrange_succ by lia.
    rewrite rev_app_distr. cbn [rev app ofold].
    destruct (shl_step bytes q rr i carry acc Hok Hrr Hi Hinv) as (c1 & a1 & E1 & Hinv1).
    rewrite E1. cbn [obind]. apply IH; [lia | exact Hinv1].
Qed.

Lemma shl_carry_ok bytes q rr : bytes_ok bytes -> (q <= length bytes)%nat -> 1 <= rr <= 7 ->
  exists res, shl_carry bytes (Z.of_nat (length bytes)) (Z.of_nat q) rr = Val res
    /\ length res = length bytes /\ bytes_ok res
    /\ be_val res = (be_val bytes * (256 ^ Z.of_nat q * 2 ^ rr)) mod 256 ^ Z.of_nat (length bytes).
Proof.
  intros Hok Hq Hrr.
  assert (Hinit : shl_inv bytes q rr (length bytes) 0 []).
  { unfold shl_inv. split; [cbn [length]; lia|]. split; [constructor|].
    pose proof (pow2_rr_le rr Hrr). split; [lia|]. split; [reflexivity|].
    rewrite skipn_all2 by lia. rewrite be_val_nil. lia. }
  destruct (shl_loop bytes q rr Hok Hrr (length bytes) 0 [] (le_n _) Hinit)
    as (c & res & E & (Hlen & Hres & Hc & _ & Heq)).
  exists res. rewrite shl_carry_unfold, E. cbn [obind snd].
  split; [reflexivity|]. rewrite Nat.sub_0_r in Hlen, Heq. cbn [Nat.add] in Heq.
  split; [exact Hlen|]. split; [exact Hres|].
  pose proof (be_val_bound res Hres) as Hb. rewrite Hlen in Hb.
  apply Z.mod_unique with (q := be_val (firstn q bytes) * 2 ^ rr + c); [left; exact Hb|].
  rewrite (be_val_firstn_skipn q bytes) at 1.
  replace (256 ^ Z.of_nat (length bytes)) with (256 ^ Z.of_nat (length bytes - q) * 256 ^ Z.of_nat q) in Heq |- *
    by (rewrite <- pow256_add; f_equal; lia).
  transitivity (be_val (firstn q bytes) * 2 ^ rr * (256 ^ Z.of_nat (length bytes - q) * 256 ^ Z.of_nat q)
                + be_val (skipn q bytes) * 2 ^ rr * 256 ^ Z.of_nat q); [ring|].
  rewrite <- Heq. ring.
Qed.

(* ================================================================== B3. shr_carry *)

Definition shr_f (bytes : list Z) (byte_shift bit_shift : Z) (st : Z * list Z) (i : Z)
  : outcome (Z * list Z) :=
  let (carry, acc) := st in
  if byte_shift <=? i
  then match nth_error bytes (Z.to_nat (i - byte_shift)) with
       | Some src => Val (wrap_u8 (Z.shiftl src (8 - bit_shift)),
                          Z.lor (Z.shiftr src bit_shift) carry :: acc)
       | None => Panic 7 end
  else Val (carry, 0 :: acc).

Lemma shr_carry_unfold bytes len q rr :
  shr_carry bytes len q rr =
  (st <- ofold (shr_f bytes q rr) (zrange len) (0, []) ;; Val (rev (snd st))).
Proof. reflexivity. Qed.

Lemma ofold_app {A S} (f : S -> A -> outcome S) l1 l2 s :
  ofold f (l1 ++ l2) s = (s' <- ofold f l1 s ;; ofold f l2 s').
Proof.
  revert s. induction l1 as [|x t IH]; intros s; [reflexivity|].
  cbn [app ofold]. destruct (f s x) as [s1|e|p]; cbn [obind]; [apply IH | reflexivity | reflexivity].
Qed.

Lemma firstn_S_nth {A} (l : list A) k x : nth_error l k = Some x -> firstn (S k) l = firstn k l ++ [x].
Proof.
  revert l. induction k as [|k IH]; intros [|y l] H; try discriminate.
  - cbn in H. injection H as ->. reflexivity.
  - cbn [nth_error] in H. cbn [firstn app]. f_equal. exact (IH l H).
Qed.

Lemma be_val_firstn_div bytes q : bytes_ok bytes -> (q <= length bytes)%nat ->
  be_val (firstn (length bytes - q) bytes) = be_val bytes / 256 ^ Z.of_nat q.
Proof.
  intros Hok Hq.
  rewrite (be_val_firstn_skipn (length bytes - q) bytes).
  replace (length bytes - (length bytes - q))%nat with q by lia.
  pose proof (be_val_bound _ (Forall_skipn_keep _ (length bytes - q)%nat _ Hok)) as Hb.
  rewrite skipn_length in Hb. replace (length bytes - (length bytes - q))%nat with q in Hb by lia.
  pose proof (pow256_pos q) as Hp.
  rewrite Z.div_add_l by lia. rewrite (Z.div_small _ _ Hb). lia.
Qed.

(* state after the indices 0, ..., i-1 have been processed; acc is the reversed prefix *)
Definition shr_inv (bytes : list Z) (q : nat) (rr : Z) (i : nat) (carry : Z) (acc : list Z) : Prop :=
  length acc = i /\ bytes_ok acc
  /\ be_val (rev acc) = be_val (firstn (i - q) bytes) / 2 ^ rr
  /\ carry = (be_val (firstn (i - q) bytes) mod 2 ^ rr) * 2 ^ (8 - rr).

Lemma shr_step_arith P s a b : 0 < a -> a * b = 256 ->
  (P * 256 + s) / a = (P / a) * 256 + (P mod a) * b + s / a /\ (P * 256 + s) mod a = s mod a.
Proof.
  intros Ha Hab.
  replace (P * 256 + s) with (P * b * a + s) by (rewrite <- Hab; ring).
  split.
  - rewrite Z.div_add_l by lia. rewrite <- Hab.
    rewrite (Z.div_mod P a) at 1 by lia. ring.
  - rewrite Z.add_comm. apply Z_mod_plus_full.
Qed.

Lemma shr_step bytes q rr i carry acc :
  bytes_ok bytes -> 1 <= rr <= 7 -> (S i <= length bytes)%nat ->
  shr_inv bytes q rr i carry acc ->
  exists carry' acc',
    shr_f bytes (Z.of_nat q) rr (carry, acc) (Z.of_nat i) = Val (carry', acc')
    /\ shr_inv bytes q rr (S i) carry' acc'.
Proof.
  intros Hok Hrr Hi (Hlen & Hacc & Hv & Hc).
  pose proof (pow2_rr_le rr Hrr) as Hp. pose proof (pow2_split rr Hrr) as Hsplit.
  unfold shr_f.
  destruct (Z.leb_spec (Z.of_nat q) (Z.of_nat i)) as [Hle|Hgt].
  - destruct (nth_byte bytes (Z.of_nat i - Z.of_nat q) Hok ltac:(lia)) as [s [Es Hs]].
    rewrite Es. do 2 eexists. split; [reflexivity|].
    replace (Z.to_nat (Z.of_nat i - Z.of_nat q)) with (i - q)%nat in Es by lia.
    set (P := be_val (firstn (i - q) bytes)) in *.
    pose proof (Z.mod_pos_bound P (2 ^ rr) ltac:(lia)) as Ht.
    destruct (shr_byte rr s (P mod 2 ^ rr) Hrr Hs Ht) as [Eb Hb].
    rewrite <- Hc in Eb, Hb.
    rewrite Eb, (shr_carry_byte rr s Hrr Hs).
    destruct (shr_step_arith P s (2 ^ rr) (2 ^ (8 - rr)) ltac:(lia) Hsplit) as [Hdiv Hmod].
    unfold shr_inv. split; [cbn [length]; lia|].
    split; [constructor; [exact Hb | exact Hacc]|].
    replace (S i - q)%nat with (S (i - q)) by lia.
    rewrite (firstn_S_nth bytes (i - q) s Es), be_val_snoc. fold P.
    cbn [rev]. rewrite be_val_snoc, Hv, Hdiv, Hmod, Hc. split; [ring | reflexivity].
  - do 2 eexists. split; [reflexivity|].
    replace (i - q)%nat with 0%nat in Hv, Hc by lia. cbn [firstn] in Hv, Hc.
    rewrite be_val_nil in Hv, Hc.
    rewrite Z.div_0_l in Hv by lia. rewrite Z.mod_0_l in Hc by lia.
    unfold shr_inv. split; [cbn [length]; lia|].
    split; [constructor; [lia | exact Hacc]|].
    replace (S i - q)%nat with 0%nat by lia. cbn [firstn rev].
    rewrite be_val_snoc, be_val_nil, Hv.
    rewrite Z.div_0_l by lia. rewrite Z.mod_0_l by lia. split; [reflexivity | exact Hc].
Qed.

Lemma shr_loop bytes q rr : bytes_ok bytes -> 1 <= rr <= 7 ->
  forall i, (i <= length bytes)%nat ->
  exists carry acc,
    ofold (shr_f bytes (Z.of_nat q) rr) (zrange (Z.of_nat i)) (0, []) = Val (carry, acc)
    /\ shr_inv bytes q rr i carry acc.
Proof.
  intros Hok Hrr. pose proof (pow2_rr_le rr Hrr) as Hp.
  induction i as [|i IH]; intros Hi.
  - exists 0, []. split; [reflexivity|].
    unfold shr_inv. cbn [Nat.sub firstn rev length]. rewrite be_val_nil.
    rewrite Z.div_0_l by lia. rewrite Z.mod_0_l by lia.
    split; [reflexivity|]. split; [constructor|]. split; reflexivity.
  - destruct (IH ltac:(lia)) as (c & acc & E & Hinv).
    rewrite Nat2Z.inj_succ, <- Z.add_1_r, zrange_succ by lia.
    rewrite ofold_app, E. cbn [obind ofold].
    destruct (shr_step bytes q rr i c acc Hok Hrr Hi Hinv) as (c1 & a1 & E1 & Hinv1).
    rewrite E1. cbn [obind]. exists c1, a1. split; [reflexivity | exact Hinv1].
Qed.

Lemma shr_carry_ok bytes q rr : bytes_ok bytes -> (q <= length bytes)%nat -> 1 <= rr <= 7 ->
  exists res, shr_carry bytes (Z.of_nat (length bytes)) (Z.of_nat q) rr = Val res
    /\ length res = length bytes /\ bytes_ok res
    /\ be_val res = be_val bytes / (256 ^ Z.of_nat q * 2 ^ rr).
Proof.
  intros Hok Hq Hrr. pose proof (pow2_rr_le rr Hrr) as Hp.
  destruct (shr_loop bytes q rr Hok Hrr (length bytes) (le_n _)) as (c & acc & E & (Hlen & Hacc & Hv & _)).
  exists (rev acc). rewrite shr_carry_unfold, E. cbn [obind snd].
  split; [reflexivity|]. split; [rewrite rev_length; exact Hlen|].
  split; [apply Forall_rev; exact Hacc|].
  rewrite Hv, be_val_firstn_div by assumption.
  pose proof (pow256_pos q) as Hq256.
  apply Z.div_div; lia.
Qed.

(* ================================================================== E. the builtin *)

Definition shift_num (bytes : list Z) (k : Z) : Z :=
  if 0 <=? k then (be_val bytes * 2 ^ k) mod 256 ^ Z.of_nat (length bytes)
  else be_val bytes / 2 ^ (- k).

Lemma shift_finish (loop : outcome (list Z)) res n v :
  loop = Val res -> length res = n -> Z.of_nat n <= MAX_BINARY_SIZE -> bytes_ok res -> be_val res = v ->
  (r <- loop ;; alloc_bytes r) = Val (BBin (Owned (be_bytes n v))).
Proof.
  intros -> Hlen Hn Hok Hv. cbn [obind].
  rewrite (be_bytes_unique n v res Hlen Hok Hv) at 1.
  apply alloc_bytes_ok. rewrite be_bytes_length. exact Hn.
Qed.

Lemma shift_body bytes k :
  bytes_ok bytes -> Z.of_nat (length bytes) <= MAX_BINARY_SIZE -> k <> 0 -> - two63 <= k < two63 ->
  (let len := Z.of_nat (length bytes) in
   let shift_bits := Z.abs k in
   if negb (in_u64 (len * 8)) then Panic 3 else
   if len * 8 <=? shift_bits then alloc_bytes (repeat 0 (length bytes))
   else
     let sb := wrap_u32 shift_bits in
     let byte_shift := sb / 8 in
     let bit_shift := sb mod 8 in
     res <- (if 0 <? k
             then if bit_shift =? 0 then shl_aligned bytes len byte_shift
                  else shl_carry bytes len byte_shift bit_shift
             else if bit_shift =? 0 then shr_aligned bytes len byte_shift
                  else shr_carry bytes len byte_shift bit_shift) ;;
     alloc_bytes res)
  = Val (BBin (Owned (be_bytes (length bytes) (shift_num bytes k)))).
Proof.
  intros Hok Hn Hk0 Hk. cbv zeta.
  set (n := length bytes) in *.
  assert (Hmax : MAX_BINARY_SIZE = 16777216) by reflexivity.
  assert (Hu : in_u64 (Z.of_nat n * 8) = true).
  { unfold in_u64, two64. apply andb_true_intro. split; [apply Z.leb_le | apply Z.ltb_lt]; lia. }
  rewrite Hu. cbn [negb].
  pose proof (be_val_bound bytes Hok) as HV. fold n in HV.
  pose proof (pow256_pos n) as Hpn.
  destruct (Z.leb_spec (Z.of_nat n * 8) (Z.abs k)) as [Hbig|Hsmall].
  - (* everything shifted out *)
    rewrite alloc_bytes_ok by (rewrite repeat_length; exact Hn).
    do 3 f_equal. rewrite <- be_bytes_0. unfold shift_num. fold n.
    destruct (Z.leb_spec 0 k) as [Hpos|Hneg].
    + f_equal. symmetry.
      replace k with (8 * Z.of_nat n + (k - 8 * Z.of_nat n)) by lia.
      rewrite Z.pow_add_r by lia. rewrite <- pow256_pow2.
      replace (be_val bytes * (256 ^ Z.of_nat n * 2 ^ (k - 8 * Z.of_nat n)))
        with (be_val bytes * 2 ^ (k - 8 * Z.of_nat n) * 256 ^ Z.of_nat n) by ring.
      apply Z_mod_mult.
    + f_equal. symmetry. apply Z.div_small. split; [lia|].
      apply Z.lt_le_trans with (256 ^ Z.of_nat n); [lia|].
      rewrite pow256_pow2. apply Z.pow_le_mono_r; lia.
  - (* the loops *)
    assert (Hw : wrap_u32 (Z.abs k) = Z.abs k).
    { unfold wrap_u32. apply Z.mod_small. lia. }
    rewrite Hw.
    set (k' := Z.abs k) in *.
    pose proof (Z.div_mod k' 8 ltac:(lia)) as Hdm.
    pose proof (Z.mod_pos_bound k' 8 ltac:(lia)) as Hrr.
    set (rr := k' mod 8) in *.
    assert (Hq : 0 <= k' / 8 < Z.of_nat n) by (split; [apply Z.div_pos; lia | apply Z.div_lt_upper_bound; lia]).
    rewrite <- (Z2Nat.id (k' / 8)) in Hdm |- * by lia.
    set (q := Z.to_nat (k' / 8)) in *.
    assert (Hqn : (q <= n)%nat) by lia.
    assert (Hpow : 2 ^ k' = 256 ^ Z.of_nat q * 2 ^ rr).
    { rewrite Hdm, Z.pow_add_r by lia. rewrite <- pow256_pow2. reflexivity. }
    unfold shift_num. fold n.
    destruct (Z.ltb_spec 0 k) as [Hpos|Hneg].
    + destruct (Z.leb_spec 0 k) as [_|Hbad]; [|lia].
      replace k with k' by lia.
      destruct (Z.eqb_spec rr 0) as [Hr0|Hr0].
      * destruct (shl_aligned_ok bytes q Hok Hqn) as (res & E & Hlen & Hres & Hv).
        apply (shift_finish _ res); try assumption.
        rewrite Hv, Hpow, Hr0, Z.pow_0_r, Z.mul_1_r. reflexivity.
      * destruct (shl_carry_ok bytes q rr Hok Hqn ltac:(lia)) as (res & E & Hlen & Hres & Hv).
        apply (shift_finish _ res); try assumption.
        rewrite Hv, Hpow. reflexivity.
    + destruct (Z.leb_spec 0 k) as [Hbad|_]; [lia|].
      replace (- k) with k' by lia.
      destruct (Z.eqb_spec rr 0) as [Hr0|Hr0].
      * destruct (shr_aligned_ok bytes q Hok Hqn) as (res & E & Hlen & Hres & Hv).
        apply (shift_finish _ res); try assumption.
        rewrite Hv, Hpow, Hr0, Z.pow_0_r, Z.mul_1_r. reflexivity.
      * destruct (shr_carry_ok bytes q rr Hok Hqn ltac:(lia)) as (res & E & Hlen & Hres & Hv).
        apply (shift_finish _ res); try assumption.
        rewrite Hv, Hpow. reflexivity.
Qed.

Lemma binary_shift_shaped r k : wf r ->
  flatten_out (impl_binary_shift (BTup [BBin r; BInt k]))
    = spec_binary_shift (flatten (BTup [BBin r; BInt k]))
  /\ wf_out (impl_binary_shift (BTup [BBin r; BInt k])).
Proof.
  intros Hwf.
  pose proof (bytes_of_ok r Hwf) as Hok.
  assert (Hn : Z.of_nat (length (bytes_of r)) <= MAX_BINARY_SIZE).
  { rewrite <- rlen_bytes_of by exact Hwf. apply wf_rlen_bound. exact Hwf. }
  cbn [flatten map]. unfold impl_binary_shift, spec_binary_shift, to_i64_checked.
  destruct (in_i64 k) eqn:Ei; cbn [obind].
  - unfold in_i64 in Ei. apply andb_prop in Ei. destruct Ei as [Ei1 Ei2].
    apply Z.leb_le in Ei1. apply Z.ltb_lt in Ei2.
    destruct (Z.eqb_spec k 0) as [Hk0|Hk0].
    + subst k. cbn [flatten_out flatten wf_out wf_bval]. split; [|exact Hwf].
      do 2 f_equal. change (0 <=? 0) with true. cbv iota.
      rewrite Z.pow_0_r, Z.mul_1_r, <- be_bytes_mod, be_bytes_be_val by exact Hok. reflexivity.
    + pose proof (shift_body (bytes_of r) k Hok Hn Hk0 (conj Ei1 Ei2)) as Hb.
      cbv zeta in Hb |- *. rewrite Hb.
      cbn [flatten_out flatten bytes_of wf_out wf_bval wf]. split; [reflexivity|].
      split; [apply be_bytes_ok | rewrite be_bytes_length; exact Hn].
  - cbn [flatten_out wf_out]. split; [reflexivity | exact I].
Qed.

Theorem binary_shift_correct : agrees impl_binary_shift spec_binary_shift.
Proof.
  intros a Ha.
  destruct a as [z|r|fs|]; try (split; [reflexivity | exact I]).
  destruct fs as [|x [|y [|w t]]]; try (split; [reflexivity | exact I]).
  - destruct x; split; (reflexivity || exact I).
  - destruct x as [z|r|fs|]; try (split; [reflexivity | exact I]).
    destruct y as [k|r2|fs|]; try (split; [reflexivity | exact I]).
    destruct Ha as [Hwf _]. apply binary_shift_shaped. exact Hwf.
  - destruct x as [z|r|fs|]; try (split; [reflexivity | exact I]).
    destruct y as [k|r2|fs|]; split; (reflexivity || exact I).
Qed.

Example binary_shift_example :
  flatten_out (impl_binary_shift (BTup [BBin (Concat (Owned [1;2]) (Owned [3]) 3); BInt 4])) = Val (FBin [16;32;48]) /\
  flatten_out (impl_binary_shift (BTup [BBin (Owned [1;2;3]); BInt (-12)])) = Val (FBin [0;0;16]).
Proof. split; vm_compute; reflexivity. Qed.
