(* BinaryShiftProofs.v — binary_shift agrees with the reference spec (logical shift of the big-endian bit string). *)
From Quiver Require Import BuiltinWf.
From Coq Require Import Lia.

Local Open Scope Z_scope.

(* ================================================================== A. be_val / be_bytes library *)

Lemma pow256_pos m : 0 < 256 ^ Z.of_nat m.
Proof. apply Z.pow_pos_nonneg; lia. Qed.

Lemma pow256_S m : 256 ^ Z.of_nat (S m) = 256 * 256 ^ Z.of_nat m.
Proof. rewrite Nat2Z.inj_succ, Z.pow_succ_r by lia. reflexivity. Qed.

Lemma pow256_add a b : 256 ^ Z.of_nat (a + b) = 256 ^ Z.of_nat a * 256 ^ Z.of_nat b.
Proof. rewrite Nat2Z.inj_add, Z.pow_add_r by lia. reflexivity. Qed.

Lemma pow256_pow2 m : 256 ^ m = 2 ^ (8 * m).
Proof.
  destruct (Z.le_gt_cases 0 m) as [H|H].
  - rewrite Z.pow_mul_r by lia. reflexivity.
  - rewrite !Z.pow_neg_r by lia. reflexivity.
Qed.

Lemma be_val_fold acc l :
  fold_left (fun a b => a * 256 + b) l acc = acc * 256 ^ Z.of_nat (length l) + be_val l.
Proof.
  revert acc. induction l as [|b l IH]; intros acc.
  - cbn [fold_left length]. unfold be_val. cbn [fold_left]. rewrite Z.pow_0_r. lia.
  - unfold be_val. cbn [fold_left]. rewrite (IH (acc * 256 + b)), (IH (0 * 256 + b)).
    cbn [length]. rewrite pow256_S. ring.
Qed.

Lemma be_val_nil : be_val [] = 0.
Proof. reflexivity. Qed.

Lemma be_val_cons b l : be_val (b :: l) = b * 256 ^ Z.of_nat (length l) + be_val l.
Proof.
  unfold be_val at 1. cbn [fold_left]. rewrite be_val_fold. ring.
Qed.

Lemma be_val_app l1 l2 :
  be_val (l1 ++ l2) = be_val l1 * 256 ^ Z.of_nat (length l2) + be_val l2.
Proof.
  unfold be_val at 1. rewrite fold_left_app. fold (be_val l1). apply be_val_fold.
Qed.

Lemma be_val_snoc l b : be_val (l ++ [b]) = be_val l * 256 + b.
Proof.
  rewrite be_val_app. cbn [length]. rewrite be_val_cons, be_val_nil. cbn [length].
  change (Z.of_nat 1) with 1. change (Z.of_nat 0) with 0. rewrite Z.pow_1_r, Z.pow_0_r. ring.
Qed.

Lemma be_val_bound l : bytes_ok l -> 0 <= be_val l < 256 ^ Z.of_nat (length l).
Proof.
  intros H. induction H as [|b l Hb Hl IH].
  - rewrite be_val_nil. cbn [length]. rewrite Z.pow_0_r. lia.
  - rewrite be_val_cons. cbn [length]. rewrite pow256_S.
    pose proof (pow256_pos (length l)) as Hp. nia.
Qed.

Lemma be_val_repeat0 n : be_val (repeat 0 n) = 0.
Proof.
  induction n as [|n IH]; [reflexivity|]. cbn [repeat]. rewrite be_val_cons, IH. lia.
Qed.

Lemma be_val_repeat0_app n l : be_val (repeat 0 n ++ l) = be_val l.
Proof. rewrite be_val_app, be_val_repeat0. lia. Qed.

Lemma be_val_app_repeat0 l n : be_val (l ++ repeat 0 n) = be_val l * 256 ^ Z.of_nat n.
Proof. rewrite be_val_app, be_val_repeat0, repeat_length. lia. Qed.

Lemma be_bytes_length n v : length (be_bytes n v) = n.
Proof. induction n as [|n IH]; [reflexivity|]. cbn [be_bytes length]. rewrite IH. reflexivity. Qed.

Lemma be_bytes_ok n v : bytes_ok (be_bytes n v).
Proof.
  induction n as [|n IH]; [constructor|]. cbn [be_bytes]. constructor; [|exact IH].
  apply Z.mod_pos_bound. lia.
Qed.

(* the digits below position m do not see multiples of 256^m *)
Lemma be_bytes_drop_gen j m c x : (j <= m)%nat ->
  be_bytes j (c * 256 ^ Z.of_nat m + x) = be_bytes j x.
Proof.
  induction j as [|j IH]; intros Hj; [reflexivity|].
  cbn [be_bytes]. rewrite IH by lia. f_equal.
  replace m with ((m - S j) + 1 + j)%nat at 1 by lia.
  rewrite !pow256_add. change (256 ^ Z.of_nat 1) with 256.
  pose proof (pow256_pos j) as Hp.
  replace (c * (256 ^ Z.of_nat (m - S j) * 256 * 256 ^ Z.of_nat j) + x)
    with (c * 256 ^ Z.of_nat (m - S j) * 256 * 256 ^ Z.of_nat j + x) by ring.
  rewrite Z.div_add_l by lia.
  rewrite Z.add_comm, Z_mod_plus_full. reflexivity.
Qed.

Lemma be_bytes_drop m c x : be_bytes m (c * 256 ^ Z.of_nat m + x) = be_bytes m x.
Proof. apply be_bytes_drop_gen. lia. Qed.

Lemma be_bytes_mod n v : be_bytes n v = be_bytes n (v mod 256 ^ Z.of_nat n).
Proof.
  pose proof (pow256_pos n) as Hp.
  rewrite (Z.div_mod v (256 ^ Z.of_nat n)) at 1 by lia.
  rewrite (Z.mul_comm (256 ^ Z.of_nat n)). apply be_bytes_drop.
Qed.

Lemma be_bytes_0 n : be_bytes n 0 = repeat 0 n.
Proof.
  induction n as [|n IH]; [reflexivity|]. cbn [be_bytes repeat]. rewrite IH, Z.div_0_l.
  - reflexivity.
  - pose proof (pow256_pos n). lia.
Qed.

Lemma be_bytes_be_val l : bytes_ok l -> be_bytes (length l) (be_val l) = l.
Proof.
  intros H. induction H as [|b l Hb Hl IH]; [reflexivity|].
  cbn [length be_bytes]. rewrite be_val_cons.
  pose proof (be_val_bound l Hl) as Hv. pose proof (pow256_pos (length l)) as Hp.
  rewrite be_bytes_drop, IH. f_equal.
  rewrite Z.div_add_l by lia. rewrite (Z.div_small (be_val l)) by lia.
  rewrite Z.add_0_r. apply Z.mod_small. lia.
Qed.

(* the characterisation used for all four loops *)
Lemma be_bytes_unique n v res :
  length res = n -> bytes_ok res -> be_val res = v -> res = be_bytes n v.
Proof. intros <- Hok <-. symmetry. apply be_bytes_be_val. exact Hok. Qed.

Lemma be_val_firstn_skipn k l :
  be_val l = be_val (firstn k l) * 256 ^ Z.of_nat (length l - k) + be_val (skipn k l).
Proof.
  rewrite <- (firstn_skipn k l) at 1. rewrite be_val_app, skipn_length. reflexivity.
Qed.

(* ================================================================== C. byte-level facts (finite sweep) *)

Definition bit_shifts : list Z := [1; 2; 3; 4; 5; 6; 7].

Lemma bit_shifts_In rr : 1 <= rr <= 7 -> In rr bit_shifts.
Proof. intros H. unfold bit_shifts. cbn [In]. lia. Qed.

Lemma sweep3 (P : Z -> Z -> Z -> bool) :
  forallb (fun rr => forallb (fun s => forallb (fun c => P rr s c) (zrange 128)) (zrange 256))
          bit_shifts = true ->
  forall rr s c, 1 <= rr <= 7 -> 0 <= s < 256 -> 0 <= c < 128 -> P rr s c = true.
Proof.
  intros H rr s c Hrr Hs Hc.
  rewrite forallb_forall in H. specialize (H rr (bit_shifts_In rr Hrr)).
  rewrite forallb_forall in H. specialize (H s (proj2 (zrange_In 256 s) Hs)).
  rewrite forallb_forall in H. exact (H c (proj2 (zrange_In 128 c) Hc)).
Qed.

Lemma sweep2 (P : Z -> Z -> bool) :
  forallb (fun rr => forallb (fun s => P rr s) (zrange 256)) bit_shifts = true ->
  forall rr s, 1 <= rr <= 7 -> 0 <= s < 256 -> P rr s = true.
Proof.
  intros H rr s Hrr Hs.
  rewrite forallb_forall in H. specialize (H rr (bit_shifts_In rr Hrr)).
  rewrite forallb_forall in H. exact (H s (proj2 (zrange_In 256 s) Hs)).
Qed.

Lemma pow2_rr_le rr : 1 <= rr <= 7 -> 2 <= 2 ^ rr <= 128.
Proof.
  intros H. split.
  - change 2 with (2 ^ 1) at 1. apply Z.pow_le_mono_r; lia.
  - change 128 with (2 ^ 7). apply Z.pow_le_mono_r; lia.
Qed.

Definition shl_byte_test (rr s c : Z) : bool :=
  implb (c <? 2 ^ rr)
        ((Z.lor (wrap_u8 (Z.shiftl s rr)) c =? (s * 2 ^ rr) mod 256 + c)
         && ((s * 2 ^ rr) mod 256 + c <? 256)).

Lemma shl_byte_sweep :
  forallb (fun rr => forallb (fun s => forallb (fun c => shl_byte_test rr s c) (zrange 128)) (zrange 256))
          bit_shifts = true.
Proof. vm_compute. reflexivity. Qed.

Lemma shl_byte rr s c : 1 <= rr <= 7 -> 0 <= s < 256 -> 0 <= c < 2 ^ rr ->
  Z.lor (wrap_u8 (Z.shiftl s rr)) c = (s * 2 ^ rr) mod 256 + c /\ (s * 2 ^ rr) mod 256 + c < 256.
Proof.
  intros Hrr Hs Hc. pose proof (pow2_rr_le rr Hrr) as Hp.
  pose proof (sweep3 shl_byte_test shl_byte_sweep rr s c Hrr Hs ltac:(lia)) as H.
  unfold shl_byte_test in H.
  destruct (Z.ltb_spec c (2 ^ rr)) as [_|Hge]; [|lia]. cbn [implb] in H.
  apply andb_prop in H. destruct H as [H1 H2].
  apply Z.eqb_eq in H1. apply Z.ltb_lt in H2. split; assumption.
Qed.

Definition shl_carry_test (rr s : Z) : bool :=
  (Z.shiftr s (8 - rr) =? (s * 2 ^ rr) / 256) && ((s * 2 ^ rr) / 256 <? 2 ^ rr)
  && (0 <=? (s * 2 ^ rr) / 256).

Lemma shl_carry_sweep :
  forallb (fun rr => forallb (fun s => shl_carry_test rr s) (zrange 256)) bit_shifts = true.
Proof. vm_compute. reflexivity. Qed.

Lemma shl_carry_byte rr s : 1 <= rr <= 7 -> 0 <= s < 256 ->
  Z.shiftr s (8 - rr) = (s * 2 ^ rr) / 256 /\ 0 <= (s * 2 ^ rr) / 256 < 2 ^ rr.
Proof.
  intros Hrr Hs. pose proof (sweep2 shl_carry_test shl_carry_sweep rr s Hrr Hs) as H.
  unfold shl_carry_test in H.
  apply andb_prop in H. destruct H as [H H3]. apply andb_prop in H. destruct H as [H1 H2].
  apply Z.eqb_eq in H1. apply Z.ltb_lt in H2. apply Z.leb_le in H3. repeat split; assumption.
Qed.

Definition shr_byte_test (rr s t : Z) : bool :=
  implb (t <? 2 ^ rr)
        ((Z.lor (Z.shiftr s rr) (t * 2 ^ (8 - rr)) =? s / 2 ^ rr + t * 2 ^ (8 - rr))
         && (s / 2 ^ rr + t * 2 ^ (8 - rr) <? 256) && (0 <=? s / 2 ^ rr + t * 2 ^ (8 - rr))).

Lemma shr_byte_sweep :
  forallb (fun rr => forallb (fun s => forallb (fun c => shr_byte_test rr s c) (zrange 128)) (zrange 256))
          bit_shifts = true.
Proof. vm_compute. reflexivity. Qed.

Lemma shr_byte rr s t : 1 <= rr <= 7 -> 0 <= s < 256 -> 0 <= t < 2 ^ rr ->
  Z.lor (Z.shiftr s rr) (t * 2 ^ (8 - rr)) = s / 2 ^ rr + t * 2 ^ (8 - rr)
  /\ 0 <= s / 2 ^ rr + t * 2 ^ (8 - rr) < 256.
Proof.
  intros Hrr Hs Ht. pose proof (pow2_rr_le rr Hrr) as Hp.
  pose proof (sweep3 shr_byte_test shr_byte_sweep rr s t Hrr Hs ltac:(lia)) as H.
  unfold shr_byte_test in H.
  destruct (Z.ltb_spec t (2 ^ rr)) as [_|Hge]; [|lia]. cbn [implb] in H.
  apply andb_prop in H. destruct H as [H H3]. apply andb_prop in H. destruct H as [H1 H2].
  apply Z.eqb_eq in H1. apply Z.ltb_lt in H2. apply Z.leb_le in H3. repeat split; assumption.
Qed.

Definition shr_carry_test (rr s : Z) : bool :=
  wrap_u8 (Z.shiftl s (8 - rr)) =? (s mod 2 ^ rr) * 2 ^ (8 - rr).

Lemma shr_carry_sweep :
  forallb (fun rr => forallb (fun s => shr_carry_test rr s) (zrange 256)) bit_shifts = true.
Proof. vm_compute. reflexivity. Qed.

Lemma shr_carry_byte rr s : 1 <= rr <= 7 -> 0 <= s < 256 ->
  wrap_u8 (Z.shiftl s (8 - rr)) = (s mod 2 ^ rr) * 2 ^ (8 - rr).
Proof.
  intros Hrr Hs. pose proof (sweep2 shr_carry_test shr_carry_sweep rr s Hrr Hs) as H.
  unfold shr_carry_test in H. apply Z.eqb_eq in H. exact H.
Qed.

Lemma pow2_split rr : 1 <= rr <= 7 -> 2 ^ rr * 2 ^ (8 - rr) = 256.
Proof. intros H. rewrite <- Z.pow_add_r by lia. replace (rr + (8 - rr)) with 8 by lia. reflexivity. Qed.

(* D. no index panics *)
Lemma nth_byte bytes j : bytes_ok bytes -> 0 <= j < Z.of_nat (length bytes) ->
  exists b, nth_error bytes (Z.to_nat j) = Some b /\ 0 <= b < 256.
Proof.
  intros Hok Hj. destruct (nth_error bytes (Z.to_nat j)) as [b|] eqn:E.
  - exists b. split; [reflexivity|]. apply nth_error_In in E.
    unfold bytes_ok in Hok. rewrite Forall_forall in Hok. apply Hok. exact E.
  - apply nth_error_None in E. lia.
Qed.

(* ================================================================== B1. aligned shifts *)

Lemma shl_aligned_list bytes q : bytes_ok bytes -> (q <= length bytes)%nat ->
  shl_aligned bytes (Z.of_nat (length bytes)) (Z.of_nat q) = Val (skipn q bytes ++ repeat 0 q).
Proof.
  intros Hok Hq. unfold shl_aligned.
  set (L := skipn q bytes ++ repeat 0 q).
  assert (HL : length L = length bytes).
  { unfold L. rewrite app_length, skipn_length, repeat_length. lia. }
  rewrite <- (map_id L). rewrite <- (map_zrange_nth L (fun b => b)). rewrite HL.
  apply omap_val. intros x Hx. apply zrange_In in Hx.
  destruct (Z.ltb_spec (x + Z.of_nat q) (Z.of_nat (length bytes))) as [Hlt|Hge].
  - destruct (nth_byte bytes (x + Z.of_nat q) Hok ltac:(lia)) as [b [Eb _]]. rewrite Eb.
    unfold L. rewrite nth_error_app1 by (rewrite skipn_length; lia).
    rewrite nth_error_skipn_add.
    replace (q + Z.to_nat x)%nat with (Z.to_nat (x + Z.of_nat q)) by lia. rewrite Eb. reflexivity.
  - unfold L. rewrite nth_error_app2 by (rewrite skipn_length; lia).
    rewrite nth_error_repeat_lt by (rewrite skipn_length; lia). reflexivity.
Qed.

Lemma shl_aligned_ok bytes q : bytes_ok bytes -> (q <= length bytes)%nat ->
  exists res, shl_aligned bytes (Z.of_nat (length bytes)) (Z.of_nat q) = Val res
    /\ length res = length bytes /\ bytes_ok res
    /\ be_val res = (be_val bytes * 256 ^ Z.of_nat q) mod 256 ^ Z.of_nat (length bytes).
Proof.
  intros Hok Hq. exists (skipn q bytes ++ repeat 0 q).
  assert (Hlen : length (skipn q bytes ++ repeat 0 q) = length bytes).
  { rewrite app_length, skipn_length, repeat_length. lia. }
  assert (Hres : bytes_ok (skipn q bytes ++ repeat 0 q)).
  { apply Forall_app. split; [apply Forall_skipn_keep; exact Hok | apply Forall_repeat_intro; lia]. }
  split; [apply shl_aligned_list; assumption|]. split; [exact Hlen|]. split; [exact Hres|].
  pose proof (be_val_bound _ Hres) as Hb. rewrite Hlen in Hb.
  rewrite be_val_app_repeat0 in Hb |- *.
  rewrite (be_val_firstn_skipn q bytes).
  symmetry. apply Z.mod_unique with (q := be_val (firstn q bytes)); [left; exact Hb|].
  replace (length bytes) with ((length bytes - q) + q)%nat at 2 by lia.
  rewrite pow256_add. ring.
Qed.

Lemma shr_aligned_ok bytes q : bytes_ok bytes -> (q <= length bytes)%nat ->
  exists res, shr_aligned bytes (Z.of_nat (length bytes)) (Z.of_nat q) = Val res
    /\ length res = length bytes /\ bytes_ok res
    /\ be_val res = be_val bytes / 256 ^ Z.of_nat q.
Proof.
  intros Hok Hq. unfold shr_aligned.
  destruct (Z.ltb_spec (Z.of_nat (length bytes)) (Z.of_nat q)) as [Hlt|_]; [lia|].
  rewrite Nat2Z.id. replace (Z.to_nat (Z.of_nat (length bytes) - Z.of_nat q)) with (length bytes - q)%nat by lia.
  eexists. split; [reflexivity|].
  split; [rewrite app_length, repeat_length, firstn_length; lia|].
  split.
  { apply Forall_app. split; [apply Forall_repeat_intro; lia | apply Forall_firstn_keep; exact Hok]. }
  rewrite be_val_repeat0_app.
  rewrite (be_val_firstn_skipn (length bytes - q) bytes).
  replace (length bytes - (length bytes - q))%nat with q by lia.
  pose proof (be_val_bound _ (Forall_skipn_keep _ (length bytes - q)%nat _ Hok)) as Hb.
  rewrite skipn_length in Hb. replace (length bytes - (length bytes - q))%nat with q in Hb by lia.
  pose proof (pow256_pos q) as Hp.
  rewrite Z.div_add_l by lia. rewrite (Z.div_small _ _ Hb). lia.
Qed.
