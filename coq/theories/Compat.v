(* Compat.v — model of quiver-core/src/compatibility.rs (the precomputed runtime type-test tables)
   and of the executor's use of them (executor.rs handle_is_type / check_type_compatible /
   get_concrete_type / check_message_compatible), on top of Types.v / Rel.v.
   Definitions only.  HashSets are lists (the correspondence compares them as sets); HashMaps
   with `entry(..).or_insert(..)` are association lists that keep the FIRST binding of a key. *)
From Quiver Require Import Base Types Rel.
From Coq Require Import Arith.
Close Scope Z_scope.
Open Scope nat_scope.

(* bytecode.rs:16-25  ConcreteType: the tag a runtime value carries *)
Inductive ctag :=
| CInteger | CBinary | CReference
| CTuple (tuple_id : nat) | CFunction (func_id : nat) | CBuiltin (builtin_id : nat)
| CProcess (func_id : nat) | CResource (resource_type_id : nat).

Definition ctag_eqb (a b : ctag) : bool :=
  match a, b with
  | CInteger, CInteger | CBinary, CBinary | CReference, CReference => true
  | CTuple x, CTuple y | CFunction x, CFunction y | CBuiltin x, CBuiltin y
  | CProcess x, CProcess y | CResource x, CResource y => Nat.eqb x y
  | _, _ => false
  end.

(* what compatibility.rs reads of a Function: its type_id and the operands of its IsType
   instructions (compatibility.rs:70-76) *)
Record func_info := mk_func { f_type_id : nat; f_istypes : list nat }.

(* compatibility.rs:29-40  CompatibilityInput *)
Record compat_input := mk_input {
  ci_reg : registry;                       (* types + tuples *)
  ci_functions : list func_info;
  ci_builtins : list (nat * nat);          (* BuiltinInfo { param_type, result_type } *)
  ci_resources : list nat                  (* resource names, index = resource_type_id *)
}.

(* compatibility.rs:44-57  extract_function_type_info:
   (parameter, callable type id, process send, process receive) *)
Definition extract_function_type_info (P : registry) (f : func_info)
  : nat * nat * option nat * option nat :=
  match lookup_type P (f_type_id f) with
  | Some (TCallable parameter result receive) => (parameter, f_type_id f, Some receive, Some result)
  | _ => (0, f_type_id f, None, None)
  end.

(* compatibility.rs:151-163  TypeIndex *)
Record type_index := mk_index {
  ix_integer : option nat;
  ix_binary : option nat;
  ix_reference : option nat;
  ix_tuple_to_type : list (option nat);                       (* indexed by tuple id *)
  ix_callable_to_type : list ((nat * nat) * nat);             (* (parameter, result) -> type id *)
  ix_process_to_type : list ((option nat * option nat) * nat);(* (send, receive) -> type id *)
  ix_resource_to_type : list (nat * nat)                      (* resource name -> type id *)
}.

(* `Option::get_or_insert` *)
Definition get_or_insert (o : option nat) (v : nat) : option nat :=
  match o with Some _ => o | None => Some v end.

(* `if let Some(slot) = v.get_mut(i) && slot.is_none() { *slot = Some(x) }` *)
Fixpoint set_if_none (l : list (option nat)) (i x : nat) : list (option nat) :=
  match l, i with
  | [], _ => []
  | None :: l', 0 => Some x :: l'
  | Some y :: l', 0 => Some y :: l'
  | o :: l', S i' => o :: set_if_none l' i' x
  end.

(* `map.entry(k).or_insert(v)` on an association list *)
Fixpoint assoc {K} (eqb : K -> K -> bool) (k : K) (m : list (K * nat)) : option nat :=
  match m with
  | [] => None
  | (k', v) :: m' => if eqb k k' then Some v else assoc eqb k m'
  end.
Definition or_insert {K} (eqb : K -> K -> bool) (m : list (K * nat)) (k : K) (v : nat) : list (K * nat) :=
  match assoc eqb k m with Some _ => m | None => m ++ [(k, v)] end.

Definition pair_eqb (a b : nat * nat) : bool := Nat.eqb (fst a) (fst b) && Nat.eqb (snd a) (snd b).
Definition opair_eqb (a b : option nat * option nat) : bool := opt_eqb (fst a) (fst b) && opt_eqb (snd a) (snd b).

(* compatibility.rs TypeLookupImpl::with_process_types (fix 5eb967d, F70): the tables are computed over the
   program's types EXTENDED with the process type of every function that has none in the table
   (`known.insert((send, receive))` in the order of the functions; the extra types get the ids that
   follow on from the program's table, so no existing id changes) *)
Definition known_process_keys (P : registry) : list (option nat * option nat) :=
  flat_map (fun t => match t with TProcess s r => [(s, r)] | _ => [] end) (types P).

Fixpoint process_types_pass (P : registry) (known : list (option nat * option nat)) (fs : list func_info) : list ty :=
  match fs with
  | [] => []
  | f :: fs' =>
    let '(_, _, send, receive) := extract_function_type_info P f in
    match send with
    | Some _ =>
      if existsb (opair_eqb (send, receive)) known then process_types_pass P known fs'
      else TProcess send receive :: process_types_pass P ((send, receive) :: known) fs'
    | None => process_types_pass P known fs'
    end
  end.

Definition ci_xreg (I : compat_input) : registry :=
  mk_reg (tuples (ci_reg I))
         (types (ci_reg I) ++ process_types_pass (ci_reg I) (known_process_keys (ci_reg I)) (ci_functions I)).
Arguments ci_xreg : simpl never.

(* types.rs:91-93 is_never *)
Definition is_never (t : ty) : bool := match t with TUnion [] => true | _ => false end.

(* compatibility.rs:178-222  one step of the single pass over the type table *)
Definition index_step (P : registry) (ix : type_index) (type_id : nat) (t : ty) : type_index :=
  match t with
  | TInteger => mk_index (get_or_insert (ix_integer ix) type_id) (ix_binary ix) (ix_reference ix)
                         (ix_tuple_to_type ix) (ix_callable_to_type ix) (ix_process_to_type ix) (ix_resource_to_type ix)
  | TBinary => mk_index (ix_integer ix) (get_or_insert (ix_binary ix) type_id) (ix_reference ix)
                        (ix_tuple_to_type ix) (ix_callable_to_type ix) (ix_process_to_type ix) (ix_resource_to_type ix)
  | TReference => mk_index (ix_integer ix) (ix_binary ix) (get_or_insert (ix_reference ix) type_id)
                           (ix_tuple_to_type ix) (ix_callable_to_type ix) (ix_process_to_type ix) (ix_resource_to_type ix)
  | TTuple tuple_id => mk_index (ix_integer ix) (ix_binary ix) (ix_reference ix)
                                (set_if_none (ix_tuple_to_type ix) tuple_id type_id)
                                (ix_callable_to_type ix) (ix_process_to_type ix) (ix_resource_to_type ix)
  | TCallable parameter result receive =>
    if match lookup_type P receive with Some r => is_never r | None => false end
    then mk_index (ix_integer ix) (ix_binary ix) (ix_reference ix) (ix_tuple_to_type ix)
                  (or_insert pair_eqb (ix_callable_to_type ix) (parameter, result) type_id)
                  (ix_process_to_type ix) (ix_resource_to_type ix)
    else ix
  | TProcess send receive =>
    mk_index (ix_integer ix) (ix_binary ix) (ix_reference ix) (ix_tuple_to_type ix) (ix_callable_to_type ix)
             (or_insert opair_eqb (ix_process_to_type ix) (send, receive) type_id) (ix_resource_to_type ix)
  | TResource name =>
    mk_index (ix_integer ix) (ix_binary ix) (ix_reference ix) (ix_tuple_to_type ix) (ix_callable_to_type ix)
             (ix_process_to_type ix) (or_insert Nat.eqb (ix_resource_to_type ix) name type_id)
  | _ => ix
  end.

Fixpoint index_pass (P : registry) (ix : type_index) (type_id : nat) (ts : list ty) : type_index :=
  match ts with
  | [] => ix
  | t :: ts' => index_pass P (index_step P ix type_id t) (S type_id) ts'
  end.

(* compatibility.rs:166-224  TypeIndex::build *)
Definition build_index (P : registry) : type_index :=
  index_pass P (mk_index None None None (repeat None (length (tuples P))) [] [] []) 0 (types P).

Section Tables.
  Variable cfg : rel_cfg.
  Variable fuel : nat.
  Variable I : compat_input.
  Let P := ci_reg I.      (* input.types / input.tuples: what extract_function_type_info reads *)
  (* `lookup`: the program's types extended with the missing process types (= ci_xreg I; a parameter
     here so that the two entry points below compute it once, as with_process_types does) *)
  Variable PX : registry.

  (* is_compatible; out of fuel counts as "not compatible" (the real call would not return) *)
  Definition compat (a b : nat) : bool :=
    match is_compatible_with cfg fuel PX a b with Some true => true | _ => false end.

  (* compatibility.rs:241-272  the three primitive checks, with the fallback used when the
     primitive itself has no entry in the type table *)
  Definition prim_check (found : option nat) (is_prim : ty -> bool) (tag : ctag) (pattern_id : nat) : list ctag :=
    match found with
    | Some id => if compat id pattern_id then [tag] else []
    | None =>
      match lookup_type PX pattern_id with
      | Some pattern => if is_prim pattern || is_never pattern then [tag] else []
      | None => []
      end
    end.

  (* `iter().enumerate()` *)
  Fixpoint enumerate_from {A} (i : nat) (l : list A) : list (nat * A) :=
    match l with [] => [] | x :: l' => (i, x) :: enumerate_from (S i) l' end.

  (* compatibility.rs:228-322 *)
  Definition compute_compatible_concrete_types (index : type_index) (pattern_id : nat) : list ctag :=
    prim_check (ix_integer index) (fun t => match t with TInteger => true | _ => false end) CInteger pattern_id
    ++ prim_check (ix_binary index) (fun t => match t with TBinary => true | _ => false end) CBinary pattern_id
    ++ prim_check (ix_reference index) (fun t => match t with TReference => true | _ => false end) CReference pattern_id
    (* 275-281 tuples *)
    ++ flat_map (fun e => match snd e with
                          | Some type_id => if compat type_id pattern_id then [CTuple (fst e)] else []
                          | None => []
                          end) (enumerate_from 0 (ix_tuple_to_type index))
    (* 284-289 functions *)
    ++ flat_map (fun e => let '(_, callable, _, _) := extract_function_type_info P (snd e) in
                          if compat callable pattern_id then [CFunction (fst e)] else [])
                (enumerate_from 0 (ci_functions I))
    (* 292-300 builtins *)
    ++ flat_map (fun e => match assoc pair_eqb (snd e) (ix_callable_to_type index) with
                          | Some callable_id => if compat callable_id pattern_id then [CBuiltin (fst e)] else []
                          | None => []
                          end) (enumerate_from 0 (ci_builtins I))
    (* 303-310 processes *)
    ++ flat_map (fun e => let '(_, _, process_send, process_receive) := extract_function_type_info P (snd e) in
                          match assoc opair_eqb (process_send, process_receive) (ix_process_to_type index) with
                          | Some process_id => if compat process_id pattern_id then [CProcess (fst e)] else []
                          | None => []
                          end) (enumerate_from 0 (ci_functions I))
    (* 313-319 resources *)
    ++ flat_map (fun e => match assoc Nat.eqb (snd e) (ix_resource_to_type index) with
                          | Some type_id => if compat type_id pattern_id then [CResource (fst e)] else []
                          | None => []
                          end) (enumerate_from 0 (ci_resources I)).

  (* compatibility.rs:63-92 *)
  Definition pattern_type_ids : list nat := flat_map f_istypes (ci_functions I).

End Tables.

Section EntryPoints.
  Variable cfg : rel_cfg.
  Variable fuel : nat.
  Variable I : compat_input.
  Let P := ci_reg I.

  Definition compute_type_compatibility : list (list ctag) :=
    let PX := ci_xreg I in
    let index := build_index PX in
    map (fun pattern_id =>
           if existsb (Nat.eqb pattern_id) (pattern_type_ids I)
           then compute_compatible_concrete_types cfg fuel I PX index pattern_id
           else [])
        (seq 0 (length (types P))).

  (* compatibility.rs:115-147 (the memo is an optimisation: same value per parameter type) *)
  Definition compute_param_compatibility : list (list ctag) * list (list ctag) :=
    let PX := ci_xreg I in
    let index := build_index PX in
    (map (fun f => let '(parameter, _, _, _) := extract_function_type_info P f in
                   compute_compatible_concrete_types cfg fuel I PX index parameter) (ci_functions I),
     map (fun b => compute_compatible_concrete_types cfg fuel I PX index (fst b)) (ci_builtins I)).
End EntryPoints.

(* ---- executor.rs:1632-1671 ---- *)
Definition mem_tag (c : ctag) (s : list ctag) : bool := existsb (ctag_eqb c) s.

(* check_type_compatible: `.get(pattern).map(contains).unwrap_or(false)` *)
Definition check_type_compatible (table : list (list ctag)) (c : ctag) (pattern_type_id : nat) : bool :=
  match nth_error table pattern_type_id with Some s => mem_tag c s | None => false end.

(* the source of a receive: a function, a builtin, or anything else *)
Inductive msg_source := SrcFunction (func_id : nat) | SrcBuiltin (builtin_id : nat) | SrcOther.

(* check_message_compatible: `.get(id).map(contains).unwrap_or(true)` — an absent row is permissive *)
Definition check_message_compatible (fparams bparams : list (list ctag)) (c : ctag) (src : msg_source) : bool :=
  match src with
  | SrcFunction f => match nth_error fparams f with Some s => mem_tag c s | None => true end
  | SrcBuiltin b => match nth_error bparams b with Some s => mem_tag c s | None => true end
  | SrcOther => true
  end.

(* execute.rs:59-63: compile-time module execution passes param_compat = false *)
Definition param_tables (cfg : rel_cfg) (fuel : nat) (I : compat_input) (param_compat : bool)
  : list (list ctag) * list (list ctag) :=
  if param_compat then compute_param_compatibility cfg fuel I else ([], []).
