(* Base.v — shared vocabulary of the quiver models: outcomes, machine-integer images, bytes. *)
From Coq Require Export List ZArith NArith Bool Lia.
Export ListNotations.
Open Scope Z_scope.

(* Error classes of quiver-core/src/error.rs that the modelled code can return.
   Messages are not modelled (the correspondence compares classes only). *)
Inductive err :=
| InvalidArgument | TypeMismatch | StackUnderflow | CallInvalid | FunctionUndefined
| BuiltinUndefined | FrameUnderflow | VariableUndefined | ConstantUndefined
| FieldAccessInvalid | ArityMismatch | TupleEmpty | OperationNotAllowed.

(* outcome A: a value, a clean runtime error, or a Rust panic (unwrap/index/overflow in debug). *)
Inductive outcome (A : Type) :=
| Val (a : A)
| Err (e : err)
| Panic (site : nat).
Arguments Val {A} a.
Arguments Err {A} e.
Arguments Panic {A} site.

Definition obind {A B} (o : outcome A) (f : A -> outcome B) : outcome B :=
  match o with Val a => f a | Err e => Err e | Panic s => Panic s end.
Notation "x <- o ;; k" := (obind o (fun x => k)) (at level 61, o at next level, right associativity).

(* build profile of the Rust crate: overflow-checks on (debug) or off (release) *)
Inductive mode := Debug | Release.

(* machine-integer images *)
Definition two64 : Z := 2 ^ 64.
Definition two63 : Z := 2 ^ 63.
Definition in_i64 (z : Z) : bool := (- two63 <=? z) && (z <? two63).
Definition in_u64 (z : Z) : bool := (0 <=? z) && (z <? two64).
Definition wrap_u64 (z : Z) : Z := z mod two64.
(* two's-complement reinterpretation of a residue mod 2^64 as i64 *)
Definition to_i64 (z : Z) : Z := let r := z mod two64 in if r <? two63 then r else r - two64.
Definition wrap_u32 (z : Z) : Z := z mod 2 ^ 32.
Definition wrap_u8 (z : Z) : Z := z mod 256.

(* bytes are Z in [0,256) *)
Definition byte := Z.
Definition byteb (b : Z) : bool := (0 <=? b) && (b <? 256).
Definition bytes_ok (l : list Z) : Prop := Forall (fun b => 0 <= b < 256) l.

Lemma to_i64_range z : - two63 <= to_i64 z < two63.
Proof.
  unfold to_i64, two63, two64.
  pose proof (Z.mod_pos_bound z (2^64) ltac:(lia)) as H.
  destruct (z mod 2^64 <? 2^63) eqn:E; [apply Z.ltb_lt in E | apply Z.ltb_ge in E]; lia.
Qed.

Lemma to_i64_id z : - two63 <= z < two63 -> to_i64 z = z.
Proof.
  unfold to_i64, two63, two64. intros H.
  destruct (Z_lt_dec z 0) as [Hn|Hn].
  - assert (E: z mod 2^64 = z + 2^64).
    { symmetry. apply Z.mod_unique with (q := -1); lia. }
    rewrite E. destruct (z + 2^64 <? 2^63) eqn:E2; [apply Z.ltb_lt in E2|]; lia.
  - rewrite Z.mod_small by lia.
    destruct (z <? 2^63) eqn:E2; [|apply Z.ltb_ge in E2]; lia.
Qed.

Lemma to_i64_cong z : to_i64 z mod two64 = z mod two64.
Proof.
  unfold to_i64, two64, two63.
  destruct (z mod 2^64 <? 2^63).
  - apply Z.mod_mod; lia.
  - rewrite Zminus_mod, Z_mod_same_full, Z.sub_0_r, Z.mod_mod, Z.mod_mod by lia. reflexivity.
Qed.
