(* BinaryBitsProofs.v — binary_get / binary_set / binary_append agree with their reference specs.
   Contents: A. be_val / be_bytes library; bit-level helpers; C. read_window = big-endian value of
   the window bytes; B. bit_window succeeds exactly when window_ok; D. window arithmetic and the
   three correctness theorems. *)
From Quiver Require Import BuiltinWf.
From Coq Require Import Lia.

(* ================================================================== A. be_val / be_bytes *)

Lemma pow256_pos k : 0 < 256 ^ Z.of_nat k.
Proof. apply Z.pow_pos_nonneg; lia. Qed.

Lemma pow256_S k : 256 ^ Z.of_nat (S k) = 256 * 256 ^ Z.of_nat k.
Proof. rewrite Nat2Z.inj_succ, Z.pow_succ_r by lia. reflexivity. Qed.

Lemma pow256_add a b : 256 ^ Z.of_nat (a + b) = 256 ^ Z.of_nat a * 256 ^ Z.of_nat b.
Proof. rewrite Nat2Z.inj_add, Z.pow_add_r by lia. reflexivity. Qed.

Lemma pow256_pow2 k : 256 ^ Z.of_nat k = 2 ^ (8 * Z.of_nat k).
Proof. change 256 with (2 ^ 8). rewrite <- Z.pow_mul_r by lia. reflexivity. Qed.

Lemma pow256_pow2_Z k : 0 <= k -> 256 ^ k = 2 ^ (8 * k).
Proof. intros H. change 256 with (2 ^ 8). rewrite <- Z.pow_mul_r by lia. reflexivity. Qed.

Lemma be_fold_acc l : forall a,
  fold_left (fun acc b => acc * 256 + b) l a = a * 256 ^ Z.of_nat (length l) + be_val l.
Proof.
  unfold be_val. induction l as [|x t IH]; intros a.
  - cbn [fold_left length]. change (Z.of_nat 0) with 0. rewrite Z.pow_0_r. lia.
  - cbn [fold_left]. rewrite (IH (a * 256 + x)), (IH (0 * 256 + x)).
    change (length (x :: t)) with (S (length t)). rewrite pow256_S. ring.
Qed.

Lemma be_val_nil : be_val [] = 0.
Proof. reflexivity. Qed.

Lemma be_val_app l1 l2 : be_val (l1 ++ l2) = be_val l1 * 256 ^ Z.of_nat (length l2) + be_val l2.
Proof. unfold be_val at 1. rewrite fold_left_app. fold (be_val l1). apply be_fold_acc. Qed.

Lemma be_val_single b : be_val [b] = b.
Proof. unfold be_val. cbn [fold_left]. lia. Qed.

Lemma be_val_snoc l b : be_val (l ++ [b]) = be_val l * 256 + b.
Proof.
  rewrite be_val_app, be_val_single. change (Z.of_nat (length [b])) with 1.
  rewrite Z.pow_1_r. reflexivity.
Qed.

Lemma be_val_cons x t : be_val (x :: t) = x * 256 ^ Z.of_nat (length t) + be_val t.
Proof. change (x :: t) with ([x] ++ t). rewrite be_val_app, be_val_single. reflexivity. Qed.

Lemma be_val_bound l : bytes_ok l -> 0 <= be_val l < 256 ^ Z.of_nat (length l).
Proof.
  unfold bytes_ok. induction l as [|x t IH]; intros H.
  - rewrite be_val_nil. change (Z.of_nat (length (@nil Z))) with 0. rewrite Z.pow_0_r. lia.
  - inversion H as [|? ? Hx Ht]; subst. specialize (IH Ht).
    rewrite be_val_cons. change (length (x :: t)) with (S (length t)). rewrite pow256_S.
    pose proof (pow256_pos (length t)). nia.
Qed.

Lemma be_bytes_length m v : length (be_bytes m v) = m.
Proof. induction m as [|k IH]; cbn [be_bytes length]; [reflexivity | rewrite IH; reflexivity]. Qed.

Lemma be_bytes_ok m v : bytes_ok (be_bytes m v).
Proof.
  unfold bytes_ok. induction m as [|k IH]; cbn [be_bytes]; constructor; [|exact IH].
  apply Z.mod_pos_bound. lia.
Qed.

Lemma be_bytes_mod m : forall c x, be_bytes m (c * 256 ^ Z.of_nat m + x) = be_bytes m x.
Proof.
  induction m as [|k IH]; intros c x; [reflexivity|].
  cbn [be_bytes]. rewrite pow256_S.
  pose proof (pow256_pos k) as Hp.
  replace (c * (256 * 256 ^ Z.of_nat k) + x) with ((c * 256) * 256 ^ Z.of_nat k + x) by ring.
  rewrite IH. f_equal.
  rewrite Z.div_add_l by lia.
  rewrite Z.add_comm. apply Z_mod_plus_full.
Qed.

Lemma be_bytes_val l : bytes_ok l -> be_bytes (length l) (be_val l) = l.
Proof.
  unfold bytes_ok. induction l as [|x t IH]; intros H; [reflexivity|].
  inversion H as [|? ? Hx Ht]; subst. specialize (IH Ht).
  change (length (x :: t)) with (S (length t)). cbn [be_bytes].
  rewrite be_val_cons. pose proof (be_val_bound t Ht) as Hb.
  rewrite be_bytes_mod, IH. f_equal.
  rewrite Z.div_add_l by lia. rewrite (Z.div_small (be_val t)) by lia.
  rewrite Z.add_0_r. apply Z.mod_small. exact Hx.
Qed.

(* splitting an encoding at a byte boundary *)
Lemma be_bytes_split a b X Y : 0 <= Y < 256 ^ Z.of_nat b ->
  be_bytes (a + b) (X * 256 ^ Z.of_nat b + Y) = be_bytes a X ++ be_bytes b Y.
Proof.
  intros HY. induction a as [|a IH].
  - cbn [Nat.add be_bytes app]. apply be_bytes_mod.
  - change (S a + b)%nat with (S (a + b)). cbn [be_bytes app]. rewrite IH. f_equal.
    pose proof (pow256_pos a) as Ha. pose proof (pow256_pos b) as Hb.
    rewrite Nat.add_comm, pow256_add. rewrite <- Z.div_div by lia.
    rewrite Z.div_add_l by lia. rewrite (Z.div_small Y) by lia. rewrite Z.add_0_r. reflexivity.
Qed.

(* ================================================================== bit-level helpers *)

Lemma pow2_pos k : 0 <= k -> 0 < 2 ^ k.
Proof. intros. apply Z.pow_pos_nonneg; lia. Qed.

(* bits of hi·2^k + lo *)
Lemma testbit_split hi lo k i : 0 <= k -> 0 <= lo < 2 ^ k -> 0 <= i ->
  Z.testbit (hi * 2 ^ k + lo) i = if i <? k then Z.testbit lo i else Z.testbit hi (i - k).
Proof.
  intros Hk Hlo Hi. pose proof (pow2_pos k Hk) as Hp.
  destruct (Z.ltb_spec i k) as [C|C].
  - rewrite <- (Z.mod_pow2_bits_low (hi * 2 ^ k + lo) k i) by lia.
    rewrite Z.add_comm, Z_mod_plus_full, Z.mod_small by lia. reflexivity.
  - replace i with ((i - k) + k) at 1 by lia.
    rewrite <- Z.div_pow2_bits by lia.
    rewrite Z.div_add_l by lia. rewrite Z.div_small by lia. rewrite Z.add_0_r. reflexivity.
Qed.

Lemma testbit_small x k i : 0 <= k -> 0 <= x < 2 ^ k -> k <= i -> Z.testbit x i = false.
Proof.
  intros Hk Hx Hi. rewrite <- (Z.mod_small x (2 ^ k)) by lia.
  apply Z.mod_pow2_bits_high. lia.
Qed.

Lemma lor_mul_pow2 a b k : 0 <= k -> 0 <= b < 2 ^ k -> Z.lor (a * 2 ^ k) b = a * 2 ^ k + b.
Proof.
  intros Hk Hb. apply Z.bits_inj'. intros i Hi.
  rewrite Z.lor_spec, testbit_split by lia.
  destruct (Z.ltb_spec i k) as [C|C].
  - rewrite Z.mul_pow2_bits_low by lia. reflexivity.
  - rewrite (testbit_small b k i) by lia. rewrite Z.mul_pow2_bits by lia. apply orb_false_r.
Qed.

(* ================================================================== C. read_window *)

Lemma ofold_app {A S} (f : S -> A -> outcome S) l1 : forall l2 s,
  ofold f (l1 ++ l2) s = (s' <- ofold f l1 s ;; ofold f l2 s').
Proof.
  induction l1 as [|x t IH]; intros l2 s; [reflexivity|].
  cbn [app ofold]. destruct (f s x) as [s1|e|p]; cbn [obind]; [apply IH | reflexivity | reflexivity].
Qed.

Lemma firstn_S_nth {A} (l : list A) : forall i x, nth_error l i = Some x ->
  firstn (S i) l = firstn i l ++ [x].
Proof.
  induction l as [|y t IH]; intros [|i] x H; try discriminate.
  - cbn in H. injection H as ->. reflexivity.
  - cbn [nth_error] in H. cbn [firstn app]. f_equal. apply IH. exact H.
Qed.

Lemma read_window_spec r bo : wf r -> 0 <= bo -> forall k, (k <= 16)%nat ->
  bo + Z.of_nat k <= rlen r ->
  read_window r bo (Z.of_nat k) =
  Val (be_val (firstn k (skipn (Z.to_nat bo) (bytes_of r)))).
Proof.
  intros Hwf Hbo. unfold read_window. induction k as [|k IH]; intros Hk Hlen.
  - reflexivity.
  - rewrite Nat2Z.inj_succ. unfold Z.succ. rewrite zrange_succ by lia.
    rewrite ofold_app. rewrite IH by lia. cbn [obind ofold].
    destruct (byte_at_in_range r (bo + Z.of_nat k) Hwf ltac:(lia)) as [b [E1 [E2 Hb]]].
    rewrite E1. cbn [obind ofold]. f_equal.
    assert (E3 : nth_error (skipn (Z.to_nat bo) (bytes_of r)) k = Some b).
    { rewrite nth_error_skipn_add. rewrite <- E2. f_equal. lia. }
    rewrite (firstn_S_nth _ k b E3), be_val_snoc.
    set (l := firstn k (skipn (Z.to_nat bo) (bytes_of r))).
    assert (Hl : bytes_ok l).
    { apply Forall_firstn_keep, Forall_skipn_keep. apply bytes_of_ok. exact Hwf. }
    assert (Hlen' : length l = k).
    { unfold l. apply firstn_length_le.
      pose proof (nth_error_Some (skipn (Z.to_nat bo) (bytes_of r)) k) as Hs.
      rewrite E3 in Hs. assert (k < length (skipn (Z.to_nat bo) (bytes_of r)))%nat by (apply Hs; discriminate).
      lia. }
    pose proof (be_val_bound l Hl) as Hv. rewrite Hlen' in Hv.
    assert (Hp : 256 ^ Z.of_nat k <= 256 ^ 15) by (apply Z.pow_le_mono_r; lia).
    unfold wrap_u128. rewrite Z.shiftl_mul_pow2 by lia.
    assert (H15 : 256 ^ 15 * 2 ^ 8 = 2 ^ 128) by reflexivity.
    assert (H8 : 2 ^ 8 = 256) by reflexivity.
    rewrite Z.mod_small by (rewrite <- H15, H8; lia).
    rewrite <- H8. apply lor_mul_pow2; lia.
Qed.

(* ================================================================== B. bit_window *)

Lemma div8_ceil t : 8 * ((t + 7) / 8) <= t + 7 < 8 * ((t + 7) / 8) + 8.
Proof.
  pose proof (Z.div_mod (t + 7) 8 ltac:(lia)) as H.
  pose proof (Z.mod_pos_bound (t + 7) 8 ltac:(lia)) as H2. lia.
Qed.

Lemma window_ok_iff n bo bi nb : window_ok n bo bi nb = true <->
  0 <= bo /\ 0 <= bi <= 7 /\ 1 <= nb <= 64 /\ 8 * bo + bi + nb <= 8 * n.
Proof.
  unfold window_ok. rewrite !andb_true_iff, !Z.leb_le. lia.
Qed.

Ltac zcmp :=
  repeat match goal with
  | |- context [Z.ltb ?a ?b] => destruct (Z.ltb_spec a b); cbn [negb andb orb obind]
  | |- context [Z.leb ?a ?b] => destruct (Z.leb_spec a b); cbn [negb andb orb obind]
  end.

Lemma bit_window_ok n bo bi nb : 0 <= n <= MAX_BINARY_SIZE -> window_ok n bo bi nb = true ->
  exists last m ba,
    bit_window n bo bi nb = Val (bo, bi, nb, last, m, ba) /\
    0 <= bo /\ 0 <= bi <= 7 /\ 1 <= nb <= 64 /\
    1 <= m <= 9 /\ 0 <= ba <= 7 /\ last = bo + m /\ last <= n /\ ba + nb + bi = 8 * m.
Proof.
  intros Hn Hok. apply window_ok_iff in Hok. destruct Hok as (H1 & H2 & H3 & H4).
  pose proof (div8_ceil (bo * 8 + bi + nb)) as Hd.
  exists ((bo * 8 + bi + nb + 7) / 8), ((bo * 8 + bi + nb + 7) / 8 - bo),
         (((bo * 8 + bi + nb + 7) / 8 - bo) * 8 - bi - nb).
  set (last := (bo * 8 + bi + nb + 7) / 8) in *.
  unfold MAX_BINARY_SIZE in Hn.
  split; [|lia].
  unfold bit_window, to_i64_checked, in_i64, in_u64, two63, two64.
  fold last.
  zcmp; try lia. reflexivity.
Qed.

Lemma bit_window_bad n bo bi nb : 0 <= n <= MAX_BINARY_SIZE -> window_ok n bo bi nb = false ->
  bit_window n bo bi nb = Err InvalidArgument.
Proof.
  intros Hn Hok. apply not_true_iff_false in Hok. rewrite window_ok_iff in Hok.
  pose proof (div8_ceil (bo * 8 + bi + nb)) as Hd.
  unfold MAX_BINARY_SIZE in Hn.
  unfold bit_window, to_i64_checked, in_i64, in_u64, two63, two64.
  set (last := (bo * 8 + bi + nb + 7) / 8) in *.
  zcmp; try reflexivity; exfalso; lia.
Qed.

(* ================================================================== D. window arithmetic *)

Lemma split3 {A} (l : list A) bo m :
  l = firstn bo l ++ firstn m (skipn bo l) ++ skipn (bo + m) l.
Proof.
  rewrite <- skipn_skipn_add. rewrite (firstn_skipn m (skipn bo l)). symmetry. apply firstn_skipn.
Qed.

Lemma window_decomp l bo m : bytes_ok l -> (bo + m <= length l)%nat ->
  let P := be_val (firstn bo l) in
  let W := be_val (firstn m (skipn bo l)) in
  let T := be_val (skipn (bo + m) l) in
  let t := (length l - (bo + m))%nat in
  be_val l = P * 2 ^ (8 * Z.of_nat m + 8 * Z.of_nat t) + W * 2 ^ (8 * Z.of_nat t) + T /\
  0 <= P /\ 0 <= W < 2 ^ (8 * Z.of_nat m) /\ 0 <= T < 2 ^ (8 * Z.of_nat t).
Proof.
  intros Hok Hlen P W T t.
  assert (Lw : length (firstn m (skipn bo l)) = m).
  { apply firstn_length_le. rewrite skipn_length. lia. }
  assert (Lt : length (skipn (bo + m) l) = t) by (rewrite skipn_length; reflexivity).
  pose proof (be_val_bound _ (Forall_firstn_keep _ bo l Hok)) as BP.
  pose proof (be_val_bound _ (Forall_firstn_keep _ m _ (Forall_skipn_keep _ bo l Hok))) as BW.
  pose proof (be_val_bound _ (Forall_skipn_keep _ (bo + m)%nat l Hok)) as BT.
  rewrite Lw in BW. rewrite Lt in BT. rewrite pow256_pow2 in BW, BT.
  fold P in BP. fold W in BW. fold T in BT.
  split; [|lia].
  rewrite (split3 l bo m) at 1. rewrite !be_val_app. rewrite app_length, Lw, Lt.
  fold P W T. rewrite !pow256_pow2, Nat2Z.inj_add, Z.mul_add_distr_l. ring.
Qed.

Lemma get_arith P W T m t ba bi nb :
  0 <= t -> 0 <= ba -> 0 <= bi -> 0 <= nb -> ba + nb + bi = 8 * m ->
  0 <= T < 2 ^ (8 * t) ->
  ((P * 2 ^ (8 * m + 8 * t) + W * 2 ^ (8 * t) + T) / 2 ^ (8 * t + ba)) mod 2 ^ nb
  = (W / 2 ^ ba) mod 2 ^ nb.
Proof.
  intros Ht Hba Hbi Hnb Hm HT.
  replace (8 * m) with (bi + nb + ba) by lia.
  rewrite !Z.pow_add_r by lia.
  pose proof (pow2_pos (8 * t) ltac:(lia)) as HE. pose proof (pow2_pos ba Hba) as HA.
  pose proof (pow2_pos nb Hnb) as HB. pose proof (pow2_pos bi Hbi) as HC.
  set (E := 2 ^ (8 * t)) in *. set (A := 2 ^ ba) in *. set (B := 2 ^ nb) in *. set (C := 2 ^ bi) in *.
  rewrite <- Z.div_div by lia.
  replace (P * (C * B * A * E) + W * E + T) with ((P * C * B * A + W) * E + T) by ring.
  rewrite Z.div_add_l by lia. rewrite (Z.div_small T E) by lia. rewrite Z.add_0_r.
  replace (P * C * B * A + W) with ((P * C * B) * A + W) by ring.
  rewrite Z.div_add_l by lia.
  replace (P * C * B + W / A) with (W / A + (P * C) * B) by ring.
  apply Z_mod_plus_full.
Qed.

Lemma shiftl1_mask nb : 0 <= nb <= 64 -> wrap_u128 (Z.shiftl 1 nb) - 1 = Z.ones nb.
Proof.
  intros H. rewrite Z.shiftl_mul_pow2, Z.mul_1_l by lia. unfold wrap_u128.
  assert (2 ^ nb <= 2 ^ 64) by (apply Z.pow_le_mono_r; lia).
  pose proof (pow2_pos nb ltac:(lia)).
  rewrite Z.mod_small by lia. rewrite Z.ones_equiv. lia.
Qed.

Lemma get_value W ba nb : 0 <= ba -> 1 <= nb <= 64 ->
  wrap_u64 (Z.land (Z.shiftr W ba) (wrap_u128 (Z.shiftl 1 nb) - 1)) = (W / 2 ^ ba) mod 2 ^ nb.
Proof.
  intros Hba Hnb. rewrite shiftl1_mask by lia. rewrite Z.land_ones by lia.
  rewrite Z.shiftr_div_pow2 by lia. unfold wrap_u64, two64.
  assert (2 ^ nb <= 2 ^ 64) by (apply Z.pow_le_mono_r; lia).
  pose proof (Z.mod_pos_bound (W / 2 ^ ba) (2 ^ nb) (pow2_pos nb ltac:(lia))).
  apply Z.mod_small. lia.
Qed.

Ltac ill := split; [reflexivity | exact I].

Theorem binary_get_correct : agrees impl_binary_get spec_binary_get.
Proof.
  intros a Ha.
  destruct a as [?|?|fs|]; [ill|ill| |ill].
  destruct fs as [|a0 fs]; [ill|]. destruct a0 as [?|r|?|]; [ill| |ill|ill].
  destruct fs as [|a1 fs]; [ill|]. destruct a1 as [bo|?|?|]; [|ill|ill|ill].
  destruct fs as [|a2 fs]; [ill|]. destruct a2 as [bi|?|?|]; [|ill|ill|ill].
  destruct fs as [|a3 fs]; [ill|]. destruct a3 as [nb|?|?|]; [|ill|ill|ill].
  destruct fs as [|a4 fs]; [|ill].
  simpl in Ha. destruct Ha as [Hwf _].
  cbn [flatten map]. unfold spec_binary_get, impl_binary_get.
  rewrite blen_bytes_of by exact Hwf.
  pose proof (wf_rlen_bound r Hwf) as Hn.
  destruct (window_ok (rlen r) bo bi nb) eqn:Hok.
  - destruct (bit_window_ok _ _ _ _ Hn Hok) as (last & m & ba & Ebw & H1 & H2 & H3 & H4 & H5 & H6 & H7 & H8).
    rewrite Ebw. cbn [obind].
    assert (Erw : read_window r bo m =
                  Val (be_val (firstn (Z.to_nat m) (skipn (Z.to_nat bo) (bytes_of r))))).
    { rewrite <- (Z2Nat.id m) at 1 by lia. apply read_window_spec; try assumption; lia. }
    rewrite Erw.
    cbn [obind flatten_out flatten]. split; [|exact I]. do 2 f_equal.
    rewrite get_value by lia.
    pose proof (rlen_bytes_of r Hwf) as Hlen.
    pose proof (window_decomp (bytes_of r) (Z.to_nat bo) (Z.to_nat m) (bytes_of_ok r Hwf) ltac:(lia)) as HD.
    cbv zeta in HD. destruct HD as (EV & HP & HW & HT).
    rewrite EV.
    replace (8 * rlen r - (8 * bo + bi) - nb)
      with (8 * Z.of_nat (length (bytes_of r) - (Z.to_nat bo + Z.to_nat m)) + ba) by lia.
    symmetry. apply get_arith with (bi := bi); lia.
  - rewrite bit_window_bad by assumption. cbn [obind flatten_out]. split; [reflexivity | exact I].
Qed.

Example binary_get_example :
  impl_binary_get (BTup [BBin (Concat (Owned [1;2;3;4]) (Owned [5;6;7;8;255]) 9); BInt 0; BInt 4; BInt 64]) = Val (BInt 1161981756646125711).
Proof. vm_compute. reflexivity. Qed.

(* ================================================================== big-endian store loop *)

Lemma store_loop_be v m :
  map (fun i => Z.land (Z.shiftr v (i * 8)) 255) (rev (zrange (Z.of_nat m))) = be_bytes m v.
Proof.
  induction m as [|m IH]; [reflexivity|].
  rewrite Nat2Z.inj_succ. unfold Z.succ. rewrite zrange_succ by lia.
  rewrite rev_app_distr. cbn [rev app map be_bytes]. rewrite IH. f_equal.
  rewrite Z.shiftr_div_pow2 by lia. change 255 with (Z.ones 8). rewrite Z.land_ones by lia.
  rewrite pow256_pow2. change (2 ^ 8) with 256. rewrite (Z.mul_comm 8). reflexivity.
Qed.

Lemma store_loop_be_Z v m : 0 <= m ->
  map (fun i => Z.land (Z.shiftr v (i * 8)) 255) (rev (zrange m)) = be_bytes (Z.to_nat m) v.
Proof. intros H. rewrite <- (Z2Nat.id m) at 1 by lia. apply store_loop_be. Qed.

(* ================================================================== append *)

Lemma append_max n : 1 <= n <= 8 ->
  (if n =? 8 then two64 - 1 else Z.shiftl 1 (n * 8) - 1) = 256 ^ n - 1.
Proof.
  intros H. destruct (Z.eqb_spec n 8) as [->|N]; [reflexivity|].
  rewrite Z.shiftl_mul_pow2, Z.mul_1_l by lia. rewrite pow256_pow2_Z by lia.
  rewrite (Z.mul_comm 8). reflexivity.
Qed.

Lemma append_ok_iff L n v :
  (1 <=? n) && (n <=? 8) && (0 <=? v) && (v <? 256 ^ n) && (v <? two63)
    && (L + n <=? MAX_BINARY_SIZE) = true <->
  1 <= n <= 8 /\ 0 <= v /\ v < 256 ^ n /\ v < two63 /\ L + n <= MAX_BINARY_SIZE.
Proof. rewrite !andb_true_iff, !Z.leb_le, !Z.ltb_lt. tauto. Qed.

Lemma append_impl r v n : wf r ->
  impl_binary_append (BTup [BBin r; BInt v; BInt n]) =
  if (1 <=? n) && (n <=? 8) && (0 <=? v) && (v <? 256 ^ n) && (v <? two63)
       && (rlen r + n <=? MAX_BINARY_SIZE)
  then Val (BBin (mk_concat r (Owned (be_bytes (Z.to_nat n) v)))) else Err InvalidArgument.
Proof.
  intros Hwf. unfold impl_binary_append.
  pose proof (wf_rlen_bound r Hwf) as Hn.
  pose proof (append_ok_iff (rlen r) n v) as Hiff.
  remember ((1 <=? n) && (n <=? 8) && (0 <=? v) && (v <? 256 ^ n) && (v <? two63)
      && (rlen r + n <=? MAX_BINARY_SIZE)) as cond eqn:Ec. clear Ec.
  assert (Hbad : ~ (1 <= n <= 8 /\ 0 <= v /\ v < 256 ^ n /\ v < two63 /\ rlen r + n <= MAX_BINARY_SIZE) ->
    cond = false).
  { intros Hc. apply not_true_iff_false. rewrite Hiff. exact Hc. }
  unfold to_i64_checked at 1.
  destruct (in_i64 n) eqn:Ei; cbn [obind];
    [| rewrite Hbad; [reflexivity | unfold in_i64, two63 in Ei; lia ]].
  destruct (Z.leb_spec 1 n) as [C1|C1]; cbn [andb negb]; [| rewrite Hbad; [reflexivity | lia]].
  destruct (Z.leb_spec n 8) as [C2|C2]; cbn [andb negb]; [| rewrite Hbad; [reflexivity | lia]].
  destruct (Z.ltb_spec v 0) as [C3|C3]; [rewrite Hbad; [reflexivity | lia]|].
  unfold to_i64_checked.
  destruct (in_i64 v) eqn:Ev; cbn [obind];
    [| rewrite Hbad; [reflexivity | unfold in_i64, two63 in *; lia ]].
  rewrite append_max by lia.
  destruct (Z.ltb_spec (256 ^ n - 1) v) as [C4|C4]; [rewrite Hbad; [reflexivity | lia]|].
  assert (Eu : in_u64 (rlen r + n) = true).
  { unfold in_u64, two64. unfold MAX_BINARY_SIZE in Hn. apply andb_true_iff. rewrite Z.leb_le, Z.ltb_lt. lia. }
  rewrite Eu. cbn [negb].
  rewrite store_loop_be_Z by lia.
  set (nbs := be_bytes (Z.to_nat n) v).
  assert (Ln : Z.of_nat (length nbs) = n) by (unfold nbs; rewrite be_bytes_length; lia).
  assert (Lc : rlen (mk_concat r (Owned nbs)) = rlen r + n) by (rewrite <- Ln; reflexivity).
  destruct (Z_le_dec (rlen r + n) MAX_BINARY_SIZE) as [C5|C5].
  - rewrite alloc_ok by lia.
    rewrite (proj2 Hiff) by (unfold in_i64, two63 in *; lia). reflexivity.
  - rewrite alloc_too_big by lia. rewrite Hbad by lia. reflexivity.
Qed.

Theorem binary_append_correct : agrees impl_binary_append spec_binary_append.
Proof.
  intros a Ha.
  destruct a as [?|?|fs|]; [ill|ill| |ill].
  destruct fs as [|a0 fs]; [ill|]. destruct a0 as [?|r|?|]; [ill| |ill|ill].
  destruct fs as [|a1 fs]; [ill|]. destruct a1 as [v|?|?|]; [|ill|ill|ill].
  destruct fs as [|a2 fs]; [ill|]. destruct a2 as [n|?|?|]; [|ill|ill|ill].
  destruct fs as [|a3 fs]; [|ill].
  simpl in Ha. destruct Ha as [Hwf _].
  rewrite append_impl by exact Hwf.
  cbn [flatten map]. unfold spec_binary_append.
  rewrite blen_bytes_of by exact Hwf.
  destruct ((1 <=? n) && (n <=? 8) && (0 <=? v) && (v <? 256 ^ n) && (v <? two63)
       && (rlen r + n <=? MAX_BINARY_SIZE)) eqn:Hc; [|ill].
  apply append_ok_iff in Hc.
  pose proof (wf_rlen_bound r Hwf) as Hn.
  assert (Hw : wf (mk_concat r (Owned (be_bytes (Z.to_nat n) v)))).
  { apply mk_concat_wf; [exact Hwf | | cbn [rlen]; rewrite be_bytes_length; lia].
    cbn [wf]. split; [apply be_bytes_ok | rewrite be_bytes_length; unfold MAX_BINARY_SIZE in *; lia]. }
  cbn [flatten_out flatten wf_out wf_bval]. split; [|exact Hw].
  rewrite mk_concat_bytes. reflexivity.
Qed.

(* ================================================================== set: the mask identity *)

Lemma tb_shifted_ones nb ba i : 0 <= nb -> 0 <= ba -> 0 <= i ->
  Z.testbit (Z.shiftl (Z.ones nb) ba) i = (ba <=? i) && (i <? ba + nb).
Proof.
  intros Hnb Hba Hi. rewrite Z.shiftl_spec by lia. rewrite Z.testbit_ones by lia.
  lia.
Qed.

Lemma shifted_ones_bound nb ba : 0 <= nb -> 0 <= ba -> ba + nb <= 128 ->
  0 <= Z.shiftl (Z.ones nb) ba < 2 ^ 128.
Proof.
  intros Hnb Hba Hs. rewrite Z.shiftl_mul_pow2, Z.ones_equiv by lia.
  pose proof (pow2_pos nb Hnb) as HB. pose proof (pow2_pos ba Hba) as HA.
  assert (2 ^ (nb + ba) <= 2 ^ 128) by (apply Z.pow_le_mono_r; lia).
  rewrite Z.pow_add_r in * by lia. unfold Z.pred. nia.
Qed.

Lemma not_mask x : 0 <= x < 2 ^ 128 -> 2 ^ 128 - 1 - x = Z.ldiff (Z.ones 128) x.
Proof.
  intros Hx. change (2 ^ 128 - 1) with (Z.ones 128). apply Z.sub_nocarry_ldiff.
  apply Z.bits_inj'. intros i Hi. rewrite Z.ldiff_spec, Z.bits_0.
  rewrite Z.testbit_ones_nonneg by lia.
  destruct (Z.ltb_spec i 128); cbn [negb]; [apply andb_false_r|].
  rewrite (testbit_small x 128 i) by lia. reflexivity.
Qed.

Lemma set_mask_identity W v ba nb :
  0 <= ba -> 1 <= nb <= 64 -> ba + nb <= 128 -> 0 <= W < 2 ^ 128 -> 0 <= v < 2 ^ nb ->
  Z.lor (Z.land W (2 ^ 128 - 1 - wrap_u128 (Z.shiftl (wrap_u128 (Z.shiftl 1 nb) - 1) ba)))
        (wrap_u128 (Z.shiftl v ba))
  = (W / 2 ^ (ba + nb)) * 2 ^ (ba + nb) + v * 2 ^ ba + W mod 2 ^ ba.
Proof.
  intros Hba Hnb Hs HW Hv.
  pose proof (pow2_pos nb ltac:(lia)) as HB. pose proof (pow2_pos ba Hba) as HA.
  assert (HAB : 2 ^ (ba + nb) = 2 ^ ba * 2 ^ nb) by (apply Z.pow_add_r; lia).
  assert (H128 : 2 ^ (ba + nb) <= 2 ^ 128) by (apply Z.pow_le_mono_r; lia).
  rewrite shiftl1_mask by lia.
  pose proof (shifted_ones_bound nb ba ltac:(lia) Hba Hs) as Htm.
  unfold wrap_u128. rewrite (Z.mod_small (Z.shiftl (Z.ones nb) ba)) by exact Htm.
  rewrite not_mask by exact Htm.
  rewrite (Z.shiftl_mul_pow2 v) by lia.
  assert (Hsv : 0 <= v * 2 ^ ba < 2 ^ (ba + nb)) by (rewrite HAB; nia).
  rewrite (Z.mod_small (v * 2 ^ ba)) by lia.
  pose proof (Z.mod_pos_bound W (2 ^ ba) HA) as Hwm.
  assert (Hlo : 0 <= v * 2 ^ ba + W mod 2 ^ ba < 2 ^ (ba + nb)) by (rewrite HAB; nia).
  rewrite <- Z.add_assoc.
  apply Z.bits_inj'. intros i Hi.
  rewrite Z.lor_spec, Z.land_spec, Z.ldiff_spec, Z.testbit_ones_nonneg, tb_shifted_ones by lia.
  rewrite Z.mul_pow2_bits by lia.
  rewrite testbit_split by lia.
  rewrite (testbit_split v (W mod 2 ^ ba) ba i) by lia.
  destruct (Z.ltb_spec i (ba + nb)) as [C1|C1].
  - destruct (Z.ltb_spec i ba) as [C2|C2].
    + rewrite (Z.testbit_neg_r v (i - ba)) by lia. rewrite orb_false_r.
      rewrite Z.mod_pow2_bits_low by lia.
      rewrite (proj2 (Z.ltb_lt i 128)) by lia.
      destruct (Z.leb_spec ba i); [lia|]. cbn [andb negb]. apply andb_true_r.
    + rewrite (proj2 (Z.ltb_lt i 128)) by lia.
      destruct (Z.leb_spec ba i); [|lia]. cbn [andb negb]. rewrite andb_false_r. reflexivity.
  - rewrite (testbit_small v nb (i - ba)) by lia. rewrite orb_false_r.
    destruct (Z.leb_spec ba i); [|lia]. cbn [andb negb]. rewrite andb_true_r.
    rewrite Z.div_pow2_bits by lia. replace (i - (ba + nb) + (ba + nb)) with i by lia.
    destruct (Z.ltb_spec i 128) as [C3|C3]; [apply andb_true_r|].
    rewrite (testbit_small W 128 i) by lia. reflexivity.
Qed.

Lemma set_new_bound W v ba bi nb m : 0 <= ba -> 0 <= bi -> 0 <= nb -> ba + nb + bi = 8 * m ->
  0 <= W < 2 ^ (8 * m) -> 0 <= v < 2 ^ nb ->
  0 <= (W / 2 ^ (ba + nb)) * 2 ^ (ba + nb) + v * 2 ^ ba + W mod 2 ^ ba < 2 ^ (8 * m).
Proof.
  intros Hba Hbi Hnb Hm HW Hv.
  replace (8 * m) with (bi + (ba + nb)) in * by lia.
  rewrite !Z.pow_add_r in * by lia.
  pose proof (pow2_pos nb Hnb) as HB. pose proof (pow2_pos ba Hba) as HA. pose proof (pow2_pos bi Hbi) as HC.
  set (A := 2 ^ ba) in *. set (B := 2 ^ nb) in *. set (C := 2 ^ bi) in *.
  pose proof (Z.mod_pos_bound W A HA) as Hwm.
  assert (Hq : 0 <= W / (A * B) < C).
  { split; [apply Z.div_pos; nia | apply Z.div_lt_upper_bound; nia]. }
  set (q := W / (A * B)) in *.
  assert (G1 : q * (A * B) <= (C - 1) * (A * B)) by (apply Z.mul_le_mono_nonneg_r; nia).
  assert (G2 : v * A <= (B - 1) * A) by (apply Z.mul_le_mono_nonneg_r; lia).
  assert (G3 : 0 <= q * (A * B)) by (apply Z.mul_nonneg_nonneg; nia).
  assert (G4 : 0 <= v * A) by (apply Z.mul_nonneg_nonneg; lia).
  lia.
Qed.

Lemma set_arith P W T v m t ba bi nb :
  0 <= t -> 0 <= ba -> 0 <= bi -> 0 <= nb -> ba + nb + bi = 8 * m ->
  0 <= T < 2 ^ (8 * t) ->
  let V := P * 2 ^ (8 * m + 8 * t) + W * 2 ^ (8 * t) + T in
  let low := 8 * t + ba in
  (V / 2 ^ (low + nb)) * 2 ^ (low + nb) + v * 2 ^ low + V mod 2 ^ low
  = P * 2 ^ (8 * m + 8 * t)
    + ((W / 2 ^ (ba + nb)) * 2 ^ (ba + nb) + v * 2 ^ ba + W mod 2 ^ ba) * 2 ^ (8 * t) + T.
Proof.
  intros Ht Hba Hbi Hnb Hm HT V low. subst V low.
  replace (8 * m) with (bi + (ba + nb)) by lia.
  replace (8 * t + ba + nb) with (8 * t + (ba + nb)) by lia.
  rewrite !Z.pow_add_r by lia.
  pose proof (pow2_pos (8 * t) ltac:(lia)) as HE. pose proof (pow2_pos ba Hba) as HA.
  pose proof (pow2_pos nb Hnb) as HB. pose proof (pow2_pos bi Hbi) as HC.
  set (E := 2 ^ (8 * t)) in *. set (A := 2 ^ ba) in *. set (B := 2 ^ nb) in *. set (C := 2 ^ bi) in *.
  assert (E1 : (P * (C * (A * B) * E) + W * E + T) / (E * (A * B)) = P * C + W / (A * B)).
  { rewrite <- Z.div_div by nia.
    replace (P * (C * (A * B) * E) + W * E + T) with ((P * C * (A * B) + W) * E + T) by ring.
    rewrite Z.div_add_l by lia. rewrite (Z.div_small T E) by lia. rewrite Z.add_0_r.
    rewrite Z.div_add_l by nia. reflexivity. }
  assert (E2 : (P * (C * (A * B) * E) + W * E + T) / (E * A) = P * C * B + W / A).
  { rewrite <- Z.div_div by nia.
    replace (P * (C * (A * B) * E) + W * E + T) with ((P * C * (A * B) + W) * E + T) by ring.
    rewrite Z.div_add_l by lia. rewrite (Z.div_small T E) by lia. rewrite Z.add_0_r.
    replace (P * C * (A * B) + W) with ((P * C * B) * A + W) by ring.
    rewrite Z.div_add_l by nia. reflexivity. }
  rewrite E1. rewrite (Z.mod_eq _ (E * A)) by nia. rewrite E2.
  rewrite (Z.mod_eq W A) by lia. ring.
Qed.

Lemma set_bytes l bo m NW : bytes_ok l -> (bo + m <= length l)%nat ->
  0 <= NW < 2 ^ (8 * Z.of_nat m) ->
  be_bytes (length l)
    (be_val (firstn bo l) * 2 ^ (8 * Z.of_nat m + 8 * Z.of_nat (length l - (bo + m)))
     + NW * 2 ^ (8 * Z.of_nat (length l - (bo + m))) + be_val (skipn (bo + m) l))
  = firstn bo l ++ be_bytes m NW ++ skipn (bo + m) l.
Proof.
  intros Hok Hlen HNW.
  destruct (window_decomp l bo m Hok Hlen) as (_ & HP & _ & HT). cbv zeta in HP, HT.
  set (t := (length l - (bo + m))%nat) in *.
  set (P := be_val (firstn bo l)) in *. set (T := be_val (skipn (bo + m) l)) in *.
  assert (Lp : length (firstn bo l) = bo) by (apply firstn_length_le; lia).
  assert (Lt : length (skipn (bo + m) l) = t) by (rewrite skipn_length; reflexivity).
  replace (length l) with (bo + (m + t))%nat by lia.
  rewrite <- Z.mul_add_distr_l, <- Nat2Z.inj_add. rewrite <- !pow256_pow2.
  rewrite <- pow256_pow2 in HNW, HT.
  pose proof (pow256_pos t) as Hpt.
  rewrite <- Z.add_assoc.
  rewrite be_bytes_split by (rewrite pow256_add; nia).
  rewrite be_bytes_split by lia.
  unfold P. rewrite <- Lp at 1. rewrite be_bytes_val by (apply Forall_firstn_keep; exact Hok).
  unfold T. rewrite <- Lt at 1. rewrite be_bytes_val by (apply Forall_skipn_keep; exact Hok).
  reflexivity.
Qed.

Lemma set_rope r bo m nbs : wf r -> 0 <= bo -> 0 <= m -> bo + m <= rlen r ->
  bytes_ok nbs -> Z.of_nat (length nbs) = m ->
  let len := rlen r in let last := bo + m in let mid := Owned nbs in
  exists res,
    (if (bo =? 0) && (last =? len) then Val mid
     else if bo =? 0 then
       match mk_slice r last (len - last) with
       | Some rgt => Val (mk_concat mid rgt) | None => Panic 15 end
     else if last =? len then
       match mk_slice r 0 bo with
       | Some lft => Val (mk_concat lft mid) | None => Panic 15 end
     else
       match mk_slice r 0 bo, mk_slice r last (len - last) with
       | Some lft, Some rgt => Val (mk_concat (mk_concat lft mid) rgt)
       | _, _ => Panic 15 end) = Val res /\
    wf res /\
    bytes_of res = firstn (Z.to_nat bo) (bytes_of r) ++ nbs ++ skipn (Z.to_nat (bo + m)) (bytes_of r).
Proof.
  intros Hwf Hbo Hm Hlast Hok Hlen len last mid.
  pose proof (wf_rlen_bound r Hwf) as Hn. pose proof (rlen_bytes_of r Hwf) as HL.
  fold len in Hn, HL, Hlast.
  destruct (mk_slice_some r 0 bo Hwf ltac:(lia) Hbo ltac:(lia)) as (lft & El & Wl & Bl).
  destruct (mk_slice_some r last (len - last) Hwf ltac:(unfold last; lia) ltac:(unfold last; lia)
              ltac:(unfold len; lia)) as (rgt & Er & Wr & Br).
  change (skipn (Z.to_nat 0) (bytes_of r)) with (bytes_of r) in Bl.
  rewrite firstn_all2 in Br by (rewrite skipn_length; unfold last; lia).
  fold len in Er. fold last.
  assert (Wm : wf mid).
  { unfold mid. cbn [wf]. split; [exact Hok | unfold MAX_BINARY_SIZE in *; unfold last in *; lia]. }
  assert (Rl : rlen lft = bo).
  { rewrite (rlen_bytes_of lft Wl), Bl. rewrite firstn_length_le by lia. lia. }
  assert (Rr : rlen rgt = len - last).
  { rewrite (rlen_bytes_of rgt Wr), Br. rewrite skipn_length. unfold last. lia. }
  assert (Rm : rlen mid = m) by exact Hlen.
  destruct (Z.eqb_spec bo 0) as [Eb|Nb]; destruct (Z.eqb_spec last len) as [Ee|Ne]; cbn [andb].
  - exists mid. split; [reflexivity|]. split; [exact Wm|].
    rewrite Eb. change (Z.to_nat 0) with 0%nat. cbn [firstn app bytes_of mid].
    rewrite skipn_all2 by lia. rewrite app_nil_r. reflexivity.
  - rewrite Er. exists (mk_concat mid rgt). split; [reflexivity|].
    split; [apply mk_concat_wf; try assumption; unfold last in *; lia|].
    rewrite mk_concat_bytes, Br. rewrite Eb. change (Z.to_nat 0) with 0%nat. reflexivity.
  - rewrite El. exists (mk_concat lft mid). split; [reflexivity|].
    split; [apply mk_concat_wf; try assumption; unfold last in *; lia|].
    rewrite mk_concat_bytes, Bl. rewrite (skipn_all2 (bytes_of r)) by lia.
    rewrite app_nil_r. reflexivity.
  - rewrite El, Er. exists (mk_concat (mk_concat lft mid) rgt). split; [reflexivity|].
    assert (Wlm : wf (mk_concat lft mid)) by (apply mk_concat_wf; try assumption; unfold last in *; lia).
    split.
    + apply mk_concat_wf; try assumption.
      change (rlen (mk_concat lft mid)) with (rlen lft + rlen mid). unfold last in *. lia.
    + rewrite !mk_concat_bytes, Bl, Br. rewrite <- app_assoc. reflexivity.
Qed.

Lemma set_max nb : 1 <= nb <= 64 ->
  (if nb =? 64 then two64 - 1 else Z.shiftl 1 nb - 1) = 2 ^ nb - 1.
Proof.
  intros H. destruct (Z.eqb_spec nb 64) as [->|N]; [reflexivity|].
  rewrite Z.shiftl_mul_pow2, Z.mul_1_l by lia. reflexivity.
Qed.

Lemma set_ok_iff n bo bi nb v :
  window_ok n bo bi nb && (0 <=? v) && (v <? 2 ^ nb) && (v <? two63) = true <->
  window_ok n bo bi nb = true /\ 0 <= v /\ v < 2 ^ nb /\ v < two63.
Proof. rewrite !andb_true_iff, !Z.leb_le, !Z.ltb_lt. tauto. Qed.

Lemma set_impl r bo bi v nb : wf r ->
  let x := bytes_of r in
  let low := 8 * blen x - (8 * bo + bi) - nb in
  let V := be_val x in
  if window_ok (rlen r) bo bi nb && (0 <=? v) && (v <? 2 ^ nb) && (v <? two63)
  then exists res,
         impl_binary_set (BTup [BBin r; BInt bo; BInt bi; BInt v; BInt nb]) = Val (BBin res) /\
         wf res /\
         bytes_of res = be_bytes (length x)
            ((V / 2 ^ (low + nb)) * 2 ^ (low + nb) + v * 2 ^ low + V mod 2 ^ low)
  else impl_binary_set (BTup [BBin r; BInt bo; BInt bi; BInt v; BInt nb]) = Err InvalidArgument.
Proof.
  intros Hwf x low V. unfold impl_binary_set.
  pose proof (wf_rlen_bound r Hwf) as Hn.
  pose proof (set_ok_iff (rlen r) bo bi nb v) as Hiff.
  remember (window_ok (rlen r) bo bi nb && (0 <=? v) && (v <? 2 ^ nb) && (v <? two63)) as cond eqn:Ec.
  clear Ec.
  assert (Hbad : ~ (window_ok (rlen r) bo bi nb = true /\ 0 <= v /\ v < 2 ^ nb /\ v < two63) -> cond = false).
  { intros Hc. apply not_true_iff_false. rewrite Hiff. exact Hc. }
  destruct (window_ok (rlen r) bo bi nb) eqn:Hok.
  2:{ rewrite bit_window_bad by assumption. rewrite Hbad; [reflexivity|]. intros [Hc _]. discriminate. }
  destruct (bit_window_ok _ _ _ _ Hn Hok) as (last & m & ba & Ebw & H1 & H2 & H3 & H4 & H5 & H6 & H7 & H8).
  rewrite Ebw. cbn [obind]. rewrite set_max by lia.
  unfold to_i64_checked.
  destruct (in_i64 v) eqn:Ev; cbn [obind];
    [| rewrite Hbad; [reflexivity | unfold in_i64, two63 in *; lia]].
  destruct (Z.ltb_spec v 0) as [C1|C1]; cbn [orb]; [rewrite Hbad; [reflexivity | lia]|].
  destruct (Z.ltb_spec (2 ^ nb - 1) v) as [C2|C2]; [rewrite Hbad; [reflexivity | lia]|].
  rewrite (proj2 Hiff) by (unfold in_i64, two63 in *; lia).
  assert (Erw : read_window r bo m =
                Val (be_val (firstn (Z.to_nat m) (skipn (Z.to_nat bo) (bytes_of r))))).
  { rewrite <- (Z2Nat.id m) at 1 by lia. apply read_window_spec; try assumption; lia. }
  rewrite Erw. cbn [obind].
  subst last.
  pose proof (rlen_bytes_of r Hwf) as HL. fold x in HL.
  pose proof (bytes_of_ok r Hwf) as Hx. fold x in Hx.
  fold x.
  set (bn := Z.to_nat bo). set (mn := Z.to_nat m).
  destruct (window_decomp x bn mn Hx ltac:(lia)) as (EV & HP & HW & HT). cbv zeta in EV, HP, HW, HT.
  set (tn := (length x - (bn + mn))%nat) in *.
  set (W := be_val (firstn mn (skipn bn x))) in *.
  assert (HW128 : 0 <= W < 2 ^ 128).
  { assert (2 ^ (8 * Z.of_nat mn) <= 2 ^ 128) by (apply Z.pow_le_mono_r; lia). lia. }
  rewrite set_mask_identity by lia.
  set (NW := W / 2 ^ (ba + nb) * 2 ^ (ba + nb) + v * 2 ^ ba + W mod 2 ^ ba).
  assert (HNW : 0 <= NW < 2 ^ (8 * Z.of_nat mn)).
  { apply set_new_bound with (bi := bi); lia. }
  rewrite store_loop_be_Z by lia. fold mn.
  destruct (set_rope r bo m (be_bytes mn NW) Hwf H1 ltac:(lia) H7 (be_bytes_ok _ _)
              ltac:(rewrite be_bytes_length; lia)) as (res & Eres & Wres & Bres).
  cbv zeta in Eres. rewrite Eres. cbn [obind].
  exists res. split; [apply alloc_wf; exact Wres|]. split; [exact Wres|].
  rewrite Bres. fold x. fold bn.
  replace (Z.to_nat (bo + m)) with (bn + mn)%nat by lia.
  subst low V. unfold blen.
  replace (8 * Z.of_nat (length x) - (8 * bo + bi) - nb) with (8 * Z.of_nat tn + ba) by lia.
  rewrite EV.
  rewrite (set_arith _ W _ v (Z.of_nat mn) (Z.of_nat tn) ba bi nb) by lia.
  fold NW. symmetry. apply set_bytes; [exact Hx | lia | exact HNW].
Qed.

Theorem binary_set_correct : agrees impl_binary_set spec_binary_set.
Proof.
  intros a Ha.
  destruct a as [?|?|fs|]; [ill|ill| |ill].
  destruct fs as [|a0 fs]; [ill|]. destruct a0 as [?|r|?|]; [ill| |ill|ill].
  destruct fs as [|a1 fs]; [ill|]. destruct a1 as [bo|?|?|]; [|ill|ill|ill].
  destruct fs as [|a2 fs]; [ill|]. destruct a2 as [bi|?|?|]; [|ill|ill|ill].
  destruct fs as [|a3 fs]; [ill|]. destruct a3 as [v|?|?|]; [|ill|ill|ill].
  destruct fs as [|a4 fs]; [ill|]. destruct a4 as [nb|?|?|]; [|ill|ill|ill].
  destruct fs as [|a5 fs]; [|ill].
  simpl in Ha. destruct Ha as [Hwf _].
  pose proof (set_impl r bo bi v nb Hwf) as HI. cbv zeta in HI.
  cbn [flatten map]. unfold spec_binary_set.
  rewrite blen_bytes_of in * by exact Hwf.
  destruct (window_ok (rlen r) bo bi nb && (0 <=? v) && (v <? 2 ^ nb) && (v <? two63)).
  - destruct HI as (res & E & Wres & Bres). rewrite E.
    cbn [flatten_out flatten wf_out wf_bval]. split; [|exact Wres]. rewrite Bres. reflexivity.
  - rewrite HI. ill.
Qed.

Example binary_set_example :
  flatten_out (impl_binary_set (BTup [BBin (Owned [1;2;3;4;5;6;7;8;255]); BInt 2; BInt 4; BInt 5; BInt 8])) = Val (FBin [1;2;0;84;5;6;7;8;255]).
Proof. vm_compute. reflexivity. Qed.

