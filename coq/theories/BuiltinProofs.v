(* BuiltinProofs.v — impl_<b> = spec for the integer builtins. *)
From Quiver Require Import BuiltinSpec.

Local Ltac i64 H := unfold in_i64, two63 in H; apply andb_true_iff in H; destruct H as [?H ?H];
  match goal with H1 : (_ <=? _) = true |- _ => apply Z.leb_le in H1 end;
  match goal with H1 : (_ <? _) = true |- _ => apply Z.ltb_lt in H1 end.

Lemma wrap_u64_land_ones z : wrap_u64 z = Z.land z (Z.ones 64).
Proof. unfold wrap_u64, two64. rewrite Z.land_ones by lia. reflexivity. Qed.

Lemma testbit_wrap z i : 0 <= i -> Z.testbit (wrap_u64 z) i = if i <? 64 then Z.testbit z i else false.
Proof.
  intros Hi. unfold wrap_u64, two64.
  destruct (i <? 64) eqn:E; [apply Z.ltb_lt in E | apply Z.ltb_ge in E].
  - apply Z.mod_pow2_bits_low; lia.
  - apply Z.mod_pow2_bits_high; lia.
Qed.

(* a bitwise operation that commutes with truncation to 64 bits *)
Lemma bitop_commutes (op : Z -> Z -> Z) (f : bool -> bool -> bool) a b :
  f false false = false ->
  (forall x y i, 0 <= i -> Z.testbit (op x y) i = f (Z.testbit x i) (Z.testbit y i)) ->
  wrap_u64 (op a b) = op (wrap_u64 a) (wrap_u64 b).
Proof.
  intros Hf Hop. apply Z.bits_inj'. intros i Hi.
  rewrite Hop by lia. rewrite !testbit_wrap by lia. rewrite Hop by lia.
  destruct (i <? 64); [reflexivity | now rewrite Hf].
Qed.

Lemma i64_range_bits z :
  (- 2^63 <= z < 2^63) <-> (forall i, 63 <= i -> Z.testbit z i = Z.testbit z 63).
Proof.
  split.
  - intros Hz i Hi. destruct (Z_lt_dec z 0) as [Hn|Hn].
    + assert (T : forall j, 63 <= j -> Z.testbit z j = true).
      { intros j Hj. apply Z.bits_above_log2_neg; [lia|].
        destruct (Z.eq_dec (Z.pred (- z)) 0) as [E|E]; [rewrite E; simpl; lia|].
        assert (Z.log2 (Z.pred (- z)) < 63); [|lia]. apply Z.log2_lt_pow2; lia. }
      rewrite (T i), (T 63); auto; lia.
    + assert (T : forall j, 63 <= j -> Z.testbit z j = false).
      { intros j Hj. destruct (Z.eq_dec z 0) as [->|]; [apply Z.bits_0|].
        apply Z.bits_above_log2; [lia|]. assert (Z.log2 z < 63); [|lia]. apply Z.log2_lt_pow2; lia. }
      rewrite (T i), (T 63); auto; lia.
  - intros Hbits. destruct (Z.testbit z 63) eqn:E.
    + assert (Hn : z < 0).
      { apply Z.bits_iff_neg_ex. exists 62. intros m Hm. rewrite Hbits by lia. reflexivity. }
      split; [|lia].
      destruct (Z_le_dec (- 2^63) z) as [|Hlt]; [assumption|exfalso].
      assert (Hp : 2^63 <= Z.pred (- z)) by lia.
      pose proof (Z.log2_le_mono _ _ Hp) as Hl. rewrite Z.log2_pow2 in Hl by lia.
      set (k := Z.log2 (Z.pred (- z))) in *.
      assert (Hk : Z.testbit (Z.pred (- z)) k = true) by (apply Z.bit_log2; lia).
      assert (Hz : Z.testbit z k = negb (Z.testbit (Z.pred (- z)) k)).
      { replace z with (Z.lnot (Z.pred (- z))) at 1 by (unfold Z.lnot; lia).
        apply Z.lnot_spec. lia. }
      rewrite Hbits in Hz by lia. rewrite Hk in Hz. discriminate.
    + assert (Hn : 0 <= z).
      { apply Z.bits_iff_nonneg_ex. exists 62. intros m Hm. rewrite Hbits by lia. reflexivity. }
      split; [lia|].
      destruct (Z_lt_dec z (2^63)) as [|Hge]; [assumption|exfalso].
      assert (Hp : 2^63 <= z) by lia.
      pose proof (Z.log2_le_mono _ _ Hp) as Hl. rewrite Z.log2_pow2 in Hl by lia.
      assert (Hk : Z.testbit z (Z.log2 z) = true) by (apply Z.bit_log2; lia).
      rewrite Hbits in Hk by lia. discriminate.
Qed.

Lemma i64_bitop_in_range (op : Z -> Z -> Z) (f : bool -> bool -> bool) a b :
  (forall x y i, Z.testbit (op x y) i = f (Z.testbit x i) (Z.testbit y i)) ->
  - two63 <= a < two63 -> - two63 <= b < two63 -> - two63 <= op a b < two63.
Proof.
  intros Hop Ha Hb. unfold two63 in *.
  apply i64_range_bits. intros i Hi. rewrite !Hop.
  rewrite (proj1 (i64_range_bits a) Ha i Hi), (proj1 (i64_range_bits b) Hb i Hi). reflexivity.
Qed.

Lemma to_i64_wrap z : to_i64 (wrap_u64 z) = to_i64 z.
Proof. unfold to_i64, wrap_u64, two64. rewrite Z.mod_mod by lia. reflexivity. Qed.

Theorem integer_and_correct a b :
  impl_integer_and (BTup [BInt a; BInt b]) =
  if in_i64 a && in_i64 b then Val (BInt (spec_bitop Z.land a b)) else Err InvalidArgument.
Proof.
  unfold impl_integer_and, two_i64, to_i64_checked, spec_bitop. cbn [obind].
  destruct (in_i64 a) eqn:Ea; cbn [obind andb]; [|reflexivity].
  destruct (in_i64 b) eqn:Eb; cbn [obind fst snd]; [|reflexivity].
  i64 Ea. i64 Eb. f_equal. f_equal.
  rewrite <- (bitop_commutes Z.land andb) by (auto; intros; apply Z.land_spec).
  rewrite to_i64_wrap. symmetry. apply to_i64_id.
  apply (i64_bitop_in_range Z.land andb); unfold two63; try lia. intros; apply Z.land_spec.
Qed.

Theorem integer_or_correct a b :
  impl_integer_or (BTup [BInt a; BInt b]) =
  if in_i64 a && in_i64 b then Val (BInt (spec_bitop Z.lor a b)) else Err InvalidArgument.
Proof.
  unfold impl_integer_or, two_i64, to_i64_checked, spec_bitop. cbn [obind].
  destruct (in_i64 a) eqn:Ea; cbn [obind andb]; [|reflexivity].
  destruct (in_i64 b) eqn:Eb; cbn [obind fst snd]; [|reflexivity].
  i64 Ea. i64 Eb. f_equal. f_equal.
  rewrite <- (bitop_commutes Z.lor orb) by (auto; intros; apply Z.lor_spec).
  rewrite to_i64_wrap. symmetry. apply to_i64_id.
  apply (i64_bitop_in_range Z.lor orb); unfold two63; try lia. intros; apply Z.lor_spec.
Qed.

Theorem integer_xor_correct a b :
  impl_integer_xor (BTup [BInt a; BInt b]) =
  if in_i64 a && in_i64 b then Val (BInt (spec_bitop Z.lxor a b)) else Err InvalidArgument.
Proof.
  unfold impl_integer_xor, two_i64, to_i64_checked, spec_bitop. cbn [obind].
  destruct (in_i64 a) eqn:Ea; cbn [obind andb]; [|reflexivity].
  destruct (in_i64 b) eqn:Eb; cbn [obind fst snd]; [|reflexivity].
  i64 Ea. i64 Eb. f_equal. f_equal.
  rewrite <- (bitop_commutes Z.lxor xorb) by (auto; intros; apply Z.lxor_spec).
  rewrite to_i64_wrap. symmetry. apply to_i64_id.
  apply (i64_bitop_in_range Z.lxor xorb); unfold two63; try lia. intros; apply Z.lxor_spec.
Qed.

(* arithmetic builtins: exact on unbounded integers, truncating division *)
Theorem integer_add_correct a b : impl_integer_add (BTup [BInt a; BInt b]) = Val (BInt (a + b)).
Proof. reflexivity. Qed.
Theorem integer_subtract_correct a b : impl_integer_subtract (BTup [BInt a; BInt b]) = Val (BInt (a - b)).
Proof. reflexivity. Qed.
Theorem integer_multiply_correct a b : impl_integer_multiply (BTup [BInt a; BInt b]) = Val (BInt (a * b)).
Proof. reflexivity. Qed.

Theorem integer_divide_correct a b :
  (b = 0 -> impl_integer_divide (BTup [BInt a; BInt b]) = Err InvalidArgument) /\
  (b <> 0 -> exists q r, impl_integer_divide (BTup [BInt a; BInt b]) = Val (BInt q) /\
                         impl_integer_modulo (BTup [BInt a; BInt b]) = Val (BInt r) /\
                         a = b * q + r /\ Z.abs r < Z.abs b /\ 0 <= r * a).
Proof.
  unfold impl_integer_divide, impl_integer_modulo. cbn [two_bigints obind fst snd]. split.
  - intros ->. reflexivity.
  - intros Hb. destruct (b =? 0) eqn:E; [apply Z.eqb_eq in E; contradiction|].
    exists (Z.quot a b), (Z.rem a b). repeat split.
    + apply Z.quot_rem'.
    + apply Z.rem_bound_abs; assumption.
    + apply Z.rem_sign_mul; assumption.
Qed.

Theorem integer_sqrt_correct n :
  (n < 0 -> impl_integer_sqrt (BInt n) = Err InvalidArgument) /\
  (0 <= n -> exists r, impl_integer_sqrt (BInt n) = Val (BInt r) /\ 0 <= r /\ r * r <= n < (r + 1) * (r + 1)).
Proof.
  unfold impl_integer_sqrt. split; intros H.
  - destruct (n <? 0) eqn:E; [reflexivity | apply Z.ltb_ge in E; lia].
  - destruct (n <? 0) eqn:E; [apply Z.ltb_lt in E; lia|].
    exists (Z.sqrt n). split; [reflexivity|]. split; [apply Z.sqrt_nonneg|].
    pose proof (Z.sqrt_spec n H). unfold Z.succ in *. lia.
Qed.

Theorem integer_gcd_correct a b :
  exists g, impl_integer_gcd (BTup [BInt a; BInt b]) = Val (BInt g) /\ 0 <= g /\ (g | a) /\ (g | b) /\
            forall d, (d | a) -> (d | b) -> (d | g).
Proof.
  exists (Z.gcd a b). split; [reflexivity|]. split; [apply Z.gcd_nonneg|].
  split; [apply Z.gcd_divide_l|]. split; [apply Z.gcd_divide_r|]. intros; now apply Z.gcd_greatest.
Qed.

Theorem integer_compare_correct a b :
  impl_integer_compare (BTup [BInt a; BInt b]) = Val (BInt (if a <? b then -1 else if b <? a then 1 else 0)).
Proof.
  unfold impl_integer_compare. cbn [two_bigints obind fst snd]. rewrite !Z.ltb_compare, (Z.compare_antisym a b).
  destruct (a ?= b); reflexivity.
Qed.

Theorem integer_abs_correct n : impl_integer_abs (BInt n) = Val (BInt (if n <? 0 then - n else n)).
Proof.
  unfold impl_integer_abs. destruct (n <? 0) eqn:E; [apply Z.ltb_lt in E | apply Z.ltb_ge in E]; f_equal; f_equal; lia.
Qed.

(* no integer builtin panics, on any argument whatsoever *)
Definition not_panic {A} (o : outcome A) : Prop := match o with Panic _ => False | _ => True end.

Ltac crush_np :=
  repeat (cbn [obind]; match goal with
         | |- not_panic (obind (if ?c then _ else _) _) => destruct c
         | |- not_panic (obind (match ?x with _ => _ end) _) => destruct x
         | |- not_panic (match ?x with _ => _ end) => destruct x
         end); try exact I.

Theorem integer_builtins_never_panic (a : bval) :
  not_panic (impl_integer_abs a) /\ not_panic (impl_integer_sqrt a) /\ not_panic (impl_integer_add a) /\
  not_panic (impl_integer_subtract a) /\ not_panic (impl_integer_multiply a) /\ not_panic (impl_integer_gcd a) /\
  not_panic (impl_integer_divide a) /\ not_panic (impl_integer_modulo a) /\ not_panic (impl_integer_compare a) /\
  not_panic (impl_integer_and a) /\ not_panic (impl_integer_or a) /\ not_panic (impl_integer_xor a) /\
  not_panic (impl_integer_not a) /\ not_panic (impl_integer_shift a) /\ not_panic (impl_integer_popcount a).
Proof.
  assert (T1 : forall a, not_panic (two_bigints a)).
  { intros x. unfold two_bigints. crush_np. }
  assert (T2 : forall a, not_panic (two_i64 a)).
  { intros x. unfold two_i64, to_i64_checked. repeat (crush_np; cbn [obind]). }
  assert (C1 : forall (f : Z * Z -> outcome bval), (forall p, not_panic (f p)) -> not_panic (obind (two_bigints a) f)).
  { intros f Hf. specialize (T1 a). destruct (two_bigints a); cbn [obind]; auto. }
  assert (C2 : forall (f : Z * Z -> outcome bval), (forall p, not_panic (f p)) -> not_panic (obind (two_i64 a) f)).
  { intros f Hf. specialize (T2 a). destruct (two_i64 a); cbn [obind]; auto. }
  unfold impl_integer_abs, impl_integer_sqrt, impl_integer_add, impl_integer_subtract, impl_integer_multiply,
    impl_integer_gcd, impl_integer_divide, impl_integer_modulo, impl_integer_compare, impl_integer_and,
    impl_integer_or, impl_integer_xor, impl_integer_not, impl_integer_shift, impl_integer_popcount, to_i64_checked.
  repeat split; try (apply C1; intros p; crush_np); try (apply C2; intros p; crush_np); repeat (crush_np; cbn [obind]).
Qed.
