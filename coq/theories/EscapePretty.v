(* EscapePretty.v — ties Escape.v's model of a rendered multi-line string line to Pretty.v's model of the
   printer's trailing-whitespace stripping (pretty.rs:297, which since the F18 repair strips ' ' and TAB only):
   printing a rendered line at indentation `margin` and stripping it gives exactly `Escape.indent_line`
   (the full line, or nothing for an empty line) — for EVERY string, including lines that end in U+00A0 etc.
   This is the assumption `render_multiline` makes about the printer. *)
From Quiver Require Import Base Escape EscapeProofs.
From Quiver Require Pretty.

Lemma trim_end_id (l : list Z) :
  l <> [] -> Pretty.is_ws (last l 0) = false -> Pretty.trim_end l = l.
Proof.
  induction l as [|c t IH]; intros Hne Hlast; [congruence|].
  destruct t as [|c2 t2].
  - cbn in Hlast. cbn [Pretty.trim_end]. rewrite Hlast. reflexivity.
  - assert (Ht : Pretty.trim_end (c2 :: t2) = c2 :: t2).
    { apply IH; [discriminate|]. exact Hlast. }
    change (Pretty.trim_end (c :: c2 :: t2)) with
      (match Pretty.trim_end (c2 :: t2) with [] => if Pretty.is_ws c then [] else [c] | t' => c :: t' end).
    rewrite Ht. reflexivity.
Qed.

Lemma trim_end_all_space (n : nat) : Pretty.trim_end (repeat 32 n) = [].
Proof.
  induction n as [|n IH]; [reflexivity|].
  change (Pretty.trim_end (repeat 32 (S n))) with
    (match Pretty.trim_end (repeat 32 n) with [] => if Pretty.is_ws 32 then [] else [32] | t' => 32 :: t' end).
  rewrite IH. reflexivity.
Qed.

Lemma protect_nil_inv x : protect_trailing_spaces x = [] -> x = [].
Proof.
  destruct x as [|c t]; [reflexivity|]. cbn [protect_trailing_spaces].
  destruct ((c =? 32) && all_space t); discriminate.
Qed.

(* the protected line never ends in a space *)
Lemma protect_last_not_space x :
  protect_trailing_spaces x = [] \/ last (protect_trailing_spaces x) 0 <> 32.
Proof.
  induction x as [|c t IH]; [left; reflexivity|]. right. cbn [protect_trailing_spaces].
  destruct (protect_trailing_spaces t) as [|y r] eqn:Hp.
  - apply protect_nil_inv in Hp. subst t. cbn [all_space]. rewrite andb_true_r.
    destruct (c =? 32) eqn:Hc; cbn [last]; [lia|]. apply Z.eqb_neq in Hc. exact Hc.
  - destruct IH as [Hnil|Hl]; [discriminate|].
    destruct ((c =? 32) && all_space t); cbn [last] in *; exact Hl.
Qed.

Lemma last_in_Forall (P : Z -> Prop) (l : list Z) d : l <> [] -> Forall P l -> P (last l d).
Proof.
  induction l as [|c t IH]; intros Hne HF; [congruence|].
  inversion HF as [|? ? Hc Ht]; subst. destruct t as [|c2 t2]; [exact Hc|].
  apply IH; [discriminate|exact Ht].
Qed.

Lemma last_app_ne (a b : list Z) d : b <> [] -> last (a ++ b) d = last b d.
Proof.
  intros Hb. induction a as [|x a IH]; [reflexivity|].
  cbn [app]. destruct (a ++ b) as [|z l] eqn:E.
  - destruct a, b; cbn in E; congruence.
  - cbn [last]. exact IH.
Qed.

Theorem rendered_line_survives_strip : forall (margin : nat) (l : list Z),
  Pretty.trim_end (repeat 32 margin ++ render_line l) = indent_line margin (render_line l).
Proof.
  intros margin l. unfold indent_line. destruct (render_line l) as [|y r] eqn:Hr.
  - rewrite app_nil_r. apply trim_end_all_space.
  - apply trim_end_id; [destruct (repeat 32 margin); discriminate|].
    rewrite last_app_ne by discriminate. rewrite <- Hr.
    assert (Hn32 : last (render_line l) 0 <> 32).
    { unfold render_line in *. destruct (protect_last_not_space (escape_multiline_text l)) as [Hnil|Hl];
        [rewrite Hnil in Hr; discriminate|exact Hl]. }
    assert (Hn9 : last (render_line l) 0 <> 9).
    { apply (last_in_Forall (fun c => c <> 9)); [rewrite Hr; discriminate|].
      apply render_line_forall; try lia. apply Forall_forall. intros c _ _ Hc. exact Hc. }
    unfold Pretty.is_ws. apply orb_false_iff. split; apply Z.eqb_neq; assumption.
Qed.

Example rendered_line_survives_strip_ex :
  (* "ab" ++ NBSP ++ two spaces at margin 2: the NBSP stays (F18), the spaces are \s-protected *)
  Pretty.trim_end (repeat 32 2 ++ render_line [97; 98; 160; 32; 32]) = [32; 32; 97; 98; 160; 92; 115; 92; 115].
Proof. vm_compute. reflexivity. Qed.
