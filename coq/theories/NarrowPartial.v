(* NarrowPartial.v — intersect_types of a first-order cycle-free type with a PARTIAL pattern type
   (the narrowing a `=A[x: _]` / `(x: 'int, ..)` pattern performs) never drops a value of both, over
   values whose tuples carry each label at most once (OverlapPartial.wfv).
   intersect_pair answers such a pair by its default arm: the variant itself when types_overlap holds,
   `never` otherwise; the `never` is justified by OverlapPartial.overlap_false_disjoint_p (which needs the
   F25p repair 7ba69a0), the kept variants are united by union_type_ids (NarrowProofs). *)
From Quiver Require Import Base Types Rel Sem SemProofs RelProofs OverlapProofs OverlapPartial TypesProofs Narrow NarrowProofs.
From Coq Require Import Arith Lia.
Close Scope Z_scope.
Open Scope nat_scope.

Lemma FO_FOp P t : FO P t -> FOp P t.
Proof.
  induction 1 as [t Hl|t Hl|t Hl|t r Hl|t vs Hl Hvs IH|t tid info Hl Ht Hfs IH].
  - eapply FOp_int; eassumption.
  - eapply FOp_bin; eassumption.
  - eapply FOp_ref; eassumption.
  - eapply FOp_res; eassumption.
  - eapply FOp_union; eassumption.
  - eapply FOp_tuple; eassumption.
Qed.

Lemma FOp_extends P P' t : extends P P' -> FOp P t -> FOp P' t.
Proof.
  intros [HT HU]. induction 1 as [t Hl|t Hl|t Hl|t r Hl|t vs Hl Hvs IH|t tid info Hl Ht Hfs IH|t p r rc Hl|t s r Hl|t pn pfs Hl Hfs IH].
  - eapply FOp_int; eauto.
  - eapply FOp_bin; eauto.
  - eapply FOp_ref; eauto.
  - eapply FOp_res; eauto.
  - eapply FOp_union; eauto.
  - eapply FOp_tuple; eauto.
  - eapply FOp_callable; eauto.
  - eapply FOp_process; eauto.
  - eapply FOp_partial; eauto.
Qed.

Definition is_partial (P : registry) (b : nat) : Prop := exists pn pfs, lookup_type P b = Some (TPartial pn pfs).

Lemma is_partial_extends P P' b : extends P P' -> is_partial P b -> is_partial P' b.
Proof. intros [HT _] (pn & pfs & Hl). exists pn, pfs. apply HT. exact Hl. Qed.

(* the specification of intersect_pair / intersect_types against one partial type b *)
Definition PSpec (f : registry -> nat -> nat -> option (registry * nat)) (b : nat) : Prop :=
  forall P a P' r, f P a b = Some (P', r) -> FO P a -> FOp P b -> is_partial P b ->
    extends P P' /\ FO P' r /\
    (forall n v, wfv v -> inhab P n [] v a -> inhab P n [] v b -> inhab P' n [] v r).

Section PartialLoops.
  Variable ipair : registry -> nat -> nat -> option (registry * nat).
  Variable b : nat.
  Hypothesis Hpair : PSpec ipair b.

  Lemma isect_outer_partial nid : forall avs P pieces P1 pieces1,
    isect_outer ipair nid [b] P pieces avs = Some (P1, pieces1) ->
    lookup_type P nid = Some (TUnion []) ->
    (forall av, In av avs -> FO P av) -> FOp P b -> is_partial P b -> (forall x, In x pieces -> FO P x) ->
    extends P P1 /\ (forall x, In x pieces1 -> FO P1 x) /\ (forall x, In x pieces -> In x pieces1) /\
    (forall n v av, wfv v -> In av avs -> inhab P n [] v av -> inhab P n [] v b ->
                    exists x, In x pieces1 /\ inhab P1 n [] v x).
  Proof.
    induction avs as [|av avs IH]; intros P pieces P1 pieces1 H Hnid Havs Hb Hbp Hpieces; cbn [isect_outer isect_inner] in H.
    - inversion H; subst. split; [apply extends_refl|]. split; [exact Hpieces|]. split; [auto|]. intros n v av _ [].
    - destruct (ipair P av b) as [[P' piece]|] eqn:Hp; [|discriminate H].
      destruct (Hpair P av P' piece Hp (Havs av (or_introl eq_refl)) Hb Hbp) as (He & Hfo & Hkeep).
      set (pieces' := if Nat.eqb piece nid then pieces else pieces ++ [piece]) in *.
      assert (Hpieces' : forall x, In x pieces' -> FO P' x).
      { intros x Hx. unfold pieces' in Hx. destruct (Nat.eqb piece nid).
        - eapply FO_extends; [exact He|apply Hpieces; exact Hx].
        - apply in_app_or in Hx. destruct Hx as [Hx|[<-|[]]]; [eapply FO_extends; [exact He|apply Hpieces; exact Hx]|exact Hfo]. }
      destruct (IH P' pieces' P1 pieces1 H (proj1 He nid _ Hnid)
                   (fun x Hx => FO_extends _ _ _ He (Havs x (or_intror Hx)))
                   (FOp_extends _ _ _ He Hb) (is_partial_extends _ _ _ He Hbp) Hpieces') as (He2 & Hfo2 & Hinc & Hcov).
      split; [eapply extends_trans; eassumption|]. split; [exact Hfo2|]. split.
      + intros x Hx. apply Hinc. unfold pieces'. destruct (Nat.eqb piece nid); [exact Hx|apply in_or_app; left; exact Hx].
      + intros n v av0 Hw [<-|Hin] Hva Hvb.
        * pose proof (Hkeep n v Hw Hva Hvb) as Hvp.
          destruct (Nat.eqb piece nid) eqn:En.
          { apply Nat.eqb_eq in En. subst piece. exfalso. eapply never_uninhabited; [apply (proj1 He nid _ Hnid)|exact Hvp]. }
          exists piece. split; [apply Hinc; unfold pieces'; rewrite ?En; cbv iota; apply in_or_app; right; left; reflexivity|].
          eapply mem_extends; [exact He2|exact Hfo|exact Hvp].
        * apply (Hcov n v av0 Hw Hin).
          -- eapply mem_extends; [exact He|apply Havs; right; exact Hin|exact Hva].
          -- eapply inhab_extends; [exact He| |exact Hvb].
             eapply fov_of_FO; [apply Havs; right; exact Hin|exact Hva].
  Qed.
End PartialLoops.

Section PartialPattern.
  Variable cfg : rel_cfg.
  Variable rel_fuel : nat.
  Hypothesis Hany : cfg_any_callable cfg = true.
  Hypothesis Hpa : cfg_partial_any cfg = true.

  Lemma overlap_false_no_common_p P a b n v :
    types_overlap cfg rel_fuel P a b = Some false -> FOp P a -> FOp P b -> wfv v ->
    inhab P n [] v a -> inhab P n [] v b -> False.
  Proof.
    unfold types_overlap, types_overlap_with. intros H Ha Hb Hw Hva Hvb.
    destruct (check_rel cfg P Any rel_fuel [] [] [] a b) as [[r A1]|] eqn:Hc; [|discriminate]. cbn in H.
    inversion H; subst r.
    eapply (overlap_false_disjoint_p cfg P Hany Hpa rel_fuel [] [] [] a b A1 Ha Hb Hc); eassumption.
  Qed.

  Lemma intersect_pair_partial f b : PSpec (intersect_pair cfg rel_fuel (S f)) b.
  Proof.
    intros P a P' r H Ha Hb (pn & pfs & Hlb). rewrite intersect_pair_S in H.
    destruct (Nat.eqb a b) eqn:Eab.
    { injection H as HP Hr; subst P' r. split; [apply extends_refl|]. split; [exact Ha|]. intros n v _ Hva _. exact Hva. }
    destruct (never P) as [P0 nid] eqn:Hn. destruct (never_spec _ _ _ Hn) as [He0 Hlnid].
    pose proof (FO_extends _ _ _ He0 Ha) as Ha0. pose proof (FOp_extends _ _ _ He0 Hb) as Hb0.
    pose proof (proj1 He0 _ _ Hlb) as Hlb0.
    assert (Hdefault : match types_overlap cfg rel_fuel P0 a b with
                       | Some true => Some (P0, a) | Some false => Some (P0, nid) | None => None end = Some (P', r) ->
              extends P P' /\ FO P' r /\ (forall n v, wfv v -> inhab P n [] v a -> inhab P n [] v b -> inhab P' n [] v r)).
    { intros Hd. destruct (types_overlap cfg rel_fuel P0 a b) as [[|]|] eqn:Hov;
        [injection Hd as HP Hr; subst P' r|injection Hd as HP Hr; subst P' r|discriminate Hd].
      - split; [exact He0|]. split; [exact Ha0|]. intros n v _ Hva _. eapply mem_extends; eassumption.
      - split; [exact He0|]. split; [apply FO_never; exact Hlnid|]. intros n v Hw Hva Hvb. exfalso.
        eapply (overlap_false_no_common_p P0 a b n v Hov (FO_FOp _ _ Ha0) Hb0 Hw).
        + exact (mem_extends _ _ _ _ _ He0 Ha Hva).
        + eapply inhab_extends; [exact He0|exact (fov_of_FO P n a Ha [] v Hva)|exact Hvb]. }
    inversion Ha0 as [? Hla|? Hla|? Hla|? ? Hla|? vsa Hla Hvsa|? tid1 info1 Hla Ht1 Hfs1]; subst;
      rewrite Hla, Hlb0 in H; cbn in H; apply Hdefault; exact H.
  Qed.
End PartialPattern.

Theorem intersect_keeps_partial_pattern : forall cfg rel_fuel fuel P a b P' r pn pfs,
  cfg_any_callable cfg = true -> cfg_partial_any cfg = true ->
  fo_domain P a = true ->
  lookup_type P b = Some (TPartial pn pfs) -> (forall f, In f pfs -> fo_domain P (snd f) = true) ->
  intersect_types cfg rel_fuel fuel P a b = Some (P', r) ->
  extends P P' /\ forall n v, wfv v -> inhab P n [] v a -> inhab P n [] v b -> inhab P' n [] v r.
Proof.
  intros cfg rel_fuel fuel P a b P' r pn pfs Hany Hpa Da Hlb Dfs H.
  pose proof (fob_FO _ _ _ Da) as Ha.
  assert (Hb : FOp P b).
  { eapply FOp_partial; [exact Hlb|]. intros f Hf. apply FO_FOp. eapply fob_FO. apply Dfs. exact Hf. }
  assert (Hbp : is_partial P b) by (exists pn, pfs; exact Hlb).
  destruct fuel as [|f0]; [discriminate H|].
  assert (Hpair : PSpec (intersect_pair cfg rel_fuel f0) b).
  { destruct f0 as [|f]; [intros P1 a1 P1' r1 H1; discriminate H1|apply intersect_pair_partial; assumption]. }
  rewrite intersect_types_S in H.
  destruct (never P) as [P0 nid] eqn:Hn. destruct (never_spec _ _ _ Hn) as [He0 Hlnid].
  assert (Hvb : get_type_variants P b = [b]) by (unfold get_type_variants; rewrite Hlb; reflexivity).
  rewrite Hvb in H.
  destruct (isect_outer (intersect_pair cfg rel_fuel f0) nid [b] P0 [] (get_type_variants P a)) as [[P1 pieces]|] eqn:Ho; [|discriminate H].
  destruct (isect_outer_partial _ b Hpair nid (get_type_variants P a) P0 [] P1 pieces Ho Hlnid
              (fun x Hx => FO_extends _ _ _ He0 (variants_FO P a Ha x Hx))
              (FOp_extends _ _ _ He0 Hb) (is_partial_extends _ _ _ He0 Hbp)
              (fun x (Hx : In x []) => match Hx with end)) as (He1 & Hfo1 & _ & Hcov).
  destruct (union_type_ids P1 pieces) as [P2 r2] eqn:Hu. injection H as HP Hr; subst P2 r2.
  destruct (union_type_ids_keeps P1 pieces P' r Hfo1 Hu) as (He2 & _ & Hkeep).
  split; [eapply extends_trans; [exact He0|eapply extends_trans; eassumption]|].
  intros n v Hw Hva Hvb'.
  destruct (variants_cover P a n v Ha Hva) as [av [Hav Hvav]].
  destruct (Hcov n v av Hw Hav
              (mem_extends _ _ _ _ _ He0 (variants_FO P a Ha av Hav) Hvav)
              (inhab_extends _ _ He0 n [] v b (fov_of_FO P n a Ha [] v Hva) Hvb')) as [x [Hx Hvx]].
  eapply Hkeep; eassumption.
Qed.

(* ---------------------------------------------------------------- compute_complement against a partial pattern *)
(* a partial type whose field types are first-order cycle-free *)
Definition PartialFO (P : registry) (b : nat) : Prop :=
  exists pn pfs, lookup_type P b = Some (TPartial pn pfs) /\ forall f, In f pfs -> FO P (snd f).

Lemma PartialFO_extends P P' b : extends P P' -> PartialFO P b -> PartialFO P' b.
Proof.
  intros He (pn & pfs & Hl & Hf). exists pn, pfs. split; [apply (proj1 He); exact Hl|].
  intros f Hin. eapply FO_extends; [exact He|apply Hf; exact Hin].
Qed.

Lemma PartialFO_CF P b : PartialFO P b -> CF P true b.
Proof.
  intros (pn & pfs & Hl & Hf). eapply CF_partial; [exact Hl|left; reflexivity|].
  intros f Hin. apply FO_CF. apply Hf. exact Hin.
Qed.

(* membership in the partial type does not depend on later registrations *)
Lemma partial_reflects P P' b : extends P P' -> PartialFO P b ->
  forall n E v, inhab P' n E v b -> inhab P n E v b.
Proof.
  intros He (pn & pfs & Hl & Hf) n E v H. destruct n; [destruct H|]. cbn [inhab] in *.
  pose proof (proj1 He _ _ Hl) as Hl'.
  inversion H as [| | | | | | | |? ? pname pfields name fs Hlt Hname Hfields| |]; subst; try congruence.
  rewrite Hl' in Hlt. inversion Hlt; subst pname pfields.
  eapply Inh_partial; [exact Hl|exact Hname|].
  intros l ft Hin. destruct (Hfields l ft Hin) as [fv [Hfv Hm]]. exists fv. split; [exact Hfv|].
  eapply mem_reflects; [exact He|apply (Hf (l, ft)); exact Hin|exact Hm].
Qed.

Definition PSSpec (f : registry -> nat -> nat -> option (registry * list nat)) (b : nat) : Prop :=
  forall P a P' out, f P a b = Some (P', out) -> wfreg P -> FO P a -> PartialFO P b ->
    extends P P' /\ wfreg P' /\ (forall x, In x out -> FO P' x) /\
    (forall n v, inhab P n [] v a -> ~ inhab P n [] v b -> exists x, In x out /\ inhab P' n [] v x).

Section PartialComplementLoop.
  Variable sub1 : registry -> nat -> nat -> option (registry * list nat).
  Variable b : nat.
  Hypothesis Hsub : PSSpec sub1 b.

  Lemma compl_per_piece_partial : forall pieces P next P1 next1,
    compl_per_piece sub1 P next pieces b = Some (P1, next1) ->
    wfreg P -> PartialFO P b -> (forall x, In x pieces -> FO P x) -> (forall x, In x next -> FO P x) ->
    extends P P1 /\ (forall x, In x next1 -> FO P1 x) /\ (forall x, In x next -> In x next1) /\
    (forall n v piece, In piece pieces -> inhab P n [] v piece -> ~ inhab P n [] v b ->
                       exists x, In x next1 /\ inhab P1 n [] v x).
  Proof.
    induction pieces as [|piece pieces IH]; intros P next P1 next1 H Hw Hb Hpieces Hnext; cbn in H.
    - inversion H; subst. split; [apply extends_refl|]. split; [exact Hnext|]. split; [auto|]. intros n v p [].
    - destruct (sub1 P piece b) as [[P' out]|] eqn:Hs; [|discriminate].
      destruct (Hsub P piece P' out Hs Hw (Hpieces piece (or_introl eq_refl)) Hb) as (He & Hw' & Hout & Hcov).
      assert (Hnext' : forall x, In x (next ++ out) -> FO P' x).
      { intros x Hx. apply in_app_or in Hx. destruct Hx as [Hx|Hx]; [eapply FO_extends; [exact He|apply Hnext; exact Hx]|apply Hout; exact Hx]. }
      destruct (IH P' (next ++ out) P1 next1 H Hw' (PartialFO_extends _ _ _ He Hb)
                   (fun x Hx => FO_extends _ _ _ He (Hpieces x (or_intror Hx))) Hnext') as (He2 & Hfo2 & Hinc & Hcov2).
      split; [eapply extends_trans; eassumption|]. split; [exact Hfo2|]. split.
      + intros x Hx. apply Hinc. apply in_or_app. left; exact Hx.
      + intros n v p [<-|Hp] Hvp Hnvn.
        * destruct (Hcov n v Hvp Hnvn) as [x [Hx Hvx]]. exists x. split; [apply Hinc; apply in_or_app; right; exact Hx|].
          eapply mem_extends; [exact He2|apply Hout; exact Hx|exact Hvx].
        * apply (Hcov2 n v p Hp).
          { eapply mem_extends; [exact He|apply Hpieces; right; exact Hp|exact Hvp]. }
          { intros Hc. apply Hnvn. eapply partial_reflects; [exact He|exact Hb|exact Hc]. }
  Qed.
End PartialComplementLoop.

Section PartialComplement.
  Variable cfg : rel_cfg.
  Variable rel_fuel : nat.
  Hypothesis Hretract : cfg_retract cfg = true.
  Hypothesis Hpn : cfg_partial_name cfg = true.

  (* the `is_compatible` shortcut of subtract_one is sound against a partial type (F29 repair) *)
  Lemma compatible_contains_p P a b n v :
    wfreg P -> FO P a -> PartialFO P b -> is_compatible cfg rel_fuel P a b = Some true ->
    inhab P n [] v a -> inhab P n [] v b.
  Proof.
    intros (Htopo & _ & _) Ha Hb H Hv. unfold is_compatible, is_compatible_with in H.
    destruct (check_rel cfg P All rel_fuel [] [] [] a b) as [[r A1]|] eqn:Hc; [|discriminate]. cbn in H.
    inversion H; subst r.
    destruct (check_sound cfg P true Hretract (or_introl Hpn) Htopo rel_fuel [] [] [] a b true A1
                (FO_CF P true a Ha) (PartialFO_CF P b Hb) (fun k (Hin : In k []) => match Hin with end) Hc) as [_ Hsub].
    eapply (Hsub eq_refl). exact Hv.
  Qed.

  Lemma subtract_one_partial f b : PSSpec (subtract_one cfg rel_fuel (S f)) b.
  Proof.
    intros P a P' out H Hw Ha Hb. pose proof Hb as (pn & pfs & Hlb & Hfb).
    rewrite (subtract_one_S cfg rel_fuel) in H.
    assert (Hkeep_P : extends P P /\ wfreg P /\ (forall x, In x [a] -> FO P x) /\
                      (forall n v, inhab P n [] v a -> ~ inhab P n [] v b -> exists x, In x [a] /\ inhab P n [] v x)).
    { split; [apply extends_refl|]. split; [exact Hw|]. split; [intros x [<-|[]]; exact Ha|].
      intros n v Hva _. exists a. split; [left; reflexivity|exact Hva]. }
    destruct (Nat.eqb a b) eqn:Eab.
    { apply Nat.eqb_eq in Eab. subst b. exfalso. inversion Ha; congruence. }
    destruct (never P) as [P0 nid] eqn:Hn. destruct (never_spec _ _ _ Hn) as [He0 Hlnid].
    assert (Hkeep_P0 : extends P P0 /\ wfreg P0 /\ (forall x, In x [a] -> FO P0 x) /\
                       (forall n v, inhab P n [] v a -> ~ inhab P n [] v b -> exists x, In x [a] /\ inhab P0 n [] v x)).
    { split; [exact He0|]. split; [eapply wf_never; eassumption|]. split; [intros x [<-|[]]; eapply FO_extends; eassumption|].
      intros n v Hva _. exists a. split; [left; reflexivity|eapply mem_extends; eassumption]. }
    inversion Ha as [? Hla|? Hla|? Hla|? ? Hla|? vsa Hla Hvsa|? tid1 info1 Hla Ht1 Hfs1]; subst;
      rewrite Hla, Hlb in H; cbn [is_cycle_ty orb] in H; cbv beta iota in H;
      (destruct (cyclic cfg rel_fuel P a) as [ca|]; [|discriminate H]);
      (destruct (if ca then Some true else cyclic cfg rel_fuel P b) as [cyc|]; [|discriminate H]);
      (destruct cyc; cbv beta iota in H;
       [injection H as HP Hout; subst P' out; exact Hkeep_P0|]);
      (destruct (is_compatible cfg rel_fuel P a b) as [[|]|] eqn:Hab; cbv beta iota in H; [| |discriminate H]);
      try (injection H as HP Hout; subst P' out;
           split; [apply extends_refl|]; split; [exact Hw|]; split; [intros x []|];
           intros n v Hva Hnvb; exfalso; apply Hnvb; eapply compatible_contains_p; eassumption);
      (destruct (types_overlap cfg rel_fuel P a b) as [[|]|]; cbv beta iota in H; [| |discriminate H]);
      injection H as HP Hout; subst P' out; first [exact Hkeep_P0|exact Hkeep_P].
  Qed.
End PartialComplement.

Theorem complement_keeps_partial_pattern : forall cfg rel_fuel fuel P o b P' r pn pfs,
  cfg_retract cfg = true -> cfg_partial_name cfg = true -> wfregb P = true ->
  fo_domain P o = true ->
  lookup_type P b = Some (TPartial pn pfs) -> (forall f, In f pfs -> fo_domain P (snd f) = true) ->
  compute_complement cfg rel_fuel fuel P o b = Some (P', r) ->
  extends P P' /\ forall n v, inhab P n [] v o -> ~ inhab P n [] v b -> inhab P' n [] v r.
Proof.
  intros cfg rel_fuel fuel P o b P' r pn pfs Hret Hpn Hwb Do Hlb Dfs H.
  pose proof (fob_FO _ _ _ Do) as Ho. pose proof (wfregb_wfreg _ Hwb) as Hw.
  assert (Hb : PartialFO P b).
  { exists pn, pfs. split; [exact Hlb|]. intros f Hf. eapply fob_FO. apply Dfs. exact Hf. }
  destruct fuel as [|f0]; [discriminate H|].
  assert (Hsub : PSSpec (subtract_one cfg rel_fuel f0) b).
  { destruct f0 as [|f]; [intros P1 a1 P1' o1 H1; discriminate H1|apply subtract_one_partial; assumption]. }
  rewrite (compute_complement_S cfg rel_fuel) in H.
  assert (Hvb : get_type_variants P b = [b]) by (unfold get_type_variants; rewrite Hlb; reflexivity).
  rewrite Hvb in H. cbn [compl_per_nv] in H.
  destruct (compl_per_piece (subtract_one cfg rel_fuel f0) P [] (get_type_variants P o) b) as [[P1 pieces]|] eqn:Hpp; [|discriminate H].
  destruct (compl_per_piece_partial _ b Hsub (get_type_variants P o) P [] P1 pieces Hpp Hw Hb
              (variants_FO P o Ho) (fun x (Hx : In x []) => match Hx with end)) as (He1 & Hfo1 & _ & Hcov).
  destruct (union_type_ids P1 pieces) as [P2 r2] eqn:Hu. injection H as HP Hr; subst P2 r2.
  destruct (union_type_ids_keeps P1 pieces P' r Hfo1 Hu) as (He2 & _ & Hkeep).
  split; [eapply extends_trans; eassumption|].
  intros n v Hvo Hnvb.
  destruct (variants_cover P o n v Ho Hvo) as [ov [Hov Hvov]].
  destruct (Hcov n v ov Hov Hvov Hnvb) as [x [Hx Hvx]].
  eapply Hkeep; eassumption.
Qed.
