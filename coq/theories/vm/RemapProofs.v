(* RemapProofs.v — what the renaming validator guarantees (C10).

   `is_renaming rho X X' = true`  implies a LOCK-STEP simulation between the machine of vm/Vm.v
   running `project X` and the one running `project X'`: related states (values, frames mapped
   through rho) step to related states, with the same fault if any — including the verdicts of
   IsType and Equal when they are computed from each program's own run-time tables. *)
From Quiver Require Import vm.Remap.
Require Quiver.EqualProofs.

Ltac inv H := inversion H; subst; clear H.

(* ------------------------------------------------------------------ boolean checks, specified *)

Lemma list_eqb_eq {A} (eqb : A -> A -> bool) :
  (forall a b, eqb a b = true -> a = b) -> forall x y, list_eqb eqb x y = true -> x = y.
Proof.
  intros E x. induction x as [|a x IH]; intros [|b y] H; cbn [list_eqb] in H; try discriminate; [reflexivity|].
  apply andb_true_iff in H. destruct H as [H1 H2]. f_equal; [apply E; exact H1 | apply IH; exact H2].
Qed.

Lemma str_eqb_eq x y : str_eqb x y = true -> x = y.
Proof. apply list_eqb_eq. intros a b H. apply Z.eqb_eq. exact H. Qed.

Lemma ostr_eqb_eq x y : ostr_eqb x y = true -> x = y.
Proof.
  destruct x as [a|], y as [b|]; cbn; intros H; try discriminate; [|reflexivity].
  f_equal. apply str_eqb_eq. exact H.
Qed.

Lemma maps_to_spec m i j : maps_to m i j = true <-> app m i = Some j.
Proof.
  unfold maps_to, onat_eqb, option_eqb. destruct (app m i) as [k|]; split; intros H; try discriminate.
  - apply Nat.eqb_eq in H. congruence.
  - inv H. apply Nat.eqb_refl.
Qed.

Lemma forall_from_spec m chk : forall i0, forall_from i0 m chk = true ->
  forall i j, nth_error m i = Some (Some j) -> chk (i0 + i) j = true.
Proof.
  induction m as [|o m IH]; intros i0 H i j E; [destruct i; discriminate|].
  cbn [forall_from] in H. apply andb_true_iff in H. destruct H as [H1 H2].
  destruct i as [|i]; cbn [nth_error] in E.
  - inv E. rewrite Nat.add_0_r. exact H1.
  - replace (i0 + S i) with (S i0 + i) by lia. eapply IH; eauto.
Qed.

Lemma forall_map_spec m chk : forall_map m chk = true -> forall i j, app m i = Some j -> chk i j = true.
Proof.
  intros H i j E. unfold app in E. destruct (nth_error m i) as [o|] eqn:En; [|discriminate]. subst o.
  exact (forall_from_spec m chk 0 H i j En).
Qed.

Lemma forall2b_Forall2 {A B} (p : A -> B -> bool) x : forall y,
  forall2b p x y = true -> Forall2 (fun a b => p a b = true) x y.
Proof.
  induction x as [|a x IH]; intros [|b y] H; cbn [forall2b] in H; try discriminate; [constructor|].
  apply andb_true_iff in H. destruct H. constructor; auto.
Qed.

Lemma instr_eqb_eq i j : instr_eqb i j = true -> i = j.
Proof.
  destruct i, j; cbn [instr_eqb]; intros H; try discriminate; try reflexivity;
    try (apply Nat.eqb_eq in H; congruence); try (apply Z.eqb_eq in H; congruence).
  - apply Bool.eqb_prop in H. congruence.
  - apply andb_true_iff in H. destruct H as [H1 H2]. apply Nat.eqb_eq in H1. apply Nat.eqb_eq in H2. congruence.
Qed.

(* ------------------------------------------------------------------ list helpers *)

Lemma Forall2_nth {A B} (R : A -> B -> Prop) l l' : Forall2 R l l' ->
  forall n, match nth_error l n, nth_error l' n with
            | Some a, Some b => R a b
            | None, None => True
            | _, _ => False
            end.
Proof.
  induction 1 as [|a b l l' Hab Hl IH]; intros [|n]; cbn [nth_error]; auto. apply IH.
Qed.

Lemma Forall2_nth_some {A B} (R : A -> B -> Prop) l l' n a : Forall2 R l l' ->
  nth_error l n = Some a -> exists b, nth_error l' n = Some b /\ R a b.
Proof.
  intros H E. pose proof (Forall2_nth R l l' H n) as G. rewrite E in G.
  destruct (nth_error l' n) as [b|]; [eauto | contradiction].
Qed.

Lemma Forall2_nth_none {A B} (R : A -> B -> Prop) l l' n : Forall2 R l l' ->
  nth_error l n = None -> nth_error l' n = None.
Proof.
  intros H E. pose proof (Forall2_nth R l l' H n) as G. rewrite E in G.
  destruct (nth_error l' n); [contradiction | reflexivity].
Qed.

Lemma Forall2_len {A B} (R : A -> B -> Prop) l l' : Forall2 R l l' -> length l = length l'.
Proof. induction 1; cbn; congruence. Qed.

Lemma Forall2_firstn {A B} (R : A -> B -> Prop) n : forall l l', Forall2 R l l' -> Forall2 R (firstn n l) (firstn n l').
Proof. induction n as [|n IH]; intros l l' H; cbn; [constructor|]. inv H; constructor; auto. Qed.

Lemma Forall2_skipn {A B} (R : A -> B -> Prop) n : forall l l', Forall2 R l l' -> Forall2 R (skipn n l) (skipn n l').
Proof. induction n as [|n IH]; intros l l' H; cbn; [exact H|]. inv H; [constructor | auto]. Qed.

Lemma Forall2_snoc {A B} (R : A -> B -> Prop) l l' a b : Forall2 R l l' -> R a b -> Forall2 R (l ++ [a]) (l' ++ [b]).
Proof. intros H Hab. apply Forall2_app; [exact H | constructor; [exact Hab | constructor]]. Qed.

Lemma popn_rel {R : value -> value -> Prop} n : forall st st' acc acc',
  Forall2 R st st' -> Forall2 R acc acc' ->
  match popn n st acc, popn n st' acc' with
  | Some (vs, r), Some (vs', r') => Forall2 R vs vs' /\ Forall2 R r r'
  | None, None => True
  | _, _ => False
  end.
Proof.
  induction n as [|n IH]; intros st st' acc acc' Hs Ha; cbn [popn]; [auto|].
  inv Hs; [exact I|]. apply IH; [assumption | constructor; assumption].
Qed.

Lemma nth_error_map_some {A B} (f : A -> B) l n a : nth_error l n = Some a -> nth_error (map f l) n = Some (f a).
Proof. intros H. rewrite nth_error_map, H. reflexivity. Qed.

(* ------------------------------------------------------------------ the facts a validated renaming provides *)
Section SIM.
Variable rho : renaming.
Variable X X' : xprogram.
Hypothesis HR : struct_ok rho X X' = true.

Let P := project X.
Let P' := project X'.

Record facts : Prop := {
  F_entry : app (r_f rho) (x_entry X) = Some (x_entry X');
  F_nil : app (r_t rho) NIL = Some NIL;
  F_ok : app (r_t rho) OK = Some OK;
  F_nil_only : forall t, app (r_t rho) t = Some NIL -> t = NIL;
  F_fun : forall f f', app (r_f rho) f = Some f' -> chk_fun rho X X' f f' = true;
  F_const : forall k k', app (r_c rho) k = Some k' -> chk_const X X' k k' = true;
  F_tuple : forall t t', app (r_t rho) t = Some t' -> chk_tuple rho X X' t t' = true;
  F_type : forall y y', app (r_y rho) y = Some y' -> chk_type rho X X' y y' = true;
  F_builtin : forall b b', app (r_b rho) b = Some b' -> chk_builtin rho X X' b b' = true;
  F_res : forall r r', app (r_r rho) r = Some r' -> chk_res X X' r r' = true;
  F_inj_f : forall f f', app (r_f rho) f = Some f' -> app (i_f rho) f' = Some f;
  F_inj_b : forall b b', app (r_b rho) b = Some b' -> app (i_b rho) b' = Some b
}.

Lemma the_facts : facts.
Proof.
  pose proof HR as H. unfold struct_ok in H.
  apply andb_true_iff in H as [H Hinjb].
  apply andb_true_iff in H as [H Hinjf].
  apply andb_true_iff in H as [H Hres].
  apply andb_true_iff in H as [H Hbuiltin].
  apply andb_true_iff in H as [H Htype].
  apply andb_true_iff in H as [H Htuple].
  apply andb_true_iff in H as [H Hconst].
  apply andb_true_iff in H as [H Hfun].
  apply andb_true_iff in H as [H Hnilonly].
  apply andb_true_iff in H as [H Hok].
  apply andb_true_iff in H as [Hentry Hnil].
  constructor; try assumption.
  - apply maps_to_spec; assumption.
  - apply maps_to_spec; assumption.
  - apply maps_to_spec; assumption.
  - intros t E. pose proof (forall_map_spec _ _ Hnilonly _ _ E) as G. cbn in G. apply Nat.eqb_eq in G. exact G.
  - apply forall_map_spec; assumption.
  - apply forall_map_spec; assumption.
  - apply forall_map_spec; assumption.
  - apply forall_map_spec; assumption.
  - apply forall_map_spec; assumption.
  - apply forall_map_spec; assumption.
  - intros f f' E. apply maps_to_spec. exact (forall_map_spec _ _ Hinjf _ _ E).
  - intros b b' E. apply maps_to_spec. exact (forall_map_spec _ _ Hinjb _ _ E).
Qed.

Let FX := the_facts.

(* injectivity where identity is compared *)
Lemma inj_f f g f' : app (r_f rho) f = Some f' -> app (r_f rho) g = Some f' -> f = g.
Proof. intros A B. apply (F_inj_f FX) in A. apply (F_inj_f FX) in B. congruence. Qed.
Lemma inj_b f g f' : app (r_b rho) f = Some f' -> app (r_b rho) g = Some f' -> f = g.
Proof. intros A B. apply (F_inj_b FX) in A. apply (F_inj_b FX) in B. congruence. Qed.

(* what instr_img says, per instruction *)
Lemma instr_ok_inv i i' : instr_img rho i i' = true ->
  match i with
  | IConstant k => exists k', app (r_c rho) k = Some k' /\ i' = IConstant k'
  | ITuple t => exists t', app (r_t rho) t = Some t' /\ i' = ITuple t'
  | IIsType y => exists y', app (r_y rho) y = Some y' /\ i' = IIsType y' /\ True
  | IFunction f => exists f', app (r_f rho) f = Some f' /\ i' = IFunction f'
  | IBuiltin b => exists b', app (r_b rho) b = Some b' /\ i' = IBuiltin b'
  | IProcess pid f => exists f', app (r_f rho) f = Some f' /\ i' = IProcess pid f'
  | other => i' = other
  end.
Proof.
  unfold instr_img. intros H1.
  destruct (ren_instr rho i) as [j|] eqn:E; [|discriminate]. apply instr_eqb_eq in H1. subst j.
  destruct i; cbn [ren_instr] in E; try (inv E; reflexivity).
  - destruct (app (r_c rho) k) as [k'|]; inv E. eauto.
  - destruct (app (r_t rho) t) as [k'|]; inv E. eauto.
  - destruct (app (r_y rho) t) as [k'|]; inv E. exists k'. repeat split.
  - destruct (app (r_f rho) f) as [k'|]; inv E. eauto.
  - destruct (app (r_b rho) b) as [k'|]; inv E. eauto.
  - destruct (app (r_f rho) f) as [k'|]; inv E. eauto.
Qed.

Lemma fun_facts f f' : app (r_f rho) f = Some f' ->
  exists fd fd', nth_error (x_funcs X) f = Some fd /\ nth_error (x_funcs X') f' = Some fd' /\
                 xf_caps fd = xf_caps fd' /\
                 Forall2 (fun i j => instr_img rho i j = true) (xf_code fd) (xf_code fd').
Proof.
  intros E. pose proof (F_fun FX _ _ E) as H. unfold chk_fun in H.
  destruct (nth_error (x_funcs X) f) as [fd|]; [|discriminate].
  destruct (nth_error (x_funcs X') f') as [fd'|]; [|discriminate].
  apply andb_true_iff in H. destruct H as [H H3]. apply andb_true_iff in H. destruct H as [H1 H2].
  apply Nat.eqb_eq in H1. exists fd, fd'. repeat split; auto. apply forall2b_Forall2. exact H2.
Qed.

Lemma fun_defined f f' : app (r_f rho) f = Some f' ->
  exists fd fd', nth_error (p_funcs P) f = Some fd /\ nth_error (p_funcs P') f' = Some fd' /\ f_caps fd = f_caps fd'.
Proof.
  intros E. destruct (fun_facts _ _ E) as (fd & fd' & A & B & C & _).
  exists (erase_func fd), (erase_func fd'). unfold P, P', project; cbn [p_funcs].
  repeat split; try (apply nth_error_map_some; assumption). exact C.
Qed.

Lemma tuple_facts t t' : app (r_t rho) t = Some t' ->
  exists a a', nth_error (x_tuples X) t = Some a /\ nth_error (x_tuples X') t' = Some a' /\
               xt_name a = xt_name a' /\ map fst (xt_fields a) = map fst (xt_fields a') /\ arity a = arity a'.
Proof.
  intros E. pose proof (F_tuple FX _ _ E) as H. unfold chk_tuple in H.
  destruct (nth_error (x_tuples X) t) as [a|]; [|discriminate].
  destruct (nth_error (x_tuples X') t') as [a'|]; [|discriminate].
  apply andb_true_iff in H. destruct H as [H1 H2]. apply ostr_eqb_eq in H1. apply forall2b_Forall2 in H2.
  exists a, a'. repeat split; auto.
  - clear -H2. induction H2 as [|p q l l' Hpq _ IH]; [reflexivity|]. cbn [map]. f_equal; [|exact IH].
    apply andb_true_iff in Hpq. destruct Hpq as [Hl _]. apply ostr_eqb_eq. exact Hl.
  - unfold arity. eapply Forall2_len; eauto.
Qed.

Lemma tuple_arity t t' : app (r_t rho) t = Some t' ->
  exists n, nth_error (p_tuples P) t = Some n /\ nth_error (p_tuples P') t' = Some n.
Proof.
  intros E. destruct (tuple_facts _ _ E) as (a & a' & A & B & _ & _ & C).
  exists (arity a). unfold P, P', project; cbn [p_tuples]. split.
  - apply nth_error_map_some. exact A.
  - rewrite C. apply nth_error_map_some. exact B.
Qed.

Lemma const_facts k k' : app (r_c rho) k = Some k' ->
  exists c, nth_error (p_consts P) k = Some c /\ nth_error (p_consts P') k' = Some c.
Proof.
  intros E. pose proof (F_const FX _ _ E) as H. unfold chk_const in H.
  destruct (nth_error (x_consts X) k) as [c|] eqn:A; [|discriminate].
  destruct (nth_error (x_consts X') k') as [c'|] eqn:B; [|discriminate].
  exists (erase_const c). unfold P, P', project; cbn [p_consts]. split; [apply nth_error_map_some; exact A|].
  rewrite (nth_error_map_some erase_const _ _ _ B). f_equal.
  destruct c, c'; cbn in H; try discriminate; cbn [erase_const]; [|reflexivity].
  apply Z.eqb_eq in H. congruence.
Qed.

Lemma builtin_range b b' : app (r_b rho) b = Some b' -> b < p_nbuiltins P /\ b' < p_nbuiltins P'.
Proof.
  intros E. pose proof (F_builtin FX _ _ E) as H. unfold chk_builtin in H.
  destruct (nth_error (x_builtins X) b) as [a|] eqn:A; [|discriminate].
  destruct (nth_error (x_builtins X') b') as [a'|] eqn:B; [|discriminate].
  unfold P, P', project; cbn [p_nbuiltins]. split; apply nth_error_Some; congruence.
Qed.

(* ------------------------------------------------------------------ related values, frames, states *)

Inductive vrel : value -> value -> Prop :=
| VR_int z : vrel (VInt z) (VInt z)
| VR_bin h : vrel (VBin h) (VBin h)
| VR_ref r : vrel (VRef r) (VRef r)
| VR_tuple t t' fs fs' : app (r_t rho) t = Some t' -> Forall2 vrel fs fs' -> vrel (VTuple t fs) (VTuple t' fs')
| VR_fun f f' cs cs' : app (r_f rho) f = Some f' -> Forall2 vrel cs cs' -> vrel (VFun f cs) (VFun f' cs')
| VR_builtin b b' : app (r_b rho) b = Some b' -> vrel (VBuiltin b) (VBuiltin b')
| VR_proc p f f' : app (r_f rho) f = Some f' -> vrel (VProc p f) (VProc p f')
| VR_res r ty ty' : app (r_r rho) ty = Some ty' -> vrel (VRes r ty) (VRes r ty').

Definition frel (a b : frame) : Prop :=
  app (r_f rho) (fr_fn a) = Some (fr_fn b) /\ fr_base a = fr_base b /\ fr_caps a = fr_caps b /\ fr_pc a = fr_pc b.

Record srel (s s' : state) : Prop := {
  sr_stack : Forall2 vrel (stack s) (stack s');
  sr_locals : Forall2 vrel (locals s) (locals s');
  sr_frames : Forall2 frel (frames s) (frames s');
  sr_pers : persistent s = persistent s'
}.

Definition orel (o o' : option value) : Prop :=
  match o, o' with Some v, Some v' => vrel v v' | None, None => True | _, _ => False end.

(* outside inputs: the same, up to the renaming of the ids their values carry *)
Definition xrel (x x' : ext) : Prop := orel (x_value x) (x_value x') /\ x_bool x = x_bool x'.

Definition rrel (r r' : sres) : Prop :=
  match r, r' with
  | Next s, Next s' => srel s s'
  | Finished v s, Finished v' s' => vrel v v' /\ srel s s'
  | Fault f, Fault f' => f = f'
  | _, _ => False
  end.

Lemma vrel_nil : vrel vnil vnil.
Proof. constructor; [exact (F_nil FX) | constructor]. Qed.
Lemma vrel_ok : vrel vok vok.
Proof. constructor; [exact (F_ok FX) | constructor]. Qed.
Lemma vrel_bool (b : bool) : vrel (if b then vok else vnil) (if b then vok else vnil).
Proof. destruct b; [apply vrel_ok | apply vrel_nil]. Qed.

Lemma is_nil_rel v v' : vrel v v' -> is_nil v = is_nil v'.
Proof.
  intros H. inv H; cbn [is_nil]; try reflexivity.
  match goal with H : Forall2 vrel _ _ |- _ => inv H end; [|reflexivity].
  destruct (Nat.eqb t NIL) eqn:E1.
  - apply Nat.eqb_eq in E1. subst t. rewrite (F_nil FX) in H0. inv H0. reflexivity.
  - destruct (Nat.eqb t' NIL) eqn:E2; [|reflexivity].
    apply Nat.eqb_eq in E2. subst t'. apply (F_nil_only FX) in H0. subst t. discriminate.
Qed.

Lemma frel_set_pc a b n : frel a b -> frel (set_pc a n) (set_pc b n).
Proof. intros (A & B & C & D). unfold frel, set_pc; cbn. auto. Qed.

Lemma bump_rel s s' : srel s s' -> srel (bump s) (bump s').
Proof.
  intros [Hs Hl Hf Hp]. unfold bump.
  destruct (frames s) as [|fr rest] eqn:E, (frames s') as [|fr' rest'] eqn:E'; inv Hf.
  - constructor; auto. rewrite E, E'. constructor.
  - constructor; cbn [stack locals frames persistent]; auto.
    constructor; [|assumption]. destruct H2 as (A & B & C & D). rewrite D. apply frel_set_pc. repeat split; auto.
Qed.

Lemma last_rel l l' d d' : Forall2 frel l l' -> frel d d' -> frel (last l d) (last l' d').
Proof.
  induction 1 as [|a b l l' Hab Hl IH]; intros Hd; [exact Hd|].
  cbn [last]. inv Hl; [exact Hab|]. apply IH. exact Hd.
Qed.

Lemma code_rel f f' : app (r_f rho) f = Some f' ->
  exists code code', code_of P f = Some code /\ code_of P' f' = Some code' /\
                     Forall2 (fun i j => instr_img rho i j = true) code code'.
Proof.
  intros E. destruct (fun_facts _ _ E) as (fd & fd' & A & B & _ & D).
  exists (xf_code fd), (xf_code fd'). unfold code_of, P, P', project; cbn [p_funcs].
  rewrite (nth_error_map_some erase_func _ _ _ A), (nth_error_map_some erase_func _ _ _ B). auto.
Qed.

(*STEP*)
(* ------------------------------------------------------------------ one step *)

Ltac red_state :=
  cbn [rrel bump with_stack with_locals with_frames frames stack locals persistent set_pc
       fr_fn fr_base fr_caps fr_pc x_value x_bool].

Ltac solve_frel :=
  unfold frel; cbn [set_pc fr_fn fr_base fr_caps fr_pc]; repeat split; try assumption; try congruence; try reflexivity.

Ltac solve_srel :=
  red_state; constructor; red_state;
  [ repeat (first [assumption | apply vrel_bool | constructor]); try assumption
  | try assumption
  | repeat (first [assumption | constructor; [solve_frel|] | constructor]); try assumption
  | reflexivity ].

Ltac inv_st H v v' sp sq Hv Hsp := inversion H as [| v v' sp sq Hv Hsp]; subst; clear H.
Ltac inv_v H :=
  let t := fresh "t" in let t' := fresh "t'" in let fs := fresh "fs" in let fs' := fresh "fs'" in
  let Ht := fresh "Ht" in let Hfs := fresh "Hfs" in
  let g := fresh "g" in let g' := fresh "g'" in let cs := fresh "cs" in let cs' := fresh "cs'" in
  let Hg := fresh "Hg" in let Hcs := fresh "Hcs" in
  inversion H as [?|?|?|t t' fs fs' Ht Hfs|g g' cs cs' Hg Hcs|? ? ?|? ? ? ?|? ? ? ?]; subst; clear H.

Lemma step_sim s s' x x' : srel s s' -> xrel x x' -> rrel (step P s x) (step P' s' x').
Proof.
  intros HS [Hxv Hxb].
  destruct s as [st lo fs p], s' as [st' lo' fs' p'].
  destruct HS as [Hst Hlo Hfr Hp]; cbn [stack locals frames persistent] in *. subst p'.
  unfold step; cbn [frames stack locals persistent].
  inversion Hfr as [| fr fr' rest rest' Hfrel Hrest]; subst; clear Hfr.
  { (* no frame left: the result *)
    inv_st Hst v v' sp sq Hv Hsp; red_state; [reflexivity|]. split; [assumption|]. solve_srel. }
  pose proof Hfrel as (Hfn & Hbase & Hcaps & Hpc).
  destruct (code_rel _ _ Hfn) as (code & code' & Hc & Hc' & Hcode). rewrite Hc, Hc'.
  pose proof (Forall2_nth _ _ _ Hcode (fr_pc fr)) as Hi. rewrite <- Hpc.
  pose proof (Forall2_len _ _ _ Hcode) as Hlen.
  destruct (nth_error code (fr_pc fr)) as [i|] eqn:Ei, (nth_error code' (fr_pc fr)) as [i'|] eqn:Ei'; try contradiction.
  2: { (* frame exhausted *)
    red_state. apply bump_rel. rewrite <- Hbase.
    replace (match rest' with [] => true | _ :: _ => false end) with (match rest with [] => true | _ :: _ => false end)
      by (inversion Hrest; reflexivity).
    constructor; red_state; try assumption; try reflexivity.
    destruct (p && match rest with [] => true | _ :: _ => false end); [assumption | apply Forall2_firstn; assumption]. }
  apply instr_ok_inv in Hi.
  destruct i; cbv beta iota in Hi.
  - (* Constant *)
    destruct Hi as (k' & Hk & ->). destruct (const_facts _ _ Hk) as (c & Hc1 & Hc2). rewrite Hc1, Hc2.
    destruct c.
    + apply bump_rel. solve_srel.
    + unfold orel in Hxv. destruct (x_value x) as [v|], (x_value x') as [v'|]; try contradiction; [|reflexivity].
      apply bump_rel. solve_srel.
  - (* Pop *) subst i'. inv_st Hst v v' sp sq Hv Hsp; [reflexivity|]. apply bump_rel. solve_srel.
  - (* Duplicate *) subst i'. inv_st Hst v v' sp sq Hv Hsp; [reflexivity|]. apply bump_rel. solve_srel.
  - (* Pick *) subst i'.
    pose proof (Forall2_nth _ _ _ Hst n) as G.
    destruct (nth_error st n) as [v|], (nth_error st' n) as [v'|]; try contradiction; [|reflexivity].
    apply bump_rel. solve_srel.
  - (* Rotate *) subst i'.
    rewrite <- (Forall2_len _ _ _ Hst). destruct (length st <? n); [reflexivity|].
    destruct n as [|m]; [reflexivity|].
    pose proof (Forall2_nth _ _ _ Hst m) as G.
    destruct (nth_error st m) as [v|], (nth_error st' m) as [v'|]; try contradiction; [|reflexivity].
    apply bump_rel. red_state. constructor; red_state; try assumption; try reflexivity.
    + constructor; [assumption|]. apply Forall2_app; [apply Forall2_firstn | apply Forall2_skipn]; assumption.
    + constructor; [solve_frel | assumption].
  - (* Reset *) subst i'. rewrite <- Hbase, <- (Forall2_len _ _ _ Hlo).
    destruct (length lo <? fr_base fr + i); [reflexivity|].
    apply bump_rel. red_state. constructor; red_state; try assumption; try reflexivity.
    + apply Forall2_firstn; assumption.
    + constructor; [solve_frel | assumption].
  - (* Load *) subst i'. rewrite <- Hbase.
    pose proof (Forall2_nth _ _ _ Hlo (fr_base fr + i)) as G.
    destruct (nth_error lo (fr_base fr + i)) as [v|], (nth_error lo' (fr_base fr + i)) as [v'|]; try contradiction; [|reflexivity].
    apply bump_rel. solve_srel.
  - (* Store *) subst i'. inv_st Hst v v' sp sq Hv Hsp; [reflexivity|]. apply bump_rel.
    red_state. constructor; red_state; try assumption; try reflexivity.
    + apply Forall2_snoc; assumption.
    + constructor; [solve_frel | assumption].
  - (* Tuple *)
    destruct Hi as (t' & Ht & ->). destruct (tuple_arity _ _ Ht) as (n & Hn1 & Hn2). rewrite Hn1, Hn2.
    pose proof (@popn_rel vrel n st st' [] [] Hst (Forall2_nil _)) as G.
    destruct (popn n st []) as [[vs r]|], (popn n st' []) as [[vs' r']|]; try contradiction; [|reflexivity].
    destruct G as [G1 G2]. apply bump_rel. red_state. constructor; red_state; try assumption; try reflexivity.
    + constructor; [constructor; assumption | assumption].
    + constructor; [solve_frel | assumption].
  - (* Get *) subst i'. inv_st Hst v v' sp sq Hv Hsp; [reflexivity|].
    inv_v Hv; try reflexivity.
    match type of Hfs with Forall2 _ ?a ?b =>
      pose proof (Forall2_nth _ _ _ Hfs i) as G;
      destruct (nth_error a i) as [w|], (nth_error b i) as [w'|]; try contradiction; [|reflexivity] end.
    apply bump_rel. solve_srel.
  - (* IsType *)
    destruct Hi as (y' & Hy & -> & _). inv_st Hst v v' sp sq Hv Hsp; [reflexivity|]. rewrite <- Hxb.
    apply bump_rel. solve_srel.
  - (* Jump *) subst i'. rewrite <- Hlen.
    destruct ((jump_target (fr_pc fr) off <? 0)%Z || (Z.of_nat (length code) <? jump_target (fr_pc fr) off)%Z); [reflexivity|].
    red_state. constructor; red_state; try assumption; try reflexivity.
    constructor; [solve_frel | assumption].
  - (* JumpIf *) subst i'. inv_st Hst v v' sp sq Hv Hsp; [reflexivity|].
    rewrite <- (is_nil_rel _ _ Hv).
    destruct (is_nil v).
    + apply bump_rel. solve_srel.
    + rewrite <- Hlen.
      destruct ((jump_target (fr_pc fr) off <? 0)%Z || (Z.of_nat (length code) <? jump_target (fr_pc fr) off)%Z); [reflexivity|].
      red_state. constructor; red_state; try assumption; try reflexivity.
      constructor; [solve_frel | assumption].
  - (* Call *) subst i'. inv_st Hst v v' sp sq Hv Hsp; [reflexivity|].
    inv_v Hv; try reflexivity.
    + (* function *)
      destruct (fun_defined _ _ Hg) as (fd & fd' & A & B & C). rewrite A, B.
      inv_st Hsp a a' sp2 sq2 Ha Hsp2; [reflexivity|].
      red_state. constructor; red_state; try reflexivity.
      * constructor; assumption.
      * apply Forall2_app; assumption.
      * constructor; [|constructor; assumption].
        unfold frel; cbn [fr_fn fr_base fr_caps fr_pc]. repeat split; try assumption.
        -- apply (Forall2_len _ _ _ Hlo).
        -- apply (Forall2_len _ _ _ Hcs).
    + (* builtin *)
      inv_st Hsp a a' sp2 sq2 Ha Hsp2; [reflexivity|].
      unfold orel in Hxv. destruct (x_value x) as [w|], (x_value x') as [w'|]; try contradiction; [|reflexivity].
      apply bump_rel. solve_srel.
  - (* TailCall *) subst i'. destruct recurse.
    + inv_st Hst v v' sp sq Hv Hsp; [reflexivity|]. rewrite <- Hbase, <- Hcaps.
      red_state. constructor; red_state; try reflexivity.
      * constructor; assumption.
      * apply Forall2_firstn; assumption.
      * constructor; [solve_frel | assumption].
    + inv_st Hst v v' sp sq Hv Hsp; [reflexivity|].
      inv_st Hsp a a' sp2 sq2 Ha Hsp2; [inv_v Hv; reflexivity|].
      inv_v Hv; try reflexivity.
      destruct (fun_defined _ _ Hg) as (fd & fd' & A & B & C). rewrite A, B. rewrite <- Hbase.
      red_state. constructor; red_state; try reflexivity.
      * constructor; assumption.
      * apply Forall2_app; [apply Forall2_firstn; assumption | assumption].
      * constructor; [|assumption].
        unfold frel; cbn [fr_fn fr_base fr_caps fr_pc]. repeat split; try assumption.
        apply (Forall2_len _ _ _ Hcs).
  - (* Function *)
    destruct Hi as (f' & Hf & ->). destruct (fun_defined _ _ Hf) as (fd & fd' & A & B & C). rewrite A, B, <- C.
    pose proof (@popn_rel vrel (f_caps fd) st st' [] [] Hst (Forall2_nil _)) as G.
    destruct (popn (f_caps fd) st []) as [[vs r]|], (popn (f_caps fd) st' []) as [[vs' r']|]; try contradiction; [|reflexivity].
    destruct G as [G1 G2]. apply bump_rel. red_state. constructor; red_state; try assumption; try reflexivity.
    + constructor; [constructor; assumption | assumption].
    + constructor; [solve_frel | assumption].
  - (* Builtin *)
    destruct Hi as (b' & Hb & ->). destruct (builtin_range _ _ Hb) as [R1 R2].
    replace (p_nbuiltins P <=? b) with false by (symmetry; apply Nat.leb_gt; exact R1).
    replace (p_nbuiltins P' <=? b') with false by (symmetry; apply Nat.leb_gt; exact R2).
    apply bump_rel. red_state. constructor; red_state; try assumption; try reflexivity.
    + constructor; [constructor; assumption | assumption].
    + constructor; [solve_frel | assumption].
  - (* Equal *) subst i'. rewrite <- (Forall2_len _ _ _ Hst). destruct (length st <? n); [reflexivity|].
    pose proof (@popn_rel vrel n st st' [] [] Hst (Forall2_nil _)) as G.
    destruct (popn n st []) as [[vs r]|], (popn n st' []) as [[vs' r']|]; try contradiction; [|reflexivity].
    destruct G as [G1 G2]. inversion G1; subst; [reflexivity|]. rewrite <- Hxb.
    apply bump_rel. solve_srel.
  - (* Not *) subst i'. inv_st Hst v v' sp sq Hv Hsp; [reflexivity|].
    rewrite <- (is_nil_rel _ _ Hv).
    apply bump_rel. solve_srel.
  - (* Spawn *) subst i'. inv_st Hst v v' sp sq Hv Hsp; [reflexivity|].
    inv_st Hsp a a' sp2 sq2 Ha Hsp2; [inv_v Hv; reflexivity|].
    inv_v Hv; try reflexivity.
    unfold orel in Hxv. destruct (x_value x) as [w|], (x_value x') as [w'|]; try contradiction; [|reflexivity].
    apply bump_rel. solve_srel.
  - (* Send *) subst i'. inv_st Hst v v' sp sq Hv Hsp; [reflexivity|].
    inv_st Hsp a a' sp2 sq2 Ha Hsp2; [inv_v Hv; reflexivity|].
    inv_v Hv; try reflexivity.
    apply bump_rel. red_state. constructor; red_state; try assumption; try reflexivity.
    + constructor; [constructor; assumption | assumption].
    + constructor; [solve_frel | assumption].
  - (* Self *) subst i'.
    assert (G : vrel (match x_value x with Some v => v | None => VProc 0 (fr_fn (last (fr :: rest) fr)) end)
                     (match x_value x' with Some v => v | None => VProc 0 (fr_fn (last (fr' :: rest') fr')) end)).
    { unfold orel in Hxv. destruct (x_value x) as [v|], (x_value x') as [v'|]; try contradiction; [assumption|].
      constructor. apply (last_rel (fr :: rest) (fr' :: rest') fr fr'); [constructor; assumption | assumption]. }
    apply bump_rel. solve_srel.
  - (* Select *) subst i'. inv_st Hst v v' sp sq Hv Hsp; [reflexivity|].
    unfold orel in Hxv. destruct (x_value x) as [w|], (x_value x') as [w'|]; try contradiction; [|reflexivity].
    apply bump_rel. solve_srel.
  - (* Process *)
    destruct Hi as (f' & Hf & ->).
    apply bump_rel. red_state. constructor; red_state; try assumption; try reflexivity.
    + constructor; [constructor; assumption | assumption].
    + constructor; [solve_frel | assumption].
Qed.

(* ------------------------------------------------------------------ the verdicts agree *)

(* from here on: the run-time tables of both programs (what each loader computes) *)
Hypothesis HRows : rows_ok rho X X' = true.
Hypothesis HCX : canon_ok X = true.
Hypothesis HCX' : canon_ok X' = true.

Lemma row_fact y y' : app (r_y rho) y = Some y' -> chk_row rho X X' y y' = true.
Proof.
  unfold rows_ok in HRows. apply andb_true_iff in HRows as [_ H]. apply forall_map_spec. exact H.
Qed.

(* a tested type of a mapped function has its row dumped *)
Lemma tested_row f f' fd y : app (r_f rho) f = Some f' -> nth_error (x_funcs X) f = Some fd ->
  In (IIsType y) (xf_code fd) -> exists w, row_of X y = Some w.
Proof.
  intros Hf Hfd Hin. unfold rows_ok in HRows. apply andb_true_iff in HRows as [H _].
  pose proof (forall_map_spec _ _ H _ _ Hf) as G. cbn beta in G. unfold rows_dumped in G. rewrite Hfd in G.
  rewrite forallb_forall in G. specialize (G _ Hin). cbn [row_dumped] in G.
  destruct (row_of X y) as [w|]; [eauto | discriminate].
Qed.

Lemma commute_spec m l l' i j : commute m l l' = true -> app m i = Some j -> nthb l i = nthb l' j.
Proof. intros H E. apply Bool.eqb_prop. exact (forall_map_spec _ _ H _ _ E). Qed.

Lemma commute_on_spec mask m l l' i j : commute_on mask m l l' = true -> app m i = Some j ->
  nthb mask i = true -> nthb l i = nthb l' j.
Proof.
  intros H E M. pose proof (forall_map_spec _ _ H _ _ E) as G. cbn beta in G. rewrite M in G.
  apply Bool.eqb_prop. exact G.
Qed.

(* IsType: the row of the tested type, read at the value's tag, says the same on both sides *)
Lemma istype_agree v v' y y' w : vrel v v' -> app (r_y rho) y = Some y' -> row_of X y = Some w ->
  tag_typed X v ->
  istype_verdict X v y = istype_verdict X' v' y'.
Proof.
  intros Hv Hy Hw Ht. pose proof (row_fact _ _ Hy) as H. unfold chk_row in H. rewrite Hw in H.
  unfold istype_verdict. rewrite Hw. destruct (row_of X' y') as [w'|]; [|discriminate].
  unfold rows_commute in H.
  apply andb_true_iff in H as [H Hres]. apply andb_true_iff in H as [H Hprocs].
  apply andb_true_iff in H as [H Hbuiltins]. apply andb_true_iff in H as [H Hfuns].
  apply andb_true_iff in H as [H Htuples]. apply andb_true_iff in H as [H Href].
  apply andb_true_iff in H as [Hint Hbin].
  apply Bool.eqb_prop in Hint. apply Bool.eqb_prop in Hbin. apply Bool.eqb_prop in Href.
  inversion Hv; subst; cbn [tag_in]; try assumption.
  - eapply commute_on_spec; eauto.
  - eapply commute_spec; eauto.
  - eapply commute_spec; eauto.
  - eapply commute_spec; eauto.
  - eapply commute_spec; eauto.
Qed.

(* canonical ids: equal exactly when name and labels are (C13), and those are preserved *)
Lemma canon_shape Y : canon_ok Y = true -> forall t1 t2 a1 a2,
  nth_error (x_tuples Y) t1 = Some a1 -> nth_error (x_tuples Y) t2 = Some a2 ->
  (canon_of Y t1 = canon_of Y t2 <->
   (xt_name a1, map fst (xt_fields a1)) = (xt_name a2, map fst (xt_fields a2))).
Proof.
  intros H t1 t2 a1 a2 E1 E2. unfold canon_ok in H.
  apply (list_eqb_eq Nat.eqb (fun a b => proj1 (Nat.eqb_eq a b))) in H.
  set (ts := map shape_info (x_tuples Y)) in *.
  assert (N1 : nth_error ts t1 = Some (shape_info a1)) by (apply nth_error_map_some; exact E1).
  assert (N2 : nth_error ts t2 = Some (shape_info a2)) by (apply nth_error_map_some; exact E2).
  pose proof (EqualProofs.canonical_iff_same_shape ts t1 t2 _ _ N1 N2) as G. cbn [Equal.t_name Equal.t_labels shape_info] in G.
  unfold canon_of. rewrite H.
  assert (L : length (Equal.compute_canonical ts) = length ts) by apply EqualProofs.compute_canonical_length.
  destruct (nth_error (Equal.compute_canonical ts) t1) as [c1|] eqn:C1.
  2: { apply nth_error_None in C1. assert (t1 < length ts) by (apply nth_error_Some; congruence). lia. }
  destruct (nth_error (Equal.compute_canonical ts) t2) as [c2|] eqn:C2.
  2: { apply nth_error_None in C2. assert (t2 < length ts) by (apply nth_error_Some; congruence). lia. }
  rewrite <- G. split; congruence.
Qed.

Lemma eqb_iff a b c d : (a = b <-> c = d) -> Nat.eqb a b = Nat.eqb c d.
Proof.
  intros H. destruct (Nat.eqb a b) eqn:E1, (Nat.eqb c d) eqn:E2; try reflexivity.
  - apply Nat.eqb_eq in E1. apply H in E1. apply Nat.eqb_eq in E1. congruence.
  - apply Nat.eqb_eq in E2. apply H in E2. apply Nat.eqb_eq in E2. congruence.
Qed.

Lemma canon_agree t1 t1' t2 t2' : app (r_t rho) t1 = Some t1' -> app (r_t rho) t2 = Some t2' ->
  Nat.eqb (canon_of X t1) (canon_of X t2) = Nat.eqb (canon_of X' t1') (canon_of X' t2').
Proof.
  intros E1 E2.
  destruct (tuple_facts _ _ E1) as (a1 & a1' & A1 & B1 & N1 & L1 & _).
  destruct (tuple_facts _ _ E2) as (a2 & a2' & A2 & B2 & N2 & L2 & _).
  apply eqb_iff.
  rewrite (canon_shape X HCX _ _ _ _ A1 A2), (canon_shape X' HCX' _ _ _ _ B1 B2).
  rewrite N1, N2, L1, L2. reflexivity.
Qed.

Lemma value_ind' (Q : value -> Prop) :
  (forall z, Q (VInt z)) -> (forall h, Q (VBin h)) -> (forall r, Q (VRef r)) ->
  (forall t fs, Forall Q fs -> Q (VTuple t fs)) -> (forall f cs, Forall Q cs -> Q (VFun f cs)) ->
  (forall b, Q (VBuiltin b)) -> (forall p f, Q (VProc p f)) -> (forall r ty, Q (VRes r ty)) ->
  forall v, Q v.
Proof.
  intros Hi Hb Hr Ht Hf Hbi Hp Hre. fix IH 1. intros v. destruct v.
  - apply Hi. - apply Hb. - apply Hr.
  - apply Ht. induction fs as [|x t0 IHl]; constructor; [apply IH | exact IHl].
  - apply Hf. induction caps as [|x t0 IHl]; constructor; [apply IH | exact IHl].
  - apply Hbi. - apply Hp. - apply Hre.
Qed.

Fixpoint zipb (f : value -> value -> bool) (l l' : list value) : bool :=
  match l, l' with x :: t, y :: t' => f x y && zipb f t t' | _, _ => true end.

Lemma veq_tuple c beq t1 f1 t2 f2 :
  veq c beq (VTuple t1 f1) (VTuple t2 f2) =
  Nat.eqb (c t1) (c t2) && Nat.eqb (length f1) (length f2) && zipb (veq c beq) f1 f2.
Proof.
  cbn [veq]. f_equal. revert f2. induction f1 as [|x t IH]; intros [|y t']; cbn [zipb]; try reflexivity.
  f_equal. apply IH.
Qed.

Lemma veq_fun c beq g1 c1 g2 c2 :
  veq c beq (VFun g1 c1) (VFun g2 c2) =
  Nat.eqb g1 g2 && Nat.eqb (length c1) (length c2) && zipb (veq c beq) c1 c2.
Proof.
  cbn [veq]. f_equal. revert c2. induction c1 as [|x t IH]; intros [|y t']; cbn [zipb]; try reflexivity.
  f_equal. apply IH.
Qed.

Lemma zipb_agree (f f' : value -> value -> bool) l : forall l' m m',
  Forall (fun a => forall a' b b', vrel a a' -> vrel b b' -> f a b = f' a' b') l ->
  Forall2 vrel l l' -> Forall2 vrel m m' -> zipb f l m = zipb f' l' m'.
Proof.
  induction l as [|a l IH]; intros l' m m' HF H1 H2; inversion H1; subst; [reflexivity|].
  inversion H2; subst; cbn [zipb]; [reflexivity|]. inversion HF; subst. f_equal; auto.
Qed.

Lemma veq_agree beq a : forall a' b b', vrel a a' -> vrel b b' ->
  veq (canon_of X) beq a b = veq (canon_of X') beq a' b'.
Proof.
  induction a as [z|h|r|t fs IH|f cs IH|bi|pp f|r ty] using value_ind';
    intros a' b b' Ha Hb; inversion Ha; subst; inversion Hb; subst; try reflexivity.
  - (* tuples *)
    rewrite !veq_tuple.
    match goal with A : app (r_t rho) t = Some ?u, B : app (r_t rho) ?t2 = Some ?u2,
                    F1 : Forall2 vrel fs ?fs', F2 : Forall2 vrel ?gs ?gs' |- _ =>
      rewrite (canon_agree _ _ _ _ A B), (Forall2_len _ _ _ F1), (Forall2_len _ _ _ F2);
      rewrite (zipb_agree _ (veq (canon_of X') beq) _ _ _ _ IH F1 F2) end.
    reflexivity.
  - (* functions *)
    rewrite !veq_fun.
    match goal with A : app (r_f rho) f = Some ?u, B : app (r_f rho) ?f2 = Some ?u2,
                    F1 : Forall2 vrel cs ?cs', F2 : Forall2 vrel ?ds ?ds' |- _ =>
      rewrite (Forall2_len _ _ _ F1), (Forall2_len _ _ _ F2);
      rewrite (zipb_agree _ (veq (canon_of X') beq) _ _ _ _ IH F1 F2);
      replace (Nat.eqb f f2) with (Nat.eqb u u2) by
        (apply eqb_iff; split; intros Q; [subst; eapply inj_f; eauto | subst; congruence]) end.
    reflexivity.
  - (* builtins *)
    cbn [veq].
    match goal with A : app (r_b rho) bi = Some ?u, B : app (r_b rho) ?b2 = Some ?u2 |- _ =>
      apply eqb_iff; split; intros Q; [subst; congruence | subst; eapply inj_b; eauto] end.
Qed.

Lemma equal_agree beq vs vs' : Forall2 vrel vs vs' -> equal_verdict X beq vs = equal_verdict X' beq vs'.
Proof.
  intros H. unfold equal_verdict, all_equal. inversion H as [|a a' l l' Ha Hl]; subst; [reflexivity|].
  assert (G : forall m m', Forall2 vrel m m' ->
              forallb (veq (canon_of X) beq a) m = forallb (veq (canon_of X') beq a') m').
  { induction 1 as [|b b' m m' Hb Hm IHm]; [reflexivity|]. cbn [forallb]. f_equal; [|exact IHm].
    apply veq_agree; assumption. }
  apply G. exact H.
Qed.

Lemma top_instr_rel s s' : srel s s' ->
  match top_instr (project X) s, top_instr (project X') s' with
  | Some i, Some i' => instr_img rho i i' = true
  | None, None => True
  | _, _ => False
  end.
Proof.
  intros [_ _ Hfr _]. unfold top_instr. inversion Hfr as [|fr fr' rest rest' Hf Hrest E1 E2]; [exact I|].
  destruct Hf as (Hfn & _ & _ & Hpc).
  destruct (code_rel _ _ Hfn) as (code & code' & Hc & Hc' & Hcode).
  fold P. fold P'. rewrite Hc, Hc', <- Hpc. apply Forall2_nth. exact Hcode.
Qed.

Lemma top_row s s' y : srel s s' -> top_instr (project X) s = Some (IIsType y) -> exists w, row_of X y = Some w.
Proof.
  intros [_ _ Hfr _]. unfold top_instr. inversion Hfr as [|fr fr' rest rest' Hf Hrest E1 E2]; [discriminate|].
  destruct Hf as (Hfn & _).
  destruct (fun_facts _ _ Hfn) as (fd & fd' & A & _).
  unfold code_of, project; cbn [p_funcs]. rewrite (nth_error_map_some erase_func _ _ _ A). cbn [option_map erase_func f_code].
  intros E. eapply tested_row; eauto. eapply nth_error_In; eauto.
Qed.

Lemma decide_rel beq s s' x x' : srel s s' -> orel (x_value x) (x_value x') -> tested_typed X s ->
  xrel (decide X beq s x) (decide X' beq s' x').
Proof.
  intros HS Hxv HT. pose proof (top_instr_rel _ _ HS) as Hi. pose proof (top_row s s') as Hrow.
  unfold decide. unfold tested_typed in HT.
  destruct (top_instr (project X) s) as [i|] eqn:Et, (top_instr (project X') s') as [i'|]; try contradiction.
  2: { split; [exact Hxv | reflexivity]. }
  apply instr_ok_inv in Hi. pose proof HS as [Hst _ _ _].
  destruct i; cbv beta iota in Hi;
    try solve [subst i'; split; [exact Hxv | reflexivity]];
    try solve [destruct Hi as (? & ? & ->); split; [exact Hxv | reflexivity]].
  - (* IsType *)
    destruct Hi as (y' & Hy & -> & _). destruct (Hrow _ HS eq_refl) as [w Hw].
    inversion Hst as [|v v' sp sq Hv Hsp E1 E2]; [split; [exact Hxv | reflexivity]|].
    rewrite <- E1 in HT.
    split; [exact Hxv|]. cbn [x_bool]. eapply istype_agree; eauto.
  - (* Equal *)
    subst i'.
    pose proof (@popn_rel vrel n _ _ [] [] Hst (Forall2_nil _)) as G.
    destruct (popn n (stack s) []) as [[vs r]|], (popn n (stack s') []) as [[vs' r']|]; try contradiction.
    + split; [exact Hxv|]. cbn [x_bool]. apply equal_agree. apply G.
    + split; [exact Hxv | reflexivity].
Qed.

(* one step, verdicts computed from each program's own tables *)
Lemma xstep_sim beq s s' x x' : srel s s' -> orel (x_value x) (x_value x') -> tested_typed X s ->
  rrel (xstep X beq s x) (xstep X' beq s' x').
Proof. intros HS Hx HT. unfold xstep. apply step_sim; [exact HS | apply decide_rel; assumption]. Qed.

Definition xvrel (x x' : ext) : Prop := orel (x_value x) (x_value x').

Lemma xrun_sim beq xs xs' : Forall2 xvrel xs xs' -> forall s s', srel s s' -> typed_run X beq s xs ->
  rrel (xrun X beq s xs) (xrun X' beq s' xs').
Proof.
  induction 1 as [|x x' xs xs' Hx Hxs IH]; intros s s' HS HT; cbn [xrun]; [exact HS|].
  cbn [typed_run] in HT. destruct HT as [HT1 HT2].
  pose proof (xstep_sim beq _ _ _ _ HS Hx HT1) as G.
  destruct (xstep X beq s x) as [s1|v1 s1|f1], (xstep X' beq s' x') as [s2|v2 s2|f2]; try contradiction; auto.
Qed.

Lemma run_sim xs xs' : Forall2 xrel xs xs' -> forall s s', srel s s' ->
  rrel (run P s xs) (run P' s' xs').
Proof.
  induction 1 as [|x x' xs xs' Hx Hxs IH]; intros s s' HS; cbn [run]; [exact HS|].
  pose proof (step_sim _ _ _ _ HS Hx) as G.
  destruct (step P s x) as [s1|v1 s1|f1], (step P' s' x') as [s2|v2 s2|f2]; try contradiction; auto.
Qed.

Lemma init_rel f f' caps caps' arg arg' pers :
  app (r_f rho) f = Some f' -> Forall2 vrel caps caps' -> vrel arg arg' ->
  srel (init_state f caps arg pers) (init_state f' caps' arg' pers).
Proof.
  intros Hf Hc Ha. unfold init_state. constructor; cbn [stack locals frames persistent]; auto.
  constructor; [|constructor]. unfold frel; cbn [fr_fn fr_base fr_caps fr_pc]. repeat split; auto.
  apply (Forall2_len _ _ _ Hc).
Qed.

(* every function reachable from a mapped one (through Function / Process references) is mapped *)
Definition refers (f g : nat) : Prop :=
  exists fd, nth_error (x_funcs X) f = Some fd /\
             (In (IFunction g) (xf_code fd) \/ exists pid, In (IProcess pid g) (xf_code fd)).

Inductive reachable : nat -> nat -> Prop :=
| reach_refl f : reachable f f
| reach_step f g h : reachable f g -> refers g h -> reachable f h.

Lemma refers_mapped f g : (exists f', app (r_f rho) f = Some f') -> refers f g -> exists g', app (r_f rho) g = Some g'.
Proof.
  intros [f' Hf] (fd & Hfd & Hin). destruct (fun_facts _ _ Hf) as (fd0 & fd' & A & _ & _ & Hcode).
  rewrite Hfd in A. inv A.
  assert (G : forall i, In i (xf_code fd0) -> exists j, instr_img rho i j = true).
  { clear -Hcode. induction Hcode as [|a b l l' Hab _ IH]; intros i Hi; [destruct Hi | destruct Hi as [->|Hi]; eauto]. }
  destruct Hin as [Hin|[pid Hin]]; destruct (G _ Hin) as [j Hj]; apply instr_ok_inv in Hj; cbv beta iota in Hj;
    destruct Hj as (g' & Hg & _); eauto.
Qed.

Lemma reachable_mapped f g : reachable f g -> (exists f', app (r_f rho) f = Some f') -> exists g', app (r_f rho) g = Some g'.
Proof. induction 1 as [f|f g h Hfg IH Hgh]; intros Hm; [exact Hm | apply (refers_mapped g h (IH Hm) Hgh)]. Qed.

End SIM.

(* ------------------------------------------------------------------ the theorems of C10 *)

(* is_renaming = structure (what the packaging step produces) + run-time tables (what loaders compute) *)
Lemma is_renaming_split rho X X' : is_renaming rho X X' = true <->
  struct_ok rho X X' = true /\ rows_ok rho X X' = true /\ canon_ok X = true /\ canon_ok X' = true.
Proof.
  unfold is_renaming. rewrite !andb_true_iff. tauto.
Qed.

(* Running any mapped function (in particular every function reachable from the entry, see
   `renaming_covers_reachable`) on related arguments, with related outside inputs, gives related
   results step for step: the same fault, or related next states / final values — with the IsType
   and Equal verdicts computed from each program's own type_compatibility / canonical_tuples. *)
Theorem renaming_simulation rho X X' : is_renaming rho X X' = true ->
  forall bin_eq f f' caps caps' arg arg' pers xs xs',
  app (r_f rho) f = Some f' -> Forall2 (vrel rho) caps caps' -> vrel rho arg arg' ->
  Forall2 (xvrel rho) xs xs' ->
  typed_run X bin_eq (init_state f caps arg pers) xs ->
  rrel rho (xrun X bin_eq (init_state f caps arg pers) xs)
           (xrun X' bin_eq (init_state f' caps' arg' pers) xs').
Proof.
  intros HR beq f f' caps caps' arg arg' pers xs xs' Hf Hc Ha Hx HT.
  apply is_renaming_split in HR. destruct HR as (HS & HRo & HC & HC').
  apply (xrun_sim rho X X' HS HRo HC HC' beq xs xs' Hx); [apply init_rel; assumption | exact HT].
Qed.

(* the same with every verdict an outside input (vm/Vm.v as it stands, vm/WfRun.v's `run`): the
   STRUCTURAL part of the validator suffices *)
Theorem struct_simulation_ext rho X X' : struct_ok rho X X' = true ->
  forall s s' xs xs', srel rho s s' -> Forall2 (xrel rho) xs xs' ->
  rrel rho (run (project X) s xs) (run (project X') s' xs').
Proof. intros HS s s' xs xs' Hs Hx. apply (run_sim rho X X' HS xs xs' Hx). exact Hs. Qed.

Theorem renaming_simulation_ext rho X X' : is_renaming rho X X' = true ->
  forall s s' xs xs', srel rho s s' -> Forall2 (xrel rho) xs xs' ->
  rrel rho (run (project X) s xs) (run (project X') s' xs').
Proof. intros HR. apply is_renaming_split in HR. apply struct_simulation_ext. apply HR. Qed.

Theorem struct_covers_reachable rho X X' : struct_ok rho X X' = true ->
  app (r_f rho) (x_entry X) = Some (x_entry X') /\
  forall f, reachable X (x_entry X) f -> exists f', app (r_f rho) f = Some f'.
Proof.
  intros HR. pose proof (the_facts rho X X' HR) as FX. split; [exact (F_entry _ _ _ FX)|].
  intros f Hf. eapply (reachable_mapped rho X X' HR); eauto. exists (x_entry X'). exact (F_entry _ _ _ FX).
Qed.

Theorem renaming_covers_reachable rho X X' : is_renaming rho X X' = true ->
  app (r_f rho) (x_entry X) = Some (x_entry X') /\
  forall f, reachable X (x_entry X) f -> exists f', app (r_f rho) f = Some f'.
Proof. intros HR. apply is_renaming_split in HR. apply struct_covers_reachable. apply HR. Qed.

(* the side condition, stated on its own: on related values the real tables give the same verdicts *)
Theorem verdicts_commute rho X X' : is_renaming rho X X' = true ->
  (forall v v' y y' w, vrel rho v v' -> app (r_y rho) y = Some y' -> row_of X y = Some w -> tag_typed X v ->
     istype_verdict X v y = istype_verdict X' v' y') /\
  (forall bin_eq vs vs', Forall2 (vrel rho) vs vs' -> equal_verdict X bin_eq vs = equal_verdict X' bin_eq vs').
Proof.
  intros HR. apply is_renaming_split in HR. destruct HR as (HS & HRo & HC & HC'). split.
  - intros. eapply (istype_agree rho X X' HRo); eauto.
  - intros. apply (equal_agree rho X X' HS HC HC'). assumption.
Qed.

(* ------------------------------------------------------------------ re-emission of values (imports) *)
Section REEMIT_PROOFS.
Variable bytes_of : nat -> list Z.

(* value_ind' above lives in Section SIM; restate it at top level *)
Lemma value_rect' (Q : value -> Prop) :
  (forall z, Q (VInt z)) -> (forall h, Q (VBin h)) -> (forall r, Q (VRef r)) ->
  (forall t fs, Forall Q fs -> Q (VTuple t fs)) -> (forall f cs, Forall Q cs -> Q (VFun f cs)) ->
  (forall b, Q (VBuiltin b)) -> (forall p f, Q (VProc p f)) -> (forall r ty, Q (VRes r ty)) ->
  forall v, Q v.
Proof.
  intros Hi Hb Hr Ht Hf Hbi Hp Hre. fix IH 1. intros v. destruct v.
  - apply Hi. - apply Hb. - apply Hr.
  - apply Ht. induction fs as [|x t0 IHl]; constructor; [apply IH | exact IHl].
  - apply Hf. induction caps as [|x t0 IHl]; constructor; [apply IH | exact IHl].
  - apply Hbi. - apply Hp. - apply Hre.
Qed.

(* the program only grows: constants are appended, everything else is untouched *)
Definition prefix {A} (l m : list A) : Prop := exists r, m = l ++ r.
Definition extends (X Y : xprogram) : Prop :=
  prefix (x_consts X) (x_consts Y) /\ prefix (x_funcs X) (x_funcs Y) /\ prefix (x_tuples X) (x_tuples Y) /\
  prefix (x_builtins X) (x_builtins Y).

Lemma prefix_refl {A} (l : list A) : prefix l l.
Proof. exists []. rewrite app_nil_r. reflexivity. Qed.
Lemma prefix_trans {A} (l m n : list A) : prefix l m -> prefix m n -> prefix l n.
Proof. intros [r1 H1] [r2 H2]. exists (r1 ++ r2). rewrite H2, H1, app_assoc. reflexivity. Qed.
Lemma prefix_nth {A} (l m : list A) k x : prefix l m -> nth_error l k = Some x -> nth_error m k = Some x.
Proof. intros [r H] E. rewrite H, nth_error_app1; [exact E|]. apply nth_error_Some. congruence. Qed.
Lemma prefix_len {A} (l m : list A) : prefix l m -> length l <= length m.
Proof. intros [r H]. rewrite H, app_length. lia. Qed.

Lemma extends_refl X : extends X X.
Proof. repeat split; apply prefix_refl. Qed.

Lemma extends_trans X Y Z : extends X Y -> extends Y Z -> extends X Z.
Proof. intros (A1 & B1 & C1 & D1) (A2 & B2 & C2 & D2). repeat split; eapply prefix_trans; eauto. Qed.

Lemma extends_const X Y k c : extends X Y -> nth_error (x_consts X) k = Some c -> nth_error (x_consts Y) k = Some c.
Proof. intros (H & _) E. eapply prefix_nth; eauto. Qed.

(* values the emitted code can rebuild: tuples of their arity, closures of their capture count *)
Inductive wfx (X : xprogram) : value -> Prop :=
| W_int z : wfx X (VInt z)
| W_bin h : wfx X (VBin h)
| W_tuple t fs a : nth_error (x_tuples X) t = Some a -> arity a = length fs -> Forall (wfx X) fs -> wfx X (VTuple t fs)
| W_fun f cs fd : nth_error (x_funcs X) f = Some fd -> xf_caps fd = length cs -> Forall (wfx X) cs -> wfx X (VFun f cs)
| W_builtin b : b < length (x_builtins X) -> wfx X (VBuiltin b).

Lemma wfx_ext X Y v : extends X Y -> wfx X v -> wfx Y v.
Proof.
  intros (_ & F & T & B). revert v.
  induction v as [z|h|r|t fs IH|f cs IH|b|pp f|r ty] using value_rect'; intros Hw; inversion Hw; subst.
  - constructor.
  - constructor.
  - econstructor; [eapply prefix_nth; eassumption | assumption |].
    rewrite Forall_forall in *. intros x Hx. apply IH; auto.
  - econstructor; [eapply prefix_nth; eassumption | assumption |].
    rewrite Forall_forall in *. intros x Hx. apply IH; auto.
  - constructor. pose proof (prefix_len _ _ B). lia.
Qed.

Lemma xconst_eqb_eq a b : xconst_eqb a b = true -> a = b.
Proof.
  destruct a, b; cbn; intros H; try discriminate.
  - apply Z.eqb_eq in H. congruence.
  - f_equal. apply (list_eqb_eq Z.eqb); [intros x y E; apply Z.eqb_eq; exact E | exact H].
Qed.

Lemma find_index_spec {A} (p : A -> bool) l : forall i0 i, find_index p l i0 = Some i ->
  exists x, nth_error l (i - i0) = Some x /\ p x = true /\ i0 <= i.
Proof.
  induction l as [|x l IH]; intros i0 i H; cbn [find_index] in H; [discriminate|].
  destruct (p x) eqn:E.
  - inv H. rewrite Nat.sub_diag. exists x. auto.
  - apply IH in H. destruct H as (y & Hy & Hp & Hle). exists y.
    replace (i - i0) with (S (i - S i0)) by lia. cbn [nth_error]. repeat split; auto. lia.
Qed.

(* program.rs:60 register_constant returns an index that holds the constant, and only appends *)
Lemma register_constant_spec X c X1 k : register_constant X c = (X1, k) ->
  extends X X1 /\ nth_error (x_consts X1) k = Some c.
Proof.
  unfold register_constant. destruct (find_index (xconst_eqb c) (x_consts X) 0) as [i|] eqn:E; intros H; inv H.
  - split; [apply extends_refl|]. apply find_index_spec in E. destruct E as (x & Hx & Hp & _).
    rewrite Nat.sub_0_r in Hx. apply xconst_eqb_eq in Hp. congruence.
  - split.
    + repeat split; cbn; try apply prefix_refl. exists [c]. reflexivity.
    + cbn [with_consts x_consts]. rewrite nth_error_app2 by lia. rewrite Nat.sub_diag. reflexivity.
Qed.

(* the inner loops of emit_cached, named *)
Fixpoint emit_list (l : list value) (X : xprogram) : option (xprogram * list instr) :=
  match l with
  | [] => Some (X, [])
  | e :: l' => match emit_cached bytes_of e X with
               | Some (X1, i1) => match emit_list l' X1 with
                                  | Some (X2, i2) => Some (X2, i1 ++ i2)
                                  | None => None
                                  end
               | None => None
               end
  end.

Lemma emit_cached_tuple t fs X :
  emit_cached bytes_of (VTuple t fs) X =
  match emit_list fs X with Some (X1, is) => Some (X1, is ++ [ITuple t]) | None => None end.
Proof.
  cbn [emit_cached].
  match goal with |- match ?a with _ => _ end = match ?b with _ => _ end => assert (E : a = b) end.
  { revert X. induction fs as [|e l IH]; intros X; cbn [emit_list]; [reflexivity|].
    destruct (emit_cached bytes_of e X) as [[X1 i1]|]; [|reflexivity]. rewrite IH. reflexivity. }
  rewrite E. reflexivity.
Qed.

Lemma emit_cached_fun f cs X :
  emit_cached bytes_of (VFun f cs) X =
  match nth_error (x_funcs X) f with
  | None => None
  | Some _ => match emit_list cs X with Some (X1, is) => Some (X1, is ++ [IFunction f]) | None => None end
  end.
Proof.
  cbn [emit_cached]. destruct (nth_error (x_funcs X) f); [|reflexivity].
  match goal with |- match ?a with _ => _ end = match ?b with _ => _ end => assert (E : a = b) end.
  { revert X. induction cs as [|e l IH]; intros X; cbn [emit_list]; [reflexivity|].
    destruct (emit_cached bytes_of e X) as [[X1 i1]|]; [|reflexivity]. rewrite IH. reflexivity. }
  rewrite E. reflexivity.
Qed.

Lemma run_app P xs1 : forall s xs2,
  run P s (xs1 ++ xs2) = match run P s xs1 with Next s' => run P s' xs2 | r => r end.
Proof.
  induction xs1 as [|x t IH]; intros s xs2; cbn [run Datatypes.app]; [reflexivity|].
  destruct (step P s x); [apply IH | reflexivity | reflexivity].
Qed.

Lemma popn_rev l : forall st acc, popn (length l) (rev l ++ st) acc = Some (l ++ acc, st).
Proof.
  induction l as [|x l IH] using rev_ind; intros st acc; [reflexivity|].
  rewrite rev_app_distr, app_length. cbn [rev Datatypes.app length]. rewrite Nat.add_1_r. cbn [popn].
  rewrite IH, <- app_assoc. reflexivity.
Qed.

(* the machine state while straight-line code of frame (fn, base, caps) runs *)
Definition at_pc (st lo : list value) (fn base caps pc : nat) (rest : list frame) (pers : bool) : state :=
  {| stack := st; locals := lo;
     frames := {| fr_fn := fn; fr_base := base; fr_caps := caps; fr_pc := pc |} :: rest; persistent := pers |}.

(* "running `code`, found at offset |pre| of function fn, with inputs xs, pushes vs (last on top)" *)
Definition pushes (Y : xprogram) (code : list instr) (xs : list ext) (vs : list value) : Prop :=
  forall fn fd pre post st lo base caps rest pers,
    nth_error (x_funcs Y) fn = Some fd -> xf_code fd = pre ++ code ++ post ->
    run (project Y) (at_pc st lo fn base caps (length pre) rest pers) xs =
    Next (at_pc (rev vs ++ st) lo fn base caps (length pre + length code) rest pers).

Lemma step_at Y fn fd pre i post :
  nth_error (x_funcs Y) fn = Some fd -> xf_code fd = pre ++ i :: post ->
  code_of (project Y) fn = Some (pre ++ i :: post) /\ nth_error (pre ++ i :: post) (length pre) = Some i.
Proof.
  intros Hfd Hc. split.
  - unfold code_of, project; cbn [p_funcs]. rewrite (nth_error_map_some erase_func _ _ _ Hfd). cbn. congruence.
  - rewrite nth_error_app2 by lia. rewrite Nat.sub_diag. reflexivity.
Qed.

Definition quiet : ext := {| x_value := None; x_bool := false |}.

Lemma pushes_one Y i x v :
  (forall fn fd pre post st lo base caps rest pers,
     nth_error (x_funcs Y) fn = Some fd -> xf_code fd = pre ++ [i] ++ post ->
     step (project Y) (at_pc st lo fn base caps (length pre) rest pers) x =
     Next (at_pc (v :: st) lo fn base caps (S (length pre)) rest pers)) ->
  pushes Y [i] [x] [v].
Proof.
  intros H fn fd pre post st lo base caps rest pers Hfd Hc. cbn [run]. rewrite (H _ _ _ _ _ _ _ _ _ _ Hfd Hc).
  cbn [rev Datatypes.app length]. rewrite Nat.add_1_r. reflexivity.
Qed.

Lemma pushes_app Y c1 c2 x1 x2 v1 v2 : pushes Y c1 x1 v1 -> pushes Y c2 x2 v2 ->
  pushes Y (c1 ++ c2) (x1 ++ x2) (v1 ++ v2).
Proof.
  intros H1 H2 fn fd pre post st lo base caps rest pers Hfd Hc.
  rewrite run_app. rewrite (H1 fn fd pre (c2 ++ post) st lo base caps rest pers Hfd) by (rewrite Hc, <- app_assoc; reflexivity).
  assert (Hc2 : xf_code fd = (pre ++ c1) ++ c2 ++ post) by (rewrite Hc, <- !app_assoc; reflexivity).
  pose proof (H2 fn fd (pre ++ c1) post (rev v1 ++ st) lo base caps rest pers Hfd Hc2) as G.
  rewrite app_length in G. rewrite G. rewrite rev_app_distr, <- app_assoc, app_length. f_equal. f_equal. lia.
Qed.

(* a constructor instruction that pops the n values just pushed and pushes one *)
Lemma pushes_then Y code xs vs i v :
  pushes Y code xs vs ->
  (forall fn fd pre post st lo base caps rest pers,
     nth_error (x_funcs Y) fn = Some fd -> xf_code fd = pre ++ [i] ++ post ->
     step (project Y) (at_pc (rev vs ++ st) lo fn base caps (length pre) rest pers) quiet =
     Next (at_pc (v :: st) lo fn base caps (S (length pre)) rest pers)) ->
  pushes Y (code ++ [i]) (xs ++ [quiet]) [v].
Proof.
  intros H1 H2 fn fd pre post st lo base caps rest pers Hfd Hc.
  rewrite run_app. rewrite (H1 fn fd pre ([i] ++ post) st lo base caps rest pers Hfd) by (rewrite Hc, <- app_assoc; reflexivity).
  assert (Hc2 : xf_code fd = (pre ++ code) ++ [i] ++ post) by (rewrite Hc, <- !app_assoc; reflexivity).
  cbn [run]. pose proof (H2 fn fd (pre ++ code) post st lo base caps rest pers Hfd Hc2) as G.
  rewrite app_length in G. rewrite G. cbn [rev Datatypes.app]. rewrite app_length. cbn [length]. f_equal. f_equal. lia.
Qed.

Lemma emit_inputs_tuple t fs : emit_inputs (VTuple t fs) = flat_map emit_inputs fs ++ [quiet].
Proof. reflexivity. Qed.
Lemma emit_inputs_fun f cs : emit_inputs (VFun f cs) = flat_map emit_inputs cs ++ [quiet].
Proof. reflexivity. Qed.

(* value_reemit, general form: the program only grows, and in ANY later extension of it the emitted
   code, wherever it sits in a function, pushes exactly v *)
Lemma emit_cached_pushes v : forall X X1 code, emit_cached bytes_of v X = Some (X1, code) -> wfx X v ->
  extends X X1 /\ forall Y, extends X1 Y -> pushes Y code (emit_inputs v) [v].
Proof.
  induction v as [z|h|r|t fs IH|f cs IH|b|pp f|r ty] using value_rect'; intros X X1 code He Hw.
  - (* integer constant *)
    cbn [emit_cached] in He. destruct (register_constant X (XInt z)) as [X0 k] eqn:R. inv He.
    apply register_constant_spec in R. destruct R as [Hx Hk]. split; [exact Hx|].
    intros Y HY. apply pushes_one. intros fn fd pre post st lo base caps rest pers Hfd Hc.
    destruct (step_at Y fn fd pre (IConstant k) post Hfd Hc) as [C N].
    unfold step, at_pc; cbn [frames fr_fn fr_pc]. rewrite C, N.
    pose proof (extends_const _ _ _ _ HY Hk) as Hk'.
    unfold project at 1; cbn [p_consts]. rewrite (nth_error_map_some erase_const _ _ _ Hk'). reflexivity.
  - (* binary constant: the handle is what allocation hands back *)
    cbn [emit_cached] in He. destruct (register_constant X (XBin (bytes_of h))) as [X0 k] eqn:R. inv He.
    apply register_constant_spec in R. destruct R as [Hx Hk]. split; [exact Hx|].
    intros Y HY. apply pushes_one. intros fn fd pre post st lo base caps rest pers Hfd Hc.
    destruct (step_at Y fn fd pre (IConstant k) post Hfd Hc) as [C N].
    unfold step, at_pc; cbn [frames fr_fn fr_pc]. rewrite C, N.
    pose proof (extends_const _ _ _ _ HY Hk) as Hk'.
    unfold project at 1; cbn [p_consts]. rewrite (nth_error_map_some erase_const _ _ _ Hk'). reflexivity.
  - discriminate.
  - (* tuple *)
    rewrite emit_cached_tuple in He. destruct (emit_list fs X) as [[X0 is]|] eqn:EL; [|discriminate]. inv He.
    inversion Hw as [| |t0 fs0 a Ha Har Hfs| |]; subst.
    assert (L : extends X X1 /\ forall Y, extends X1 Y -> pushes Y is (flat_map emit_inputs fs) fs).
    { clear Ha Har Hw. revert X X1 is EL Hfs. induction fs as [|e l IHl]; intros X X1 is EL Hfs; cbn [emit_list] in EL.
      - inv EL. split; [apply extends_refl|]. intros Y _ fn fd pre post st lo base caps rest pers Hfd Hc.
        cbn. rewrite Nat.add_0_r. reflexivity.
      - destruct (emit_cached bytes_of e X) as [[Xa ia]|] eqn:Ea; [|discriminate].
        destruct (emit_list l Xa) as [[Xb ib]|] eqn:Eb; [|discriminate]. inv EL.
        inversion IH as [|? ? IHe IHrest]; subst. inversion Hfs as [|? ? We Wl]; subst.
        destruct (IHe _ _ _ Ea We) as [Ext1 P1].
        assert (Wl' : Forall (wfx Xa) l) by (rewrite Forall_forall in *; intros y Hy; eapply wfx_ext; eauto).
        destruct (IHl IHrest _ _ _ Eb Wl') as [Ext2 P2].
        split; [eapply extends_trans; eauto|].
        intros Y HY. cbn [flat_map]. change (e :: l) with ([e] ++ l). apply pushes_app.
        + apply P1. eapply extends_trans; eauto.
        + apply P2. exact HY. }
    destruct L as [Ext PL]. split; [exact Ext|].
    intros Y HY. rewrite emit_inputs_tuple. eapply pushes_then; [apply PL; exact HY|].
    intros fn fd pre post st lo base caps rest pers Hfd Hc.
    destruct (step_at Y fn fd pre (ITuple t) post Hfd Hc) as [C N].
    unfold step, at_pc; cbn [frames fr_fn fr_pc stack]. rewrite C, N.
    assert (HT : nth_error (p_tuples (project Y)) t = Some (length fs)).
    { unfold project; cbn [p_tuples]. destruct HY as (_ & _ & TY & _). destruct Ext as (_ & _ & T1 & _).
      rewrite (nth_error_map_some arity _ _ _ (prefix_nth _ _ _ _ TY (prefix_nth _ _ _ _ T1 Ha))), Har. reflexivity. }
    rewrite HT, popn_rev, app_nil_r. reflexivity.
  - (* closure: captures are pushed, then Function(f) pops them *)
    rewrite emit_cached_fun in He. inversion Hw as [| | |f0 cs0 fd0 Hf Hcaps Hcs|]; subst. rewrite Hf in He.
    destruct (emit_list cs X) as [[X0 is]|] eqn:EL; [|discriminate]. inv He.
    assert (L : extends X X1 /\ forall Y, extends X1 Y -> pushes Y is (flat_map emit_inputs cs) cs).
    { clear Hf Hcaps Hw. revert X X1 is EL Hcs. induction cs as [|e l IHl]; intros X X1 is EL Hcs; cbn [emit_list] in EL.
      - inv EL. split; [apply extends_refl|]. intros Y _ fn fd pre post st lo base caps rest pers Hfd Hc.
        cbn. rewrite Nat.add_0_r. reflexivity.
      - destruct (emit_cached bytes_of e X) as [[Xa ia]|] eqn:Ea; [|discriminate].
        destruct (emit_list l Xa) as [[Xb ib]|] eqn:Eb; [|discriminate]. inv EL.
        inversion IH as [|? ? IHe IHrest]; subst. inversion Hcs as [|? ? We Wl]; subst.
        destruct (IHe _ _ _ Ea We) as [Ext1 P1].
        assert (Wl' : Forall (wfx Xa) l) by (rewrite Forall_forall in *; intros y Hy; eapply wfx_ext; eauto).
        destruct (IHl IHrest _ _ _ Eb Wl') as [Ext2 P2].
        split; [eapply extends_trans; eauto|].
        intros Y HY. cbn [flat_map]. change (e :: l) with ([e] ++ l). apply pushes_app.
        + apply P1. eapply extends_trans; eauto.
        + apply P2. exact HY. }
    destruct L as [Ext PL]. split; [exact Ext|].
    intros Y HY. rewrite emit_inputs_fun. eapply pushes_then; [apply PL; exact HY|].
    intros fn fd pre post st lo base caps rest pers Hfd Hc.
    destruct (step_at Y fn fd pre (IFunction f) post Hfd Hc) as [C N].
    unfold step, at_pc; cbn [frames fr_fn fr_pc stack]. rewrite C, N.
    assert (HF : nth_error (p_funcs (project Y)) f = Some (erase_func fd0)).
    { unfold project; cbn [p_funcs]. destruct HY as (_ & FY & _). destruct Ext as (_ & F1 & _).
      apply nth_error_map_some. eapply prefix_nth; [exact FY|]. eapply prefix_nth; [exact F1|]. exact Hf. }
    rewrite HF. cbn [erase_func f_caps]. rewrite Hcaps, popn_rev, app_nil_r. reflexivity.
  - (* builtin *)
    cbn [emit_cached] in He. destruct (b <? length (x_builtins X)) eqn:Eb; [|discriminate]. inv He.
    split; [apply extends_refl|]. intros Y HY. apply pushes_one.
    intros fn fd pre post st lo base caps rest pers Hfd Hc.
    destruct (step_at Y fn fd pre (IBuiltin b) post Hfd Hc) as [C N].
    unfold step, at_pc; cbn [frames fr_fn fr_pc stack]. rewrite C, N.
    unfold project at 1; cbn [p_nbuiltins]. destruct HY as (_ & _ & _ & BY). apply prefix_len in BY.
    apply Nat.ltb_lt in Eb. replace (length (x_builtins Y) <=? b) with false by (symmetry; apply Nat.leb_gt; lia).
    reflexivity.
  - discriminate.
  - discriminate.
Qed.

End REEMIT_PROOFS.

(* value_reemit: for every value without process / resource / ref that value_to_instructions_from_cache
   accepts, the emitted code — placed anywhere in a function of the (grown) program, started on any
   stack — pushes exactly that value and leaves everything else alone. *)
Theorem value_reemit bytes_of v X X1 code :
  emit_cached bytes_of v X = Some (X1, code) -> wfx X v ->
  extends X X1 /\
  forall Y, extends X1 Y ->
  forall fn fd pre post st lo base caps rest pers,
    nth_error (x_funcs Y) fn = Some fd -> xf_code fd = pre ++ code ++ post ->
    run (project Y) (at_pc st lo fn base caps (length pre) rest pers) (emit_inputs v) =
    Next (at_pc (v :: st) lo fn base caps (length pre + length code) rest pers).
Proof.
  intros He Hw. destruct (emit_cached_pushes bytes_of v X X1 code He Hw) as [E P]. split; [exact E|].
  intros Y HY fn fd pre post st lo base caps rest pers Hfd Hc. exact (P Y HY fn fd pre post st lo base caps rest pers Hfd Hc).
Qed.

(* ... and it is total on such values: only process / resource / ref (and dangling ids) are refused *)
Fixpoint plain (v : value) : Prop :=
  match v with
  | VProc _ _ | VRes _ _ | VRef _ => False
  | VTuple _ fs => (fix all (l : list value) : Prop := match l with [] => True | x :: t => plain x /\ all t end) fs
  | VFun _ cs => (fix all (l : list value) : Prop := match l with [] => True | x :: t => plain x /\ all t end) cs
  | _ => True
  end.

(* ------------------------------------------------------------------ non-vacuity *)
Module Examples.
(* names as bytes *)
Definition s_ok : str := [79; 107]%Z.
Definition s_p : str := [80]%Z.
Definition s_q : str := [81]%Z.
Definition s_x : str := [120]%Z.

(* source: a dead function 0, a helper 1, the entry 2; tuple P[x: int]; `IsType` against P *)
Definition exX : xprogram := {|
  x_consts := [XInt 7; XInt 5];
  x_funcs := [ {| xf_code := [IConstant 0]; xf_caps := 0; xf_type := 2 |};
               {| xf_code := [IPop; ILoad 0]; xf_caps := 1; xf_type := 2 |};
               {| xf_code := [IPop; IConstant 1; IFunction 1; IStore; IConstant 1; ILoad 0; ICall; ITuple 2; IDuplicate; IIsType 1; IPop]; xf_caps := 0; xf_type := 2 |} ];
  x_tuples := [ {| xt_name := None; xt_fields := [] |}; {| xt_name := Some s_ok; xt_fields := [] |};
                {| xt_name := Some s_p; xt_fields := [(Some s_x, 0)] |} ];
  x_types := [TInt; TTuple 2; TCallable 0 0 3; TUnion []];
  x_builtins := [];
  x_resources := [];
  x_entry := 2;
  x_rows := [None; Some {| w_int := false; w_bin := false; w_ref := false; w_tuples := [false; false; true];
                           w_funs := []; w_builtins := []; w_procs := []; w_res := [] |}; None; None];
  x_canon := [0; 1; 2]
|}.

(* target: the dead function and its constant are gone, everything else has moved (as after a
   tree-shake followed by a merge behind a program that owns tuple Q and the type `never`) *)
Definition exX' : xprogram := {|
  x_consts := [XInt 5];
  x_funcs := [ {| xf_code := [IPop; ILoad 0]; xf_caps := 1; xf_type := 3 |};
               {| xf_code := [IPop; IConstant 0; IFunction 0; IStore; IConstant 0; ILoad 0; ICall; ITuple 3; IDuplicate; IIsType 2; IPop]; xf_caps := 0; xf_type := 3 |} ];
  x_tuples := [ {| xt_name := None; xt_fields := [] |}; {| xt_name := Some s_ok; xt_fields := [] |};
                {| xt_name := Some s_q; xt_fields := [] |}; {| xt_name := Some s_p; xt_fields := [(Some s_x, 1)] |} ];
  x_types := [TUnion []; TInt; TTuple 3; TCallable 1 1 0];
  x_builtins := [];
  x_resources := [];
  x_entry := 1;
  x_rows := [None; None; Some {| w_int := false; w_bin := false; w_ref := false; w_tuples := [false; false; false; true];
                                 w_funs := []; w_builtins := []; w_procs := []; w_res := [] |}; None];
  x_canon := [0; 1; 2; 3]
|}.

Definition ex_rho : renaming := {|
  r_c := [None; Some 0]; r_f := [None; Some 0; Some 1]; r_t := [Some 0; Some 1; Some 3];
  r_y := [Some 1; Some 2; Some 3; Some 0]; r_b := []; r_r := [];
  i_f := [Some 1; Some 2]; i_b := []
|}.

Example ex_accepts : is_renaming ex_rho exX exX' = true.
Proof. vm_compute. reflexivity. Qed.

(* the validator is not trivially true: a target whose constant differs is rejected, and so is a
   non-injective function map *)
Example ex_rejects_constant :
  is_renaming ex_rho exX (with_consts exX' [XInt 6]) = false.
Proof. vm_compute. reflexivity. Qed.

Example ex_rejects_row :
  is_renaming ex_rho exX
    {| x_consts := x_consts exX'; x_funcs := x_funcs exX'; x_tuples := x_tuples exX'; x_types := x_types exX';
       x_builtins := []; x_resources := []; x_entry := 1;
       x_rows := [None; None; Some {| w_int := false; w_bin := false; w_ref := false; w_tuples := [false; false; true; false];
                                      w_funs := []; w_builtins := []; w_procs := []; w_res := [] |}; None];
       x_canon := x_canon exX' |} = false.
Proof. vm_compute. reflexivity. Qed.

Definition quiet : ext := {| x_value := None; x_bool := false |}.

(* both programs run to completion from their entries; the results are related (P[5] under ids 2 / 3) *)
Example ex_runs :
  xrun exX (fun _ _ => false) (init_state 2 [] vnil false) (repeat quiet 16) =
    Finished (VTuple 2 [VInt 5]) {| stack := []; locals := []; frames := []; persistent := false |} /\
  xrun exX' (fun _ _ => false) (init_state 1 [] vnil false) (repeat quiet 16) =
    Finished (VTuple 3 [VInt 5]) {| stack := []; locals := []; frames := []; persistent := false |}.
Proof. split; vm_compute; reflexivity. Qed.

(* the hypotheses of renaming_simulation are met by this instance *)
Example ex_simulation_applies :
  rrel ex_rho (xrun exX (fun _ _ => false) (init_state 2 [] vnil false) (repeat quiet 16))
              (xrun exX' (fun _ _ => false) (init_state 1 [] vnil false) (repeat quiet 16)).
Proof.
  apply (renaming_simulation ex_rho exX exX' ex_accepts).
  - reflexivity.
  - constructor.
  - constructor; [reflexivity | constructor].
  - repeat constructor.
  - vm_compute. repeat split.
Qed.

(* the relaxation is exercised: OK has no Type::Tuple entry in exX, so its tag is not compared *)
Example ex_ok_untyped : has_tuple_entry exX OK = false /\ has_tuple_entry exX 2 = true.
Proof. split; reflexivity. Qed.

(* --- value_reemit is not vacuous: a module value with a closure over an integer and a binary,
   inside a named tuple; emitted into a program that already holds one of the constants *)
Definition exM : xprogram := {|
  x_consts := [XInt 5];
  x_funcs := [ {| xf_code := [IPop; ILoad 0]; xf_caps := 2; xf_type := 0 |};
               {| xf_code := [IPop]; xf_caps := 0; xf_type := 0 |} ];
  x_tuples := [ {| xt_name := None; xt_fields := [] |}; {| xt_name := Some s_ok; xt_fields := [] |};
                {| xt_name := Some s_p; xt_fields := [(Some s_x, 0); (None, 0)] |} ];
  x_types := [TInt]; x_builtins := [ {| xb_name := s_q; xb_param := 0; xb_result := 0 |} ];
  x_resources := []; x_entry := 1; x_rows := []; x_canon := [0; 1; 2]
|}.
Definition ex_bytes (h : nat) : list Z := [104; 105]%Z.
Definition ex_value : value := VTuple 2 [VFun 0 [VInt 5; VBin 9]; VTuple 2 [VInt 7; VBuiltin 0]].

Example ex_emit :
  option_map snd (emit_cached ex_bytes ex_value exM) =
  Some [IConstant 0; IConstant 1; IFunction 0; IConstant 2; IBuiltin 0; ITuple 2; ITuple 2].
Proof. vm_compute. reflexivity. Qed.

Example ex_emit_wf : wfx exM ex_value.
Proof.
  unfold ex_value. econstructor; [reflexivity | reflexivity |].
  repeat constructor.
  - econstructor; [reflexivity | reflexivity | repeat constructor].
  - econstructor; [reflexivity | reflexivity | repeat constructor].
Qed.

(* the imported function is spliced into a new top-level function (index 2) and run there *)
Example ex_emit_runs :
  match emit_cached ex_bytes ex_value exM with
  | Some (X1, code) =>
      let Y := with_funcs X1 (x_funcs X1 ++ [ {| xf_code := [IPop] ++ code ++ [IStore]; xf_caps := 0; xf_type := 0 |} ]) in
      run (project Y) (at_pc [] [] 2 0 0 1 [] false) (emit_inputs ex_value) =
      Next (at_pc [ex_value] [] 2 0 0 8 [] false)
  | None => False
  end.
Proof. vm_compute. reflexivity. Qed.
End Examples.
