(* RemapWf.v — the bytecode verifier's verdict (C07, vm/Wf.v) is stable under an accepted renaming:
   every function the renaming maps is accepted in the target program with the SAME annotation. *)
From Quiver Require Import vm.Wf vm.Remap vm.RemapProofs.

Section WFREN.
Variable rho : renaming.
Variable X X' : xprogram.
Hypothesis HR : struct_ok rho X X' = true.
Let P := project X.
Let P' := project X'.
Let FX := the_facts rho X X' HR.

Lemma type_range y y' : app (r_y rho) y = Some y' -> y < p_ntypes P /\ y' < p_ntypes P'.
Proof.
  intros E. pose proof (F_type _ _ _ FX _ _ E) as H. unfold chk_type in H.
  destruct (nth_error (x_types X) y) as [a|] eqn:A; [|discriminate].
  destruct (nth_error (x_types X') y') as [a'|] eqn:B; [|discriminate].
  unfold P, P', project; cbn [p_ntypes]. split; apply nth_error_Some; congruence.
Qed.

Lemma transfer_ren k len pc i i' a : instr_img rho i i' = true ->
  transfer P k len pc i a = transfer P' k len pc i' a.
Proof.
  intros H. apply (instr_ok_inv rho) in H. destruct i; cbv beta iota in H; try (subst i'; reflexivity).
  - destruct H as (k' & Hk & ->). destruct (const_facts rho X X' HR _ _ Hk) as (c & A & B).
    cbn [transfer]. fold P in A. fold P' in B.
    replace (k0 <? length (p_consts P)) with true by (symmetry; apply Nat.ltb_lt, nth_error_Some; congruence).
    replace (k' <? length (p_consts P')) with true by (symmetry; apply Nat.ltb_lt, nth_error_Some; congruence).
    reflexivity.
  - destruct H as (t' & Ht & ->). destruct (tuple_arity rho X X' HR _ _ Ht) as (n & A & B).
    cbn [transfer]. fold P in A. fold P' in B. rewrite A, B. reflexivity.
  - destruct H as (y' & Hy & -> & _). destruct (type_range _ _ Hy) as [A B].
    cbn [transfer]. apply Nat.ltb_lt in A. apply Nat.ltb_lt in B. rewrite A, B. reflexivity.
  - destruct H as (f' & Hf & ->). destruct (fun_defined rho X X' HR _ _ Hf) as (fd & fd' & A & B & C).
    cbn [transfer]. fold P in A. fold P' in B. rewrite A, B, C. reflexivity.
  - destruct H as (b' & Hb & ->). destruct (builtin_range rho X X' HR _ _ Hb) as [A B].
    cbn [transfer]. fold P in A. fold P' in B. apply Nat.ltb_lt in A. apply Nat.ltb_lt in B. rewrite A, B. reflexivity.
  - destruct H as (f' & Hf & ->). destruct (fun_defined rho X X' HR _ _ Hf) as (fd & fd' & A & B & C).
    cbn [transfer]. fold P in A. fold P' in B.
    replace (f <? length (p_funcs P)) with true by (symmetry; apply Nat.ltb_lt, nth_error_Some; congruence).
    replace (f' <? length (p_funcs P')) with true by (symmetry; apply Nat.ltb_lt, nth_error_Some; congruence).
    reflexivity.
Qed.

Lemma check_pc_ren k code code' A pc :
  Forall2 (fun i j => instr_img rho i j = true) code code' ->
  check_pc P k code A pc = check_pc P' k code' A pc.
Proof.
  intros Hc. unfold check_pc. destruct (nth_error A pc) as [[a|]|]; try reflexivity.
  pose proof (Forall2_nth _ _ _ Hc pc) as G. rewrite <- (Forall2_len _ _ _ Hc).
  destruct (nth_error code pc) as [i|], (nth_error code' pc) as [i'|]; try contradiction; [|reflexivity].
  rewrite (transfer_ren k (length code) pc i i' a G). reflexivity.
Qed.

(* wf_stable_under_renaming, per function: same certificate *)
Theorem check_function_ren f f' fd fd' A :
  app (r_f rho) f = Some f' ->
  nth_error (p_funcs P) f = Some fd -> nth_error (p_funcs P') f' = Some fd' ->
  check_function P fd A = true -> check_function P' fd' A = true.
Proof.
  intros Hf Hfd Hfd' Hc. destruct (fun_facts rho X X' HR _ _ Hf) as (xd & xd' & A1 & B1 & C1 & Hcode).
  unfold P, project in Hfd; cbn [p_funcs] in Hfd. rewrite (nth_error_map_some erase_func _ _ _ A1) in Hfd. inv Hfd.
  unfold P', project in Hfd'; cbn [p_funcs] in Hfd'. rewrite (nth_error_map_some erase_func _ _ _ B1) in Hfd'. inv Hfd'.
  unfold check_function, check_function_at in *. cbn [erase_func f_code f_caps] in *.
  rewrite <- C1, <- (Forall2_len _ _ _ Hcode).
  apply andb_true_iff in Hc as [Hc H3]. rewrite Hc. cbn [andb].
  rewrite forallb_forall in *. intros pc Hpc. rewrite <- (check_pc_ren _ _ _ _ _ Hcode). apply H3. exact Hpc.
Qed.

End WFREN.

Lemma check_all_nth' P fs : forall Bs, check_all P fs Bs = true ->
  forall f fd, nth_error fs f = Some fd -> exists A, nth_error Bs f = Some A /\ check_function P fd A = true.
Proof.
  induction fs as [|fd0 fs IH]; intros [|A0 Bs] H f fd E; cbn [check_all] in H; try discriminate.
  - destruct f; discriminate.
  - apply andb_true_iff in H. destruct H as [H0 H1].
    destruct f as [|f]; cbn [nth_error] in *; [inv E; eauto | eapply IH; eauto].
Qed.

(* wf_stable_under_renaming: a verified program stays verified, certificate for certificate, on
   everything the renaming maps (i.e. everything reachable from the entry). The target may hold
   other programs' functions (merge): nothing is claimed about those. *)
Theorem wf_stable_under_struct rho X X' As : struct_ok rho X X' = true ->
  check_program (project X) As = true ->
  forall f f', app (r_f rho) f = Some f' ->
  exists A fd', nth_error As f = Some A /\ nth_error (p_funcs (project X')) f' = Some fd' /\
                check_function (project X') fd' A = true.
Proof.
  intros HR HC f f' Hf. destruct (fun_defined rho X X' HR _ _ Hf) as (fd & fd' & A1 & B1 & _).
  destruct (check_all_nth' _ _ _ HC _ _ A1) as (A & HA & Hchk).
  exists A, fd'. repeat split; auto. eapply check_function_ren; eauto.
Qed.

Theorem wf_stable_under_renaming rho X X' As : is_renaming rho X X' = true ->
  check_program (project X) As = true ->
  forall f f', app (r_f rho) f = Some f' ->
  exists A fd', nth_error As f = Some A /\ nth_error (p_funcs (project X')) f' = Some fd' /\
                check_function (project X') fd' A = true.
Proof. intros HR. apply is_renaming_split in HR. apply wf_stable_under_struct. apply HR. Qed.
