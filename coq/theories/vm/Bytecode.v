(* Bytecode.v — quiver-core/src/bytecode.rs, value.rs: instructions, values, program tables.
   Indices are nat (they index lists); jump offsets are Z (isize). *)
From Coq Require Export List ZArith Bool Lia.
Export ListNotations.

Inductive instr :=
| IConstant (k : nat) | IPop | IDuplicate | IPick (n : nat) | IRotate (n : nat) | IReset (i : nat)
| ILoad (i : nat) | IStore | ITuple (t : nat) | IGet (i : nat) | IIsType (t : nat)
| IJump (off : Z) | IJumpIf (off : Z) | ICall | ITailCall (recurse : bool) | IFunction (f : nat)
| IBuiltin (b : nat) | IEqual (n : nat) | INot | ISpawn | ISend | ISelf | ISelect
| IProcess (pid f : nat).

(* value.rs: Value. Binaries are opaque handles here (their storage is the subject of C06). *)
Inductive value :=
| VInt (z : Z)
| VBin (h : nat)
| VRef (r : nat)
| VTuple (t : nat) (fs : list value)
| VFun (f : nat) (caps : list value)
| VBuiltin (b : nat)
| VProc (pid f : nat)
| VRes (rid ty : nat).

Definition NIL : nat := 0.
Definition OK : nat := 1.
Definition vnil : value := VTuple NIL [].
Definition vok : value := VTuple OK [].
(* Value::is_nil *)
Definition is_nil (v : value) : bool :=
  match v with VTuple t [] => Nat.eqb t NIL | _ => false end.

Inductive constant := CInt (z : Z) | CBin.

Record func := { f_code : list instr; f_caps : nat }.

(* what the executor keeps of a program (executor.rs: constants, functions, tuples = arities,
   builtins, type_compatibility has one row per type id) *)
Record program := {
  p_consts : list constant;
  p_funcs : list func;
  p_tuples : list nat;       (* arity per tuple id *)
  p_nbuiltins : nat;
  p_ntypes : nat;
}.
