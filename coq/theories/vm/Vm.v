(* Vm.v — the per-process machine of quiver-core/src/executor.rs: operand stack, locals, frames,
   the 24 instruction handlers and the frame auto-pop of Executor::step, for ONE process.

   What is abstracted: everything whose *value* comes from outside the process is an input `ext`
   of the step (the result of a builtin call, the pid returned to a spawner, the value a select
   completes with, the verdict of IsType/Equal on opaque data). The stack/locals/frames discipline
   — the subject of C07 and C16 — is modelled exactly, including the order of pops and every
   error arm. Structural faults are the errors C07 says verified code can never reach. *)
From Quiver Require Export vm.Bytecode.

Record frame := { fr_fn : nat; fr_base : nat; fr_caps : nat; fr_pc : nat }.

(* stack: head = top.  locals: index 0 first (Vec order). frames: head = innermost. *)
Record state := {
  stack : list value;
  locals : list value;
  frames : list frame;
  persistent : bool;
}.

Inductive fault :=
(* structural: C07 says these are unreachable for verified code *)
| FStackUnderflow | FFrameUnderflow | FVariableUndefined | FConstantUndefined | FFunctionUndefined
| FBuiltinUndefined | FUnknownTuple | FJumpOut | FPanicRotate0 | FPanicEqual0 | FNoResult
(* type-level / value-domain: C01/C12 territory, not structural *)
| FTypeMismatch | FFieldAccessInvalid | FCallInvalid | FBuiltinError.

Definition structural (f : fault) : bool :=
  match f with
  | FTypeMismatch | FFieldAccessInvalid | FCallInvalid | FBuiltinError => false
  | _ => true
  end.

Inductive sres :=
| Next (s : state)
| Finished (v : value) (s : state)   (* frames empty: the process result, executor.rs:1216 *)
| Fault (f : fault).

(* inputs from outside the process consumed by one step *)
Record ext := {
  x_value : option value;     (* builtin result (None = builtin error) / spawned pid / select result *)
  x_bool : bool;              (* verdict of IsType, of Equal on the operands *)
}.

Section VM.
Variable P : program.

Definition set_pc (fr : frame) (pc : nat) : frame :=
  {| fr_fn := fr_fn fr; fr_base := fr_base fr; fr_caps := fr_caps fr; fr_pc := pc |}.

Definition bump (s : state) : state :=
  match frames s with
  | fr :: rest => {| stack := stack s; locals := locals s; frames := set_pc fr (S (fr_pc fr)) :: rest; persistent := persistent s |}
  | [] => s
  end.

Definition with_stack (s : state) (st : list value) : state :=
  {| stack := st; locals := locals s; frames := frames s; persistent := persistent s |}.
Definition with_locals (s : state) (l : list value) : state :=
  {| stack := stack s; locals := l; frames := frames s; persistent := persistent s |}.
Definition with_frames (s : state) (f : list frame) : state :=
  {| stack := stack s; locals := locals s; frames := f; persistent := persistent s |}.

(* pop n values: returns them in push order (deepest first), as handle_tuple/handle_function/
   handle_equal do after `values.reverse()` *)
Fixpoint popn (n : nat) (st : list value) (acc : list value) : option (list value * list value) :=
  match n with
  | O => Some (acc, st)
  | S m => match st with v :: t => popn m t (v :: acc) | [] => None end
  end.

Definition jump_target (pc : nat) (off : Z) : Z := (Z.of_nat pc + off + 1)%Z.

Definition code_of (fn : nat) : option (list instr) := option_map f_code (nth_error (p_funcs P) fn).

(* One instruction of the top frame (execute_hot / execute_cold), or — when the frame's code is
   exhausted — the frame auto-pop of Executor::step (executor.rs:1158-1203). *)
Definition step (s : state) (x : ext) : sres :=
  match frames s with
  | [] =>
      (* finished: executor.rs:1208 pops the result *)
      match stack s with
      | v :: st => Finished v (with_stack s st)
      | [] => Fault FNoResult
      end
  | fr :: rest =>
    match code_of (fr_fn fr) with
    | None => Fault FFunctionUndefined       (* functions[frame.function_index] index panic *)
    | Some code =>
      match nth_error code (fr_pc fr) with
      | None =>
          (* frame exhausted: pop it, clear its locals unless persistent top-level, bump caller *)
          let is_last := match rest with [] => true | _ => false end in
          let keep := persistent s && is_last in
          let l' := if keep then locals s else firstn (fr_base fr) (locals s) in
          Next (bump {| stack := stack s; locals := l'; frames := rest; persistent := persistent s |})
      | Some i =>
        match i with
        | IConstant k =>
            match nth_error (p_consts P) k with
            | Some (CInt z) => Next (bump (with_stack s (VInt z :: stack s)))
            | Some CBin => match x_value x with
                           | Some v => Next (bump (with_stack s (v :: stack s)))
                           | None => Fault FBuiltinError   (* allocate_binary failed *)
                           end
            | None => Fault FConstantUndefined
            end
        | IPop =>
            match stack s with _ :: st => Next (bump (with_stack s st)) | [] => Fault FStackUnderflow end
        | IDuplicate =>
            match stack s with v :: _ => Next (bump (with_stack s (v :: stack s))) | [] => Fault FStackUnderflow end
        | IPick n =>
            match nth_error (stack s) n with
            | Some v => Next (bump (with_stack s (v :: stack s)))
            | None => Fault FStackUnderflow
            end
        | IRotate n =>
            (* len < n -> StackUnderflow; n = 0 -> Vec::remove(len) panics *)
            if length (stack s) <? n then Fault FStackUnderflow
            else match n with
                 | O => Fault FPanicRotate0
                 | S m => match nth_error (stack s) m with
                          | Some v => Next (bump (with_stack s (v :: firstn m (stack s) ++ skipn n (stack s))))
                          | None => Fault FStackUnderflow
                          end
                 end
        | ILoad idx =>
            match nth_error (locals s) (fr_base fr + idx) with
            | Some v => Next (bump (with_stack s (v :: stack s)))
            | None => Fault FVariableUndefined
            end
        | IStore =>
            match stack s with
            | v :: st => Next (bump {| stack := st; locals := locals s ++ [v]; frames := frames s; persistent := persistent s |})
            | [] => Fault FStackUnderflow
            end
        | ITuple t =>
            match nth_error (p_tuples P) t with
            | None => Fault FUnknownTuple
            | Some arity =>
                match popn arity (stack s) [] with
                | Some (fs, st) => Next (bump (with_stack s (VTuple t fs :: st)))
                | None => Fault FStackUnderflow
                end
            end
        | IGet idx =>
            match stack s with
            | VTuple _ fs :: st =>
                match nth_error fs idx with
                | Some v => Next (bump (with_stack s (v :: st)))
                | None => Fault FFieldAccessInvalid
                end
            | _ :: _ => Fault FTypeMismatch
            | [] => Fault FStackUnderflow
            end
        | IIsType _ =>
            match stack s with
            | _ :: st => Next (bump (with_stack s ((if x_bool x then vok else vnil) :: st)))
            | [] => Fault FStackUnderflow
            end
        | IJump off =>
            let t := jump_target (fr_pc fr) off in
            if ((t <? 0) || (Z.of_nat (length code) <? t))%Z then Fault FJumpOut
            else Next (with_frames s (set_pc fr (Z.to_nat t) :: rest))
        | IJumpIf off =>
            match stack s with
            | c :: st =>
                if is_nil c then Next (bump (with_stack s st))
                else
                  let t := jump_target (fr_pc fr) off in
                  if ((t <? 0) || (Z.of_nat (length code) <? t))%Z then Fault FJumpOut
                  else Next {| stack := st; locals := locals s; frames := set_pc fr (Z.to_nat t) :: rest; persistent := persistent s |}
            | [] => Fault FStackUnderflow
            end
        | ICall =>
            match stack s with
            | VFun f caps :: st =>
                match nth_error (p_funcs P) f with
                | None => Fault FFunctionUndefined
                | Some _ =>
                    match st with
                    | param :: st' =>
                        let base := length (locals s) in
                        Next {| stack := param :: st'; locals := locals s ++ caps;
                                frames := {| fr_fn := f; fr_base := base; fr_caps := length caps; fr_pc := 0 |} :: frames s;
                                persistent := persistent s |}
                    | [] => Fault FStackUnderflow
                    end
                end
            | VBuiltin _ :: st =>
                match st with
                | _ :: st' =>
                    match x_value x with
                    | Some v => Next (bump (with_stack s (v :: st')))
                    | None => Fault FBuiltinError
                    end
                | [] => Fault FStackUnderflow
                end
            | _ :: _ => Fault FTypeMismatch
            | [] => Fault FStackUnderflow
            end
        | ITailCall true =>
            match stack s with
            | arg :: st =>
                Next {| stack := arg :: st; locals := firstn (fr_base fr + fr_caps fr) (locals s);
                        frames := set_pc fr 0 :: rest; persistent := persistent s |}
            | [] => Fault FStackUnderflow
            end
        | ITailCall false =>
            match stack s with
            | fv :: arg :: st =>
                match fv with
                | VFun f caps =>
                    match nth_error (p_funcs P) f with
                    | None => Fault FFunctionUndefined
                    | Some _ =>
                        Next {| stack := arg :: st; locals := firstn (fr_base fr) (locals s) ++ caps;
                                frames := {| fr_fn := f; fr_base := fr_base fr; fr_caps := length caps; fr_pc := 0 |} :: rest;
                                persistent := persistent s |}
                    end
                | _ => Fault FCallInvalid
                end
            | _ => Fault FStackUnderflow
            end
        | IFunction f =>
            match nth_error (p_funcs P) f with
            | None => Fault FFunctionUndefined
            | Some fd =>
                match popn (f_caps fd) (stack s) [] with
                | Some (caps, st) => Next (bump (with_stack s (VFun f caps :: st)))
                | None => Fault FStackUnderflow
                end
            end
        | IReset idx =>
            let target := fr_base fr + idx in
            if length (locals s) <? target then Fault FStackUnderflow
            else Next (bump (with_locals s (firstn target (locals s))))
        | IBuiltin b =>
            if p_nbuiltins P <=? b then Fault FBuiltinUndefined
            else Next (bump (with_stack s (VBuiltin b :: stack s)))
        | IEqual n =>
            if length (stack s) <? n then Fault FStackUnderflow
            else match popn n (stack s) [] with
                 | Some (vs, st) =>
                     match vs with
                     | [] => Fault FPanicEqual0       (* values[0] index panic *)
                     | _ :: _ => Next (bump (with_stack s ((if x_bool x then vok else vnil) :: st)))
                     end
                 | None => Fault FStackUnderflow
                 end
        | INot =>
            match stack s with
            | v :: st => Next (bump (with_stack s ((if is_nil v then vok else vnil) :: st)))
            | [] => Fault FStackUnderflow
            end
        | ISpawn =>
            (* pops function then argument; the caller is parked until notify_spawn pushes the pid *)
            match stack s with
            | fv :: _ :: st =>
                match fv with
                | VFun _ _ => match x_value x with
                              | Some pid => Next (bump (with_stack s (pid :: st)))
                              | None => Fault FBuiltinError
                              end
                | _ => Fault FTypeMismatch
                end
            | _ => Fault FStackUnderflow
            end
        | ISend =>
            match stack s with
            | target :: _ :: st =>
                match target with
                | VProc _ _ => Next (bump (with_stack s (target :: st)))
                | _ => Fault FTypeMismatch
                end
            | _ => Fault FStackUnderflow
            end
        | ISelf =>
            (* frames.first() exists here (we are executing a frame), so FrameUnderflow is
               unreachable; the pushed handle is Process(own pid, root function) — own pid is an input *)
            let v := match x_value x with Some v => v | None => VProc 0 (fr_fn (last (frames s) fr)) end in
            Next (bump (with_stack s (v :: stack s)))
        | ISelect =>
            (* pops the source (tuple); completes with a value (complete_select), or the awaited
               process failed / a filter misbehaved (x_value = None) *)
            match stack s with
            | _ :: st => match x_value x with
                         | Some v => Next (bump (with_stack s (v :: st)))
                         | None => Fault FBuiltinError
                         end
            | [] => Fault FStackUnderflow
            end
        | IProcess pid f => Next (bump (with_stack s (VProc pid f :: stack s)))
        end
      end
    end
  end.

(* spawn_process (executor.rs:644): captures become the first locals, the argument is pushed *)
Definition init_state (fn : nat) (caps : list value) (arg : value) (pers : bool) : state :=
  {| stack := [arg]; locals := caps;
     frames := [{| fr_fn := fn; fr_base := 0; fr_caps := length caps; fr_pc := 0 |}];
     persistent := pers |}.

End VM.
