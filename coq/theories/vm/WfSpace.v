(* WfSpace.v — global space bounds read off the verifier's invariant (C16).
   For a verified program, in EVERY reachable state the operand stack holds at most
   (#frames) * Hmax values and the locals at most (#frames) * Lmax values above the bottom
   frame's base, where Hmax / Lmax are the largest stack height / locals count the verifier
   computed for any program point. Together with tailcall_constant_space (a tail call never adds
   a frame) this is the global form of "tail calls run in constant space": space is bounded by
   the depth of NON-tail calls only, whatever the number of tail-call iterations. *)
From Quiver Require Import vm.Wf vm.WfProofs vm.WfRun.

Section SPACE.
Variable P : program.
Variable As : list annot.

Definition Hmax : nat := fold_right (fun A m => Nat.max (max_height A) m) 0 As.
Definition Lmax : nat := fold_right (fun A m => Nat.max (max_locals A) m) 0 As.

Lemma in_annot_bounds (l : annot) a : In (Some a) l -> a_h a <= max_height l /\ a_hi a <= max_locals l.
Proof.
  induction l as [|o t IH]; intros Hb; [destruct Hb|].
  cbn [max_height max_locals fold_right]. destruct Hb as [->|Hb].
  - split; lia.
  - destruct (IH Hb) as [H1 H2]. fold (max_height t). fold (max_locals t). destruct o; split; lia.
Qed.

Lemma in_As_bounds A : In A As -> max_height A <= Hmax /\ max_locals A <= Lmax.
Proof.
  unfold Hmax, Lmax. induction As as [|B t IH]; intros Hin; [destruct Hin|].
  cbn [fold_right]. destruct Hin as [->|Hin].
  - split; lia.
  - destruct (IH Hin). split; lia.
Qed.

Lemma ann_bounds f pc a : ann As f pc = Some a -> a_h a <= Hmax /\ a_hi a <= Lmax.
Proof.
  unfold ann. destruct (nth_error As f) as [A|] eqn:EA; [|discriminate].
  destruct (nth_error A pc) as [[a0|]|] eqn:Ea; try discriminate. intros E; inversion E; subst a0.
  apply nth_error_In in EA. apply nth_error_In in Ea.
  destruct (in_annot_bounds A a Ea). destruct (in_As_bounds A EA). split; lia.
Qed.

(* base of the bottom (outermost) frame; d when there is none *)
Definition bottom_base (frs : list frame) (d : nat) : nat :=
  match frs with [] => d | fr :: rest => fr_base (last rest fr) end.

Lemma last_cons (l : list frame) x d : last (x :: l) d = last l x.
Proof.
  revert x d; induction l as [|y t IH]; intros x d; [reflexivity|].
  change (last (x :: y :: t) d) with (last (y :: t) d). rewrite (IH y d), (IH y x). reflexivity.
Qed.

Lemma susp_bounds frs : forall sb lb, susp P As frs sb lb ->
  sb <= length frs * Hmax /\ lb <= bottom_base frs lb + length frs * Lmax.
Proof.
  induction frs as [|c rest IH]; intros sb lb H; cbn [susp] in H.
  - subst sb. cbn [length bottom_base]. lia.
  - destruct H as [_ [a [Ha [_ [H2 [Hsb [_ [Hlb Hs]]]]]]]].
    destruct (ann_bounds _ _ _ Ha) as [Bh Bl].
    destruct (IH _ _ Hs) as [I1 I2].
    cbn [length]. split.
    + lia.
    + assert (Hbb : bottom_base rest (fr_base c) = bottom_base (c :: rest) lb).
      { unfold bottom_base. destruct rest as [|r rest']; [reflexivity|]. rewrite last_cons. reflexivity. }
      rewrite <- Hbb. lia.
Qed.

Theorem space_bound s fr rest : Inv P As s -> frames s = fr :: rest ->
  length (stack s) <= length (frames s) * Hmax /\
  length (locals s) <= bottom_base (frames s) 0 + length (frames s) * Lmax.
Proof.
  intros [_ [_ Hfr]] Efr. rewrite Efr in Hfr |- *.
  destruct Hfr as [_ [a [Ha [Hh [_ [Hl2 Hs]]]]]].
  destruct (ann_bounds _ _ _ Ha) as [Bh Bl].
  destruct (susp_bounds _ _ _ Hs) as [I1 I2].
  cbn [length]. split.
  - lia.
  - assert (Hbb : bottom_base rest (fr_base fr) = bottom_base (fr :: rest) 0).
    { unfold bottom_base. destruct rest as [|r rest']; [reflexivity|]. rewrite last_cons. reflexivity. }
    rewrite <- Hbb. lia.
Qed.

End SPACE.

(* ---------------------------------------------------------------- along executions *)
Section ALONG.
Variable P : program.

(* the frame list of the successor: the same frames with another pc on top, a pushed frame, the
   top frame replaced by one with the same base (tail call), or the top frame popped *)
Lemma bottom_base_set_pc fr rest pc d :
  bottom_base (set_pc fr pc :: rest) d = bottom_base (fr :: rest) d.
Proof. unfold bottom_base. destruct rest as [|r t]; [reflexivity|]. rewrite !last_cons. reflexivity. Qed.

Lemma bottom_base_push f fr rest d : bottom_base (f :: fr :: rest) d = bottom_base (fr :: rest) d.
Proof. unfold bottom_base. rewrite last_cons. reflexivity. Qed.

Lemma bottom_base_same_base f fr rest d : fr_base f = fr_base fr ->
  bottom_base (f :: rest) d = bottom_base (fr :: rest) d.
Proof. intros E. unfold bottom_base. destruct rest as [|r t]; [exact E|]. rewrite !last_cons. reflexivity. Qed.

Lemma bottom_base_bump s d : bottom_base (frames (bump s)) d = bottom_base (frames s) d.
Proof. unfold bump. destruct (frames s) as [|fr rest] eqn:E; [rewrite E; reflexivity|]. cbn [frames]. apply bottom_base_set_pc. Qed.

Lemma frames_bump_nil s : frames (bump s) = [] <-> frames s = [].
Proof. unfold bump. destruct (frames s) as [|fr rest] eqn:E; [rewrite E; tauto|]. cbn [frames]. split; discriminate. Qed.

Ltac fin_bump :=
  match goal with
  | H : Next _ = Next _ |- _ => inversion H; subst; clear H
  end;
  rewrite ?bottom_base_bump; cbn [frames with_stack with_locals with_frames];
  try reflexivity.

Theorem step_bottom_base s x s' d :
  step P s x = Next s' -> frames s' <> [] -> bottom_base (frames s') d = bottom_base (frames s) d.
Proof.
  unfold step. intros H Hne.
  destruct (frames s) as [|fr rest] eqn:Efr.
  { destruct (stack s); discriminate. }
  destruct (code_of P (fr_fn fr)) as [code|]; [|discriminate].
  destruct (nth_error code (fr_pc fr)) as [i|].
  2:{ (* frame exhausted: popped *)
      inversion H; subst s'; clear H. rewrite bottom_base_bump. cbn [frames].
      rewrite frames_bump_nil in Hne. cbn [frames] in Hne.
      destruct rest as [|r t]; [congruence|]. symmetry. apply bottom_base_push. }
  assert (B : forall st, frames st = fr :: rest -> bottom_base (frames (bump st)) d = bottom_base (fr :: rest) d).
  { intros st E. rewrite bottom_base_bump, E. reflexivity. }
  destruct i;
    repeat match type of H with
           | context [match ?e with _ => _ end] => destruct e eqn:?; try discriminate
           end;
    try (inversion H; subst s'; clear H;
         first [ apply B; cbn [frames with_stack with_locals with_frames]; assumption
               | cbn [frames with_stack with_locals with_frames];
                 first [ apply bottom_base_set_pc
                       | apply bottom_base_push
                       | apply bottom_base_same_base; reflexivity ] ]).
Qed.

End ALONG.

Section GLOBAL.
Variable P : program.
Variable As : list annot.
Hypothesis HC : check_program P As = true.

Lemma run_bottom_base xs : forall s0 s d,
  run P s0 xs = Next s -> frames s <> [] -> bottom_base (frames s) d = bottom_base (frames s0) d.
Proof.
  induction xs as [|x t IH]; intros s0 s d H Hne; cbn [run] in H.
  - inversion H; subst. reflexivity.
  - destruct (step P s0 x) as [s1| |] eqn:E; try discriminate.
    destruct (frames s1) as [|f1 r1] eqn:E1.
    + (* the process has no frame left: the next step finishes or faults, so t must be empty *)
      destruct t as [|y t']; cbn [run] in H.
      * inversion H; subst. congruence.
      * unfold step in H. rewrite E1 in H. destruct (stack s1); discriminate.
    + rewrite (IH _ _ d H Hne). apply (step_bottom_base P s0 x s1 d E). rewrite E1. discriminate.
Qed.

(* C16, global form: in every state a verified program reaches from a spawn, operand stack and
   locals are bounded by (number of frames) x (the verifier's per-point maxima). *)
Theorem run_space_bound fn fd caps arg pers xs s :
  nth_error (p_funcs P) fn = Some fd -> length caps = f_caps fd ->
  Forall (wfv P) caps -> wfv P arg -> Forall (ext_ok P) xs ->
  run P (init_state fn caps arg pers) xs = Next s -> frames s <> [] ->
  length (stack s) <= length (frames s) * Hmax As /\
  length (locals s) <= length (frames s) * Lmax As.
Proof.
  intros Hfd Hc Hcaps Harg Hxs Hrun Hne.
  pose proof (run_sound P As HC _ xs (init_inv P As HC fn fd caps arg pers Hfd Hc Hcaps Harg) Hxs) as G.
  rewrite Hrun in G. cbn [good] in G.
  destruct (frames s) as [|fr rest] eqn:Efr; [congruence|].
  destruct (space_bound P As s fr rest G Efr) as [B1 B2]. rewrite Efr in B1, B2.
  split; [exact B1|].
  assert (Hb : bottom_base (fr :: rest) 0 = 0).
  { rewrite <- Efr. rewrite (run_bottom_base xs _ _ 0 Hrun) by (rewrite Efr; discriminate). reflexivity. }
  rewrite Hb in B2. exact B2.
Qed.

(* ... and a tail call never adds a frame (tailcall_constant_space), so the number of frames —
   the only factor that can grow — counts pending NON-tail calls only. *)
Theorem tailcall_keeps_frame_count s x r s' :
  Inv P As s -> top_instr P s = Some (ITailCall r) -> step P s x = Next s' ->
  length (frames s') = length (frames s).
Proof.
  intros Hi Ht Hs. destruct (frames s) as [|fr rest] eqn:Efr.
  - unfold top_instr in Ht. rewrite Efr in Ht. discriminate.
  - destruct (tailcall_constant_space P As HC s x r s' fr rest Hi Efr Ht Hs) as [fr' [a [_ [_ [H _]]]]].
    rewrite H, Efr. reflexivity.
Qed.

End GLOBAL.

(* non-vacuity: the tail-call loop of WfExamples (fn2: store; load 0; tailcall ^) is verified, and
   after 20 iterations (60 instructions) it is where it started: one frame, one operand, and the
   bounds of run_space_bound are the small constants the verifier computed *)
From Quiver Require Import vm.WfExamples.
Example loop_space_nonvacuous :
  exists As, verify_program good_prog = Some As /\ Hmax As = 2 /\ Lmax As = 2 /\
  exists s, run good_prog (init_state 2 [] (VInt 5%Z) false)
                (repeat {| x_value := None; x_bool := false |} 60) = Next s /\
            length (frames s) = 1 /\ length (stack s) = 1 /\ length (locals s) = 0.
Proof. vm_compute. eexists. split; [reflexivity|]. split; [reflexivity|]. split; [reflexivity|].
       eexists. split; [reflexivity|]. split; [reflexivity|]. split; reflexivity. Qed.
