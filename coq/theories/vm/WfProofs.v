(* WfProofs.v — soundness of the bytecode verifier (C07): a program accepted by
   `check_program` never reaches a structural fault, on any execution, with any inputs from
   outside the process; every frame leaves exactly one value. *)
From Quiver Require Import vm.Wf.

Section SOUND.
Variable P : program.
Variable As : list annot.
Hypothesis HC : check_program P As = true.

(* ---------------------------------------------------------------- well-formed values *)
Fixpoint wfv (v : value) : Prop :=
  match v with
  | VTuple _ fs => (fix all (l : list value) : Prop := match l with [] => True | x :: t => wfv x /\ all t end) fs
  | VFun f caps =>
      (exists fd, nth_error (p_funcs P) f = Some fd /\ length caps = f_caps fd) /\
      (fix all (l : list value) : Prop := match l with [] => True | x :: t => wfv x /\ all t end) caps
  | _ => True
  end.

Lemma all_Forall (l : list value) :
  (fix all (l : list value) : Prop := match l with [] => True | x :: t => wfv x /\ all t end) l <-> Forall wfv l.
Proof.
  induction l as [|x t IH]; split; intros H.
  - constructor.
  - exact I.
  - destruct H as [Hx Ht]. constructor; [exact Hx | apply IH; exact Ht].
  - inversion H; subst. split; [assumption | apply IH; assumption].
Qed.

Lemma wfv_tuple t fs : wfv (VTuple t fs) <-> Forall wfv fs.
Proof. cbn [wfv]. apply all_Forall. Qed.

Lemma wfv_fun f caps :
  wfv (VFun f caps) <->
  (exists fd, nth_error (p_funcs P) f = Some fd /\ length caps = f_caps fd) /\ Forall wfv caps.
Proof. cbn [wfv]. rewrite all_Forall. reflexivity. Qed.

Lemma wfv_nil : wfv vnil. Proof. apply wfv_tuple. constructor. Qed.
Lemma wfv_ok : wfv vok. Proof. apply wfv_tuple. constructor. Qed.

(* ---------------------------------------------------------------- list helpers *)
Lemma popn_spec n : forall st acc vs st',
  popn n st acc = Some (vs, st') ->
  exists top, vs = rev top ++ acc /\ st = top ++ st' /\ length top = n.
Proof.
  induction n as [|n IH]; intros st acc vs st' H; cbn [popn] in H.
  - inversion H; subst. exists []. auto.
  - destruct st as [|v t]; [discriminate|].
    apply IH in H. destruct H as [top [Hv [Hs Hl]]].
    exists (v :: top). cbn [rev length]. rewrite <- app_assoc. cbn [app].
    split; [exact Hv|]. split; [rewrite Hs; reflexivity | lia].
Qed.

Lemma popn_some n : forall st acc, n <= length st -> exists vs st', popn n st acc = Some (vs, st').
Proof.
  induction n as [|n IH]; intros st acc H; cbn [popn].
  - eauto.
  - destruct st as [|v t]; [cbn in H; lia|]. apply IH. cbn in H. lia.
Qed.

Lemma Forall_firstn {X} (Q : X -> Prop) n l : Forall Q l -> Forall Q (firstn n l).
Proof. revert l; induction n as [|n IH]; intros [|x t] H; cbn; try constructor; inversion H; subst; auto. Qed.
Lemma Forall_skipn {X} (Q : X -> Prop) n l : Forall Q l -> Forall Q (skipn n l).
Proof. revert l; induction n as [|n IH]; intros [|x t] H; cbn; try assumption; inversion H; subst; auto. Qed.
Lemma Forall_nth {X} (Q : X -> Prop) l n x : Forall Q l -> nth_error l n = Some x -> Q x.
Proof. intros H E. rewrite Forall_forall in H. apply H. eapply nth_error_In; eauto. Qed.

(* ---------------------------------------------------------------- what the checker established *)
Definition ann (f pc : nat) : option astate :=
  match nth_error As f with
  | Some A => match nth_error A pc with Some o => o | None => None end
  | None => None
  end.

Lemma check_all_nth fs Bs : check_all P fs Bs = true ->
  forall f fd, nth_error fs f = Some fd -> exists A, nth_error Bs f = Some A /\ check_function P fd A = true.
Proof.
  revert Bs; induction fs as [|fd0 fs IH]; intros [|A0 Bs] H f fd E; cbn [check_all] in H; try discriminate.
  - destruct f; discriminate.
  - apply andb_true_iff in H. destruct H as [H0 H1].
    destruct f as [|f]; cbn [nth_error] in *.
    + inversion E; subst. eauto.
    + eapply IH; eauto.
Qed.

Lemma func_checked f fd : nth_error (p_funcs P) f = Some fd ->
  exists A, nth_error As f = Some A /\ check_function P fd A = true.
Proof. apply check_all_nth. exact HC. Qed.

Record fn_facts (fd : func) (A : annot) : Prop := {
  ff_len : length A = S (length (f_code fd));
  ff_entry : exists b, nth_error A 0 = Some (Some b) /\ a_h b = 1 /\ a_lo b <= f_caps fd <= a_hi b;
  ff_pc : forall pc, pc <= length (f_code fd) -> check_pc P (f_caps fd) (f_code fd) A pc = true;
}.

Lemma fits_spec a' b : fits a' b = true -> a_h b = a_h a' /\ a_lo b <= a_lo a' /\ a_hi a' <= a_hi b.
Proof.
  unfold fits. intros H. apply andb_true_iff in H. destruct H as [H H3]. apply andb_true_iff in H. destruct H as [H1 H2].
  apply Nat.eqb_eq in H1. apply Nat.leb_le in H2. apply Nat.leb_le in H3. auto.
Qed.

Lemma succ_ok_spec A pc a' : succ_ok A (pc, a') = true ->
  exists b, nth_error A pc = Some (Some b) /\ a_h b = a_h a' /\ a_lo b <= a_lo a' /\ a_hi a' <= a_hi b.
Proof.
  unfold succ_ok. cbn [fst snd]. destruct (nth_error A pc) as [[b|]|]; try discriminate.
  intros H. exists b. split; [reflexivity | apply fits_spec; assumption].
Qed.

Lemma check_function_facts fd A : check_function P fd A = true -> fn_facts fd A.
Proof.
  unfold check_function, check_function_at. intros H.
  apply andb_true_iff in H. destruct H as [H H3]. apply andb_true_iff in H. destruct H as [H1 H2].
  apply Nat.eqb_eq in H1. apply succ_ok_spec in H2. destruct H2 as [b [Hb [Hh [Hlo Hhi]]]]. cbn in Hh, Hlo, Hhi.
  constructor.
  - exact H1.
  - exists b. auto.
  - intros pc Hpc. rewrite forallb_forall in H3. apply H3. apply in_seq. lia.
Qed.

(* ---------------------------------------------------------------- the invariant *)
Definition frame_ok (fr : frame) : Prop :=
  exists fd, nth_error (p_funcs P) (fr_fn fr) = Some fd /\ fr_caps fr = f_caps fd.

Definition code (f : nat) : list instr :=
  match nth_error (p_funcs P) f with Some fd => f_code fd | None => [] end.

(* frames suspended at a Call: `sb` = operand-stack height below the callee's parameter slot,
   `lb` = number of locals when the call was made (= the callee's locals_base) *)
Fixpoint susp (frs : list frame) (sb lb : nat) : Prop :=
  match frs with
  | [] => sb = 0
  | c :: rest =>
      frame_ok c /\
      exists a, ann (fr_fn c) (fr_pc c) = Some a /\
                nth_error (code (fr_fn c)) (fr_pc c) = Some ICall /\
                2 <= a_h a /\ a_h a - 2 <= sb /\
                fr_base c + a_lo a <= lb /\ lb <= fr_base c + a_hi a /\
                susp rest (sb - (a_h a - 2)) (fr_base c)
  end.

Definition Inv (s : state) : Prop :=
  Forall wfv (stack s) /\ Forall wfv (locals s) /\
  match frames s with
  | [] => length (stack s) = 1
  | fr :: rest =>
      frame_ok fr /\
      exists a, ann (fr_fn fr) (fr_pc fr) = Some a /\
                a_h a <= length (stack s) /\
                fr_base fr + a_lo a <= length (locals s) /\ length (locals s) <= fr_base fr + a_hi a /\
                susp rest (length (stack s) - a_h a) (fr_base fr)
  end.

Definition ext_ok (x : ext) : Prop := match x_value x with Some v => wfv v | None => True end.

Definition good (r : sres) : Prop :=
  match r with
  | Next s' => Inv s'
  | Finished v s' => wfv v /\ stack s' = []
  | Fault f => structural f = false
  end.

(* the initial state of spawn_process satisfies the invariant *)
Lemma init_inv fn fd caps arg pers :
  nth_error (p_funcs P) fn = Some fd -> length caps = f_caps fd -> Forall wfv caps -> wfv arg ->
  Inv (init_state fn caps arg pers).
Proof.
  intros Hfd Hc Hcaps Harg. unfold Inv, init_state. cbn [stack locals frames].
  split; [constructor; [exact Harg | constructor]|]. split; [exact Hcaps|].
  split; [exists fd; cbn; auto|].
  destruct (func_checked fn fd Hfd) as [A [HA Hchk]]. apply check_function_facts in Hchk.
  destruct (ff_entry _ _ Hchk) as [b [Hb [Hh [Hlo Hhi]]]].
  exists b. cbn [fr_fn fr_pc fr_base length]. unfold ann. rewrite HA, Hb.
  repeat split; try lia. cbn [susp]. lia.
Qed.

(* generic re-establishment after an instruction that stays in the frame and falls through *)
Lemma inv_fallthrough s fr rest fd A a a' st' l' :
  frames s = fr :: rest -> nth_error (p_funcs P) (fr_fn fr) = Some fd -> fr_caps fr = f_caps fd ->
  nth_error As (fr_fn fr) = Some A ->
  succ_ok A (S (fr_pc fr), a') = true ->
  a_h a <= length (stack s) ->
  length st' + a_h a = length (stack s) + a_h a' ->
  fr_base fr + a_lo a' <= length l' -> length l' <= fr_base fr + a_hi a' ->
  susp rest (length (stack s) - a_h a) (fr_base fr) ->
  Forall wfv st' -> Forall wfv l' ->
  Inv (bump {| stack := st'; locals := l'; frames := fr :: rest; persistent := persistent s |}).
Proof.
  intros Hfr Hfd Hcaps HA Hs Hh Hlen Hlo Hhi Hsusp Hst Hl.
  apply succ_ok_spec in Hs. destruct Hs as [b [Hb [Hbh [Hblo Hbhi]]]].
  unfold bump. cbn [frames stack locals]. unfold Inv. cbn [stack locals frames].
  split; [exact Hst|]. split; [exact Hl|].
  split; [exists fd; cbn; auto|].
  exists b. cbn [set_pc fr_fn fr_pc fr_base]. unfold ann. rewrite HA, Hb.
  split; [reflexivity|]. split; [lia|]. split; [lia|]. split; [lia|].
  replace (length st' - a_h b) with (length (stack s) - a_h a) by lia. exact Hsusp.
Qed.


(* ---------------------------------------------------------------- one step, case by case *)
Ltac cond H :=
  match type of H with
  | (if ?c then _ else _) = _ => let E := fresh "C" in destruct c eqn:E; [|discriminate H]
  | match ?c with _ => _ end = _ => let E := fresh "C" in destruct c eqn:E; try discriminate H
  end.
Ltac bools :=
  repeat match goal with
         | H : (_ && _) = true |- _ => apply andb_true_iff in H; destruct H
         | H : (_ <=? _) = true |- _ => apply Nat.leb_le in H
         | H : (_ <? _) = true |- _ => apply Nat.ltb_lt in H
         | H : (_ =? _) = true |- _ => apply Nat.eqb_eq in H
         | H : (_ <=? _)%Z = true |- _ => apply Z.leb_le in H
         | H : (_ <? _) = false |- _ => apply Nat.ltb_ge in H
         | H : (_ <=? _) = false |- _ => apply Nat.leb_gt in H
         end.

Section STEP.
Variables (s : state) (x : ext) (fr : frame) (rest : list frame) (fd : func) (A : annot) (a : astate).
Hypothesis Hst : Forall wfv (stack s).
Hypothesis Hlo : Forall wfv (locals s).
Hypothesis Hx : ext_ok x.
Hypothesis Efr : frames s = fr :: rest.
Hypothesis Hfd : nth_error (p_funcs P) (fr_fn fr) = Some fd.
Hypothesis Hcaps : fr_caps fr = f_caps fd.
Hypothesis HA : nth_error As (fr_fn fr) = Some A.
Hypothesis Hfacts : fn_facts fd A.
Hypothesis HApc : nth_error A (fr_pc fr) = Some (Some a).
Hypothesis Hh : a_h a <= length (stack s).
Hypothesis Hl1 : fr_base fr + a_lo a <= length (locals s).
Hypothesis Hl2 : length (locals s) <= fr_base fr + a_hi a.
Hypothesis Hsusp : susp rest (length (stack s) - a_h a) (fr_base fr).

Let k := f_caps fd.
Let len := length (f_code fd).
Let pc := fr_pc fr.

(* fall-through successor: the usual shape *)
Lemma ft a' st' l' :
  forallb (succ_ok A) [(S pc, a')] = true ->
  length st' + a_h a = length (stack s) + a_h a' ->
  fr_base fr + a_lo a' <= length l' -> length l' <= fr_base fr + a_hi a' ->
  Forall wfv st' -> Forall wfv l' ->
  Inv (bump {| stack := st'; locals := l'; frames := fr :: rest; persistent := persistent s |}).
Proof.
  intros Hs. cbn [forallb] in Hs. apply andb_true_iff in Hs. destruct Hs as [Hs _].
  intros. eapply inv_fallthrough; eauto.
Qed.

Lemma with_stack_eq st' : with_stack s st' = {| stack := st'; locals := locals s; frames := fr :: rest; persistent := persistent s |}.
Proof. unfold with_stack. rewrite Efr. reflexivity. Qed.
Lemma with_locals_eq l' : with_locals s l' = {| stack := stack s; locals := l'; frames := fr :: rest; persistent := persistent s |}.
Proof. unfold with_locals. rewrite Efr. reflexivity. Qed.

Ltac nostack Es := exfalso; pose proof Hh as Hh'; rewrite Es in Hh'; cbn in Hh'; lia.
Ltac fin := cbn [length a_h a_lo a_hi mk]; rewrite ?app_length, ?firstn_length, ?skipn_length; cbn [length]; try lia.
Ltac start Et := unfold transfer in Et; fold k in Et; fold pc in Et.

Lemma xval_wf v : x_value x = Some v -> wfv v.
Proof. intros E. unfold ext_ok in Hx. rewrite E in Hx. exact Hx. Qed.

Lemma stack_cons v st : stack s = v :: st -> wfv v /\ Forall wfv st /\ length (stack s) = S (length st).
Proof. intros E. rewrite E in Hst. inversion Hst; subst. rewrite E. cbn. auto. Qed.

Lemma case_constant c scs : transfer P k len pc (IConstant c) a = Some scs -> forallb (succ_ok A) scs = true ->
  good (match nth_error (p_consts P) c with
        | Some (CInt z) => Next (bump (with_stack s (VInt z :: stack s)))
        | Some CBin => match x_value x with
                       | Some v => Next (bump (with_stack s (v :: stack s)))
                       | None => Fault FBuiltinError
                       end
        | None => Fault FConstantUndefined
        end).
Proof.
  intros Et Hck. start Et. cond Et. bools. inversion Et; subst scs; clear Et.
  destruct (nth_error (p_consts P) c) as [[z|]|] eqn:Ec.
  - cbn [good]. rewrite with_stack_eq. eapply ft; [exact Hck | fin | fin | fin | | exact Hlo].
    constructor; [exact I | exact Hst].
  - destruct (x_value x) as [v|] eqn:Ev; [|reflexivity].
    cbn [good]. rewrite with_stack_eq. eapply ft; [exact Hck | fin | fin | fin | | exact Hlo].
    constructor; [apply xval_wf; assumption | exact Hst].
  - apply nth_error_None in Ec. lia.
Qed.

Lemma case_pop scs : transfer P k len pc IPop a = Some scs -> forallb (succ_ok A) scs = true ->
  good (match stack s with _ :: st => Next (bump (with_stack s st)) | [] => Fault FStackUnderflow end).
Proof.
  intros Et Hck. start Et. cond Et. bools. inversion Et; subst scs; clear Et.
  case_eq (stack s); [intros Es; nostack Es | intros v st Es].
  destruct (stack_cons _ _ Es) as [Hv [Hst' Hlen]].
  cbn [good]. rewrite with_stack_eq. eapply ft; [exact Hck | fin | fin | fin | exact Hst' | exact Hlo].
Qed.

Lemma case_dup scs : transfer P k len pc IDuplicate a = Some scs -> forallb (succ_ok A) scs = true ->
  good (match stack s with v :: _ => Next (bump (with_stack s (v :: stack s))) | [] => Fault FStackUnderflow end).
Proof.
  intros Et Hck. start Et. cond Et. bools. inversion Et; subst scs; clear Et.
  case_eq (stack s); [intros Es; nostack Es | intros v st Es].
  destruct (stack_cons _ _ Es) as [Hv [Hst' Hlen]].
  cbn [good]. rewrite with_stack_eq. eapply ft; [exact Hck | fin | fin | fin | | exact Hlo].
  constructor; [exact Hv | constructor; assumption].
Qed.

Lemma case_pick n scs : transfer P k len pc (IPick n) a = Some scs -> forallb (succ_ok A) scs = true ->
  good (match nth_error (stack s) n with
        | Some v => Next (bump (with_stack s (v :: stack s)))
        | None => Fault FStackUnderflow
        end).
Proof.
  intros Et Hck. start Et. cond Et. bools. inversion Et; subst scs; clear Et.
  destruct (nth_error (stack s) n) as [v|] eqn:En.
  - cbn [good]. rewrite with_stack_eq. eapply ft; [exact Hck | fin | fin | fin | | exact Hlo].
    constructor; [exact (Forall_nth wfv _ _ _ Hst En) | exact Hst].
  - apply nth_error_None in En. lia.
Qed.

Lemma case_rotate n scs : transfer P k len pc (IRotate n) a = Some scs -> forallb (succ_ok A) scs = true ->
  good (if length (stack s) <? n then Fault FStackUnderflow
        else match n with
             | O => Fault FPanicRotate0
             | S m => match nth_error (stack s) m with
                      | Some v => Next (bump (with_stack s (v :: firstn m (stack s) ++ skipn n (stack s))))
                      | None => Fault FStackUnderflow
                      end
             end).
Proof.
  intros Et Hck. start Et. cond Et. bools. inversion Et; subst scs; clear Et.
  destruct (length (stack s) <? n) eqn:El; bools; [lia|].
  destruct n as [|m]; [lia|].
  destruct (nth_error (stack s) m) as [v|] eqn:En; [|apply nth_error_None in En; lia].
  cbn [good]. rewrite with_stack_eq. eapply ft; [exact Hck | fin | fin | fin | | exact Hlo].
  constructor; [exact (Forall_nth wfv _ _ _ Hst En)|]. apply Forall_app. split; [apply Forall_firstn | apply Forall_skipn]; exact Hst.
Qed.

Lemma case_load idx scs : transfer P k len pc (ILoad idx) a = Some scs -> forallb (succ_ok A) scs = true ->
  good (match nth_error (locals s) (fr_base fr + idx) with
        | Some v => Next (bump (with_stack s (v :: stack s)))
        | None => Fault FVariableUndefined
        end).
Proof.
  intros Et Hck. start Et. cond Et. bools. inversion Et; subst scs; clear Et.
  destruct (nth_error (locals s) (fr_base fr + idx)) as [v|] eqn:En.
  - cbn [good]. rewrite with_stack_eq. eapply ft; [exact Hck | fin | fin | fin | | exact Hlo].
    constructor; [exact (Forall_nth wfv _ _ _ Hst En) | exact Hst].
  - apply nth_error_None in En. lia.
Qed.

Lemma case_store scs : transfer P k len pc IStore a = Some scs -> forallb (succ_ok A) scs = true ->
  good (match stack s with
        | v :: st => Next (bump {| stack := st; locals := locals s ++ [v]; frames := frames s; persistent := persistent s |})
        | [] => Fault FStackUnderflow
        end).
Proof.
  intros Et Hck. start Et. cond Et. bools. inversion Et; subst scs; clear Et.
  case_eq (stack s); [intros Es; nostack Es | intros v st Es].
  destruct (stack_cons _ _ Es) as [Hv [Hst' Hlen]].
  cbn [good]. rewrite Efr. eapply ft; [exact Hck | fin | fin | fin | exact Hst' | ].
  apply Forall_app. split; [exact Hlo | constructor; [exact Hv | constructor]].
Qed.

Lemma popn_wf n vs st' : popn n (stack s) [] = Some (vs, st') ->
  Forall wfv vs /\ Forall wfv st' /\ length (stack s) = n + length st' /\ length vs = n.
Proof.
  intros H. apply popn_spec in H. destruct H as [top [Hv [Hs Hl]]].
  rewrite app_nil_r in Hv. subst vs. pose proof Hst as Hst0. rewrite Hs in Hst0. apply Forall_app in Hst0. destruct Hst0 as [Ht Hr].
  split; [apply Forall_rev; exact Ht|]. split; [exact Hr|]. rewrite Hs, app_length, rev_length. lia.
Qed.

Lemma case_tuple t scs : transfer P k len pc (ITuple t) a = Some scs -> forallb (succ_ok A) scs = true ->
  good (match nth_error (p_tuples P) t with
        | None => Fault FUnknownTuple
        | Some arity =>
            match popn arity (stack s) [] with
            | Some (fs, st) => Next (bump (with_stack s (VTuple t fs :: st)))
            | None => Fault FStackUnderflow
            end
        end).
Proof.
  intros Et Hck. start Et. cond Et. cond Et. bools. inversion Et; subst scs; clear Et.
  destruct (popn_some n (stack s) []) as [vs [st' Hp]]; [lia|]. rewrite Hp.
  destruct (popn_wf _ _ _ Hp) as [Hvs [Hst' [Hlen _]]].
  cbn [good]. rewrite with_stack_eq. eapply ft; [exact Hck | fin | fin | fin | | exact Hlo].
  constructor; [apply wfv_tuple; exact Hvs | exact Hst'].
Qed.

Lemma case_get idx scs : transfer P k len pc (IGet idx) a = Some scs -> forallb (succ_ok A) scs = true ->
  good (match stack s with
        | VTuple _ fs :: st =>
            match nth_error fs idx with
            | Some v => Next (bump (with_stack s (v :: st)))
            | None => Fault FFieldAccessInvalid
            end
        | _ :: _ => Fault FTypeMismatch
        | [] => Fault FStackUnderflow
        end).
Proof.
  intros Et Hck. start Et. cond Et. bools. inversion Et; subst scs; clear Et.
  case_eq (stack s); [intros Es; nostack Es | intros v st Es].
  destruct (stack_cons _ _ Es) as [Hv [Hst' Hlen]].
  destruct v; try reflexivity.
  destruct (nth_error fs idx) as [v|] eqn:En; [|reflexivity].
  cbn [good]. rewrite with_stack_eq. eapply ft; [exact Hck | fin | fin | fin | | exact Hlo].
  constructor; [|exact Hst']. apply wfv_tuple in Hv. exact (Forall_nth wfv _ _ _ Hv En).
Qed.

Lemma case_istype t scs : transfer P k len pc (IIsType t) a = Some scs -> forallb (succ_ok A) scs = true ->
  good (match stack s with
        | _ :: st => Next (bump (with_stack s ((if x_bool x then vok else vnil) :: st)))
        | [] => Fault FStackUnderflow
        end).
Proof.
  intros Et Hck. start Et. cond Et. bools. inversion Et; subst scs; clear Et.
  case_eq (stack s); [intros Es; nostack Es | intros v st Es].
  destruct (stack_cons _ _ Es) as [Hv [Hst' Hlen]].
  cbn [good]. rewrite with_stack_eq. eapply ft; [exact Hck | fin | fin | fin | | exact Hlo].
  constructor; [destruct (x_bool x); [apply wfv_ok | apply wfv_nil] | exact Hst'].
Qed.

Lemma case_not scs : transfer P k len pc INot a = Some scs -> forallb (succ_ok A) scs = true ->
  good (match stack s with
        | v :: st => Next (bump (with_stack s ((if is_nil v then vok else vnil) :: st)))
        | [] => Fault FStackUnderflow
        end).
Proof.
  intros Et Hck. start Et. cond Et. bools. inversion Et; subst scs; clear Et.
  case_eq (stack s); [intros Es; nostack Es | intros v st Es].
  destruct (stack_cons _ _ Es) as [Hv [Hst' Hlen]].
  cbn [good]. rewrite with_stack_eq. eapply ft; [exact Hck | fin | fin | fin | | exact Hlo].
  constructor; [destruct (is_nil v); [apply wfv_ok | apply wfv_nil] | exact Hst'].
Qed.

End STEP.
End SOUND.
