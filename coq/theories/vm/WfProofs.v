(* WfProofs.v — soundness of the bytecode verifier (C07): a program accepted by
   `check_program` never reaches a structural fault, on any execution, with any inputs from
   outside the process; every frame leaves exactly one value. *)
From Quiver Require Import vm.Wf.

Section SOUND.
Variable P : program.
Variable As : list annot.
Hypothesis HC : check_program P As = true.

(* ---------------------------------------------------------------- well-formed values *)
Fixpoint wfv (v : value) : Prop :=
  match v with
  | VTuple _ fs => (fix all (l : list value) : Prop := match l with [] => True | x :: t => wfv x /\ all t end) fs
  | VFun f caps =>
      (exists fd, nth_error (p_funcs P) f = Some fd /\ length caps = f_caps fd) /\
      (fix all (l : list value) : Prop := match l with [] => True | x :: t => wfv x /\ all t end) caps
  | _ => True
  end.

Lemma all_Forall (l : list value) :
  (fix all (l : list value) : Prop := match l with [] => True | x :: t => wfv x /\ all t end) l <-> Forall wfv l.
Proof.
  induction l as [|x t IH]; split; intros H.
  - constructor.
  - exact I.
  - destruct H as [Hx Ht]. constructor; [exact Hx | apply IH; exact Ht].
  - inversion H; subst. split; [assumption | apply IH; assumption].
Qed.

Lemma wfv_tuple t fs : wfv (VTuple t fs) <-> Forall wfv fs.
Proof. cbn [wfv]. apply all_Forall. Qed.

Lemma wfv_fun f caps :
  wfv (VFun f caps) <->
  (exists fd, nth_error (p_funcs P) f = Some fd /\ length caps = f_caps fd) /\ Forall wfv caps.
Proof. cbn [wfv]. rewrite all_Forall. reflexivity. Qed.

Lemma wfv_nil : wfv vnil. Proof. apply wfv_tuple. constructor. Qed.
Lemma wfv_ok : wfv vok. Proof. apply wfv_tuple. constructor. Qed.

(* ---------------------------------------------------------------- list helpers *)
Lemma popn_spec n : forall st acc vs st',
  popn n st acc = Some (vs, st') ->
  exists top, vs = rev top ++ acc /\ st = top ++ st' /\ length top = n.
Proof.
  induction n as [|n IH]; intros st acc vs st' H; cbn [popn] in H.
  - inversion H; subst. exists []. auto.
  - destruct st as [|v t]; [discriminate|].
    apply IH in H. destruct H as [top [Hv [Hs Hl]]].
    exists (v :: top). cbn [rev length]. rewrite <- app_assoc. cbn [app].
    split; [exact Hv|]. split; [rewrite Hs; reflexivity | lia].
Qed.

Lemma popn_some n : forall st acc, n <= length st -> exists vs st', popn n st acc = Some (vs, st').
Proof.
  induction n as [|n IH]; intros st acc H; cbn [popn].
  - eauto.
  - destruct st as [|v t]; [cbn in H; lia|]. apply IH. cbn in H. lia.
Qed.

Lemma Forall_firstn {X} (Q : X -> Prop) n l : Forall Q l -> Forall Q (firstn n l).
Proof. revert l; induction n as [|n IH]; intros [|x t] H; cbn; try constructor; inversion H; subst; auto. Qed.
Lemma Forall_skipn {X} (Q : X -> Prop) n l : Forall Q l -> Forall Q (skipn n l).
Proof. revert l; induction n as [|n IH]; intros [|x t] H; cbn; try assumption; inversion H; subst; auto. Qed.
Lemma Forall_nth {X} (Q : X -> Prop) l n x : Forall Q l -> nth_error l n = Some x -> Q x.
Proof. intros H E. rewrite Forall_forall in H. apply H. eapply nth_error_In; eauto. Qed.

(* ---------------------------------------------------------------- what the checker established *)
Definition ann (f pc : nat) : option astate :=
  match nth_error As f with
  | Some A => match nth_error A pc with Some o => o | None => None end
  | None => None
  end.

Lemma check_all_nth fs Bs : check_all P fs Bs = true ->
  forall f fd, nth_error fs f = Some fd -> exists A, nth_error Bs f = Some A /\ check_function P fd A = true.
Proof.
  revert Bs; induction fs as [|fd0 fs IH]; intros [|A0 Bs] H f fd E; cbn [check_all] in H; try discriminate.
  - destruct f; discriminate.
  - apply andb_true_iff in H. destruct H as [H0 H1].
    destruct f as [|f]; cbn [nth_error] in *.
    + inversion E; subst. eauto.
    + eapply IH; eauto.
Qed.

Lemma func_checked f fd : nth_error (p_funcs P) f = Some fd ->
  exists A, nth_error As f = Some A /\ check_function P fd A = true.
Proof. apply check_all_nth. exact HC. Qed.

Record fn_facts (fd : func) (A : annot) : Prop := {
  ff_len : length A = S (length (f_code fd));
  ff_entry : exists b, nth_error A 0 = Some (Some b) /\ a_h b = 1 /\ a_lo b <= f_caps fd <= a_hi b;
  ff_pc : forall pc, pc <= length (f_code fd) -> check_pc P (f_caps fd) (f_code fd) A pc = true;
}.

Lemma fits_spec a' b : fits a' b = true -> a_h b = a_h a' /\ a_lo b <= a_lo a' /\ a_hi a' <= a_hi b.
Proof.
  unfold fits. intros H. apply andb_true_iff in H. destruct H as [H H3]. apply andb_true_iff in H. destruct H as [H1 H2].
  apply Nat.eqb_eq in H1. apply Nat.leb_le in H2. apply Nat.leb_le in H3. auto.
Qed.

Lemma succ_ok_spec A pc a' : succ_ok A (pc, a') = true ->
  exists b, nth_error A pc = Some (Some b) /\ a_h b = a_h a' /\ a_lo b <= a_lo a' /\ a_hi a' <= a_hi b.
Proof.
  unfold succ_ok. cbn [fst snd]. destruct (nth_error A pc) as [[b|]|]; try discriminate.
  intros H. exists b. split; [reflexivity | apply fits_spec; assumption].
Qed.

Lemma check_function_facts fd A : check_function P fd A = true -> fn_facts fd A.
Proof.
  unfold check_function, check_function_at. intros H.
  apply andb_true_iff in H. destruct H as [H H3]. apply andb_true_iff in H. destruct H as [H1 H2].
  apply Nat.eqb_eq in H1. apply succ_ok_spec in H2. destruct H2 as [b [Hb [Hh [Hlo Hhi]]]]. cbn in Hh, Hlo, Hhi.
  constructor.
  - exact H1.
  - exists b. auto.
  - intros pc Hpc. rewrite forallb_forall in H3. apply H3. apply in_seq. lia.
Qed.

(* ---------------------------------------------------------------- the invariant *)
Definition frame_ok (fr : frame) : Prop :=
  exists fd, nth_error (p_funcs P) (fr_fn fr) = Some fd /\ fr_caps fr = f_caps fd.

Definition code (f : nat) : list instr :=
  match nth_error (p_funcs P) f with Some fd => f_code fd | None => [] end.

(* frames suspended at a Call: `sb` = operand-stack height below the callee's parameter slot,
   `lb` = number of locals when the call was made (= the callee's locals_base) *)
Fixpoint susp (frs : list frame) (sb lb : nat) : Prop :=
  match frs with
  | [] => sb = 0
  | c :: rest =>
      frame_ok c /\
      exists a, ann (fr_fn c) (fr_pc c) = Some a /\
                nth_error (code (fr_fn c)) (fr_pc c) = Some ICall /\
                2 <= a_h a /\ a_h a - 2 <= sb /\
                fr_base c + a_lo a <= lb /\ lb <= fr_base c + a_hi a /\
                susp rest (sb - (a_h a - 2)) (fr_base c)
  end.

Definition Inv (s : state) : Prop :=
  Forall wfv (stack s) /\ Forall wfv (locals s) /\
  match frames s with
  | [] => length (stack s) = 1
  | fr :: rest =>
      frame_ok fr /\
      exists a, ann (fr_fn fr) (fr_pc fr) = Some a /\
                a_h a <= length (stack s) /\
                fr_base fr + a_lo a <= length (locals s) /\ length (locals s) <= fr_base fr + a_hi a /\
                susp rest (length (stack s) - a_h a) (fr_base fr)
  end.

Definition ext_ok (x : ext) : Prop := match x_value x with Some v => wfv v | None => True end.

Definition good (r : sres) : Prop :=
  match r with
  | Next s' => Inv s'
  | Finished v s' => wfv v /\ stack s' = []
  | Fault f => structural f = false
  end.

(* the initial state of spawn_process satisfies the invariant *)
Lemma init_inv fn fd caps arg pers :
  nth_error (p_funcs P) fn = Some fd -> length caps = f_caps fd -> Forall wfv caps -> wfv arg ->
  Inv (init_state fn caps arg pers).
Proof.
  intros Hfd Hc Hcaps Harg. unfold Inv, init_state. cbn [stack locals frames].
  split; [constructor; [exact Harg | constructor]|]. split; [exact Hcaps|].
  split; [exists fd; cbn; auto|].
  destruct (func_checked fn fd Hfd) as [A [HA Hchk]]. apply check_function_facts in Hchk.
  destruct (ff_entry _ _ Hchk) as [b [Hb [Hh [Hlo Hhi]]]].
  exists b. cbn [fr_fn fr_pc fr_base length]. unfold ann. rewrite HA, Hb.
  repeat split; try lia. cbn [susp]. lia.
Qed.

(* generic re-establishment after an instruction that stays in the frame and continues at pc' *)
Lemma inv_goto s fr rest fd A a a' st' l' pc' :
  nth_error (p_funcs P) (fr_fn fr) = Some fd -> fr_caps fr = f_caps fd ->
  nth_error As (fr_fn fr) = Some A ->
  succ_ok A (pc', a') = true ->
  a_h a <= length (stack s) ->
  length st' + a_h a = length (stack s) + a_h a' ->
  fr_base fr + a_lo a' <= length l' -> length l' <= fr_base fr + a_hi a' ->
  susp rest (length (stack s) - a_h a) (fr_base fr) ->
  Forall wfv st' -> Forall wfv l' ->
  Inv {| stack := st'; locals := l'; frames := set_pc fr pc' :: rest; persistent := persistent s |}.
Proof.
  intros Hfd Hcaps HA Hs Hh Hlen Hlo Hhi Hsusp Hst Hl.
  apply succ_ok_spec in Hs. destruct Hs as [b [Hb [Hbh [Hblo Hbhi]]]].
  unfold Inv. cbn [stack locals frames].
  split; [exact Hst|]. split; [exact Hl|].
  split; [exists fd; cbn; auto|].
  exists b. cbn [set_pc fr_fn fr_pc fr_base]. unfold ann. rewrite HA, Hb.
  split; [reflexivity|]. split; [lia|]. split; [lia|]. split; [lia|].
  replace (length st' - a_h b) with (length (stack s) - a_h a) by lia. exact Hsusp.
Qed.

Lemma inv_fallthrough s fr rest fd A a a' st' l' :
  frames s = fr :: rest -> nth_error (p_funcs P) (fr_fn fr) = Some fd -> fr_caps fr = f_caps fd ->
  nth_error As (fr_fn fr) = Some A ->
  succ_ok A (S (fr_pc fr), a') = true ->
  a_h a <= length (stack s) ->
  length st' + a_h a = length (stack s) + a_h a' ->
  fr_base fr + a_lo a' <= length l' -> length l' <= fr_base fr + a_hi a' ->
  susp rest (length (stack s) - a_h a) (fr_base fr) ->
  Forall wfv st' -> Forall wfv l' ->
  Inv (bump {| stack := st'; locals := l'; frames := fr :: rest; persistent := persistent s |}).
Proof.
  intros. unfold bump. cbn [frames stack locals persistent]. eapply inv_goto; eauto.
Qed.

(* ---------------------------------------------------------------- one step, case by case *)
Ltac cond H :=
  match type of H with
  | (if ?c then _ else _) = _ => let E := fresh "C" in destruct c eqn:E; [|discriminate H]
  | match ?c with _ => _ end = _ => let E := fresh "C" in destruct c eqn:E; try discriminate H
  end.
Ltac bools :=
  repeat match goal with
         | H : (_ && _) = true |- _ => apply andb_true_iff in H; destruct H
         | H : (_ <=? _) = true |- _ => apply Nat.leb_le in H
         | H : (_ <? _) = true |- _ => apply Nat.ltb_lt in H
         | H : (_ =? _) = true |- _ => apply Nat.eqb_eq in H
         | H : (_ <=? _)%Z = true |- _ => apply Z.leb_le in H
         | H : (_ <? _) = false |- _ => apply Nat.ltb_ge in H
         | H : (_ <=? _) = false |- _ => apply Nat.leb_gt in H
         end.

Section STEP.
Variables (s : state) (x : ext) (fr : frame) (rest : list frame) (fd : func) (A : annot) (a : astate).
Hypothesis Hst : Forall wfv (stack s).
Hypothesis Hlo : Forall wfv (locals s).
Hypothesis Hx : ext_ok x.
Hypothesis Efr : frames s = fr :: rest.
Hypothesis Hfd : nth_error (p_funcs P) (fr_fn fr) = Some fd.
Hypothesis Hcaps : fr_caps fr = f_caps fd.
Hypothesis HA : nth_error As (fr_fn fr) = Some A.
Hypothesis Hfacts : fn_facts fd A.
Hypothesis HApc : nth_error A (fr_pc fr) = Some (Some a).
Hypothesis Hh : a_h a <= length (stack s).
Hypothesis Hl1 : fr_base fr + a_lo a <= length (locals s).
Hypothesis Hl2 : length (locals s) <= fr_base fr + a_hi a.
Hypothesis Hsusp : susp rest (length (stack s) - a_h a) (fr_base fr).

Let k := f_caps fd.
Let len := length (f_code fd).
Let pc := fr_pc fr.

(* fall-through successor: the usual shape *)
Lemma ft a' st' l' :
  forallb (succ_ok A) [(S pc, a')] = true ->
  length st' + a_h a = length (stack s) + a_h a' ->
  fr_base fr + a_lo a' <= length l' -> length l' <= fr_base fr + a_hi a' ->
  Forall wfv st' -> Forall wfv l' ->
  Inv (bump {| stack := st'; locals := l'; frames := fr :: rest; persistent := persistent s |}).
Proof.
  intros Hs. cbn [forallb] in Hs. apply andb_true_iff in Hs. destruct Hs as [Hs _].
  intros. eapply inv_fallthrough; eauto.
Qed.

Lemma with_stack_eq st' : with_stack s st' = {| stack := st'; locals := locals s; frames := fr :: rest; persistent := persistent s |}.
Proof. unfold with_stack. rewrite Efr. reflexivity. Qed.
Lemma with_locals_eq l' : with_locals s l' = {| stack := stack s; locals := l'; frames := fr :: rest; persistent := persistent s |}.
Proof. unfold with_locals. rewrite Efr. reflexivity. Qed.

Ltac nostack Es := exfalso; pose proof Hh as Hh'; rewrite Es in Hh'; cbn in Hh'; lia.
Ltac fin := cbn [length a_h a_lo a_hi mk]; rewrite ?app_length, ?firstn_length, ?skipn_length; cbn [length]; try lia.
Ltac start Et := unfold transfer in Et; fold k in Et; fold pc in Et.

Lemma xval_wf v : x_value x = Some v -> wfv v.
Proof. intros E. unfold ext_ok in Hx. rewrite E in Hx. exact Hx. Qed.

Lemma stack_cons v st : stack s = v :: st -> wfv v /\ Forall wfv st /\ length (stack s) = S (length st).
Proof. intros E. rewrite E in Hst. inversion Hst; subst. rewrite E. cbn. auto. Qed.

Lemma case_constant c scs : transfer P k len pc (IConstant c) a = Some scs -> forallb (succ_ok A) scs = true ->
  good (match nth_error (p_consts P) c with
        | Some (CInt z) => Next (bump (with_stack s (VInt z :: stack s)))
        | Some CBin => match x_value x with
                       | Some v => Next (bump (with_stack s (v :: stack s)))
                       | None => Fault FBuiltinError
                       end
        | None => Fault FConstantUndefined
        end).
Proof.
  intros Et Hck. start Et. cond Et. bools. inversion Et; subst scs; clear Et.
  destruct (nth_error (p_consts P) c) as [[z|]|] eqn:Ec.
  - cbn [good]. rewrite with_stack_eq. eapply ft; [exact Hck | fin | fin | fin | | exact Hlo].
    constructor; [exact I | exact Hst].
  - destruct (x_value x) as [v|] eqn:Ev; [|reflexivity].
    cbn [good]. rewrite with_stack_eq. eapply ft; [exact Hck | fin | fin | fin | | exact Hlo].
    constructor; [apply xval_wf; assumption | exact Hst].
  - apply nth_error_None in Ec. lia.
Qed.

Lemma case_pop scs : transfer P k len pc IPop a = Some scs -> forallb (succ_ok A) scs = true ->
  good (match stack s with _ :: st => Next (bump (with_stack s st)) | [] => Fault FStackUnderflow end).
Proof.
  intros Et Hck. start Et. cond Et. bools. inversion Et; subst scs; clear Et.
  case_eq (stack s); [intros Es; nostack Es | intros v st Es].
  destruct (stack_cons _ _ Es) as [Hv [Hst' Hlen]].
  cbn [good]. rewrite with_stack_eq. eapply ft; [exact Hck | fin | fin | fin | exact Hst' | exact Hlo].
Qed.

Lemma case_dup scs : transfer P k len pc IDuplicate a = Some scs -> forallb (succ_ok A) scs = true ->
  good (match stack s with v :: _ => Next (bump (with_stack s (v :: stack s))) | [] => Fault FStackUnderflow end).
Proof.
  intros Et Hck. start Et. cond Et. bools. inversion Et; subst scs; clear Et.
  case_eq (stack s); [intros Es; nostack Es | intros v st Es].
  destruct (stack_cons _ _ Es) as [Hv [Hst' Hlen]].
  cbn [good]. rewrite with_stack_eq. eapply ft; [exact Hck | fin | fin | fin | | exact Hlo].
  constructor; [exact Hv | constructor; assumption].
Qed.

Lemma case_pick n scs : transfer P k len pc (IPick n) a = Some scs -> forallb (succ_ok A) scs = true ->
  good (match nth_error (stack s) n with
        | Some v => Next (bump (with_stack s (v :: stack s)))
        | None => Fault FStackUnderflow
        end).
Proof.
  intros Et Hck. start Et. cond Et. bools. inversion Et; subst scs; clear Et.
  destruct (nth_error (stack s) n) as [v|] eqn:En.
  - cbn [good]. rewrite with_stack_eq. eapply ft; [exact Hck | fin | fin | fin | | exact Hlo].
    constructor; [exact (Forall_nth wfv _ _ _ Hst En) | exact Hst].
  - apply nth_error_None in En. lia.
Qed.

Lemma case_rotate n scs : transfer P k len pc (IRotate n) a = Some scs -> forallb (succ_ok A) scs = true ->
  good (if length (stack s) <? n then Fault FStackUnderflow
        else match n with
             | O => Fault FPanicRotate0
             | S m => match nth_error (stack s) m with
                      | Some v => Next (bump (with_stack s (v :: firstn m (stack s) ++ skipn n (stack s))))
                      | None => Fault FStackUnderflow
                      end
             end).
Proof.
  intros Et Hck. start Et. cond Et. bools. inversion Et; subst scs; clear Et.
  destruct (length (stack s) <? n) eqn:El; bools; [lia|].
  destruct n as [|m]; [lia|].
  destruct (nth_error (stack s) m) as [v|] eqn:En; [|apply nth_error_None in En; lia].
  cbn [good]. rewrite with_stack_eq. eapply ft; [exact Hck | fin | fin | fin | | exact Hlo].
  constructor; [exact (Forall_nth wfv _ _ _ Hst En)|]. apply Forall_app. split; [apply Forall_firstn | apply Forall_skipn]; exact Hst.
Qed.

Lemma case_load idx scs : transfer P k len pc (ILoad idx) a = Some scs -> forallb (succ_ok A) scs = true ->
  good (match nth_error (locals s) (fr_base fr + idx) with
        | Some v => Next (bump (with_stack s (v :: stack s)))
        | None => Fault FVariableUndefined
        end).
Proof.
  intros Et Hck. start Et. cond Et. bools. inversion Et; subst scs; clear Et.
  destruct (nth_error (locals s) (fr_base fr + idx)) as [v|] eqn:En.
  - cbn [good]. rewrite with_stack_eq. eapply ft; [exact Hck | fin | fin | fin | | exact Hlo].
    constructor; [exact (Forall_nth wfv _ _ _ Hlo En) | exact Hst].
  - apply nth_error_None in En. lia.
Qed.

Lemma case_store scs : transfer P k len pc IStore a = Some scs -> forallb (succ_ok A) scs = true ->
  good (match stack s with
        | v :: st => Next (bump {| stack := st; locals := locals s ++ [v]; frames := frames s; persistent := persistent s |})
        | [] => Fault FStackUnderflow
        end).
Proof.
  intros Et Hck. start Et. cond Et. bools. inversion Et; subst scs; clear Et.
  case_eq (stack s); [intros Es; nostack Es | intros v st Es].
  destruct (stack_cons _ _ Es) as [Hv [Hst' Hlen]].
  cbn [good]. rewrite Efr. eapply ft; [exact Hck | fin | fin | fin | exact Hst' | ].
  apply Forall_app. split; [exact Hlo | constructor; [exact Hv | constructor]].
Qed.

Lemma popn_wf n vs st' : popn n (stack s) [] = Some (vs, st') ->
  Forall wfv vs /\ Forall wfv st' /\ length (stack s) = n + length st' /\ length vs = n.
Proof.
  intros H. apply popn_spec in H. destruct H as [top [Hv [Hs Hl]]].
  rewrite app_nil_r in Hv. subst vs. pose proof Hst as Hst0. rewrite Hs in Hst0. apply Forall_app in Hst0. destruct Hst0 as [Ht Hr].
  split; [apply Forall_rev; exact Ht|]. split; [exact Hr|]. rewrite Hs, app_length, rev_length. lia.
Qed.

Lemma case_tuple t scs : transfer P k len pc (ITuple t) a = Some scs -> forallb (succ_ok A) scs = true ->
  good (match nth_error (p_tuples P) t with
        | None => Fault FUnknownTuple
        | Some arity =>
            match popn arity (stack s) [] with
            | Some (fs, st) => Next (bump (with_stack s (VTuple t fs :: st)))
            | None => Fault FStackUnderflow
            end
        end).
Proof.
  intros Et Hck. start Et. cond Et. cond Et. bools. inversion Et; subst scs; clear Et.
  destruct (popn_some n (stack s) []) as [vs [st' Hp]]; [lia|]. rewrite Hp.
  destruct (popn_wf _ _ _ Hp) as [Hvs [Hst' [Hlen _]]].
  cbn [good]. rewrite with_stack_eq. eapply ft; [exact Hck | fin | fin | fin | | exact Hlo].
  constructor; [apply wfv_tuple; exact Hvs | exact Hst'].
Qed.

Lemma case_get idx scs : transfer P k len pc (IGet idx) a = Some scs -> forallb (succ_ok A) scs = true ->
  good (match stack s with
        | VTuple _ fs :: st =>
            match nth_error fs idx with
            | Some v => Next (bump (with_stack s (v :: st)))
            | None => Fault FFieldAccessInvalid
            end
        | _ :: _ => Fault FTypeMismatch
        | [] => Fault FStackUnderflow
        end).
Proof.
  intros Et Hck. start Et. cond Et. bools. inversion Et; subst scs; clear Et.
  case_eq (stack s); [intros Es; nostack Es | intros v st Es].
  destruct (stack_cons _ _ Es) as [Hv [Hst' Hlen]].
  destruct v; try reflexivity.
  destruct (nth_error fs idx) as [v|] eqn:En; [|reflexivity].
  cbn [good]. rewrite with_stack_eq. eapply ft; [exact Hck | fin | fin | fin | | exact Hlo].
  constructor; [|exact Hst']. apply wfv_tuple in Hv. exact (Forall_nth wfv _ _ _ Hv En).
Qed.

Lemma case_istype t scs : transfer P k len pc (IIsType t) a = Some scs -> forallb (succ_ok A) scs = true ->
  good (match stack s with
        | _ :: st => Next (bump (with_stack s ((if x_bool x then vok else vnil) :: st)))
        | [] => Fault FStackUnderflow
        end).
Proof.
  intros Et Hck. start Et. cond Et. bools. inversion Et; subst scs; clear Et.
  case_eq (stack s); [intros Es; nostack Es | intros v st Es].
  destruct (stack_cons _ _ Es) as [Hv [Hst' Hlen]].
  cbn [good]. rewrite with_stack_eq. eapply ft; [exact Hck | fin | fin | fin | | exact Hlo].
  constructor; [destruct (x_bool x); [apply wfv_ok | apply wfv_nil] | exact Hst'].
Qed.

Lemma case_not scs : transfer P k len pc INot a = Some scs -> forallb (succ_ok A) scs = true ->
  good (match stack s with
        | v :: st => Next (bump (with_stack s ((if is_nil v then vok else vnil) :: st)))
        | [] => Fault FStackUnderflow
        end).
Proof.
  intros Et Hck. start Et. cond Et. bools. inversion Et; subst scs; clear Et.
  case_eq (stack s); [intros Es; nostack Es | intros v st Es].
  destruct (stack_cons _ _ Es) as [Hv [Hst' Hlen]].
  cbn [good]. rewrite with_stack_eq. eapply ft; [exact Hck | fin | fin | fin | | exact Hlo].
  constructor; [destruct (is_nil v); [apply wfv_ok | apply wfv_nil] | exact Hst'].
Qed.


Lemma A_len : length A = S len.
Proof. exact (ff_len _ _ Hfacts). Qed.

Lemma target_in (t : nat) a' : succ_ok A (t, a') = true -> t <= len.
Proof.
  intros H. apply succ_ok_spec in H. destruct H as [b [Hb _]].
  assert (t < length A) by (apply nth_error_Some; congruence). rewrite A_len in H. lia.
Qed.

Lemma goto a' st' l' pc' :
  succ_ok A (pc', a') = true ->
  length st' + a_h a = length (stack s) + a_h a' ->
  fr_base fr + a_lo a' <= length l' -> length l' <= fr_base fr + a_hi a' ->
  Forall wfv st' -> Forall wfv l' ->
  Inv {| stack := st'; locals := l'; frames := set_pc fr pc' :: rest; persistent := persistent s |}.
Proof. intros. eapply inv_goto; eauto. Qed.

Lemma case_jump off scs : transfer P k len pc (IJump off) a = Some scs -> forallb (succ_ok A) scs = true ->
  good (let t := jump_target (fr_pc fr) off in
        if ((t <? 0) || (Z.of_nat (length (f_code fd)) <? t))%Z then Fault FJumpOut
        else Next (with_frames s (set_pc fr (Z.to_nat t) :: rest))).
Proof.
  intros Et Hck. start Et. cond Et. bools. inversion Et; subst scs; clear Et.
  cbn [forallb] in Hck. apply andb_true_iff in Hck. destruct Hck as [Hs _].
  pose proof (target_in _ _ Hs) as Hin. cbv zeta. fold pc. fold len.
  destruct ((jump_target pc off <? 0)%Z || (Z.of_nat len <? jump_target pc off)%Z) eqn:E.
  - exfalso. apply orb_true_iff in E. destruct E as [E|E]; [apply Z.ltb_lt in E | apply Z.ltb_lt in E]; lia.
  - cbn [good]. unfold with_frames. eapply goto; [exact Hs | fin | fin | fin | exact Hst | exact Hlo].
Qed.

Lemma case_jumpif off scs : transfer P k len pc (IJumpIf off) a = Some scs -> forallb (succ_ok A) scs = true ->
  good (match stack s with
        | c :: st =>
            if is_nil c then Next (bump (with_stack s st))
            else
              let t := jump_target (fr_pc fr) off in
              if ((t <? 0) || (Z.of_nat (length (f_code fd)) <? t))%Z then Fault FJumpOut
              else Next {| stack := st; locals := locals s; frames := set_pc fr (Z.to_nat t) :: rest; persistent := persistent s |}
        | [] => Fault FStackUnderflow
        end).
Proof.
  intros Et Hck. start Et. cond Et. bools. inversion Et; subst scs; clear Et.
  case_eq (stack s); [intros Es; nostack Es | intros v st Es].
  destruct (stack_cons _ _ Es) as [Hv [Hst' Hlen]].
  cbn [forallb] in Hck. apply andb_true_iff in Hck. destruct Hck as [Hs1 Hck]. apply andb_true_iff in Hck. destruct Hck as [Hs2 _].
  destruct (is_nil v).
  - cbn [good]. rewrite with_stack_eq. eapply ft; [cbn [forallb]; rewrite Hs1; reflexivity | fin | fin | fin | exact Hst' | exact Hlo].
  - pose proof (target_in _ _ Hs2) as Hin. cbv zeta. fold pc. fold len.
    destruct ((jump_target pc off <? 0)%Z || (Z.of_nat len <? jump_target pc off)%Z) eqn:E.
    + exfalso. apply orb_true_iff in E. destruct E as [E|E]; [apply Z.ltb_lt in E | apply Z.ltb_lt in E]; lia.
    + cbn [good]. eapply goto; [exact Hs2 | fin | fin | fin | exact Hst' | exact Hlo].
Qed.

Lemma case_reset idx scs : transfer P k len pc (IReset idx) a = Some scs -> forallb (succ_ok A) scs = true ->
  good (let target := fr_base fr + idx in
        if length (locals s) <? target then Fault FStackUnderflow
        else Next (bump (with_locals s (firstn target (locals s))))).
Proof.
  intros Et Hck. start Et. cond Et. bools. inversion Et; subst scs; clear Et. cbv zeta.
  destruct (length (locals s) <? fr_base fr + idx) eqn:E; bools; [lia|].
  cbn [good]. rewrite with_locals_eq. eapply ft; [exact Hck | fin | | | exact Hst | apply Forall_firstn; exact Hlo].
  - rewrite firstn_length. cbn [a_lo mk]. lia.
  - rewrite firstn_length. cbn [a_hi mk]. lia.
Qed.

Lemma case_builtin b scs : transfer P k len pc (IBuiltin b) a = Some scs -> forallb (succ_ok A) scs = true ->
  good (if p_nbuiltins P <=? b then Fault FBuiltinUndefined
        else Next (bump (with_stack s (VBuiltin b :: stack s)))).
Proof.
  intros Et Hck. start Et. cond Et. bools. inversion Et; subst scs; clear Et.
  destruct (p_nbuiltins P <=? b) eqn:E; bools; [lia|].
  cbn [good]. rewrite with_stack_eq. eapply ft; [exact Hck | fin | fin | fin | | exact Hlo].
  constructor; [exact I | exact Hst].
Qed.

Lemma case_function f scs : transfer P k len pc (IFunction f) a = Some scs -> forallb (succ_ok A) scs = true ->
  good (match nth_error (p_funcs P) f with
        | None => Fault FFunctionUndefined
        | Some fd0 =>
            match popn (f_caps fd0) (stack s) [] with
            | Some (caps, st) => Next (bump (with_stack s (VFun f caps :: st)))
            | None => Fault FStackUnderflow
            end
        end).
Proof.
  intros Et Hck. start Et. cond Et. cond Et. bools. inversion Et; subst scs; clear Et.
  destruct (popn_some (f_caps f0) (stack s) []) as [vs [st' Hp]]; [lia|]. rewrite Hp.
  destruct (popn_wf _ _ _ Hp) as [Hvs [Hst' [Hlen Hvl]]].
  cbn [good]. rewrite with_stack_eq. eapply ft; [exact Hck | fin | fin | fin | | exact Hlo].
  constructor; [|exact Hst']. apply wfv_fun. split; [exists f0; auto | exact Hvs].
Qed.

Lemma case_equal n scs : transfer P k len pc (IEqual n) a = Some scs -> forallb (succ_ok A) scs = true ->
  good (if length (stack s) <? n then Fault FStackUnderflow
        else match popn n (stack s) [] with
             | Some (vs, st) =>
                 match vs with
                 | [] => Fault FPanicEqual0
                 | _ :: _ => Next (bump (with_stack s ((if x_bool x then vok else vnil) :: st)))
                 end
             | None => Fault FStackUnderflow
             end).
Proof.
  intros Et Hck. start Et. cond Et. bools. inversion Et; subst scs; clear Et.
  destruct (length (stack s) <? n) eqn:E; bools; [lia|].
  destruct (popn_some n (stack s) []) as [vs [st' Hp]]; [lia|]. rewrite Hp.
  destruct (popn_wf _ _ _ Hp) as [Hvs [Hst' [Hlen Hvl]]].
  destruct vs as [|v0 vs]; [cbn in Hvl; lia|].
  cbn [good]. rewrite with_stack_eq. eapply ft; [exact Hck | fin | fin | fin | | exact Hlo].
  constructor; [destruct (x_bool x); [apply wfv_ok | apply wfv_nil] | exact Hst'].
Qed.

Lemma case_self scs : transfer P k len pc ISelf a = Some scs -> forallb (succ_ok A) scs = true ->
  good (let v := match x_value x with Some v => v | None => VProc 0 (fr_fn (last (frames s) fr)) end in
        Next (bump (with_stack s (v :: stack s)))).
Proof.
  intros Et Hck. start Et. inversion Et; subst scs; clear Et. cbv zeta.
  cbn [good]. rewrite with_stack_eq. eapply ft; [exact Hck | fin | fin | fin | | exact Hlo].
  constructor; [|exact Hst]. destruct (x_value x) as [v|] eqn:Ev; [apply xval_wf; assumption | exact I].
Qed.


Lemma stack_cons2 v w st : stack s = v :: w :: st ->
  wfv v /\ wfv w /\ Forall wfv st /\ length (stack s) = S (S (length st)).
Proof.
  intros E. pose proof Hst as H0. rewrite E in H0. inversion H0 as [|? ? Hv H1]; subst. inversion H1; subst.
  rewrite E. cbn. auto.
Qed.

Lemma case_spawn scs : transfer P k len pc ISpawn a = Some scs -> forallb (succ_ok A) scs = true ->
  good (match stack s with
        | fv :: _ :: st =>
            match fv with
            | VFun _ _ => match x_value x with
                          | Some pid => Next (bump (with_stack s (pid :: st)))
                          | None => Fault FBuiltinError
                          end
            | _ => Fault FTypeMismatch
            end
        | _ => Fault FStackUnderflow
        end).
Proof.
  intros Et Hck. start Et. cond Et. bools. inversion Et; subst scs; clear Et.
  case_eq (stack s); [intros Es; nostack Es | intros v st0 Es].
  destruct st0 as [|w st]; [exfalso; pose proof Hh as Hh'; rewrite Es in Hh'; cbn in Hh'; lia|].
  destruct (stack_cons2 _ _ _ Es) as [Hv [Hw [Hst' Hlen]]].
  destruct v; try reflexivity.
  destruct (x_value x) as [pid|] eqn:Ev; [|reflexivity].
  cbn [good]. rewrite with_stack_eq. eapply ft; [exact Hck | fin | fin | fin | | exact Hlo].
  constructor; [apply xval_wf; assumption | exact Hst'].
Qed.

Lemma case_send scs : transfer P k len pc ISend a = Some scs -> forallb (succ_ok A) scs = true ->
  good (match stack s with
        | target :: _ :: st =>
            match target with
            | VProc _ _ => Next (bump (with_stack s (target :: st)))
            | _ => Fault FTypeMismatch
            end
        | _ => Fault FStackUnderflow
        end).
Proof.
  intros Et Hck. start Et. cond Et. bools. inversion Et; subst scs; clear Et.
  case_eq (stack s); [intros Es; nostack Es | intros v st0 Es].
  destruct st0 as [|w st]; [exfalso; pose proof Hh as Hh'; rewrite Es in Hh'; cbn in Hh'; lia|].
  destruct (stack_cons2 _ _ _ Es) as [Hv [Hw [Hst' Hlen]]].
  destruct v; try reflexivity.
  cbn [good]. rewrite with_stack_eq. eapply ft; [exact Hck | fin | fin | fin | | exact Hlo].
  constructor; [exact I | exact Hst'].
Qed.

Lemma case_select scs : transfer P k len pc ISelect a = Some scs -> forallb (succ_ok A) scs = true ->
  good (match stack s with
        | _ :: st => match x_value x with
                     | Some v => Next (bump (with_stack s (v :: st)))
                     | None => Fault FBuiltinError
                     end
        | [] => Fault FStackUnderflow
        end).
Proof.
  intros Et Hck. start Et. cond Et. bools. inversion Et; subst scs; clear Et.
  case_eq (stack s); [intros Es; nostack Es | intros v0 st Es].
  destruct (stack_cons _ _ Es) as [Hv [Hst' Hlen]].
  destruct (x_value x) as [v|] eqn:Ev; [|reflexivity].
  cbn [good]. rewrite with_stack_eq. eapply ft; [exact Hck | fin | fin | fin | | exact Hlo].
  constructor; [apply xval_wf; assumption | exact Hst'].
Qed.

Lemma case_process p f scs : transfer P k len pc (IProcess p f) a = Some scs -> forallb (succ_ok A) scs = true ->
  good (Next (bump (with_stack s (VProc p f :: stack s)))).
Proof.
  intros Et Hck. start Et. cond Et. bools. inversion Et; subst scs; clear Et.
  cbn [good]. rewrite with_stack_eq. eapply ft; [exact Hck | fin | fin | fin | | exact Hlo].
  constructor; [exact I | exact Hst].
Qed.

(* the current frame, seen as suspended at its Call *)
Lemma susp_self sb lb :
  nth_error (f_code fd) pc = Some ICall -> 2 <= a_h a ->
  sb + a_h a = length (stack s) + (a_h a - 2) + 0 -> (* sb = |stack| - 2 *)
  fr_base fr + a_lo a <= lb -> lb <= fr_base fr + a_hi a ->
  susp (fr :: rest) sb lb.
Proof.
  intros Hi H2 Hsb Hlb1 Hlb2. cbn [susp]. split; [exists fd; auto|].
  exists a. unfold ann. rewrite HA. unfold pc in *. rewrite HApc.
  split; [reflexivity|]. unfold code. rewrite Hfd. split; [exact Hi|].
  split; [lia|]. split; [lia|]. split; [lia|]. split; [lia|].
  replace (sb - (a_h a - 2)) with (length (stack s) - a_h a) by lia. exact Hsusp.
Qed.

Lemma case_call scs : nth_error (f_code fd) pc = Some ICall ->
  transfer P k len pc ICall a = Some scs -> forallb (succ_ok A) scs = true ->
  good (match stack s with
        | VFun f caps :: st =>
            match nth_error (p_funcs P) f with
            | None => Fault FFunctionUndefined
            | Some _ =>
                match st with
                | param :: st' =>
                    let base := length (locals s) in
                    Next {| stack := param :: st'; locals := locals s ++ caps;
                            frames := {| fr_fn := f; fr_base := base; fr_caps := length caps; fr_pc := 0 |} :: frames s;
                            persistent := persistent s |}
                | [] => Fault FStackUnderflow
                end
            end
        | VBuiltin _ :: st =>
            match st with
            | _ :: st' =>
                match x_value x with
                | Some v => Next (bump (with_stack s (v :: st')))
                | None => Fault FBuiltinError
                end
            | [] => Fault FStackUnderflow
            end
        | _ :: _ => Fault FTypeMismatch
        | [] => Fault FStackUnderflow
        end).
Proof.
  intros Hi Et Hck. start Et. cond Et. bools. inversion Et; subst scs; clear Et.
  case_eq (stack s); [intros Es; nostack Es | intros v st0 Es].
  destruct st0 as [|w st]; [exfalso; pose proof Hh as Hh'; rewrite Es in Hh'; cbn in Hh'; lia|].
  destruct (stack_cons2 _ _ _ Es) as [Hv [Hw [Hst' Hlen]]].
  destruct v; try reflexivity.
  - (* function call: push a frame *)
    apply wfv_fun in Hv. destruct Hv as [[fd' [Hfd' Hcl]] Hcapswf]. rewrite Hfd'.
    cbv zeta. cbn [good]. rewrite Efr.
    destruct (func_checked _ _ Hfd') as [A' [HA' Hchk']]. apply check_function_facts in Hchk'.
    destruct (ff_entry _ _ Hchk') as [b [Hb [Hbh [Hblo Hbhi]]]].
    unfold Inv. cbn [stack locals frames fr_fn fr_pc fr_base fr_caps].
    split; [constructor; assumption|]. split; [apply Forall_app; split; assumption|].
    split; [exists fd'; cbn; auto|].
    exists b. unfold ann. rewrite HA', Hb. split; [reflexivity|].
    cbn [length]. rewrite app_length. split; [lia|]. split; [lia|]. split; [lia|].
    apply susp_self; try assumption; try lia.
  - (* builtin call: result (or action completion) pushed in place *)
    destruct (x_value x) as [r|] eqn:Ev; [|reflexivity].
    cbn [good]. rewrite with_stack_eq. eapply ft; [exact Hck | fin | fin | fin | | exact Hlo].
    constructor; [apply xval_wf; assumption | exact Hst'].
Qed.

Lemma case_tailcall_rec scs : transfer P k len pc (ITailCall true) a = Some scs -> forallb (succ_ok A) scs = true ->
  good (match stack s with
        | arg :: st =>
            Next {| stack := arg :: st; locals := firstn (fr_base fr + fr_caps fr) (locals s);
                    frames := set_pc fr 0 :: rest; persistent := persistent s |}
        | [] => Fault FStackUnderflow
        end).
Proof.
  intros Et Hck. start Et. cond Et. bools. inversion Et; subst scs; clear Et.
  case_eq (stack s); [intros Es; nostack Es | intros v st Es].
  destruct (stack_cons _ _ Es) as [Hv [Hst' Hlen]].
  cbn [good].
  destruct (ff_entry _ _ Hfacts) as [b [Hb [Hbh [Hblo Hbhi]]]].
  unfold Inv. cbn [stack locals frames set_pc fr_fn fr_pc fr_base fr_caps].
  split; [constructor; assumption|]. split; [apply Forall_firstn; exact Hlo|].
  split; [exists fd; cbn; auto|].
  exists b. unfold ann. rewrite HA, Hb. split; [reflexivity|].
  rewrite firstn_length. cbn [length]. rewrite Hcaps. fold k.
  split; [lia|]. split; [lia|]. split; [lia|].
  replace (S (length st) - a_h b) with (length (stack s) - a_h a) by lia. exact Hsusp.
Qed.

Lemma case_tailcall_fn scs : transfer P k len pc (ITailCall false) a = Some scs -> forallb (succ_ok A) scs = true ->
  good (match stack s with
        | fv :: arg :: st =>
            match fv with
            | VFun f caps =>
                match nth_error (p_funcs P) f with
                | None => Fault FFunctionUndefined
                | Some _ =>
                    Next {| stack := arg :: st; locals := firstn (fr_base fr) (locals s) ++ caps;
                            frames := {| fr_fn := f; fr_base := fr_base fr; fr_caps := length caps; fr_pc := 0 |} :: rest;
                            persistent := persistent s |}
                end
            | _ => Fault FCallInvalid
            end
        | _ => Fault FStackUnderflow
        end).
Proof.
  intros Et Hck. start Et. cond Et. bools. inversion Et; subst scs; clear Et.
  case_eq (stack s); [intros Es; nostack Es | intros v st0 Es].
  destruct st0 as [|w st]; [exfalso; pose proof Hh as Hh'; rewrite Es in Hh'; cbn in Hh'; lia|].
  destruct (stack_cons2 _ _ _ Es) as [Hv [Hw [Hst' Hlen]]].
  destruct v; try reflexivity.
  apply wfv_fun in Hv. destruct Hv as [[fd' [Hfd' Hcl]] Hcapswf]. rewrite Hfd'.
  cbn [good].
  destruct (func_checked _ _ Hfd') as [A' [HA' Hchk']]. apply check_function_facts in Hchk'.
  destruct (ff_entry _ _ Hchk') as [b [Hb [Hbh [Hblo Hbhi]]]].
  unfold Inv. cbn [stack locals frames fr_fn fr_pc fr_base fr_caps].
  split; [constructor; assumption|].
  split; [apply Forall_app; split; [apply Forall_firstn; exact Hlo | assumption]|].
  split; [exists fd'; cbn; auto|].
  exists b. unfold ann. rewrite HA', Hb. split; [reflexivity|].
  rewrite app_length, firstn_length. cbn [length].
  split; [lia|]. split; [lia|]. split; [lia|].
  replace (S (length st) - a_h b) with (length (stack s) - a_h a) by lia. exact Hsusp.
Qed.

(* the frame's code is exhausted: pop it *)
Lemma case_frame_pop : nth_error (f_code fd) pc = None -> a_h a = 1 ->
  good (let is_last := match rest with [] => true | _ => false end in
        let keep := persistent s && is_last in
        let l' := if keep then locals s else firstn (fr_base fr) (locals s) in
        Next (bump {| stack := stack s; locals := l'; frames := rest; persistent := persistent s |})).
Proof.
  intros Hend H1. cbv zeta. cbn [good].
  destruct rest as [|c rest'] eqn:Er.
  - (* outermost frame: the process is about to finish with exactly one value *)
    cbn [susp] in Hsusp. unfold bump. cbn [frames]. unfold Inv. cbn [stack locals frames].
    split; [exact Hst|]. split; [destruct (persistent s && true); [exact Hlo | apply Forall_firstn; exact Hlo]|]. lia.
  - cbn [susp] in Hsusp. destruct Hsusp as [[fdc [Hfdc Hcc]] [ac [Hac [Hic [H2 [Hsb [Hlb1 [Hlb2 Hs']]]]]]]].
    rewrite andb_false_r.
    destruct (func_checked _ _ Hfdc) as [Ac [HAc Hchkc]]. apply check_function_facts in Hchkc.
    (* the caller's annotation at its Call site and the checker's verdict there *)
    assert (HAcpc : nth_error Ac (fr_pc c) = Some (Some ac)).
    { unfold ann in Hac. rewrite HAc in Hac. destruct (nth_error Ac (fr_pc c)) as [[?|]|]; congruence. }
    assert (Hpcc : fr_pc c <= length (f_code fdc)).
    { assert (fr_pc c < length Ac) by (apply nth_error_Some; congruence). rewrite (ff_len _ _ Hchkc) in H. lia. }
    pose proof (ff_pc _ _ Hchkc _ Hpcc) as Hck. unfold check_pc in Hck. rewrite HAcpc in Hck.
    unfold code in Hic. rewrite Hfdc in Hic. rewrite Hic in Hck.
    unfold transfer in Hck. destruct (2 <=? a_h ac) eqn:E2; [|discriminate]. cbn [forallb] in Hck.
    apply andb_true_iff in Hck. destruct Hck as [Hs _].
    unfold bump. cbn [frames stack locals persistent].
    pose proof Hh as Hh0.
    assert (Hbase : fr_base fr <= length (locals s)) by lia.
    replace {| stack := stack s; locals := firstn (fr_base fr) (locals s);
               frames := set_pc c (S (fr_pc c)) :: rest'; persistent := persistent s |}
      with {| stack := stack s; locals := firstn (fr_base fr) (locals s);
              frames := set_pc c (S (fr_pc c)) :: rest';
              persistent := persistent {| stack := stack s; locals := locals s; frames := c :: rest'; persistent := persistent s |} |}
      by reflexivity.
    apply succ_ok_spec in Hs. destruct Hs as [b [Hb [Hbh [Hblo Hbhi]]]]. cbn [a_h a_lo a_hi mk] in *.
    unfold Inv. cbn [stack locals frames].
    split; [exact Hst|]. split; [apply Forall_firstn; exact Hlo|].
    split; [exists fdc; cbn; auto|].
    exists b. cbn [set_pc fr_fn fr_pc fr_base]. unfold ann. rewrite HAc, Hb.
    split; [reflexivity|]. rewrite firstn_length.
    split; [lia|]. split; [lia|]. split; [lia|].
    replace (length (stack s) - a_h b) with (length (stack s) - a_h a - (a_h ac - 2)) by lia. exact Hs'.
Qed.

End STEP.

(* ---------------------------------------------------------------- the theorem *)
Theorem step_sound s x : Inv s -> ext_ok x -> good (step P s x).
Proof.
  intros [Hst [Hlo Hfr]] Hx. unfold step.
  destruct (frames s) as [|fr rest] eqn:Efr.
  - case_eq (stack s); [intros Es; rewrite Es in Hfr; discriminate | intros v st Es].
    cbn [good]. rewrite Es in Hst, Hfr. inversion Hst; subst. split; [assumption|].
    unfold with_stack. cbn [stack]. destruct st; [reflexivity | discriminate].
  - destruct Hfr as [[fd [Hfd Hcaps]] [a [Ha [Hh [Hl1 [Hl2 Hsusp]]]]]].
    unfold code_of. rewrite Hfd. cbn [option_map].
    destruct (func_checked _ _ Hfd) as [A [HA Hchk]]. apply check_function_facts in Hchk.
    assert (HApc : nth_error A (fr_pc fr) = Some (Some a)).
    { unfold ann in Ha. rewrite HA in Ha. destruct (nth_error A (fr_pc fr)) as [[?|]|]; congruence. }
    assert (Hpc : fr_pc fr <= length (f_code fd)).
    { assert (fr_pc fr < length A) by (apply nth_error_Some; congruence). rewrite (ff_len _ _ Hchk) in H. lia. }
    pose proof (ff_pc _ _ Hchk _ Hpc) as Hck. unfold check_pc in Hck. rewrite HApc in Hck.
    destruct (nth_error (f_code fd) (fr_pc fr)) as [i|] eqn:Ei.
    + destruct (transfer P (f_caps fd) (length (f_code fd)) (fr_pc fr) i a) as [scs|] eqn:Et; [|discriminate].
      destruct i.
      * eapply case_constant; eauto.
      * eapply case_pop; eauto.
      * eapply case_dup; eauto.
      * eapply case_pick; eauto.
      * eapply case_rotate; eauto.
      * eapply case_reset; eauto.
      * eapply case_load; eauto.
      * rewrite <- Efr. eapply case_store; eauto.
      * eapply case_tuple; eauto.
      * eapply case_get; eauto.
      * eapply case_istype; eauto.
      * eapply case_jump; eauto.
      * eapply case_jumpif; eauto.
      * rewrite <- Efr. eapply case_call; eauto.
      * destruct recurse; [eapply case_tailcall_rec; eauto | eapply case_tailcall_fn; eauto].
      * eapply case_function; eauto.
      * eapply case_builtin; eauto.
      * eapply case_equal; eauto.
      * eapply case_not; eauto.
      * eapply case_spawn; eauto.
      * eapply case_send; eauto.
      * rewrite <- Efr. eapply case_self; eauto.
      * eapply case_select; eauto.
      * eapply case_process; eauto.
    + apply Nat.eqb_eq in Hck. eapply case_frame_pop; eauto.
Qed.

End SOUND.
