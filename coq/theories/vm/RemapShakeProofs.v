(* RemapShakeProofs.v — the model of tree_shake (vm/RemapShake.v) always produces a renaming:
   for every well-formed program X, `tree_shake X` does not panic and `struct_ok (shake_rho X) X
   (tree_shake X)` holds, so the lock-step simulation of RemapProofs.v applies to EVERY tree-shake,
   not only to the outputs validated at run time. *)
From Quiver Require Import vm.Remap vm.RemapProofs vm.RemapShake.

(* ------------------------------------------------------------------ characteristic vectors *)

Lemma nthb_lt l i : nthb l i = true -> i < length l.
Proof.
  unfold nthb. destruct (nth_error l i) eqn:E; [|discriminate]. intros _. apply nth_error_Some. congruence.
Qed.

Lemma length_set_true l : forall i, length (set_true l i) = length l.
Proof. induction l as [|b t IH]; intros [|i]; cbn; auto. Qed.

Lemma nthb_set_same l : forall i, i < length l -> nthb (set_true l i) i = true.
Proof.
  induction l as [|b t IH]; intros [|i] H; cbn in H; try lia; [reflexivity|].
  unfold nthb in *. cbn [set_true nth_error]. apply IH. lia.
Qed.

Lemma nthb_set_other l : forall i j, i <> j -> nthb (set_true l i) j = nthb l j.
Proof.
  induction l as [|b t IH]; intros [|i] [|j] H; cbn [set_true]; try reflexivity; try congruence.
  unfold nthb in *. cbn [nth_error]. apply IH. congruence.
Qed.

Lemma nthb_set_mono l i j : nthb l j = true -> nthb (set_true l i) j = true.
Proof.
  intros H. destruct (Nat.eq_dec i j) as [->|N].
  - apply nthb_set_same. apply nthb_lt. exact H.
  - rewrite nthb_set_other; assumption.
Qed.

Definition cfalse (l : list bool) : nat := length (filter negb l).

Lemma cfalse_set l : forall i, i < length l -> nthb l i = false -> S (cfalse (set_true l i)) = cfalse l.
Proof.
  induction l as [|b t IH]; intros [|i] H E; cbn in H; try lia.
  - unfold nthb in E. cbn in E. subst b. reflexivity.
  - unfold nthb in E. cbn [nth_error] in E. unfold cfalse in *. cbn [set_true filter].
    destruct b; cbn [negb length]; [apply IH; [lia | exact E]|]. f_equal. apply IH; [lia | exact E].
Qed.

Lemma nthb_repeat_false n i : nthb (repeat false n) i = false.
Proof.
  unfold nthb. destruct (nth_error (repeat false n) i) as [b|] eqn:E; [|reflexivity].
  apply nth_error_In, repeat_spec in E. exact E.
Qed.

Lemma cfalse_repeat n : cfalse (repeat false n) = n.
Proof. unfold cfalse. induction n; cbn; auto. Qed.

(* ------------------------------------------------------------------ marks *)

Lemma node_eq_dec (a b : node) : {a = b} + {a <> b}.
Proof. decide equality; apply Nat.eq_dec. Qed.

Section MARKS.
Variable X : xprogram.

Definition valid (n : node) : Prop :=
  match n with
  | NC k => k < length (x_consts X) | NF f => f < length (x_funcs X) | NT t => t < length (x_tuples X)
  | NY y => y < length (x_types X) | NB b => b < length (x_builtins X)
  end.

Definition shaped (m : marks) : Prop :=
  length (m_c m) = length (x_consts X) /\ length (m_f m) = length (x_funcs X) /\
  length (m_t m) = length (x_tuples X) /\ length (m_y m) = length (x_types X) /\
  length (m_b m) = length (x_builtins X).

Definition unmarked (m : marks) : nat :=
  cfalse (m_c m) + cfalse (m_f m) + cfalse (m_t m) + cfalse (m_y m) + cfalse (m_b m).

Lemma shaped_ins n m : shaped m -> shaped (ins n m).
Proof.
  intros (A & B & C & D & E). destruct n; unfold shaped; cbn [ins m_c m_f m_t m_y m_b];
    rewrite ?length_set_true; auto.
Qed.

Lemma mem_valid n m : shaped m -> mem n m = true -> valid n.
Proof.
  intros (A & B & C & D & E) H. destruct n; cbn [mem valid] in *; apply nthb_lt in H; lia.
Qed.

Lemma mem_ins_same n m : shaped m -> valid n -> mem n (ins n m) = true.
Proof.
  intros (A & B & C & D & E) V. destruct n; cbn [mem ins valid m_c m_f m_t m_y m_b] in *;
    apply nthb_set_same; lia.
Qed.

Lemma mem_ins_mono n k m : mem k m = true -> mem k (ins n m) = true.
Proof.
  destruct n, k; cbn [mem ins m_c m_f m_t m_y m_b]; intros H; try exact H; apply nthb_set_mono; exact H.
Qed.

Lemma mem_ins_inv n k m : mem k (ins n m) = true -> mem k m = true \/ k = n.
Proof.
  destruct (node_eq_dec k n) as [->|N]; [auto|]. left.
  destruct n, k; cbn [mem ins m_c m_f m_t m_y m_b] in *; try assumption;
    rewrite nthb_set_other in H; try assumption; congruence.
Qed.

Lemma unmarked_ins n m : shaped m -> valid n -> mem n m = false -> S (unmarked (ins n m)) = unmarked m.
Proof.
  intros (A & B & C & D & E) V H. unfold unmarked.
  destruct n; cbn [mem ins valid m_c m_f m_t m_y m_b] in *.
  - rewrite <- (cfalse_set (m_c m) k) by (try lia; assumption). lia.
  - rewrite <- (cfalse_set (m_f m) f) by (try lia; assumption). lia.
  - rewrite <- (cfalse_set (m_t m) t) by (try lia; assumption). lia.
  - rewrite <- (cfalse_set (m_y m) y) by (try lia; assumption). lia.
  - rewrite <- (cfalse_set (m_b m) b) by (try lia; assumption). lia.
Qed.

(* ------------------------------------------------------------------ the guarded walk *)
Hypothesis Hch : forall n, valid n -> Forall valid (children X n).

Definition grows (m r : marks) : Prop := forall k, mem k m = true -> mem k r = true.
(* everything marked since m has all it mentions marked *)
Definition closed_since (m r : marks) : Prop :=
  forall k, mem k r = true -> mem k m = false -> Forall (fun c => mem c r = true) (children X k).

Definition walk_post (n : node) (m r : marks) : Prop :=
  shaped r /\ unmarked r <= unmarked m /\ grows m r /\ mem n r = true /\ closed_since m r.

Lemma fold_walk k :
  (forall n m, shaped m -> valid n -> unmarked m < k -> walk_post n m (walk X k n m)) ->
  forall cs m1, Forall valid cs -> shaped m1 -> unmarked m1 < k ->
  shaped (fold_left (fun m c => walk X k c m) cs m1) /\
  unmarked (fold_left (fun m c => walk X k c m) cs m1) <= unmarked m1 /\
  grows m1 (fold_left (fun m c => walk X k c m) cs m1) /\
  Forall (fun c => mem c (fold_left (fun m c => walk X k c m) cs m1) = true) cs /\
  closed_since m1 (fold_left (fun m c => walk X k c m) cs m1).
Proof.
  intros IH cs. induction cs as [|c cs IHcs]; intros m1 Hv Hs Hu; cbn [fold_left].
  - split; [exact Hs|]. split; [lia|]. split; [intros x Hx; exact Hx|]. split; [constructor|].
    intros k0 A B. congruence.
  - inversion Hv as [|? ? Vc Vcs]; subst.
    destruct (IH c m1 Hs Vc Hu) as (S2 & U2 & G2 & M2 & C2).
    set (m2 := walk X k c m1) in *.
    destruct (IHcs m2 Vcs S2 ltac:(lia)) as (S3 & U3 & G3 & M3 & C3).
    set (r := fold_left (fun m c0 => walk X k c0 m) cs m2) in *.
    split; [exact S3|]. split; [lia|]. split; [intros x Hx; apply G3, G2, Hx|].
    split; [constructor; [apply G3; exact M2 | exact M3]|].
    intros x Hr Hm1. destruct (mem x m2) eqn:E2.
    + eapply Forall_impl; [|apply (C2 x E2 Hm1)]. intros a Ha. apply G3. exact Ha.
    + apply C3; assumption.
Qed.

Lemma walk_spec fuel : forall n m, shaped m -> valid n -> unmarked m < fuel -> walk_post n m (walk X fuel n m).
Proof.
  induction fuel as [|k IH]; intros n m Hs Hv Hu; [lia|].
  cbn [walk]. destruct (mem n m) eqn:E.
  - split; [exact Hs|]. split; [lia|]. split; [intros x Hx; exact Hx|]. split; [exact E|].
    intros x A B. congruence.
  - pose proof (unmarked_ins n m Hs Hv E) as Hdec.
    destruct (fold_walk k IH (children X n) (ins n m) (Hch n Hv) (shaped_ins n m Hs) ltac:(lia))
      as (S3 & U3 & G3 & M3 & C3).
    set (r := fold_left (fun m0 c => walk X k c m0) (children X n) (ins n m)) in *.
    split; [exact S3|]. split; [lia|]. split; [intros x Hx; apply G3, mem_ins_mono, Hx|].
    split; [apply G3, mem_ins_same; assumption|].
    intros x Hr Hm. destruct (mem x (ins n m)) eqn:E1.
    + destruct (mem_ins_inv _ _ _ E1) as [A| ->]; [congruence | exact M3].
    + apply C3; assumption.
Qed.

Lemma closed_since_trans a b c : grows b c -> closed_since a b -> closed_since b c -> closed_since a c.
Proof.
  intros G H1 H2 x Hc Ha. destruct (mem x b) eqn:E.
  - eapply Forall_impl; [|apply (H1 x E Ha)]. intros y Hy. apply G. exact Hy.
  - apply H2; assumption.
Qed.

End MARKS.

(* ------------------------------------------------------------------ what well-formedness gives *)

Lemma find_index_lt {A} (p : A -> bool) l : forall i0 i, find_index p l i0 = Some i -> i < i0 + length l.
Proof.
  induction l as [|x l IH]; intros i0 i H; cbn [find_index] in H; [discriminate|].
  destruct (p x); [inv H; cbn; lia|]. apply IH in H. cbn. lia.
Qed.

Section WFFACTS.
Variable X : xprogram.
Hypothesis HW : wf_program X = true.

Lemma wf_parts :
  2 <= length (x_tuples X) /\ x_entry X < length (x_funcs X) /\
  (forall f fd, nth_error (x_funcs X) f = Some fd ->
     xf_type fd < length (x_types X) /\ forall i, In i (xf_code fd) -> instr_ids_ok X i = true) /\
  (forall t a, nth_error (x_tuples X) t = Some a -> forall p, In p (xt_fields a) -> snd p < length (x_types X)) /\
  (forall y ty, nth_error (x_types X) y = Some ty -> type_ids_ok X ty = true) /\
  (forall b a, nth_error (x_builtins X) b = Some a ->
     xb_param a < length (x_types X) /\ xb_result a < length (x_types X)).
Proof.
  unfold wf_program in HW.
  apply andb_true_iff in HW as [H Hb]. apply andb_true_iff in H as [H Hy]. apply andb_true_iff in H as [H Ht].
  apply andb_true_iff in H as [H Hf]. apply andb_true_iff in H as [H2 He].
  apply Nat.leb_le in H2. apply Nat.ltb_lt in He.
  rewrite forallb_forall in Hb, Hy, Ht, Hf.
  repeat split; auto.
  - apply nth_error_In, Hf in H. apply andb_true_iff in H as [_ H]. apply Nat.ltb_lt. exact H.
  - intros i Hi. apply nth_error_In, Hf in H. apply andb_true_iff in H as [H _].
    rewrite forallb_forall in H. apply H. exact Hi.
  - intros t a H p Hp. apply nth_error_In, Ht in H. rewrite forallb_forall in H. apply Nat.ltb_lt, H, Hp.
  - intros y ty H. apply Hy. eapply nth_error_In; eauto.
  - apply nth_error_In, Hb in H. apply andb_true_iff in H as [H _]. apply Nat.ltb_lt. exact H.
  - apply nth_error_In, Hb in H. apply andb_true_iff in H as [_ H]. apply Nat.ltb_lt. exact H.
Qed.

Lemma instr_children_valid i : instr_ids_ok X i = true -> Forall (valid X) (instr_children X i).
Proof.
  intros H. destruct i; cbn [instr_children instr_ids_ok] in *; try constructor;
    try (cbn [valid]; apply Nat.ltb_lt; exact H); try constructor.
  destruct (first_tuple_type X t) as [p|] eqn:Ep; constructor; [|constructor].
  cbn [valid]. unfold first_tuple_type in Ep. apply find_index_lt in Ep. lia.
Qed.

Lemma wf_children n : valid X n -> Forall (valid X) (children X n).
Proof.
  destruct wf_parts as (_ & _ & Wf & Wt & Wy & Wb). intros V.
  destruct n; cbn [children].
  - constructor.
  - destruct (nth_error (x_funcs X) f) as [fd|] eqn:E; [|constructor].
    destruct (Wf _ _ E) as [Hty Hc]. constructor; [exact Hty|].
    apply Forall_forall. intros c Hc0. apply in_flat_map in Hc0. destruct Hc0 as (i & Hi & Hci).
    pose proof (instr_children_valid i (Hc i Hi)) as G. rewrite Forall_forall in G. apply G. exact Hci.
  - destruct (nth_error (x_tuples X) t) as [a|] eqn:E; [|constructor].
    apply Forall_forall. intros c Hc. apply in_map_iff in Hc. destruct Hc as (p & <- & Hp). cbn [valid].
    eapply Wt; eauto.
  - destruct (nth_error (x_types X) y) as [ty|] eqn:E; [|constructor].
    specialize (Wy _ _ E).
    destruct ty as [| | |t|nm fs|p r c|d|ys|sd rc|nm|nm]; cbn [type_ids_ok] in Wy.
    + constructor.
    + constructor.
    + constructor.
    + constructor; [|constructor]. cbn [valid]. apply Nat.ltb_lt. exact Wy.
    + apply Forall_forall. intros c Hc. apply in_map_iff in Hc. destruct Hc as (q & <- & Hq). cbn [valid].
      rewrite forallb_forall in Wy. apply Nat.ltb_lt, Wy, Hq.
    + apply andb_true_iff in Wy as [Wy W3]. apply andb_true_iff in Wy as [W1 W2].
      repeat constructor; cbn [valid]; apply Nat.ltb_lt; assumption.
    + constructor.
    + apply Forall_forall. intros c Hc. apply in_map_iff in Hc. destruct Hc as (q & <- & Hq). cbn [valid].
      rewrite forallb_forall in Wy. apply Nat.ltb_lt, Wy, Hq.
    + apply andb_true_iff in Wy as [W1 W2]. apply Forall_app. split.
      * destruct sd; cbn [oid_nodes oid_ok] in *; repeat constructor. cbn [valid]. apply Nat.ltb_lt. exact W1.
      * destruct rc; cbn [oid_nodes oid_ok] in *; repeat constructor. cbn [valid]. apply Nat.ltb_lt. exact W2.
    + constructor.
    + constructor.
  - destruct (nth_error (x_builtins X) b) as [a|] eqn:E; [|constructor].
    destruct (Wb _ _ E). repeat constructor; cbn [valid]; assumption.
Qed.

(* the marks of tree_shake: roots marked, closed under "mentions" *)
Definition M := shake_marks X.

Lemma no_marks_shaped : shaped X (no_marks X).
Proof. unfold shaped, no_marks; cbn [m_c m_f m_t m_y m_b]. rewrite !repeat_length. auto. Qed.

Lemma no_marks_none k : mem k (no_marks X) = false.
Proof. destruct k; cbn [mem no_marks m_c m_f m_t m_y m_b]; apply nthb_repeat_false. Qed.

Lemma no_marks_unmarked : unmarked (no_marks X) = table_size X.
Proof. unfold unmarked, no_marks, table_size; cbn [m_c m_f m_t m_y m_b]. rewrite !cfalse_repeat. reflexivity. Qed.

Lemma marks_facts :
  shaped X M /\ mem (NT NIL) M = true /\ mem (NT OK) M = true /\ mem (NF (x_entry X)) M = true /\
  forall k, mem k M = true -> Forall (fun c => mem c M = true) (children X k).
Proof.
  destruct wf_parts as (W2 & We & _).
  unfold M, shake_marks.
  set (fuel := S (table_size X)).
  pose proof (walk_spec X wf_children fuel (NT NIL) (no_marks X) no_marks_shaped) as H1.
  specialize (H1 ltac:(cbn; unfold NIL; lia) ltac:(rewrite no_marks_unmarked; unfold fuel; lia)).
  destruct H1 as (S1 & U1 & G1 & M1 & C1). set (m1 := walk X fuel (NT NIL) (no_marks X)) in *.
  pose proof (walk_spec X wf_children fuel (NT OK) m1 S1) as H2.
  specialize (H2 ltac:(cbn; unfold OK; lia) ltac:(rewrite no_marks_unmarked in U1; unfold fuel; lia)).
  destruct H2 as (S2 & U2 & G2 & M2 & C2). set (m2 := walk X fuel (NT OK) m1) in *.
  pose proof (walk_spec X wf_children fuel (NF (x_entry X)) m2 S2) as H3.
  specialize (H3 We ltac:(rewrite no_marks_unmarked in U1; unfold fuel; lia)).
  destruct H3 as (S3 & U3 & G3 & M3 & C3). set (m3 := walk X fuel (NF (x_entry X)) m2) in *.
  split; [exact S3|]. split; [apply G3, G2, M1|]. split; [apply G3, M2|]. split; [exact M3|].
  intros k Hk.
  assert (CC : closed_since X (no_marks X) m3).
  { eapply closed_since_trans; [exact G3 | | exact C3].
    eapply closed_since_trans; [exact G2 | exact C1 | exact C2]. }
  apply CC; [exact Hk | apply no_marks_none].
Qed.

End WFFACTS.

(* ------------------------------------------------------------------ remap tables *)

Lemma app_cons o (m : fmap) i : app (o :: m) (S i) = app m i.
Proof. reflexivity. Qed.

(* old id i -> new id j: j counts the kept ids below i; the j-th kept entry is entry i; the j-th
   kept old id is i *)
Lemma dense_spec {A} mask : forall (l : list A) k b i j, length mask = length l ->
  app (dense mask k) i = Some j ->
  exists j0, j = k + j0 /\ nth_error (select mask l) j0 = nth_error l i /\
             nth_error (pos_from b mask) j0 = Some (b + i) /\ nthb mask i = true.
Proof.
  induction mask as [|b0 mask IH]; intros l k b i j Hl H.
  - destruct i; discriminate.
  - destruct l as [|x l]; [discriminate|]. cbn [length] in Hl.
    destruct i as [|i].
    + destruct b0; cbn in H; [|discriminate]. inv H. exists 0. rewrite !Nat.add_0_r. repeat split; reflexivity.
    + destruct b0; cbn [dense] in H; rewrite app_cons in H.
      * destruct (IH l (S k) (S b) i j ltac:(lia) H) as (j0 & -> & A1 & B1 & C1).
        exists (S j0). split; [lia|]. cbn [select pos_from nth_error]. split; [exact A1|].
        split; [rewrite B1; f_equal; lia | exact C1].
      * destruct (IH l k (S b) i j ltac:(lia) H) as (j0 & -> & A1 & B1 & C1).
        exists j0. split; [reflexivity|]. cbn [select pos_from nth_error]. split; [exact A1|].
        split; [rewrite B1; f_equal; lia | exact C1].
Qed.

Lemma dense_some mask : forall k i, nthb mask i = true -> exists j, app (dense mask k) i = Some j.
Proof.
  induction mask as [|b0 mask IH]; intros k i H; [destruct i; discriminate|].
  destruct i as [|i].
  - unfold nthb in H. cbn in H. subst b0. eexists. reflexivity.
  - unfold nthb in H. cbn [nth_error] in H. destruct b0; cbn [dense]; rewrite app_cons; apply IH; exact H.
Qed.

Lemma dense_marked mask k i j : app (dense mask k) i = Some j -> nthb mask i = true.
Proof.
  intros H. destruct (dense_spec mask (repeat tt (length mask)) k 0 i j ltac:(rewrite repeat_length; reflexivity) H)
    as (_ & _ & _ & _ & C). exact C.
Qed.

Lemma app_map_some (l : list nat) j : app (map Some l) j = nth_error l j.
Proof. unfold app. rewrite nth_error_map. destruct (nth_error l j); reflexivity. Qed.

(* the kept-ids vector inverts the remap table *)
Lemma dense_inverse mask i j : app (dense mask 0) i = Some j -> app (map Some (pos_from 0 mask)) j = Some i.
Proof.
  intros H. destruct (dense_spec mask (repeat tt (length mask)) 0 0 i j ltac:(rewrite repeat_length; reflexivity) H)
    as (j0 & -> & _ & B & _). rewrite app_map_some. exact B.
Qed.

Lemma dense_inj mask i i' j : app (dense mask 0) i = Some j -> app (dense mask 0) i' = Some j -> i = i'.
Proof. intros A B. apply dense_inverse in A. apply dense_inverse in B. congruence. Qed.

Lemma dense_select {A} mask (l : list A) i j : length mask = length l -> app (dense mask 0) i = Some j ->
  nth_error (select mask l) j = nth_error l i.
Proof. intros Hl H. destruct (dense_spec mask l 0 0 i j Hl H) as (j0 & -> & A0 & _). exact A0. Qed.

Lemma In_select {A} mask : forall (l : list A) x, In x (select mask l) ->
  exists i, nthb mask i = true /\ nth_error l i = Some x.
Proof.
  induction mask as [|b mask IH]; intros l x H; [destruct H|].
  destruct l as [|y l]; [destruct H|]. cbn [select] in H. destruct b.
  - destruct H as [->|H]; [exists 0; split; reflexivity|].
    destruct (IH _ _ H) as (i & Hi1 & Hi2). exists (S i). split; assumption.
  - destruct (IH _ _ H) as (i & Hi1 & Hi2). exists (S i). split; assumption.
Qed.

Lemma forall_from_intro m chk : forall i0,
  (forall i j, nth_error m i = Some (Some j) -> chk (i0 + i) j = true) -> forall_from i0 m chk = true.
Proof.
  induction m as [|o m IH]; intros i0 H; [reflexivity|]. cbn [forall_from]. apply andb_true_iff. split.
  - destruct o as [j|]; [|reflexivity]. specialize (H 0 j eq_refl). rewrite Nat.add_0_r in H. exact H.
  - apply IH. intros i j E. specialize (H (S i) j E). replace (S i0 + i) with (i0 + S i) by lia. exact H.
Qed.

Lemma forall_map_intro m chk : (forall i j, app m i = Some j -> chk i j = true) -> forall_map m chk = true.
Proof.
  intros H. apply forall_from_intro. intros i j E. cbn [Nat.add]. apply H. unfold app. rewrite E. reflexivity.
Qed.

Lemma map_opt_nth {A B} (g : A -> option B) l : forall r j x, map_opt g l = Some r -> nth_error l j = Some x ->
  exists y, g x = Some y /\ nth_error r j = Some y.
Proof.
  induction l as [|a l IH]; intros r j x H E; [destruct j; discriminate|].
  cbn [map_opt] in H. destruct (g a) as [y|] eqn:Ga; [|discriminate].
  destruct (map_opt g l) as [r'|] eqn:Er; [|discriminate]. inv H.
  destruct j as [|j]; cbn [nth_error] in *; [inv E; eauto | eapply IH; eauto].
Qed.

Lemma map_opt_total {A B} (g : A -> option B) l : (forall x, In x l -> exists y, g x = Some y) ->
  exists r, map_opt g l = Some r.
Proof.
  induction l as [|a l IH]; intros H; [eexists; reflexivity|].
  cbn [map_opt]. destruct (H a (or_introl eq_refl)) as [y ->].
  destruct IH as [r ->]; [intros x Hx; apply H; right; exact Hx|]. eexists. reflexivity.
Qed.

Lemma map_opt_Forall2 {A B} (g : A -> option B) l : forall r, map_opt g l = Some r ->
  Forall2 (fun x y => g x = Some y) l r.
Proof.
  induction l as [|a l IH]; intros r H; cbn [map_opt] in H; [inv H; constructor|].
  destruct (g a) as [y|] eqn:Ga; [|discriminate].
  destruct (map_opt g l) as [r'|] eqn:Er; [|discriminate]. inv H. constructor; auto.
Qed.

(* ---- reflexivity of the boolean equalities *)
Lemma list_eqb_refl {A} (eqb : A -> A -> bool) : (forall a, eqb a a = true) -> forall l, list_eqb eqb l l = true.
Proof. intros H l. induction l as [|a l IH]; cbn; [reflexivity|]. rewrite H, IH. reflexivity. Qed.
Lemma str_eqb_refl s : str_eqb s s = true.
Proof. apply list_eqb_refl. apply Z.eqb_refl. Qed.
Lemma ostr_eqb_refl s : ostr_eqb s s = true.
Proof. destruct s; cbn; [apply str_eqb_refl | reflexivity]. Qed.
Lemma onat_eqb_refl o : onat_eqb o o = true.
Proof. destruct o; cbn; [apply Nat.eqb_refl | reflexivity]. Qed.
Lemma instr_eqb_refl i : instr_eqb i i = true.
Proof. destruct i; cbn; rewrite ?Nat.eqb_refl, ?Z.eqb_refl; try reflexivity. destruct recurse; reflexivity. Qed.
Lemma xconst_eqb_refl c : xconst_eqb c c = true.
Proof. destruct c; cbn; [apply Z.eqb_refl | apply list_eqb_refl, Z.eqb_refl]. Qed.
Lemma xtype_eqb_refl t : xtype_eqb t t = true.
Proof.
  destruct t; cbn; rewrite ?Nat.eqb_refl, ?ostr_eqb_refl, ?onat_eqb_refl, ?str_eqb_refl; try reflexivity.
  - apply list_eqb_refl. intros [a b]. cbn. rewrite str_eqb_refl, Nat.eqb_refl. reflexivity.
  - apply list_eqb_refl. apply Nat.eqb_refl.
Qed.

Lemma maps_to_intro m i j : app m i = Some j -> maps_to m i j = true.
Proof. apply maps_to_spec. Qed.

Lemma get_or_some m i j : app m i = Some j -> get_or m i = j.
Proof. unfold get_or. intros ->. reflexivity. Qed.

Lemma Forall2_forall2b {A B} (p : A -> B -> bool) l r : Forall2 (fun a b => p a b = true) l r -> forall2b p l r = true.
Proof. induction 1 as [|a b l r H _ IH]; cbn; [reflexivity|]. rewrite H, IH. reflexivity. Qed.

Lemma forall2b_map_r {A B} (p : A -> B -> bool) (h : A -> B) l :
  (forall a, In a l -> p a (h a) = true) -> forall2b p l (map h l) = true.
Proof.
  induction l as [|a l IH]; intros H; cbn; [reflexivity|].
  rewrite (H a (or_introl eq_refl)), IH; [reflexivity|]. intros b Hb. apply H. right. exact Hb.
Qed.

Lemma map_opt_all {A B} (g : A -> option B) (h : A -> B) l :
  (forall a, In a l -> g a = Some (h a)) -> map_opt g l = Some (map h l).
Proof.
  induction l as [|a l IH]; intros H; cbn [map_opt map]; [reflexivity|].
  rewrite (H a (or_introl eq_refl)), IH; [reflexivity|]. intros b Hb. apply H. right. exact Hb.
Qed.

Lemma app_map {A} (g : A -> option nat) l i : app (map g l) i = match nth_error l i with Some x => g x | None => None end.
Proof. unfold app. rewrite nth_error_map. destruct (nth_error l i); reflexivity. Qed.

(* ------------------------------------------------------------------ tree_shake always yields a renaming *)
Section SHAKE.
Variable X : xprogram.
Hypothesis HW : wf_program X = true.

Let Mk := shake_marks X.
Let rho := shake_rho X.

Let MF := marks_facts X HW.

Lemma Mshaped : shaped X Mk. Proof. exact (proj1 MF). Qed.
Lemma Mclosed k : mem k Mk = true -> Forall (fun c => mem c Mk = true) (children X k).
Proof. destruct MF as (_ & _ & _ & _ & H). apply H. Qed.

Lemma rc_eq : r_c rho = dense (m_c Mk) 0. Proof. reflexivity. Qed.
Lemma rf_eq : r_f rho = dense (m_f Mk) 0. Proof. reflexivity. Qed.
Lemma rt_eq : r_t rho = dense (m_t Mk) 0. Proof. reflexivity. Qed.
Lemma ry_eq : r_y rho = dense (m_y Mk) 0. Proof. reflexivity. Qed.
Lemma rb_eq : r_b rho = dense (m_b Mk) 0. Proof. reflexivity. Qed.

(* a marked id is mapped *)
Lemma mapped (n : node) : mem n Mk = true ->
  match n with
  | NC k => exists j, app (r_c rho) k = Some j | NF f => exists j, app (r_f rho) f = Some j
  | NT t => exists j, app (r_t rho) t = Some j | NY y => exists j, app (r_y rho) y = Some j
  | NB b => exists j, app (r_b rho) b = Some j
  end.
Proof.
  destruct n; cbn [mem]; intros H; [rewrite rc_eq|rewrite rf_eq|rewrite rt_eq|rewrite ry_eq|rewrite rb_eq];
    apply dense_some; exact H.
Qed.

Lemma y_get y : mem (NY y) Mk = true -> app (r_y rho) y = Some (get_or (r_y rho) y).
Proof. intros H. destruct (mapped (NY y) H) as [j E]. rewrite (get_or_some _ _ _ E). exact E. Qed.

Lemma t_get t : mem (NT t) Mk = true -> app (r_t rho) t = Some (get_or (r_t rho) t).
Proof. intros H. destruct (mapped (NT t) H) as [j E]. rewrite (get_or_some _ _ _ E). exact E. Qed.

(* every instruction of a marked function has an image *)
Lemma instr_image f fd i : mem (NF f) Mk = true -> nth_error (x_funcs X) f = Some fd -> In i (xf_code fd) ->
  exists j, ren_instr rho i = Some j.
Proof.
  intros Hf Hfd Hi. pose proof (Mclosed _ Hf) as C. cbn [children] in C. rewrite Hfd in C.
  inversion C as [|? ? _ C']; subst. rewrite Forall_forall in C'.
  assert (G : forall c, In c (instr_children X i) -> mem c Mk = true).
  { intros c Hc. apply C'. apply in_flat_map. exists i. split; assumption. }
  destruct i; cbn [ren_instr instr_children] in *; try (eexists; reflexivity).
  - destruct (mapped _ (G (NC k) (or_introl eq_refl))) as [j ->]. eexists; reflexivity.
  - destruct (mapped _ (G (NT t) (or_introl eq_refl))) as [j ->]. eexists; reflexivity.
  - destruct (mapped _ (G (NY t) (or_introl eq_refl))) as [j ->]. eexists; reflexivity.
  - destruct (mapped _ (G (NF f0) (or_introl eq_refl))) as [j ->]. eexists; reflexivity.
  - destruct (mapped _ (G (NB b) (or_introl eq_refl))) as [j ->]. eexists; reflexivity.
  - destruct (mapped _ (G (NF f0) (or_introl eq_refl))) as [j ->]. eexists; reflexivity.
Qed.

Lemma fun_type_marked f fd : mem (NF f) Mk = true -> nth_error (x_funcs X) f = Some fd -> mem (NY (xf_type fd)) Mk = true.
Proof.
  intros Hf Hfd. pose proof (Mclosed _ Hf) as C. cbn [children] in C. rewrite Hfd in C. inversion C; subst. assumption.
Qed.

(* the type images computed with `unwrap_or` are the images under rho *)
Lemma type_image y ty : mem (NY y) Mk = true -> nth_error (x_types X) y = Some ty ->
  ren_type rho ty = Some (ren_type_or rho ty).
Proof.
  intros Hy Hty. pose proof (Mclosed _ Hy) as C. cbn [children] in C. rewrite Hty in C.
  destruct ty as [| | |t|nm fs|p r c|d|ys|sd rc|nm|nm]; cbn [ren_type ren_type_or]; try reflexivity.
  - inversion C; subst. rewrite (t_get t) by assumption. reflexivity.
  - rewrite (map_opt_all _ (fun p => (fst p, get_or (r_y rho) (snd p)))); [reflexivity|].
    intros q Hq. rewrite Forall_forall in C.
    rewrite (y_get (snd q)) by (apply C, in_map_iff; exists q; auto). reflexivity.
  - inversion C as [|? ? C1 C']; subst. inversion C' as [|? ? C2 C'']; subst. inversion C'' as [|? ? C3 _]; subst.
    rewrite (y_get p), (y_get r), (y_get c) by assumption. reflexivity.
  - rewrite (map_opt_all _ (get_or (r_y rho))); [reflexivity|].
    intros q Hq. rewrite Forall_forall in C. apply y_get, C, in_map_iff. exists q; auto.
  - apply Forall_app in C. destruct C as [Cs Cr].
    assert (Es : ren_oid rho sd = Some (option_map (get_or (r_y rho)) sd)).
    { destruct sd as [s|]; cbn [ren_oid oid_nodes option_map] in *; [|reflexivity].
      inversion Cs; subst. rewrite (y_get s) by assumption. reflexivity. }
    assert (Er : ren_oid rho rc = Some (option_map (get_or (r_y rho)) rc)).
    { destruct rc as [s|]; cbn [ren_oid oid_nodes option_map] in *; [|reflexivity].
      inversion Cr; subst. rewrite (y_get s) by assumption. reflexivity. }
    rewrite Es, Er. reflexivity.
Qed.

Lemma marked_lookup_f f : mem (NF f) Mk = true -> exists fd, nth_error (x_funcs X) f = Some fd.
Proof.
  intros H. apply (mem_valid X _ _ Mshaped) in H. cbn [valid] in H.
  destruct (nth_error (x_funcs X) f) eqn:E; [eauto|]. apply nth_error_None in E. lia.
Qed.

(* tree_shake does not panic *)
Lemma shake_funs_total : exists fs, map_opt (shake_fun rho) (select (m_f Mk) (x_funcs X)) = Some fs.
Proof.
  apply map_opt_total. intros fd Hin. apply In_select in Hin. destruct Hin as (f & Hm & Hfd).
  unfold shake_fun.
  destruct (map_opt_total (ren_instr rho) (xf_code fd)) as [code ->]; [|eexists; reflexivity].
  intros i Hi. eapply (instr_image f fd i); eauto.
Qed.

Lemma entry_mapped : exists e, app (r_f rho) (x_entry X) = Some e.
Proof. destruct MF as (_ & _ & _ & He & _). exact (mapped (NF (x_entry X)) He). Qed.

Lemma lookup_marked {A} (mask : list bool) (l : list A) i : length mask = length l -> nthb mask i = true ->
  exists x, nth_error l i = Some x.
Proof.
  intros Hl H. apply nthb_lt in H. destruct (nth_error l i) eqn:E; [eauto|]. apply nth_error_None in E. lia.
Qed.

Theorem tree_shake_struct_ok : exists X', tree_shake X = Some X' /\ struct_ok (shake_rho X) X X' = true.
Proof.
  destruct shake_funs_total as [fs Hfs]. destruct entry_mapped as [e He].
  destruct Mshaped as (Lc & Lf & Lt & Ly & Lb).
  destruct MF as (_ & Hnil & Hok & _ & _).
  unfold tree_shake. fold Mk. fold rho. rewrite Hfs, He.
  eexists. split; [reflexivity|]. fold rho.
  unfold struct_ok. cbn [x_entry x_funcs x_consts x_tuples x_types x_builtins x_resources].
  (* the NIL / OK facts *)
  assert (T0 : app (r_t rho) NIL = Some NIL /\ app (r_t rho) OK = Some OK).
  { rewrite rt_eq. unfold M in Hnil, Hok. fold Mk in Hnil, Hok. cbn [mem] in Hnil, Hok. unfold nthb, NIL, OK in *.
    destruct (m_t Mk) as [|[|] [|[|] r]]; cbn [nth_error] in Hnil, Hok; try discriminate. split; reflexivity. }
  destruct T0 as [T0 T1].
  repeat (apply andb_true_iff; split).
  - apply maps_to_intro. exact He.
  - apply maps_to_intro. exact T0.
  - apply maps_to_intro. exact T1.
  - apply forall_map_intro. intros t t' E. destruct (Nat.eqb t' NIL) eqn:Et; [|reflexivity].
    apply Nat.eqb_eq in Et. subst t'. apply Nat.eqb_eq. rewrite rt_eq in E, T0. eapply dense_inj; eauto.
  - (* functions *)
    apply forall_map_intro. intros f f' E. rewrite rf_eq in E.
    pose proof (dense_marked _ _ _ _ E) as Hm.
    destruct (marked_lookup_f f Hm) as [fd Hfd].
    pose proof (dense_select _ (x_funcs X) _ _ Lf E) as Hsel. rewrite Hfd in Hsel.
    destruct (map_opt_nth _ _ _ _ _ Hfs Hsel) as (fd' & Hsf & Hfd').
    unfold chk_fun. cbn [x_entry x_funcs x_consts x_tuples x_types x_builtins x_resources]. rewrite Hfd, Hfd'. unfold shake_fun in Hsf.
    destruct (map_opt (ren_instr rho) (xf_code fd)) as [code|] eqn:Ec; [|discriminate]. inv Hsf.
    cbn [xf_caps xf_code xf_type]. rewrite Nat.eqb_refl. cbn [andb].
    apply andb_true_iff. split.
    + apply Forall2_forall2b. apply map_opt_Forall2 in Ec.
      clear -Ec. induction Ec as [|i j l r Hij _ IH]; constructor; [|exact IH].
      unfold instr_img. rewrite Hij. apply instr_eqb_refl.
    + apply maps_to_intro. apply y_get. eapply fun_type_marked; eauto.
  - (* constants *)
    apply forall_map_intro. intros k k' E. rewrite rc_eq in E.
    pose proof (dense_marked _ _ _ _ E) as Hm.
    destruct (lookup_marked _ (x_consts X) _ Lc Hm) as [c Hc].
    unfold chk_const. cbn [x_entry x_funcs x_consts x_tuples x_types x_builtins x_resources]. rewrite (dense_select _ (x_consts X) _ _ Lc E), Hc. apply xconst_eqb_refl.
  - (* tuples *)
    apply forall_map_intro. intros t t' E. rewrite rt_eq in E.
    pose proof (dense_marked _ _ _ _ E) as Hm.
    destruct (lookup_marked _ (x_tuples X) _ Lt Hm) as [a Ha].
    unfold chk_tuple. cbn [x_entry x_funcs x_consts x_tuples x_types x_builtins x_resources]. rewrite Ha, nth_error_map, (dense_select _ (x_tuples X) _ _ Lt E), Ha. cbn [option_map shake_tuple xt_name xt_fields].
    rewrite ostr_eqb_refl. cbn [andb]. apply forall2b_map_r. intros p Hp. cbn [fst snd].
    rewrite ostr_eqb_refl. cbn [andb]. apply maps_to_intro, y_get.
    pose proof (Mclosed (NT t) Hm) as C. cbn [children] in C. rewrite Ha in C. rewrite Forall_forall in C.
    apply C, in_map_iff. exists p; auto.
  - (* types *)
    apply forall_map_intro. intros y y' E. rewrite ry_eq in E.
    pose proof (dense_marked _ _ _ _ E) as Hm.
    destruct (lookup_marked _ (x_types X) _ Ly Hm) as [ty Hty].
    unfold chk_type. cbn [x_entry x_funcs x_consts x_tuples x_types x_builtins x_resources]. rewrite Hty, nth_error_map, (dense_select _ (x_types X) _ _ Ly E), Hty. cbn [option_map].
    rewrite (type_image y ty Hm Hty). apply xtype_eqb_refl.
  - (* builtins *)
    apply forall_map_intro. intros b b' E. rewrite rb_eq in E.
    pose proof (dense_marked _ _ _ _ E) as Hm.
    destruct (lookup_marked _ (x_builtins X) _ Lb Hm) as [a Ha].
    unfold chk_builtin. cbn [x_entry x_funcs x_consts x_tuples x_types x_builtins x_resources]. rewrite Ha, nth_error_map, (dense_select _ (x_builtins X) _ _ Lb E), Ha.
    cbn [option_map shake_builtin xb_name xb_param xb_result]. rewrite str_eqb_refl. cbn [andb].
    pose proof (Mclosed (NB b) Hm) as C. cbn [children] in C. rewrite Ha in C.
    inversion C as [|? ? C1 C']; subst. inversion C' as [|? ? C2 _]; subst.
    apply andb_true_iff. split; apply maps_to_intro, y_get; assumption.
  - (* resources *)
    apply forall_map_intro. intros r r' E. cbn [rho shake_rho r_r] in E. rewrite app_map in E.
    destruct (nth_error (x_resources X) r) as [n|] eqn:En; [|discriminate].
    apply find_index_spec in E. destruct E as (x & Hx & Hp & _). rewrite Nat.sub_0_r in Hx.
    unfold chk_res. cbn [x_entry x_funcs x_consts x_tuples x_types x_builtins x_resources]. rewrite En. unfold Mk. rewrite Hx. exact Hp.
  - (* the kept-function vector inverts the function map *)
    apply forall_map_intro. intros f f' E. apply maps_to_intro. rewrite rf_eq in E. apply dense_inverse in E. exact E.
  - apply forall_map_intro. intros b b' E. apply maps_to_intro. rewrite rb_eq in E. apply dense_inverse in E. exact E.
Qed.

End SHAKE.

(* ------------------------------------------------------------------ the theorems *)

(* tree_shake (model) of a well-formed program never panics and is a structural renaming *)
Theorem tree_shake_struct X : wf_program X = true ->
  exists X', tree_shake X = Some X' /\ struct_ok (shake_rho X) X X' = true.
Proof. apply tree_shake_struct_ok. Qed.

Lemma struct_ok_loaded rho X X' R : struct_ok rho X (loaded X' R) = struct_ok rho X X'.
Proof. reflexivity. Qed.

Lemma canon_ok_loaded Y R : canon_ok (loaded Y R) = true.
Proof. unfold canon_ok, loaded; cbn [x_canon x_tuples]. apply list_eqb_refl. apply Nat.eqb_refl. Qed.

(* ... hence a full renaming as soon as the loader's type_compatibility rows commute (the one part
   that is recomputed by every loader through is_compatible, C08/C09 territory; validated on the
   real tables each run) *)
Theorem tree_shake_is_renaming X : wf_program X = true -> canon_ok X = true ->
  exists X', tree_shake X = Some X' /\
  forall R, rows_ok (shake_rho X) X (loaded X' R) = true ->
            is_renaming (shake_rho X) X (loaded X' R) = true.
Proof.
  intros HW HC. destruct (tree_shake_struct X HW) as (X' & E & S). exists X'. split; [exact E|].
  intros R HR. apply is_renaming_split. rewrite struct_ok_loaded. repeat split; auto. apply canon_ok_loaded.
Qed.

(* every tree-shake preserves behaviour, step for step, with the IsType / Equal verdicts as outside
   inputs: no validation involved *)
Theorem tree_shake_simulation X : wf_program X = true ->
  exists X', tree_shake X = Some X' /\
  app (r_f (shake_rho X)) (x_entry X) = Some (x_entry X') /\
  (forall f, reachable X (x_entry X) f -> exists f', app (r_f (shake_rho X)) f = Some f') /\
  forall s s' xs xs', srel (shake_rho X) s s' -> Forall2 (xrel (shake_rho X)) xs xs' ->
    rrel (shake_rho X) (run (project X) s xs) (run (project X') s' xs').
Proof.
  intros HW. destruct (tree_shake_struct X HW) as (X' & E & S). exists X'. split; [exact E|].
  destruct (struct_covers_reachable _ _ _ S) as [A B]. split; [exact A|]. split; [exact B|].
  apply struct_simulation_ext. exact S.
Qed.

(* non-vacuity: the example program of RemapProofs (dead function 0, dead constant 0) *)
Example ex_shake_wf : wf_program Examples.exX = true.
Proof. vm_compute. reflexivity. Qed.

Example ex_shake_runs :
  option_map (fun Y => (length (x_funcs Y), length (x_consts Y), x_entry Y, map xf_code (x_funcs Y)))
             (tree_shake Examples.exX) =
  Some (2, 1, 1, [[IPop; ILoad 0];
                  [IPop; IConstant 0; IFunction 0; IStore; IConstant 0; ILoad 0; ICall; ITuple 2; IDuplicate; IIsType 1; IPop]]).
Proof. vm_compute. reflexivity. Qed.

(* ill-formed input: an instruction naming a function that does not exist makes the real code panic
   (`bytecode.functions[old_id]`); the theorem's premise excludes it *)
Example ex_shake_illformed :
  wf_program (with_funcs Examples.exX [ {| xf_code := [IFunction 7]; xf_caps := 0; xf_type := 2 |} ]) = false.
Proof. vm_compute. reflexivity. Qed.
