(* Remap.v — the renaming validator (C10), definitions only (executable, total).

   A packaging step (tree_shake, optimisation.rs:7; merge_bytecode, environment.rs:862) turns a
   program into another one whose tables are renumbered: constants, functions, tuples, types,
   builtins (and resource-type names) get new indices, some entries disappear (tree-shake) or are
   shared with entries that were already there (merge dedups through the Program register functions).
   Their algorithms are NOT modelled: their OUTPUT is checked, per program, by `is_renaming`,
   which is proved (RemapProofs.v) to imply a lock-step simulation on the machine of vm/Vm.v.

   `xprogram` is a Bytecode (bytecode.rs:36) with everything a renaming must preserve: constant
   values, tuple names / field labels / field type ids, types, builtin names and signatures,
   resource names, the entry, plus the two tables the executor consults at run time and that are
   recomputed by every loader: `type_compatibility` (compatibility.rs:64; one row per type id
   tested by an IsType) and `canonical_tuples` (compatibility.rs:99).  It projects onto
   vm/Bytecode.v's `program`, on which vm/Vm.v's `step` runs. *)
From Quiver Require Export vm.Vm.
Require Quiver.Equal.

Definition str := list Z.            (* bytes of a name *)

(* bytecode.rs:6  enum Constant { Integer(BigInt), Binary(Vec<u8>) } *)
Inductive xconst := XInt (z : Z) | XBin (bs : list Z).

(* bytecode.rs:28  struct Function { instructions, captures, type_id } *)
Record xfunc := { xf_code : list instr; xf_caps : nat; xf_type : nat }.

(* types.rs:61  struct TupleTypeInfo { name: Option<String>, fields: Vec<(Option<String>, usize)> } *)
Record xtuple := { xt_name : option str; xt_fields : list (option str * nat) }.

(* types.rs:20  enum Type *)
Inductive xtype :=
| TInt | TBin | TRef
| TTuple (t : nat)
| TPartial (name : option str) (fields : list (str * nat))
| TCallable (parameter result receive : nat)
| TCycle (depth : nat)
| TUnion (ys : list nat)
| TProcess (send receive : option nat)
| TResource (name : str)
| TVariable (name : str).

(* types.rs:68  struct BuiltinInfo { name, param_type, result_type } *)
Record xbuiltin := { xb_name : str; xb_param : nat; xb_result : nat }.

(* One row of `type_compatibility` (a HashSet<ConcreteType>, bytecode.rs:15) as characteristic
   vectors indexed by id; an id beyond the vector is absent from the set. *)
Record row := {
  w_int : bool; w_bin : bool; w_ref : bool;
  w_tuples : list bool; w_funs : list bool; w_builtins : list bool; w_procs : list bool; w_res : list bool
}.

Record xprogram := {
  x_consts : list xconst;
  x_funcs : list xfunc;
  x_tuples : list xtuple;
  x_types : list xtype;
  x_builtins : list xbuiltin;
  x_resources : list str;
  x_entry : nat;
  x_rows : list (option row);     (* by type id; None = row not dumped (its type is tested by no IsType of interest) *)
  x_canon : list nat              (* canonical_tuples, by tuple id *)
}.

Definition erase_const (c : xconst) : constant := match c with XInt z => CInt z | XBin _ => CBin end.
Definition erase_func (f : xfunc) : func := {| f_code := xf_code f; f_caps := xf_caps f |}.
Definition arity (t : xtuple) : nat := length (xt_fields t).

(* what executor.rs keeps (vm/Bytecode.v `program`) *)
Definition project (X : xprogram) : program := {|
  p_consts := map erase_const (x_consts X);
  p_funcs := map erase_func (x_funcs X);
  p_tuples := map arity (x_tuples X);
  p_nbuiltins := length (x_builtins X);
  p_ntypes := length (x_types X)
|}.

(* ------------------------------------------------------------------ the run-time tables *)

Definition nthb (l : list bool) (i : nat) : bool := match nth_error l i with Some b => b | None => false end.

Definition row_of (X : xprogram) (y : nat) : option row :=
  match nth_error (x_rows X) y with Some o => o | None => None end.

(* executor.rs:1641 get_concrete_type + `set.contains(&concrete)` *)
Definition tag_in (w : row) (v : value) : bool :=
  match v with
  | VInt _ => w_int w
  | VBin _ => w_bin w
  | VRef _ => w_ref w
  | VTuple t _ => nthb (w_tuples w) t
  | VFun f _ => nthb (w_funs w) f
  | VBuiltin b => nthb (w_builtins w) b
  | VProc _ f => nthb (w_procs w) f
  | VRes _ ty => nthb (w_res w) ty
  end.

(* executor.rs:1632 check_type_compatible:
     self.type_compatibility.get(pattern_type_id).map(|set| set.contains(&concrete)).unwrap_or(false) *)
Definition istype_verdict (X : xprogram) (v : value) (y : nat) : bool :=
  match row_of X y with Some w => tag_in w v | None => false end.

(* executor.rs:2709 canonical_tuple: canonical_tuples.get(t).copied().unwrap_or(t) *)
Definition canon_of (X : xprogram) (t : nat) : nat :=
  match nth_error (x_canon X) t with Some c => c | None => t end.

(* does the type table hold a `Type::Tuple(t)` entry (compatibility.rs:192 TypeIndex.tuple_to_type) *)
Definition has_tuple_entry (X : xprogram) (t : nat) : bool :=
  existsb (fun ty => match ty with TTuple u => Nat.eqb u t | _ => false end) (x_types X).
Definition entry_mask (X : xprogram) : list bool :=
  map (has_tuple_entry X) (seq 0 (length (x_tuples X))).

(* the tuple value about to be tested by an IsType has a type entry (C08's has_type_entry) *)
Definition tag_typed (X : xprogram) (v : value) : Prop :=
  match v with VTuple t _ => nthb (entry_mask X) t = true | _ => True end.

Section EQUAL.
(* `canon`: the canonical-tuple lookup; `bin_eq h1 h2`: do the two binaries hold the same bytes
   (executor.rs:2719-2760; binaries are opaque handles in vm/Bytecode.v, their storage is C06/C13) *)
Variable canon : nat -> nat.
Variable bin_eq : nat -> nat -> bool.

(* executor.rs:2716 values_equal; `zip` is `a.iter().zip(b.iter()).all(..)` after the length test *)
Fixpoint veq (a b : value) {struct a} : bool :=
  match a, b with
  | VInt x, VInt y => Z.eqb x y
  | VBin x, VBin y => bin_eq x y
  | VTuple t1 f1, VTuple t2 f2 =>
      Nat.eqb (canon t1) (canon t2) && Nat.eqb (length f1) (length f2) &&
      (fix zip (l l' : list value) : bool :=
         match l, l' with x :: t, y :: t' => veq x y && zip t t' | _, _ => true end) f1 f2
  | VFun g1 c1, VFun g2 c2 =>
      Nat.eqb g1 g2 && Nat.eqb (length c1) (length c2) &&
      (fix zip (l l' : list value) : bool :=
         match l, l' with x :: t, y :: t' => veq x y && zip t t' | _, _ => true end) c1 c2
  | VBuiltin x, VBuiltin y => Nat.eqb x y
  | VProc p1 _, VProc p2 _ => Nat.eqb p1 p2
  | VRef x, VRef y => Nat.eqb x y
  | VRes r1 _, VRes r2 _ => Nat.eqb r1 r2
  | _, _ => false
  end.

(* executor.rs:1929 handle_equal: `values.iter().all(|v| self.values_equal(&values[0], v))` *)
Definition all_equal (vs : list value) : bool :=
  match vs with [] => true | first :: _ => forallb (veq first) vs end.
End EQUAL.

Definition equal_verdict (X : xprogram) (bin_eq : nat -> nat -> bool) (vs : list value) : bool :=
  all_equal (canon_of X) bin_eq vs.

(* the instruction the top frame is about to execute *)
Definition top_instr (P : program) (s : state) : option instr :=
  match frames s with
  | fr :: _ => match code_of P (fr_fn fr) with Some code => nth_error code (fr_pc fr) | None => None end
  | [] => None
  end.

(* vm/Vm.v takes the IsType / Equal verdicts as outside inputs; here they are computed from the
   program's own tables, as the executor does *)
Definition decide (X : xprogram) (bin_eq : nat -> nat -> bool) (s : state) (x : ext) : ext :=
  match top_instr (project X) s with
  | Some (IIsType y) =>
      match stack s with
      | v :: _ => {| x_value := x_value x; x_bool := istype_verdict X v y |}
      | [] => {| x_value := x_value x; x_bool := false |}
      end
  | Some (IEqual n) =>
      match popn n (stack s) [] with
      | Some (vs, _) => {| x_value := x_value x; x_bool := equal_verdict X bin_eq vs |}
      | None => {| x_value := x_value x; x_bool := false |}
      end
  | _ => {| x_value := x_value x; x_bool := false |}     (* no other instruction reads the verdict *)
  end.

Definition xstep (X : xprogram) (bin_eq : nat -> nat -> bool) (s : state) (x : ext) : sres :=
  step (project X) s (decide X bin_eq s x).

Fixpoint xrun (X : xprogram) (bin_eq : nat -> nat -> bool) (s : state) (xs : list ext) : sres :=
  match xs with
  | [] => Next s
  | x :: t => match xstep X bin_eq s x with Next s' => xrun X bin_eq s' t | r => r end
  end.

(* along an execution, every tuple value tested by an IsType has a type entry in X *)
Definition tested_typed (X : xprogram) (s : state) : Prop :=
  match top_instr (project X) s, stack s with
  | Some (IIsType _), v :: _ => tag_typed X v
  | _, _ => True
  end.

Fixpoint typed_run (X : xprogram) (bin_eq : nat -> nat -> bool) (s : state) (xs : list ext) : Prop :=
  match xs with
  | [] => True
  | x :: t => tested_typed X s /\
              match xstep X bin_eq s x with Next s' => typed_run X bin_eq s' t | _ => True end
  end.

(* vm/WfRun.v's `run` (same definition; restated here so that this file does not depend on the
   verifier's proofs): every verdict is an outside input *)
Fixpoint run (P : program) (s : state) (xs : list ext) : sres :=
  match xs with
  | [] => Next s
  | x :: t => match step P s x with Next s' => run P s' t | r => r end
  end.

(* ------------------------------------------------------------------ renamings *)

Definition fmap := list (option nat).     (* source id |-> target id; None / beyond the end = unmapped *)
Definition app (m : fmap) (i : nat) : option nat := match nth_error m i with Some o => o | None => None end.

Record renaming := {
  r_c : fmap;   (* constants *)
  r_f : fmap;   (* functions *)
  r_t : fmap;   (* tuples *)
  r_y : fmap;   (* types *)
  r_b : fmap;   (* builtins *)
  r_r : fmap;   (* resource types (by name) *)
  i_f : fmap;   (* claimed inverse of r_f: certificate of injectivity *)
  i_b : fmap    (* claimed inverse of r_b *)
}.

(* ---- boolean equalities *)
Fixpoint list_eqb {A} (eqb : A -> A -> bool) (x y : list A) : bool :=
  match x, y with
  | [], [] => true
  | a :: x', b :: y' => eqb a b && list_eqb eqb x' y'
  | _, _ => false
  end.
Definition option_eqb {A} (eqb : A -> A -> bool) (x y : option A) : bool :=
  match x, y with None, None => true | Some a, Some b => eqb a b | _, _ => false end.
Definition str_eqb : str -> str -> bool := list_eqb Z.eqb.
Definition ostr_eqb : option str -> option str -> bool := option_eqb str_eqb.
Definition onat_eqb : option nat -> option nat -> bool := option_eqb Nat.eqb.
Definition maps_to (m : fmap) (i j : nat) : bool := onat_eqb (app m i) (Some j).

Fixpoint forall2b {A B} (p : A -> B -> bool) (x : list A) (y : list B) : bool :=
  match x, y with
  | [], [] => true
  | a :: x', b :: y' => p a b && forall2b p x' y'
  | _, _ => false
  end.

Definition instr_eqb (i j : instr) : bool :=
  match i, j with
  | IConstant a, IConstant b | IPick a, IPick b | IRotate a, IRotate b | IReset a, IReset b
  | ILoad a, ILoad b | ITuple a, ITuple b | IGet a, IGet b | IIsType a, IIsType b
  | IFunction a, IFunction b | IBuiltin a, IBuiltin b | IEqual a, IEqual b => Nat.eqb a b
  | IJump a, IJump b | IJumpIf a, IJumpIf b => Z.eqb a b
  | ITailCall a, ITailCall b => Bool.eqb a b
  | IProcess p f, IProcess q g => Nat.eqb p q && Nat.eqb f g
  | IPop, IPop | IDuplicate, IDuplicate | IStore, IStore | ICall, ICall | INot, INot | ISpawn, ISpawn
  | ISend, ISend | ISelf, ISelf | ISelect, ISelect => true
  | _, _ => false
  end.

Definition xconst_eqb (a b : xconst) : bool :=
  match a, b with
  | XInt x, XInt y => Z.eqb x y
  | XBin x, XBin y => list_eqb Z.eqb x y
  | _, _ => false
  end.

Definition xtype_eqb (a b : xtype) : bool :=
  match a, b with
  | TInt, TInt | TBin, TBin | TRef, TRef => true
  | TTuple x, TTuple y => Nat.eqb x y
  | TPartial n f, TPartial m g =>
      ostr_eqb n m && list_eqb (fun p q => str_eqb (fst p) (fst q) && Nat.eqb (snd p) (snd q)) f g
  | TCallable p r c, TCallable p' r' c' => Nat.eqb p p' && Nat.eqb r r' && Nat.eqb c c'
  | TCycle x, TCycle y => Nat.eqb x y
  | TUnion x, TUnion y => list_eqb Nat.eqb x y
  | TProcess s r, TProcess s' r' => onat_eqb s s' && onat_eqb r r'
  | TResource x, TResource y | TVariable x, TVariable y => str_eqb x y
  | _, _ => false
  end.

Definition xfunc_eqb (a b : xfunc) : bool :=
  list_eqb instr_eqb (xf_code a) (xf_code b) && Nat.eqb (xf_caps a) (xf_caps b) && Nat.eqb (xf_type a) (xf_type b).

(* ---- images under a renaming (None: mentions an unmapped id) *)
Section REN.
Variable rho : renaming.

(* optimisation.rs:345-367 (tree_shake) / environment.rs:196 remap_function: the index-carrying
   instructions. `Process(pid, f)`: tree_shake remaps f; see C10's report for remap_function. *)
Definition ren_instr (i : instr) : option instr :=
  match i with
  | IConstant k => option_map IConstant (app (r_c rho) k)
  | ITuple t => option_map ITuple (app (r_t rho) t)
  | IIsType y => option_map IIsType (app (r_y rho) y)
  | IFunction f => option_map IFunction (app (r_f rho) f)
  | IBuiltin b => option_map IBuiltin (app (r_b rho) b)
  | IProcess pid f => option_map (IProcess pid) (app (r_f rho) f)
  | other => Some other
  end.

Fixpoint map_opt {A B} (f : A -> option B) (l : list A) : option (list B) :=
  match l with
  | [] => Some []
  | x :: t => match f x, map_opt f t with Some y, Some r => Some (y :: r) | _, _ => None end
  end.

Definition ren_oid (o : option nat) : option (option nat) :=
  match o with None => Some None | Some y => option_map Some (app (r_y rho) y) end.

(* optimisation.rs:297 remap_type / environment.rs:47 import_type_value *)
Definition ren_type (ty : xtype) : option xtype :=
  match ty with
  | TTuple t => option_map TTuple (app (r_t rho) t)
  | TPartial n fs =>
      option_map (TPartial n) (map_opt (fun p => option_map (pair (fst p)) (app (r_y rho) (snd p))) fs)
  | TCallable p r c =>
      match app (r_y rho) p, app (r_y rho) r, app (r_y rho) c with
      | Some p', Some r', Some c' => Some (TCallable p' r' c')
      | _, _, _ => None
      end
  | TUnion ys => option_map TUnion (map_opt (app (r_y rho)) ys)
  | TProcess s r =>
      match ren_oid s, ren_oid r with Some s', Some r' => Some (TProcess s' r') | _, _ => None end
  | other => Some other
  end.

(* ---- "for every mapped id" *)
Fixpoint forall_from (i : nat) (m : fmap) (chk : nat -> nat -> bool) : bool :=
  match m with
  | [] => true
  | o :: m' => (match o with Some j => chk i j | None => true end) && forall_from (S i) m' chk
  end.
Definition forall_map (m : fmap) (chk : nat -> nat -> bool) : bool := forall_from 0 m chk.

Variable X X' : xprogram.

Definition is_some {A} (o : option A) : bool := match o with Some _ => true | None => false end.

(* the image of instruction i is j *)
Definition instr_img (i j : instr) : bool :=
  match ren_instr i with Some i' => instr_eqb i' j | None => false end.

(* a tested type has its row dumped *)
Definition row_dumped (i : instr) : bool :=
  match i with IIsType y => is_some (row_of X y) | _ => true end.

(* both (kept for the driver's diagnosis) *)
Definition instr_ok (i j : instr) : bool := instr_img i j && row_dumped i.

Definition chk_fun (f f' : nat) : bool :=
  match nth_error (x_funcs X) f, nth_error (x_funcs X') f' with
  | Some fd, Some fd' =>
      Nat.eqb (xf_caps fd) (xf_caps fd') && forall2b instr_img (xf_code fd) (xf_code fd') &&
      maps_to (r_y rho) (xf_type fd) (xf_type fd')
  | _, _ => false
  end.

Definition rows_dumped (f : nat) : bool :=
  match nth_error (x_funcs X) f with
  | Some fd => forallb row_dumped (xf_code fd)
  | None => true
  end.

Definition chk_const (k k' : nat) : bool :=
  match nth_error (x_consts X) k, nth_error (x_consts X') k' with
  | Some c, Some c' => xconst_eqb c c'
  | _, _ => false
  end.

Definition chk_tuple (t t' : nat) : bool :=
  match nth_error (x_tuples X) t, nth_error (x_tuples X') t' with
  | Some a, Some a' =>
      ostr_eqb (xt_name a) (xt_name a') &&
      forall2b (fun p q => ostr_eqb (fst p) (fst q) && maps_to (r_y rho) (snd p) (snd q)) (xt_fields a) (xt_fields a')
  | _, _ => false
  end.

Definition chk_type (y y' : nat) : bool :=
  match nth_error (x_types X) y, nth_error (x_types X') y' with
  | Some a, Some a' => match ren_type a with Some b => xtype_eqb b a' | None => false end
  | _, _ => false
  end.

Definition chk_builtin (b b' : nat) : bool :=
  match nth_error (x_builtins X) b, nth_error (x_builtins X') b' with
  | Some a, Some a' =>
      str_eqb (xb_name a) (xb_name a') && maps_to (r_y rho) (xb_param a) (xb_param a') &&
      maps_to (r_y rho) (xb_result a) (xb_result a')
  | _, _ => false
  end.

Definition chk_res (r r' : nat) : bool :=
  match nth_error (x_resources X) r, nth_error (x_resources X') r' with
  | Some a, Some a' => str_eqb a a'
  | _, _ => false
  end.

(* membership of every mapped id agrees with membership of its image *)
Definition commute (m : fmap) (l l' : list bool) : bool :=
  forall_map m (fun i j => Bool.eqb (nthb l i) (nthb l' j)).

(* ... for the ids selected by `mask` *)
Definition commute_on (mask : list bool) (m : fmap) (l l' : list bool) : bool :=
  forall_map m (fun i j => if nthb mask i then Bool.eqb (nthb l i) (nthb l' j) else true).

(* Tuple tags are compared only for tuple ids that HAVE a `Type::Tuple` entry in the source program.
   A tuple id without one is accepted by no pattern there (compatibility.rs:293: `tuple_to_type`
   has no slot for it), whereas a program merged earlier may have registered that entry (typically
   `Type::Tuple(OK)`), so the target row may contain the tag. No value the compiler lets reach a
   run-time test carries such an id (it registers the static type of every tested value: C08's
   has_type_entry obligation) — the simulation theorem carries exactly that hypothesis. *)
Definition rows_commute (w w' : row) : bool :=
  Bool.eqb (w_int w) (w_int w') && Bool.eqb (w_bin w) (w_bin w') && Bool.eqb (w_ref w) (w_ref w') &&
  commute_on (entry_mask X) (r_t rho) (w_tuples w) (w_tuples w') && commute (r_f rho) (w_funs w) (w_funs w') &&
  commute (r_b rho) (w_builtins w) (w_builtins w') && commute (r_f rho) (w_procs w) (w_procs w') &&
  commute (r_r rho) (w_res w) (w_res w').

(* the side condition for IsType: every dumped row commutes with the renaming *)
Definition chk_row (y y' : nat) : bool :=
  match row_of X y with
  | None => true
  | Some w => match row_of X' y' with Some w' => rows_commute w w' | None => false end
  end.

(* the side condition for Equal: both canonical tables are what compute_canonical_tuples yields
   for the dumped names and labels (so equality of canonical ids is equality of shapes, C13), and
   chk_tuple keeps names and labels *)
Definition shape_info (t : xtuple) : Equal.tuple_info :=
  {| Equal.t_name := xt_name t; Equal.t_labels := map fst (xt_fields t) |}.
Definition canon_ok (Y : xprogram) : bool :=
  list_eqb Nat.eqb (x_canon Y) (Equal.compute_canonical (map shape_info (x_tuples Y))).

(* STRUCTURE: what the packaging step itself produces (tables and code are rho-images). Enough for
   the lock-step simulation with IsType / Equal verdicts as outside inputs; proved to hold for the
   models of tree_shake and merge_bytecode (vm/RemapShake.v, vm/RemapMerge.v). *)
Definition struct_ok : bool :=
  maps_to (r_f rho) (x_entry X) (x_entry X') &&
  (* NIL and OK are built by IsType/Equal/Not themselves; nothing else may land on NIL *)
  maps_to (r_t rho) NIL NIL && maps_to (r_t rho) OK OK &&
  forall_map (r_t rho) (fun t t' => if Nat.eqb t' NIL then Nat.eqb t NIL else true) &&
  forall_map (r_f rho) chk_fun &&
  forall_map (r_c rho) chk_const &&
  forall_map (r_t rho) chk_tuple &&
  forall_map (r_y rho) chk_type &&
  forall_map (r_b rho) chk_builtin &&
  forall_map (r_r rho) chk_res &&
  (* injective where identity is compared (values_equal on functions and builtins) *)
  forall_map (r_f rho) (fun f f' => maps_to (i_f rho) f' f) &&
  forall_map (r_b rho) (fun b b' => maps_to (i_b rho) b' b).

(* RUN-TIME TABLES: what every loader recomputes (compute_type_compatibility): the rows of the
   tested types are dumped and commute with the renaming. Validated on the real tables each run. *)
Definition rows_ok : bool :=
  forall_map (r_f rho) (fun f _ => rows_dumped f) && forall_map (r_y rho) chk_row.

Definition is_renaming : bool := struct_ok && rows_ok && canon_ok X && canon_ok X'.

End REN.

(* ------------------------------------------------------------------ re-emission of values *)

Fixpoint find_index {A} (p : A -> bool) (l : list A) (i : nat) : option nat :=
  match l with
  | [] => None
  | x :: t => if p x then Some i else find_index p t (S i)
  end.

Definition with_consts (X : xprogram) (cs : list xconst) : xprogram :=
  {| x_consts := cs; x_funcs := x_funcs X; x_tuples := x_tuples X; x_types := x_types X;
     x_builtins := x_builtins X; x_resources := x_resources X; x_entry := x_entry X;
     x_rows := x_rows X; x_canon := x_canon X |}.
Definition with_funcs (X : xprogram) (fs : list xfunc) : xprogram :=
  {| x_consts := x_consts X; x_funcs := fs; x_tuples := x_tuples X; x_types := x_types X;
     x_builtins := x_builtins X; x_resources := x_resources X; x_entry := x_entry X;
     x_rows := x_rows X; x_canon := x_canon X |}.

(* program.rs:60 register_constant: position of an equal constant, else push *)
Definition register_constant (X : xprogram) (c : xconst) : xprogram * nat :=
  match find_index (xconst_eqb c) (x_consts X) 0 with
  | Some i => (X, i)
  | None => (with_consts X (x_consts X ++ [c]), length (x_consts X))
  end.

(* program.rs:75 register_function: dedup on full equality *)
Definition register_function (X : xprogram) (fd : xfunc) : xprogram * nat :=
  match find_index (xfunc_eqb fd) (x_funcs X) 0 with
  | Some i => (X, i)
  | None => (with_funcs X (x_funcs X ++ [fd]), length (x_funcs X))
  end.

Section REEMIT.
(* the bytes behind a binary handle (CachedModule::binary_data / Executor::get_heap_binary) *)
Variable bytes_of : nat -> list Z.

(* compiler.rs:2876 value_to_instructions_from_cache — what `%m` / `%m.f` compile to.
   None = Err(FeatureUnsupported) for process / resource / ref, FunctionUndefined, BuiltinUndefined. *)
Fixpoint emit_cached (v : value) (X : xprogram) {struct v} : option (xprogram * list instr) :=
  match v with
  | VInt n => let (X1, k) := register_constant X (XInt n) in Some (X1, [IConstant k])
  | VBin h => let (X1, k) := register_constant X (XBin (bytes_of h)) in Some (X1, [IConstant k])
  | VTuple t fs =>
      match (fix go (l : list value) (X : xprogram) : option (xprogram * list instr) :=
               match l with
               | [] => Some (X, [])
               | e :: l' => match emit_cached e X with
                            | Some (X1, i1) => match go l' X1 with
                                               | Some (X2, i2) => Some (X2, i1 ++ i2)
                                               | None => None
                                               end
                            | None => None
                            end
               end) fs X with
      | Some (X1, is) => Some (X1, is ++ [ITuple t])
      | None => None
      end
  | VFun f caps =>
      match nth_error (x_funcs X) f with
      | None => None
      | Some _ =>
        match (fix go (l : list value) (X : xprogram) : option (xprogram * list instr) :=
                 match l with
                 | [] => Some (X, [])
                 | e :: l' => match emit_cached e X with
                              | Some (X1, i1) => match go l' X1 with
                                                 | Some (X2, i2) => Some (X2, i1 ++ i2)
                                                 | None => None
                                                 end
                              | None => None
                              end
                 end) caps X with
        | Some (X1, is) => Some (X1, is ++ [IFunction f])
        | None => None
        end
      end
  | VBuiltin b => if b <? length (x_builtins X) then Some (X, [IBuiltin b]) else None
  | VProc _ _ | VRes _ _ | VRef _ => None
  end.

(* the outside inputs of the emitted code: a binary constant's handle is what allocation returns *)
Fixpoint emit_inputs (v : value) : list ext :=
  let quiet := {| x_value := None; x_bool := false |} in
  match v with
  | VBin h => [{| x_value := Some (VBin h); x_bool := false |}]
  | VTuple _ fs => flat_map emit_inputs fs ++ [quiet]
  | VFun _ caps => flat_map emit_inputs caps ++ [quiet]
  | _ => [quiet]
  end.

(* program.rs:271 value_to_instructions + program.rs:228 inject_function_captures — what
   `quiv compile` does to an entry function that captured values: a function with captures
   becomes a capture-free function whose body first rebuilds and stores them.
   None = the `panic!("Cannot convert ..")` arms / `expect("Function should exist ..")`. *)
Fixpoint emit_injected (v : value) (X : xprogram) {struct v} : option (xprogram * list instr) :=
  match v with
  | VInt n => let (X1, k) := register_constant X (XInt n) in Some (X1, [IConstant k])
  | VBin h => let (X1, k) := register_constant X (XBin (bytes_of h)) in Some (X1, [IConstant k])
  | VTuple t fs =>
      match (fix go (l : list value) (X : xprogram) : option (xprogram * list instr) :=
               match l with
               | [] => Some (X, [])
               | e :: l' => match emit_injected e X with
                            | Some (X1, i1) => match go l' X1 with
                                               | Some (X2, i2) => Some (X2, i1 ++ i2)
                                               | None => None
                                               end
                            | None => None
                            end
               end) fs X with
      | Some (X1, is) => Some (X1, is ++ [ITuple t])
      | None => None
      end
  | VFun f [] => Some (X, [IFunction f])
  | VFun f caps =>
      match (fix go (l : list value) (X : xprogram) : option (xprogram * list instr) :=
               match l with
               | [] => Some (X, [])
               | e :: l' => match emit_injected e X with
                            | Some (X1, i1) => match go l' X1 with
                                               | Some (X2, i2) => Some (X2, i1 ++ IStore :: i2)
                                               | None => None
                                               end
                            | None => None
                            end
               end) caps X with
      | Some (X1, pre) =>
          match nth_error (x_funcs X1) f with
          | Some fd =>
              let (X2, f') := register_function X1 {| xf_code := pre ++ xf_code fd; xf_caps := 0; xf_type := xf_type fd |} in
              Some (X2, [IFunction f'])
          | None => None
          end
      | None => None
      end
  | VBuiltin b => Some (X, [IBuiltin b])
  | VProc _ _ | VRes _ _ | VRef _ => None
  end.

End REEMIT.
