(* WfRun.v — lifting the one-step soundness of the verifier to every execution (C07), and the
   space theorems read off the same invariant (C16). *)
From Quiver Require Import vm.Wf vm.WfProofs.

Section RUN.
Variable P : program.

(* an execution: any sequence of outside inputs *)
Fixpoint run (s : state) (xs : list ext) : sres :=
  match xs with
  | [] => Next s
  | x :: t => match step P s x with Next s' => run s' t | r => r end
  end.

Lemma verify_all_check fs As : verify_all P fs = Some As -> check_all P fs As = true.
Proof.
  revert As; induction fs as [|fd fs IH]; intros As H; cbn [verify_all] in H.
  - inversion H. reflexivity.
  - destruct (verify_function P fd) as [A|] eqn:EA; [|discriminate].
    destruct (verify_all P fs) as [As'|] eqn:EAs; [|discriminate].
    inversion H; subst. cbn [check_all]. rewrite (IH _ eq_refl), andb_true_r.
    unfold verify_function in EA. destruct (infer_function P fd) as [A0|]; [|discriminate].
    destruct (check_function P fd A0) eqn:Ec; [|discriminate]. inversion EA; subst. exact Ec.
Qed.

(* what the extracted verifier returns is a certificate the proved checker accepts *)
Theorem verify_program_checked As : verify_program P = Some As -> check_program P As = true.
Proof. apply verify_all_check. Qed.

Variable As : list annot.
Hypothesis HC : check_program P As = true.

Theorem run_sound s xs : Inv P As s -> Forall (ext_ok P) xs -> good P As (run s xs).
Proof.
  revert s; induction xs as [|x t IH]; intros s Hs Hxs; cbn [run].
  - exact Hs.
  - inversion Hxs as [|? ? Hx Ht]; subst.
    pose proof (step_sound P As HC s x Hs Hx) as G.
    destruct (step P s x) as [s'| |]; [apply IH; assumption | exact G | exact G].
Qed.

(* C07, for every function of the program, every argument, every execution *)
Theorem wf_sound fn fd caps arg pers xs :
  nth_error (p_funcs P) fn = Some fd -> length caps = f_caps fd ->
  Forall (wfv P) caps -> wfv P arg -> Forall (ext_ok P) xs ->
  match run (init_state fn caps arg pers) xs with
  | Fault f => structural f = false      (* never a stack/frame/index/jump fault *)
  | Finished v s' => stack s' = []        (* exactly one result, nothing left behind *)
  | Next _ => True
  end.
Proof.
  intros Hfd Hc Hcaps Harg Hxs.
  pose proof (run_sound _ xs (init_inv P As HC fn fd caps arg pers Hfd Hc Hcaps Harg) Hxs) as G.
  destruct (run _ xs); cbn [good] in G; [exact I | apply G | exact G].
Qed.

(* ---------------------------------------------------------------- C16 *)
Definition top_instr (s : state) : option instr :=
  match frames s with
  | fr :: _ => match nth_error (p_funcs P) (fr_fn fr) with
               | Some fd => nth_error (f_code fd) (fr_pc fr)
               | None => None
               end
  | [] => None
  end.

(* a tail call never grows the frame stack, re-enters at pc 0 on the same locals base, leaves
   exactly the argument above the frame's stack base, and only the new captures as locals *)
Theorem tailcall_constant_space s x r s' fr rest :
  Inv P As s -> frames s = fr :: rest -> top_instr s = Some (ITailCall r) ->
  step P s x = Next s' ->
  exists fr' a,
    frames s' = fr' :: rest /\
    ann As (fr_fn fr) (fr_pc fr) = Some a /\
    length (frames s') = length (frames s) /\
    fr_pc fr' = 0 /\ fr_base fr' = fr_base fr /\
    length (stack s') = (length (stack s) - a_h a) + 1 /\
    length (locals s') = fr_base fr + fr_caps fr'.
Proof.
  intros [Hst [Hlo Hfr]] Efr Hi Hstep. rewrite Efr in Hfr.
  destruct Hfr as [[fd [Hfd Hcaps]] [a [Ha [Hh [Hl1 [Hl2 Hsusp]]]]]].
  unfold top_instr in Hi. rewrite Efr, Hfd in Hi.
  destruct (func_checked P As HC _ _ Hfd) as [A [HA Hchk]]. apply check_function_facts in Hchk.
  assert (HApc : nth_error A (fr_pc fr) = Some (Some a)).
  { unfold ann in Ha. rewrite HA in Ha. destruct (nth_error A (fr_pc fr)) as [[?|]|]; congruence. }
  assert (Hpc : fr_pc fr <= length (f_code fd)).
  { assert (fr_pc fr < length A) by (apply nth_error_Some; congruence). rewrite (ff_len _ _ _ Hchk) in H. lia. }
  pose proof (ff_pc _ _ _ Hchk _ Hpc) as Hck. unfold check_pc in Hck. rewrite HApc, Hi in Hck.
  unfold step in Hstep. rewrite Efr in Hstep. unfold code_of in Hstep. rewrite Hfd in Hstep.
  cbn [option_map] in Hstep. rewrite Hi in Hstep.
  destruct r.
  - (* ^ *)
    unfold transfer in Hck. destruct ((a_h a =? 1) && (f_caps fd <=? a_lo a)) eqn:E; [|discriminate].
    apply andb_true_iff in E. destruct E as [E1 E2]. apply Nat.eqb_eq in E1. apply Nat.leb_le in E2.
    destruct (stack s) as [|arg st] eqn:Es; [discriminate|]. inversion Hstep; subst s'. clear Hstep.
    exists (set_pc fr 0), a. cbn [frames stack locals set_pc fr_pc fr_base fr_caps length].
    rewrite Efr, firstn_length. cbn [length] in *.
    repeat split; try reflexivity; try assumption; try lia.
  - (* ^f *)
    unfold transfer in Hck. destruct (a_h a =? 2) eqn:E; [|discriminate]. apply Nat.eqb_eq in E.
    destruct (stack s) as [|fv [|arg st]] eqn:Es; try discriminate.
    destruct fv; try discriminate.
    destruct (nth_error (p_funcs P) f) eqn:Ef; [|discriminate]. inversion Hstep; subst s'. clear Hstep.
    eexists _, a. cbn [frames stack locals fr_pc fr_base fr_caps length].
    rewrite Efr, app_length, firstn_length. cbn [length] in *.
    repeat split; try reflexivity; try assumption; try lia.
    cbn [fr_caps]. lia.
Qed.

(* between the stack base of its frame and the top, an activation never holds more than the
   verifier's bound for the function, nor more locals *)
Theorem per_function_bounds s fr rest A :
  Inv P As s -> frames s = fr :: rest -> nth_error As (fr_fn fr) = Some A ->
  exists a, ann As (fr_fn fr) (fr_pc fr) = Some a /\
            a_h a <= max_height A /\
            length (locals s) <= fr_base fr + max_locals A.
Proof.
  intros [_ [_ Hfr]] Efr HA. rewrite Efr in Hfr.
  destruct Hfr as [_ [a [Ha [_ [_ [Hl2 _]]]]]]. exists a. split; [exact Ha|].
  unfold ann in Ha. rewrite HA in Ha.
  destruct (nth_error A (fr_pc fr)) as [[a0|]|] eqn:E; try discriminate. inversion Ha; subst a0.
  assert (Hin : In (Some a) A) by (eapply nth_error_In; eauto).
  assert (B : forall (l : list (option astate)) a, In (Some a) l -> a_h a <= max_height l /\ a_hi a <= max_locals l).
  { induction l as [|o t IH]; intros b Hb; [destruct Hb|].
    cbn [max_height max_locals fold_right]. destruct Hb as [->|Hb].
    - split; lia.
    - destruct (IH _ Hb) as [H1 H2]. fold (max_height t). fold (max_locals t). destruct o; split; lia. }
  destruct (B _ _ Hin). split; lia.
Qed.

End RUN.
