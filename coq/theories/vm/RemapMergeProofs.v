(* RemapMergeProofs.v — the model of merge_bytecode (vm/RemapMerge.v) produces a renaming:
   whenever it returns (no panic, no id cycle), for a well-formed B and under the named, decidable
   premises `merge_premises`, `struct_ok rho B E'` holds — so the lock-step simulation applies to
   every such merge behind ANY previously accumulated program E. *)
From Quiver Require Import vm.Remap vm.RemapProofs vm.RemapInject vm.RemapShake vm.RemapShakeProofs vm.RemapMerge.

(* ------------------------------------------------------------------ boolean equalities, specified *)

Lemma onat_eqb_eq a b : onat_eqb a b = true -> a = b.
Proof. destruct a, b; cbn; intros H; try discriminate; [apply Nat.eqb_eq in H; congruence | reflexivity]. Qed.

Lemma xtype_eqb_eq a b : xtype_eqb a b = true -> a = b.
Proof.
  destruct a, b; cbn [xtype_eqb]; intros H; try discriminate; try reflexivity.
  - apply Nat.eqb_eq in H. congruence.
  - apply andb_true_iff in H as [H1 H2]. apply ostr_eqb_eq in H1. subst. f_equal.
    revert H2. apply list_eqb_eq. intros [a1 a2] [b1 b2] E. cbn in E. apply andb_true_iff in E as [E1 E2].
    apply str_eqb_eq in E1. apply Nat.eqb_eq in E2. congruence.
  - apply andb_true_iff in H as [H H3]. apply andb_true_iff in H as [H1 H2].
    apply Nat.eqb_eq in H1. apply Nat.eqb_eq in H2. apply Nat.eqb_eq in H3. congruence.
  - apply Nat.eqb_eq in H. congruence.
  - f_equal. revert H. apply list_eqb_eq. intros x y E. apply Nat.eqb_eq. exact E.
  - apply andb_true_iff in H as [H1 H2]. apply onat_eqb_eq in H1. apply onat_eqb_eq in H2. congruence.
  - apply str_eqb_eq in H. congruence.
  - apply str_eqb_eq in H. congruence.
Qed.

Lemma xtuple_eqb_eq a b : xtuple_eqb a b = true -> a = b.
Proof.
  unfold xtuple_eqb. intros H. apply andb_true_iff in H as [H1 H2]. apply ostr_eqb_eq in H1.
  destruct a as [na fa], b as [nb fb]; cbn in *. subst. f_equal.
  revert H2. apply list_eqb_eq. intros [a1 a2] [b1 b2] E. unfold field_eqb in E. cbn in E.
  apply andb_true_iff in E as [E1 E2]. apply ostr_eqb_eq in E1. apply Nat.eqb_eq in E2. congruence.
Qed.

(* ------------------------------------------------------------------ the program only grows *)

Definition grows (E E' : xprogram) : Prop :=
  prefix (x_consts E) (x_consts E') /\ prefix (x_funcs E) (x_funcs E') /\ prefix (x_tuples E) (x_tuples E') /\
  prefix (x_types E) (x_types E') /\ prefix (x_builtins E) (x_builtins E').

Lemma grows_refl E : grows E E.
Proof. repeat split; apply prefix_refl. Qed.
Lemma grows_trans A B C : grows A B -> grows B C -> grows A C.
Proof. intros (a1 & a2 & a3 & a4 & a5) (b1 & b2 & b3 & b4 & b5). repeat split; eapply prefix_trans; eauto. Qed.

Lemma prefix_snoc {A} (l : list A) x : prefix l (l ++ [x]).
Proof. exists [x]. reflexivity. Qed.

Lemma nth_snoc {A} (l : list A) x : nth_error (l ++ [x]) (length l) = Some x.
Proof. rewrite nth_error_app2 by lia. rewrite Nat.sub_diag. reflexivity. Qed.

Lemma register_type_spec X ty X1 y : register_type X ty = (X1, y) ->
  grows X X1 /\ nth_error (x_types X1) y = Some ty.
Proof.
  unfold register_type. destruct (find_index (xtype_eqb ty) (x_types X) 0) as [i|] eqn:E; intros H; inv H.
  - split; [apply grows_refl|]. apply find_index_spec in E. destruct E as (x & Hx & Hp & _).
    rewrite Nat.sub_0_r in Hx. apply xtype_eqb_eq in Hp. congruence.
  - split; [repeat split; cbn; try apply prefix_refl; apply prefix_snoc | cbn; apply nth_snoc].
Qed.

Lemma register_tuple_spec X a X1 t : register_tuple X a = (X1, t) ->
  grows X X1 /\ nth_error (x_tuples X1) t = Some a.
Proof.
  unfold register_tuple. destruct (find_index (xtuple_eqb a) (x_tuples X) 0) as [i|] eqn:E; intros H; inv H.
  - split; [apply grows_refl|]. apply find_index_spec in E. destruct E as (x & Hx & Hp & _).
    rewrite Nat.sub_0_r in Hx. apply xtuple_eqb_eq in Hp. congruence.
  - split; [repeat split; cbn; try apply prefix_refl; apply prefix_snoc | cbn; apply nth_snoc].
Qed.

Lemma register_constant_grows X c X1 k : register_constant X c = (X1, k) ->
  grows X X1 /\ nth_error (x_consts X1) k = Some c.
Proof.
  unfold register_constant. destruct (find_index (xconst_eqb c) (x_consts X) 0) as [i|] eqn:E; intros H; inv H.
  - split; [apply grows_refl|]. apply find_index_spec in E. destruct E as (x & Hx & Hp & _).
    rewrite Nat.sub_0_r in Hx. apply xconst_eqb_eq in Hp. congruence.
  - split; [repeat split; cbn; try apply prefix_refl; apply prefix_snoc | cbn; apply nth_snoc].
Qed.

Lemma register_function_grows X fd X1 k : register_function X fd = (X1, k) ->
  grows X X1 /\ nth_error (x_funcs X1) k = Some fd.
Proof.
  unfold register_function. destruct (find_index (xfunc_eqb fd) (x_funcs X) 0) as [i|] eqn:E; intros H; inv H.
  - split; [apply grows_refl|]. apply find_index_spec in E. destruct E as (x & Hx & Hp & _).
    rewrite Nat.sub_0_r in Hx. apply xfunc_eqb_eq in Hp. congruence.
  - split; [repeat split; cbn; try apply prefix_refl; apply prefix_snoc | cbn; apply nth_snoc].
Qed.

Lemma register_builtin_grows X a X1 b : register_builtin_info X a = (X1, b) -> grows X X1.
Proof.
  unfold register_builtin_info. destruct (find_index _ (x_builtins X) 0) as [i|]; intros H; inv H.
  - apply grows_refl.
  - repeat split; cbn; try apply prefix_refl; apply prefix_snoc.
Qed.

(* ------------------------------------------------------------------ memo tables *)

Lemma length_set_map m : forall i v, length (set_map m i v) = length m.
Proof. induction m as [|o t IH]; intros [|i] v; cbn; auto. Qed.

Lemma app_set_same m : forall i v, i < length m -> app (set_map m i v) i = Some v.
Proof.
  induction m as [|o t IH]; intros [|i] v H; cbn in H; try lia; [reflexivity|].
  cbn [set_map]. rewrite app_cons. apply IH. lia.
Qed.

Lemma app_set_other m : forall i j v, i <> j -> app (set_map m i v) j = app m j.
Proof.
  induction m as [|o t IH]; intros [|i] [|j] v H; cbn [set_map]; try reflexivity; try congruence.
  rewrite !app_cons. apply IH. congruence.
Qed.

Lemma app_lt m i j : app m i = Some j -> i < length m.
Proof.
  unfold app. destruct (nth_error m i) eqn:E; [|discriminate]. intros _. apply nth_error_Some. congruence.
Qed.

(* setting an unset entry keeps every set entry *)
Lemma set_map_mono m i v : app m i = None -> forall j w, app m j = Some w -> app (set_map m i v) j = Some w.
Proof.
  intros Hn j w H. destruct (Nat.eq_dec i j) as [->|N]; [congruence|]. rewrite app_set_other; assumption.
Qed.

(* ------------------------------------------------------------------ images under growing maps *)

Lemma map_opt_mono {A B} (g g' : A -> option B) l : (forall x y, g x = Some y -> g' x = Some y) ->
  forall r, map_opt g l = Some r -> map_opt g' l = Some r.
Proof.
  intros H. induction l as [|a l IH]; intros r E; cbn [map_opt] in *; [exact E|].
  destruct (g a) as [y|] eqn:Ga; [|discriminate]. destruct (map_opt g l) as [r'|]; [|discriminate].
  rewrite (H _ _ Ga), (IH _ eq_refl). exact E.
Qed.

Lemma map_opt_length {A B} (g : A -> option B) l : forall r, map_opt g l = Some r -> length r = length l.
Proof.
  induction l as [|x l IH]; intros r H; cbn [map_opt] in H; [inv H; reflexivity|].
  destruct (g x); [|discriminate]. destruct (map_opt g l); [|discriminate]. inv H. cbn. f_equal. apply IH. reflexivity.
Qed.

Lemma map_fst_combine {A B} (l : list A) : forall (r : list B), length l = length r -> map fst (combine l r) = l.
Proof. induction l as [|a l IH]; intros [|b r] H; cbn in *; try lia; [reflexivity|]. f_equal. apply IH. lia. Qed.
Lemma map_snd_combine {A B} (l : list A) : forall (r : list B), length l = length r -> map snd (combine l r) = r.
Proof. induction l as [|a l IH]; intros [|b r] H; cbn in *; try lia; [reflexivity|]. f_equal. apply IH. lia. Qed.

Definition mono (m m' : fmap) : Prop := forall i j, app m i = Some j -> app m' i = Some j.

Lemma ren_type_mono r1 r2 ty ty' : mono (r_t r1) (r_t r2) -> mono (r_y r1) (r_y r2) ->
  ren_type r1 ty = Some ty' -> ren_type r2 ty = Some ty'.
Proof.
  intros Ht Hy. destruct ty; cbn [ren_type]; intros H; try exact H.
  - destruct (app (r_t r1) t) as [j|] eqn:E; [|discriminate]. rewrite (Ht _ _ E). exact H.
  - destruct (map_opt _ fields) as [r|] eqn:E; [|discriminate].
    erewrite map_opt_mono; [exact H| |exact E]. intros x y Hx. cbn beta in Hx |- *.
    destruct (app (r_y r1) (snd x)) as [j|] eqn:Ej; [|discriminate]. rewrite (Hy _ _ Ej). exact Hx.
  - destruct (app (r_y r1) parameter) as [p|] eqn:E1; [|discriminate].
    destruct (app (r_y r1) result) as [r|] eqn:E2; [|discriminate].
    destruct (app (r_y r1) receive) as [c|] eqn:E3; [|discriminate].
    rewrite (Hy _ _ E1), (Hy _ _ E2), (Hy _ _ E3). exact H.
  - destruct (map_opt _ ys) as [r|] eqn:E; [|discriminate].
    erewrite map_opt_mono; [exact H| |exact E]. intros x y Hx. apply Hy. exact Hx.
  - assert (G : forall o o', ren_oid r1 o = Some o' -> ren_oid r2 o = Some o').
    { intros [y|] o' Ho; cbn [ren_oid] in *; [|exact Ho].
      destruct (app (r_y r1) y) as [j|] eqn:Ej; [|discriminate]. rewrite (Hy _ _ Ej). exact Ho. }
    destruct (ren_oid r1 send) as [s|] eqn:E1; [|discriminate].
    destruct (ren_oid r1 receive) as [r|] eqn:E2; [|discriminate].
    rewrite (G _ _ E1), (G _ _ E2). exact H.
Qed.

(* ------------------------------------------------------------------ the import invariant *)

Definition rho_of (st : mstate) : renaming :=
  {| r_c := []; r_f := []; r_t := ms_tu st; r_y := ms_ty st; r_b := []; r_r := []; i_f := []; i_b := [] |}.

Section IMPORTP.
Variable B : xprogram.

Record minv (st : mstate) : Prop := {
  mi_len_ty : length (ms_ty st) = length (x_types B);
  mi_len_tu : length (ms_tu st) = length (x_tuples B);
  mi_ty : forall y y', app (ms_ty st) y = Some y' ->
          exists ty ty', nth_error (x_types B) y = Some ty /\ nth_error (x_types (ms_prog st)) y' = Some ty' /\
                         ren_type (rho_of st) ty = Some ty';
  mi_tu : forall t t', app (ms_tu st) t = Some t' ->
          exists a a', nth_error (x_tuples B) t = Some a /\ nth_error (x_tuples (ms_prog st)) t' = Some a' /\
                       xt_name a' = xt_name a /\ map fst (xt_fields a') = map fst (xt_fields a) /\
                       map_opt (app (ms_ty st)) (map snd (xt_fields a)) = Some (map snd (xt_fields a'))
}.

Record mle (st st' : mstate) : Prop := {
  ml_prog : grows (ms_prog st) (ms_prog st');
  ml_ty : mono (ms_ty st) (ms_ty st');
  ml_tu : mono (ms_tu st) (ms_tu st')
}.

Lemma mle_refl st : mle st st.
Proof. constructor; [apply grows_refl | intros i j H; exact H | intros i j H; exact H]. Qed.

Lemma mle_trans a b c : mle a b -> mle b c -> mle a c.
Proof.
  intros [p1 t1 u1] [p2 t2 u2]. constructor; [eapply grows_trans; eauto | |];
    intros i j H; [apply t2, t1, H | apply u2, u1, H].
Qed.

Definition rec_ok (rec : mstate -> nat -> option (mstate * nat)) (get : mstate -> fmap) : Prop :=
  forall st y st' y', rec st y = Some (st', y') -> minv st -> minv st' /\ mle st st' /\ app (get st') y = Some y'.

Section VALUEP.
Variable rec_ty rec_tu : mstate -> nat -> option (mstate * nat).
Hypothesis Hty : rec_ok rec_ty ms_ty.
Hypothesis Htu : rec_ok rec_tu ms_tu.

Lemma import_ids_spec ys : forall st st' r, import_ids rec_ty st ys = Some (st', r) -> minv st ->
  minv st' /\ mle st st' /\ map_opt (app (ms_ty st')) ys = Some r.
Proof.
  induction ys as [|y t IH]; intros st st' r H Hi; cbn [import_ids] in H.
  - inv H. split; [exact Hi|]. split; [apply mle_refl | reflexivity].
  - destruct (rec_ty st y) as [[st1 y']|] eqn:E1; [|discriminate].
    destruct (import_ids rec_ty st1 t) as [[st2 r']|] eqn:E2; [|discriminate]. inv H.
    destruct (Hty _ _ _ _ E1 Hi) as (I1 & L1 & A1).
    destruct (IH _ _ _ E2 I1) as (I2 & L2 & A2).
    split; [exact I2|]. split; [eapply mle_trans; eauto|].
    cbn [map_opt]. rewrite (ml_ty _ _ L2 _ _ A1), A2. reflexivity.
Qed.

Lemma import_oid_spec st o st' o' : import_oid rec_ty st o = Some (st', o') -> minv st ->
  minv st' /\ mle st st' /\ ren_oid (rho_of st') o = Some o'.
Proof.
  destruct o as [y|]; cbn [import_oid]; intros H Hi.
  - destruct (rec_ty st y) as [[st1 y']|] eqn:E1; [|discriminate]. inv H.
    destruct (Hty _ _ _ _ E1 Hi) as (I1 & L1 & A1). split; [exact I1|]. split; [exact L1|].
    cbn [ren_oid rho_of r_y]. rewrite A1. reflexivity.
  - inv H. split; [exact Hi|]. split; [apply mle_refl | reflexivity].
Qed.

Lemma partial_img (ry : fmap) (fs : list (str * nat)) : forall ys,
  map_opt (app ry) (map snd fs) = Some ys ->
  map_opt (fun p => option_map (pair (fst p)) (app ry (snd p))) fs = Some (combine (map fst fs) ys).
Proof.
  induction fs as [|[l y] fs IH]; intros ys H; cbn [map map_opt fst snd] in *.
  - inv H. reflexivity.
  - destruct (app ry y) as [j|]; [|discriminate]. destruct (map_opt (app ry) (map snd fs)) as [r|]; [|discriminate].
    inv H. rewrite (IH _ eq_refl). reflexivity.
Qed.

Lemma import_value_spec st ty st' ty' : import_value rec_ty rec_tu st ty = Some (st', ty') -> minv st ->
  minv st' /\ mle st st' /\ ren_type (rho_of st') ty = Some ty'.
Proof.
  intros H Hi. destruct ty; cbn [import_value] in H;
    try (inv H; split; [exact Hi|]; split; [apply mle_refl | reflexivity]).
  - (* Tuple *)
    destruct (rec_tu st t) as [[st1 t']|] eqn:E1; [|discriminate]. inv H.
    destruct (Htu _ _ _ _ E1 Hi) as (I1 & L1 & A1). split; [exact I1|]. split; [exact L1|].
    cbn [ren_type rho_of r_t]. rewrite A1. reflexivity.
  - (* Partial *)
    destruct (import_ids rec_ty st (map snd fields)) as [[st1 ys]|] eqn:E1; [|discriminate]. inv H.
    destruct (import_ids_spec _ _ _ _ E1 Hi) as (I1 & L1 & A1). split; [exact I1|]. split; [exact L1|].
    cbn [ren_type rho_of r_y]. rewrite (partial_img _ _ _ A1). reflexivity.
  - (* Callable *)
    destruct (rec_ty st parameter) as [[st1 p']|] eqn:E1; [|discriminate].
    destruct (rec_ty st1 result) as [[st2 r']|] eqn:E2; [|discriminate].
    destruct (rec_ty st2 receive) as [[st3 c']|] eqn:E3; [|discriminate]. inv H.
    destruct (Hty _ _ _ _ E1 Hi) as (I1 & L1 & A1).
    destruct (Hty _ _ _ _ E2 I1) as (I2 & L2 & A2).
    destruct (Hty _ _ _ _ E3 I2) as (I3 & L3 & A3).
    split; [exact I3|]. split; [eapply mle_trans; [exact L1|]; eapply mle_trans; eauto|].
    cbn [ren_type rho_of r_y].
    rewrite (ml_ty _ _ L3 _ _ (ml_ty _ _ L2 _ _ A1)), (ml_ty _ _ L3 _ _ A2), A3. reflexivity.
  - (* Union *)
    destruct (import_ids rec_ty st ys) as [[st1 r]|] eqn:E1; [|discriminate]. inv H.
    destruct (import_ids_spec _ _ _ _ E1 Hi) as (I1 & L1 & A1). split; [exact I1|]. split; [exact L1|].
    cbn [ren_type rho_of r_y]. rewrite A1. reflexivity.
  - (* Process *)
    destruct (import_oid rec_ty st send) as [[st1 s']|] eqn:E1; [|discriminate].
    destruct (import_oid rec_ty st1 receive) as [[st2 r']|] eqn:E2; [|discriminate].
    destruct (import_oid_spec _ _ _ _ E1 Hi) as (I1 & L1 & A1).
    destruct (import_oid_spec _ _ _ _ E2 I1) as (I2 & L2 & A2).
    assert (A1' : ren_oid (rho_of st2) send = Some s').
    { destruct send as [y|]; cbn [ren_oid rho_of r_y] in *; [|exact A1].
      destruct (app (ms_ty st1) y) as [j|] eqn:Ej; [|discriminate]. rewrite (ml_ty _ _ L2 _ _ Ej). exact A1. }
    inv H.
    split; [exact I2|]. split; [eapply mle_trans; eauto|].
    cbn [ren_type]. rewrite A1', A2. reflexivity.
Qed.
End VALUEP.

(* registering the imported node keeps the invariant *)
Lemma minv_grow st E2 : minv st -> grows (ms_prog st) E2 ->
  minv {| ms_prog := E2; ms_ty := ms_ty st; ms_tu := ms_tu st |}.
Proof.
  intros [l1 l2 ity itu] (_ & _ & Gt & Gy & _). constructor; cbn [ms_prog ms_ty ms_tu]; auto.
  - intros y y' H. destruct (ity _ _ H) as (ty & ty' & A & B0 & C). exists ty, ty'. repeat split; auto.
    eapply prefix_nth; eauto.
  - intros t t' H. destruct (itu _ _ H) as (a & a' & A & B0 & C). exists a, a'. repeat split; try apply C; auto.
    eapply prefix_nth; eauto.
Qed.

Lemma import_type_S k st y : import_type B (S k) st y =
  match app (ms_ty st) y with
  | Some y' => Some (st, y')
  | None =>
      match nth_error (x_types B) y with
      | None => None
      | Some ty =>
          match import_value (import_type B k) (import_tuple B k) st ty with
          | None => None
          | Some (st1, ty') =>
              match app (ms_ty st1) y with
              | Some _ => None
              | None =>
                  let (E2, y') := register_type (ms_prog st1) ty' in
                  Some ({| ms_prog := E2; ms_ty := set_map (ms_ty st1) y y'; ms_tu := ms_tu st1 |}, y')
              end
          end
      end
  end.
Proof. reflexivity. Qed.

Lemma import_tuple_S k st t : import_tuple B (S k) st t =
  match app (ms_tu st) t with
  | Some t' => Some (st, t')
  | None =>
      match nth_error (x_tuples B) t with
      | None => None
      | Some a =>
          match import_ids (import_type B k) st (map snd (xt_fields a)) with
          | None => None
          | Some (st1, ys) =>
              match app (ms_tu st1) t with
              | Some _ => None
              | None =>
                  let (E2, t') := register_tuple (ms_prog st1)
                                    {| xt_name := xt_name a; xt_fields := combine (map fst (xt_fields a)) ys |} in
                  Some ({| ms_prog := E2; ms_ty := ms_ty st1; ms_tu := set_map (ms_tu st1) t t' |}, t')
              end
          end
      end
  end.
Proof. reflexivity. Qed.

Lemma import_spec k :
  rec_ok (import_type B k) ms_ty /\ rec_ok (import_tuple B k) ms_tu.
Proof.
  induction k as [|k [IHty IHtu]]; [split; intros st y st' y' H; discriminate|].
  split.
  - (* import_type *)
    intros st y st' y' H Hi. rewrite import_type_S in H.
    destruct (app (ms_ty st) y) as [y0|] eqn:Em.
    { inv H. split; [exact Hi|]. split; [apply mle_refl | exact Em]. }
    destruct (nth_error (x_types B) y) as [ty|] eqn:Ety; [|discriminate].
    destruct (import_value (import_type B k) (import_tuple B k) st ty) as [[st1 ty']|] eqn:Ev; [|discriminate].
    destruct (import_value_spec _ _ IHty IHtu _ _ _ _ Ev Hi) as (I1 & L1 & A1).
    destruct (app (ms_ty st1) y) as [?|] eqn:Em1; [discriminate|].
    destruct (register_type (ms_prog st1) ty') as [E2 y2] eqn:Er. inv H.
    destruct (register_type_spec _ _ _ _ Er) as [G2 N2].
    assert (Hlt : y < length (ms_ty st1)).
    { rewrite (mi_len_ty _ I1). apply nth_error_Some. congruence. }
    assert (Mono : mono (ms_ty st1) (set_map (ms_ty st1) y y')) by (intros i0 j0 Hij0; apply set_map_mono; [exact Em1 | exact Hij0]).
    split; [|split].
    + destruct (minv_grow _ _ I1 G2) as [l1 l2 ity itu]. cbn [ms_prog ms_ty ms_tu] in *.
      constructor; cbn [ms_prog ms_ty ms_tu]; [rewrite length_set_map; exact l1 | exact l2 | |].
      * intros z z' Hz. destruct (Nat.eq_dec y z) as [<-|Nz].
        -- rewrite app_set_same in Hz by exact Hlt. inv Hz. exists ty, ty'. repeat split; auto.
           eapply ren_type_mono; [| |exact A1]; cbn [rho_of r_t r_y ms_ty ms_tu]; [intros i j Hij; exact Hij | exact Mono].
        -- rewrite app_set_other in Hz by exact Nz. destruct (ity _ _ Hz) as (tz & tz' & Az & Bz & Cz).
           exists tz, tz'. repeat split; auto.
           eapply ren_type_mono; [| |exact Cz]; cbn [rho_of r_t r_y ms_ty ms_tu]; [intros i j Hij; exact Hij | exact Mono].
      * intros t t' Ht. destruct (itu _ _ Ht) as (a & a' & Aa & Ba & Na & La & Ma).
        exists a, a'. repeat split; auto. eapply map_opt_mono; [|exact Ma]. exact Mono.
    + eapply mle_trans; [exact L1|]. constructor; cbn [ms_prog ms_ty ms_tu]; [exact G2 | exact Mono | intros i j Hij; exact Hij].
    + cbn [ms_ty]. apply app_set_same. exact Hlt.
  - (* import_tuple *)
    intros st t st' t' H Hi. rewrite import_tuple_S in H.
    destruct (app (ms_tu st) t) as [t0|] eqn:Em.
    { inv H. split; [exact Hi|]. split; [apply mle_refl | exact Em]. }
    destruct (nth_error (x_tuples B) t) as [a|] eqn:Ea; [|discriminate].
    destruct (import_ids (import_type B k) st (map snd (xt_fields a))) as [[st1 ys]|] eqn:Ev; [|discriminate].
    destruct (import_ids_spec _ IHty _ _ _ _ Ev Hi) as (I1 & L1 & A1).
    destruct (app (ms_tu st1) t) as [?|] eqn:Em1; [discriminate|].
    destruct (register_tuple (ms_prog st1) _) as [E2 t2] eqn:Er. inv H.
    destruct (register_tuple_spec _ _ _ _ Er) as [G2 N2].
    assert (Hlt : t < length (ms_tu st1)).
    { rewrite (mi_len_tu _ I1). apply nth_error_Some. congruence. }
    assert (Mono : mono (ms_tu st1) (set_map (ms_tu st1) t t')) by (intros i0 j0 Hij0; apply set_map_mono; [exact Em1 | exact Hij0]).
    assert (Lys : length ys = length (xt_fields a)).
    { rewrite (map_opt_length _ _ _ A1). apply map_length. }
    split; [|split].
    + destruct (minv_grow _ _ I1 G2) as [l1 l2 ity itu]. cbn [ms_prog ms_ty ms_tu] in *.
      constructor; cbn [ms_prog ms_ty ms_tu]; [exact l1 | rewrite length_set_map; exact l2 | |].
      * intros z z' Hz. destruct (ity _ _ Hz) as (tz & tz' & Az & Bz & Cz). exists tz, tz'. repeat split; auto.
        eapply ren_type_mono; [| |exact Cz]; cbn [rho_of r_t r_y ms_ty ms_tu]; [exact Mono | intros i j Hij; exact Hij].
      * intros z z' Hz. destruct (Nat.eq_dec t z) as [<-|Nz].
        -- rewrite app_set_same in Hz by exact Hlt. inv Hz.
           eexists a, _. split; [exact Ea|]. split; [exact N2|]. cbn [xt_name xt_fields].
           split; [reflexivity|].
           assert (Ll : length (map fst (xt_fields a)) = length ys) by (rewrite map_length; lia).
           split; [apply map_fst_combine; exact Ll|]. rewrite map_snd_combine by exact Ll. exact A1.
        -- rewrite app_set_other in Hz by exact Nz. destruct (itu _ _ Hz) as (b & b' & Ab & Bb & Cb).
           exists b, b'. repeat split; try apply Cb; auto.
    + eapply mle_trans; [exact L1|]. constructor; cbn [ms_prog ms_ty ms_tu]; [exact G2 | intros i j Hij; exact Hij | exact Mono].
    + cbn [ms_tu]. apply app_set_same. exact Hlt.
Qed.

End IMPORTP.

(* ------------------------------------------------------------------ the folds of merge_bytecode *)

Lemma import_all_types_spec B ys : forall st st', import_all_types B st ys = Some st' -> minv B st ->
  minv B st' /\ mle st st' /\ forall y, In y ys -> exists y', app (ms_ty st') y = Some y'.
Proof.
  induction ys as [|y t IH]; intros st st' H Hi; cbn [import_all_types] in H.
  - inv H. split; [exact Hi|]. split; [apply mle_refl|]. intros y [].
  - destruct (import_type B (import_fuel B) st y) as [[st1 y']|] eqn:E; [|discriminate].
    destruct (proj1 (import_spec B (import_fuel B)) _ _ _ _ E Hi) as (I1 & L1 & A1).
    destruct (IH _ _ H I1) as (I2 & L2 & A2).
    split; [exact I2|]. split; [eapply mle_trans; eauto|].
    intros z [<-|Hz]; [exists y'; apply (ml_ty _ _ L2), A1 | apply A2, Hz].
Qed.

Lemma import_all_tuples_spec B ts : forall st st', import_all_tuples B st ts = Some st' -> minv B st ->
  minv B st' /\ mle st st' /\ forall t, In t ts -> exists t', app (ms_tu st') t = Some t'.
Proof.
  induction ts as [|t r IH]; intros st st' H Hi; cbn [import_all_tuples] in H.
  - inv H. split; [exact Hi|]. split; [apply mle_refl|]. intros t [].
  - destruct (import_tuple B (import_fuel B) st t) as [[st1 t']|] eqn:E; [|discriminate].
    destruct (proj2 (import_spec B (import_fuel B)) _ _ _ _ E Hi) as (I1 & L1 & A1).
    destruct (IH _ _ H I1) as (I2 & L2 & A2).
    split; [exact I2|]. split; [eapply mle_trans; eauto|].
    intros z [<-|Hz]; [exists t'; apply (ml_tu _ _ L2), A1 | apply A2, Hz].
Qed.

Lemma merge_consts_spec cs : forall E E1 rc, merge_consts E cs = (E1, rc) ->
  grows E E1 /\ Forall2 (fun c k => forall E2, grows E1 E2 -> nth_error (x_consts E2) k = Some c) cs rc.
Proof.
  induction cs as [|c t IH]; intros E E1 rc H; cbn [merge_consts] in H.
  - inv H. split; [apply grows_refl | constructor].
  - destruct (register_constant E c) as [Ea k] eqn:Er. destruct (merge_consts Ea t) as [Eb r] eqn:Em. inv H.
    destruct (register_constant_grows _ _ _ _ Er) as [G1 N1]. destruct (IH _ _ _ Em) as [G2 F2].
    split; [eapply grows_trans; eauto|]. constructor; [|exact F2].
    intros E2 G3. destruct (grows_trans _ _ _ G2 G3) as (Pc & _). eapply prefix_nth; eauto.
Qed.

Lemma merge_builtins_spec ry bs : forall E E1 rb, merge_builtins ry E bs = (E1, rb) ->
  grows E E1 /\ length rb = length bs.
Proof.
  induction bs as [|a t IH]; intros E E1 rb H; cbn [merge_builtins] in H.
  - inv H. split; [apply grows_refl | reflexivity].
  - destruct (register_builtin_info E _) as [Ea b] eqn:Er. destruct (merge_builtins ry Ea t) as [Eb r] eqn:Em. inv H.
    destruct (IH _ _ _ Em) as [G2 L2]. split; [eapply grows_trans; [eapply register_builtin_grows; eauto | exact G2]|].
    cbn. f_equal. exact L2.
Qed.

(* the function emitted for B's j-th function, given the function map built so far *)
Definition merged_fun (rc rt ry rb : fmap) (rf : list nat) (fd : xfunc) : xfunc :=
  {| xf_code := map (merge_instr rc (map Some rf) rt ry rb) (xf_code fd); xf_caps := xf_caps fd;
     xf_type := get_or ry (xf_type fd) |}.

Lemma merge_funcs_spec rc rt ry rb fs : forall E rf E' rf', merge_funcs rc rt ry rb E rf fs = (E', rf') ->
  grows E E' /\ exists new, rf' = rf ++ new /\ length new = length fs /\
  forall j fd, nth_error fs j = Some fd ->
    exists f', nth_error rf' (length rf + j) = Some f' /\
               nth_error (x_funcs E') f' = Some (merged_fun rc rt ry rb (firstn (length rf + j) rf') fd).
Proof.
  induction fs as [|fd t IH]; intros E rf E' rf' H; cbn [merge_funcs] in H.
  - inv H. split; [apply grows_refl|]. exists []. rewrite app_nil_r. repeat split; auto. intros [|j] ? Hj; discriminate.
  - destruct (register_function E _) as [E1 f1] eqn:Er.
    destruct (register_function_grows _ _ _ _ Er) as [G1 N1].
    destruct (IH _ _ _ _ H) as (G2 & new & -> & Ln & Hn).
    split; [eapply grows_trans; eauto|]. exists (f1 :: new). rewrite <- app_assoc. cbn [Datatypes.app].
    split; [reflexivity|]. split; [cbn; lia|].
    intros [|j] fd0 Hj; cbn [nth_error] in Hj.
    + inv Hj. exists f1. rewrite Nat.add_0_r. split.
      * rewrite nth_error_app2 by lia. rewrite Nat.sub_diag. reflexivity.
      * destruct G2 as (_ & Pf & _). eapply prefix_nth; [exact Pf|].
        unfold merged_fun. rewrite firstn_app, Nat.sub_diag, firstn_all. cbn [firstn]. rewrite app_nil_r. exact N1.
    + destruct (Hn _ _ Hj) as (f' & A & B0). rewrite app_length in A, B0. cbn [length] in A, B0.
      exists f'. replace (length rf + S j) with (length rf + 1 + j) by lia.
      rewrite <- app_assoc in A, B0. cbn [Datatypes.app] in A, B0. split; [exact A | exact B0].
Qed.

Lemma app_repeat_none n i : app (repeat None n) i = None.
Proof.
  unfold app. destruct (nth_error (repeat None n) i) as [o|] eqn:E; [|reflexivity].
  apply nth_error_In, repeat_spec in E. subst. reflexivity.
Qed.

Lemma minv_start B E1 :
  minv B {| ms_prog := E1; ms_ty := repeat None (length (x_types B)); ms_tu := repeat None (length (x_tuples B)) |}.
Proof.
  constructor; cbn [ms_prog ms_ty ms_tu]; try apply repeat_length; intros ? ? H; rewrite app_repeat_none in H; discriminate.
Qed.

(* ------------------------------------------------------------------ merge yields a renaming *)

Lemma fields_forall2b (ry : fmap) (fs : list (option str * nat)) : forall fs',
  map fst fs' = map fst fs -> map_opt (app ry) (map snd fs) = Some (map snd fs') ->
  forall2b (fun p q => ostr_eqb (fst p) (fst q) && maps_to ry (snd p) (snd q)) fs fs' = true.
Proof.
  induction fs as [|[l y] fs IH]; intros [|[l' y'] fs'] H1 H2; cbn [map map_opt fst snd] in *; try discriminate.
  - reflexivity.
  - destruct (app ry y) as [j|] eqn:Ej; [|discriminate].
    destruct (map_opt (app ry) (map snd fs)) as [r|] eqn:Er; [|discriminate]. inv H2. inv H1.
    cbn [forall2b fst snd]. rewrite ostr_eqb_refl. cbn [andb].
    rewrite (maps_to_intro _ _ _ Ej). cbn [andb]. apply IH; [assumption | reflexivity].
Qed.

Lemma nth_firstn {A} (l : list A) n i : i < n -> nth_error (firstn n l) i = nth_error l i.
Proof.
  revert l i. induction n as [|n IH]; intros l i H; [lia|].
  destruct l as [|x l]; [destruct i; reflexivity|]. destruct i as [|i]; [reflexivity|]. cbn. apply IH. lia.
Qed.

Lemma back_from_spec fs : forall f0 j fd i, back_from f0 fs = true -> nth_error fs j = Some fd -> In i (xf_code fd) ->
  match i with IFunction g => g < f0 + j | _ => True end.
Proof.
  induction fs as [|fd0 t IH]; intros f0 j fd i H E Hi; [destruct j; discriminate|].
  cbn [back_from] in H. apply andb_true_iff in H as [H1 H2]. destruct j as [|j]; cbn [nth_error] in E.
  - inv E. rewrite forallb_forall in H1. specialize (H1 i Hi). destruct i; try exact I.
    apply Nat.ltb_lt in H1. lia.
  - pose proof (IH (S f0) j fd i H2 E Hi) as G. destruct i; try exact I. lia.
Qed.

Theorem merge_struct E B E' rho : merge E B = Some (E', rho) -> wf_program B = true ->
  merge_premises rho B E' = true -> struct_ok rho B E' = true.
Proof.
  intros H HW HP. unfold merge in H.
  destruct (merge_consts E (x_consts B)) as [E1 rc] eqn:Ec.
  destruct (import_all_types B _ (seq 0 (length (x_types B)))) as [st1|] eqn:Ey; [|discriminate].
  destruct (import_all_tuples B st1 (seq 0 (length (x_tuples B)))) as [st2|] eqn:Et; [|discriminate].
  destruct (merge_builtins (ms_ty st2) (ms_prog st2) (x_builtins B)) as [E3 rb] eqn:Eb.
  destruct (merge_funcs (map Some rc) (ms_tu st2) (ms_ty st2) (map Some rb) E3 [] (x_funcs B)) as [E4 rf] eqn:Ef.
  destruct (nth_error rf (x_entry B)) as [e|] eqn:Ee; [|discriminate].
  inv H.
  (* what each stage established *)
  destruct (merge_consts_spec _ _ _ _ Ec) as [Gc Fc].
  destruct (import_all_types_spec _ _ _ _ Ey (minv_start B E1)) as (I1 & L1 & A1).
  destruct (import_all_tuples_spec _ _ _ _ Et I1) as (I2 & L2 & A2).
  destruct (merge_builtins_spec _ _ _ _ _ Eb) as [Gb Lb].
  destruct (merge_funcs_spec _ _ _ _ _ _ _ _ _ Ef) as (Gf & new & Hrf & Lnew & Hnew).
  cbn [Datatypes.app length] in Hrf, Hnew. subst new.
  assert (Gtail : grows (ms_prog st2) E4) by (eapply grows_trans; eauto).
  assert (Gc4 : grows E1 E4).
  { eapply grows_trans; [|exact Gtail]. eapply grows_trans; [exact (ml_prog _ _ L1) | exact (ml_prog _ _ L2)]. }
  assert (Ty : forall y, y < length (x_types B) -> exists y', app (ms_ty st2) y = Some y').
  { intros y Hy. destruct (A1 y) as [y' Hy']; [apply in_seq; lia|]. exists y'. apply (ml_ty _ _ L2), Hy'. }
  assert (Tt : forall t, t < length (x_tuples B) -> exists t', app (ms_tu st2) t = Some t').
  { intros t Ht. apply A2. apply in_seq. lia. }
  assert (Tyg : forall y, y < length (x_types B) -> app (ms_ty st2) y = Some (get_or (ms_ty st2) y)).
  { intros y Hy. destruct (Ty y Hy) as [y' Hy']. rewrite (get_or_some _ _ _ Hy'). exact Hy'. }
  destruct (wf_parts B HW) as (W2 & We & Wf & Wt & Wy & Wb).
  (* the premises *)
  unfold merge_premises in HP. cbn [r_c r_f r_t r_y r_b r_r i_f i_b] in HP.
  apply andb_true_iff in HP as [HP Pinjb]. apply andb_true_iff in HP as [HP Pinjf].
  apply andb_true_iff in HP as [HP Pbuiltin]. apply andb_true_iff in HP as [HP Pnilonly].
  apply andb_true_iff in HP as [HP Pok]. apply andb_true_iff in HP as [HP Pnil].
  apply andb_true_iff in HP as [Pback Pnoproc].
  unfold struct_ok. cbn [r_c r_f r_t r_y r_b r_r i_f i_b x_entry].
  repeat (apply andb_true_iff; split); try assumption.
  - (* entry *) apply maps_to_intro. rewrite app_map_some. exact Ee.
  - (* functions *)
    apply forall_map_intro. intros f f' Hf. rewrite app_map_some in Hf.
    assert (Hlt : f < length (x_funcs B)) by (rewrite <- Lnew; apply nth_error_Some; congruence).
    destruct (nth_error (x_funcs B) f) as [fd|] eqn:Efd; [|apply nth_error_None in Efd; lia].
    destruct (Hnew _ _ Efd) as (f'' & Af & Bf). cbn [Nat.add] in Af, Bf. rewrite Hf in Af. inv Af.
    destruct (Wf _ _ Efd) as [Wty Wcode].
    unfold chk_fun. cbn [x_funcs]. rewrite Efd, Bf. cbn [merged_fun xf_caps xf_code xf_type].
    rewrite Nat.eqb_refl. cbn [andb]. apply andb_true_iff. split.
    + apply forall2b_map_r. intros i Hi. specialize (Wcode i Hi).
      pose proof (back_from_spec _ 0 f fd i Pback Efd Hi) as Bk. cbn [Nat.add] in Bk.
      assert (Np : match i with IProcess _ _ => False | _ => True end).
      { unfold no_process in Pnoproc. rewrite forallb_forall in Pnoproc.
        pose proof (Pnoproc fd (nth_error_In _ _ Efd)) as Q. rewrite forallb_forall in Q. specialize (Q i Hi).
        destruct i; try exact I. discriminate. }
      unfold instr_img.
      destruct i; cbn [ren_instr merge_instr instr_ids_ok r_c r_f r_t r_y r_b] in *; try apply instr_eqb_refl;
        try contradiction.
      * (* Constant *)
        apply Nat.ltb_lt in Wcode. rewrite app_map_some.
        pose proof (Forall2_len _ _ _ Fc) as Lc.
        destruct (nth_error rc k) as [k'|] eqn:Ek; [|apply nth_error_None in Ek; lia].
        cbn [option_map]. unfold get_or. rewrite app_map_some, Ek. apply instr_eqb_refl.
      * (* Tuple *)
        apply Nat.ltb_lt in Wcode. destruct (Tt _ Wcode) as [t' Ht']. rewrite Ht'. cbn [option_map].
        rewrite (get_or_some _ _ _ Ht'). apply instr_eqb_refl.
      * (* IsType *)
        apply Nat.ltb_lt in Wcode. destruct (Ty _ Wcode) as [y' Hy']. rewrite Hy'. cbn [option_map].
        rewrite (get_or_some _ _ _ Hy'). apply instr_eqb_refl.
      * (* Function: a backward reference, already in the map when f was merged *)
        rewrite app_map_some.
        destruct (nth_error rf f0) as [g'|] eqn:Eg; [|apply nth_error_None in Eg; lia].
        cbn [option_map]. unfold get_or. rewrite app_map_some, nth_firstn by exact Bk. rewrite Eg. apply instr_eqb_refl.
      * (* Builtin *)
        apply Nat.ltb_lt in Wcode. rewrite app_map_some.
        destruct (nth_error rb b) as [b'|] eqn:Eb'; [|apply nth_error_None in Eb'; lia].
        cbn [option_map]. unfold get_or. rewrite app_map_some, Eb'. apply instr_eqb_refl.
    + apply maps_to_intro. apply Tyg. exact Wty.
  - (* constants *)
    apply forall_map_intro. intros k k' Hk. rewrite app_map_some in Hk.
    pose proof (Forall2_nth _ _ _ Fc k) as G. rewrite Hk in G.
    destruct (nth_error (x_consts B) k) as [c|] eqn:Ek; [|contradiction].
    unfold chk_const. cbn [x_consts]. rewrite Ek, (G E4 Gc4). apply xconst_eqb_refl.
  - (* tuples *)
    apply forall_map_intro. intros t t' Ht.
    destruct (mi_tu _ _ I2 _ _ Ht) as (a & a' & Aa & Ba & Na & La & Ma).
    unfold chk_tuple. cbn [x_tuples]. rewrite Aa.
    destruct Gtail as (_ & _ & Pt & _). rewrite (prefix_nth _ _ _ _ Pt Ba).
    rewrite Na, ostr_eqb_refl. cbn [andb]. apply fields_forall2b; assumption.
  - (* types *)
    apply forall_map_intro. intros y y' Hy.
    destruct (mi_ty _ _ I2 _ _ Hy) as (ty & ty' & Aa & Ba & Ca).
    unfold chk_type. cbn [x_types]. rewrite Aa.
    destruct Gtail as (_ & _ & _ & Py & _). rewrite (prefix_nth _ _ _ _ Py Ba).
    erewrite ren_type_mono; [apply xtype_eqb_refl | | | exact Ca]; cbn [rho_of r_t r_y]; intros i j Hij; exact Hij.
  - (* resources *)
    apply forall_map_intro. intros r r' Hr. rewrite app_map in Hr.
    destruct (nth_error (x_resources B) r) as [n|] eqn:En; [|discriminate].
    apply find_index_spec in Hr. destruct Hr as (x & Hx & Hp & _). rewrite Nat.sub_0_r in Hx.
    unfold chk_res. cbn [x_resources]. rewrite En, Hx. exact Hp.
Qed.

(* ------------------------------------------------------------------ the theorems *)

(* a full renaming as soon as the loader's type_compatibility rows commute *)
Theorem merge_is_renaming E B E' rho : merge E B = Some (E', rho) -> wf_program B = true ->
  merge_premises rho B E' = true -> canon_ok B = true ->
  forall R, rows_ok rho B (loaded E' R) = true -> is_renaming rho B (loaded E' R) = true.
Proof.
  intros H HW HP HC R HR. apply is_renaming_split. rewrite struct_ok_loaded.
  repeat split; auto; [eapply merge_struct; eauto | apply canon_ok_loaded].
Qed.

(* every such merge, behind ANY accumulated program E, preserves behaviour step for step (verdicts
   as outside inputs) *)
Theorem merge_simulation E B E' rho : merge E B = Some (E', rho) -> wf_program B = true ->
  merge_premises rho B E' = true ->
  app (r_f rho) (x_entry B) = Some (x_entry E') /\
  (forall f, reachable B (x_entry B) f -> exists f', app (r_f rho) f = Some f') /\
  forall s s' xs xs', srel rho s s' -> Forall2 (xrel rho) xs xs' ->
    rrel rho (run (project B) s xs) (run (project E') s' xs').
Proof.
  intros H HW HP. pose proof (merge_struct _ _ _ _ H HW HP) as S.
  destruct (struct_covers_reachable _ _ _ S) as [A0 B0]. split; [exact A0|]. split; [exact B0|].
  apply struct_simulation_ext. exact S.
Qed.

(* ------------------------------------------------------------------ non-vacuity and necessity of the premises *)
Module MergeExamples.
Import Examples.

(* exX' merged behind exM: constant 5, NIL, OK and the type int are shared with the environment; the
   tuples Q, P[x] and three types are appended, the two functions land behind the environment's two *)
Example ex_merge :
  match merge exM exX' with
  | Some (E', rho) =>
      wf_program exX' = true /\ merge_premises rho exX' E' = true /\ struct_ok rho exX' E' = true /\
      (r_c rho, r_f rho, r_t rho, r_y rho) =
        ([Some 0], [Some 2; Some 3], [Some 0; Some 1; Some 4; Some 3], [Some 1; Some 0; Some 2; Some 3]) /\
      (length (x_funcs E'), length (x_consts E'), length (x_tuples E'), length (x_types E'), x_entry E') = (4, 1, 5, 4, 3)
  | None => False
  end.
Proof. vm_compute. repeat split. Qed.

(* merged behind (a renaming of) itself everything deduplicates: nothing is appended *)
Example ex_merge_dedup :
  match merge exX exX' with
  | Some (E', rho) =>
      merge_premises rho exX' E' = true /\ r_f rho = [Some 1; Some 2] /\
      (length (x_funcs E'), length (x_consts E'), length (x_tuples E'), length (x_types E')) = (3, 2, 4, 4)
  | None => False
  end.
Proof. vm_compute. repeat split. Qed.

(* premise `backward_refs` is needed: a function that refers to a LATER function keeps the raw index
   (remap_function: `function_remap.get(&idx).unwrap_or(&idx)`, the later function is not merged yet),
   which then names an unrelated function of the environment *)
Definition fwdB : xprogram := with_funcs exX'
  [ {| xf_code := [IPop; IFunction 1]; xf_caps := 0; xf_type := 3 |};
    {| xf_code := [IPop; IConstant 0]; xf_caps := 0; xf_type := 3 |} ].
Example ex_merge_forward_refuted :
  match merge exM fwdB with
  | Some (E', rho) =>
      wf_program fwdB = true /\ backward_refs fwdB = false /\ struct_ok rho fwdB E' = false /\
      (* B's function 0 (-> 2) now pushes function 1 of the ENVIRONMENT; its own function 1 went to 3 *)
      option_map xf_code (nth_error (x_funcs E') 2) = Some [IPop; IFunction 1] /\ app (r_f rho) 1 = Some 3
  | None => False
  end.
Proof. vm_compute. repeat split. Qed.

(* premise on builtins is needed: dedup is by NAME only (register_builtin_info) *)
Definition bE : xprogram := with_builtins exX [ {| xb_name := s_q; xb_param := 0; xb_result := 0 |} ].
Definition bB : xprogram := with_builtins exX' [ {| xb_name := s_q; xb_param := 2; xb_result := 2 |} ].
Example ex_merge_builtin_refuted :
  match merge bE bB with
  | Some (E', rho) => wf_program bB = true /\ merge_premises rho bB E' = false /\ struct_ok rho bB E' = false
  | None => False
  end.
Proof. vm_compute. repeat split. Qed.

(* premise `no_process`: remap_function leaves Process(pid, f) alone *)
Definition pB : xprogram := with_funcs exX'
  [ {| xf_code := [IPop; ILoad 0]; xf_caps := 1; xf_type := 3 |};
    {| xf_code := [IPop; IProcess 7 0]; xf_caps := 0; xf_type := 3 |} ].
Example ex_merge_process_refuted :
  match merge exM pB with
  | Some (E', rho) => wf_program pB = true /\ no_process pB = false /\ struct_ok rho pB E' = false
  | None => False
  end.
Proof. vm_compute. repeat split. Qed.

End MergeExamples.
