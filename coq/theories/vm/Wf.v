(* Wf.v — the bytecode verifier (C07, C16).

   Certificate style: `infer_function` (untrusted dataflow) proposes an annotation
   — per pc, `None` (unreachable) or the abstract state (operand-stack height relative to the
   frame's base, and an interval for the number of locals relative to locals_base) —
   and `check_function` (proved sound in WfProofs.v) verifies that the annotation is a
   post-fixpoint of `transfer` that meets the property's conditions:
     * jumps stay inside the function; the stack never underflows; every join has ONE height;
     * falling off the end, and every tail call, happens with exactly the function's single
       result (resp. the exact call shape) on the stack;
     * every local read is below the lower bound of the locals interval (defined on all paths);
     * every constant/tuple/type/function/builtin index is in range. *)
From Quiver Require Export vm.Vm.

Record astate := { a_h : nat; a_lo : nat; a_hi : nat }.
Definition annot := list (option astate).

Definition mk (h lo hi : nat) : astate := {| a_h := h; a_lo := lo; a_hi := hi |}.

Section CHECK.
Variable P : program.

(* abstract effect of the instruction at `pc` on state `a` of a function with `k` captures:
   None = rejected; Some successors (terminal instructions have none) *)
Definition transfer (k len pc : nat) (i : instr) (a : astate) : option (list (nat * astate)) :=
  let h := a_h a in let lo := a_lo a in let hi := a_hi a in
  let next (a' : astate) := Some [(S pc, a')] in
  match i with
  | IConstant c => if c <? length (p_consts P) then next (mk (S h) lo hi) else None
  | IPop => if 1 <=? h then next (mk (h - 1) lo hi) else None
  | IDuplicate => if 1 <=? h then next (mk (S h) lo hi) else None
  | IPick n => if n <? h then next (mk (S h) lo hi) else None
  | IRotate n => if (1 <=? n) && (n <=? h) then next a else None
  | IReset idx => if idx <=? lo then next (mk h idx idx) else None
  | ILoad idx => if idx <? lo then next (mk (S h) lo hi) else None
  | IStore => if 1 <=? h then next (mk (h - 1) (S lo) (S hi)) else None
  | ITuple t => match nth_error (p_tuples P) t with
                | Some ar => if ar <=? h then next (mk (S (h - ar)) lo hi) else None
                | None => None
                end
  | IGet _ => if 1 <=? h then next a else None
  | IIsType t => if (1 <=? h) && (t <? p_ntypes P) then next a else None
  | IJump off =>
      let t := jump_target pc off in
      if (0 <=? t)%Z then Some [(Z.to_nat t, a)] else None
  | IJumpIf off =>
      let t := jump_target pc off in
      if (1 <=? h) && (0 <=? t)%Z then Some [(S pc, mk (h - 1) lo hi); (Z.to_nat t, mk (h - 1) lo hi)] else None
  | ICall => if 2 <=? h then next (mk (h - 1) lo hi) else None
  | ITailCall true => if (h =? 1) && (k <=? lo) then Some [] else None
  | ITailCall false => if h =? 2 then Some [] else None
  | IFunction f => match nth_error (p_funcs P) f with
                   | Some fd => if f_caps fd <=? h then next (mk (S (h - f_caps fd)) lo hi) else None
                   | None => None
                   end
  | IBuiltin b => if b <? p_nbuiltins P then next (mk (S h) lo hi) else None
  | IEqual n => if (1 <=? n) && (n <=? h) then next (mk (S (h - n)) lo hi) else None
  | INot => if 1 <=? h then next a else None
  | ISpawn => if 2 <=? h then next (mk (h - 1) lo hi) else None
  | ISend => if 2 <=? h then next (mk (h - 1) lo hi) else None
  | ISelf => next (mk (S h) lo hi)
  | ISelect => if 1 <=? h then next a else None
  | IProcess _ f => if f <? length (p_funcs P) then next (mk (S h) lo hi) else None
  end.

(* a' (computed) is covered by the recorded b: same height, interval included *)
Definition fits (a' b : astate) : bool :=
  (a_h b =? a_h a') && (a_lo b <=? a_lo a') && (a_hi a' <=? a_hi b).

Definition succ_ok (A : annot) (sc : nat * astate) : bool :=
  match nth_error A (fst sc) with
  | Some (Some b) => fits (snd sc) b
  | _ => false
  end.

Definition check_pc (k : nat) (code : list instr) (A : annot) (pc : nat) : bool :=
  match nth_error A pc with
  | Some (Some a) =>
      match nth_error code pc with
      | Some i => match transfer k (length code) pc i a with
                  | Some scs => forallb (succ_ok A) scs
                  | None => false
                  end
      | None => a_h a =? 1          (* pc = len: the function's single result *)
      end
  | Some None => true               (* unreachable *)
  | None => false
  end.

(* `entry` = number of locals at entry relative to locals_base (captures; for a REPL line
   running on the session's locals: the session's local count) *)
Definition check_function_at (entry : nat) (fd : func) (A : annot) : bool :=
  (length A =? S (length (f_code fd))) &&
  succ_ok A (0, mk 1 entry entry) &&
  forallb (check_pc (f_caps fd) (f_code fd) A) (seq 0 (S (length (f_code fd)))).

Definition check_function (fd : func) (A : annot) : bool := check_function_at (f_caps fd) fd A.

Fixpoint check_all (fs : list func) (As : list annot) : bool :=
  match fs, As with
  | [], [] => true
  | fd :: fs', A :: As' => check_function fd A && check_all fs' As'
  | _, _ => false
  end.

Definition check_program (As : list annot) : bool := check_all (p_funcs P) As.

(* ------------------------------------------------------------------ untrusted inference *)

Fixpoint set_nth {X} (l : list X) (n : nat) (x : X) : list X :=
  match l, n with
  | [], _ => []
  | _ :: t, O => x :: t
  | y :: t, S m => y :: set_nth t m x
  end.

(* merge a computed state into the annotation at pc'; None = height conflict / out of range *)
Definition merge (A : annot) (sc : nat * astate) : option (annot * bool) :=
  match nth_error A (fst sc) with
  | Some None => Some (set_nth A (fst sc) (Some (snd sc)), true)
  | Some (Some b) =>
      if a_h b =? a_h (snd sc) then
        let j := mk (a_h b) (Nat.min (a_lo b) (a_lo (snd sc))) (Nat.max (a_hi b) (a_hi (snd sc))) in
        if (a_lo j =? a_lo b) && (a_hi j =? a_hi b) then Some (A, false)
        else Some (set_nth A (fst sc) (Some j), true)
      else None
  | None => None
  end.

Fixpoint merge_all (A : annot) (scs : list (nat * astate)) (ch : bool) : option (annot * bool) :=
  match scs with
  | [] => Some (A, ch)
  | sc :: t => match merge A sc with
               | Some (A', c) => merge_all A' t (ch || c)
               | None => None
               end
  end.

(* one pass over all pcs *)
Fixpoint pass (k : nat) (code : list instr) (pcs : list nat) (A : annot) (ch : bool) : option (annot * bool) :=
  match pcs with
  | [] => Some (A, ch)
  | pc :: t =>
      match nth_error A pc, nth_error code pc with
      | Some (Some a), Some i =>
          match transfer k (length code) pc i a with
          | Some scs => match merge_all A scs ch with
                        | Some (A', ch') => pass k code t A' ch'
                        | None => None
                        end
          | None => None
          end
      | _, _ => pass k code t A ch
      end
  end.

Fixpoint iterate (fuel : nat) (k : nat) (code : list instr) (A : annot) : option annot :=
  match fuel with
  | O => None
  | S f => match pass k code (seq 0 (length code)) A false with
           | Some (A', true) => iterate f k code A'
           | Some (A', false) => Some A'
           | None => None
           end
  end.

Definition infer_function_at (entry : nat) (fd : func) : option annot :=
  let len := length (f_code fd) in
  let A0 := Some (mk 1 entry entry) :: repeat None len in
  iterate (len + 4) (f_caps fd) (f_code fd) A0.

Definition infer_function (fd : func) : option annot := infer_function_at (f_caps fd) fd.

(* the verifier as run on compiler output: infer, then check with the proved checker *)
Definition verify_function (fd : func) : option annot :=
  match infer_function fd with
  | Some A => if check_function fd A then Some A else None
  | None => None
  end.

Fixpoint verify_all (fs : list func) : option (list annot) :=
  match fs with
  | [] => Some []
  | fd :: t => match verify_function fd, verify_all t with
               | Some A, Some As => Some (A :: As)
               | _, _ => None
               end
  end.

Definition verify_program : option (list annot) := verify_all (p_funcs P).

(* C16: every tail call site has exactly the call shape — already enforced by `transfer`
   (h = 1 for `^`, h = 2 for `^f`); per-function space bounds read off the annotation *)
Definition max_height (A : annot) : nat :=
  fold_right (fun o m => match o with Some a => Nat.max (a_h a) m | None => m end) 0 A.
Definition max_locals (A : annot) : nat :=
  fold_right (fun o m => match o with Some a => Nat.max (a_hi a) m | None => m end) 0 A.

End CHECK.
