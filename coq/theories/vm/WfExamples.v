(* Non-vacuity: the verifier accepts a concrete program shaped like compiler output (store/load,
   a branch with a join, a call, a closure, a tail call) and rejects hand-broken variants. *)
From Quiver Require Import vm.Wf vm.WfProofs vm.WfRun.

(* fn0: identity-like body with a branch: store; load 0; dup; not; jmpif +2; pop; load 0; (join) *)
Definition f0 : func := {| f_caps := 0; f_code :=
  [IStore; ILoad 0; IDuplicate; INot; IJumpIf 2; IPop; ILoad 0; IReset 0] |}.
(* fn1 (1 capture): store; load 1; load 0; call; const 0; tuple 2; reset 1 *)
Definition f1 : func := {| f_caps := 1; f_code :=
  [IStore; ILoad 1; ILoad 0; ICall; IConstant 0; ITuple 2; IReset 1] |}.
(* fn2: a loop through a tail call: store; load 0; tailcall ^ *)
Definition f2 : func := {| f_caps := 0; f_code := [IStore; ILoad 0; ITailCall true] |}.
(* fn3: builds a closure of fn1 over its argument and tail-calls it: store; load 0; fn 1; load 0; rot 2; tailcall ^f *)
Definition f3 : func := {| f_caps := 0; f_code :=
  [IStore; ILoad 0; IFunction 1; ILoad 0; IRotate 2; ITailCall false] |}.

Definition prog (fs : list func) : program :=
  {| p_consts := [CInt 7%Z]; p_funcs := fs; p_tuples := [0; 0; 2]; p_nbuiltins := 1; p_ntypes := 3 |}.

Definition good_prog := prog [f0; f1; f2; f3].

Example verifier_accepts : exists As, verify_program good_prog = Some As.
Proof. vm_compute. eexists. reflexivity. Qed.

(* the accepted program satisfies the hypotheses of wf_sound *)
Example wf_sound_applies : exists As, check_program good_prog As = true /\
  Inv good_prog As (init_state 1 [VFun 0 []] (VInt 5%Z) false).
Proof.
  destruct verifier_accepts as [As H]. exists As.
  pose proof (verify_program_checked _ _ H) as HC. split; [exact HC|].
  eapply init_inv with (fd := f1); [exact HC | reflexivity | reflexivity | | exact I].
  constructor; [|constructor]. apply wfv_fun. split; [exists f0; split; reflexivity | constructor].
Qed.

(* broken variants *)
Definition rejects (fs : list func) : Prop := verify_program (prog fs) = None.

Example reject_underflow : rejects [{| f_caps := 0; f_code := [IStore; IPop] |}].
Proof. reflexivity. Qed.
Example reject_two_results : rejects [{| f_caps := 0; f_code := [IDuplicate] |}].
Proof. reflexivity. Qed.
Example reject_join_heights : rejects [{| f_caps := 0; f_code := [IDuplicate; IJumpIf 1; IDuplicate; INot] |}].
Proof. reflexivity. Qed.
Example reject_undefined_local : rejects [{| f_caps := 0; f_code := [IDuplicate; IJumpIf 1; IStore; ILoad 0; INot] |}].
Proof. reflexivity. Qed.
Example reject_jump_out : rejects [{| f_caps := 0; f_code := [IJump 5] |}].
Proof. reflexivity. Qed.
Example reject_bad_index : rejects [{| f_caps := 0; f_code := [IPop; IConstant 9] |}].
Proof. reflexivity. Qed.
Example reject_tailcall_not_in_tail_position : rejects [{| f_caps := 0; f_code := [IDuplicate; ITailCall true] |}].
Proof. reflexivity. Qed.
Example reject_rotate_zero : rejects [{| f_caps := 0; f_code := [IRotate 0] |}].
Proof. reflexivity. Qed.
