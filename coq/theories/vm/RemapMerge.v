(* RemapMerge.v — model of quiver-environment/src/environment.rs `merge_bytecode` (l.862-1002) with
   `import_type` / `import_tuple` / `import_type_value` (l.47-193), `remap_function` (l.196-234) and
   the `Program::register_*` functions it goes through (program.rs:60-172). Definitions only,
   executable, total; extracted and compared with the real function's OUTPUT (the environment's
   whole program after the merge, and the remapped entry) on every program of every run.

   E = the environment's accumulated program, B = the bytecode being merged. The result is the
   grown program (append-only, everything deduplicated structurally), the five remap tables, and
   the remapped entry. `None` = the Rust panics (index out of range, `expect`) or recurses for ever
   (an id cycle between types and tuples: the fuel, S(types + tuples) of B, runs out). *)
From Quiver Require Export vm.Remap vm.RemapShake.

Definition with_types (X : xprogram) (ts : list xtype) : xprogram :=
  {| x_consts := x_consts X; x_funcs := x_funcs X; x_tuples := x_tuples X; x_types := ts;
     x_builtins := x_builtins X; x_resources := x_resources X; x_entry := x_entry X;
     x_rows := x_rows X; x_canon := x_canon X |}.
Definition with_tuples (X : xprogram) (ts : list xtuple) : xprogram :=
  {| x_consts := x_consts X; x_funcs := x_funcs X; x_tuples := ts; x_types := x_types X;
     x_builtins := x_builtins X; x_resources := x_resources X; x_entry := x_entry X;
     x_rows := x_rows X; x_canon := x_canon X |}.
Definition with_builtins (X : xprogram) (bs : list xbuiltin) : xprogram :=
  {| x_consts := x_consts X; x_funcs := x_funcs X; x_tuples := x_tuples X; x_types := x_types X;
     x_builtins := bs; x_resources := x_resources X; x_entry := x_entry X;
     x_rows := x_rows X; x_canon := x_canon X |}.

(* program.rs:160 register_type: `types.iter().position(|t| t == &typ)` else push *)
Definition register_type (X : xprogram) (ty : xtype) : xprogram * nat :=
  match find_index (xtype_eqb ty) (x_types X) 0 with
  | Some i => (X, i)
  | None => (with_types X (x_types X ++ [ty]), length (x_types X))
  end.

Definition field_eqb (p q : option str * nat) : bool := ostr_eqb (fst p) (fst q) && Nat.eqb (snd p) (snd q).
Definition xtuple_eqb (a b : xtuple) : bool :=
  ostr_eqb (xt_name a) (xt_name b) && list_eqb field_eqb (xt_fields a) (xt_fields b).

(* program.rs:140 register_tuple: first entry with the same name and the same fields, else push *)
Definition register_tuple (X : xprogram) (a : xtuple) : xprogram * nat :=
  match find_index (xtuple_eqb a) (x_tuples X) 0 with
  | Some i => (X, i)
  | None => (with_tuples X (x_tuples X ++ [a]), length (x_tuples X))
  end.

(* program.rs:128 register_builtin_info: dedup on the NAME only *)
Definition register_builtin_info (X : xprogram) (a : xbuiltin) : xprogram * nat :=
  match find_index (fun b => str_eqb (xb_name b) (xb_name a)) (x_builtins X) 0 with
  | Some i => (X, i)
  | None => (with_builtins X (x_builtins X ++ [a]), length (x_builtins X))
  end.

(* HashMap<usize, usize> as a vector over the source ids *)
Fixpoint set_map (m : fmap) (i : nat) (v : nat) : fmap :=
  match m, i with
  | [], _ => []
  | _ :: t, O => Some v :: t
  | o :: t, S j => o :: set_map t j v
  end.

(* the state threaded through the import: the growing program and the two memo tables *)
Record mstate := { ms_prog : xprogram; ms_ty : fmap; ms_tu : fmap }.

Section IMPORT.
Variable B : xprogram.     (* the source id space: src_types = x_types B, src_tuples = x_tuples B *)

Section VALUE.
(* the two recursive entry points, one level down *)
Variable rec_ty rec_tu : mstate -> nat -> option (mstate * nat).

Fixpoint import_ids (st : mstate) (ys : list nat) : option (mstate * list nat) :=
  match ys with
  | [] => Some (st, [])
  | y :: t => match rec_ty st y with
              | Some (st1, y') => match import_ids st1 t with
                                  | Some (st2, r) => Some (st2, y' :: r)
                                  | None => None
                                  end
              | None => None
              end
  end.

Definition import_oid (st : mstate) (o : option nat) : option (mstate * option nat) :=
  match o with
  | None => Some (st, None)
  | Some y => match rec_ty st y with Some (st1, y') => Some (st1, Some y') | None => None end
  end.

(* environment.rs:47 import_type_value: children first, left to right *)
Definition import_value (st : mstate) (ty : xtype) : option (mstate * xtype) :=
  match ty with
  | TTuple t => match rec_tu st t with Some (st1, t') => Some (st1, TTuple t') | None => None end
  | TPartial n fs =>
      match import_ids st (map snd fs) with
      | Some (st1, ys) => Some (st1, TPartial n (combine (map fst fs) ys))
      | None => None
      end
  | TUnion ys => match import_ids st ys with Some (st1, r) => Some (st1, TUnion r) | None => None end
  | TCallable p r c =>
      match rec_ty st p with
      | Some (st1, p') => match rec_ty st1 r with
                          | Some (st2, r') => match rec_ty st2 c with
                                              | Some (st3, c') => Some (st3, TCallable p' r' c')
                                              | None => None
                                              end
                          | None => None
                          end
      | None => None
      end
  | TProcess s r =>
      match import_oid st s with
      | Some (st1, s') => match import_oid st1 r with
                          | Some (st2, r') => Some (st2, TProcess s' r')
                          | None => None
                          end
      | None => None
      end
  | other => Some (st, other)
  end.
End VALUE.

(* environment.rs:131 import_type, :159 import_tuple — memoised, dependencies before the node *)
Fixpoint import_type (fuel : nat) (st : mstate) (y : nat) {struct fuel} : option (mstate * nat) :=
  match fuel with
  | O => None
  | S k =>
      match app (ms_ty st) y with
      | Some y' => Some (st, y')
      | None =>
          match nth_error (x_types B) y with
          | None => None
          | Some ty =>
              match import_value (import_type k) (import_tuple k) st ty with
              | None => None
              | Some (st1, ty') =>
                  match app (ms_ty st1) y with
                  | Some _ => None     (* y reached itself through its own children: an id cycle; the
                                          real code never gets here, it recurses until the stack overflows *)
                  | None =>
                      let (E2, y') := register_type (ms_prog st1) ty' in
                      Some ({| ms_prog := E2; ms_ty := set_map (ms_ty st1) y y'; ms_tu := ms_tu st1 |}, y')
                  end
              end
          end
      end
  end
with import_tuple (fuel : nat) (st : mstate) (t : nat) {struct fuel} : option (mstate * nat) :=
  match fuel with
  | O => None
  | S k =>
      match app (ms_tu st) t with
      | Some t' => Some (st, t')
      | None =>
          match nth_error (x_tuples B) t with
          | None => None
          | Some a =>
              match import_ids (import_type k) st (map snd (xt_fields a)) with
              | None => None
              | Some (st1, ys) =>
                  match app (ms_tu st1) t with
                  | Some _ => None     (* id cycle, as above *)
                  | None =>
                      let (E2, t') := register_tuple (ms_prog st1)
                                        {| xt_name := xt_name a; xt_fields := combine (map fst (xt_fields a)) ys |} in
                      Some ({| ms_prog := E2; ms_ty := ms_ty st1; ms_tu := set_map (ms_tu st1) t t' |}, t')
                  end
              end
          end
      end
  end.

Definition import_fuel : nat := S (length (x_types B) + length (x_tuples B)).

(* l.890-909: every type index, then every tuple index *)
Fixpoint import_all_types (st : mstate) (ys : list nat) : option mstate :=
  match ys with
  | [] => Some st
  | y :: t => match import_type import_fuel st y with Some (st1, _) => import_all_types st1 t | None => None end
  end.
Fixpoint import_all_tuples (st : mstate) (ts : list nat) : option mstate :=
  match ts with
  | [] => Some st
  | t :: r => match import_tuple import_fuel st t with Some (st1, _) => import_all_tuples st1 r | None => None end
  end.

End IMPORT.

(* l.880-883: constants in order through register_constant *)
Fixpoint merge_consts (E : xprogram) (cs : list xconst) : xprogram * list nat :=
  match cs with
  | [] => (E, [])
  | c :: t => let (E1, k) := register_constant E c in
              let (E2, r) := merge_consts E1 t in (E2, k :: r)
  end.

(* l.912-921: builtins with their type ids through `remap_type_id` (unwrap_or), dedup by name *)
Fixpoint merge_builtins (ry : fmap) (E : xprogram) (bs : list xbuiltin) : xprogram * list nat :=
  match bs with
  | [] => (E, [])
  | a :: t =>
      let (E1, b) := register_builtin_info E
                       {| xb_name := xb_name a; xb_param := get_or ry (xb_param a); xb_result := get_or ry (xb_result a) |} in
      let (E2, r) := merge_builtins ry E1 t in (E2, b :: r)
  end.

(* environment.rs:196 remap_function: five operand kinds through `unwrap_or`; Process(pid, f) is
   NOT touched *)
Definition merge_instr (rc rf rt ry rb : fmap) (i : instr) : instr :=
  match i with
  | IConstant k => IConstant (get_or rc k)
  | IFunction f => IFunction (get_or rf f)
  | IBuiltin b => IBuiltin (get_or rb b)
  | ITuple t => ITuple (get_or rt t)
  | IIsType y => IIsType (get_or ry y)
  | other => other
  end.

(* l.924-936: functions in order; function_remap holds only the functions already merged *)
Fixpoint merge_funcs (rc rt ry rb : fmap) (E : xprogram) (rf : list nat) (fs : list xfunc) : xprogram * list nat :=
  match fs with
  | [] => (E, rf)
  | fd :: t =>
      let rfm := map Some rf in
      let (E1, f') := register_function E
                        {| xf_code := map (merge_instr rc rfm rt ry rb) (xf_code fd); xf_caps := xf_caps fd;
                           xf_type := get_or ry (xf_type fd) |} in
      merge_funcs rc rt ry rb E1 (rf ++ [f']) t
  end.

(* program.rs:190 collect_resource_names: names of the Resource types, first occurrence order *)
Fixpoint collect_resource_names (ts : list xtype) (acc : list str) : list str :=
  match ts with
  | [] => acc
  | TResource n :: t => if existsb (str_eqb n) acc then collect_resource_names t acc
                        else collect_resource_names t (acc ++ [n])
  | _ :: t => collect_resource_names t acc
  end.

(* new id -> old id, built from the total map old -> new (last writer wins; it is checked, not assumed,
   to be an inverse) *)
Fixpoint invert_from (i : nat) (m : list nat) (acc : fmap) : fmap :=
  match m with
  | [] => acc
  | j :: t => invert_from (S i) t (set_map acc j i)
  end.

Definition merge (E B : xprogram) : option (xprogram * renaming) :=
  let (E1, rc) := merge_consts E (x_consts B) in
  let st0 := {| ms_prog := E1; ms_ty := repeat None (length (x_types B)); ms_tu := repeat None (length (x_tuples B)) |} in
  match import_all_types B st0 (seq 0 (length (x_types B))) with
  | None => None
  | Some st1 =>
      match import_all_tuples B st1 (seq 0 (length (x_tuples B))) with
      | None => None
      | Some st2 =>
          let ry := ms_ty st2 in
          let rt := ms_tu st2 in
          let (E3, rb) := merge_builtins ry (ms_prog st2) (x_builtins B) in
          let (E4, rf) := merge_funcs (map Some rc) rt ry (map Some rb) E3 [] (x_funcs B) in
          match nth_error rf (x_entry B) with
          | None => None                    (* expect("Entry function should be in remap table") *)
          | Some e =>
              let names := collect_resource_names (x_types E4) [] in
              let E5 := {| x_consts := x_consts E4; x_funcs := x_funcs E4; x_tuples := x_tuples E4;
                           x_types := x_types E4; x_builtins := x_builtins E4; x_resources := names;
                           x_entry := e; x_rows := []; x_canon := [] |} in
              Some (E5,
                    {| r_c := map Some rc; r_f := map Some rf; r_t := rt; r_y := ry; r_b := map Some rb;
                       r_r := map (fun n => find_index (str_eqb n) names 0) (x_resources B);
                       i_f := invert_from 0 rf (repeat None (length (x_funcs E4)));
                       i_b := invert_from 0 rb (repeat None (length (x_builtins E4))) |})
          end
      end
  end.

(* ------------------------------------------------------------------ the premises of the merge theorem
   (decidable; computed on every real merge of every run) *)

(* the compiler registers a function before anything refers to it: `Function(g)` inside function f
   has g < f (remap_function would leave a forward reference unmapped) *)
Fixpoint back_from (f : nat) (fs : list xfunc) : bool :=
  match fs with
  | [] => true
  | fd :: t => forallb (fun i => match i with IFunction g => g <? f | _ => true end) (xf_code fd) && back_from (S f) t
  end.
Definition backward_refs (B : xprogram) : bool := back_from 0 (x_funcs B).

(* `Process(pid, f)` only arises on REPL lines, with f already in the environment's id space *)
Definition no_process (B : xprogram) : bool :=
  forallb (fun fd => forallb (fun i => match i with IProcess _ _ => false | _ => true end) (xf_code fd)) (x_funcs B).

Definition merge_premises (rho : renaming) (B E' : xprogram) : bool :=
  backward_refs B && no_process B &&
  (* NIL and OK head both tuple tables, nothing else is shared with NIL *)
  maps_to (r_t rho) NIL NIL && maps_to (r_t rho) OK OK &&
  forall_map (r_t rho) (fun t t' => if Nat.eqb t' NIL then Nat.eqb t NIL else true) &&
  (* a builtin of the same name already known to the environment has the same (imported) signature *)
  forall_map (r_b rho) (chk_builtin rho B E') &&
  (* dedup never identifies two functions / builtins of B (B's own tables are deduplicated) *)
  forall_map (r_f rho) (fun f f' => maps_to (i_f rho) f' f) &&
  forall_map (r_b rho) (fun b b' => maps_to (i_b rho) b' b).
