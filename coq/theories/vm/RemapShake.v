(* RemapShake.v — model of quiver-core/src/optimisation.rs `tree_shake` (definitions only,
   executable, total; extracted and compared with the real function's OUTPUT on every program of
   every run — exact equality of the dumped Bytecode).

   Mirrored structure (optimisation.rs line numbers at /repo HEAD):
     * mark phase (l.130-258): NIL and OK tuples always; every function reachable from the entry
       through `Function` / `Process` operands; per reached function its type id, the constants,
       tuples, tested types and builtins its instructions name; for `Tuple(id)` ALSO the first
       `Type::Tuple(id)` entry of the type table (l.197-211, what keeps run-time type tests on
       constructed tuples meaningful); per used builtin its parameter and result types; and the
       closure of all of that under "a type mentions types and tuples, a tuple mentions its field
       types" — `collect_type_refs` / `collect_tuple_refs` (l.14-128), including all three
       components of `Type::Callable` (parameter, result, RECEIVE) and both of `Type::Process`.
       The code walks functions breadth-first with a queue and types/tuples depth-first with the
       insert-guard; what it keeps is the resulting SETS (they are sorted before use, l.261-299),
       so the model computes the same sets by one guarded depth-first walk over a single node
       type; the walk order is not observable.
     * remap tables (l.261-299): old id -> rank among the kept ids, per table.
     * emission (l.302-437): kept entries in increasing old-id order; instruction operands through
       `remap.get(id).unwrap()` (a miss panics: `None` here), type ids inside types / tuples /
       builtins / function headers through `unwrap_or(id)`; resources = sorted kept resource names. *)
From Quiver Require Export vm.Remap.

(* ------------------------------------------------------------------ well-formed input *)
Section WF.
Variable X : xprogram.
Let nc := length (x_consts X).
Let nf := length (x_funcs X).
Let nt := length (x_tuples X).
Let ny := length (x_types X).
Let nb := length (x_builtins X).

Definition instr_ids_ok (i : instr) : bool :=
  match i with
  | IConstant k => k <? nc
  | ITuple t => t <? nt
  | IIsType y => y <? ny
  | IFunction f => f <? nf
  | IBuiltin b => b <? nb
  | IProcess _ f => f <? nf
  | _ => true
  end.

Definition oid_ok (o : option nat) : bool := match o with Some y => y <? ny | None => true end.

Definition type_ids_ok (ty : xtype) : bool :=
  match ty with
  | TTuple t => t <? nt
  | TPartial _ fs => forallb (fun p => snd p <? ny) fs
  | TCallable p r c => (p <? ny) && (r <? ny) && (c <? ny)
  | TUnion ys => forallb (fun y => y <? ny) ys
  | TProcess s r => oid_ok s && oid_ok r
  | _ => true
  end.

(* every id mentioned anywhere is in range; NIL and OK exist; the entry exists *)
Definition wf_program : bool :=
  (2 <=? nt) && (x_entry X <? nf) &&
  forallb (fun fd => forallb instr_ids_ok (xf_code fd) && (xf_type fd <? ny)) (x_funcs X) &&
  forallb (fun t => forallb (fun p => snd p <? ny) (xt_fields t)) (x_tuples X) &&
  forallb type_ids_ok (x_types X) &&
  forallb (fun b => (xb_param b <? ny) && (xb_result b <? ny)) (x_builtins X).
End WF.

(* ------------------------------------------------------------------ mark phase *)

(* the five `used_*` HashSets as characteristic vectors over the tables *)
Record marks := { m_c : list bool; m_f : list bool; m_t : list bool; m_y : list bool; m_b : list bool }.

Inductive node := NC (k : nat) | NF (f : nat) | NT (t : nat) | NY (y : nat) | NB (b : nat).

Fixpoint set_true (l : list bool) (i : nat) : list bool :=
  match l, i with
  | [], _ => []
  | _ :: t, O => true :: t
  | b :: t, S j => b :: set_true t j
  end.

Definition mem (n : node) (m : marks) : bool :=
  match n with
  | NC k => nthb (m_c m) k | NF f => nthb (m_f m) f | NT t => nthb (m_t m) t
  | NY y => nthb (m_y m) y | NB b => nthb (m_b m) b
  end.

Definition ins (n : node) (m : marks) : marks :=
  match n with
  | NC k => {| m_c := set_true (m_c m) k; m_f := m_f m; m_t := m_t m; m_y := m_y m; m_b := m_b m |}
  | NF f => {| m_c := m_c m; m_f := set_true (m_f m) f; m_t := m_t m; m_y := m_y m; m_b := m_b m |}
  | NT t => {| m_c := m_c m; m_f := m_f m; m_t := set_true (m_t m) t; m_y := m_y m; m_b := m_b m |}
  | NY y => {| m_c := m_c m; m_f := m_f m; m_t := m_t m; m_y := set_true (m_y m) y; m_b := m_b m |}
  | NB b => {| m_c := m_c m; m_f := m_f m; m_t := m_t m; m_y := m_y m; m_b := set_true (m_b m) b |}
  end.

Section MARK.
Variable X : xprogram.

(* optimisation.rs:199  types.iter().position(|t| matches!(t, Type::Tuple(tid) if *tid == *id)) *)
Definition first_tuple_type (t : nat) : option nat :=
  find_index (fun ty => match ty with TTuple u => Nat.eqb u t | _ => false end) (x_types X) 0.

Definition oid_nodes (o : option nat) : list node := match o with Some y => [NY y] | None => [] end.

(* optimisation.rs:180-232: what one instruction of a reached function marks *)
Definition instr_children (i : instr) : list node :=
  match i with
  | IFunction g => [NF g]
  | IConstant k => [NC k]
  | ITuple t => NT t :: match first_tuple_type t with Some p => [NY p] | None => [] end
  | IIsType y => [NY y]
  | IBuiltin b => [NB b]
  | IProcess _ g => [NF g]
  | _ => []
  end.

(* what marking one item makes the walk visit next *)
Definition children (n : node) : list node :=
  match n with
  | NC _ => []
  | NF f => match nth_error (x_funcs X) f with
            | Some fd => NY (xf_type fd) :: flat_map instr_children (xf_code fd)      (* l.170-178, 180-232 *)
            | None => []
            end
  | NT t => match nth_error (x_tuples X) t with
            | Some a => map (fun p => NY (snd p)) (xt_fields a)                       (* collect_tuple_refs l.116-127 *)
            | None => []
            end
  | NY y => match nth_error (x_types X) y with                                        (* collect_type_refs l.30-97 *)
            | Some (TTuple t) => [NT t]
            | Some (TPartial _ fs) => map (fun p => NY (snd p)) fs
            | Some (TCallable p r c) => [NY p; NY r; NY c]
            | Some (TUnion ys) => map NY ys
            | Some (TProcess s r) => oid_nodes s ++ oid_nodes r
            | _ => []
            end
  | NB b => match nth_error (x_builtins X) b with
            | Some a => [NY (xb_param a); NY (xb_result a)]                           (* l.238-258 *)
            | None => []
            end
  end.

(* the guarded walk: `if !used.insert(id) { return }` then recurse into what the item mentions.
   `fuel` bounds the nesting depth; S(number of table entries) is always enough (RemapShakeProofs). *)
Fixpoint walk (fuel : nat) (n : node) (m : marks) : marks :=
  match fuel with
  | O => m
  | S k => if mem n m then m else fold_left (fun m c => walk k c m) (children n) (ins n m)
  end.

Definition no_marks : marks :=
  {| m_c := repeat false (length (x_consts X)); m_f := repeat false (length (x_funcs X));
     m_t := repeat false (length (x_tuples X)); m_y := repeat false (length (x_types X));
     m_b := repeat false (length (x_builtins X)) |}.

Definition table_size : nat :=
  length (x_consts X) + length (x_funcs X) + length (x_tuples X) + length (x_types X) + length (x_builtins X).

(* l.139-156: NIL, OK; l.159-235: the entry *)
Definition shake_marks : marks :=
  let fuel := S table_size in
  walk fuel (NF (x_entry X)) (walk fuel (NT OK) (walk fuel (NT NIL) no_marks)).

End MARK.

(* ------------------------------------------------------------------ remap tables and emission *)

(* l.261-299: sorted kept ids, enumerate() -> old id |-> new id *)
Fixpoint dense (mask : list bool) (next : nat) : fmap :=
  match mask with
  | [] => []
  | true :: m => Some next :: dense m (S next)
  | false :: m => None :: dense m next
  end.

(* the kept old ids in increasing order (`sorted_*`) *)
Fixpoint pos_from (base : nat) (mask : list bool) : list nat :=
  match mask with
  | [] => []
  | true :: m => base :: pos_from (S base) m
  | false :: m => pos_from (S base) m
  end.

(* the kept entries in increasing old-id order *)
Fixpoint select {A} (mask : list bool) (l : list A) : list A :=
  match mask, l with
  | b :: m, x :: t => if b then x :: select m t else select m t
  | _, _ => []
  end.

(* `*remap.get(id).unwrap_or(id)` *)
Definition get_or (m : fmap) (i : nat) : nat := match app m i with Some j => j | None => i end.

(* l.301-337 remap_type *)
Definition ren_type_or (rho : renaming) (ty : xtype) : xtype :=
  match ty with
  | TTuple t => TTuple (get_or (r_t rho) t)
  | TPartial n fs => TPartial n (map (fun p => (fst p, get_or (r_y rho) (snd p))) fs)
  | TCallable p r c => TCallable (get_or (r_y rho) p) (get_or (r_y rho) r) (get_or (r_y rho) c)
  | TUnion ys => TUnion (map (get_or (r_y rho)) ys)
  | TProcess s r => TProcess (option_map (get_or (r_y rho)) s) (option_map (get_or (r_y rho)) r)
  | other => other
  end.

(* l.340-380: instruction operands through `.unwrap()` (= ren_instr, None on a miss) *)
Definition shake_fun (rho : renaming) (fd : xfunc) : option xfunc :=
  match map_opt (ren_instr rho) (xf_code fd) with
  | Some code => Some {| xf_code := code; xf_caps := xf_caps fd; xf_type := get_or (r_y rho) (xf_type fd) |}
  | None => None
  end.

(* l.389-405 *)
Definition shake_tuple (rho : renaming) (a : xtuple) : xtuple :=
  {| xt_name := xt_name a; xt_fields := map (fun p => (fst p, get_or (r_y rho) (snd p))) (xt_fields a) |}.

(* l.408-423 *)
Definition shake_builtin (rho : renaming) (a : xbuiltin) : xbuiltin :=
  {| xb_name := xb_name a; xb_param := get_or (r_y rho) (xb_param a); xb_result := get_or (r_y rho) (xb_result a) |}.

(* String order (bytes) *)
Fixpoint str_ltb (a b : str) : bool :=
  match a, b with
  | [], [] => false
  | [], _ :: _ => true
  | _ :: _, [] => false
  | x :: a', y :: b' => if Z.ltb x y then true else if Z.ltb y x then false else str_ltb a' b'
  end.

(* HashSet<String> -> Vec -> sort() (l.293-295) *)
Fixpoint insert_sorted (n : str) (l : list str) : list str :=
  match l with
  | [] => [n]
  | h :: t => if str_eqb n h then l else if str_ltb n h then n :: l else h :: insert_sorted n t
  end.

Definition used_resources (X : xprogram) (m : marks) : list str :=
  fold_right insert_sorted []
    (flat_map (fun ty => match ty with TResource n => [n] | _ => [] end) (select (m_y m) (x_types X))).

Definition shake_rho (X : xprogram) : renaming :=
  let m := shake_marks X in
  let out := used_resources X m in
  {| r_c := dense (m_c m) 0; r_f := dense (m_f m) 0; r_t := dense (m_t m) 0; r_y := dense (m_y m) 0;
     r_b := dense (m_b m) 0;
     r_r := map (fun n => find_index (str_eqb n) out 0) (x_resources X);
     i_f := map Some (pos_from 0 (m_f m)); i_b := map Some (pos_from 0 (m_b m)) |}.

(* optimisation.rs:7 tree_shake(bytecode, entry) with entry = bytecode.entry (program.rs:220
   to_bytecode_optimized). None = a Rust panic (`.unwrap()` on a missing remap entry). The run-time
   tables (rows, canonical ids) are not part of a Bytecode: every loader recomputes them. *)
Definition tree_shake (X : xprogram) : option xprogram :=
  let m := shake_marks X in
  let rho := shake_rho X in
  match map_opt (shake_fun rho) (select (m_f m) (x_funcs X)), app (r_f rho) (x_entry X) with
  | Some fs, Some e =>
      Some {| x_consts := select (m_c m) (x_consts X);
              x_funcs := fs;
              x_tuples := map (shake_tuple rho) (select (m_t m) (x_tuples X));
              x_types := map (ren_type_or rho) (select (m_y m) (x_types X));
              x_builtins := map (shake_builtin rho) (select (m_b m) (x_builtins X));
              x_resources := used_resources X m;
              x_entry := e;
              x_rows := [];
              x_canon := [] |}
  | _, _ => None
  end.

(* a Bytecode as a loader sees it: its rows are whatever compute_type_compatibility yields (given),
   its canonical ids are compute_canonical_tuples of its tuple table *)
Definition loaded (Y : xprogram) (rows : list (option row)) : xprogram :=
  {| x_consts := x_consts Y; x_funcs := x_funcs Y; x_tuples := x_tuples Y; x_types := x_types Y;
     x_builtins := x_builtins Y; x_resources := x_resources Y; x_entry := x_entry Y;
     x_rows := rows; x_canon := Equal.compute_canonical (map shape_info (x_tuples Y)) |}.
