(* RemapInject.v — program.rs:228 inject_function_captures (through program.rs:271
   value_to_instructions; model: vm/Remap.v `emit_injected`): what `quiv compile` does to an entry
   function that captured values. The closure `VFun f caps` becomes the capture-free function
   f' whose body is  [code rebuilding capture 1; Store; ...; code rebuilding capture n; Store] ++ body of f.
   Proved here: entering f' and running that prefix leaves exactly `caps` as the frame's locals and
   the argument untouched — the state a call of the original closure starts its body in (up to the
   function index, the capture count recorded in the frame, and the pc offset |prefix|; jumps are
   relative, so the body runs unchanged). Captures that are themselves closures WITH captures are
   injected recursively by the code; the theorem covers captures without such nested closures. *)
From Quiver Require Import vm.Remap vm.RemapProofs.

Section INJECT.
Variable bytes_of : nat -> list Z.

(* no closure with captures inside *)
Inductive flat : value -> Prop :=
| FL_int z : flat (VInt z)
| FL_bin h : flat (VBin h)
| FL_tuple t fs : Forall flat fs -> flat (VTuple t fs)
| FL_fun f : flat (VFun f [])
| FL_builtin b : flat (VBuiltin b).

Fixpoint inj_list (l : list value) (X : xprogram) : option (xprogram * list instr) :=
  match l with
  | [] => Some (X, [])
  | e :: l' => match emit_injected bytes_of e X with
               | Some (X1, i1) => match inj_list l' X1 with
                                  | Some (X2, i2) => Some (X2, i1 ++ i2)
                                  | None => None
                                  end
               | None => None
               end
  end.

Fixpoint inj_caps (l : list value) (X : xprogram) : option (xprogram * list instr) :=
  match l with
  | [] => Some (X, [])
  | e :: l' => match emit_injected bytes_of e X with
               | Some (X1, i1) => match inj_caps l' X1 with
                                  | Some (X2, i2) => Some (X2, i1 ++ IStore :: i2)
                                  | None => None
                                  end
               | None => None
               end
  end.

Lemma emit_injected_tuple t fs X :
  emit_injected bytes_of (VTuple t fs) X =
  match inj_list fs X with Some (X1, is) => Some (X1, is ++ [ITuple t]) | None => None end.
Proof.
  cbn [emit_injected].
  match goal with |- match ?a with _ => _ end = match ?b with _ => _ end => assert (E : a = b) end.
  { revert X. induction fs as [|e l IH]; intros X; cbn [inj_list]; [reflexivity|].
    destruct (emit_injected bytes_of e X) as [[X1 i1]|]; [|reflexivity]. rewrite IH. reflexivity. }
  rewrite E. reflexivity.
Qed.

Lemma emit_injected_closure f c cs X :
  emit_injected bytes_of (VFun f (c :: cs)) X =
  match inj_caps (c :: cs) X with
  | Some (X1, pre) =>
      match nth_error (x_funcs X1) f with
      | Some fd =>
          let (X2, f') := register_function X1 {| xf_code := pre ++ xf_code fd; xf_caps := 0; xf_type := xf_type fd |} in
          Some (X2, [IFunction f'])
      | None => None
      end
  | None => None
  end.
Proof.
  cbn [emit_injected inj_caps].
  destruct (emit_injected bytes_of c X) as [[X1 i1]|]; [|reflexivity].
  assert (E : forall l Z,
    (fix go (l : list value) (X : xprogram) {struct l} : option (xprogram * list instr) :=
       match l with
       | [] => Some (X, [])
       | e :: l' => match emit_injected bytes_of e X with
                    | Some (X1, i1) => match go l' X1 with
                                       | Some (X2, i2) => Some (X2, i1 ++ IStore :: i2)
                                       | None => None
                                       end
                    | None => None
                    end
       end) l Z = inj_caps l Z).
  { induction l as [|e l IH]; intros Z; cbn [inj_caps]; [reflexivity|].
    destruct (emit_injected bytes_of e Z) as [[Z1 j1]|]; [|reflexivity]. rewrite IH. reflexivity. }
  rewrite E. reflexivity.
Qed.

(* on flat, well-formed values both emitters agree *)
Lemma flat_same v : flat v -> forall X, wfx X v -> emit_injected bytes_of v X = emit_cached bytes_of v X.
Proof.
  induction v as [z|h|r|t fs IH|f cs IH|b|pp f|r ty] using value_rect'; intros Hf X Hw; inversion Hf; subst; try reflexivity.
  - rewrite emit_injected_tuple, (emit_cached_tuple bytes_of).
    inversion Hw as [| |t0 fs0 a Ha Har Hfs| |]; subst.
    assert (E : inj_list fs X = emit_list bytes_of fs X).
    { clear Ha Har Hw Hf. revert X Hfs. induction fs as [|e l IHl]; intros X Hfs; [reflexivity|].
      cbn [inj_list emit_list]. inversion IH as [|? ? IHe IHrest]; subst. inversion H0 as [|? ? Fe Fl]; subst.
      inversion Hfs as [|? ? We Wl]; subst. rewrite (IHe Fe X We).
      destruct (emit_cached bytes_of e X) as [[X1 i1]|] eqn:Ee; [|reflexivity].
      destruct (emit_cached_pushes bytes_of e X X1 i1 Ee We) as [Ext _].
      rewrite (IHl IHrest Fl X1); [reflexivity|].
      rewrite Forall_forall in *. intros y Hy. eapply wfx_ext; eauto. }
    rewrite E. reflexivity.
  - cbn [emit_injected emit_cached]. inversion Hw as [| | |f0 cs0 fd0 Hfd _ _|]; subst. rewrite Hfd. reflexivity.
  - cbn [emit_injected emit_cached]. inversion Hw as [| | | |b0 Hb]; subst.
    apply Nat.ltb_lt in Hb. rewrite Hb. reflexivity.
Qed.

Definition caps_inputs (l : list value) : list ext := flat_map (fun c => emit_inputs c ++ [quiet]) l.

(* the prefix: each capture is rebuilt and stored *)
Lemma inj_caps_runs l : forall X X1 pre, inj_caps l X = Some (X1, pre) -> Forall flat l -> Forall (wfx X) l ->
  extends X X1 /\
  forall Y, extends X1 Y ->
  forall fn fd pre0 post st lo base caps rest pers,
    nth_error (x_funcs Y) fn = Some fd -> xf_code fd = pre0 ++ pre ++ post ->
    run (project Y) (at_pc st lo fn base caps (length pre0) rest pers) (caps_inputs l) =
    Next (at_pc st (lo ++ l) fn base caps (length pre0 + length pre) rest pers).
Proof.
  induction l as [|e l IH]; intros X X1 pre He Hf Hw; cbn [inj_caps] in He.
  - inv He. split; [apply extends_refl|]. intros. cbn. rewrite Nat.add_0_r, app_nil_r. reflexivity.
  - inversion Hf as [|? ? Fe Fl]; subst. inversion Hw as [|? ? We Wl]; subst.
    rewrite (flat_same e Fe X We) in He.
    destruct (emit_cached bytes_of e X) as [[Xa ia]|] eqn:Ea; [|discriminate].
    destruct (inj_caps l Xa) as [[Xb ib]|] eqn:Eb; [|discriminate]. inv He.
    destruct (emit_cached_pushes bytes_of e X Xa ia Ea We) as [Ext1 P1].
    assert (Wl' : Forall (wfx Xa) l) by (rewrite Forall_forall in *; intros y Hy; eapply wfx_ext; eauto).
    destruct (IH _ _ _ Eb Fl Wl') as [Ext2 P2].
    split; [eapply extends_trans; eauto|].
    intros Y HY fn fd pre0 post st lo base caps rest pers Hfd Hc.
    unfold caps_inputs. cbn [flat_map]. rewrite <- app_assoc. rewrite run_app.
    assert (HYa : extends Xa Y) by (eapply extends_trans; eauto).
    rewrite (P1 Y HYa fn fd pre0 (IStore :: ib ++ post) st lo base caps rest pers Hfd)
      by (rewrite Hc, <- app_assoc; reflexivity).
    cbn [rev Datatypes.app run].
    (* the Store *)
    assert (Hc2 : xf_code fd = (pre0 ++ ia) ++ IStore :: ib ++ post) by (rewrite Hc, <- !app_assoc; reflexivity).
    destruct (step_at Y fn fd (pre0 ++ ia) IStore (ib ++ post) Hfd Hc2) as [C N].
    rewrite app_length in N.
    unfold at_pc. unfold step at 1; cbn [frames fr_fn fr_pc stack]. rewrite C, N.
    cbn [bump with_stack frames stack locals persistent]. unfold set_pc. cbn [fr_fn fr_base fr_caps fr_pc].
    (* the rest of the prefix *)
    assert (Hc3 : xf_code fd = (pre0 ++ ia ++ [IStore]) ++ ib ++ post) by (rewrite Hc, <- !app_assoc; reflexivity).
    pose proof (P2 Y HY fn fd (pre0 ++ ia ++ [IStore]) post st (lo ++ [e]) base caps rest pers Hfd Hc3) as G.
    rewrite !app_length in G. cbn [length] in G.
    fold (caps_inputs l).
    replace (S (length pre0 + length ia)) with (length pre0 + (length ia + 1)) by lia.
    unfold at_pc in G |- *. rewrite G. rewrite <- app_assoc. cbn [Datatypes.app].
    rewrite !app_length. cbn [length].
    replace (length pre0 + (length ia + 1) + length ib) with (length pre0 + (length ia + S (length ib))) by lia. reflexivity.
Qed.

Lemma instr_eqb_refl_eq a b : list_eqb instr_eqb a b = true -> a = b.
Proof. apply list_eqb_eq. apply instr_eqb_eq. Qed.

Lemma xfunc_eqb_eq a b : xfunc_eqb a b = true -> a = b.
Proof.
  unfold xfunc_eqb. intros H. apply andb_true_iff in H as [H H3]. apply andb_true_iff in H as [H1 H2].
  apply instr_eqb_refl_eq in H1. apply Nat.eqb_eq in H2. apply Nat.eqb_eq in H3.
  destruct a, b; cbn in *; congruence.
Qed.

(* program.rs:75 register_function returns an index that holds the function, and only appends *)
Lemma register_function_spec X fd X1 k : register_function X fd = (X1, k) ->
  extends X X1 /\ nth_error (x_funcs X1) k = Some fd.
Proof.
  unfold register_function. destruct (find_index (xfunc_eqb fd) (x_funcs X) 0) as [i|] eqn:E; intros H; inv H.
  - split; [apply extends_refl|]. apply find_index_spec in E. destruct E as (x & Hx & Hp & _).
    rewrite Nat.sub_0_r in Hx. apply xfunc_eqb_eq in Hp. congruence.
  - split.
    + repeat split; cbn; try apply prefix_refl. exists [fd]. reflexivity.
    + cbn [with_funcs x_funcs]. rewrite nth_error_app2 by lia. rewrite Nat.sub_diag. reflexivity.
Qed.

End INJECT.

(* inject_function_captures: the closure is re-emitted as `Function(f')` of a capture-free function
   whose body is a prefix followed by the original body; entering f' on any argument and running
   the prefix yields the captures as the frame's locals, argument still on the stack, pc at the
   start of the original body. *)
Theorem inject_rebuilds_captures bytes_of f c cs X X2 code :
  Forall flat (c :: cs) -> Forall (wfx X) (c :: cs) ->
  emit_injected bytes_of (VFun f (c :: cs)) X = Some (X2, code) ->
  exists f' fd fd' pre,
    code = [IFunction f'] /\ nth_error (x_funcs X2) f' = Some fd' /\ nth_error (x_funcs X2) f = Some fd /\
    xf_code fd' = pre ++ xf_code fd /\ xf_caps fd' = 0 /\ xf_type fd' = xf_type fd /\
    forall Y, extends X2 Y -> forall arg st lo base rest pers,
      run (project Y) (at_pc (arg :: st) lo f' base 0 0 rest pers) (caps_inputs (c :: cs)) =
      Next (at_pc (arg :: st) (lo ++ c :: cs) f' base 0 (length pre) rest pers).
Proof.
  intros Hf Hw He. rewrite emit_injected_closure in He.
  destruct (inj_caps bytes_of (c :: cs) X) as [[X1 pre]|] eqn:Ec; [|discriminate].
  destruct (nth_error (x_funcs X1) f) as [fd|] eqn:Efd; [|discriminate].
  destruct (register_function X1 _) as [X2' f'] eqn:Er. inv He.
  destruct (register_function_spec _ _ _ _ Er) as [Ext2 Hf'].
  destruct (inj_caps_runs bytes_of _ _ _ _ Ec Hf Hw) as [Ext1 Run].
  exists f', fd, {| xf_code := pre ++ xf_code fd; xf_caps := 0; xf_type := xf_type fd |}, pre.
  repeat split; auto.
  - destruct Ext2 as (_ & F & _). eapply prefix_nth; eauto.
  - intros Y HY arg st lo base rest pers.
    assert (HY1 : extends X1 Y) by (eapply extends_trans; eauto).
    assert (Hfy : nth_error (x_funcs Y) f' = Some {| xf_code := pre ++ xf_code fd; xf_caps := 0; xf_type := xf_type fd |}).
    { destruct HY as (_ & F & _). eapply prefix_nth; eauto. }
    exact (Run Y HY1 f' _ [] (xf_code fd) (arg :: st) lo base 0 rest pers Hfy eq_refl).
Qed.

(* non-vacuity: the closure of RemapProofs.Examples (captures 5 and a binary) is injected as the
   capture-free function 2 whose body stores both captures before the original body *)
Example ex_inject :
  match emit_injected Examples.ex_bytes (VFun 0 [VInt 5; VBin 9]) Examples.exM with
  | Some (X2, code) =>
      code = [IFunction 2] /\
      option_map xf_code (nth_error (x_funcs X2) 2) = Some [IConstant 0; IStore; IConstant 1; IStore; IPop; ILoad 0] /\
      run (project X2) (at_pc [VInt 1] [] 2 0 0 0 [] false) (caps_inputs [VInt 5; VBin 9]) =
      Next (at_pc [VInt 1] [VInt 5; VBin 9] 2 0 0 4 [] false)
  | None => False
  end.
Proof. vm_compute. repeat split. Qed.
