(* Tables.v — well-formedness of a program's tables (the "every constant/tuple/type/function/
   builtin index is in range" clause of C07 for indices that occur INSIDE tables rather than in
   instructions): every type id mentioned by a type, a tuple field, a builtin signature or a
   function's type, and every tuple id mentioned by a type, exists. *)
From Quiver Require Export vm.Bytecode.

Record tables := {
  tb_types : list (list nat * list nat);   (* per type: type ids, tuple ids it mentions *)
  tb_tuples : list (list nat);             (* per tuple: field type ids *)
  tb_builtins : list (nat * nat);          (* per builtin: param, result type id *)
  tb_fn_types : list nat;                  (* per function: its callable type id *)
}.

Definition all_lt (n : nat) (l : list nat) : bool := forallb (fun x => x <? n) l.

Definition tables_ok (t : tables) : bool :=
  let nty := length (tb_types t) in
  let ntu := length (tb_tuples t) in
  forallb (fun e => all_lt nty (fst e) && all_lt ntu (snd e)) (tb_types t) &&
  forallb (all_lt nty) (tb_tuples t) &&
  forallb (fun b => (fst b <? nty) && (snd b <? nty)) (tb_builtins t) &&
  all_lt nty (tb_fn_types t).

(* what acceptance means, spelled out *)
Lemma all_lt_spec n l : all_lt n l = true <-> forall x, In x l -> x < n.
Proof.
  unfold all_lt. rewrite forallb_forall. split; intros H x Hx; specialize (H x Hx).
  - apply Nat.ltb_lt; exact H.
  - apply Nat.ltb_lt; exact H.
Qed.

Theorem tables_ok_spec t : tables_ok t = true ->
  (forall tys tups, In (tys, tups) (tb_types t) ->
     (forall x, In x tys -> x < length (tb_types t)) /\ (forall x, In x tups -> x < length (tb_tuples t))) /\
  (forall fs, In fs (tb_tuples t) -> forall x, In x fs -> x < length (tb_types t)) /\
  (forall p r, In (p, r) (tb_builtins t) -> p < length (tb_types t) /\ r < length (tb_types t)) /\
  (forall x, In x (tb_fn_types t) -> x < length (tb_types t)).
Proof.
  unfold tables_ok. intros H.
  apply andb_true_iff in H. destruct H as [H H4]. apply andb_true_iff in H. destruct H as [H H3].
  apply andb_true_iff in H. destruct H as [H1 H2].
  rewrite forallb_forall in H1, H2, H3.
  split; [|split; [|split]].
  - intros tys tups Hin. specialize (H1 _ Hin). cbn in H1. apply andb_true_iff in H1. destruct H1 as [A B].
    split; apply all_lt_spec; assumption.
  - intros fs Hin. apply all_lt_spec. apply H2. exact Hin.
  - intros p r Hin. specialize (H3 _ Hin). cbn in H3. apply andb_true_iff in H3. destruct H3 as [A B].
    split; apply Nat.ltb_lt; assumption.
  - apply all_lt_spec. exact H4.
Qed.
