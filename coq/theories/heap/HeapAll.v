(* HeapAll.v — assembling the per-handler results: every instruction of the repaired code
   (hooks/fix_F9.patch, fx = true) re-establishes the exact-count invariant. *)
From Quiver Require Export heap.HeapInv heap.HeapHandlers heap.HeapSelect.
Require Import Lia List Arith.
Import ListNotations.
Local Open Scope nat_scope.

Lemma instr_select_dec (i : instr) : {i = ISelect} + {i <> ISelect}.
Proof. destruct i; (left; reflexivity) || (right; discriminate). Qed.

(* all 24 instructions, fx = true *)
Theorem exec_instr_good_all : forall P pid i x o h p,
  instr_pre p i -> Inv o h p -> Good o h p (exec_instr true P pid i x h p).
Proof.
  intros P pid i x o h p Hpre HI.
  destruct (instr_select_dec i) as [E|N].
  - subst i. cbn [exec_instr].
    apply (handle_select_good P (handle_call_good P)). exact HI.
  - apply exec_instr_good; assumption.
Qed.

From Quiver Require Export heap.HeapExec heap.HeapTransfer heap.HeapVmFix heap.HeapSpawnFix.
Local Open Scope nat_scope.

(* Executor::step of the repaired code, any quantum q, any process, any inputs: the exact count
   holds again when the time slice ends, and every slot reachable before and after keeps its bytes
   and is not free. Side conditions: the running process has no Ok result holding references
   (it is running: `result` is None; resume_process takes it), every Spawn/Send executed in the
   slice finds its two operands and a process-handle target (`SlicePre`: what the bytecode
   verifier of C07 and typing guarantee), and — for a FAILING completion only — no awaiter of the
   process holds an Ok result with references (finding F45h). *)
Theorem exec_step_RC : forall P x pid q xs dflt x',
  XInv x ->
  (forall pid0 p0 h0, pid = Some pid0 -> get_proc x pid0 = Some p0 -> ppf (x_heap x) = Val h0 ->
     result_refs (p_result p0) = [] /\ SlicePre true P instr_pre pid0 q xs dflt h0 p0) ->
  (forall pid0 w pw, pid = Some pid0 -> w <> pid0 -> get_proc x w = Some pw ->
     has_key pid0 (p_await pw) = true -> result_refs (p_result pw) = []) ->
  exec_step true P x pid q xs dflt = Val x' ->
  XInv x' /\
  (forall i, cnt i (all_refs x) > 0 -> cnt i (all_refs x') > 0 ->
     bytes_at (x_heap x') i = bytes_at (x_heap x) i /\ freed_at (x_heap x') i = false).
Proof.
  intros P x pid q xs dflt x' HX Hpre Hfail Hstep.
  eapply (exec_step_XInv true P instr_pre (exec_instr_good_all P)); eauto.
Qed.

(* the choke points, in the form the code comments promise *)
Theorem chokepoints_RC : forall o v n h p,
  Inv o h p ->
  Good o h p (push_value v h p) /\ Good o h p (pop_value h p) /\
  Good o h p (push_local v h p) /\ Good o h p (truncate_locals n h p).
Proof.
  intros o v n h p HI. unfold Good.
  pose proof (push_value_I o v h p HI) as H1.
  pose proof (pop_value_I o h p HI) as H2.
  pose proof (push_local_I o v h p HI) as H3.
  pose proof (truncate_locals_I o n h p HI) as H4.
  repeat split.
  - destruct (push_value v h p); auto.
  - destruct (pop_value h p); auto.
  - destruct (push_local v h p); auto.
  - destruct (truncate_locals n h p); auto.
Qed.
