(* HeapHandlers.v — every instruction handler of HeapVm.v (except Select) re-establishes the
   accounting invariant `Inv` of HeapInv.v: `Inv o h p -> Good o h p (handler args h p)`.

   Method: a Hoare triple `HT o Pre m Post` over the handler monad whose Err post-condition is
   fixed to `Inv o` (the state reached at an Err persists), a bind rule, one triple per choke
   point (proved through the excess form `InvX`), then one composition per handler. *)
From Quiver Require Import heap.HeapInv.
Require Import Lia List Arith.
Import ListNotations.
Local Open Scope nat_scope.

(* ------------------------------------------------------------------ *)
(* the triple                                                          *)
(* ------------------------------------------------------------------ *)
Definition HT {A} (o : list nat) (Pre : heap -> proc -> Prop) (m : M A)
           (Post : A -> heap -> proc -> Prop) : Prop :=
  forall h p, Pre h p ->
    match m h p with
    | MVal a h' p' => Post a h' p' /\ stable h h' /\ p_result p' = p_result p
    | MErr _ h' p' => Inv o h' p' /\ stable h h' /\ p_result p' = p_result p
    | MPanic _ => True
    end.

(* the excess form suggested in the task, for reference: HT with InvX pre/post *)
Definition GoodX {A} (o : list nat) (Q : A -> list nat) (h0 : heap) (p0 : proc) (r : mres A) : Prop :=
  match r with
  | MVal a h' p' => InvX o (Q a) h' p' /\ stable h0 h' /\ p_result p' = p_result p0
  | MErr _ h' p' => Inv o h' p' /\ stable h0 h' /\ p_result p' = p_result p0
  | MPanic _ => True
  end.

Lemma HT_GoodX {A} o x (m : M A) Q :
  HT o (InvX o x) m (fun a => InvX o (Q a)) <-> (forall h p, InvX o x h p -> GoodX o Q h p (m h p)).
Proof. unfold HT, GoodX. split; intros H h p HI; specialize (H h p HI); exact H. Qed.

Lemma HT_bind {A B} o Pre (m : M A) Mid (k : A -> M B) Post :
  HT o Pre m Mid -> (forall a, HT o (Mid a) (k a) Post) -> HT o Pre (mbind m k) Post.
Proof.
  intros Hm Hk h p HP. unfold mbind. specialize (Hm h p HP).
  destruct (m h p) as [a h1 p1|e h1 p1|n]; auto.
  destruct Hm as (HM & S1 & R1). specialize (Hk a h1 p1 HM).
  destruct (k a h1 p1) as [b h2 p2|e h2 p2|n]; auto.
  - destruct Hk as (HQ & S2 & R2). split; [auto|]. split; [eapply stable_trans; eauto|congruence].
  - destruct Hk as (HQ & S2 & R2). split; [auto|]. split; [eapply stable_trans; eauto|congruence].
Qed.

Lemma HT_conseq {A} o (Pre Pre' : heap -> proc -> Prop) (m : M A) (Post Post' : A -> heap -> proc -> Prop) :
  HT o Pre m Post -> (forall h p, Pre' h p -> Pre h p) -> (forall a h p, Post a h p -> Post' a h p) ->
  HT o Pre' m Post'.
Proof.
  intros H HP HQ h p HP'. specialize (H h p (HP _ _ HP')).
  destruct (m h p) as [a h1 p1|e h1 p1|n]; auto.
  destruct H as (H1 & H2 & H3). auto.
Qed.

Lemma HT_pre {A} o (Pre Pre' : heap -> proc -> Prop) (m : M A) Post :
  HT o Pre m Post -> (forall h p, Pre' h p -> Pre h p) -> HT o Pre' m Post.
Proof. intros H HP. eapply HT_conseq; eauto. Qed.

Lemma HT_ret {A} o (Pre : heap -> proc -> Prop) (a : A) (Post : A -> heap -> proc -> Prop) :
  (forall h p, Pre h p -> Post a h p) -> HT o Pre (mret a) Post.
Proof. intros H h p HP. unfold mret. split; [auto|]. split; [apply stable_refl|reflexivity]. Qed.

Lemma HT_fail {A} o (Pre : heap -> proc -> Prop) e (Post : A -> heap -> proc -> Prop) :
  (forall h p, Pre h p -> Inv o h p) -> HT o Pre (mfail e) Post.
Proof. intros H h p HP. unfold mfail. split; [auto|]. split; [apply stable_refl|reflexivity]. Qed.

Lemma HT_panic {A} o Pre n (Post : A -> heap -> proc -> Prop) : HT o Pre (mpanic n) Post.
Proof. intros h p HP. exact I. Qed.

Lemma HT_mget {B} o (Pre : heap -> proc -> Prop) (k : proc -> M B) Post :
  (forall p0, HT o (fun h p => Pre h p /\ p = p0) (k p0) Post) -> HT o Pre (mbind mget k) Post.
Proof.
  intros H h p HP. unfold mbind, mget. exact (H p h p (conj HP eq_refl)).
Qed.

Lemma HT_false {A} o (Pre : heap -> proc -> Prop) (m : M A) Post :
  (forall h p, Pre h p -> False) -> HT o Pre m Post.
Proof. intros H h p HP. destruct (H h p HP). Qed.

Lemma HT_good {A} o (m : M A) h p :
  HT o (Inv o) m (fun _ => Inv o) -> Inv o h p -> Good o h p (m h p).
Proof.
  intros H HI. specialize (H h p HI). unfold Good. destruct (m h p); auto.
Qed.

(* ------------------------------------------------------------------ *)
(* the excess invariant up to reordering, and root updates             *)
(* ------------------------------------------------------------------ *)
Lemma InvX_move o x x' h p p' :
  (forall i, cnt i (proc_refs p') + cnt i x' = cnt i (proc_refs p) + cnt i x) ->
  InvX o x h p -> InvX o x' h p'.
Proof.
  intros E [W H]. split; auto. intro i. specialize (H i). specialize (E i). lia.
Qed.

Lemma InvX_perm o x y h p : (forall i, cnt i x = cnt i y) -> InvX o x h p -> InvX o y h p.
Proof. intros E. apply InvX_move. intro i. rewrite E. reflexivity. Qed.

Lemma Inv_InvX o h p : Inv o h p -> InvX o [] h p.
Proof. apply InvX_nil. Qed.
Lemma InvX_Inv o h p : InvX o [] h p -> Inv o h p.
Proof. apply InvX_nil. Qed.

Lemma Inv_move o h p p' :
  (forall i, cnt i (proc_refs p') = cnt i (proc_refs p)) -> Inv o h p -> Inv o h p'.
Proof.
  intros E HI. apply InvX_Inv. eapply InvX_move; [|apply Inv_InvX; eauto].
  intro i. rewrite E. reflexivity.
Qed.

Lemma proc_refs_set_frames p f : proc_refs (set_frames p f) = proc_refs p.
Proof. reflexivity. Qed.

(* retain / release never return a clean Err *)
Lemma retain_l_no_err : forall l h e, retain_l h l <> Err e.
Proof.
  induction l as [|i t IH]; intros h e; cbn [retain_l]; [discriminate|].
  unfold retain1. destruct (nth_error (freed h) i) as [[|]|]; cbn [obind]; try discriminate;
    destruct (nth_error (rcs h) i); cbn [obind]; try discriminate; apply IH.
Qed.
Lemma release_l_no_err : forall l h e, release_l h l <> Err e.
Proof.
  induction l as [|i t IH]; intros h e; cbn [release_l]; [discriminate|].
  unfold release1. destruct (nth_error (freed h) i) as [[|]|]; cbn [obind]; try discriminate;
    destruct (nth_error (rcs h) i) as [[|c]|]; cbn [obind]; try discriminate; apply IH.
Qed.

(* ------------------------------------------------------------------ *)
(* choke points, excess form                                           *)
(* ------------------------------------------------------------------ *)
Lemma m_retain_X o x v :
  HT o (InvX o x) (m_retain v) (fun _ => InvX o (refs_of v ++ x)).
Proof.
  intros h p HI. unfold m_retain, mheap_. destruct (retain h v) as [h'|e|n] eqn:R; auto.
  - destruct (retain_InvX _ _ _ _ _ _ HI R) as (H1 & H2 & _). auto.
  - exfalso. eapply retain_l_no_err. exact R.
Qed.

Lemma m_release_X o x v :
  HT o (InvX o (refs_of v ++ x)) (m_release v) (fun _ => InvX o x).
Proof.
  intros h p HI. unfold m_release, mheap_. destruct (release h v) as [h'|e|n] eqn:R; auto.
  - destruct (release_InvX _ _ _ _ _ _ HI R) as (H1 & H2 & _). auto.
  - exfalso. eapply release_l_no_err. exact R.
Qed.

Lemma raw_push_X o x v :
  HT o (InvX o (refs_of v ++ x)) (raw_push v) (fun _ => InvX o x).
Proof.
  intros h p HI. unfold raw_push. split; [|split; [apply stable_refl|reflexivity]].
  eapply InvX_move; [|exact HI]. intro i.
  rewrite !cnt_proc_refs, cnt_app. cbn [set_stack p_stack p_locals p_mailbox p_result p_sel p_await].
  rewrite cnt_refs_list_cons. lia.
Qed.

Lemma raw_pop_X o x :
  HT o (InvX o x) raw_pop
     (fun a h p => match a with Some v => InvX o (refs_of v ++ x) h p | None => InvX o x h p end).
Proof.
  intros h p HI. unfold raw_pop. destruct (p_stack p) as [|v st] eqn:E.
  - split; [auto|]. split; [apply stable_refl|reflexivity].
  - split; [|split; [apply stable_refl|reflexivity]].
    eapply InvX_move; [|exact HI]. intro i.
    rewrite !cnt_proc_refs, cnt_app. cbn [set_stack p_stack p_locals p_mailbox p_result p_sel p_await].
    rewrite E, cnt_refs_list_cons. lia.
Qed.

(* with the stack known: no Err, and the rest of the stack is known afterwards *)
Lemma raw_pop_req_X o x v s :
  HT o (fun h p => InvX o x h p /\ p_stack p = v :: s) raw_pop_req
     (fun a h p => a = v /\ InvX o (refs_of v ++ x) h p /\ p_stack p = s).
Proof.
  intros h p [HI E]. unfold raw_pop_req, mbind, raw_pop. rewrite E. unfold mret.
  split; [|split; [apply stable_refl|reflexivity]].
  split; [reflexivity|]. split; [|reflexivity].
  eapply InvX_move; [|exact HI]. intro i.
  rewrite !cnt_proc_refs, cnt_app. cbn [set_stack p_stack p_locals p_mailbox p_result p_sel p_await].
  rewrite E, cnt_refs_list_cons. lia.
Qed.

Lemma push_value_X o x v : HT o (InvX o x) (push_value v) (fun _ => InvX o x).
Proof.
  unfold push_value. eapply HT_bind; [apply m_retain_X|]. intros ?. apply raw_push_X.
Qed.

Lemma pop_value_X o x : HT o (InvX o x) pop_value (fun _ => InvX o x).
Proof.
  unfold pop_value. eapply HT_bind; [apply raw_pop_X|]. intros [v|].
  - eapply HT_bind; [apply m_release_X|]. intros ?. apply HT_ret. auto.
  - apply HT_ret. auto.
Qed.

Lemma push_local_X o x v : HT o (InvX o x) (push_local v) (fun _ => InvX o x).
Proof.
  unfold push_local. eapply HT_bind; [apply m_retain_X|]. intros ?.
  intros h p HI. split; [|split; [apply stable_refl|reflexivity]].
  eapply InvX_move; [|exact HI]. intro i.
  rewrite !cnt_proc_refs, cnt_app. cbn [set_locals p_stack p_locals p_mailbox p_result p_sel p_await].
  rewrite cnt_refs_list_app, cnt_refs_list_cons, cnt_refs_list_nil. lia.
Qed.

Lemma truncate_locals_X o x len : HT o (InvX o x) (truncate_locals len) (fun _ => InvX o x).
Proof.
  intros h p HI. unfold truncate_locals. destruct (len <? length (p_locals p)).
  2:{ split; [auto|]. split; [apply stable_refl|reflexivity]. }
  unfold release_vals. destruct (release_l h (refs_list (skipn len (p_locals p)))) as [h'|e|n] eqn:R; auto.
  - assert (HI' : InvX o (refs_list (skipn len (p_locals p)) ++ x) h
                       (set_locals p (firstn len (p_locals p)))).
    { eapply InvX_move; [|exact HI]. intro i.
      rewrite !cnt_proc_refs, cnt_app. cbn [set_locals p_stack p_locals p_mailbox p_result p_sel p_await].
      rewrite (refs_list_firstn_skipn i len (p_locals p)). lia. }
    destruct (release_InvX _ _ _ _ _ _ HI' R) as (H1 & H2 & _). auto.
  - exfalso. eapply release_l_no_err. exact R.
Qed.

(* ------------------------------------------------------------------ *)
(* choke points on the balanced invariant                              *)
(* ------------------------------------------------------------------ *)
Lemma of_X {A} o (m : M A) :
  HT o (InvX o []) m (fun _ => InvX o []) -> HT o (Inv o) m (fun _ => Inv o).
Proof.
  intro H. eapply HT_conseq; [exact H| |]; intros; apply InvX_nil; auto.
Qed.

Lemma push_value_I o v : HT o (Inv o) (push_value v) (fun _ => Inv o).
Proof. apply of_X, push_value_X. Qed.
Lemma pop_value_I o : HT o (Inv o) pop_value (fun _ => Inv o).
Proof. apply of_X, pop_value_X. Qed.
Lemma push_local_I o v : HT o (Inv o) (push_local v) (fun _ => Inv o).
Proof. apply of_X, push_local_X. Qed.
Lemma truncate_locals_I o n : HT o (Inv o) (truncate_locals n) (fun _ => Inv o).
Proof. apply of_X, truncate_locals_X. Qed.

Lemma pop_req_I o : HT o (Inv o) pop_req (fun _ => Inv o).
Proof.
  unfold pop_req. eapply HT_bind; [apply pop_value_I|]. intros [v|].
  - apply HT_ret; auto.
  - apply HT_fail; auto.
Qed.

Lemma push_locals_I o vs : HT o (Inv o) (push_locals vs) (fun _ => Inv o).
Proof.
  induction vs as [|v t IH]; cbn [push_locals].
  - apply HT_ret; auto.
  - eapply HT_bind; [apply push_local_I|]. intros ?. exact IH.
Qed.

Lemma pop_n_I o n : forall acc, HT o (Inv o) (pop_n n acc) (fun _ => Inv o).
Proof.
  induction n as [|n IH]; intro acc; cbn [pop_n].
  - apply HT_ret; auto.
  - eapply HT_bind; [apply pop_req_I|]. intros v. apply IH.
Qed.

Lemma bump_pc_X o x : HT o (InvX o x) bump_pc (fun _ => InvX o x).
Proof.
  intros h p HI. unfold bump_pc. split; [|split; [apply stable_refl|reflexivity]].
  eapply InvX_move; [|exact HI]. intro i. rewrite proc_refs_set_frames. reflexivity.
Qed.
Lemma bump_pc_I o : HT o (Inv o) bump_pc (fun _ => Inv o).
Proof. apply of_X, bump_pc_X. Qed.

Lemma set_top_pc_I o pc : HT o (Inv o) (set_top_pc pc) (fun _ => Inv o).
Proof.
  intros h p HI. unfold set_top_pc. split; [|split; [apply stable_refl|reflexivity]].
  eapply Inv_move; [|exact HI]. intro i. rewrite proc_refs_set_frames. reflexivity.
Qed.

Lemma top_frame_I o : HT o (Inv o) top_frame (fun _ => Inv o).
Proof.
  intros h p HI. unfold top_frame. destruct (p_frames p); (split; [auto|split; [apply stable_refl|reflexivity]]).
Qed.

(* `mput (set_frames p0 f)` right after `mget` *)
Lemma put_frames_I o p0 f :
  HT o (fun h p => Inv o h p /\ p = p0) (mput (set_frames p0 f)) (fun _ => Inv o).
Proof.
  intros h p [HI ->]. unfold mput. split; [|split; [apply stable_refl|reflexivity]].
  eapply Inv_move; [|exact HI]. intro i. rewrite proc_refs_set_frames. reflexivity.
Qed.

Lemma run_beff_I o e : HT o (Inv o) (run_beff e) (fun _ => Inv o).
Proof.
  intros h p HI. apply Inv_InvX in HI. destruct e as [r|tbl|i]; unfold run_beff, mheap.
  - destruct (alloc h r) as [[h' j]|er|n] eqn:A; cbn [obind fst]; auto.
    + destruct (alloc_InvX _ _ _ _ _ _ _ HI A) as (H1 & H2 & _).
      split; [apply InvX_Inv; auto|]. split; [auto|reflexivity].
    + split; [apply InvX_Inv; auto|]. split; [apply stable_refl|reflexivity].
  - destruct (lookup_tbl (next_slot h) tbl) as [bs|]; auto.
    destruct (alloc h (Owned bs)) as [[h' j]|er|n] eqn:A; cbn [obind fst]; auto.
    + destruct (alloc_InvX _ _ _ _ _ _ _ HI A) as (H1 & H2 & _).
      split; [apply InvX_Inv; auto|]. split; [auto|reflexivity].
    + split; [apply InvX_Inv; auto|]. split; [apply stable_refl|reflexivity].
  - destruct (materialize h i) as [[h' bs]|er|n] eqn:A; cbn [obind fst]; auto.
    + destruct (materialize_InvX _ _ _ _ _ _ _ HI A) as (H1 & H2 & _).
      split; [apply InvX_Inv; auto|]. split; [auto|reflexivity].
    + split; [apply InvX_Inv; auto|]. split; [apply stable_refl|reflexivity].
Qed.

Lemma run_beffs_I o l : HT o (Inv o) (run_beffs l) (fun _ => Inv o).
Proof.
  induction l as [|e t IH]; cbn [run_beffs].
  - apply HT_ret; auto.
  - eapply HT_bind; [apply run_beff_I|]. intros ?. exact IH.
Qed.

Lemma cached_constant_I o k bs :
  HT o (Inv o) (mheap (fun h => cached_constant h k (Some bs))) (fun _ => Inv o).
Proof.
  intros h p HI. unfold mheap.
  destruct (cached_constant h k (Some bs)) as [[h' i]|er|n] eqn:C; auto.
  - destruct HI as [W H].
    destruct (cached_constant_spec _ _ _ _ _ W C) as [[-> _]|(W' & St & _ & _ & Hrc & Hcb & _)].
    + split; [split; auto|]. split; [apply stable_refl|reflexivity].
    + split; [|split; [auto|reflexivity]]. split; auto.
      intro j. rewrite Hrc, Hcb, H. lia.
  - split; [auto|]. split; [apply stable_refl|reflexivity].
Qed.

Lemma raw_push_norefs_I o v : refs_of v = [] -> HT o (Inv o) (raw_push v) (fun _ => Inv o).
Proof.
  intro E. apply of_X. pose proof (raw_push_X o [] v) as H. rewrite E in H. exact H.
Qed.

(* `mput (set_stack p0 s')` right after `mget`, s' a reordering of the stack *)
Lemma put_stack_I o p0 s' :
  (forall i, cnt i (refs_list s') = cnt i (refs_list (p_stack p0))) ->
  HT o (fun h p => Inv o h p /\ p = p0) (mput (set_stack p0 s')) (fun _ => Inv o).
Proof.
  intros E h p [HI ->]. unfold mput. split; [|split; [apply stable_refl|reflexivity]].
  eapply Inv_move; [|exact HI]. intro i. rewrite !cnt_proc_refs.
  cbn [set_stack p_stack p_locals p_mailbox p_result p_sel p_await]. rewrite E. reflexivity.
Qed.

Lemma rotate_cnt i : forall m s v, nth_error s m = Some v ->
  cnt i (refs_list (v :: firstn m s ++ skipn (S m) s)) = cnt i (refs_list s).
Proof.
  induction m as [|m IH]; intros [|a t] v E; cbn [nth_error] in E; try discriminate.
  - injection E as ->. reflexivity.
  - specialize (IH t v E). cbn [firstn skipn app] in *.
    rewrite !cnt_refs_list_cons in *. lia.
Qed.

(* ------------------------------------------------------------------ *)
(* composition tactic                                                  *)
(* ------------------------------------------------------------------ *)
Ltac ht_weak := let HH := fresh "HH" in intros ? ? HH; first [exact HH | exact (proj1 HH)].
Ltac ht_choke :=
  eapply HT_pre;
  [ first [ apply push_value_I | apply pop_value_I | apply pop_req_I | apply push_local_I
          | apply truncate_locals_I | apply push_locals_I | apply pop_n_I | apply bump_pc_I
          | apply set_top_pc_I | apply top_frame_I | apply run_beffs_I | apply cached_constant_I
          | apply put_frames_I ]
  | first [ ht_weak | (intros ? ? HH; exact HH) ] ].
Ltac ht_step :=
  cbv beta;
  lazymatch goal with
  | |- HT _ _ (mret _) _ => apply HT_ret; ht_weak
  | |- HT _ _ (mfail _) _ => apply HT_fail; ht_weak
  | |- HT _ _ (mpanic _) _ => apply HT_panic
  | |- HT _ _ (mbind mget _) _ => apply HT_mget; intro
  | |- HT _ _ (mbind _ _) _ => eapply HT_bind; [ht_choke | intro]
  end.
Ltac ht := repeat ht_step.

Section Handlers.
Variable o : list nat.
Notation OK := (fun _ : option action => Inv o).

Lemma handle_constant_ht P k : HT o (Inv o) (handle_constant P k) OK.
Proof.
  unfold handle_constant. destruct (nth_error (hp_consts P) k) as [[z|bs]|]; ht.
Qed.

Lemma handle_pop_ht : HT o (Inv o) handle_pop OK.
Proof. unfold handle_pop. ht. Qed.

Lemma handle_duplicate_ht : HT o (Inv o) handle_duplicate OK.
Proof. unfold handle_duplicate. ht. destruct (p_stack p0); ht. Qed.

Lemma handle_pick_ht n : HT o (Inv o) (handle_pick n) OK.
Proof. unfold handle_pick. ht. destruct (nth_error (p_stack p0) n); ht. Qed.

Lemma handle_rotate_ht n : HT o (Inv o) (handle_rotate n) OK.
Proof.
  unfold handle_rotate. ht. destruct (length (p_stack p0) <? n); ht.
  destruct n as [|m]; ht. destruct (nth_error (p_stack p0) m) as [v|] eqn:E; ht.
  eapply HT_bind; [apply put_stack_I; intro i; apply rotate_cnt; exact E|]. intro. ht.
Qed.

Lemma handle_load_ht idx : HT o (Inv o) (handle_load idx) OK.
Proof.
  unfold handle_load. ht. destruct (nth_error (p_locals p0) (fr_base a + idx)); ht.
Qed.

Lemma handle_store_ht : HT o (Inv o) handle_store OK.
Proof. unfold handle_store. ht. Qed.

Lemma handle_tuple_ht P t : HT o (Inv o) (handle_tuple P t) OK.
Proof. unfold handle_tuple. destruct (nth_error (hp_tuples P) t); ht. Qed.

Lemma handle_get_ht idx : HT o (Inv o) (handle_get idx) OK.
Proof.
  unfold handle_get. ht. destruct a; ht. destruct (nth_error fs idx); ht.
Qed.

Lemma handle_is_type_ht x : HT o (Inv o) (handle_is_type x) OK.
Proof. unfold handle_is_type. ht. Qed.

Lemma handle_jump_ht off : HT o (Inv o) (handle_jump off) OK.
Proof. unfold handle_jump. ht. destruct (p_frames p0); ht. Qed.

Lemma handle_jump_if_ht off : HT o (Inv o) (handle_jump_if off) OK.
Proof.
  unfold handle_jump_if. ht. destruct (is_nil a); ht. apply handle_jump_ht.
Qed.

Lemma handle_function_ht P f : HT o (Inv o) (handle_function P f) OK.
Proof. unfold handle_function. destruct (nth_error (hp_funcs P) f); ht. Qed.

Lemma handle_reset_ht idx : HT o (Inv o) (handle_reset idx) OK.
Proof.
  unfold handle_reset. ht. destruct (length (p_locals p0) <? fr_base a + idx); ht.
Qed.

Lemma handle_builtin_ht P b : HT o (Inv o) (handle_builtin P b) OK.
Proof. unfold handle_builtin. destruct (hp_nb P <=? b); ht. Qed.

Lemma handle_equal_ht n x : HT o (Inv o) (handle_equal n x) OK.
Proof.
  unfold handle_equal. ht. destruct (length (p_stack p0) <? n); ht. destruct a; ht.
Qed.

Lemma handle_not_ht : HT o (Inv o) handle_not OK.
Proof. unfold handle_not. ht. Qed.

Lemma handle_self_ht pid : HT o (Inv o) (handle_self pid) OK.
Proof.
  unfold handle_self. ht. destruct (root_frame (p_frames p0)); ht.
  eapply HT_bind; [eapply HT_pre; [apply raw_push_norefs_I; reflexivity|ht_weak]|]. intro. ht.
Qed.

Lemma handle_process_ref_ht pid' f : HT o (Inv o) (handle_process_ref pid' f) OK.
Proof.
  unfold handle_process_ref.
  eapply HT_bind; [apply raw_push_norefs_I; reflexivity|]. intro. ht.
Qed.

Lemma handle_call_ht P x : HT o (Inv o) (handle_call P x) OK.
Proof.
  unfold handle_call. ht. destruct (p_stack p0) as [|[z|i|r|t fs|f caps|b|pp ff|rid ty] st]; ht.
  - destruct (nth_error (hp_funcs P) f); ht.
  - destruct (hp_nb P <=? b); ht. destruct (hx_value x); ht.
Qed.

Lemma handle_tail_call_ht P recurse : HT o (Inv o) (handle_tail_call P recurse) OK.
Proof.
  unfold handle_tail_call. destruct recurse; ht.
  destruct a as [z|i|r|t fs|f caps|b|pp ff|rid ty]; ht.
  destruct (nth_error (hp_funcs P) f); ht.
Qed.

End Handlers.

(* ------------------------------------------------------------------ *)
(* the raw handlers: Spawn and Send                                    *)
(* ------------------------------------------------------------------ *)
Lemma HT_pure {A} o (Q : Prop) (Pre : heap -> proc -> Prop) (m : M A) Post :
  (Q -> HT o Pre m Post) -> HT o (fun h p => Q /\ Pre h p) m Post.
Proof. intros H h p [HQ HP]. exact (H HQ h p HP). Qed.

Ltac cnt_perm := let i := fresh "i" in intro i; rewrite ?cnt_app, ?cnt_nil; lia.

(* handle_spawn pops the function and the argument with raw `stack.pop()` and releases them only
   after BOTH pops succeeded: with a single value on the stack the popped value is dropped
   unreleased (its references stay counted: a leak, see handle_spawn_underflow_leaks below).
   Hence the hypothesis `2 <= length (p_stack p)`. *)
Lemma handle_spawn_ht o pid :
  HT o (fun h p => Inv o h p /\ 2 <= length (p_stack p)) (handle_spawn pid) (fun _ => Inv o).
Proof.
  unfold handle_spawn. apply HT_mget. intro p0.
  destruct (is_receiving p0).
  { apply HT_fail. intros h p [[HI _] _]. exact HI. }
  destruct (p_stack p0) as [|v1 [|v2 s]] eqn:E.
  { apply HT_false. intros h p [[_ HL] ->]. rewrite E in HL. cbn [length] in HL. lia. }
  { apply HT_false. intros h p [[_ HL] ->]. rewrite E in HL. cbn [length] in HL. lia. }
  eapply HT_bind.
  { eapply HT_pre; [apply (raw_pop_req_X o [] v1 (v2 :: s))|].
    intros h p [[HI _] ->]. split; [apply Inv_InvX; exact HI|exact E]. }
  intro fv. cbv beta. apply HT_pure. intros ->.
  eapply HT_bind; [apply (raw_pop_req_X o (refs_of v1 ++ []) v2 s)|].
  intro arg. cbv beta. apply HT_pure. intros ->.
  eapply HT_bind.
  { eapply HT_pre; [apply (m_release_X o (refs_of v2) v1)|].
    intros h p [HI _]. eapply InvX_perm; [|exact HI]. cnt_perm. }
  intro. cbv beta.
  eapply HT_bind.
  { eapply HT_pre; [apply (m_release_X o [] v2)|].
    intros h p HI. eapply InvX_perm; [|exact HI]. cnt_perm. }
  intro. cbv beta.
  destruct v1 as [z|bi|r|t fs|f caps|b|tp tf|rid ty];
    first [apply HT_ret | apply HT_fail]; intros h p HI; apply InvX_Inv; exact HI.
Qed.

Definition send_target_ok (p : proc) : Prop :=
  match p_stack p with VProc _ _ :: _ => True | v :: _ => refs_of v = [] | [] => True end.

(* handle_send: on a target that is not a process reference the popped target is dropped
   unreleased (FTypeMismatch), hence the hypothesis that such a target holds no reference *)
Lemma handle_send_ht o pid :
  HT o (fun h p => Inv o h p /\ 2 <= length (p_stack p) /\ send_target_ok p)
     (handle_send pid) (fun _ => Inv o).
Proof.
  unfold handle_send. apply HT_mget. intro p0.
  destruct (is_receiving p0).
  { apply HT_fail. intros h p [[HI _] _]. exact HI. }
  destruct (p_stack p0) as [|v1 [|v2 s]] eqn:E.
  { apply HT_false. intros h p [(_ & HL & _) ->]. rewrite E in HL. cbn [length] in HL. lia. }
  { apply HT_false. intros h p [(_ & HL & _) ->]. rewrite E in HL. cbn [length] in HL. lia. }
  eapply HT_pre with (Pre := fun h p => refs_of v1 = [] /\ (InvX o [] h p /\ p_stack p = v1 :: v2 :: s)).
  2:{ intros h p [(HI & _ & HT) ->]. unfold send_target_ok in HT. rewrite E in HT.
      split; [destruct v1 as [z|bi|r|t fs|f caps|b|tp tf|rid ty]; auto|].
      split; [apply Inv_InvX; exact HI|exact E]. }
  apply HT_pure. intro Hr.
  eapply HT_bind; [apply (raw_pop_req_X o [] v1 (v2 :: s))|].
  intro target. cbv beta. apply HT_pure. intros ->.
  eapply HT_bind; [apply (raw_pop_req_X o (refs_of v1 ++ []) v2 s)|].
  intro msg. cbv beta. apply HT_pure. intros ->.
  eapply HT_bind.
  { eapply HT_pre; [apply (m_release_X o [] v2)|].
    intros h p [HI _]. eapply InvX_perm; [|exact HI]. rewrite Hr. cnt_perm. }
  intro. cbv beta.
  destruct v1 as [z|bi|r|t fs|f caps|b|tp tf|rid ty];
    try (apply HT_fail; intros h p HI; apply InvX_Inv; exact HI).
  eapply HT_bind; [apply (raw_push_X o [] (VProc tp tf))|]. intro. cbv beta.
  eapply HT_bind; [apply bump_pc_X|]. intro. cbv beta.
  apply HT_ret. intros h p HI. apply InvX_Inv. exact HI.
Qed.

(* ------------------------------------------------------------------ *)
(* the requested statements                                            *)
(* ------------------------------------------------------------------ *)
Theorem handle_constant_good P k o h p : Inv o h p -> Good o h p (handle_constant P k h p).
Proof. apply HT_good, handle_constant_ht. Qed.
Theorem handle_pop_good o h p : Inv o h p -> Good o h p (handle_pop h p).
Proof. apply HT_good, handle_pop_ht. Qed.
Theorem handle_duplicate_good o h p : Inv o h p -> Good o h p (handle_duplicate h p).
Proof. apply HT_good, handle_duplicate_ht. Qed.
Theorem handle_pick_good n o h p : Inv o h p -> Good o h p (handle_pick n h p).
Proof. apply HT_good, handle_pick_ht. Qed.
Theorem handle_rotate_good n o h p : Inv o h p -> Good o h p (handle_rotate n h p).
Proof. apply HT_good, handle_rotate_ht. Qed.
Theorem handle_load_good idx o h p : Inv o h p -> Good o h p (handle_load idx h p).
Proof. apply HT_good, handle_load_ht. Qed.
Theorem handle_store_good o h p : Inv o h p -> Good o h p (handle_store h p).
Proof. apply HT_good, handle_store_ht. Qed.
Theorem handle_tuple_good P t o h p : Inv o h p -> Good o h p (handle_tuple P t h p).
Proof. apply HT_good, handle_tuple_ht. Qed.
Theorem handle_get_good idx o h p : Inv o h p -> Good o h p (handle_get idx h p).
Proof. apply HT_good, handle_get_ht. Qed.
Theorem handle_is_type_good x o h p : Inv o h p -> Good o h p (handle_is_type x h p).
Proof. apply HT_good, handle_is_type_ht. Qed.
Theorem handle_jump_good off o h p : Inv o h p -> Good o h p (handle_jump off h p).
Proof. apply HT_good, handle_jump_ht. Qed.
Theorem handle_jump_if_good off o h p : Inv o h p -> Good o h p (handle_jump_if off h p).
Proof. apply HT_good, handle_jump_if_ht. Qed.
Theorem handle_call_good P x o h p : Inv o h p -> Good o h p (handle_call P x h p).
Proof. apply HT_good, handle_call_ht. Qed.
Theorem handle_tail_call_good P recurse o h p : Inv o h p -> Good o h p (handle_tail_call P recurse h p).
Proof. apply HT_good, handle_tail_call_ht. Qed.
Theorem handle_function_good P f o h p : Inv o h p -> Good o h p (handle_function P f h p).
Proof. apply HT_good, handle_function_ht. Qed.
Theorem handle_reset_good idx o h p : Inv o h p -> Good o h p (handle_reset idx h p).
Proof. apply HT_good, handle_reset_ht. Qed.
Theorem handle_builtin_good P b o h p : Inv o h p -> Good o h p (handle_builtin P b h p).
Proof. apply HT_good, handle_builtin_ht. Qed.
Theorem handle_equal_good n x o h p : Inv o h p -> Good o h p (handle_equal n x h p).
Proof. apply HT_good, handle_equal_ht. Qed.
Theorem handle_not_good o h p : Inv o h p -> Good o h p (handle_not h p).
Proof. apply HT_good, handle_not_ht. Qed.
Theorem handle_self_good pid o h p : Inv o h p -> Good o h p (handle_self pid h p).
Proof. apply HT_good, handle_self_ht. Qed.
Theorem handle_process_ref_good pid' f o h p : Inv o h p -> Good o h p (handle_process_ref pid' f h p).
Proof. apply HT_good, handle_process_ref_ht. Qed.

Theorem handle_spawn_good pid o h p :
  2 <= length (p_stack p) -> Inv o h p -> Good o h p (handle_spawn pid h p).
Proof.
  intros HL HI. pose proof (handle_spawn_ht o pid h p (conj HI HL)) as H.
  unfold Good. destruct (handle_spawn pid h p); auto.
Qed.

Theorem handle_send_good pid o h p :
  2 <= length (p_stack p) ->
  match p_stack p with VProc _ _ :: _ => True | v :: _ => refs_of v = [] | [] => True end ->
  Inv o h p -> Good o h p (handle_send pid h p).
Proof.
  intros HL HT HI. pose proof (handle_send_ht o pid h p (conj HI (conj HL HT))) as H.
  unfold Good. destruct (handle_send pid h p); auto.
Qed.

Definition instr_pre (p : proc) (i : instr) : Prop :=
  match i with
  | ISpawn => 2 <= length (p_stack p)
  | ISend => 2 <= length (p_stack p) /\
             match p_stack p with VProc _ _ :: _ => True | v :: _ => refs_of v = [] | [] => True end
  | _ => True
  end.

Theorem exec_instr_good : forall fx P pid i x o h p,
  i <> ISelect -> instr_pre p i -> Inv o h p -> Good o h p (exec_instr fx P pid i x h p).
Proof.
  intros fx P pid i x o h p Hns Hpre HI.
  destruct i; cbn [exec_instr instr_pre] in *.
  - apply handle_constant_good; auto.
  - apply handle_pop_good; auto.
  - apply handle_duplicate_good; auto.
  - apply handle_pick_good; auto.
  - apply handle_rotate_good; auto.
  - apply handle_reset_good; auto.
  - apply handle_load_good; auto.
  - apply handle_store_good; auto.
  - apply handle_tuple_good; auto.
  - apply handle_get_good; auto.
  - apply handle_is_type_good; auto.
  - apply handle_jump_good; auto.
  - apply handle_jump_if_good; auto.
  - apply handle_call_good; auto.
  - apply handle_tail_call_good; auto.
  - apply handle_function_good; auto.
  - apply handle_builtin_good; auto.
  - apply handle_equal_good; auto.
  - apply handle_not_good; auto.
  - apply handle_spawn_good; auto.
  - destruct Hpre as [HL HT]. apply handle_send_good; auto.
  - apply handle_self_good; auto.
  - congruence.
  - apply handle_process_ref_good; auto.
Qed.

(* ------------------------------------------------------------------ *)
(* non-vacuity, and the two leaks excluded by instr_pre                *)
(* ------------------------------------------------------------------ *)
Definition exh : heap := mkHeap [Owned [1%Z]] [1] [] [] [false] [].
Definition exP : hprogram := Build_hprogram [] [] [] 0 [] [].
Definition exx : hext := Build_hext None false [] 0%Z.
Definition exproc (st : list value) : proc := mkProc st [] [] false [] None None [] [].

Lemma exh_WF : WFh exh.
Proof.
  unfold WFh, exh, freed_at, rc_at. cbn [cells rcs free pending freed length].
  split; [reflexivity|]. split; [reflexivity|]. split; [constructor|].
  split; [|split].
  - intro i. split; [intros []|]. intros [Hi Hf]. destruct i as [|[|i]]; cbn in Hf; discriminate.
  - intros i Hf. destruct i as [|[|i]]; cbn in Hf; discriminate.
  - intros i [].
Qed.

(* a state holding exactly one counted reference to slot 0, somewhere on the stack *)
Lemma exh_Inv st : (forall i, cnt i (refs_list st) = if Nat.eq_dec 0 i then 1 else 0) -> Inv [] exh (exproc st).
Proof.
  intro E. split; [apply exh_WF|]. intro i. rewrite cnt_proc_refs.
  cbn [exproc p_stack p_locals p_mailbox p_result p_sel p_await]. rewrite E.
  unfold rc_at, exh, cb_refs. cbn [rcs cbins flat_map result_refs sel_refs await_refs refs_list].
  rewrite !cnt_nil. destruct i as [|[|i]]; reflexivity.
Qed.

Lemma cnt0_single i : cnt i [0] = if Nat.eq_dec 0 i then 1 else 0.
Proof. rewrite cnt_cons, cnt_nil. destruct (Nat.eq_dec 0 i); reflexivity. Qed.

(* exec_instr_good is not vacuous: a Spawn whose closure captures a binary, from a state that
   meets Inv and instr_pre, returns a value (no panic, no Err) *)
Example exec_instr_good_nonvacuous :
  let p := exproc [VFun 0 [VBin 0]; VInt 5] in
  Inv [] exh p /\ instr_pre p ISpawn /\ ISpawn <> ISelect /\
  exists h' p', exec_instr false exP 7 ISpawn exx exh p = MVal (Some (ASpawn 7 0 [VBin 0] (VInt 5))) h' p'
                /\ rc_at h' 0 = 0 /\ p_stack p' = [].
Proof.
  split; [apply exh_Inv; intro i; apply cnt0_single|].
  split; [cbn; lia|]. split; [discriminate|].
  eexists. eexists. split; [vm_compute; reflexivity|]. split; reflexivity.
Qed.

(* Send to a process reference: non-vacuity of the Send arm *)
Example handle_send_good_nonvacuous :
  let p := exproc [VProc 3 0; VBin 0] in
  Inv [] exh p /\ instr_pre p ISend /\
  exists h' p', handle_send 7 exh p = MVal (Some (ADeliver 3 (VBin 0))) h' p' /\ p_stack p' = [VProc 3 0].
Proof.
  split; [apply exh_Inv; intro i; apply cnt0_single|].
  split; [cbn; split; [lia|exact I]|].
  eexists. eexists. split; [vm_compute; reflexivity|reflexivity].
Qed.

(* The model as found: Spawn on a stack holding ONLY a closure that captures a binary. The first
   raw pop succeeds, the second fails with StackUnderflow, the closure is dropped without release:
   slot 0 keeps refcount 1 with no root left, so Inv does not hold in the persisting Err state. *)
Example handle_spawn_underflow_leaks :
  let p := exproc [VFun 0 [VBin 0]] in
  Inv [] exh p /\
  exists h' p', handle_spawn 7 exh p = MErr FStackUnderflow h' p' /\
                rc_at h' 0 = 1 /\ proc_refs p' = [] /\ ~ Inv [] h' p'.
Proof.
  split; [apply exh_Inv; intro i; apply cnt0_single|].
  eexists. eexists. split; [vm_compute; reflexivity|].
  split; [reflexivity|]. split; [reflexivity|].
  intros [_ H]. specialize (H 0). vm_compute in H. discriminate.
Qed.

(* Likewise Send to a target that is not a process reference and holds a binary: the target is
   popped raw and dropped by the TypeMismatch return. *)
Example handle_send_badtarget_leaks :
  let p := exproc [VBin 0; VInt 1] in
  Inv [] exh p /\ 2 <= length (p_stack p) /\
  exists h' p', handle_send 7 exh p = MErr FTypeMismatch h' p' /\
                rc_at h' 0 = 1 /\ proc_refs p' = [] /\ ~ Inv [] h' p'.
Proof.
  split; [apply exh_Inv; intro i; apply cnt0_single|].
  split; [cbn; lia|].
  eexists. eexists. split; [vm_compute; reflexivity|].
  split; [reflexivity|]. split; [reflexivity|].
  intros [_ H]. specialize (H 0). vm_compute in H. discriminate.
Qed.

Print Assumptions exec_instr_good.
Print Assumptions handle_spawn_underflow_leaks.
