(* HeapInv.v — the accounting invariant in the form used for handlers, and the choke points.

   Inv o h p : the heap is well formed and, for every slot i,
       refcounts[i] = (occurrences of i in the roots of all OTHER processes, `o`)
                    + (1 if cached constant) + (occurrences of i in the roots of the running process)
   — the exact count, for the running process taken out of the map as Executor::step does.
   Good o h p r : the result r of a handler started in (h, p) re-establishes Inv (also on the
   Err path, whose state persists), keeps every non-free slot's bytes (stable) and leaves the
   process result untouched. *)
From Quiver Require Export heap.HeapVm heap.HeapProofs.
Require Import Lia List Arith.
Import ListNotations.
Local Open Scope nat_scope.

Definition Inv (o : list nat) (h : heap) (p : proc) : Prop :=
  WFh h /\ forall i, rc_at h i = cnt i o + cnt i (cb_refs h) + cnt i (proc_refs p).

Definition Good {A} (o : list nat) (h : heap) (p : proc) (r : mres A) : Prop :=
  match r with
  | MVal _ h' p' | MErr _ h' p' => Inv o h' p' /\ stable h h' /\ p_result p' = p_result p
  | MPanic _ => True
  end.

(* a handler step seen from an arbitrary intermediate state: `x` is the list of references that
   are counted but not (or no longer) stored in the process — between a raw pop and its release,
   between a retain and the raw store *)
Definition InvX (o x : list nat) (h : heap) (p : proc) : Prop :=
  WFh h /\ forall i, rc_at h i = cnt i o + cnt i (cb_refs h) + cnt i (proc_refs p) + cnt i x.

Lemma InvX_nil o h p : InvX o [] h p <-> Inv o h p.
Proof.
  unfold InvX, Inv. split; intros [W H]; split; auto; intro i; specialize (H i);
    rewrite cnt_nil in *; lia.
Qed.

Lemma cnt_refs_list_cons i v vs : cnt i (refs_list (v :: vs)) = cnt i (refs_of v) + cnt i (refs_list vs).
Proof. unfold refs_list. cbn [flat_map]. apply cnt_app. Qed.
Lemma cnt_refs_list_app i a b : cnt i (refs_list (a ++ b)) = cnt i (refs_list a) + cnt i (refs_list b).
Proof. unfold refs_list. rewrite flat_map_app. apply cnt_app. Qed.
Lemma cnt_refs_list_nil i : cnt i (refs_list []) = 0.
Proof. reflexivity. Qed.
Lemma refs_list_firstn_skipn i n l :
  cnt i (refs_list l) = cnt i (refs_list (firstn n l)) + cnt i (refs_list (skipn n l)).
Proof. rewrite <- cnt_refs_list_app, firstn_skipn. reflexivity. Qed.

(* proc_refs as a sum, one summand per root kind *)
Lemma cnt_proc_refs i p :
  cnt i (proc_refs p) =
  cnt i (refs_list (p_stack p)) + cnt i (refs_list (p_locals p)) + cnt i (refs_list (p_mailbox p)) +
  cnt i (result_refs (p_result p)) + cnt i (sel_refs (p_sel p)) + cnt i (await_refs (p_await p)).
Proof. unfold proc_refs. rewrite !cnt_app. lia. Qed.

(* ---- heap primitives on the invariant with excess ---- *)
Lemma retain_InvX o x h p v h' :
  InvX o x h p -> retain h v = Val h' -> InvX o (refs_of v ++ x) h' p /\ stable h h' /\ cb_refs h' = cb_refs h.
Proof.
  intros [W H] R. unfold retain in R.
  pose proof (retain_l_spec _ _ _ R) as (Ec & Ef & Ep & Efr & Ecb & El & Hrc).
  split; [split|split].
  - eapply retain_l_WF; eauto.
  - intro i. rewrite Hrc, H, cnt_app. unfold cb_refs. rewrite Ecb. lia.
  - eapply retain_l_stable; eauto.
  - unfold cb_refs. rewrite Ecb. reflexivity.
Qed.

Lemma release_InvX o x h p l h' :
  InvX o (l ++ x) h p -> release_l h l = Val h' -> InvX o x h' p /\ stable h h' /\ cb_refs h' = cb_refs h.
Proof.
  intros [W H] R.
  pose proof (release_l_spec _ _ _ R) as (Ec & Ef & Efr & Ecb & El & Hrc & _).
  split; [split|split].
  - eapply release_l_WF; eauto.
  - intro i. specialize (Hrc i). specialize (H i). rewrite cnt_app in H.
    unfold cb_refs in *. rewrite Ecb. lia.
  - eapply release_l_stable; eauto.
  - unfold cb_refs. rewrite Ecb. reflexivity.
Qed.

Lemma alloc_InvX o x h p r h' i :
  InvX o x h p -> alloc h r = Val (h', i) -> InvX o x h' p /\ stable h h' /\ cb_refs h' = cb_refs h.
Proof.
  intros [W H] A.
  pose proof (alloc_spec _ _ _ _ W A) as (W' & _ & _ & _ & Hrc & _ & _ & Ecb & _ & St).
  split; [split|split]; auto.
  - intro j. rewrite Hrc, H. unfold cb_refs. rewrite Ecb. reflexivity.
  - unfold cb_refs. rewrite Ecb. reflexivity.
Qed.

Lemma materialize_InvX o x h p i h' bs :
  InvX o x h p -> materialize h i = Val (h', bs) -> InvX o x h' p /\ stable h h' /\ cb_refs h' = cb_refs h.
Proof.
  intros [W H] A.
  pose proof (materialize_spec _ _ _ _ A) as (Erc & _ & _ & _ & Ecb & _ & _ & _).
  split; [split|split].
  - eapply materialize_WF; eauto.
  - intro j. unfold rc_at. rewrite Erc. fold (rc_at h j). rewrite H. unfold cb_refs. rewrite Ecb. reflexivity.
  - eapply materialize_stable; eauto.
  - unfold cb_refs. rewrite Ecb. reflexivity.
Qed.
