(* HeapTransfer.v — extract_heap_data / inject_heap_data copy a value faithfully between heaps. *)
From Quiver Require Import heap.Heap heap.HeapProofs.
Require Import Lia List Arith.
Import ListNotations.
Local Open Scope nat_scope.

(* ------------------------------------------------------------------ *)
(* induction principle for the nested inductive `value`                *)
(* ------------------------------------------------------------------ *)

Section ValueInd.
  Variable P : value -> Prop.
  Hypothesis HInt : forall z, P (VInt z).
  Hypothesis HBin : forall i, P (VBin i).
  Hypothesis HRef : forall r, P (VRef r).
  Hypothesis HTuple : forall t fs, Forall P fs -> P (VTuple t fs).
  Hypothesis HFun : forall f cs, Forall P cs -> P (VFun f cs).
  Hypothesis HBuiltin : forall b, P (VBuiltin b).
  Hypothesis HProc : forall p f, P (VProc p f).
  Hypothesis HRes : forall r ty, P (VRes r ty).

  Fixpoint value_ind' (v : value) : P v :=
    match v with
    | VInt z => HInt z
    | VBin i => HBin i
    | VRef r => HRef r
    | VTuple t fs =>
        HTuple t fs
          ((fix go (l : list value) : Forall P l :=
              match l with
              | [] => Forall_nil P
              | x :: r => Forall_cons x (value_ind' x) (go r)
              end) fs)
    | VFun f cs =>
        HFun f cs
          ((fix go (l : list value) : Forall P l :=
              match l with
              | [] => Forall_nil P
              | x :: r => Forall_cons x (value_ind' x) (go r)
              end) cs)
    | VBuiltin b => HBuiltin b
    | VProc p f => HProc p f
    | VRes r ty => HRes r ty
    end.
End ValueInd.

(* ------------------------------------------------------------------ *)
(* the inner `fix go` of remap / denote / denote_data is omap_list     *)
(* ------------------------------------------------------------------ *)

Fixpoint omap_list {A B} (g : A -> option B) (l : list A) : option (list B) :=
  match l with
  | [] => Some []
  | x :: r => match g x, omap_list g r with
              | Some x', Some r' => Some (x' :: r')
              | _, _ => None
              end
  end.

Lemma remap_list_omap f l : remap_list f l = omap_list (remap f) l.
Proof. induction l as [|x r IH]; simpl; [reflexivity|]. rewrite IH. reflexivity. Qed.

Lemma remap_tuple f t fs :
  remap f (VTuple t fs) = option_map (VTuple t) (omap_list (remap f) fs).
Proof.
  simpl. f_equal. induction fs as [|x r IH]; simpl; [reflexivity|]. rewrite IH. reflexivity.
Qed.

Lemma remap_fun f g cs :
  remap f (VFun g cs) = option_map (VFun g) (omap_list (remap f) cs).
Proof.
  simpl. f_equal. induction cs as [|x r IH]; simpl; [reflexivity|]. rewrite IH. reflexivity.
Qed.

Lemma denote_tuple h t fs :
  denote h (VTuple t fs) = option_map (DNode t false) (omap_list (denote h) fs).
Proof.
  simpl. f_equal. induction fs as [|x r IH]; simpl; [reflexivity|]. rewrite IH. reflexivity.
Qed.

Lemma denote_fun h g cs :
  denote h (VFun g cs) = option_map (DNode g true) (omap_list (denote h) cs).
Proof.
  simpl. f_equal. induction cs as [|x r IH]; simpl; [reflexivity|]. rewrite IH. reflexivity.
Qed.

Lemma denote_data_tuple d t fs :
  denote_data d (VTuple t fs) = option_map (DNode t false) (omap_list (denote_data d) fs).
Proof.
  simpl. f_equal. induction fs as [|x r IH]; simpl; [reflexivity|]. rewrite IH. reflexivity.
Qed.

Lemma denote_data_fun d g cs :
  denote_data d (VFun g cs) = option_map (DNode g true) (omap_list (denote_data d) cs).
Proof.
  simpl. f_equal. induction cs as [|x r IH]; simpl; [reflexivity|]. rewrite IH. reflexivity.
Qed.

(* pointwise transport of a denotation along a partial renaming *)
Lemma omap_list_transport {A A' C} (r : A -> option A') (d1 : A' -> option C)
      (d2 : A -> option C) (l : list A) :
  Forall (fun x => forall x', r x = Some x' -> d1 x' = d2 x) l ->
  forall l', omap_list r l = Some l' -> omap_list d1 l' = omap_list d2 l.
Proof.
  induction 1 as [|x t Hx Ht IH]; intros l' H; simpl in H.
  - inversion H; subst. reflexivity.
  - destruct (r x) as [x'|] eqn:Ex; [|discriminate].
    destruct (omap_list r t) as [t'|] eqn:Et; [|discriminate].
    inversion H; subst l'. simpl. rewrite (Hx _ eq_refl), (IH _ eq_refl). reflexivity.
Qed.

Lemma option_map_Some {A B} (f : A -> B) o b :
  option_map f o = Some b -> exists a, o = Some a /\ b = f a.
Proof. destruct o as [a|]; simpl; intros H; [|discriminate]. inversion H; eauto. Qed.

(* generic: if a renaming `f` is sound on binaries, it is sound on all values *)
Lemma remap_transport (f : nat -> option nat) (d1 d2 : value -> option dval)
  (Hleaf1 : forall v, (forall i, v <> VBin i) -> (forall t fs, v <> VTuple t fs) ->
                      (forall g cs, v <> VFun g cs) -> d1 v = Some (DLeaf v))
  (Hleaf2 : forall v, (forall i, v <> VBin i) -> (forall t fs, v <> VTuple t fs) ->
                      (forall g cs, v <> VFun g cs) -> d2 v = Some (DLeaf v))
  (Ht1 : forall t fs, d1 (VTuple t fs) = option_map (DNode t false) (omap_list d1 fs))
  (Ht2 : forall t fs, d2 (VTuple t fs) = option_map (DNode t false) (omap_list d2 fs))
  (Hf1 : forall g cs, d1 (VFun g cs) = option_map (DNode g true) (omap_list d1 cs))
  (Hf2 : forall g cs, d2 (VFun g cs) = option_map (DNode g true) (omap_list d2 cs))
  (Hbin : forall i k, f i = Some k -> d1 (VBin k) = d2 (VBin i)) :
  forall v v', remap f v = Some v' -> d1 v' = d2 v.
Proof.
  induction v as [z|i|r|t fs IH|g cs IH|b|p g|r ty] using value_ind'; intros v' H.
  - simpl in H. inversion H; subst v'.
    rewrite Hleaf1, Hleaf2 by (intros; discriminate). reflexivity.
  - simpl in H. apply option_map_Some in H as (k & Hk & ->). apply Hbin; assumption.
  - simpl in H. inversion H; subst v'.
    rewrite Hleaf1, Hleaf2 by (intros; discriminate). reflexivity.
  - rewrite remap_tuple in H. apply option_map_Some in H as (fs' & Hfs & ->).
    rewrite Ht1, Ht2. f_equal. eapply omap_list_transport; eauto.
  - rewrite remap_fun in H. apply option_map_Some in H as (cs' & Hcs & ->).
    rewrite Hf1, Hf2. f_equal. eapply omap_list_transport; eauto.
  - simpl in H. inversion H; subst v'.
    rewrite Hleaf1, Hleaf2 by (intros; discriminate). reflexivity.
  - simpl in H. inversion H; subst v'.
    rewrite Hleaf1, Hleaf2 by (intros; discriminate). reflexivity.
  - simpl in H. inversion H; subst v'.
    rewrite Hleaf1, Hleaf2 by (intros; discriminate). reflexivity.
Qed.

Lemma denote_leaf h v :
  (forall i, v <> VBin i) -> (forall t fs, v <> VTuple t fs) -> (forall g cs, v <> VFun g cs) ->
  denote h v = Some (DLeaf v).
Proof.
  intros H1 H2 H3. destruct v; try reflexivity.
  - exfalso; eapply H1; reflexivity.
  - exfalso; eapply H2; reflexivity.
  - exfalso; eapply H3; reflexivity.
Qed.

Lemma denote_data_leaf d v :
  (forall i, v <> VBin i) -> (forall t fs, v <> VTuple t fs) -> (forall g cs, v <> VFun g cs) ->
  denote_data d v = Some (DLeaf v).
Proof.
  intros H1 H2 H3. destruct v; try reflexivity.
  - exfalso; eapply H1; reflexivity.
  - exfalso; eapply H2; reflexivity.
  - exfalso; eapply H3; reflexivity.
Qed.

(* ------------------------------------------------------------------ *)
(* (a) extract                                                         *)
(* ------------------------------------------------------------------ *)

Lemma index_of_nth : forall l x k, index_of x l = Some k -> nth_error l k = Some x.
Proof.
  induction l as [|y t IH]; intros x k H; simpl in H; [discriminate|].
  destruct (x =? y) eqn:E.
  - inversion H; subst k. apply Nat.eqb_eq in E. subst y. reflexivity.
  - apply option_map_Some in H as (k' & Hk' & ->). simpl. apply IH; assumption.
Qed.

Lemma read_all_nth : forall idx h data, read_all h idx = Val data ->
  forall k i, nth_error idx k = Some i ->
  exists r, nth_error (cells h) i = Some r /\ nth_error data k = Some (bytes_of r).
Proof.
  induction idx as [|a t IH]; intros h data H k i Hk; simpl in H.
  - destruct k; discriminate Hk.
  - destruct (nth_error (cells h) a) as [r|] eqn:Ea; [|discriminate].
    apply obind_val in H as (rest & Hrest & H). inversion H; subst data.
    destruct k as [|k]; simpl in Hk.
    + inversion Hk; subst a. exists r. split; [assumption|reflexivity].
    + simpl. eapply IH; eauto.
Qed.

Lemma read_all_length : forall idx h data, read_all h idx = Val data -> length data = length idx.
Proof.
  induction idx as [|a t IH]; intros h data H; simpl in H.
  - inversion H; reflexivity.
  - destruct (nth_error (cells h) a) as [r|]; [|discriminate].
    apply obind_val in H as (rest & Hrest & H). inversion H; subst data.
    simpl. f_equal. eapply IH; eauto.
Qed.

Lemma remap_denote_extract h idx data :
  read_all h idx = Val data ->
  forall v v', remap (fun i => index_of i idx) v = Some v' -> denote_data data v' = denote h v.
Proof.
  intros Hread. apply remap_transport.
  - apply denote_data_leaf.
  - apply denote_leaf.
  - apply denote_data_tuple.
  - apply denote_tuple.
  - apply denote_data_fun.
  - apply denote_fun.
  - intros i k Hk. apply index_of_nth in Hk.
    destruct (read_all_nth _ _ _ Hread _ _ Hk) as (r & Hr & Hd).
    simpl. rewrite Hr, Hd. reflexivity.
Qed.

Lemma extract_inv h v v' data : extract h v = Val (v', data) ->
  read_all h (sort_u (refs_of v)) = Val data /\
  remap (fun i => index_of i (sort_u (refs_of v))) v = Some v'.
Proof.
  unfold extract. intros H. apply obind_val in H as (d & Hd & H).
  destruct (remap _ v) as [w|] eqn:Er; [|discriminate].
  inversion H; subst. auto.
Qed.

Lemma extract_denote h v v' data :
  extract h v = Val (v', data) -> denote_data data v' = denote h v.
Proof.
  intros H. apply extract_inv in H as [Hr Hm]. eapply remap_denote_extract; eauto.
Qed.

(* ------------------------------------------------------------------ *)
(* (b) inject                                                          *)
(* ------------------------------------------------------------------ *)

Lemma alloc_all_spec : forall data h h' js, WFh h -> alloc_all h data = Val (h', js) ->
  WFh h' /\ stable h h' /\ (forall j, rc_at h' j = rc_at h j) /\ pending h' = pending h /\
  cbins h' = cbins h /\ length js = length data /\
  (forall k j, nth_error js k = Some j ->
     j < length (cells h') /\ freed_at h' j = false /\
     exists bs, nth_error data k = Some bs /\ bytes_at h' j = bs) /\
  (forall j, In j js -> freed_at h j = true \/ length (cells h) <= j) /\
  NoDup js.
Proof.
  induction data as [|bs t IH]; intros h h' js W H; simpl in H.
  - inversion H; subst h' js.
    split; [assumption|]. split; [apply stable_refl|]. split; [reflexivity|].
    split; [reflexivity|]. split; [reflexivity|]. split; [reflexivity|].
    split; [intros [|k] j Hk; discriminate Hk|]. split; [intros j []|constructor].
  - apply obind_val in H as ([h1 i] & Ha & H).
    apply obind_val in H as ([h2 js'] & Hall & H). inversion H; subst h2 js; clear H.
    destruct (alloc_spec _ _ _ _ W Ha) as
      (W1 & Hwas & Hfi & Hci & Hrc1 & Hz1 & Hp1 & Hcb1 & Hoth & St1).
    destruct (IH _ _ _ W1 Hall) as (W' & St' & Hrc' & Hp' & Hcb' & Hlen' & Hnth' & Hfrom' & Hnd').
    assert (Hi1 : i < length (cells h1)) by (eapply nth_error_Some_lt; eauto).
    split; [assumption|]. split; [eapply stable_trans; eauto|].
    split; [intros j; rewrite Hrc'; apply Hrc1|]. split; [congruence|]. split; [congruence|].
    split; [simpl; congruence|].
    assert (Hnotin : ~ In i js').
    { intros Hin. destruct (Hfrom' _ Hin) as [Hf|Hge]; [congruence|lia]. }
    split; [|split].
    + intros [|k] j Hk; simpl in Hk.
      * inversion Hk; subst j. destruct St' as [Lle Sb].
        destruct (Sb i Hi1 Hfi) as [Hf' Hb'].
        split; [lia|]. split; [assumption|]. exists bs. split; [reflexivity|].
        rewrite Hb'. unfold bytes_at. rewrite (nth_error_nth_d _ _ _ (Owned []) Hci). reflexivity.
      * simpl. apply Hnth'; assumption.
    + intros j [<-|Hin].
      * destruct Hwas as [Hf| ->]; [left; assumption|right; lia].
      * assert (Hne : j <> i) by (intros ->; contradiction).
        destruct (Hfrom' _ Hin) as [Hf|Hge].
        { left. rewrite <- (proj1 (Hoth j Hne)). assumption. }
        { right. destruct St1 as [Lle _]. lia. }
    + constructor; assumption.
Qed.

Lemma inject_inv h v data h' v' : inject h v data = Val (h', v') ->
  exists js, alloc_all h data = Val (h', js) /\ remap (fun k => nth_error js k) v = Some v'.
Proof.
  unfold inject. intros H. apply obind_val in H as ([h1 js] & Ha & H).
  destruct (remap _ v) as [w|] eqn:Er; [|discriminate].
  inversion H; subst. eauto.
Qed.

Lemma inject_denote h2 v' data h2' v'' :
  WFh h2 -> inject h2 v' data = Val (h2', v'') -> denote h2' v'' = denote_data data v'.
Proof.
  intros W H. apply inject_inv in H as (js & Ha & Hm).
  destruct (alloc_all_spec _ _ _ _ W Ha) as (_ & _ & _ & _ & _ & _ & Hnth & _).
  revert v' v'' Hm. apply remap_transport.
  - apply denote_leaf.
  - apply denote_data_leaf.
  - apply denote_tuple.
  - apply denote_data_tuple.
  - apply denote_fun.
  - apply denote_data_fun.
  - intros k j Hk. destruct (Hnth _ _ Hk) as (Hj & _ & bs & Hbs & Hb).
    simpl. rewrite Hbs. rewrite (nth_error_of_nth _ _ (Owned []) Hj). simpl.
    unfold bytes_at in Hb. rewrite Hb. reflexivity.
Qed.

Lemma inject_WF h2 v data h2' v' :
  WFh h2 -> inject h2 v data = Val (h2', v') ->
  WFh h2' /\ stable h2 h2' /\ (forall j, rc_at h2' j = rc_at h2 j) /\
  pending h2' = pending h2 /\ cbins h2' = cbins h2.
Proof.
  intros W H. apply inject_inv in H as (js & Ha & Hm).
  destruct (alloc_all_spec _ _ _ _ W Ha) as (W' & St & Hrc & Hp & Hcb & _).
  auto.
Qed.

Lemma inject_stable h2 v data h2' v' :
  WFh h2 -> inject h2 v data = Val (h2', v') -> stable h2 h2'.
Proof. intros W H. apply (inject_WF _ _ _ _ _ W H). Qed.

(* ------------------------------------------------------------------ *)
(* transfer                                                            *)
(* ------------------------------------------------------------------ *)

Theorem transfer_copies_l : forall h h2 v v' data h2' v'',
  WFh h2 -> extract h v = Val (v', data) -> inject h2 v' data = Val (h2', v'') ->
  denote h2' v'' = denote h v.
Proof.
  intros h h2 v v' data h2' v'' W He Hi.
  rewrite (inject_denote _ _ _ _ _ W Hi). apply (extract_denote _ _ _ _ He).
Qed.

(* ------------------------------------------------------------------ *)
(* non-vacuity: a tuple holding slot 2 twice and slot 0 once           *)
(* ------------------------------------------------------------------ *)

Definition src_heap : heap :=
  mkHeap [Owned [1%Z; 2%Z]; Owned [9%Z]; Concat (Owned [3%Z]) (Owned [4%Z]) 2%Z]
         [1; 1; 2] [] [] [false; false; false] [].
Definition src_val : value := VTuple 5 [VBin 2; VBin 0; VInt 7%Z; VBin 2].

(* destination: slot 0 live, slot 1 free *)
Definition dst_heap : heap :=
  mkHeap [Owned [7%Z]; Owned []] [1; 0] [1] [] [false; true] [].

Example dst_heap_WF : WFh dst_heap.
Proof.
  unfold WFh, dst_heap; cbn [cells rcs free pending freed length].
  split; [reflexivity|]. split; [reflexivity|]. split; [constructor; [intros []|constructor]|].
  split; [|split].
  - intros i. split.
    + intros [<-|[]]. split; [lia|reflexivity].
    + intros [Hi Hf]. destruct i as [|[|i]]; [discriminate Hf|left; reflexivity|lia].
  - intros i Hf. destruct i as [|[|i]]; [discriminate Hf|reflexivity|].
    unfold freed_at in Hf; simpl in Hf. destruct i; discriminate Hf.
  - intros i [].
Qed.

Example transfer_example :
  exists v' data h2' v'',
    extract src_heap src_val = Val (v', data) /\
    v' = VTuple 5 [VBin 1; VBin 0; VInt 7%Z; VBin 1] /\
    data = [[1%Z; 2%Z]; [3%Z; 4%Z]] /\
    inject dst_heap v' data = Val (h2', v'') /\
    v'' = VTuple 5 [VBin 2; VBin 1; VInt 7%Z; VBin 2] /\
    cells h2' = [Owned [7%Z]; Owned [1%Z; 2%Z]; Owned [3%Z; 4%Z]] /\
    free h2' = [] /\
    denote h2' v'' = denote src_heap src_val /\
    denote src_heap src_val =
      Some (DNode 5 false [DBin [3%Z; 4%Z]; DBin [1%Z; 2%Z]; DLeaf (VInt 7%Z); DBin [3%Z; 4%Z]]).
Proof.
  do 4 eexists.
  split; [vm_compute; reflexivity|]. split; [reflexivity|]. split; [reflexivity|].
  split; [vm_compute; reflexivity|]. split; [reflexivity|]. split; [reflexivity|].
  split; [reflexivity|]. split; vm_compute; reflexivity.
Qed.

Print Assumptions transfer_copies_l.
Print Assumptions inject_WF.
