(* HeapSpawnFix.v — spawn_process as committed (fix_F46: one bundled injection) keeps the exact
   count. *)
From Quiver Require Import heap.HeapInv heap.HeapTransfer heap.HeapExec heap.HeapVmFix.
Require Import Lia List Arith.
Import ListNotations.
Local Open Scope nat_scope.

Lemma spawn_process_f46_XInv x pid fn caps arg data pers x' :
  XInv x -> get_proc x pid = None -> spawn_process_f46 x pid fn caps arg data pers = Val x' ->
  XInv x' /\ xstable x x'.
Proof.
  intros X G H. pose proof X as (W & R & ND). unfold spawn_process_f46 in H.
  destruct fn as [f|].
  - apply obind_val in H as ([h1 b] & Hi & H).
    destruct b as [| | |t fs| | | |]; try discriminate H.
    destruct (rev fs) as [|a1 rl] eqn:Er; [discriminate H|].
    apply obind_val in H as (h2 & Hr2 & H).
    apply obind_val in H as (h3 & Hr3 & H). inversion H; subst x'; clear H.
    destruct (inject_cnt _ _ _ _ _ W Hi) as (W1 & St1 & Cb1 & Rc1).
    unfold retain_vals in Hr2. destruct (retain_l_cnt _ _ _ W1 Hr2) as (W2 & St2 & Cb2 & Rc2).
    unfold retain in Hr3. destruct (retain_l_cnt _ _ _ W2 Hr3) as (W3 & St3 & Cb3 & Rc3).
    split.
    + apply XInv_put; [exact ND|]. split; [exact W3|]. intro i.
      rewrite Rc3, Rc2, Rc1, (R i), (all_refs_none _ _ G i), Cb3, Cb2, Cb1, cnt_proc_refs. proj_cbn.
      cbn [await_refs flat_map].
      rewrite cnt_refs_list_cons, ?cnt_refs_list_nil, ?cnt_nil. lia.
    + unfold xstable. cbn [x_heap put_proc put_heap].
      eapply stable_trans; [exact St1|]. eapply stable_trans; [exact St2|exact St3].
  - inversion H; subst x'; clear H. split; [|apply stable_refl].
    change (put_proc x pid ?q) with (put_proc (put_heap x (x_heap x)) pid q).
    apply XInv_put; [exact ND|]. apply XInv_take_none; [exact X|exact G|reflexivity].
Qed.

(* the F46 witness of HeapExec.spawn_orphans_refuted, on the repaired code: no orphan is left *)
Example spawn_f46_no_orphan :
  exists x', spawn_process_f46 (mkExec empty_heap []) 1 (Some 0) [VBin 0] (VInt 0%Z) [[1%Z]] false = Val x' /\
             rcs (x_heap x') = [1] /\ freed (x_heap x') = [false] /\ length (cells (x_heap x')) = 1.
Proof. eexists. split; [vm_compute; reflexivity|]. repeat split. Qed.
