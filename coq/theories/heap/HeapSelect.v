(* HeapSelect.v — the select machine (executor.rs:2130-2644, HeapVm.v) and the exact-count
   invariant: with hooks/fix_F9.patch (fx = true) every select handler re-establishes Inv; the
   code as found (fx = false) does not (finding F9: initialize_select / call_receive_function
   overwrite a counted value without releasing it). *)
From Quiver Require Import heap.HeapInv.
Require Import Lia List Arith.
Import ListNotations.
Local Open Scope nat_scope.

(* ------------------------------------------------------------------ *)
(* the state predicate with excess and the outcome predicate           *)
(* ------------------------------------------------------------------ *)

(* reached from (h0, p0): invariant with excess x, bytes stable, result untouched *)
Definition StX (o : list nat) (h0 : heap) (p0 : proc) (x : list nat) (h : heap) (p : proc) : Prop :=
  InvX o x h p /\ stable h0 h /\ p_result p = p_result p0.

(* the handler result re-establishes the invariant (no excess) relative to (h0, p0) *)
Definition G {A} (o : list nat) (h0 : heap) (p0 : proc) (r : mres A) : Prop :=
  match r with
  | MVal _ h' p' | MErr _ h' p' => StX o h0 p0 [] h' p'
  | MPanic _ => True
  end.

Lemma Good_G {A} o h p (r : mres A) : Good o h p r <-> G o h p r.
Proof.
  unfold Good, G, StX. destruct r as [a h' p'|e h' p'|n]; try tauto; rewrite InvX_nil; tauto.
Qed.

Lemma StX_init o h p : Inv o h p -> StX o h p [] h p.
Proof. intro HI. split; [apply InvX_nil; exact HI|]. split; [apply stable_refl|reflexivity]. Qed.

Lemma StX_Inv o h0 p0 h p : StX o h0 p0 [] h p -> Inv o h p.
Proof. intros [HI _]. apply InvX_nil. exact HI. Qed.

(* move references between the process and the excess (heap unchanged) *)
Lemma StX_move o h0 p0 y q x p h :
  StX o h0 p0 y h q -> p_result p = p_result q ->
  (forall i, cnt i (proc_refs q) + cnt i y = cnt i (proc_refs p) + cnt i x) ->
  StX o h0 p0 x h p.
Proof.
  intros [[W HI] [HS HR]] ER EC. split; [split; [exact W|]|split; [exact HS|congruence]].
  intro i. specialize (HI i). specialize (EC i). lia.
Qed.

(* ------------------------------------------------------------------ *)
(* structural rules                                                    *)
(* ------------------------------------------------------------------ *)
Section Rules.
Context {A B : Type}.
Variables (o : list nat) (h0 : heap) (p0 : proc).

Lemma G_assoc {C} (a : M A) (b : A -> M B) (c : B -> M C) h p :
  G o h0 p0 (mbind a (fun x => mbind (b x) c) h p) -> G o h0 p0 (mbind (mbind a b) c h p).
Proof. unfold mbind. destruct (a h p); auto. Qed.

Lemma G_ret_end (m : M A) h p : G o h0 p0 (mbind m mret h p) -> G o h0 p0 (m h p).
Proof. unfold mbind, mret. destruct (m h p); auto. Qed.

Lemma G_mret (a : A) (k : A -> M B) h p : G o h0 p0 (k a h p) -> G o h0 p0 (mbind (mret a) k h p).
Proof. auto. Qed.

Lemma G_mget (k : proc -> M B) h p : G o h0 p0 (k p h p) -> G o h0 p0 (mbind mget k h p).
Proof. auto. Qed.

Lemma G_mput (k : unit -> M B) q h p : G o h0 p0 (k tt h q) -> G o h0 p0 (mbind (mput q) k h p).
Proof. auto. Qed.

Lemma G_raw_push (k : unit -> M B) v h p :
  G o h0 p0 (k tt h (set_stack p (v :: p_stack p))) -> G o h0 p0 (mbind (raw_push v) k h p).
Proof. auto. Qed.

Lemma G_bump_pc (k : unit -> M B) h p :
  G o h0 p0 (k tt h (set_frames p (match p_frames p with fr :: r => set_pc fr (S (fr_pc fr)) :: r | [] => [] end))) ->
  G o h0 p0 (mbind bump_pc k h p).
Proof. auto. Qed.

Lemma G_raw_pop_req (k : value -> M B) h p :
  match p_stack p with
  | v :: st => G o h0 p0 (k v h (set_stack p st))
  | [] => StX o h0 p0 [] h p
  end -> G o h0 p0 (mbind raw_pop_req k h p).
Proof.
  unfold raw_pop_req, raw_pop, mbind, mret, mfail. destruct (p_stack p); auto.
Qed.

Lemma G_end_val (a : A) h p : StX o h0 p0 [] h p -> G o h0 p0 (mret a h p).
Proof. auto. Qed.

Lemma G_end_err (e : fault) h p : StX o h0 p0 [] h p -> G o h0 p0 (@mfail A e h p).
Proof. auto. Qed.

Lemma G_fail_bind (e : fault) (k : A -> M B) h p :
  StX o h0 p0 [] h p -> G o h0 p0 (mbind (mfail e) k h p).
Proof. auto. Qed.

Lemma G_panic_bind n (k : A -> M B) h p : G o h0 p0 (mbind (mpanic n) k h p).
Proof. exact I. Qed.

(* a sub-handler that is Good from any invariant state *)
Lemma G_call (m : M A) (k : A -> M B) h p :
  StX o h0 p0 [] h p ->
  (Inv o h p -> Good o h p (m h p)) ->
  (forall a h' p', StX o h0 p0 [] h' p' -> G o h0 p0 (k a h' p')) ->
  G o h0 p0 (mbind m k h p).
Proof.
  intros S HG HK. pose proof (HG (StX_Inv _ _ _ _ _ S)) as Hm.
  destruct S as [_ [HS HR]]. unfold mbind.
  destruct (m h p) as [a h' p'|e h' p'|n]; cbn [Good G] in *; auto.
  - apply HK. destruct Hm as (HI & HS' & HR'). split; [apply InvX_nil; exact HI|].
    split; [eapply stable_trans; eauto|congruence].
  - destruct Hm as (HI & HS' & HR'). split; [apply InvX_nil; exact HI|].
    split; [eapply stable_trans; eauto|congruence].
Qed.
End Rules.

(* ------------------------------------------------------------------ *)
(* heap primitives                                                     *)
(* ------------------------------------------------------------------ *)
Lemma retain1_not_err h i e : retain1 h i <> Err e.
Proof.
  unfold retain1. destruct (nth_error (freed h) i) as [[|]|]; destruct (nth_error (rcs h) i);
    discriminate.
Qed.
Lemma release1_not_err h i e : release1 h i <> Err e.
Proof.
  unfold release1. destruct (nth_error (freed h) i) as [[|]|];
    destruct (nth_error (rcs h) i) as [[|c]|]; discriminate.
Qed.
Lemma retain_l_not_err l : forall h e, retain_l h l <> Err e.
Proof.
  induction l as [|a t IH]; intros h e; cbn [retain_l]; [discriminate|].
  unfold obind. destruct (retain1 h a) as [h1|e1|n] eqn:E; [apply IH| |discriminate].
  exfalso. eapply retain1_not_err; eauto.
Qed.
Lemma release_l_not_err l : forall h e, release_l h l <> Err e.
Proof.
  induction l as [|a t IH]; intros h e; cbn [release_l]; [discriminate|].
  unfold obind. destruct (release1 h a) as [h1|e1|n] eqn:E; [apply IH| |discriminate].
  exfalso. eapply release1_not_err; eauto.
Qed.

Section Prims.
Context {B : Type}.
Variables (o : list nat) (h0 : heap) (p0 : proc).

(* release of the reference list l: the state is known as (y, q); the current process is p *)
Lemma G_release_l l x y q (k : unit -> M B) h p :
  StX o h0 p0 y h q -> p_result p = p_result q ->
  (forall i, cnt i (proc_refs q) + cnt i y = cnt i (proc_refs p) + cnt i l + cnt i x) ->
  (forall h', StX o h0 p0 x h' p -> G o h0 p0 (k tt h' p)) ->
  G o h0 p0 (mbind (mheap_ (fun h => release_l h l)) k h p).
Proof.
  intros S ER EC HK.
  assert (S1 : StX o h0 p0 (l ++ x) h p).
  { eapply StX_move; eauto. intro i. rewrite cnt_app. specialize (EC i). lia. }
  unfold mbind, mheap_. destruct (release_l h l) as [h'|e|n] eqn:E; cbn [G]; auto.
  - apply HK. destruct S1 as [HI [HS HR]].
    destruct (release_InvX _ _ _ _ _ _ HI E) as (HI' & HS' & _).
    split; [exact HI'|]. split; [eapply stable_trans; eauto|exact HR].
  - exfalso. eapply release_l_not_err; eauto.
Qed.

Lemma G_m_release v x y q (k : unit -> M B) h p :
  StX o h0 p0 y h q -> p_result p = p_result q ->
  (forall i, cnt i (proc_refs q) + cnt i y = cnt i (proc_refs p) + cnt i (refs_of v) + cnt i x) ->
  (forall h', StX o h0 p0 x h' p -> G o h0 p0 (k tt h' p)) ->
  G o h0 p0 (mbind (m_release v) k h p).
Proof. intros. eapply (G_release_l (refs_of v)); eauto. Qed.

Lemma G_release_vals vs x y q (k : unit -> M B) h p :
  StX o h0 p0 y h q -> p_result p = p_result q ->
  (forall i, cnt i (proc_refs q) + cnt i y = cnt i (proc_refs p) + cnt i (refs_list vs) + cnt i x) ->
  (forall h', StX o h0 p0 x h' p -> G o h0 p0 (k tt h' p)) ->
  G o h0 p0 (mbind (mheap_ (fun h => release_vals h vs)) k h p).
Proof. intros. eapply (G_release_l (refs_list vs)); eauto. Qed.

Lemma G_m_retain v x y q (k : unit -> M B) h p :
  StX o h0 p0 y h q -> p_result p = p_result q ->
  (forall i, cnt i (proc_refs q) + cnt i y + cnt i (refs_of v) = cnt i (proc_refs p) + cnt i x) ->
  (forall h', StX o h0 p0 x h' p -> G o h0 p0 (k tt h' p)) ->
  G o h0 p0 (mbind (m_retain v) k h p).
Proof.
  intros S ER EC HK.
  unfold mbind, m_retain, mheap_. destruct (retain h v) as [h'|e|n] eqn:E; cbn [G]; auto.
  - apply HK. destruct S as [HI [HS HR]].
    destruct (retain_InvX _ _ _ _ _ _ HI E) as (HI' & HS' & _).
    eapply StX_move.
    + split; [exact HI'|]. split; [eapply stable_trans; eauto|exact HR].
    + exact ER.
    + intro i. rewrite cnt_app. specialize (EC i). lia.
  - exfalso. unfold retain in E. eapply retain_l_not_err; eauto.
Qed.

(* push_value (400): retain then raw push; the state must be known for the current process *)
Lemma G_push_value v x (k : unit -> M B) h p :
  StX o h0 p0 x h p ->
  (forall h', StX o h0 p0 x h' (set_stack p (v :: p_stack p)) -> G o h0 p0 (k tt h' (set_stack p (v :: p_stack p)))) ->
  G o h0 p0 (mbind (push_value v) k h p).
Proof.
  intros S HK. unfold push_value. apply G_assoc.
  eapply (G_m_retain v (refs_of v ++ x)); [exact S|reflexivity| |].
  - intro i. rewrite cnt_app. lia.
  - intros h' S'. apply G_raw_push. apply HK.
    eapply StX_move; [exact S'|reflexivity|].
    intro i. rewrite !cnt_proc_refs. cbn [p_stack p_locals p_mailbox p_result p_sel p_await set_stack].
    rewrite cnt_refs_list_cons, cnt_app. lia.
Qed.
End Prims.
