(* HeapSelect.v — the select machine (executor.rs:2130-2644, HeapVm.v) and the exact-count
   invariant: with hooks/fix_F9.patch (fx = true) every select handler re-establishes Inv; the
   code as found (fx = false) does not (finding F9: initialize_select / call_receive_function
   overwrite a counted value without releasing it). *)
From Quiver Require Import heap.HeapInv.
Require Import Lia List Arith.
Import ListNotations.
Local Open Scope nat_scope.

(* ------------------------------------------------------------------ *)
(* the state predicate with excess and the outcome predicate           *)
(* ------------------------------------------------------------------ *)

(* reached from (h0, p0): invariant with excess x, bytes stable, result untouched *)
Definition StX (o : list nat) (h0 : heap) (p0 : proc) (x : list nat) (h : heap) (p : proc) : Prop :=
  InvX o x h p /\ stable h0 h /\ p_result p = p_result p0.

(* the handler result re-establishes the invariant (no excess) relative to (h0, p0) *)
Definition G {A} (o : list nat) (h0 : heap) (p0 : proc) (r : mres A) : Prop :=
  match r with
  | MVal _ h' p' | MErr _ h' p' => StX o h0 p0 [] h' p'
  | MPanic _ => True
  end.

Lemma Good_G {A} o h p (r : mres A) : Good o h p r <-> G o h p r.
Proof.
  unfold Good, G, StX. destruct r as [a h' p'|e h' p'|n]; try tauto; rewrite InvX_nil; tauto.
Qed.

Lemma StX_init o h p : Inv o h p -> StX o h p [] h p.
Proof. intro HI. split; [apply InvX_nil; exact HI|]. split; [apply stable_refl|reflexivity]. Qed.

Lemma StX_Inv o h0 p0 h p : StX o h0 p0 [] h p -> Inv o h p.
Proof. intros [HI _]. apply InvX_nil. exact HI. Qed.

(* move references between the process and the excess (heap unchanged) *)
Lemma StX_move o h0 p0 y q x p h :
  StX o h0 p0 y h q -> p_result p = p_result q ->
  (forall i, cnt i (proc_refs q) + cnt i y = cnt i (proc_refs p) + cnt i x) ->
  StX o h0 p0 x h p.
Proof.
  intros [[W HI] [HS HR]] ER EC. split; [split; [exact W|]|split; [exact HS|congruence]].
  intro i. specialize (HI i). specialize (EC i). lia.
Qed.

(* ------------------------------------------------------------------ *)
(* structural rules                                                    *)
(* ------------------------------------------------------------------ *)
Section Rules.
Context {A B : Type}.
Variables (o : list nat) (h0 : heap) (p0 : proc).

Lemma G_assoc {C} (a : M A) (b : A -> M B) (c : B -> M C) h p :
  G o h0 p0 (mbind a (fun x => mbind (b x) c) h p) -> G o h0 p0 (mbind (mbind a b) c h p).
Proof. unfold mbind. destruct (a h p); auto. Qed.

Lemma G_ret_end (m : M A) h p : G o h0 p0 (mbind m mret h p) -> G o h0 p0 (m h p).
Proof. unfold mbind, mret. destruct (m h p); auto. Qed.

Lemma G_mret (a : A) (k : A -> M B) h p : G o h0 p0 (k a h p) -> G o h0 p0 (mbind (mret a) k h p).
Proof. auto. Qed.

Lemma G_mget (k : proc -> M B) h p : G o h0 p0 (k p h p) -> G o h0 p0 (mbind mget k h p).
Proof. auto. Qed.

Lemma G_mput (k : unit -> M B) q h p : G o h0 p0 (k tt h q) -> G o h0 p0 (mbind (mput q) k h p).
Proof. auto. Qed.

Lemma G_raw_push (k : unit -> M B) v h p :
  G o h0 p0 (k tt h (set_stack p (v :: p_stack p))) -> G o h0 p0 (mbind (raw_push v) k h p).
Proof. auto. Qed.

Lemma G_bump_pc (k : unit -> M B) h p :
  G o h0 p0 (k tt h (set_frames p (match p_frames p with fr :: r => set_pc fr (S (fr_pc fr)) :: r | [] => [] end))) ->
  G o h0 p0 (mbind bump_pc k h p).
Proof. auto. Qed.

Lemma G_raw_pop_req (k : value -> M B) h p :
  match p_stack p with
  | v :: st => G o h0 p0 (k v h (set_stack p st))
  | [] => StX o h0 p0 [] h p
  end -> G o h0 p0 (mbind raw_pop_req k h p).
Proof.
  unfold raw_pop_req, raw_pop, mbind, mret, mfail. destruct (p_stack p); auto.
Qed.

Lemma G_end_val (a : A) h p : StX o h0 p0 [] h p -> G o h0 p0 (mret a h p).
Proof. auto. Qed.

Lemma G_end_err (e : fault) h p : StX o h0 p0 [] h p -> G o h0 p0 (@mfail A e h p).
Proof. auto. Qed.

Lemma G_fail_bind (e : fault) (k : A -> M B) h p :
  StX o h0 p0 [] h p -> G o h0 p0 (mbind (mfail e) k h p).
Proof. auto. Qed.

Lemma G_panic_bind n (k : A -> M B) h p : G o h0 p0 (mbind (mpanic n) k h p).
Proof. exact I. Qed.

(* a sub-handler that is Good from any invariant state *)
Lemma G_call (m : M A) (k : A -> M B) h p :
  StX o h0 p0 [] h p ->
  (Inv o h p -> Good o h p (m h p)) ->
  (forall a h' p', StX o h0 p0 [] h' p' -> G o h0 p0 (k a h' p')) ->
  G o h0 p0 (mbind m k h p).
Proof.
  intros S HG HK. pose proof (HG (StX_Inv _ _ _ _ _ S)) as Hm.
  destruct S as [_ [HS HR]]. unfold mbind.
  destruct (m h p) as [a h' p'|e h' p'|n]; cbn [Good G] in *; auto.
  - apply HK. destruct Hm as (HI & HS' & HR'). split; [apply InvX_nil; exact HI|].
    split; [eapply stable_trans; eauto|congruence].
  - destruct Hm as (HI & HS' & HR'). split; [apply InvX_nil; exact HI|].
    split; [eapply stable_trans; eauto|congruence].
Qed.
End Rules.

(* ------------------------------------------------------------------ *)
(* heap primitives                                                     *)
(* ------------------------------------------------------------------ *)
Lemma retain1_not_err h i e : retain1 h i <> Err e.
Proof.
  unfold retain1. destruct (nth_error (freed h) i) as [[|]|]; destruct (nth_error (rcs h) i);
    discriminate.
Qed.
Lemma release1_not_err h i e : release1 h i <> Err e.
Proof.
  unfold release1. destruct (nth_error (freed h) i) as [[|]|];
    destruct (nth_error (rcs h) i) as [[|c]|]; discriminate.
Qed.
Lemma retain_l_not_err l : forall h e, retain_l h l <> Err e.
Proof.
  induction l as [|a t IH]; intros h e; cbn [retain_l]; [discriminate|].
  unfold obind. destruct (retain1 h a) as [h1|e1|n] eqn:E; [apply IH| |discriminate].
  exfalso. eapply retain1_not_err; eauto.
Qed.
Lemma release_l_not_err l : forall h e, release_l h l <> Err e.
Proof.
  induction l as [|a t IH]; intros h e; cbn [release_l]; [discriminate|].
  unfold obind. destruct (release1 h a) as [h1|e1|n] eqn:E; [apply IH| |discriminate].
  exfalso. eapply release1_not_err; eauto.
Qed.

Section Prims.
Context {B : Type}.
Variables (o : list nat) (h0 : heap) (p0 : proc).

(* release of the reference list l: the state is known as (y, q); the current process is p *)
Lemma G_release_l l x y q (k : unit -> M B) h p :
  StX o h0 p0 y h q -> p_result p = p_result q ->
  (forall i, cnt i (proc_refs q) + cnt i y = cnt i (proc_refs p) + cnt i l + cnt i x) ->
  (forall h', StX o h0 p0 x h' p -> G o h0 p0 (k tt h' p)) ->
  G o h0 p0 (mbind (mheap_ (fun h => release_l h l)) k h p).
Proof.
  intros S ER EC HK.
  assert (S1 : StX o h0 p0 (l ++ x) h p).
  { eapply StX_move; eauto. intro i. rewrite cnt_app. specialize (EC i). lia. }
  unfold mbind, mheap_. destruct (release_l h l) as [h'|e|n] eqn:E; cbn [G]; auto.
  - apply HK. destruct S1 as [HI [HS HR]].
    destruct (release_InvX _ _ _ _ _ _ HI E) as (HI' & HS' & _).
    split; [exact HI'|]. split; [eapply stable_trans; eauto|exact HR].
  - exfalso. eapply release_l_not_err; eauto.
Qed.

Lemma G_m_release v x y q (k : unit -> M B) h p :
  StX o h0 p0 y h q -> p_result p = p_result q ->
  (forall i, cnt i (proc_refs q) + cnt i y = cnt i (proc_refs p) + cnt i (refs_of v) + cnt i x) ->
  (forall h', StX o h0 p0 x h' p -> G o h0 p0 (k tt h' p)) ->
  G o h0 p0 (mbind (m_release v) k h p).
Proof. intros. eapply (G_release_l (refs_of v)); eauto. Qed.

Lemma G_release_vals vs x y q (k : unit -> M B) h p :
  StX o h0 p0 y h q -> p_result p = p_result q ->
  (forall i, cnt i (proc_refs q) + cnt i y = cnt i (proc_refs p) + cnt i (refs_list vs) + cnt i x) ->
  (forall h', StX o h0 p0 x h' p -> G o h0 p0 (k tt h' p)) ->
  G o h0 p0 (mbind (mheap_ (fun h => release_vals h vs)) k h p).
Proof. intros. eapply (G_release_l (refs_list vs)); eauto. Qed.

Lemma G_m_retain v x y q (k : unit -> M B) h p :
  StX o h0 p0 y h q -> p_result p = p_result q ->
  (forall i, cnt i (proc_refs q) + cnt i y + cnt i (refs_of v) = cnt i (proc_refs p) + cnt i x) ->
  (forall h', StX o h0 p0 x h' p -> G o h0 p0 (k tt h' p)) ->
  G o h0 p0 (mbind (m_retain v) k h p).
Proof.
  intros S ER EC HK.
  unfold mbind, m_retain, mheap_. destruct (retain h v) as [h'|e|n] eqn:E; cbn [G]; auto.
  - apply HK. destruct S as [HI [HS HR]].
    destruct (retain_InvX _ _ _ _ _ _ HI E) as (HI' & HS' & _).
    eapply StX_move.
    + split; [exact HI'|]. split; [eapply stable_trans; eauto|exact HR].
    + exact ER.
    + intro i. rewrite cnt_app. specialize (EC i). lia.
  - exfalso. unfold retain in E. eapply retain_l_not_err; eauto.
Qed.

(* push_value (400): retain then raw push; the state must be known for the current process *)
Lemma G_push_value v x (k : unit -> M B) h p :
  StX o h0 p0 x h p ->
  (forall h', StX o h0 p0 x h' (set_stack p (v :: p_stack p)) -> G o h0 p0 (k tt h' (set_stack p (v :: p_stack p)))) ->
  G o h0 p0 (mbind (push_value v) k h p).
Proof.
  intros S HK. unfold push_value. apply G_assoc.
  eapply (G_m_retain v (refs_of v ++ x)); [exact S|reflexivity| |].
  - intro i. rewrite cnt_app. lia.
  - intros h' S'. apply G_raw_push. apply HK.
    eapply StX_move; [exact S'|reflexivity|].
    intro i. rewrite !cnt_proc_refs. cbn [p_stack p_locals p_mailbox p_result p_sel p_await set_stack].
    rewrite cnt_refs_list_cons, cnt_app. lia.
Qed.
End Prims.

(* ------------------------------------------------------------------ *)
(* tactics                                                             *)
(* ------------------------------------------------------------------ *)
Ltac pcbn :=
  cbn [p_stack p_locals p_frames p_pers p_mailbox p_result p_sel p_await p_unreported
       set_stack set_locals set_frames set_mailbox set_result set_sel set_await set_unreported
       ss_frame ss_instr ss_sources ss_cursors ss_start ss_recv
       set_cursor set_recv live_cursor].

Ltac cnts :=
  let i := fresh "i" in
  intro i; rewrite ?cnt_proc_refs; pcbn; cbn [sel_refs]; pcbn;
  rewrite ?cnt_app, ?cnt_refs_list_cons, ?cnt_refs_list_app, ?cnt_refs_list_nil, ?cnt_nil; lia.

Ltac t_release X :=
  eapply G_m_release with (x := X); [eassumption|reflexivity|cnts|intros ? ?]; cbv beta.
Ltac t_release_vals X :=
  eapply G_release_vals with (x := X); [eassumption|reflexivity|cnts|intros ? ?]; cbv beta.
Ltac t_retain X :=
  eapply G_m_retain with (x := X); [eassumption|reflexivity|cnts|intros ? ?]; cbv beta.
Ltac t_done := eapply StX_move; [eassumption|reflexivity|cnts].

(* ------------------------------------------------------------------ *)
(* 1. complete_select (2611)                                           *)
(* ------------------------------------------------------------------ *)
(* 09625d4: the select's process sources are forgotten, their stored results released *)
Lemma assoc_remove_refs i t : forall (a a' : list (nat * option value)) old,
  assoc_remove t a = (a', old) ->
  cnt i (await_refs a) =
  cnt i (await_refs a') + cnt i (match old with Some (Some v) => refs_of v | _ => [] end).
Proof.
  induction a as [|[j b] r IH]; intros a' old E; cbn [assoc_remove] in E.
  - inversion E; subst. unfold await_refs. cbn [flat_map snd app]. rewrite cnt_nil. lia.
  - destruct (t =? j).
    + inversion E; subst. unfold await_refs. cbn [flat_map snd]. rewrite !cnt_app.
      destruct b as [v|]; cbn [app]; rewrite ?cnt_nil; lia.
    + destruct (assoc_remove t r) as [t' o'] eqn:E'. inversion E; subst.
      specialize (IH _ _ eq_refl). unfold await_refs in *. cbn [flat_map snd].
      rewrite !cnt_app. lia.
Qed.

Lemma await_forget_refs i : forall srcs a acc a' stored,
  await_forget srcs a acc = (a', stored) ->
  cnt i (await_refs a) + cnt i (refs_list acc) = cnt i (await_refs a') + cnt i (refs_list stored).
Proof.
  induction srcs as [|s r IH]; intros a acc a' stored E; cbn [await_forget] in E.
  - inversion E; subst. reflexivity.
  - destruct s; try (apply IH in E; exact E).
    destruct (assoc_remove pid a) as [a1 old] eqn:E1.
    apply IH in E. pose proof (assoc_remove_refs i _ _ _ _ E1) as H1.
    destruct old as [[v|]|]; rewrite ?cnt_refs_list_app, ?cnt_refs_list_cons, ?cnt_refs_list_nil,
      ?cnt_nil in *; lia.
Qed.

Lemma complete_select_G fx result o h0 p0 h p :
  StX o h0 p0 [] h p -> G o h0 p0 (complete_select fx result h p).
Proof.
  intro S. destruct p as [st lo fr pe mb rs se aw ur].
  unfold complete_select. apply G_mget; cbv beta. apply G_mput; cbv beta. pcbn.
  destruct se as [[sf si srcs cur start recv]|]; pcbn.
  - apply G_assoc. destruct fx.
    + destruct (await_forget srcs aw []) as [a' stored] eqn:Ef.
      apply G_assoc. apply G_mget; cbv beta. apply G_assoc. apply G_mput; cbv beta. pcbn.
      pose proof (fun i => await_forget_refs i _ _ _ _ _ Ef) as Ha.
      destruct recv as [[n m]|].
      * eapply G_release_vals with (x := refs_list srcs ++ refs_of m);
          [eassumption|reflexivity| |intros ? ?; cbv beta].
        { intro i. specialize (Ha i). rewrite !cnt_proc_refs. pcbn. cbn [sel_refs]. pcbn.
          rewrite ?cnt_app, ?cnt_refs_list_nil, ?cnt_nil in *. lia. }
        apply G_assoc. t_release_vals (refs_of m). t_release (@nil nat).
        t_retain (refs_of result). apply G_raw_push. apply G_bump_pc. apply G_end_val. t_done.
      * eapply G_release_vals with (x := refs_list srcs);
          [eassumption|reflexivity| |intros ? ?; cbv beta].
        { intro i. specialize (Ha i). rewrite !cnt_proc_refs. pcbn. cbn [sel_refs]. pcbn.
          rewrite ?cnt_app, ?cnt_refs_list_nil, ?cnt_nil in *. lia. }
        apply G_assoc. t_release_vals (@nil nat). apply G_mret.
        t_retain (refs_of result). apply G_raw_push. apply G_bump_pc. apply G_end_val. t_done.
    + apply G_mret. apply G_assoc. destruct recv as [[n m]|].
      * t_release_vals (refs_of m). t_release (@nil nat).
        t_retain (refs_of result). apply G_raw_push. apply G_bump_pc. apply G_end_val. t_done.
      * t_release_vals (@nil nat). apply G_mret.
        t_retain (refs_of result). apply G_raw_push. apply G_bump_pc. apply G_end_val. t_done.
  - apply G_mret.
    t_retain (refs_of result). apply G_raw_push. apply G_bump_pc. apply G_end_val. t_done.
Qed.

Theorem complete_select_good fx result o h p :
  Inv o h p -> Good o h p (complete_select fx result h p).
Proof. intro HI. apply Good_G. apply complete_select_G. apply StX_init. exact HI. Qed.

(* ------------------------------------------------------------------ *)
(* 2. select_continuation (2130)                                       *)
(* ------------------------------------------------------------------ *)
Lemma select_continuation_G o h0 p0 h p :
  StX o h0 p0 [] h p -> G o h0 p0 (select_continuation h p).
Proof.
  intro S. destruct p as [st lo fr pe mb rs se aw ur].
  unfold select_continuation. apply G_mget; cbv beta. pcbn.
  destruct se as [[sf si srcs cur start recv]|]; pcbn; [|apply G_end_val; exact S].
  destruct (negb _); [apply G_end_err; exact S|].
  destruct recv as [[n m]|]; [|apply G_end_val; exact S].
  apply G_raw_pop_req. pcbn. destruct st as [|v st]; [exact S|].
  t_release (@nil nat). apply G_end_val. assumption.
Qed.

Theorem select_continuation_good o h p :
  Inv o h p -> Good o h p (select_continuation h p).
Proof. intro HI. apply Good_G. apply select_continuation_G. apply StX_init. exact HI. Qed.

(* ------------------------------------------------------------------ *)
(* 4. take_message                                                     *)
(* ------------------------------------------------------------------ *)
Lemma cnt_remove_nth i : forall (l : list value) idx m, nth_error l idx = Some m ->
  cnt i (refs_list l) = cnt i (refs_of m) + cnt i (refs_list (remove_nth idx l)).
Proof.
  induction l as [|a t IH]; intros idx m E; destruct idx as [|idx]; cbn [nth_error] in E;
    try discriminate.
  - inversion E; subst. cbn [remove_nth]. apply cnt_refs_list_cons.
  - cbn [remove_nth]. rewrite !cnt_refs_list_cons, (IH _ _ E). lia.
Qed.

Lemma take_message_G idx o h0 p0 h p :
  StX o h0 p0 [] h p -> G o h0 p0 (take_message idx h p).
Proof.
  intro S. destruct p as [st lo fr pe mb rs se aw ur].
  unfold take_message. apply G_mget; cbv beta. pcbn.
  destruct (nth_error mb idx) as [m|] eqn:E; [|apply G_end_val; exact S].
  apply G_mput; cbv beta. apply G_ret_end.
  eapply G_m_release with (x := @nil nat); [eassumption|reflexivity| |intros ? ?; cbv beta].
  - intro i. rewrite !cnt_proc_refs. pcbn. rewrite (cnt_remove_nth i _ _ _ E), cnt_nil. lia.
  - apply G_end_val. assumption.
Qed.

Theorem take_message_good idx o h p :
  Inv o h p -> Good o h p (take_message idx h p).
Proof. intro HI. apply Good_G. apply take_message_G. apply StX_init. exact HI. Qed.

(* ------------------------------------------------------------------ *)
(* 3. initialize_select (2166)                                         *)
(* ------------------------------------------------------------------ *)
Lemma assoc_set_None_refs i t : forall a a' old, assoc_set t (@None value) a = (a', old) ->
  cnt i (await_refs a) =
  cnt i (await_refs a') + cnt i (match old with Some (Some v) => refs_of v | _ => [] end).
Proof.
  induction a as [|[j b] r IH]; intros a' old E; cbn [assoc_set] in E.
  - inversion E; subst. unfold await_refs. cbn [flat_map snd app]. rewrite cnt_nil. lia.
  - destruct (t =? j).
    + inversion E; subst. unfold await_refs. cbn [flat_map snd]. rewrite !cnt_app.
      destruct b as [v|]; cbn [app]; rewrite ?cnt_nil; lia.
    + destruct (assoc_set t None r) as [t' o'] eqn:E'. inversion E; subst.
      specialize (IH _ _ eq_refl). unfold await_refs in *. cbn [flat_map snd].
      rewrite !cnt_app. lia.
Qed.

Lemma await_register_refs i : forall targets a acc a' stale,
  await_register targets a acc = (a', stale) ->
  cnt i (await_refs a) + cnt i (refs_list acc) = cnt i (await_refs a') + cnt i (refs_list stale).
Proof.
  induction targets as [|t r IH]; intros a acc a' stale E; cbn [await_register] in E.
  - inversion E; subst. reflexivity.
  - destruct (assoc_set t None a) as [a1 old] eqn:E1.
    apply IH in E. pose proof (assoc_set_None_refs i _ _ _ _ E1) as H1.
    destruct old as [[v|]|]; rewrite ?cnt_refs_list_app, ?cnt_refs_list_cons, ?cnt_refs_list_nil,
      ?cnt_nil in *; lia.
Qed.

(* the select sources hold exactly the references of the popped value *)
Lemma refs_sources v :
  refs_list (match v with VTuple _ els => els | _ => [v] end) = refs_of v.
Proof. destruct v; unfold refs_list; cbn [flat_map refs_of]; rewrite ?app_nil_r; reflexivity. Qed.

Lemma initialize_select_G pid now o h0 p0 h p :
  p_sel p = None ->
  StX o h0 p0 [] h p -> G o h0 p0 (initialize_select true pid now h p).
Proof.
  intros SE S. destruct p as [st lo fr pe mb rs se aw ur]. cbn [p_sel] in SE. subst se.
  unfold initialize_select. apply G_raw_pop_req. pcbn.
  destruct st as [|v st]; [exact S|]. cbv zeta. apply G_mget; cbv beta. pcbn.
  pose proof (refs_sources v) as RS.
  set (srcs := match v with VTuple _ els => els | _ => [v] end) in *.
  destruct (flat_map _ srcs) as [|t ts].
  - apply G_mput; cbv beta. apply G_end_val.
    eapply StX_move; [eassumption|reflexivity|].
    intro i. rewrite !cnt_proc_refs. pcbn. cbn [sel_refs]. pcbn.
    rewrite ?cnt_app, ?cnt_refs_list_cons, RS, ?cnt_nil. lia.
  - destruct (await_register (t :: ts) aw []) as [a' stale] eqn:EA.
    apply G_mput; cbv beta. cbv iota.
    eapply G_release_vals with (x := @nil nat); [eassumption|reflexivity| |intros ? ?; cbv beta].
    + intro i. pose proof (await_register_refs i _ _ _ _ _ EA) as HA.
      rewrite !cnt_proc_refs. pcbn. cbn [sel_refs]. pcbn.
      rewrite ?cnt_app, ?cnt_refs_list_cons, RS, ?cnt_refs_list_nil, ?cnt_nil in *. lia.
    + apply G_end_val. assumption.
Qed.

(* NOTE the hypothesis p_sel p = None: initialize_select overwrites select_state, and
   handle_select reaches it only when there is none (see initialize_select_over_refuted). *)
Theorem initialize_select_good pid now o h p :
  p_sel p = None ->
  Inv o h p -> Good o h p (initialize_select true pid now h p).
Proof. intros SE HI. apply Good_G. apply initialize_select_G; [exact SE|]. apply StX_init. exact HI. Qed.

(* ------------------------------------------------------------------ *)
(* witnesses: one live slot of count 1                                 *)
(* ------------------------------------------------------------------ *)
Definition wit_heap : heap := mkHeap [Owned []] [1] [] [] [false] [].
Definition wit_frame : frame := Build_frame 0 0 0 0.

Lemma wit_heap_WF : WFh wit_heap.
Proof.
  unfold WFh, wit_heap; cbn [cells rcs free pending freed length].
  split; [reflexivity|]. split; [reflexivity|]. split; [constructor|].
  split; [|split].
  - intro i. split; [intros []|]. intros [Hi Hf]. destruct i as [|i]; [discriminate Hf|lia].
  - intros i Hf. unfold freed_at in Hf. cbn [freed] in Hf.
    destruct i as [|[|i]]; discriminate Hf.
  - intros i [].
Qed.

Lemma wit_Inv p : proc_refs p = [0] -> Inv [] wit_heap p.
Proof.
  intro E. split; [exact wit_heap_WF|]. intro i. rewrite E.
  destruct i as [|[|i]]; reflexivity.
Qed.

Lemma wit_not_Inv p : proc_refs p = [] -> ~ Inv [] wit_heap p.
Proof. intros E [_ H]. specialize (H 0). rewrite E in H. discriminate H. Qed.

(* finding F9, first site: `awaiting.insert(target, None)` drops a counted result *)
Example initialize_select_refuted :
  exists o h p pid now, Inv o h p /\ p_sel p = None /\
    match initialize_select false pid now h p with
    | MVal _ h' p' => ~ Inv o h' p'
    | _ => False
    end.
Proof.
  exists [], wit_heap,
    (mkProc [VProc 7 0] [] [wit_frame] false [] None None [(7, Some (VBin 0))] []), 0, 0%Z.
  split; [apply wit_Inv; reflexivity|]. split; [reflexivity|].
  apply wit_not_Inv. reflexivity.
Qed.

(* the model's initialize_select overwrites an existing select state without releasing it, with
   or without the fix: the hypothesis p_sel p = None of initialize_select_good is needed
   (handle_select guarantees it) *)
Example initialize_select_over_refuted :
  exists o h p pid now, Inv o h p /\
    match initialize_select true pid now h p with
    | MVal _ h' p' => ~ Inv o h' p'
    | _ => False
    end.
Proof.
  exists [], wit_heap,
    (mkProc [VInt 0] [] [wit_frame] false [] None (Some (mkSel 0 0 [VBin 0] [] None None)) [] []),
    0, 0%Z.
  split; [apply wit_Inv; reflexivity|].
  apply wit_not_Inv. reflexivity.
Qed.

(* non-vacuity of initialize_select_good: the same process as in the refutation, fixed code:
   the displaced result is released and the invariant holds afterwards *)
Example initialize_select_fixed_ex :
  match initialize_select true 0 0%Z wit_heap
          (mkProc [VProc 7 0] [] [wit_frame] false [] None None [(7, Some (VBin 0))] []) with
  | MVal (Some (AAwait [7] 0)) h' p' => rc_at h' 0 = 0 /\ p_await p' = [(7, None)]
  | _ => False
  end.
Proof. vm_compute. split; reflexivity. Qed.

Section Sel.
Variable P : hprogram.
(* proved in another file (HeapHandlers.v) *)
Hypothesis handle_call_good : forall x o h p, Inv o h p -> Good o h p (handle_call P x h p).

(* ------------------------------------------------------------------ *)
(* 5. call_receive_function (2549)                                     *)
(* ------------------------------------------------------------------ *)
Lemma call_receive_function_G ridx midx msg src x o h0 p0 h p :
  p_sel p <> None ->
  StX o h0 p0 [] h p -> G o h0 p0 (call_receive_function true P ridx midx msg src x h p).
Proof.
  intros SE S. destruct p as [st lo fr pe mb rs se aw ur]. cbn [p_sel] in SE.
  destruct se as [[sf si srcs cur start recv]|]; [clear SE|congruence].
  unfold call_receive_function.
  t_retain (refs_of msg). apply G_mget; cbv beta. pcbn.
  destruct (length cur <=? ridx); [apply G_panic_bind|].
  apply G_assoc. apply G_mput; cbv beta.
  destruct recv as [[n old]|].
  - t_release (@nil nat).
    eapply G_push_value with (x := @nil nat); [eassumption|intros ? ?].
    eapply G_push_value with (x := @nil nat); [eassumption|intros ? ?].
    eapply G_call; [eassumption|intro; apply handle_call_good; assumption|].
    intros a h9 p9 S9. apply G_end_val. exact S9.
  - apply G_mret.
    eapply G_push_value with (x := @nil nat); [t_done|intros ? ?].
    eapply G_push_value with (x := @nil nat); [eassumption|intros ? ?].
    eapply G_call; [eassumption|intro; apply handle_call_good; assumption|].
    intros a h9 p9 S9. apply G_end_val. exact S9.
Qed.

(* NOTE the hypothesis p_sel p <> None: without a select state the model retains msg and stores
   it nowhere (`| None => mret tt`); executor.rs reaches this function only from
   scan_mailbox_for_message, with a select state. *)
Theorem call_receive_function_good ridx midx msg src x o h p :
  p_sel p <> None ->
  Inv o h p -> Good o h p (call_receive_function true P ridx midx msg src x h p).
Proof.
  intros SE HI. apply Good_G. apply call_receive_function_G; [exact SE|]. apply StX_init. exact HI.
Qed.

(* finding F9, second site: `state.receiving = Some(..)` overwrites a held message *)
Example call_receive_refuted :
  exists o h p ridx midx msg src x, Inv o h p /\ p_sel p <> None /\
    match call_receive_function false P ridx midx msg src x h p with
    | MVal _ h' p' | MErr _ h' p' => ~ Inv o h' p'
    | MPanic _ => False
    end.
Proof.
  exists [], wit_heap,
    (mkProc [] [] [wit_frame] false [] None (Some (mkSel 0 0 [] [0] None (Some (1, VBin 0)))) [] []),
    0, 0, (VInt 5), (VInt 0), (Build_hext None false [] 0%Z).
  split; [apply wit_Inv; reflexivity|]. split; [discriminate|].
  apply wit_not_Inv. reflexivity.
Qed.

(* ------------------------------------------------------------------ *)
(* 6. the receive path and the source loop                             *)
(* ------------------------------------------------------------------ *)
Lemma Good_mret {A} (a : A) o h p : Inv o h p -> Good o h p (mret a h p).
Proof. intro HI. split; [exact HI|]. split; [apply stable_refl|reflexivity]. Qed.

(* like G_call, with a fact R about the value and the process reached passed to the continuation *)
Lemma G_call2 {A B} o h0 p0 (R : A -> proc -> Prop) (m : M A) (k : A -> M B) h p :
  StX o h0 p0 [] h p ->
  (Inv o h p -> Good o h p (m h p)) ->
  match m h p with MVal a _ p' => R a p' | _ => True end ->
  (forall a h' p', StX o h0 p0 [] h' p' -> R a p' -> G o h0 p0 (k a h' p')) ->
  G o h0 p0 (mbind m k h p).
Proof.
  intros S HG HR HK. pose proof (HG (StX_Inv _ _ _ _ _ S)) as Hm.
  destruct S as [_ [HS HRs]]. unfold mbind.
  destruct (m h p) as [a h' p'|e h' p'|n]; cbn [Good G] in *; auto.
  - apply HK; [|exact HR]. destruct Hm as (HI & HS' & HR'). split; [apply InvX_nil; exact HI|].
    split; [eapply stable_trans; eauto|congruence].
  - destruct Hm as (HI & HS' & HR'). split; [apply InvX_nil; exact HI|].
    split; [eapply stable_trans; eauto|congruence].
Qed.

(* the select state stays in place along the receive path *)
Lemma take_message_sel idx h p :
  match take_message idx h p with MVal _ _ p' => p_sel p' = p_sel p | _ => True end.
Proof.
  unfold take_message. cbv [mbind mget mret mput m_release mheap_].
  destruct (nth_error (p_mailbox p) idx) as [m|]; [|reflexivity].
  destruct (release h m); try exact I. reflexivity.
Qed.

Lemma receive_result_sel ridx mv rr h p : p_sel p <> None ->
  match receive_result ridx mv rr h p with MVal _ _ p' => p_sel p' <> None | _ => True end.
Proof.
  intro SE. unfold receive_result. destruct rr as [verdict|]; [|exact I].
  destruct (negb (is_nil verdict)).
  - cbv [mbind mget mret]. pose proof (take_message_sel (live_cursor p ridx) h p) as T.
    destruct (take_message (live_cursor p ridx) h p); try exact I. rewrite T. exact SE.
  - destruct p as [st lo fr pe mb rs se aw ur]. cbn [p_sel] in SE.
    destruct se as [[sf si srcs cur start recv]|]; [clear SE|congruence].
    cbv [mbind mget mret mput mpanic m_release mheap_]. pcbn.
    destruct (length cur <=? ridx); [exact I|].
    destruct recv as [[n m]|]; [destruct (release h m); try exact I|]; pcbn; discriminate.
Qed.

Lemma receive_result_G ridx mv rr o h0 p0 h p :
  StX o h0 p0 [] h p -> G o h0 p0 (receive_result ridx mv rr h p).
Proof.
  intro S. unfold receive_result. destruct rr as [verdict|]; [|apply G_end_err; exact S].
  destruct (negb (is_nil verdict)).
  - apply G_mget; cbv beta.
    eapply G_call; [exact S|intro; apply take_message_good; assumption|].
    intros a h9 p9 S9. apply G_end_val. exact S9.
  - apply G_mget; cbv beta. destruct p as [st lo fr pe mb rs se aw ur]. pcbn.
    destruct se as [[sf si srcs cur start recv]|]; pcbn.
    + destruct (length cur <=? ridx); [apply G_panic_bind|].
      apply G_assoc. apply G_mput; cbv beta.
      destruct recv as [[n m]|].
      * t_release (@nil nat). apply G_end_val. assumption.
      * apply G_mret. apply G_end_val. t_done.
    + apply G_mret. apply G_end_val. exact S.
Qed.

Theorem receive_result_good ridx mv rr o h p :
  Inv o h p -> Good o h p (receive_result ridx mv rr h p).
Proof. intro HI. apply Good_G. apply receive_result_G. apply StX_init. exact HI. Qed.

Lemma scan_mailbox_sel ridx src sc x msgs : forall idx cursor h p, p_sel p <> None ->
  match scan_mailbox true P ridx src sc x msgs idx cursor h p with
  | MVal SContinue _ p' => p_sel p' <> None
  | _ => True
  end.
Proof.
  induction msgs as [|m rest IH]; intros idx cursor h p SE; cbn [scan_mailbox].
  - destruct p as [st lo fr pe mb rs se aw ur]. cbn [p_sel] in SE.
    destruct se as [[sf si srcs cur start recv]|]; [clear SE|congruence].
    cbv [mbind mget mret mput]. pcbn.
    destruct (sc <? cursor); [destruct (ridx <? length cur)|]; pcbn; discriminate.
  - destruct (msg_compatible P m src); [destruct (is_type_only P src)|apply IH; exact SE].
    + cbv [mbind mret]. destruct (take_message idx h p); exact I.
    + cbv [mbind mret]. destruct (call_receive_function true P ridx idx m src x h p); exact I.
Qed.

Lemma scan_mailbox_G ridx src sc x msgs : forall idx cursor o h0 p0 h p,
  p_sel p <> None ->
  StX o h0 p0 [] h p -> G o h0 p0 (scan_mailbox true P ridx src sc x msgs idx cursor h p).
Proof.
  induction msgs as [|m rest IH]; intros idx cursor o h0 p0 h p SE S; cbn [scan_mailbox].
  - apply G_mget; cbv beta. destruct p as [st lo fr pe mb rs se aw ur].
    destruct se as [[sf si srcs cur start recv]|]; pcbn;
      [|destruct (sc <? cursor); apply G_mret; apply G_end_val; exact S].
    destruct (sc <? cursor); [|apply G_mret; apply G_end_val; exact S].
    destruct (ridx <? length cur); [|apply G_mret; apply G_end_val; exact S].
    apply G_mput; cbv beta. apply G_end_val. t_done.
  - destruct (msg_compatible P m src); [destruct (is_type_only P src)|apply IH; assumption].
    + eapply G_call; [exact S|intro; apply take_message_good; assumption|].
      intros a h9 p9 S9. apply G_end_val. exact S9.
    + eapply G_call; [exact S|intro; apply call_receive_function_good; assumption|].
      intros a h9 p9 S9. apply G_end_val. exact S9.
Qed.

(* the hypothesis p_sel p <> None is inherited from call_receive_function_good *)
Theorem scan_mailbox_good ridx src sc x msgs idx cursor o h p :
  p_sel p <> None ->
  Inv o h p -> Good o h p (scan_mailbox true P ridx src sc x msgs idx cursor h p).
Proof.
  intros SE HI. apply Good_G. apply scan_mailbox_G; [exact SE|]. apply StX_init. exact HI.
Qed.

Lemma select_receive_sel src_idx src snap rr x h p : p_sel p <> None ->
  match select_receive true P src_idx src snap rr x h p with
  | MVal SContinue _ p' => p_sel p' <> None
  | _ => True
  end.
Proof.
  intro SE. unfold select_receive. cbv zeta.
  set (ridx := count_recv (firstn src_idx (ss_sources snap))).
  set (m1 := match ss_recv snap with
             | Some (idx, msgval) => if idx =? ridx then receive_result ridx msgval rr else mret None
             | None => mret None
             end).
  assert (H1 : match m1 h p with MVal _ _ p' => p_sel p' <> None | _ => True end).
  { subst m1. destruct (ss_recv snap) as [[idx mv]|]; [destruct (idx =? ridx)|];
      [apply receive_result_sel; exact SE|exact SE|exact SE]. }
  cbv [mbind mget mret]. destruct (m1 h p) as [[v|] h1 p1|e h1 p1|n]; try exact I.
  apply scan_mailbox_sel. exact H1.
Qed.

Lemma select_receive_G src_idx src snap rr x o h0 p0 h p :
  p_sel p <> None ->
  StX o h0 p0 [] h p -> G o h0 p0 (select_receive true P src_idx src snap rr x h p).
Proof.
  intros SE S. unfold select_receive. cbv zeta.
  set (ridx := count_recv (firstn src_idx (ss_sources snap))).
  eapply G_call2 with (R := fun _ p' => p_sel p' <> None); [exact S| | |].
  - intro HI. destruct (ss_recv snap) as [[idx mv]|]; [destruct (idx =? ridx)|];
      [apply receive_result_good; exact HI|apply Good_mret; exact HI|apply Good_mret; exact HI].
  - destruct (ss_recv snap) as [[idx mv]|]; [destruct (idx =? ridx)|];
      [apply receive_result_sel; exact SE|exact SE|exact SE].
  - intros [v|] h9 p9 S9 SE9; [apply G_end_val; exact S9|].
    apply G_mget; cbv beta. apply scan_mailbox_G; assumption.
Qed.

Theorem select_receive_good src_idx src snap rr x o h p :
  p_sel p <> None ->
  Inv o h p -> Good o h p (select_receive true P src_idx src snap rr x h p).
Proof.
  intros SE HI. apply Good_G. apply select_receive_G; [exact SE|]. apply StX_init. exact HI.
Qed.

Lemma select_sources_G snap rr start now x srcs : forall src_idx o h0 p0 h p,
  p_sel p <> None ->
  StX o h0 p0 [] h p ->
  G o h0 p0 (select_sources true P snap rr start now x srcs src_idx h p).
Proof.
  induction srcs as [|s rest IH]; intros src_idx o h0 p0 h p SE S; cbn [select_sources].
  - apply G_end_val. exact S.
  - destruct s as [timeout|b|r|t fs|f caps|b|t f|rid ty]; try (apply G_end_err; exact S).
    + cbv zeta.
      destruct (Z.max timeout 0 <=? Z.max 0 (now - start))%Z;
        [apply complete_select_G; exact S|apply IH; assumption].
    + eapply G_call2 with (R := fun a p' => match a with SContinue => p_sel p' <> None | _ => True end);
        [exact S|intro; apply select_receive_good; assumption|apply select_receive_sel; exact SE|].
      intros [v| |] h9 p9 S9 SE9;
        [apply complete_select_G; exact S9|apply G_end_val; exact S9|apply IH; assumption].
    + eapply G_call2 with (R := fun a p' => match a with SContinue => p_sel p' <> None | _ => True end);
        [exact S|intro; apply select_receive_good; assumption|apply select_receive_sel; exact SE|].
      intros [v| |] h9 p9 S9 SE9;
        [apply complete_select_G; exact S9|apply G_end_val; exact S9|apply IH; assumption].
    + apply G_mget; cbv beta.
      destruct (assoc_get t (p_await p)) as [[v|]|];
        [apply complete_select_G; exact S|apply IH; assumption|apply IH; assumption].
Qed.

Theorem select_sources_good snap rr start now x srcs src_idx o h p :
  p_sel p <> None ->
  Inv o h p -> Good o h p (select_sources true P snap rr start now x srcs src_idx h p).
Proof.
  intros SE HI. apply Good_G. apply select_sources_G; [exact SE|]. apply StX_init. exact HI.
Qed.

(* handle_select (2582): the repaired select machine keeps the exact-count invariant *)
Theorem handle_select_good pid x o h p :
  Inv o h p -> Good o h p (handle_select true P pid x h p).
Proof.
  intro HI. apply Good_G. pose proof (StX_init _ _ _ HI) as S.
  unfold handle_select.
  eapply G_call; [exact S|intro; apply select_continuation_good; assumption|].
  intros rr h9 p9 S9. apply G_mget; cbv beta.
  destruct p9 as [st lo fr pe mb rs se aw ur]. pcbn.
  destruct se as [[sf si srcs cur start recv]|].
  - assert (K : forall m : M (option action),
               m = (let start0 := match ss_start (mkSel sf si srcs cur start recv) with
                                  | Some t => t | None => hx_now x end in
                    let ss' := mkSel sf si srcs cur (Some start0) recv in
                    mput (set_sel (mkProc st lo fr pe mb rs (Some (mkSel sf si srcs cur start recv)) aw ur)
                                  (Some ss')) ;;;
                    select_sources true P ss' rr start0 (hx_now x) x (ss_sources ss') 0) ->
               G o h p (m h9 (mkProc st lo fr pe mb rs (Some (mkSel sf si srcs cur start recv)) aw ur))).
    { intros m ->. cbv zeta. apply G_mput; cbv beta.
      apply select_sources_G; [pcbn; discriminate|t_done]. }
    (* 8388832: with unreported awaits the select only re-parks: no heap reference moves *)
    destruct ur as [|u ur'].
    + destruct rr as [v|]; pcbn; apply K; reflexivity.
    + destruct rr as [v|]; pcbn; apply G_end_val; exact S9.
  - destruct rr as [v|].
    + pcbn. destruct ur as [|u ur']; [apply G_end_err; exact S9|apply G_end_val; exact S9].
    + apply initialize_select_G; [reflexivity|exact S9].
Qed.
End Sel.

(* non-vacuity: a select state holding slot 0 completes with an integer; the source is released *)
Example complete_select_ex :
  match complete_select true (VInt 1) wit_heap
          (mkProc [] [] [wit_frame] false [] None (Some (mkSel 0 0 [VBin 0] [] None None)) [] []) with
  | MVal None h' p' => rc_at h' 0 = 0 /\ p_sel p' = None /\ p_stack p' = [VInt 1] /\ pending h' = [0]
  | _ => False
  end.
Proof. vm_compute. repeat split; reflexivity. Qed.

(* 09625d4: completing a select on a process forgets it: the entry disappears from `awaiting` and the
   stored result (slot 0) is released; before the repair (false) the entry and its count stay *)
Example complete_select_forgets :
  match complete_select true (VInt 1) wit_heap
          (mkProc [] [] [wit_frame] false [] None (Some (mkSel 0 0 [VProc 7 0] [] None None))
                  [(7, Some (VBin 0))] []) with
  | MVal None h' p' => rc_at h' 0 = 0 /\ p_await p' = [] /\ pending h' = [0]
  | _ => False
  end /\
  match complete_select false (VInt 1) wit_heap
          (mkProc [] [] [wit_frame] false [] None (Some (mkSel 0 0 [VProc 7 0] [] None None))
                  [(7, Some (VBin 0))] []) with
  | MVal None h' p' => rc_at h' 0 = 1 /\ p_await p' = [(7, Some (VBin 0))]
  | _ => False
  end.
Proof. vm_compute. repeat split; reflexivity. Qed.

Print Assumptions complete_select_good.
Print Assumptions select_continuation_good.
Print Assumptions initialize_select_good.
Print Assumptions initialize_select_refuted.
Print Assumptions take_message_good.
Print Assumptions call_receive_function_good.
Print Assumptions call_receive_refuted.
Print Assumptions handle_select_good.
