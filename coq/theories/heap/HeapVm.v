(* HeapVm.v — the value movements of quiver-core/src/executor.rs with their heap accounting.

   For every instruction handler, every notify_* / spawn_process / replace_locals /
   release_orphan_locals site, the frame auto-pop and the completion logic of Executor::step,
   this file gives the exact sequence of retain / release / allocate effects on the heap (Heap.v)
   and on the process's roots, INCLUDING the raw, un-accounted mutations (`process.stack.pop()`
   followed by `release` in handle_spawn / handle_send / initialize_select, `awaiting.insert`,
   the `select_state.receiving` overwrite).

   `fx : bool` selects the code AS COMMITTED (true) or the code before the repairs (false):
   fix_F9 (b6882e1): the displaced value is released before `awaiting[t]` / `receiving` is
   overwritten; fix_F45 (09625d4): complete_select forgets the select's process sources and releases
   any result stored for them, notify_result does not store a result for a key that is no longer
   awaited, the worker's Err arm only fails an awaiter that still awaits.

   What comes from outside a handler is an input `hext` of the step: the heap effects and the
   result of a builtin call, the verdicts of IsType / Equal, the clock. Scheduling state (queue,
   spawning / selecting / effecting sets) is not modelled: which process runs is an input. *)
From Quiver Require Export heap.Heap.
From Quiver Require Export vm.Vm.
Local Open Scope nat_scope.

Inductive ctype := CT (kind n : nat).
Inductive hconst := HInt (z : Z) | HBin (bs : list Z).

Record hprogram := {
  hp_consts : list hconst;
  hp_funcs : list func;
  hp_tuples : list nat;
  hp_nb : nat;
  hp_fparam : list (list ctype);    (* function_param_compatibility *)
  hp_bparam : list (list ctype);    (* builtin_param_compatibility *)
}.

(* process.rs: SelectState *)
Record selstate := mkSel {
  ss_frame : nat; ss_instr : nat; ss_sources : list value; ss_cursors : list nat;
  ss_start : option Z; ss_recv : option (nat * value) }.

(* process.rs: Process. stack: head = top; locals: Vec order; frames: head = innermost;
   mailbox: head = front; result: None | Some None (Err) | Some (Some v) (Ok v);
   awaiting: HashMap as an association list (keys unique) *)
Record proc := mkProc {
  p_stack : list value; p_locals : list value; p_frames : list frame; p_pers : bool;
  p_mailbox : list value; p_result : option (option value); p_sel : option selstate;
  p_await : list (nat * option value);
  (* 8388832 (F72): the awaited processes whose state has not been reported yet *)
  p_unreported : list nat }.

Definition new_proc (pers : bool) : proc := mkProc [] [] [] pers [] None None [] [].

Definition set_stack p s := mkProc s (p_locals p) (p_frames p) (p_pers p) (p_mailbox p) (p_result p) (p_sel p) (p_await p) (p_unreported p).
Definition set_locals p l := mkProc (p_stack p) l (p_frames p) (p_pers p) (p_mailbox p) (p_result p) (p_sel p) (p_await p) (p_unreported p).
Definition set_frames p f := mkProc (p_stack p) (p_locals p) f (p_pers p) (p_mailbox p) (p_result p) (p_sel p) (p_await p) (p_unreported p).
Definition set_mailbox p m := mkProc (p_stack p) (p_locals p) (p_frames p) (p_pers p) m (p_result p) (p_sel p) (p_await p) (p_unreported p).
Definition set_result p r := mkProc (p_stack p) (p_locals p) (p_frames p) (p_pers p) (p_mailbox p) r (p_sel p) (p_await p) (p_unreported p).
Definition set_sel p s := mkProc (p_stack p) (p_locals p) (p_frames p) (p_pers p) (p_mailbox p) (p_result p) s (p_await p) (p_unreported p).
Definition set_await p a := mkProc (p_stack p) (p_locals p) (p_frames p) (p_pers p) (p_mailbox p) (p_result p) (p_sel p) a (p_unreported p).
Definition set_unreported p u := mkProc (p_stack p) (p_locals p) (p_frames p) (p_pers p) (p_mailbox p) (p_result p) (p_sel p) (p_await p) u.

(* the roots of one process, as reachable_heap_indices (executor.rs:544) enumerates them *)
Definition sel_refs (s : option selstate) : list nat :=
  match s with
  | None => []
  | Some ss => refs_list (ss_sources ss) ++ match ss_recv ss with Some (_, v) => refs_of v | None => [] end
  end.
Definition await_refs (a : list (nat * option value)) : list nat :=
  flat_map (fun e => match snd e with Some v => refs_of v | None => [] end) a.
Definition result_refs (r : option (option value)) : list nat :=
  match r with Some (Some v) => refs_of v | _ => [] end.
Definition proc_refs (p : proc) : list nat :=
  refs_list (p_stack p) ++ refs_list (p_locals p) ++ refs_list (p_mailbox p) ++
  result_refs (p_result p) ++ sel_refs (p_sel p) ++ await_refs (p_await p).

(* what a builtin does to the heap before returning (builtins/binary.rs, vector.rs) *)
Inductive beff :=
| BAlloc (r : rope)                        (* allocate_binary_data(rope) *)
| BAllocTbl (tbl : list (nat * list Z))    (* the same, bytes looked up by the slot obtained *)
| BMat (i : nat).                          (* materialize(Heap i) *)

Record hext := {
  hx_value : option value;      (* result of a builtin call (None: the builtin failed) *)
  hx_bool : bool;               (* verdict of IsType / Equal *)
  hx_effects : list beff;       (* heap effects of the builtin *)
  hx_now : Z;                   (* current_time_ms *)
}.

(* routing requests (process.rs: Action) + "parked without a request" (mark_selecting) *)
Inductive action :=
| ASpawn (caller fn : nat) (caps : list value) (arg : value)
| ADeliver (target : nat) (v : value)
| AAwait (targets : list nat) (caller : nat)
| AParked.

(* ---------------- the handler monad: heap and the running process ---------------- *)
Inductive mres (A : Type) :=
| MVal (a : A) (h : heap) (p : proc)
| MErr (e : fault) (h : heap) (p : proc)     (* Err(error): the state reached so far persists *)
| MPanic (site : nat).
Arguments MVal {A}. Arguments MErr {A}. Arguments MPanic {A}.
Definition M (A : Type) := heap -> proc -> mres A.
Definition mret {A} (a : A) : M A := fun h p => MVal a h p.
Definition mbind {A B} (m : M A) (f : A -> M B) : M B :=
  fun h p => match m h p with
             | MVal a h' p' => f a h' p'
             | MErr e h' p' => MErr e h' p'
             | MPanic n => MPanic n
             end.
Notation "x <~ m ;; k" := (mbind m (fun x => k)) (at level 61, m at next level, right associativity).
Notation "m ;;; k" := (mbind m (fun _ => k)) (at level 61, right associativity).
Definition mfail {A} (e : fault) : M A := fun h p => MErr e h p.
Definition mpanic {A} (n : nat) : M A := fun _ _ => MPanic n.
Definition mget : M proc := fun h p => MVal p h p.
Definition mput (p' : proc) : M unit := fun h _ => MVal tt h p'.
(* a heap primitive; an Err of the heap layer (size limit, undefined constant) is a handler Err *)
Definition mheap {A} (f : heap -> outcome (heap * A)) : M A :=
  fun h p => match f h with
             | Val (h', a) => MVal a h' p
             | Err _ => MErr FBuiltinError h p
             | Panic n => MPanic n
             end.
Definition mheap_ (f : heap -> outcome heap) : M unit :=
  fun h p => match f h with
             | Val h' => MVal tt h' p
             | Err _ => MErr FBuiltinError h p
             | Panic n => MPanic n
             end.

(* ---------------- choke points (executor.rs:400-442) ---------------- *)
Definition m_retain (v : value) : M unit := mheap_ (fun h => retain h v).
Definition m_release (v : value) : M unit := mheap_ (fun h => release h v).
(* raw `proc.stack.push / pop` *)
Definition raw_push (v : value) : M unit := fun h p => MVal tt h (set_stack p (v :: p_stack p)).
Definition raw_pop : M (option value) :=
  fun h p => match p_stack p with
             | v :: st => MVal (Some v) h (set_stack p st)
             | [] => MVal None h p
             end.
Definition raw_pop_req : M value :=
  o <~ raw_pop ;; match o with Some v => mret v | None => mfail FStackUnderflow end.
(* push_value (400) *)
Definition push_value (v : value) : M unit := m_retain v ;;; raw_push v.
(* pop_value (408) *)
Definition pop_value : M (option value) :=
  o <~ raw_pop ;; match o with Some v => m_release v ;;; mret (Some v) | None => mret None end.
Definition pop_req : M value :=
  o <~ pop_value ;; match o with Some v => mret v | None => mfail FStackUnderflow end.
(* push_local (417) *)
Definition push_local (v : value) : M unit :=
  m_retain v ;;; (fun h p => MVal tt h (set_locals p (p_locals p ++ [v]))).
(* truncate_locals (423) *)
Definition truncate_locals (len : nat) : M unit :=
  fun h p =>
    if len <? length (p_locals p) then
      match release_vals h (skipn len (p_locals p)) with
      | Val h' => MVal tt h' (set_locals p (firstn len (p_locals p)))
      | Err _ => MErr FBuiltinError h p
      | Panic n => MPanic n
      end
    else MVal tt h p.
Fixpoint push_locals (vs : list value) : M unit :=
  match vs with [] => mret tt | v :: t => push_local v ;;; push_locals t end.
(* `for _ in 0..n { values.push(self.pop_value(proc).ok_or(StackUnderflow)?) }; values.reverse()` *)
Fixpoint pop_n (n : nat) (acc : list value) : M (list value) :=
  match n with O => mret acc | S m => v <~ pop_req ;; pop_n m (v :: acc) end.

Definition set_top_pc (pc : nat) : M unit :=
  fun h p => MVal tt h (set_frames p (match p_frames p with fr :: r => set_pc fr pc :: r | [] => [] end)).
(* `if let Some(frame) = proc.frames.last_mut() { frame.counter += 1 }` *)
Definition bump_pc : M unit :=
  fun h p => MVal tt h (set_frames p (match p_frames p with fr :: r => set_pc fr (S (fr_pc fr)) :: r | [] => [] end)).
Definition top_frame : M frame :=
  fun h p => match p_frames p with fr :: _ => MVal fr h p | [] => MErr FFrameUnderflow h p end.
(* `frame.counter.wrapping_add_signed(offset + 1)` on a 64-bit usize *)
Definition jump_pc (pc : nat) (off : Z) : nat := Z.to_nat ((Z.of_nat pc + off + 1) mod 2 ^ 64)%Z.

Definition next_slot (h : heap) : nat := match free h with i :: _ => i | [] => length (cells h) end.
Fixpoint lookup_tbl (i : nat) (t : list (nat * list Z)) : option (list Z) :=
  match t with [] => None | (j, bs) :: r => if i =? j then Some bs else lookup_tbl i r end.
Definition run_beff (e : beff) : M unit :=
  match e with
  | BAlloc r => mheap (fun h => pr <- alloc h r ;; Val (fst pr, tt))
  | BAllocTbl tbl => mheap (fun h => match lookup_tbl (next_slot h) tbl with
                                     | Some bs => pr <- alloc h (Owned bs) ;; Val (fst pr, tt)
                                     | None => Panic 9001        (* the trace does not match *)
                                     end)
  | BMat i => mheap (fun h => pr <- materialize h i ;; Val (fst pr, tt))
  end.
Fixpoint run_beffs (l : list beff) : M unit :=
  match l with [] => mret tt | e :: t => run_beff e ;;; run_beffs t end.

Section HVM.
Variable fx : bool.          (* hooks/fix_F9.patch applied? *)
Variable P : hprogram.

Definition const_bytes (k : nat) : option (list Z) :=
  match nth_error (hp_consts P) k with Some (HBin bs) => Some bs | _ => None end.

(* handle_constant (1448) *)
Definition handle_constant (k : nat) : M (option action) :=
  match nth_error (hp_consts P) k with
  | None => mfail FConstantUndefined
  | Some (HInt z) => push_value (VInt z) ;;; bump_pc ;;; mret None
  | Some (HBin bs) =>
      i <~ mheap (fun h => cached_constant h k (Some bs)) ;;
      push_value (VBin i) ;;; bump_pc ;;; mret None
  end.
(* handle_pop (1473) *)
Definition handle_pop : M (option action) := _v <~ pop_req ;; bump_pc ;;; mret None.
(* handle_duplicate (1482) *)
Definition handle_duplicate : M (option action) :=
  p <~ mget ;;
  match p_stack p with
  | v :: _ => push_value v ;;; bump_pc ;;; mret None
  | [] => mfail FStackUnderflow
  end.
(* handle_pick (1492) *)
Definition handle_pick (n : nat) : M (option action) :=
  p <~ mget ;;
  match nth_error (p_stack p) n with
  | Some v => push_value v ;;; bump_pc ;;; mret None
  | None => mfail FStackUnderflow
  end.
(* handle_rotate (1506): pure reordering, raw *)
Definition handle_rotate (n : nat) : M (option action) :=
  p <~ mget ;;
  if length (p_stack p) <? n then mfail FStackUnderflow
  else match n with
       | O => mpanic 1515                       (* Vec::remove(len) *)
       | S m => match nth_error (p_stack p) m with
                | Some v => mput (set_stack p (v :: firstn m (p_stack p) ++ skipn n (p_stack p))) ;;;
                            bump_pc ;;; mret None
                | None => mfail FStackUnderflow
                end
       end.
(* handle_load (1524) *)
Definition handle_load (idx : nat) : M (option action) :=
  fr <~ top_frame ;; p <~ mget ;;
  match nth_error (p_locals p) (fr_base fr + idx) with
  | Some v => push_value v ;;; bump_pc ;;; mret None
  | None => mfail FVariableUndefined
  end.
(* handle_store (1546) *)
Definition handle_store : M (option action) :=
  v <~ pop_req ;; push_local v ;;; bump_pc ;;; mret None.
(* handle_tuple (1558) *)
Definition handle_tuple (t : nat) : M (option action) :=
  match nth_error (hp_tuples P) t with
  | None => mfail FTypeMismatch
  | Some size => vs <~ pop_n size [] ;; push_value (VTuple t vs) ;;; bump_pc ;;; mret None
  end.
(* handle_get (1588) *)
Definition handle_get (idx : nat) : M (option action) :=
  v <~ pop_req ;;
  match v with
  | VTuple _ fs => match nth_error fs idx with
                   | Some e => push_value e ;;; bump_pc ;;; mret None
                   | None => mfail FFieldAccessInvalid
                   end
  | _ => mfail FTypeMismatch
  end.
(* handle_is_type (1613) *)
Definition handle_is_type (x : hext) : M (option action) :=
  _v <~ pop_req ;; push_value (if hx_bool x then vok else vnil) ;;; bump_pc ;;; mret None.
(* handle_jump (1672) *)
Definition handle_jump (off : Z) : M (option action) :=
  p <~ mget ;;
  match p_frames p with
  | fr :: _ => set_top_pc (jump_pc (fr_pc fr) off) ;;; mret None
  | [] => mret None
  end.
(* handle_jump_if (1685) *)
Definition handle_jump_if (off : Z) : M (option action) :=
  c <~ pop_req ;;
  if is_nil c then bump_pc ;;; mret None else handle_jump off.

(* handle_call (1708) *)
Definition handle_call (x : hext) : M (option action) :=
  p <~ mget ;;
  match p_stack p with
  | [] => mfail FStackUnderflow
  | VFun f caps :: _ =>
      match nth_error (hp_funcs P) f with
      | None => mfail FFunctionUndefined
      | Some _ =>
          _f <~ pop_value ;;
          param <~ pop_req ;;
          p1 <~ mget ;;
          let base := length (p_locals p1) in
          push_value param ;;;
          push_locals caps ;;;
          p2 <~ mget ;;
          mput (set_frames p2 (Build_frame f base (length caps) 0 :: p_frames p2)) ;;;
          mret None
      end
  | VBuiltin b :: _ =>
      _f <~ pop_value ;;
      _param <~ pop_req ;;
      if hp_nb P <=? b then mfail FBuiltinError      (* "Unrecognised builtin" *)
      else
        run_beffs (hx_effects x) ;;;
        match hx_value x with
        | Some v => push_value v ;;; bump_pc ;;; mret None
        | None => mfail FBuiltinError
        end
  | _ :: _ => mfail FTypeMismatch
  end.

(* handle_tail_call (1812) *)
Definition handle_tail_call (recurse : bool) : M (option action) :=
  if recurse then
    arg <~ pop_req ;;
    fr <~ top_frame ;;
    truncate_locals (fr_base fr + fr_caps fr) ;;;
    push_value arg ;;;
    p <~ mget ;;
    mput (set_frames p (match p_frames p with
                        | _ :: r => Build_frame (fr_fn fr) (fr_base fr) (fr_caps fr) 0 :: r
                        | [] => [] end)) ;;;
    mret None
  else
    fv <~ pop_req ;;
    arg <~ pop_req ;;
    match fv with
    | VFun f caps =>
        match nth_error (hp_funcs P) f with
        | None => mfail FFunctionUndefined
        | Some _ =>
            fr <~ top_frame ;;
            truncate_locals (fr_base fr) ;;;
            push_locals caps ;;;
            push_value arg ;;;
            p <~ mget ;;
            mput (set_frames p (match p_frames p with
                                | _ :: r => Build_frame f (fr_base fr) (length caps) 0 :: r
                                | [] => [] end)) ;;;
            mret None
        end
    | _ => mfail FCallInvalid
    end.

(* handle_function (1867) *)
Definition handle_function (f : nat) : M (option action) :=
  match nth_error (hp_funcs P) f with
  | None => mfail FFunctionUndefined
  | Some fd => caps <~ pop_n (f_caps fd) [] ;; push_value (VFun f caps) ;;; bump_pc ;;; mret None
  end.
(* handle_reset (1894) *)
Definition handle_reset (idx : nat) : M (option action) :=
  fr <~ top_frame ;; p <~ mget ;;
  let target := fr_base fr + idx in
  if length (p_locals p) <? target then mfail FStackUnderflow
  else truncate_locals target ;;; bump_pc ;;; mret None.
(* handle_builtin (1911) *)
Definition handle_builtin (b : nat) : M (option action) :=
  if hp_nb P <=? b then mfail FBuiltinUndefined
  else push_value (VBuiltin b) ;;; bump_pc ;;; mret None.
(* handle_equal (1929) *)
Definition handle_equal (n : nat) (x : hext) : M (option action) :=
  p <~ mget ;;
  if length (p_stack p) <? n then mfail FStackUnderflow
  else vs <~ pop_n n [] ;;
       match vs with
       | [] => mpanic 1943                      (* values[0] *)
       | _ :: _ => push_value (if hx_bool x then vok else vnil) ;;; bump_pc ;;; mret None
       end.
(* handle_not (1962) *)
Definition handle_not : M (option action) :=
  v <~ pop_req ;; push_value (if is_nil v then vok else vnil) ;;; bump_pc ;;; mret None.

Definition is_receiving (p : proc) : bool :=
  match p_sel p with Some ss => match ss_recv ss with Some _ => true | None => false end | None => false end.

(* handle_spawn (1979): raw pops, then release *)
Definition handle_spawn (pid : nat) : M (option action) :=
  p <~ mget ;;
  if is_receiving p then mfail FBuiltinError         (* OperationNotAllowed *)
  else
    fv <~ raw_pop_req ;;
    arg <~ raw_pop_req ;;
    m_release fv ;;;
    m_release arg ;;;
    match fv with
    | VFun idx caps => mret (Some (ASpawn pid idx caps arg))    (* mark_spawning; counter unchanged *)
    | _ => mfail FTypeMismatch
    end.
(* handle_send (2030) *)
Definition handle_send (pid : nat) : M (option action) :=
  p <~ mget ;;
  if is_receiving p then mfail FBuiltinError
  else
    target <~ raw_pop_req ;;
    msg <~ raw_pop_req ;;
    m_release msg ;;;
    match target with
    | VProc t _ => raw_push target ;;; bump_pc ;;; mret (Some (ADeliver t msg))
    | _ => mfail FTypeMismatch
    end.
(* handle_self (2091): `frames.first()` is the root frame *)
Definition root_frame (l : list frame) : option frame :=
  match rev l with fr :: _ => Some fr | [] => None end.
Definition handle_self (pid : nat) : M (option action) :=
  p <~ mget ;;
  match root_frame (p_frames p) with
  | Some fr => raw_push (VProc pid (fr_fn fr)) ;;; bump_pc ;;; mret None
  | None => mfail FFrameUnderflow
  end.
(* handle_process_ref (2109) *)
Definition handle_process_ref (pid' f : nat) : M (option action) :=
  raw_push (VProc pid' f) ;;; bump_pc ;;; mret None.

(* ---------------- select (executor.rs:2130-2644) ---------------- *)
Definition is_recv_source (v : value) : bool :=
  match v with VFun _ _ | VBuiltin _ => true | _ => false end.
Definition count_recv (l : list value) : nat := length (filter is_recv_source l).

(* get_concrete_type (1641) *)
Definition ctype_of (v : value) : ctype :=
  match v with
  | VInt _ => CT 0 0 | VBin _ => CT 1 0 | VRef _ => CT 2 0 | VTuple t _ => CT 3 t
  | VFun f _ => CT 4 f | VBuiltin b => CT 5 b | VProc _ f => CT 6 f | VRes _ ty => CT 7 ty
  end.
Definition ctype_eqb (a b : ctype) : bool :=
  match a, b with CT k n, CT k' n' => (k =? k') && (n =? n') end.
(* check_message_compatible (1655) *)
Definition msg_compatible (m src : value) : bool :=
  match src with
  | VFun f _ => match nth_error (hp_fparam P) f with
                | Some set => existsb (ctype_eqb (ctype_of m)) set | None => true end
  | VBuiltin b => match nth_error (hp_bparam P) b with
                  | Some set => existsb (ctype_eqb (ctype_of m)) set | None => true end
  | _ => true
  end.
Definition is_type_only (src : value) : bool :=
  match src with
  | VFun f _ => match nth_error (hp_funcs P) f with
                | Some fd => match f_code fd with [] => true | _ => false end
                | None => false end
  | _ => true
  end.

Fixpoint remove_nth {A} (n : nat) (l : list A) : list A :=
  match l, n with [] , _ => [] | _ :: t, O => t | a :: t, S m => a :: remove_nth m t end.
Fixpoint assoc_get {A} (k : nat) (l : list (nat * A)) : option A :=
  match l with [] => None | (j, a) :: t => if k =? j then Some a else assoc_get k t end.
(* HashMap::insert: (new map, previous value) *)
Fixpoint assoc_set {A} (k : nat) (a : A) (l : list (nat * A)) : list (nat * A) * option A :=
  match l with
  | [] => ([(k, a)], None)
  | (j, b) :: t => if k =? j then ((k, a) :: t, Some b)
                   else let '(t', o) := assoc_set k a t in ((j, b) :: t', o)
  end.

(* HashMap::remove: (new map, removed value) *)
Fixpoint assoc_remove {A} (k : nat) (l : list (nat * A)) : list (nat * A) * option A :=
  match l with
  | [] => ([], None)
  | (j, b) :: t => if k =? j then (t, Some b)
                   else let '(t', o) := assoc_remove k t in ((j, b) :: t', o)
  end.
(* complete_select (09625d4): `process.awaiting.remove(target)` for every process source; the
   stored results are released afterwards *)
Fixpoint await_forget (srcs : list value) (a : list (nat * option value)) (stored : list value)
  : list (nat * option value) * list value :=
  match srcs with
  | [] => (a, stored)
  | VProc t _ :: r =>
      let '(a', old) := assoc_remove t a in
      await_forget r a' (match old with Some (Some v) => stored ++ [v] | _ => stored end)
  | _ :: r => await_forget r a stored
  end.
Definition has_key (k : nat) (a : list (nat * option value)) : bool :=
  match assoc_get k a with Some _ => true | None => false end.

Definition cur_frame_idx (p : proc) : nat := length (p_frames p) - 1.
Definition cur_instr (p : proc) : nat := match p_frames p with fr :: _ => fr_pc fr | [] => 0 end.

(* complete_select (2611) *)
Definition complete_select (result : value) : M (option action) :=
  p <~ mget ;;
  mput (set_sel p None) ;;;
  match p_sel p with
  | Some ss => (if fx then
                  let '(a', stored) := await_forget (ss_sources ss) (p_await p) [] in
                  p1 <~ mget ;;
                  mput (set_await p1 a') ;;;
                  mheap_ (fun h => release_vals h stored)
                else mret tt) ;;;
               mheap_ (fun h => release_vals h (ss_sources ss)) ;;;
               match ss_recv ss with Some (_, m) => m_release m | None => mret tt end
  | None => mret tt
  end ;;;
  m_retain result ;;;
  raw_push result ;;;
  bump_pc ;;;
  mret None.

(* handle_select_continuation (2130) *)
Definition select_continuation : M (option value) :=
  p <~ mget ;;
  match p_sel p with
  | None => mret None
  | Some ss =>
      if negb ((ss_frame ss =? cur_frame_idx p) && (ss_instr ss =? cur_instr p)) then mfail FBuiltinError
      else match ss_recv ss with
           | Some _ => verdict <~ raw_pop_req ;; m_release verdict ;;; mret (Some verdict)
           | None => mret None
           end
  end.

(* `process.awaiting.insert(target, None)` for every target (2223); with the fix the displaced
   results are released afterwards *)
Fixpoint await_register (targets : list nat) (a : list (nat * option value)) (stale : list value)
  : list (nat * option value) * list value :=
  match targets with
  | [] => (a, stale)
  | t :: r => let '(a', old) := assoc_set t None a in
              await_register r a' (match old with Some (Some v) => stale ++ [v] | _ => stale end)
  end.

(* initialize_select (2166) *)
Definition initialize_select (pid : nat) (now : Z) : M (option action) :=
  v <~ raw_pop_req ;;
  let sources := match v with VTuple _ els => els | single => [single] end in
  let targets := flat_map (fun s => match s with VProc t _ => [t] | _ => [] end) sources in
  p <~ mget ;;
  let ss := mkSel (cur_frame_idx p) (cur_instr p) sources (repeat 0 (count_recv sources))
                  (match targets with [] => Some now | _ => None end) None in
  match targets with
  | [] => mput (set_sel p (Some ss)) ;;; mret None
  | _ :: _ =>
      let '(a', stale) := await_register targets (p_await p) [] in
      (* 8388832: `process.unreported_awaits = pid_targets.clone()` *)
      mput (set_unreported (set_await (set_sel p (Some ss)) a') targets) ;;;
      (if fx then mheap_ (fun h => release_vals h stale) else mret tt) ;;;
      mret (Some (AAwait targets pid))                    (* mark_selecting *)
  end.

Definition live_cursor (p : proc) (ridx : nat) : nat :=
  match p_sel p with Some ss => nth ridx (ss_cursors ss) 0 | None => 0 end.
Definition set_cursor (p : proc) (ridx c : nat) : proc :=
  match p_sel p with
  | Some ss => set_sel p (Some (mkSel (ss_frame ss) (ss_instr ss) (ss_sources ss)
                                      (upd (ss_cursors ss) ridx c) (ss_start ss) (ss_recv ss)))
  | None => p
  end.
Definition set_recv (p : proc) (r : option (nat * value)) : proc :=
  match p_sel p with
  | Some ss => set_sel p (Some (mkSel (ss_frame ss) (ss_instr ss) (ss_sources ss)
                                      (ss_cursors ss) (ss_start ss) r))
  | None => p
  end.

(* `mailbox.remove(msg_idx)` + release of the removed message *)
Definition take_message (idx : nat) : M unit :=
  p <~ mget ;;
  match nth_error (p_mailbox p) idx with
  | Some m => mput (set_mailbox p (remove_nth idx (p_mailbox p))) ;;; m_release m
  | None => mret tt
  end.

(* call_receive_function (2549) *)
Definition call_receive_function (ridx midx : nat) (msg src : value) (x : hext) : M unit :=
  m_retain msg ;;;
  p <~ mget ;;
  match p_sel p with
  | Some ss =>
      if length (ss_cursors ss) <=? ridx then mpanic 2568          (* state.cursors[receive_idx] *)
      else
        mput (set_cursor (set_recv p (Some (ridx, msg))) ridx midx) ;;;
        (if fx then match ss_recv ss with Some (_, old) => m_release old | None => mret tt end
         else mret tt)
  | None => mret tt
  end ;;;
  push_value msg ;;;
  push_value src ;;;
  _a <~ handle_call x ;;
  mret tt.

Inductive selres := SComplete (v : value) | SCalled | SContinue.

(* scan_mailbox_for_message (2465): `msgs` = the mailbox from position `idx` on *)
Fixpoint scan_mailbox (ridx : nat) (src : value) (snap_cursor : nat) (x : hext)
         (msgs : list value) (idx cursor : nat) : M selres :=
  match msgs with
  | [] =>
      p <~ mget ;;
      (if snap_cursor <? cursor then
         match p_sel p with
         | Some ss => if ridx <? length (ss_cursors ss) then mput (set_cursor p ridx cursor) else mret tt
         | None => mret tt
         end
       else mret tt) ;;;
      mret SContinue
  | m :: rest =>
      if msg_compatible m src then
        if is_type_only src then take_message idx ;;; mret (SComplete m)
        else call_receive_function ridx idx m src x ;;; mret SCalled
      else scan_mailbox ridx src snap_cursor x rest (S idx) (S idx)
  end.

(* handle_receive_result (2403) *)
Definition receive_result (ridx : nat) (msgval : value) (rr : option value) : M (option value) :=
  match rr with
  | None => mfail FBuiltinError
  | Some verdict =>
      if negb (is_nil verdict) then
        p <~ mget ;;
        take_message (live_cursor p ridx) ;;;
        mret (Some msgval)
      else
        p <~ mget ;;
        match p_sel p with
        | Some ss =>
            if length (ss_cursors ss) <=? ridx then mpanic 2451
            else
              mput (set_recv (set_cursor p ridx (S (nth ridx (ss_cursors ss) 0))) None) ;;;
              match ss_recv ss with Some (_, m) => m_release m | None => mret tt end
        | None => mret tt
        end ;;;
        mret None
  end.

(* handle_select_receive (2374) *)
Definition select_receive (src_idx : nat) (src : value) (snap : selstate) (rr : option value) (x : hext)
  : M selres :=
  let ridx := count_recv (firstn src_idx (ss_sources snap)) in
  done <~ match ss_recv snap with
          | Some (idx, msgval) => if idx =? ridx then receive_result ridx msgval rr else mret None
          | None => mret None
          end ;;
  match done with
  | Some v => mret (SComplete v)
  | None =>
      p <~ mget ;;
      let cursor := live_cursor p ridx in
      scan_mailbox ridx src (nth ridx (ss_cursors snap) 0) x (skipn cursor (p_mailbox p)) cursor cursor
  end.

(* process_select_sources (2267), iterating over the snapshot's sources *)
Fixpoint select_sources (snap : selstate) (rr : option value) (start now : Z) (x : hext)
         (srcs : list value) (src_idx : nat) : M (option action) :=
  match srcs with
  | [] => mret (Some AParked)                               (* mark_selecting *)
  | s :: rest =>
      match s with
      | VInt timeout =>
          let elapsed := Z.max 0 (now - start) in
          if (Z.max timeout 0 <=? elapsed)%Z then complete_select vnil
          else select_sources snap rr start now x rest (S src_idx)
      | VProc t _ =>
          p <~ mget ;;
          match assoc_get t (p_await p) with
          | Some (Some v) => complete_select v
          | _ => select_sources snap rr start now x rest (S src_idx)
          end
      | VFun _ _ | VBuiltin _ =>
          r <~ select_receive src_idx s snap rr x ;;
          match r with
          | SComplete v => complete_select v
          | SCalled => mret None
          | SContinue => select_sources snap rr start now x rest (S src_idx)
          end
      | VRes _ _ => mfail FTypeMismatch
      | _ => mfail FBuiltinError
      end
  end.

(* handle_select (2582) *)
Definition handle_select (pid : nat) (x : hext) : M (option action) :=
  rr <~ select_continuation ;;
  p <~ mget ;;
  match rr, p_sel p with
  | None, None => initialize_select pid (hx_now x)
  | _, _ =>
    (* Phase 3 (8388832): until the await has reported every process source the select only
       re-parks (`mark_selecting; return Ok(None)`); its start time stays unset *)
    match p_unreported p with
    | _ :: _ => mret (Some AParked)
    | [] =>
      match p_sel p with
      | None => mfail FBuiltinError                          (* "Select state missing" *)
      | Some ss =>
          (* ensure_select_start_time (2238) *)
          let start := match ss_start ss with Some t => t | None => hx_now x end in
          let ss' := mkSel (ss_frame ss) (ss_instr ss) (ss_sources ss) (ss_cursors ss) (Some start) (ss_recv ss) in
          mput (set_sel p (Some ss')) ;;;
          select_sources ss' rr start (hx_now x) x (ss_sources ss') 0
      end
    end
  end.

(* execute_hot / execute_cold (1328, 1383) *)
Definition exec_instr (pid : nat) (i : instr) (x : hext) : M (option action) :=
  match i with
  | IConstant k => handle_constant k
  | IPop => handle_pop
  | IDuplicate => handle_duplicate
  | IPick n => handle_pick n
  | IRotate n => handle_rotate n
  | IReset n => handle_reset n
  | ILoad n => handle_load n
  | IStore => handle_store
  | ITuple t => handle_tuple t
  | IGet n => handle_get n
  | IIsType _ => handle_is_type x
  | IJump off => handle_jump off
  | IJumpIf off => handle_jump_if off
  | ICall => handle_call x
  | ITailCall r => handle_tail_call r
  | IFunction f => handle_function f
  | IBuiltin b => handle_builtin b
  | IEqual n => handle_equal n x
  | INot => handle_not
  | ISpawn => handle_spawn pid
  | ISend => handle_send pid
  | ISelf => handle_self pid
  | ISelect => handle_select pid x
  | IProcess p f => handle_process_ref p f
  end.

(* ---------------- the executor: all processes of one worker ---------------- *)
Record exec := mkExec { x_heap : heap; x_procs : list (nat * proc) }.
Definition get_proc (x : exec) (pid : nat) : option proc := assoc_get pid (x_procs x).
Definition put_proc (x : exec) (pid : nat) (p : proc) : exec :=
  mkExec (x_heap x) (fst (assoc_set pid p (x_procs x))).
Definition put_heap (x : exec) (h : heap) : exec := mkExec h (x_procs x).

Definition all_refs (x : exec) : list nat :=
  flat_map (fun e => proc_refs (snd e)) (x_procs x) ++ cb_refs (x_heap x).

(* current_instruction (1318) *)
Definition current_instr (p : proc) : outcome (option instr) :=
  match p_frames p with
  | [] => Val None
  | fr :: _ => match nth_error (hp_funcs P) (fr_fn fr) with
               | None => Panic 1320                         (* functions[frame.function_index] *)
               | Some fd => Val (nth_error (f_code fd) (fr_pc fr))
               end
  end.

Definition fail_proc (p : proc) : proc := set_frames (set_result p (Some None)) [].

(* the instruction loop of Executor::step (1118-1161) *)
Fixpoint run_slice (pid : nat) (fuel : nat) (xs : list hext) (dflt : hext) (h : heap) (p : proc)
  : outcome (heap * proc) :=
  match fuel with
  | O => Val (h, p)
  | S fuel' =>
      ci <- current_instr p ;;
      match ci with
      | None => Val (h, p)
      | Some i =>
          let x := match xs with e :: _ => e | [] => dflt end in
          match exec_instr pid i x h p with
          | MPanic n => Panic n
          | MErr _ h' p' => run_slice pid fuel' (tl xs) dflt h' (fail_proc p')
          | MVal (Some _) h' p' => Val (h', p')               (* pending request / parked *)
          | MVal None h' p' => run_slice pid fuel' (tl xs) dflt h' p'
          end
      end
  end.

(* frame auto-pop (1167-1219) *)
Fixpoint auto_pop (fuel : nat) (h : heap) (p : proc) : outcome (heap * proc) :=
  match fuel with
  | O => Val (h, p)
  | S fuel' =>
      ci <- current_instr p ;;
      match ci, p_frames p with
      | Some _, _ => Val (h, p)
      | None, [] => Val (h, p)
      | None, fr :: rest =>
          let is_last := match rest with [] => true | _ => false end in
          let clear := negb (p_pers p) || negb is_last in
          let p1 := set_frames p rest in
          let skip := match p_sel p1 with
                      | Some ss => (ss_frame ss =? cur_frame_idx p1) && (ss_instr ss =? cur_instr p1)
                      | None => false end in
          let p2 := if skip then p1
                    else set_frames p1 (match rest with c :: r => set_pc c (S (fr_pc c)) :: r | [] => [] end) in
          if clear then
            match truncate_locals (fr_base fr) h p2 with
            | MVal _ h' p' => auto_pop fuel' h' p'
            | MErr _ h' p' => auto_pop fuel' h' p'
            | MPanic n => Panic n
            end
          else auto_pop fuel' h p2
      end
  end.

(* notify_await_report (8388832): the state of `targets` is known to the awaiter's select *)
Definition report_await (x : exec) (awaiter : nat) (targets : list nat) : exec :=
  match get_proc x awaiter with
  | Some p => put_proc x awaiter
                (set_unreported p (filter (fun t => negb (existsb (Nat.eqb t) targets)) (p_unreported p)))
  | None => x
  end.

(* notify_result (753), after the "still awaited" test and the report *)
Definition notify_result_store (x : exec) (awaiter awaited : nat) (v : value) (data : list (list Z))
  : outcome exec :=
  pr <- inject (x_heap x) v data ;;
  let '(h1, v1) := pr in
  match get_proc x awaiter with
  | None => Val (put_heap x h1)
  | Some p =>
      h2 <- retain h1 v1 ;;
      let '(a', old) := assoc_set awaited (Some v1) (p_await p) in
      h3 <- (if fx then match old with Some (Some o) => release h2 o | _ => Val h2 end else Val h2) ;;
      Val (put_proc (put_heap x h3) awaiter (set_await p a'))
  end.
Definition still_awaited (x : exec) (awaiter awaited : nat) : bool :=
  match get_proc x awaiter with Some p => has_key awaited (p_await p) | None => false end.
(* notify_result (753): a result reports the state of its process BEFORE the heap data is injected
   (so the report stays when the injection fails) *)
Definition notify_result (x : exec) (awaiter awaited : nat) (v : value) (data : list (list Z))
  : outcome exec :=
  if fx && negb (still_awaited x awaiter awaited)
  then Val x                          (* no longer awaited: nothing is stored (wake_selecting only) *)
  else notify_result_store (report_await x awaiter [awaited]) awaiter awaited v data.

(* completion: notify every process whose `awaiting` has the key (1245-1280) *)
Fixpoint notify_awaiters (x : exec) (pid : nat) (res : option value) (ws : list nat) : outcome exec :=
  match ws with
  | [] => Val x
  | w :: rest =>
      x1 <- match res with
            | Some v =>
                (* `.ok()`: an Err of the internal notification is ignored. With empty heap data the
                   remap of any heap binary fails ("Heap index not in mapping"), so a result that
                   holds a binary is NOT stored here; the awaiter gets it through the worker
                   (check_completed_processes -> UpdateAwaitResults). *)
                match notify_result x w pid v [] with
                | Val x' => Val x'
                | Err _ => Val (report_await x w [pid])     (* the report preceded the failed remap *)
                | Panic n => Panic n
                end
            | None => match get_proc x w with
                      | Some p => Val (put_proc x w (fail_proc p))
                      | None => Val x
                      end
            end ;;
      notify_awaiters x1 pid res rest
  end.

(* Executor::step (1093) for the process `pid` (the front of the queue), `q` = instruction quantum *)
Definition exec_step (x : exec) (pid : option nat) (q : nat) (xs : list hext) (dflt : hext)
  : outcome exec :=
  h0 <- ppf (x_heap x) ;;
  match pid with
  | None => Val (put_heap x h0)
  | Some pid =>
    match get_proc x pid with
    | None => Val (put_heap x h0)
    | Some p0 =>
        pr <- run_slice pid q xs dflt h0 p0 ;;
        let '(h1, p1) := pr in
        pr2 <- auto_pop (S (length (p_frames p1))) h1 p1 ;;
        let '(h2, p2) := pr2 in
        match p_frames p2 with
        | _ :: _ => Val (put_proc (put_heap x h2) pid p2)
        | [] =>
            match p_result p2 with
            | Some None =>
                let x1 := put_proc (put_heap x h2) pid p2 in
                notify_awaiters x1 pid None
                  (map fst (filter (fun e => has_key pid (p_await (snd e))) (x_procs x1)))
            | _ =>
                match p_stack p2 with
                | [] => Val (put_proc (put_heap x h2) pid (set_result p2 (Some None)))
                | v :: st =>
                    let p3 := set_result (set_stack p2 st) (Some (Some v)) in
                    let x1 := put_proc (put_heap x h2) pid p3 in
                    notify_awaiters x1 pid (Some v)
                      (map fst (filter (fun e => has_key pid (p_await (snd e))) (x_procs x1)))
                end
            end
        end
    end
  end.

(* notify_message (831) *)
Definition notify_message (x : exec) (pid : nat) (v : value) (data : list (list Z)) : outcome exec :=
  pr <- inject (x_heap x) v data ;;
  let '(h1, v1) := pr in
  match get_proc x pid with
  | None => Val (put_heap x h1)
  | Some p =>
      h2 <- retain h1 v1 ;;
      Val (put_proc (put_heap x h2) pid (set_mailbox p (p_mailbox p ++ [v1])))
  end.

(* notify_spawn (734) *)
Definition notify_spawn (x : exec) (pid : nat) (pv : value) : outcome exec :=
  match get_proc x pid with
  | None => Val x
  | Some p =>
      match bump_pc (x_heap x) (set_stack p (pv :: p_stack p)) with
      | MVal _ _ p' => Val (put_proc x pid p')
      | _ => Val x
      end
  end.

(* spawn_process (645): every capture, then the argument, is injected SEPARATELY with the whole
   heap_data *)
Fixpoint inject_caps (h : heap) (caps : list value) (data : list (list Z)) (acc : list value)
  : outcome (heap * list value) :=
  match caps with
  | [] => Val (h, acc)
  | c :: r =>
      pr <- inject h c data ;;
      let '(h1, c1) := pr in
      h2 <- retain h1 c1 ;;
      inject_caps h2 r data (acc ++ [c1])
  end.
Definition spawn_process (x : exec) (pid : nat) (fn : option nat) (caps : list value) (arg : value)
           (data : list (list Z)) (pers : bool) : outcome exec :=
  match fn with
  | None => Val (put_proc x pid (set_result (new_proc pers) (Some (Some vnil))))
  | Some f =>
      pr <- inject_caps (x_heap x) caps data [] ;;
      let '(h1, locals) := pr in
      pr2 <- inject h1 arg data ;;
      let '(h2, a1) := pr2 in
      h3 <- retain h2 a1 ;;
      Val (put_proc (put_heap x h3) pid
             (mkProc [a1] locals [Build_frame f 0 (length caps) 0] pers [] None None [] []))
  end.

(* replace_locals (447) *)
Definition replace_locals (x : exec) (pid : nat) (new_locals : list value) : outcome exec :=
  match get_proc x pid with
  | None => Val x
  | Some p =>
      h1 <- retain_vals (x_heap x) new_locals ;;
      h2 <- release_vals h1 (p_locals p) ;;
      Val (put_proc (put_heap x h2) pid (set_locals p new_locals))
  end.
(* worker.rs:733 compact_locals: the kept values are clones of the current locals *)
Fixpoint pick_locals (l : list value) (keep : list nat) : option (list value) :=
  match keep with
  | [] => Some []
  | k :: r => match nth_error l k, pick_locals l r with
              | Some v, Some vs => Some (v :: vs)
              | _, _ => None
              end
  end.
Definition compact_locals (x : exec) (pid : nat) (keep : list nat) : outcome exec :=
  match get_proc x pid with
  | None => Val x
  | Some p => match pick_locals (p_locals p) keep with
              | Some vs => replace_locals x pid vs
              | None => Val x                                (* LocalNotFound: nothing happens *)
              end
  end.

(* release_orphan_locals (469) *)
Fixpoint orphan_split (l : list value) (idx : nat) (keep : list nat) : list value * list value :=
  match l with
  | [] => ([], [])
  | v :: t => let '(l', o) := orphan_split t (S idx) keep in
              if existsb (Nat.eqb idx) keep then (v :: l', o) else (vnil :: l', v :: o)
  end.
Definition release_orphan_locals (x : exec) (pid : nat) (keep : list nat) : outcome exec :=
  match get_proc x pid with
  | None => Val x
  | Some p =>
      let '(l', orphans) := orphan_split (p_locals p) 0 keep in
      h1 <- release_vals (x_heap x) orphans ;;
      Val (put_proc (put_heap x h1) pid (set_locals p l'))
  end.

(* worker.rs:564 notify_result, Err arm: (09625d4) only an awaiter that still awaits is failed *)
Definition fail_result (x : exec) (pid awaited : nat) : exec :=
  match get_proc x pid with
  | Some p => if fx && negb (has_key awaited (p_await p)) then x else put_proc x pid (fail_proc p)
  | None => x
  end.

(* worker.rs:441 resume_process: the previous result moves onto the stack *)
Definition resume_process (x : exec) (pid fn : nat) : exec :=
  match get_proc x pid with
  | Some p => match p_result p with
              | Some (Some v) =>
                  put_proc x pid (set_frames (set_stack (set_result p None) (v :: p_stack p))
                                             (Build_frame fn 0 0 0 :: p_frames p))
              | _ => x
              end
  | None => x
  end.

End HVM.
