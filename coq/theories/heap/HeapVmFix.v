(* HeapVmFix.v — spawn_process as it is after hooks/fix_F46.patch: captures and argument are
   injected ONCE, as one bundle (the mirror of Worker::handle_action's bundled extraction), so no
   copy of the transferred binaries is stranded. Kept beside the model of the code as found so that
   the correspondence holds before and after the repair lands. *)
From Quiver Require Export heap.HeapVm.
Local Open Scope nat_scope.

Definition spawn_process_f46 (x : exec) (pid : nat) (fn : option nat) (caps : list value) (arg : value)
           (data : list (list Z)) (pers : bool) : outcome exec :=
  match fn with
  | None => Val (put_proc x pid (set_result (new_proc pers) (Some (Some vnil))))
  | Some f =>
      pr <- inject (x_heap x) (VTuple NIL (caps ++ [arg])) data ;;
      let '(h1, b) := pr in
      match b with
      | VTuple _ fields =>
          match rev fields with
          | a1 :: rl =>
              let locals := rev rl in
              h2 <- retain_vals h1 locals ;;
              h3 <- retain h2 a1 ;;
              Val (put_proc (put_heap x h3) pid
                     (mkProc [a1] locals [Build_frame f 0 (length caps) 0] pers [] None None [] []))
          | [] => Panic 672          (* "bundle holds the argument last" *)
          end
      | _ => Panic 671               (* inject_heap_data preserves the value's shape *)
      end
  end.
