(* HeapExec.v — the refcount invariant at the level of the whole executor (all processes of one
   worker + the cached constants): every entry point of HeapVm.v that touches a process from the
   outside (notify_*, spawn_process, replace_locals, release_orphan_locals, fail_result,
   resume_process) and Executor::step itself re-establish

       XInv x : WFh (heap) /\ refcounts[i] = number of occurrences of i in ALL roots /\ keys unique.

   The instruction handlers enter through the section hypothesis `exec_instr_good` (proved in
   another file); the defects of the code as found are `*_refuted` examples. *)
From Quiver Require Import heap.HeapInv heap.HeapTransfer.
Require Import Lia List Arith.
Import ListNotations.
Local Open Scope nat_scope.

Definition RC (x : exec) : Prop := forall i, rc_at (x_heap x) i = cnt i (all_refs x).
Definition XInv (x : exec) : Prop := WFh (x_heap x) /\ RC x /\ NoDup (map fst (x_procs x)).
Definition xstable (x x' : exec) : Prop := stable (x_heap x) (x_heap x').
(* the references of every process except pid *)
Definition others (x : exec) (pid : nat) : list nat :=
  flat_map (fun e => if fst e =? pid then [] else proc_refs (snd e)) (x_procs x).

(* ------------------------------------------------------------------ *)
(* association lists                                                   *)
(* ------------------------------------------------------------------ *)

Definition prefs (l : list (nat * proc)) : list nat := flat_map (fun e => proc_refs (snd e)) l.
Definition orefs (pid : nat) (l : list (nat * proc)) : list nat :=
  flat_map (fun e => if fst e =? pid then [] else proc_refs (snd e)) l.

Lemma assoc_get_None {A} k (l : list (nat * A)) : assoc_get k l = None -> ~ In k (map fst l).
Proof.
  induction l as [|[j a] t IH]; intros H; cbn [assoc_get map fst In] in *; [tauto|].
  destruct (k =? j) eqn:E; [discriminate|]. apply Nat.eqb_neq in E.
  intros [Hj|Hin]; [congruence|]. apply IH; assumption.
Qed.

Lemma assoc_get_In {A} k (l : list (nat * A)) a : assoc_get k l = Some a -> In (k, a) l.
Proof.
  induction l as [|[j b] t IH]; intros H; cbn [assoc_get In] in *; [discriminate|].
  destruct (k =? j) eqn:E.
  - apply Nat.eqb_eq in E. inversion H; subst. left; reflexivity.
  - right. apply IH; assumption.
Qed.

Lemma assoc_get_of_In {A} k (l : list (nat * A)) a :
  NoDup (map fst l) -> In (k, a) l -> assoc_get k l = Some a.
Proof.
  induction l as [|[j b] t IH]; intros ND H; cbn [assoc_get In map fst] in *; [contradiction|].
  inversion ND as [|? ? Hnin ND']; subst.
  destruct H as [H|H].
  - inversion H; subst. rewrite Nat.eqb_refl. reflexivity.
  - destruct (k =? j) eqn:E.
    + apply Nat.eqb_eq in E. subst j. exfalso. apply Hnin.
      change k with (fst (k, a)). apply in_map. assumption.
    + apply IH; assumption.
Qed.

Lemma orefs_notin pid l : ~ In pid (map fst l) -> orefs pid l = prefs l.
Proof.
  induction l as [|[j p] t IH]; intros H; [reflexivity|].
  unfold orefs, prefs in *. cbn [flat_map fst snd map In] in *.
  destruct (j =? pid) eqn:E.
  - apply Nat.eqb_eq in E. exfalso. apply H. left; assumption.
  - rewrite IH; [reflexivity|]. intros Hin. apply H. right; assumption.
Qed.

Lemma prefs_split pid l p i :
  NoDup (map fst l) -> assoc_get pid l = Some p ->
  cnt i (prefs l) = cnt i (orefs pid l) + cnt i (proc_refs p).
Proof.
  induction l as [|[j q] t IH]; intros ND H; cbn [assoc_get] in H; [discriminate|].
  cbn [map fst] in ND. inversion ND as [|? ? Hnin ND']; subst.
  unfold orefs, prefs in *. cbn [flat_map fst snd].
  destruct (pid =? j) eqn:E.
  - apply Nat.eqb_eq in E. subst j. inversion H; subst q. rewrite Nat.eqb_refl.
    fold (orefs pid t). fold (prefs t). rewrite (orefs_notin _ _ Hnin).
    rewrite cnt_app. cbn [app]. lia.
  - rewrite Nat.eqb_sym, E. rewrite !cnt_app. rewrite (IH ND' H). lia.
Qed.

Lemma assoc_set_keys {A} k (a : A) l :
  map fst (fst (assoc_set k a l)) = if in_dec Nat.eq_dec k (map fst l) then map fst l else map fst l ++ [k].
Proof.
  induction l as [|[j b] t IH]; cbn [assoc_set].
  - reflexivity.
  - destruct (k =? j) eqn:E.
    + apply Nat.eqb_eq in E. subst j. cbn [fst map].
      destruct (in_dec Nat.eq_dec k (k :: map fst t)) as [_|N]; [reflexivity|].
      exfalso. apply N. left; reflexivity.
    + apply Nat.eqb_neq in E. destruct (assoc_set k a t) as [t' o] eqn:Es.
      cbn [fst map] in *. rewrite IH.
      destruct (in_dec Nat.eq_dec k (map fst t)) as [Hin|Hnin];
        destruct (in_dec Nat.eq_dec k (j :: map fst t)) as [Hin'|Hnin']; try reflexivity.
      * exfalso. apply Hnin'. right; assumption.
      * exfalso. destruct Hin' as [Hj|Hin']; [congruence|contradiction].
Qed.

Lemma NoDup_snoc (l : list nat) k : NoDup l -> ~ In k l -> NoDup (l ++ [k]).
Proof.
  induction l as [|x t IH]; intros ND Hnin; cbn [app].
  - constructor; [intros []|constructor].
  - inversion ND as [|? ? Hx ND']; subst. constructor.
    + intros Hin. apply in_app_or in Hin as [Hin|[Hin|[]]]; [contradiction|].
      apply Hnin. left; symmetry; assumption.
    + apply IH; [assumption|]. intros Hin. apply Hnin. right; assumption.
Qed.

Lemma assoc_set_NoDup {A} k (a : A) l :
  NoDup (map fst l) -> NoDup (map fst (fst (assoc_set k a l))).
Proof.
  intros ND. rewrite assoc_set_keys.
  destruct (in_dec Nat.eq_dec k (map fst l)) as [Hin|Hnin]; [assumption|].
  apply NoDup_snoc; assumption.
Qed.

Lemma assoc_get_set {A} k (a : A) l k' :
  assoc_get k' (fst (assoc_set k a l)) = if k' =? k then Some a else assoc_get k' l.
Proof.
  induction l as [|[j b] t IH]; cbn [assoc_set assoc_get fst].
  - destruct (k' =? k); reflexivity.
  - destruct (k =? j) eqn:E.
    + apply Nat.eqb_eq in E. subst j. cbn [fst assoc_get]. destruct (k' =? k); reflexivity.
    + destruct (assoc_set k a t) as [t' o] eqn:Es. cbn [fst assoc_get] in *.
      destruct (k' =? j) eqn:E'.
      * apply Nat.eqb_eq in E'. subst j. rewrite Nat.eqb_sym, E. reflexivity.
      * exact IH.
Qed.

Lemma orefs_set pid p l : orefs pid (fst (assoc_set pid p l)) = orefs pid l.
Proof.
  induction l as [|[j q] t IH]; cbn [assoc_set].
  - unfold orefs. cbn [fst flat_map snd]. rewrite Nat.eqb_refl. reflexivity.
  - destruct (pid =? j) eqn:E.
    + apply Nat.eqb_eq in E. subst j. unfold orefs. cbn [fst flat_map snd].
      rewrite Nat.eqb_refl. reflexivity.
    + destruct (assoc_set pid p t) as [t' o] eqn:Es. cbn [fst] in *.
      unfold orefs in *. cbn [flat_map fst snd]. rewrite IH. reflexivity.
Qed.

(* the `awaiting` map: what `insert` displaces leaves the roots, what it stores enters them *)
Definition oo_refs (o : option (option value)) : list nat :=
  match o with Some (Some v) => refs_of v | _ => [] end.

Lemma await_set_cnt k (a : option value) l l' old i :
  assoc_set k a l = (l', old) ->
  cnt i (await_refs l') + cnt i (oo_refs old) = cnt i (await_refs l) + cnt i (oo_refs (Some a)).
Proof.
  revert l' old. induction l as [|[j b] t IH]; intros l' old H; cbn [assoc_set] in H.
  - inversion H; subst. unfold await_refs. cbn [flat_map snd oo_refs].
    rewrite app_nil_r, !cnt_nil. destruct a; cbn [oo_refs]; rewrite ?cnt_nil; lia.
  - destruct (k =? j) eqn:E.
    + inversion H; subst. unfold await_refs. cbn [flat_map snd]. rewrite !cnt_app.
      destruct a, b; cbn [oo_refs]; rewrite ?cnt_nil; lia.
    + destruct (assoc_set k a t) as [t' o] eqn:Es. inversion H; subst.
      specialize (IH _ _ eq_refl). unfold await_refs in *. cbn [flat_map snd].
      rewrite !cnt_app. lia.
Qed.

(* ------------------------------------------------------------------ *)
(* 1. glue between XInv and Inv                                        *)
(* ------------------------------------------------------------------ *)

Lemma all_refs_split x pid p :
  NoDup (map fst (x_procs x)) -> get_proc x pid = Some p ->
  forall i, cnt i (all_refs x) = cnt i (others x pid) + cnt i (cb_refs (x_heap x)) + cnt i (proc_refs p).
Proof.
  intros ND G i. unfold all_refs, others, get_proc in *. rewrite cnt_app.
  fold (prefs (x_procs x)). fold (orefs pid (x_procs x)).
  rewrite (prefs_split pid _ p i ND G). lia.
Qed.

Lemma all_refs_none x pid :
  get_proc x pid = None ->
  forall i, cnt i (all_refs x) = cnt i (others x pid) + cnt i (cb_refs (x_heap x)).
Proof.
  intros G i. unfold all_refs, others, get_proc in *. rewrite cnt_app.
  fold (prefs (x_procs x)). fold (orefs pid (x_procs x)).
  rewrite (orefs_notin pid _ (assoc_get_None _ _ G)). reflexivity.
Qed.

Lemma put_proc_NoDup x pid p :
  NoDup (map fst (x_procs x)) -> NoDup (map fst (x_procs (put_proc x pid p))).
Proof. intros ND. unfold put_proc. cbn [x_procs]. apply assoc_set_NoDup; assumption. Qed.

Lemma others_put x h' pid p' : others (put_proc (put_heap x h') pid p') pid = others x pid.
Proof. unfold others, put_proc, put_heap. cbn [x_procs]. apply orefs_set. Qed.

Lemma get_put_proc x pid p w :
  get_proc (put_proc x pid p) w = if w =? pid then Some p else get_proc x w.
Proof. unfold get_proc, put_proc. cbn [x_procs]. apply assoc_get_set. Qed.

Lemma all_refs_put x h' pid p' :
  NoDup (map fst (x_procs x)) ->
  forall i, cnt i (all_refs (put_proc (put_heap x h') pid p')) =
            cnt i (others x pid) + cnt i (cb_refs h') + cnt i (proc_refs p').
Proof.
  intros ND i.
  assert (ND' : NoDup (map fst (x_procs (put_proc (put_heap x h') pid p')))).
  { apply put_proc_NoDup. exact ND. }
  assert (G : get_proc (put_proc (put_heap x h') pid p') pid = Some p').
  { rewrite get_put_proc, Nat.eqb_refl. reflexivity. }
  rewrite (all_refs_split _ pid p' ND' G i), others_put. reflexivity.
Qed.

Lemma XInv_take x pid p : XInv x -> get_proc x pid = Some p -> Inv (others x pid) (x_heap x) p.
Proof.
  intros (W & R & ND) G. split; [exact W|]. intro i. rewrite (R i).
  apply all_refs_split; assumption.
Qed.

Lemma XInv_take_none x pid p :
  XInv x -> get_proc x pid = None -> proc_refs p = [] -> Inv (others x pid) (x_heap x) p.
Proof.
  intros (W & R & ND) G E. split; [exact W|]. intro i. rewrite (R i), E, cnt_nil.
  rewrite (all_refs_none _ _ G). lia.
Qed.

Lemma XInv_put x h' pid p' :
  NoDup (map fst (x_procs x)) -> Inv (others x pid) h' p' -> XInv (put_proc (put_heap x h') pid p').
Proof.
  intros ND [W H]. split; [exact W|]. split.
  - intro i. rewrite (all_refs_put _ _ _ _ ND). cbn [x_heap put_proc put_heap]. apply H.
  - apply put_proc_NoDup. exact ND.
Qed.

Lemma XInv_put_heap x h' :
  XInv x -> WFh h' -> (forall i, rc_at h' i = rc_at (x_heap x) i) -> cb_refs h' = cb_refs (x_heap x) ->
  XInv (put_heap x h').
Proof.
  intros (W & R & ND) W' Hrc Hcb. split; [exact W'|]. split; [|exact ND].
  intro i. unfold all_refs, put_heap. cbn [x_heap x_procs]. rewrite Hrc, Hcb. apply R.
Qed.

Lemma Inv_refs_eq o h p p' :
  (forall i, cnt i (proc_refs p') = cnt i (proc_refs p)) -> Inv o h p -> Inv o h p'.
Proof. intros E [W H]. split; [exact W|]. intro i. rewrite E. apply H. Qed.

(* ------------------------------------------------------------------ *)
(* heap primitives as counting facts                                   *)
(* ------------------------------------------------------------------ *)

Lemma retain_l_cnt h l h' :
  WFh h -> retain_l h l = Val h' ->
  WFh h' /\ stable h h' /\ cb_refs h' = cb_refs h /\ forall i, rc_at h' i = rc_at h i + cnt i l.
Proof.
  intros W R. pose proof (retain_l_spec _ _ _ R) as (Ec & Ef & Ep & Efr & Ecb & El & Hrc).
  split; [eapply retain_l_WF; eauto|]. split; [eapply retain_l_stable; eauto|].
  split; [unfold cb_refs; rewrite Ecb; reflexivity|exact Hrc].
Qed.

Lemma release_l_cnt h l h' :
  WFh h -> release_l h l = Val h' ->
  WFh h' /\ stable h h' /\ cb_refs h' = cb_refs h /\ forall i, rc_at h' i + cnt i l = rc_at h i.
Proof.
  intros W R. pose proof (release_l_spec _ _ _ R) as (Ec & Ef & Efr & Ecb & El & Hrc & _).
  split; [eapply release_l_WF; eauto|]. split; [eapply release_l_stable; eauto|].
  split; [unfold cb_refs; rewrite Ecb; reflexivity|exact Hrc].
Qed.

Lemma inject_cnt h v data h' v' :
  WFh h -> inject h v data = Val (h', v') ->
  WFh h' /\ stable h h' /\ cb_refs h' = cb_refs h /\ forall i, rc_at h' i = rc_at h i.
Proof.
  intros W R. destruct (inject_WF _ _ _ _ _ W R) as (W' & St & Hrc & _ & Ecb).
  split; [exact W'|]. split; [exact St|]. split; [unfold cb_refs; rewrite Ecb; reflexivity|exact Hrc].
Qed.

Ltac proj_cbn :=
  cbn [p_stack p_locals p_frames p_pers p_mailbox p_result p_sel p_await
       set_stack set_locals set_frames set_mailbox set_result set_sel set_await fail_proc new_proc
       result_refs sel_refs].

(* ------------------------------------------------------------------ *)
(* 2. notify_message                                                   *)
(* ------------------------------------------------------------------ *)

Lemma notify_message_XInv x pid v data x' :
  XInv x -> notify_message x pid v data = Val x' -> XInv x' /\ xstable x x'.
Proof.
  intros X H. unfold notify_message in H.
  apply obind_val in H as ([h1 v1] & Hi & H).
  pose proof X as (W & R & ND).
  destruct (inject_cnt _ _ _ _ _ W Hi) as (W1 & St1 & Cb1 & Rc1).
  destruct (get_proc x pid) as [p|] eqn:G.
  - apply obind_val in H as (h2 & Hr & H). inversion H; subst x'; clear H.
    unfold retain in Hr.
    destruct (retain_l_cnt _ _ _ W1 Hr) as (W2 & St2 & Cb2 & Rc2).
    destruct (XInv_take _ _ _ X G) as [_ Hp].
    split.
    + apply XInv_put; [exact ND|]. split; [exact W2|]. intro i.
      rewrite Rc2, Rc1, Hp, Cb2, Cb1, !cnt_proc_refs. proj_cbn.
      rewrite cnt_refs_list_app, cnt_refs_list_cons, cnt_refs_list_nil. lia.
    + unfold xstable. cbn [x_heap put_proc put_heap]. eapply stable_trans; eauto.
  - inversion H; subst x'; clear H. split.
    + apply XInv_put_heap; assumption.
    + exact St1.
Qed.

(* ------------------------------------------------------------------ *)
(* 3. notify_result                                                    *)
(* ------------------------------------------------------------------ *)

Lemma notify_result_store_XInv x awaiter awaited v data x' :
  XInv x -> notify_result_store true x awaiter awaited v data = Val x' -> XInv x' /\ xstable x x'.
Proof.
  intros X H. unfold notify_result_store in H.
  apply obind_val in H as ([h1 v1] & Hi & H).
  pose proof X as (W & R & ND).
  destruct (inject_cnt _ _ _ _ _ W Hi) as (W1 & St1 & Cb1 & Rc1).
  destruct (get_proc x awaiter) as [p|] eqn:G.
  - apply obind_val in H as (h2 & Hr & H). unfold retain in Hr.
    destruct (retain_l_cnt _ _ _ W1 Hr) as (W2 & St2 & Cb2 & Rc2).
    destruct (assoc_set awaited (Some v1) (p_await p)) as [a' old] eqn:Es.
    apply obind_val in H as (h3 & Hrel & H). inversion H; subst x'; clear H.
    destruct (XInv_take _ _ _ X G) as [_ Hp].
    assert (Hrel' : release_l h2 (oo_refs old) = Val h3).
    { destruct old as [[o|]|]; cbn [oo_refs]; try exact Hrel; exact Hrel. }
    destruct (release_l_cnt _ _ _ W2 Hrel') as (W3 & St3 & Cb3 & Rc3).
    split.
    + apply XInv_put; [exact ND|]. split; [exact W3|]. intro i.
      pose proof (await_set_cnt _ _ _ _ _ i Es) as Ha. cbn [oo_refs] in Ha.
      specialize (Rc3 i). rewrite Rc2, Rc1, Hp in Rc3.
      rewrite Cb3, Cb2, Cb1, !cnt_proc_refs in *. proj_cbn. lia.
    + unfold xstable. cbn [x_heap put_proc put_heap].
      eapply stable_trans; [exact St1|]. eapply stable_trans; eauto.
  - inversion H; subst x'; clear H. split.
    + apply XInv_put_heap; assumption.
    + exact St1.
Qed.

(* the code as found (no hooks/fix_F9.patch): the displaced `awaiting` value is dropped without a
   release *)
Definition nr_heap : heap := mkHeap [Owned []] [1] [] [] [false] [].
Definition nr_exec : exec :=
  mkExec nr_heap [(0, mkProc [] [] [] false [] None None [(1, Some (VBin 0))] [])].

Lemma nth_nil_nat i : nth i (@nil nat) 0 = 0.
Proof. destruct i; reflexivity. Qed.
Lemma nth_nil_bool i : nth i (@nil bool) false = false.
Proof. destruct i; reflexivity. Qed.

Lemma nr_heap_WF : WFh nr_heap.
Proof.
  unfold WFh, nr_heap; cbn [cells rcs free pending freed length].
  split; [reflexivity|]. split; [reflexivity|]. split; [constructor|].
  split; [|split].
  - intros i. split; [intros []|]. intros [Hi Hf].
    destruct i as [|i]; [discriminate Hf|lia].
  - intros i Hf. destruct i as [|i]; [discriminate Hf|].
    unfold freed_at in Hf; simpl in Hf. destruct i; discriminate Hf.
  - intros i [].
Qed.

Example nr_exec_XInv : XInv nr_exec.
Proof.
  split; [exact nr_heap_WF|]. split.
  - intro i. destruct i as [|i]; [reflexivity|].
    replace (rc_at (x_heap nr_exec) (S i)) with 0 by (destruct i; reflexivity).
    symmetry. apply cnt_zero_notIn. vm_compute. intros [H|[]]. discriminate H.
  - cbn. constructor; [intros []|constructor].
Qed.

Example notify_result_refuted :
  exists x v, XInv x /\ exists x', notify_result false x 0 1 v [] = Val x' /\ ~ RC x'.
Proof.
  exists nr_exec, (VInt 5%Z). split; [exact nr_exec_XInv|].
  eexists. split; [vm_compute; reflexivity|].
  intro R. specialize (R 0). vm_compute in R. discriminate R.
Qed.

(* ------------------------------------------------------------------ *)
(* 4. notify_spawn                                                     *)
(* ------------------------------------------------------------------ *)

Lemma notify_spawn_XInv x pid pv x' :
  refs_of pv = [] -> XInv x -> notify_spawn x pid pv = Val x' -> XInv x' /\ xstable x x'.
Proof.
  intros E X H. unfold notify_spawn in H. pose proof X as (W & R & ND).
  destruct (get_proc x pid) as [p|] eqn:G.
  - unfold bump_pc in H. inversion H; subst x'; clear H. split; [|apply stable_refl].
    change (put_proc x pid ?q) with (put_proc (put_heap x (x_heap x)) pid q).
    apply XInv_put; [exact ND|]. eapply Inv_refs_eq; [|exact (XInv_take _ _ _ X G)].
    intro i. rewrite !cnt_proc_refs. proj_cbn. rewrite cnt_refs_list_cons, E, cnt_nil. lia.
  - inversion H; subst x'. split; [exact X|apply stable_refl].
Qed.

(* ------------------------------------------------------------------ *)
(* 5. spawn_process                                                    *)
(* ------------------------------------------------------------------ *)

Lemma inject_caps_cnt data : forall caps h acc h' locals,
  WFh h -> inject_caps h caps data acc = Val (h', locals) ->
  WFh h' /\ stable h h' /\ cb_refs h' = cb_refs h /\
  forall i, rc_at h' i + cnt i (refs_list acc) = rc_at h i + cnt i (refs_list locals).
Proof.
  induction caps as [|c r IH]; intros h acc h' locals W H; cbn [inject_caps] in H.
  - inversion H; subst. split; [exact W|]. split; [apply stable_refl|]. split; [reflexivity|].
    intro i; lia.
  - apply obind_val in H as ([h1 c1] & Hi & H). apply obind_val in H as (h2 & Hr & H).
    destruct (inject_cnt _ _ _ _ _ W Hi) as (W1 & St1 & Cb1 & Rc1).
    unfold retain in Hr. destruct (retain_l_cnt _ _ _ W1 Hr) as (W2 & St2 & Cb2 & Rc2).
    destruct (IH _ _ _ _ W2 H) as (W' & St' & Cb' & Rc').
    split; [exact W'|].
    split; [eapply stable_trans; [exact St1|eapply stable_trans; [exact St2|exact St']]|].
    split; [congruence|]. intro i. specialize (Rc' i).
    rewrite cnt_refs_list_app, cnt_refs_list_cons, cnt_refs_list_nil in Rc'.
    rewrite Rc2, Rc1 in Rc'. lia.
Qed.

Lemma spawn_process_XInv x pid fn caps arg data pers x' :
  XInv x -> get_proc x pid = None -> spawn_process x pid fn caps arg data pers = Val x' ->
  XInv x' /\ xstable x x'.
Proof.
  intros X G H. pose proof X as (W & R & ND). unfold spawn_process in H.
  destruct fn as [f|].
  - apply obind_val in H as ([h1 locals] & Hc & H).
    apply obind_val in H as ([h2 a1] & Hi & H).
    apply obind_val in H as (h3 & Hr & H). inversion H; subst x'; clear H.
    destruct (inject_caps_cnt _ _ _ _ _ _ W Hc) as (W1 & St1 & Cb1 & Rc1).
    destruct (inject_cnt _ _ _ _ _ W1 Hi) as (W2 & St2 & Cb2 & Rc2).
    unfold retain in Hr. destruct (retain_l_cnt _ _ _ W2 Hr) as (W3 & St3 & Cb3 & Rc3).
    split.
    + apply XInv_put; [exact ND|]. split; [exact W3|]. intro i.
      specialize (Rc1 i). rewrite cnt_refs_list_nil in Rc1.
      rewrite (R i), (all_refs_none _ _ G i) in Rc1.
      rewrite Rc3, Rc2, Cb3, Cb2, Cb1, cnt_proc_refs. proj_cbn.
      cbn [await_refs flat_map].
      rewrite cnt_refs_list_cons, ?cnt_refs_list_nil, ?cnt_nil. lia.
    + unfold xstable. cbn [x_heap put_proc put_heap].
      eapply stable_trans; [exact St1|]. eapply stable_trans; [exact St2|exact St3].
  - inversion H; subst x'; clear H. split; [|apply stable_refl].
    change (put_proc x pid ?q) with (put_proc (put_heap x (x_heap x)) pid q).
    apply XInv_put; [exact ND|]. apply XInv_take_none; [exact X|exact G|reflexivity].
Qed.

Lemma empty_heap_WF : WFh empty_heap.
Proof.
  unfold WFh, empty_heap; cbn [cells rcs free pending freed length].
  split; [reflexivity|]. split; [reflexivity|]. split; [constructor|]. split; [|split].
  - intros i. split; [intros []|]. intros [Hi _]. lia.
  - intros i Hf. unfold freed_at in Hf; simpl in Hf. destruct i; discriminate Hf.
  - intros i [].
Qed.

Example empty_exec_XInv : XInv (mkExec empty_heap []).
Proof.
  split; [exact empty_heap_WF|]. split.
  - intro i. destruct i; reflexivity.
  - constructor.
Qed.

(* finding F46: every capture and the argument are injected with the WHOLE heap_data, so each
   further injection allocates copies nobody references: count 0, not freed, not queued *)
Example spawn_orphans_refuted :
  exists x x', XInv x /\ NoOrphan (x_heap x) /\
    spawn_process x 1 (Some 0) [VBin 0] (VInt 0%Z) [[1%Z]] false = Val x' /\
    ~ NoOrphan (x_heap x').
Proof.
  exists (mkExec empty_heap []). eexists. split; [|split; [|split]].
  - exact empty_exec_XInv.
  - intros i Hi. cbn in Hi. lia.
  - vm_compute. reflexivity.
  - intro NO. destruct (NO 1) as [Hf|Hp].
    + cbn. lia.
    + reflexivity.
    + vm_compute in Hf. discriminate Hf.
    + vm_compute in Hp. exact Hp.
Qed.

(* ------------------------------------------------------------------ *)
(* 6. replace_locals / compact_locals / release_orphan_locals          *)
(* ------------------------------------------------------------------ *)

Lemma replace_locals_XInv x pid new x' :
  XInv x -> replace_locals x pid new = Val x' -> XInv x' /\ xstable x x'.
Proof.
  intros X H. pose proof X as (W & R & ND). unfold replace_locals in H.
  destruct (get_proc x pid) as [p|] eqn:G.
  - apply obind_val in H as (h1 & Hr & H). apply obind_val in H as (h2 & Hl & H).
    inversion H; subst x'; clear H.
    unfold retain_vals in Hr. unfold release_vals in Hl.
    destruct (retain_l_cnt _ _ _ W Hr) as (W1 & St1 & Cb1 & Rc1).
    destruct (release_l_cnt _ _ _ W1 Hl) as (W2 & St2 & Cb2 & Rc2).
    destruct (XInv_take _ _ _ X G) as [_ Hp].
    split.
    + apply XInv_put; [exact ND|]. split; [exact W2|]. intro i.
      specialize (Rc2 i). rewrite Rc1, Hp, cnt_proc_refs in Rc2.
      rewrite Cb2, Cb1, cnt_proc_refs. proj_cbn. lia.
    + unfold xstable. cbn [x_heap put_proc put_heap]. eapply stable_trans; [exact St1|exact St2].
  - inversion H; subst x'. split; [exact X|apply stable_refl].
Qed.

Lemma compact_locals_XInv x pid keep x' :
  XInv x -> compact_locals x pid keep = Val x' -> XInv x' /\ xstable x x'.
Proof.
  intros X H. unfold compact_locals in H.
  destruct (get_proc x pid) as [p|].
  - destruct (pick_locals (p_locals p) keep) as [vs|].
    + eapply replace_locals_XInv; eauto.
    + inversion H; subst x'. split; [exact X|apply stable_refl].
  - inversion H; subst x'. split; [exact X|apply stable_refl].
Qed.

Lemma vnil_refs : refs_of vnil = [].
Proof. reflexivity. Qed.

Lemma orphan_split_cnt keep i : forall l idx l' o,
  orphan_split l idx keep = (l', o) ->
  cnt i (refs_list l) = cnt i (refs_list l') + cnt i (refs_list o).
Proof.
  induction l as [|v t IH]; intros idx l' o H; cbn [orphan_split] in H.
  - inversion H; subst. reflexivity.
  - destruct (orphan_split t (S idx) keep) as [l1 o1] eqn:E. specialize (IH _ _ _ E).
    destruct (existsb (Nat.eqb idx) keep); inversion H; subst;
      rewrite !cnt_refs_list_cons, ?vnil_refs, ?cnt_nil; lia.
Qed.

Lemma release_orphan_locals_XInv x pid keep x' :
  XInv x -> release_orphan_locals x pid keep = Val x' -> XInv x' /\ xstable x x'.
Proof.
  intros X H. pose proof X as (W & R & ND). unfold release_orphan_locals in H.
  destruct (get_proc x pid) as [p|] eqn:G.
  - destruct (orphan_split (p_locals p) 0 keep) as [l' orphans] eqn:Eo.
    apply obind_val in H as (h1 & Hl & H). inversion H; subst x'; clear H.
    unfold release_vals in Hl.
    destruct (release_l_cnt _ _ _ W Hl) as (W1 & St1 & Cb1 & Rc1).
    destruct (XInv_take _ _ _ X G) as [_ Hp].
    split.
    + apply XInv_put; [exact ND|]. split; [exact W1|]. intro i.
      specialize (Rc1 i). rewrite Hp, cnt_proc_refs in Rc1.
      rewrite (orphan_split_cnt _ i _ _ _ _ Eo) in Rc1.
      rewrite Cb1, cnt_proc_refs. proj_cbn. lia.
    + exact St1.
  - inversion H; subst x'. split; [exact X|apply stable_refl].
Qed.

(* ------------------------------------------------------------------ *)
(* 7. fail_result / resume_process                                     *)
(* ------------------------------------------------------------------ *)

Lemma XInv_put_same x pid p p' :
  XInv x -> get_proc x pid = Some p -> (forall i, cnt i (proc_refs p') = cnt i (proc_refs p)) ->
  XInv (put_proc x pid p').
Proof.
  intros X G E. pose proof X as (W & R & ND).
  change (put_proc x pid p') with (put_proc (put_heap x (x_heap x)) pid p').
  apply XInv_put; [exact ND|]. eapply Inv_refs_eq; [exact E|exact (XInv_take _ _ _ X G)].
Qed.

(* 8388832: notify_await_report only edits the list of unreported awaits — no root changes *)
Lemma report_await_XInv x awaiter targets :
  XInv x -> XInv (report_await x awaiter targets) /\ xstable x (report_await x awaiter targets).
Proof.
  intros X. unfold report_await, xstable.
  destruct (get_proc x awaiter) as [p|] eqn:G; [|split; [exact X|apply stable_refl]].
  split; [|cbn [x_heap put_proc]; apply stable_refl].
  apply (XInv_put_same _ _ _ _ X G). intro i. rewrite !cnt_proc_refs.
  cbn [p_stack p_locals p_mailbox p_result p_sel p_await set_unreported]. reflexivity.
Qed.

Lemma notify_result_XInv x awaiter awaited v data x' :
  XInv x -> notify_result true x awaiter awaited v data = Val x' -> XInv x' /\ xstable x x'.
Proof.
  intros X H. unfold notify_result in H.
  destruct (true && negb (still_awaited x awaiter awaited)) eqn:Ek.
  { inversion H; subst x'. split; [exact X|apply stable_refl]. }
  destruct (report_await_XInv x awaiter [awaited] X) as [X1 S1].
  destruct (notify_result_store_XInv _ _ _ _ _ _ X1 H) as [X2 S2].
  split; [exact X2|]. unfold xstable in *. eapply stable_trans; eauto.
Qed.

Lemma fail_result_XInv fx x pid awaited :
  XInv x -> (forall p, get_proc x pid = Some p -> result_refs (p_result p) = []) ->
  XInv (fail_result fx x pid awaited).
Proof.
  intros X Hr. unfold fail_result.
  destruct (get_proc x pid) as [p|] eqn:G; [|exact X].
  destruct (fx && negb (has_key awaited (p_await p))); [exact X|].
  apply (XInv_put_same _ _ _ _ X G). intro i. rewrite !cnt_proc_refs. proj_cbn.
  rewrite (Hr p eq_refl). lia.
Qed.

(* finding F45h: worker.rs notify_result(Err) overwrites an Ok result without releasing it *)
Definition fr_exec : exec :=
  mkExec nr_heap [(0, mkProc [] [] [] false [] (Some (Some (VBin 0))) None [] [])].

Example fr_exec_XInv : XInv fr_exec.
Proof.
  split; [exact nr_heap_WF|]. split.
  - intro i. destruct i as [|i]; [reflexivity|].
    replace (rc_at (x_heap fr_exec) (S i)) with 0 by (destruct i; reflexivity).
    symmetry. apply cnt_zero_notIn. vm_compute. intros [H|[]]. discriminate H.
  - cbn. constructor; [intros []|constructor].
Qed.

Example fail_result_refuted : exists x, XInv x /\ ~ RC (fail_result false x 0 1).
Proof.
  exists fr_exec. split; [exact fr_exec_XInv|].
  intro R. specialize (R 0). vm_compute in R. discriminate R.
Qed.

(* 09625d4: a stale failure (the awaiter no longer awaits the failed process) changes nothing; on
   the F45h witness the repaired code keeps the Ok result and the exact count *)
Lemma fail_result_stale x pid awaited p :
  get_proc x pid = Some p -> has_key awaited (p_await p) = false -> fail_result true x pid awaited = x.
Proof. intros G K. unfold fail_result. rewrite G, K. reflexivity. Qed.

Example fail_result_repaired : fail_result true fr_exec 0 1 = fr_exec /\ XInv (fail_result true fr_exec 0 1).
Proof. split; [reflexivity|]. change (fail_result true fr_exec 0 1) with fr_exec. exact fr_exec_XInv. Qed.

Lemma resume_process_XInv x pid fn : XInv x -> XInv (resume_process x pid fn).
Proof.
  intros X. unfold resume_process.
  destruct (get_proc x pid) as [p|] eqn:G; [|exact X].
  destruct (p_result p) as [[v|]|] eqn:Er; try exact X.
  apply (XInv_put_same _ _ _ _ X G). intro i. rewrite !cnt_proc_refs. proj_cbn.
  rewrite Er, cnt_refs_list_cons. cbn [result_refs]. rewrite cnt_nil. lia.
Qed.

(* ------------------------------------------------------------------ *)
(* 9. no use after free                                                *)
(* ------------------------------------------------------------------ *)

Theorem no_use_after_free_x x :
  XInv x -> forall i, freed_at (x_heap x) i = true -> cnt i (all_refs x) = 0.
Proof.
  intros (W & R & _) i Hf. rewrite <- (R i).
  destruct W as (_ & _ & _ & _ & W5 & _). apply W5. exact Hf.
Qed.

(* ------------------------------------------------------------------ *)
(* 10. non-vacuity: two processes sharing a slot, one slot a slice     *)
(* ------------------------------------------------------------------ *)

Definition sh_heap : heap :=
  mkHeap [Owned [1%Z; 2%Z; 3%Z]; Slice (Owned [1%Z; 2%Z; 3%Z]) 1%Z 2%Z] [3; 1] [] []
         [false; false] [].
Definition sh_exec : exec :=
  mkExec sh_heap
    [(1, mkProc [VBin 0] [VTuple 0 [VInt 7%Z; VBin 0]] [] false [] None None [] []);
     (2, mkProc [] [] [] false [VBin 0] (Some (Some (VBin 1))) None [] [])].

Lemma sh_heap_WF : WFh sh_heap.
Proof.
  unfold WFh, sh_heap; cbn [cells rcs free pending freed length].
  split; [reflexivity|]. split; [reflexivity|]. split; [constructor|].
  split; [|split].
  - intros i. split; [intros []|]. intros [Hi Hf].
    destruct i as [|[|i]]; [discriminate Hf|discriminate Hf|lia].
  - intros i Hf. destruct i as [|[|i]]; [discriminate Hf|discriminate Hf|].
    unfold freed_at in Hf; simpl in Hf. destruct i; discriminate Hf.
  - intros i [].
Qed.

Example shared_sliced_RC : XInv sh_exec.
Proof.
  split; [exact sh_heap_WF|]. split.
  - intro i. destruct i as [|[|i]]; [reflexivity|reflexivity|].
    replace (rc_at (x_heap sh_exec) (S (S i))) with 0 by (destruct i; reflexivity).
    symmetry. apply cnt_zero_notIn. vm_compute.
    intros [H|[H|[H|[H|[]]]]]; discriminate H.
  - cbn. constructor.
    + intros [H|[]]. discriminate H.
    + constructor; [intros []|constructor].
Qed.

Example shared_sliced_bytes :
  bytes_at (x_heap sh_exec) 1 = [2%Z; 3%Z] /\ cnt 0 (all_refs sh_exec) = 3 /\ cnt 1 (all_refs sh_exec) = 1.
Proof. split; [reflexivity|split; reflexivity]. Qed.

(* non-vacuity of the entry-point theorems: a message carrying a fresh binary is delivered to
   process 2 of the shared executor (slot 2 is allocated and counted once) *)
Example notify_message_live :
  exists x', notify_message sh_exec 2 (VBin 0) [[9%Z]] = Val x' /\ XInv x' /\
             rc_at (x_heap x') 2 = 1 /\ rc_at (x_heap x') 0 = 3.
Proof.
  destruct (notify_message sh_exec 2 (VBin 0) [[9%Z]]) as [x'|e|n] eqn:E;
    [|vm_compute in E; discriminate E|vm_compute in E; discriminate E].
  exists x'. split; [reflexivity|].
  split; [exact (proj1 (notify_message_XInv _ _ _ _ _ shared_sliced_RC E))|].
  vm_compute in E. inversion E; subst x'. split; reflexivity.
Qed.

(* ------------------------------------------------------------------ *)
(* 8. Executor::step                                                   *)
(* ------------------------------------------------------------------ *)

Lemma fail_proc_Inv o h p : result_refs (p_result p) = [] -> Inv o h p -> Inv o h (fail_proc p).
Proof.
  intros E. apply Inv_refs_eq. intro i. rewrite !cnt_proc_refs. proj_cbn. rewrite E. lia.
Qed.

(* completion: notify every awaiter (with the fix of F9) *)
Lemma notify_awaiters_XInv pid res : forall ws x x',
  XInv x ->
  (res = None -> forall w p, In w ws -> get_proc x w = Some p -> result_refs (p_result p) = []) ->
  notify_awaiters true x pid res ws = Val x' -> XInv x' /\ xstable x x'.
Proof.
  induction ws as [|w rest IH]; intros x x' X Hf H; cbn [notify_awaiters] in H.
  - inversion H; subst. split; [exact X|apply stable_refl].
  - apply obind_val in H as (x1 & H1 & H).
    assert (S1 : XInv x1 /\ xstable x x1 /\
                 (res = None -> forall w' p, In w' rest -> get_proc x1 w' = Some p ->
                                             result_refs (p_result p) = [])).
    { destruct res as [v|].
      - destruct (notify_result true x w pid v []) as [xa|e|n] eqn:En;
          cbv beta iota in H1; inversion H1; subst x1.
        + destruct (notify_result_XInv _ _ _ _ _ _ X En) as [Xa Sa].
          split; [exact Xa|]. split; [exact Sa|]. intros Hn; discriminate Hn.
        + destruct (report_await_XInv x w [pid] X) as [Xr Sr].
          split; [exact Xr|]. split; [exact Sr|]. intros Hn; discriminate Hn.
      - destruct (get_proc x w) as [p|] eqn:G; cbv beta iota in H1; inversion H1; subst x1.
        + split; [|split].
          * apply (XInv_put_same _ _ _ _ X G). intro i. rewrite !cnt_proc_refs. proj_cbn.
            rewrite (Hf eq_refl w p (or_introl eq_refl) G). lia.
          * apply stable_refl.
          * intros _ w' p' Hin G'. rewrite get_put_proc in G'.
            destruct (w' =? w).
            { inversion G'; subst p'. reflexivity. }
            { exact (Hf eq_refl w' p' (or_intror Hin) G'). }
        + split; [exact X|]. split; [apply stable_refl|].
          intros _ w' p' Hin G'. exact (Hf eq_refl w' p' (or_intror Hin) G'). }
    destruct S1 as (X1 & St1 & Hf1). destruct (IH _ _ X1 Hf1 H) as (X' & St').
    split; [exact X'|]. unfold xstable in *. eapply stable_trans; [exact St1|exact St'].
Qed.

Lemma notify_awaiters_Some_XInv pid v ws x x' :
  XInv x -> notify_awaiters true x pid (Some v) ws = Val x' -> XInv x' /\ xstable x x'.
Proof.
  intros X H. eapply notify_awaiters_XInv; [exact X| |exact H]. intros Hn; discriminate Hn.
Qed.

Lemma ppf_XInv x h0 : XInv x -> ppf (x_heap x) = Val h0 -> XInv (put_heap x h0).
Proof.
  intros X Hp. pose proof X as (W & R & ND).
  destruct (ppf_spec _ _ W Hp) as (W0 & Ercs & _ & Ecb & _).
  apply XInv_put_heap; [exact X|exact W0| |].
  - intro i. unfold rc_at. rewrite Ercs. reflexivity.
  - unfold cb_refs. rewrite Ecb. reflexivity.
Qed.

(* process_pending_free only reclaims slots nobody holds *)
Lemma ppf_live x h0 : XInv x -> ppf (x_heap x) = Val h0 ->
  forall i, cnt i (all_refs x) > 0 ->
    i < length (cells h0) /\ freed_at h0 i = false /\ bytes_at h0 i = bytes_at (x_heap x) i.
Proof.
  intros X Hp i Hc. pose proof X as (W & R & ND).
  destruct (ppf_spec _ _ W Hp) as (W0 & Ercs & _ & Ecb & Elen & Hiff & _).
  rewrite <- (R i) in Hc.
  pose proof W as (L1 & _ & _ & _ & W5 & _).
  assert (Hf0 : freed_at h0 i = false).
  { destruct (freed_at h0 i) eqn:E; [|reflexivity].
    apply Hiff in E as [E|[_ E]]; [apply W5 in E|]; lia. }
  split; [|split; [exact Hf0|]].
  - rewrite Elen, <- L1.
    destruct (Nat.lt_ge_cases i (length (rcs (x_heap x)))) as [Hl|Hg]; [exact Hl|].
    unfold rc_at in Hc. rewrite nth_overflow in Hc by exact Hg. lia.
  - apply (ppf_preserves_live _ _ W Hp i Hf0).
Qed.

Lemma truncate_locals_good o n h p : Inv o h p -> Good o h p (truncate_locals n h p).
Proof.
  intros Iv. unfold truncate_locals.
  destruct (n <? length (p_locals p));
    [|cbn [Good]; split; [exact Iv|split; [apply stable_refl|reflexivity]]].
  destruct (release_vals h (skipn n (p_locals p))) as [h'|e|s] eqn:E; cbn [Good];
    [|split; [exact Iv|split; [apply stable_refl|reflexivity]]|exact Logic.I].
  destruct Iv as [W Hp]. unfold release_vals in E.
  destruct (release_l_cnt _ _ _ W E) as (W' & St & Cb & Rc).
  split; [|split; [exact St|reflexivity]]. split; [exact W'|]. intro i.
  specialize (Rc i). rewrite Hp, cnt_proc_refs in Rc.
  rewrite (refs_list_firstn_skipn i n (p_locals p)) in Rc.
  rewrite Cb, cnt_proc_refs. proj_cbn. lia.
Qed.

Section Step.
Variable fx : bool.
Variable P : hprogram.
Variable instr_pre : proc -> instr -> Prop.
Hypothesis exec_instr_good : forall pid i x o h p,
  instr_pre p i -> Inv o h p -> Good o h p (exec_instr fx P pid i x h p).

(* the precondition of every instruction the slice executes, along the recursion of run_slice *)
Fixpoint SlicePre (pid fuel : nat) (xs : list hext) (dflt : hext) (h : heap) (p : proc) : Prop :=
  match fuel with
  | O => True
  | S fuel' =>
      match current_instr P p with
      | Val (Some i) =>
          instr_pre p i /\
          match exec_instr fx P pid i (match xs with e :: _ => e | [] => dflt end) h p with
          | MPanic _ => True
          | MErr _ h' p' => SlicePre pid fuel' (tl xs) dflt h' (fail_proc p')
          | MVal (Some _) _ _ => True
          | MVal None h' p' => SlicePre pid fuel' (tl xs) dflt h' p'
          end
      | _ => True
      end
  end.

Lemma run_slice_good pid o : forall fuel xs dflt h p h' p',
  SlicePre pid fuel xs dflt h p -> Inv o h p -> result_refs (p_result p) = [] ->
  run_slice fx P pid fuel xs dflt h p = Val (h', p') ->
  Inv o h' p' /\ stable h h' /\ result_refs (p_result p') = [].
Proof.
  induction fuel as [|fuel IH]; intros xs dflt h p h' p' Pre Iv Hres H; cbn [run_slice] in H.
  - inversion H; subst. split; [exact Iv|]. split; [apply stable_refl|exact Hres].
  - cbn [SlicePre] in Pre. cbv zeta in H.
    destruct (current_instr P p) as [[i|]|e|n] eqn:Ci; cbn [obind] in H; try discriminate H.
    + destruct Pre as [Hpre Pre].
      pose proof (exec_instr_good pid i (match xs with e :: _ => e | [] => dflt end) o h p Hpre Iv) as G.
      destruct (exec_instr fx P pid i (match xs with e :: _ => e | [] => dflt end) h p)
        as [[a|] h1 p1|e h1 p1|n]; cbn [Good] in G.
      * inversion H; subst. destruct G as (I1 & St1 & Er).
        split; [exact I1|]. split; [exact St1|]. rewrite Er; exact Hres.
      * destruct G as (I1 & St1 & Er).
        assert (Hr1 : result_refs (p_result p1) = []) by (rewrite Er; exact Hres).
        destruct (IH _ _ _ _ _ _ Pre I1 Hr1 H) as (I2 & St2 & R2).
        split; [exact I2|]. split; [eapply stable_trans; [exact St1|exact St2]|exact R2].
      * destruct G as (I1 & St1 & Er).
        assert (Hr1 : result_refs (p_result p1) = []) by (rewrite Er; exact Hres).
        destruct (IH _ _ _ _ _ _ Pre (fail_proc_Inv _ _ _ Hr1 I1) eq_refl H) as (I2 & St2 & R2).
        split; [exact I2|]. split; [eapply stable_trans; [exact St1|exact St2]|exact R2].
      * discriminate H.
    + inversion H; subst. split; [exact Iv|]. split; [apply stable_refl|exact Hres].
Qed.

Lemma auto_pop_good o : forall fuel h p h' p',
  Inv o h p -> auto_pop P fuel h p = Val (h', p') ->
  Inv o h' p' /\ stable h h' /\ p_result p' = p_result p.
Proof.
  induction fuel as [|fuel IH]; intros h p h' p' Iv H; cbn [auto_pop] in H.
  - inversion H; subst. split; [exact Iv|]. split; [apply stable_refl|reflexivity].
  - destruct (current_instr P p) as [[i|]|e|n]; cbn [obind] in H; try discriminate H.
    + inversion H; subst. split; [exact Iv|]. split; [apply stable_refl|reflexivity].
    + destruct (p_frames p) as [|fr rest] eqn:Ef.
      * inversion H; subst. split; [exact Iv|]. split; [apply stable_refl|reflexivity].
      * cbv zeta in H.
        match type of H with context [auto_pop P fuel h ?q] => set (p2 := q) in H end.
        assert (E2 : forall i, cnt i (proc_refs p2) = cnt i (proc_refs p)).
        { intro i. subst p2.
          match goal with |- context [if ?b then _ else _] => destruct b end; reflexivity. }
        assert (R2 : p_result p2 = p_result p).
        { subst p2.
          match goal with |- context [if ?b then _ else _] => destruct b end; reflexivity. }
        assert (Iv2 : Inv o h p2) by (eapply Inv_refs_eq; [exact E2|exact Iv]).
        clearbody p2.
        match type of H with (if ?c then _ else _) = _ => destruct c end.
        { pose proof (truncate_locals_good o (fr_base fr) h p2 Iv2) as G.
          destruct (truncate_locals (fr_base fr) h p2) as [u h1 q1|e h1 q1|n]; cbn [Good] in G;
            [| |discriminate H];
            destruct G as (I1 & St1 & Er); destruct (IH _ _ _ _ I1 H) as (I3 & St3 & R3);
            (split; [exact I3|]; split; [eapply stable_trans; [exact St1|exact St3]|congruence]). }
        { destruct (IH _ _ _ _ Iv2 H) as (I3 & St3 & R3).
          split; [exact I3|]. split; [exact St3|congruence]. }
Qed.

Theorem exec_step_XInv x pid q xs dflt x' :
  fx = true -> XInv x ->
  (forall pid0 p0 h0, pid = Some pid0 -> get_proc x pid0 = Some p0 -> ppf (x_heap x) = Val h0 ->
     result_refs (p_result p0) = [] /\ SlicePre pid0 q xs dflt h0 p0) ->
  (forall pid0 w pw, pid = Some pid0 -> w <> pid0 -> get_proc x w = Some pw ->
     has_key pid0 (p_await pw) = true -> result_refs (p_result pw) = []) ->
  exec_step fx P x pid q xs dflt = Val x' ->
  XInv x' /\
  (forall i, cnt i (all_refs x) > 0 -> cnt i (all_refs x') > 0 ->
     bytes_at (x_heap x') i = bytes_at (x_heap x) i /\ freed_at (x_heap x') i = false).
Proof.
  intros Efx X Hside Haw H. unfold exec_step in H.
  apply obind_val in H as (h0 & Hp & H).
  pose proof (ppf_XInv _ _ X Hp) as X0. pose proof (ppf_live _ _ X Hp) as Hlive.
  assert (Main : XInv x' /\ stable h0 (x_heap x')).
  { destruct pid as [pid0|]; [|inversion H; subst; split; [exact X0|apply stable_refl]].
    destruct (get_proc x pid0) as [p0|] eqn:G;
      [|inversion H; subst; split; [exact X0|apply stable_refl]].
    destruct (Hside pid0 p0 h0 eq_refl G Hp) as [Hres Pre].
    apply obind_val in H as ([h1 p1] & Hrun & H).
    apply obind_val in H as ([h2 p2] & Hpop & H).
    assert (I0 : Inv (others x pid0) h0 p0) by exact (XInv_take (put_heap x h0) pid0 p0 X0 G).
    destruct (run_slice_good _ _ _ _ _ _ _ _ _ Pre I0 Hres Hrun) as (I1 & St1 & Hres1).
    destruct (auto_pop_good _ _ _ _ _ _ I1 Hpop) as (I2 & St2 & Er2).
    assert (St02 : stable h0 h2) by (eapply stable_trans; [exact St1|exact St2]).
    pose proof X as (_ & _ & ND).
    assert (Hres2 : result_refs (p_result p2) = []) by (rewrite Er2; exact Hres1).
    destruct (p_frames p2) as [|fr2 rest2] eqn:Ef2.
    2: { inversion H; subst x'. split; [apply XInv_put; assumption|exact St02]. }
    assert (HB : forall x'',
      match p_stack p2 with
      | [] => Val (put_proc (put_heap x h2) pid0 (set_result p2 (Some None)))
      | v :: st =>
          notify_awaiters fx
            (put_proc (put_heap x h2) pid0 (set_result (set_stack p2 st) (Some (Some v)))) pid0 (Some v)
            (map fst (filter (fun e => has_key pid0 (p_await (snd e)))
               (x_procs (put_proc (put_heap x h2) pid0 (set_result (set_stack p2 st) (Some (Some v)))))))
      end = Val x'' -> XInv x'' /\ stable h0 (x_heap x'')).
    { intros x'' HH. destruct (p_stack p2) as [|v st] eqn:Es.
      - inversion HH; subst x''. split; [|exact St02]. apply XInv_put; [exact ND|].
        eapply Inv_refs_eq; [|exact I2]. intro i. rewrite !cnt_proc_refs. proj_cbn.
        rewrite Hres2. lia.
      - assert (X1 : XInv (put_proc (put_heap x h2) pid0 (set_result (set_stack p2 st) (Some (Some v))))).
        { apply XInv_put; [exact ND|]. eapply Inv_refs_eq; [|exact I2]. intro i.
          rewrite !cnt_proc_refs. proj_cbn. rewrite Es, Hres2, cnt_refs_list_cons, cnt_nil. lia. }
        rewrite Efx in HH.
        destruct (notify_awaiters_Some_XInv _ _ _ _ _ X1 HH) as [X'' Sx].
        split; [exact X''|]. eapply stable_trans; [exact St02|exact Sx]. }
    destruct (p_result p2) as [[rv|]|] eqn:Er.
    - exact (HB _ H).
    - rewrite Efx in H.
      assert (X1 : XInv (put_proc (put_heap x h2) pid0 p2)) by (apply XInv_put; assumption).
      assert (Gp : get_proc (put_proc (put_heap x h2) pid0 p2) pid0 = Some p2).
      { rewrite get_put_proc, Nat.eqb_refl. reflexivity. }
      assert (Hfail : @None value = None -> forall w pw,
                In w (map fst (filter (fun e => has_key pid0 (p_await (snd e)))
                                 (x_procs (put_proc (put_heap x h2) pid0 p2)))) ->
                get_proc (put_proc (put_heap x h2) pid0 p2) w = Some pw ->
                result_refs (p_result pw) = []).
      { intros _ w pw Hin Gw.
        apply in_map_iff in Hin as ([w0 pw0] & Ew & Hin). cbn [fst] in Ew; subst w0.
        apply filter_In in Hin as [Hin Hk]. cbn [snd] in Hk.
        pose proof X1 as (_ & _ & ND1).
        pose proof (assoc_get_of_In _ _ _ ND1 Hin) as Gw'. fold (get_proc (put_proc (put_heap x h2) pid0 p2) w) in Gw'.
        rewrite Gw in Gw'. inversion Gw'; subst pw0.
        destruct (Nat.eq_dec w pid0) as [->|Hne].
        - rewrite Gp in Gw. inversion Gw; subst pw. rewrite Er. reflexivity.
        - rewrite get_put_proc in Gw. apply Nat.eqb_neq in Hne. rewrite Hne in Gw.
          apply Nat.eqb_neq in Hne. exact (Haw pid0 w pw eq_refl Hne Gw Hk). }
      destruct (notify_awaiters_XInv _ _ _ _ _ X1 Hfail H) as [X'' Sx].
      split; [exact X''|]. eapply stable_trans; [exact St02|exact Sx].
    - exact (HB _ H). }
  destruct Main as [X' St']. split; [exact X'|]. intros i Hc _.
  destruct (Hlive i Hc) as (Hlt & Hf0 & Hb0). destruct St' as [_ Sb].
  destruct (Sb i Hlt Hf0) as [Hf' Hb']. split; [congruence|exact Hf'].
Qed.

End Step.

Print Assumptions exec_step_XInv.
Print Assumptions spawn_process_XInv.
Print Assumptions notify_result_XInv.
Print Assumptions notify_result_refuted.
Print Assumptions spawn_orphans_refuted.
Print Assumptions fail_result_refuted.
Print Assumptions shared_sliced_RC.
