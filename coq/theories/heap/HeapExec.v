(* HeapExec.v — the refcount invariant at the level of the whole executor (all processes of one
   worker + the cached constants): every entry point of HeapVm.v that touches a process from the
   outside (notify_*, spawn_process, replace_locals, release_orphan_locals, fail_result,
   resume_process) and Executor::step itself re-establish

       XInv x : WFh (heap) /\ refcounts[i] = number of occurrences of i in ALL roots /\ keys unique.

   The instruction handlers enter through the section hypothesis `exec_instr_good` (proved in
   another file); the defects of the code as found are `*_refuted` examples. *)
From Quiver Require Import heap.HeapInv heap.HeapTransfer.
Require Import Lia List Arith.
Import ListNotations.
Local Open Scope nat_scope.

Definition RC (x : exec) : Prop := forall i, rc_at (x_heap x) i = cnt i (all_refs x).
Definition XInv (x : exec) : Prop := WFh (x_heap x) /\ RC x /\ NoDup (map fst (x_procs x)).
Definition xstable (x x' : exec) : Prop := stable (x_heap x) (x_heap x').
(* the references of every process except pid *)
Definition others (x : exec) (pid : nat) : list nat :=
  flat_map (fun e => if fst e =? pid then [] else proc_refs (snd e)) (x_procs x).

(* ------------------------------------------------------------------ *)
(* association lists                                                   *)
(* ------------------------------------------------------------------ *)

Definition prefs (l : list (nat * proc)) : list nat := flat_map (fun e => proc_refs (snd e)) l.
Definition orefs (pid : nat) (l : list (nat * proc)) : list nat :=
  flat_map (fun e => if fst e =? pid then [] else proc_refs (snd e)) l.

Lemma assoc_get_None {A} k (l : list (nat * A)) : assoc_get k l = None -> ~ In k (map fst l).
Proof.
  induction l as [|[j a] t IH]; intros H; cbn [assoc_get map fst In] in *; [tauto|].
  destruct (k =? j) eqn:E; [discriminate|]. apply Nat.eqb_neq in E.
  intros [Hj|Hin]; [congruence|]. apply IH; assumption.
Qed.

Lemma assoc_get_In {A} k (l : list (nat * A)) a : assoc_get k l = Some a -> In (k, a) l.
Proof.
  induction l as [|[j b] t IH]; intros H; cbn [assoc_get In] in *; [discriminate|].
  destruct (k =? j) eqn:E.
  - apply Nat.eqb_eq in E. inversion H; subst. left; reflexivity.
  - right. apply IH; assumption.
Qed.

Lemma assoc_get_of_In {A} k (l : list (nat * A)) a :
  NoDup (map fst l) -> In (k, a) l -> assoc_get k l = Some a.
Proof.
  induction l as [|[j b] t IH]; intros ND H; cbn [assoc_get In map fst] in *; [contradiction|].
  inversion ND as [|? ? Hnin ND']; subst.
  destruct H as [H|H].
  - inversion H; subst. rewrite Nat.eqb_refl. reflexivity.
  - destruct (k =? j) eqn:E.
    + apply Nat.eqb_eq in E. subst j. exfalso. apply Hnin.
      change k with (fst (k, a)). apply in_map. assumption.
    + apply IH; assumption.
Qed.

Lemma orefs_notin pid l : ~ In pid (map fst l) -> orefs pid l = prefs l.
Proof.
  induction l as [|[j p] t IH]; intros H; [reflexivity|].
  unfold orefs, prefs in *. cbn [flat_map fst snd map In] in *.
  destruct (j =? pid) eqn:E.
  - apply Nat.eqb_eq in E. exfalso. apply H. left; assumption.
  - rewrite IH; [reflexivity|]. intros Hin. apply H. right; assumption.
Qed.

Lemma prefs_split pid l p i :
  NoDup (map fst l) -> assoc_get pid l = Some p ->
  cnt i (prefs l) = cnt i (orefs pid l) + cnt i (proc_refs p).
Proof.
  induction l as [|[j q] t IH]; intros ND H; cbn [assoc_get] in H; [discriminate|].
  cbn [map fst] in ND. inversion ND as [|? ? Hnin ND']; subst.
  unfold orefs, prefs in *. cbn [flat_map fst snd].
  destruct (pid =? j) eqn:E.
  - apply Nat.eqb_eq in E. subst j. inversion H; subst q. rewrite Nat.eqb_refl.
    fold (orefs pid t). fold (prefs t). rewrite (orefs_notin _ _ Hnin).
    rewrite cnt_app. cbn [app]. lia.
  - rewrite Nat.eqb_sym, E. rewrite !cnt_app. rewrite (IH ND' H). lia.
Qed.

Lemma assoc_set_keys {A} k (a : A) l :
  map fst (fst (assoc_set k a l)) = if in_dec Nat.eq_dec k (map fst l) then map fst l else map fst l ++ [k].
Proof.
  induction l as [|[j b] t IH]; cbn [assoc_set].
  - reflexivity.
  - destruct (k =? j) eqn:E.
    + apply Nat.eqb_eq in E. subst j. cbn [fst map].
      destruct (in_dec Nat.eq_dec k (k :: map fst t)) as [_|N]; [reflexivity|].
      exfalso. apply N. left; reflexivity.
    + apply Nat.eqb_neq in E. destruct (assoc_set k a t) as [t' o] eqn:Es.
      cbn [fst map] in *. rewrite IH.
      destruct (in_dec Nat.eq_dec k (map fst t)) as [Hin|Hnin];
        destruct (in_dec Nat.eq_dec k (j :: map fst t)) as [Hin'|Hnin']; try reflexivity.
      * exfalso. apply Hnin'. right; assumption.
      * exfalso. destruct Hin' as [Hj|Hin']; [congruence|contradiction].
Qed.

Lemma NoDup_snoc (l : list nat) k : NoDup l -> ~ In k l -> NoDup (l ++ [k]).
Proof.
  induction l as [|x t IH]; intros ND Hnin; cbn [app].
  - constructor; [intros []|constructor].
  - inversion ND as [|? ? Hx ND']; subst. constructor.
    + intros Hin. apply in_app_or in Hin as [Hin|[Hin|[]]]; [contradiction|].
      apply Hnin. left; symmetry; assumption.
    + apply IH; [assumption|]. intros Hin. apply Hnin. right; assumption.
Qed.

Lemma assoc_set_NoDup {A} k (a : A) l :
  NoDup (map fst l) -> NoDup (map fst (fst (assoc_set k a l))).
Proof.
  intros ND. rewrite assoc_set_keys.
  destruct (in_dec Nat.eq_dec k (map fst l)) as [Hin|Hnin]; [assumption|].
  apply NoDup_snoc; assumption.
Qed.

Lemma assoc_get_set {A} k (a : A) l k' :
  assoc_get k' (fst (assoc_set k a l)) = if k' =? k then Some a else assoc_get k' l.
Proof.
  induction l as [|[j b] t IH]; cbn [assoc_set assoc_get fst].
  - destruct (k' =? k); reflexivity.
  - destruct (k =? j) eqn:E.
    + apply Nat.eqb_eq in E. subst j. cbn [fst assoc_get]. destruct (k' =? k); reflexivity.
    + destruct (assoc_set k a t) as [t' o] eqn:Es. cbn [fst assoc_get] in *.
      destruct (k' =? j) eqn:E'.
      * apply Nat.eqb_eq in E'. subst j. rewrite Nat.eqb_sym, E. reflexivity.
      * exact IH.
Qed.

Lemma orefs_set pid p l : orefs pid (fst (assoc_set pid p l)) = orefs pid l.
Proof.
  induction l as [|[j q] t IH]; cbn [assoc_set].
  - unfold orefs. cbn [fst flat_map snd]. rewrite Nat.eqb_refl. reflexivity.
  - destruct (pid =? j) eqn:E.
    + apply Nat.eqb_eq in E. subst j. unfold orefs. cbn [fst flat_map snd].
      rewrite Nat.eqb_refl. reflexivity.
    + destruct (assoc_set pid p t) as [t' o] eqn:Es. cbn [fst] in *.
      unfold orefs in *. cbn [flat_map fst snd]. rewrite IH. reflexivity.
Qed.

(* the `awaiting` map: what `insert` displaces leaves the roots, what it stores enters them *)
Definition oo_refs (o : option (option value)) : list nat :=
  match o with Some (Some v) => refs_of v | _ => [] end.

Lemma await_set_cnt k (a : option value) l l' old i :
  assoc_set k a l = (l', old) ->
  cnt i (await_refs l') + cnt i (oo_refs old) = cnt i (await_refs l) + cnt i (oo_refs (Some a)).
Proof.
  revert l' old. induction l as [|[j b] t IH]; intros l' old H; cbn [assoc_set] in H.
  - inversion H; subst. unfold await_refs. cbn [flat_map snd oo_refs].
    rewrite app_nil_r, !cnt_nil. destruct a; cbn [oo_refs]; rewrite ?cnt_nil; lia.
  - destruct (k =? j) eqn:E.
    + inversion H; subst. unfold await_refs. cbn [flat_map snd]. rewrite !cnt_app.
      destruct a, b; cbn [oo_refs]; rewrite ?cnt_nil; lia.
    + destruct (assoc_set k a t) as [t' o] eqn:Es. inversion H; subst.
      specialize (IH _ _ eq_refl). unfold await_refs in *. cbn [flat_map snd].
      rewrite !cnt_app. lia.
Qed.

(* ------------------------------------------------------------------ *)
(* 1. glue between XInv and Inv                                        *)
(* ------------------------------------------------------------------ *)

Lemma all_refs_split x pid p :
  NoDup (map fst (x_procs x)) -> get_proc x pid = Some p ->
  forall i, cnt i (all_refs x) = cnt i (others x pid) + cnt i (cb_refs (x_heap x)) + cnt i (proc_refs p).
Proof.
  intros ND G i. unfold all_refs, others, get_proc in *. rewrite cnt_app.
  fold (prefs (x_procs x)). fold (orefs pid (x_procs x)).
  rewrite (prefs_split pid _ p i ND G). lia.
Qed.

Lemma all_refs_none x pid :
  get_proc x pid = None ->
  forall i, cnt i (all_refs x) = cnt i (others x pid) + cnt i (cb_refs (x_heap x)).
Proof.
  intros G i. unfold all_refs, others, get_proc in *. rewrite cnt_app.
  fold (prefs (x_procs x)). fold (orefs pid (x_procs x)).
  rewrite (orefs_notin pid _ (assoc_get_None _ _ G)). reflexivity.
Qed.

Lemma put_proc_NoDup x pid p :
  NoDup (map fst (x_procs x)) -> NoDup (map fst (x_procs (put_proc x pid p))).
Proof. intros ND. unfold put_proc. cbn [x_procs]. apply assoc_set_NoDup; assumption. Qed.

Lemma others_put x h' pid p' : others (put_proc (put_heap x h') pid p') pid = others x pid.
Proof. unfold others, put_proc, put_heap. cbn [x_procs]. apply orefs_set. Qed.

Lemma get_put_proc x pid p w :
  get_proc (put_proc x pid p) w = if w =? pid then Some p else get_proc x w.
Proof. unfold get_proc, put_proc. cbn [x_procs]. apply assoc_get_set. Qed.

Lemma all_refs_put x h' pid p' :
  NoDup (map fst (x_procs x)) ->
  forall i, cnt i (all_refs (put_proc (put_heap x h') pid p')) =
            cnt i (others x pid) + cnt i (cb_refs h') + cnt i (proc_refs p').
Proof.
  intros ND i.
  assert (ND' : NoDup (map fst (x_procs (put_proc (put_heap x h') pid p')))).
  { apply put_proc_NoDup. exact ND. }
  assert (G : get_proc (put_proc (put_heap x h') pid p') pid = Some p').
  { rewrite get_put_proc, Nat.eqb_refl. reflexivity. }
  rewrite (all_refs_split _ pid p' ND' G i), others_put. reflexivity.
Qed.

Lemma XInv_take x pid p : XInv x -> get_proc x pid = Some p -> Inv (others x pid) (x_heap x) p.
Proof.
  intros (W & R & ND) G. split; [exact W|]. intro i. rewrite (R i).
  apply all_refs_split; assumption.
Qed.

Lemma XInv_take_none x pid p :
  XInv x -> get_proc x pid = None -> proc_refs p = [] -> Inv (others x pid) (x_heap x) p.
Proof.
  intros (W & R & ND) G E. split; [exact W|]. intro i. rewrite (R i), E, cnt_nil.
  rewrite (all_refs_none _ _ G). lia.
Qed.

Lemma XInv_put x h' pid p' :
  NoDup (map fst (x_procs x)) -> Inv (others x pid) h' p' -> XInv (put_proc (put_heap x h') pid p').
Proof.
  intros ND [W H]. split; [exact W|]. split.
  - intro i. rewrite (all_refs_put _ _ _ _ ND). cbn [x_heap put_proc put_heap]. apply H.
  - apply put_proc_NoDup. exact ND.
Qed.

Lemma XInv_put_heap x h' :
  XInv x -> WFh h' -> (forall i, rc_at h' i = rc_at (x_heap x) i) -> cb_refs h' = cb_refs (x_heap x) ->
  XInv (put_heap x h').
Proof.
  intros (W & R & ND) W' Hrc Hcb. split; [exact W'|]. split; [|exact ND].
  intro i. unfold all_refs, put_heap. cbn [x_heap x_procs]. rewrite Hrc, Hcb. apply R.
Qed.

Lemma Inv_refs_eq o h p p' :
  (forall i, cnt i (proc_refs p') = cnt i (proc_refs p)) -> Inv o h p -> Inv o h p'.
Proof. intros E [W H]. split; [exact W|]. intro i. rewrite E. apply H. Qed.

(* ------------------------------------------------------------------ *)
(* heap primitives as counting facts                                   *)
(* ------------------------------------------------------------------ *)

Lemma retain_l_cnt h l h' :
  WFh h -> retain_l h l = Val h' ->
  WFh h' /\ stable h h' /\ cb_refs h' = cb_refs h /\ forall i, rc_at h' i = rc_at h i + cnt i l.
Proof.
  intros W R. pose proof (retain_l_spec _ _ _ R) as (Ec & Ef & Ep & Efr & Ecb & El & Hrc).
  split; [eapply retain_l_WF; eauto|]. split; [eapply retain_l_stable; eauto|].
  split; [unfold cb_refs; rewrite Ecb; reflexivity|exact Hrc].
Qed.

Lemma release_l_cnt h l h' :
  WFh h -> release_l h l = Val h' ->
  WFh h' /\ stable h h' /\ cb_refs h' = cb_refs h /\ forall i, rc_at h' i + cnt i l = rc_at h i.
Proof.
  intros W R. pose proof (release_l_spec _ _ _ R) as (Ec & Ef & Efr & Ecb & El & Hrc & _).
  split; [eapply release_l_WF; eauto|]. split; [eapply release_l_stable; eauto|].
  split; [unfold cb_refs; rewrite Ecb; reflexivity|exact Hrc].
Qed.

Lemma inject_cnt h v data h' v' :
  WFh h -> inject h v data = Val (h', v') ->
  WFh h' /\ stable h h' /\ cb_refs h' = cb_refs h /\ forall i, rc_at h' i = rc_at h i.
Proof.
  intros W R. destruct (inject_WF _ _ _ _ _ W R) as (W' & St & Hrc & _ & Ecb).
  split; [exact W'|]. split; [exact St|]. split; [unfold cb_refs; rewrite Ecb; reflexivity|exact Hrc].
Qed.

Ltac proj_cbn :=
  cbn [p_stack p_locals p_frames p_pers p_mailbox p_result p_sel p_await
       set_stack set_locals set_frames set_mailbox set_result set_sel set_await fail_proc new_proc
       result_refs sel_refs].

(* ------------------------------------------------------------------ *)
(* 2. notify_message                                                   *)
(* ------------------------------------------------------------------ *)

Lemma notify_message_XInv x pid v data x' :
  XInv x -> notify_message x pid v data = Val x' -> XInv x' /\ xstable x x'.
Proof.
  intros X H. unfold notify_message in H.
  apply obind_val in H as ([h1 v1] & Hi & H).
  pose proof X as (W & R & ND).
  destruct (inject_cnt _ _ _ _ _ W Hi) as (W1 & St1 & Cb1 & Rc1).
  destruct (get_proc x pid) as [p|] eqn:G.
  - apply obind_val in H as (h2 & Hr & H). inversion H; subst x'; clear H.
    unfold retain in Hr.
    destruct (retain_l_cnt _ _ _ W1 Hr) as (W2 & St2 & Cb2 & Rc2).
    destruct (XInv_take _ _ _ X G) as [_ Hp].
    split.
    + apply XInv_put; [exact ND|]. split; [exact W2|]. intro i.
      rewrite Rc2, Rc1, Hp, Cb2, Cb1, !cnt_proc_refs. proj_cbn.
      rewrite cnt_refs_list_app, cnt_refs_list_cons, cnt_refs_list_nil. lia.
    + unfold xstable. cbn [x_heap put_proc put_heap]. eapply stable_trans; eauto.
  - inversion H; subst x'; clear H. split.
    + apply XInv_put_heap; assumption.
    + exact St1.
Qed.

(* ------------------------------------------------------------------ *)
(* 3. notify_result                                                    *)
(* ------------------------------------------------------------------ *)

Lemma notify_result_XInv x awaiter awaited v data x' :
  XInv x -> notify_result true x awaiter awaited v data = Val x' -> XInv x' /\ xstable x x'.
Proof.
  intros X H. unfold notify_result in H.
  apply obind_val in H as ([h1 v1] & Hi & H).
  pose proof X as (W & R & ND).
  destruct (inject_cnt _ _ _ _ _ W Hi) as (W1 & St1 & Cb1 & Rc1).
  destruct (get_proc x awaiter) as [p|] eqn:G.
  - apply obind_val in H as (h2 & Hr & H). unfold retain in Hr.
    destruct (retain_l_cnt _ _ _ W1 Hr) as (W2 & St2 & Cb2 & Rc2).
    destruct (assoc_set awaited (Some v1) (p_await p)) as [a' old] eqn:Es.
    apply obind_val in H as (h3 & Hrel & H). inversion H; subst x'; clear H.
    destruct (XInv_take _ _ _ X G) as [_ Hp].
    assert (Hrel' : release_l h2 (oo_refs old) = Val h3).
    { destruct old as [[o|]|]; cbn [oo_refs]; try exact Hrel; exact Hrel. }
    destruct (release_l_cnt _ _ _ W2 Hrel') as (W3 & St3 & Cb3 & Rc3).
    split.
    + apply XInv_put; [exact ND|]. split; [exact W3|]. intro i.
      pose proof (await_set_cnt _ _ _ _ _ i Es) as Ha. cbn [oo_refs] in Ha.
      specialize (Rc3 i). rewrite Rc2, Rc1, Hp in Rc3.
      rewrite Cb3, Cb2, Cb1, !cnt_proc_refs in *. proj_cbn. lia.
    + unfold xstable. cbn [x_heap put_proc put_heap].
      eapply stable_trans; [exact St1|]. eapply stable_trans; eauto.
  - inversion H; subst x'; clear H. split.
    + apply XInv_put_heap; assumption.
    + exact St1.
Qed.

(* the code as found (no hooks/fix_F9.patch): the displaced `awaiting` value is dropped without a
   release *)
Definition nr_heap : heap := mkHeap [Owned []] [1] [] [] [false] [].
Definition nr_exec : exec :=
  mkExec nr_heap [(0, mkProc [] [] [] false [] None None [(1, Some (VBin 0))])].

Lemma nth_nil_nat i : nth i (@nil nat) 0 = 0.
Proof. destruct i; reflexivity. Qed.
Lemma nth_nil_bool i : nth i (@nil bool) false = false.
Proof. destruct i; reflexivity. Qed.

Lemma nr_heap_WF : WFh nr_heap.
Proof.
  unfold WFh, nr_heap; cbn [cells rcs free pending freed length].
  split; [reflexivity|]. split; [reflexivity|]. split; [constructor|].
  split; [|split].
  - intros i. split; [intros []|]. intros [Hi Hf].
    destruct i as [|i]; [discriminate Hf|lia].
  - intros i Hf. destruct i as [|i]; [discriminate Hf|].
    unfold freed_at in Hf; simpl in Hf. destruct i; discriminate Hf.
  - intros i [].
Qed.

Example nr_exec_XInv : XInv nr_exec.
Proof.
  split; [exact nr_heap_WF|]. split.
  - intro i. destruct i as [|i]; [reflexivity|].
    replace (rc_at (x_heap nr_exec) (S i)) with 0 by (destruct i; reflexivity).
    symmetry. apply cnt_zero_notIn. vm_compute. intros [H|[]]. discriminate H.
  - cbn. constructor; [intros []|constructor].
Qed.

Example notify_result_refuted :
  exists x v, XInv x /\ exists x', notify_result false x 0 1 v [] = Val x' /\ ~ RC x'.
Proof.
  exists nr_exec, (VInt 5%Z). split; [exact nr_exec_XInv|].
  eexists. split; [vm_compute; reflexivity|].
  intro R. specialize (R 0). vm_compute in R. discriminate R.
Qed.

(* ------------------------------------------------------------------ *)
(* 4. notify_spawn                                                     *)
(* ------------------------------------------------------------------ *)

Lemma notify_spawn_XInv x pid pv x' :
  refs_of pv = [] -> XInv x -> notify_spawn x pid pv = Val x' -> XInv x' /\ xstable x x'.
Proof.
  intros E X H. unfold notify_spawn in H. pose proof X as (W & R & ND).
  destruct (get_proc x pid) as [p|] eqn:G.
  - unfold bump_pc in H. inversion H; subst x'; clear H. split; [|apply stable_refl].
    change (put_proc x pid ?q) with (put_proc (put_heap x (x_heap x)) pid q).
    apply XInv_put; [exact ND|]. eapply Inv_refs_eq; [|exact (XInv_take _ _ _ X G)].
    intro i. rewrite !cnt_proc_refs. proj_cbn. rewrite cnt_refs_list_cons, E, cnt_nil. lia.
  - inversion H; subst x'. split; [exact X|apply stable_refl].
Qed.
