(* Heap.v — the per-executor binary heap of quiver-core/src/executor.rs and its choke points.

   Fields mirrored (executor.rs:225-245): heap (cells: ropes of Rope.v), refcounts, free,
   pending_free, freed, constant_binaries. `free` and `pending` are Rust Vecs used as stacks
   (push / pop at the end): here the HEAD of the list is the END of the Vec.

   Build profile: DEBUG. Every `debug_assert!` of retain/release/materialize is a `Panic site`
   outcome, every Vec index out of bounds too (site = executor.rs line). Values are the `value`
   of vm/Bytecode.v with `VBin i` = `Value::Binary(Binary::Heap(i))` (Binary::Constant is never
   constructed at run time: handle_constant always goes through cached_constant_binary). *)
From Quiver Require Export Rope.
From Quiver Require Export vm.Bytecode.
Local Open Scope nat_scope.

Record heap := mkHeap {
  cells : list rope;          (* heap: Vec<BinaryData> *)
  rcs : list nat;             (* refcounts: Vec<u32> *)
  free : list nat;            (* free: Vec<usize>, head = end of the Vec *)
  pending : list nat;         (* pending_free: Vec<usize>, head = end of the Vec *)
  freed : list bool;          (* freed: Vec<bool> *)
  cbins : list (option nat);  (* constant_binaries: Vec<Option<Binary>> (always Heap) *)
}.

Definition empty_heap : heap := mkHeap [] [] [] [] [] [].

Definition set_rcs (h : heap) (r : list nat) : heap :=
  mkHeap (cells h) r (free h) (pending h) (freed h) (cbins h).
Definition set_pending (h : heap) (p : list nat) : heap :=
  mkHeap (cells h) (rcs h) (free h) p (freed h) (cbins h).
Definition set_cells (h : heap) (c : list rope) : heap :=
  mkHeap c (rcs h) (free h) (pending h) (freed h) (cbins h).
Definition set_cbins (h : heap) (c : list (option nat)) : heap :=
  mkHeap (cells h) (rcs h) (free h) (pending h) (freed h) c.

(* Vec index assignment `v[i] = x` (the bounds check is made by the caller) *)
Fixpoint upd {A} (l : list A) (i : nat) (x : A) : list A :=
  match l, i with
  | [], _ => []
  | _ :: t, O => x :: t
  | a :: t, S j => a :: upd t j x
  end.

(* the heap references of a value in the pre-order in which retain/release/collect_heap_indices
   (executor.rs:346, 367, 2828) visit them *)
Fixpoint refs_of (v : value) : list nat :=
  match v with
  | VBin i => [i]
  | VTuple _ fs => flat_map refs_of fs
  | VFun _ cs => flat_map refs_of cs
  | _ => []
  end.
Definition refs_list (vs : list value) : list nat := flat_map refs_of vs.

(* executor.rs:346 retain, the Binary::Heap arm *)
Definition retain1 (h : heap) (i : nat) : outcome heap :=
  match nth_error (freed h) i, nth_error (rcs h) i with
  | Some false, Some c => Val (set_rcs h (upd (rcs h) i (S c)))
  | Some true, _ => Panic 351          (* debug_assert!(!self.freed[idx]) *)
  | _, _ => Panic 353                  (* index out of bounds *)
  end.

(* executor.rs:367 release, the Binary::Heap arm *)
Definition release1 (h : heap) (i : nat) : outcome heap :=
  match nth_error (freed h) i, nth_error (rcs h) i with
  | Some false, Some (S c) =>
      let h' := set_rcs h (upd (rcs h) i c) in
      Val (if c =? 0 then set_pending h' (i :: pending h') else h')
  | Some false, Some O => Panic 375    (* release underflow debug_assert *)
  | Some true, _ => Panic 371          (* release of freed heap slot *)
  | _, _ => Panic 378
  end.

Fixpoint retain_l (h : heap) (l : list nat) : outcome heap :=
  match l with
  | [] => Val h
  | i :: t => h1 <- retain1 h i ;; retain_l h1 t
  end.
Fixpoint release_l (h : heap) (l : list nat) : outcome heap :=
  match l with
  | [] => Val h
  | i :: t => h1 <- release1 h i ;; release_l h1 t
  end.

(* executor.rs:346 / 367: deep, recursing through tuples and closures *)
Definition retain (h : heap) (v : value) : outcome heap := retain_l h (refs_of v).
Definition release (h : heap) (v : value) : outcome heap := release_l h (refs_of v).
(* `for value in &dropped { self.release(value) }` *)
Definition release_vals (h : heap) (vs : list value) : outcome heap := release_l h (refs_list vs).
Definition retain_vals (h : heap) (vs : list value) : outcome heap := retain_l h (refs_list vs).

(* executor.rs:303 allocate_binary_data: reuse a reclaimed slot, else grow; the slot floats at 0 *)
Definition alloc (h : heap) (r : rope) : outcome (heap * nat) :=
  if (MAX_BINARY_SIZE <? rlen r)%Z then Err InvalidArgument else
  match free h with
  | i :: fr =>
      if i <? length (cells h) then
        Val (mkHeap (upd (cells h) i r) (upd (rcs h) i 0) fr (pending h) (upd (freed h) i false) (cbins h), i)
      else Panic 314
  | [] =>
      Val (mkHeap (cells h ++ [r]) (rcs h ++ [0]) [] (pending h) (freed h ++ [false]) (cbins h),
           length (cells h))
  end.

(* executor.rs:331 process_pending_free: `while let Some(index) = self.pending_free.pop()` *)
Fixpoint ppf_l (h : heap) (l : list nat) : outcome heap :=
  match l with
  | [] => Val h
  | i :: t =>
      match nth_error (rcs h) i, nth_error (freed h) i with
      | Some c, Some f =>
          if (c =? 0) && negb f then
            ppf_l (mkHeap (upd (cells h) i (Owned [])) (rcs h) (i :: free h) (pending h)
                          (upd (freed h) i true) (cbins h)) t
          else ppf_l h t
      | _, _ => Panic 333
      end
  end.
Definition ppf (h : heap) : outcome heap := ppf_l (set_pending h []) (pending h).

(* executor.rs:517 materialize (Binary::Heap arm): flatten in place, return the bytes *)
Definition materialize (h : heap) (i : nat) : outcome (heap * list Z) :=
  match nth_error (freed h) i with
  | Some true => Panic 519
  | _ =>
    match nth_error (cells h) i with
    | None => Panic 523
    | Some (Owned bs) => Val (h, bs)
    | Some r => let bs := bytes_of r in Val (set_cells h (upd (cells h) i (Owned bs)), bs)
    end
  end.

(* `constant_binaries.resize(index + 1, None)` *)
Definition resize_opt (l : list (option nat)) (n : nat) : list (option nat) :=
  l ++ repeat None (n - length l).

(* executor.rs:1430 cached_constant_binary; `bytes` = the constant's bytes (None: not a binary
   constant -> ConstantUndefined). Returns the heap and the slot. *)
Definition cached_constant (h : heap) (k : nat) (bytes : option (list Z)) : outcome (heap * nat) :=
  match nth_error (cbins h) k with
  | Some (Some i) => Val (h, i)
  | _ =>
    match bytes with
    | None => Err ConstantUndefined
    | Some bs =>
        pr1 <- alloc h (Owned bs) ;;
        let '(h1, i) := pr1 in
        let cb := if length (cbins h1) <=? k then resize_opt (cbins h1) (S k) else cbins h1 in
        h2 <- retain1 (set_cbins h1 (upd cb k (Some i))) i ;;
        Val (h2, i)
    end
  end.

(* ---- extract_heap_data / inject_heap_data (executor.rs:2792, 2890) ---- *)

(* sorted, duplicate-free insertion: `HashSet` collected into a Vec and `sort_unstable`d *)
Fixpoint insert_u (x : nat) (l : list nat) : list nat :=
  match l with
  | [] => [x]
  | y :: t => if x <? y then x :: l else if x =? y then l else y :: insert_u x t
  end.
Definition sort_u (l : list nat) : list nat := fold_right insert_u [] l.

Fixpoint index_of (x : nat) (l : list nat) : option nat :=
  match l with
  | [] => None
  | y :: t => if x =? y then Some 0 else option_map S (index_of x t)
  end.

(* remap_heap_indices (executor.rs:2852); None = Err "Heap index not in mapping" *)
Fixpoint remap (f : nat -> option nat) (v : value) : option value :=
  match v with
  | VBin i => option_map VBin (f i)
  | VTuple t fs =>
      option_map (VTuple t)
        ((fix go (l : list value) : option (list value) :=
            match l with
            | [] => Some []
            | x :: r => match remap f x, go r with
                        | Some x', Some r' => Some (x' :: r')
                        | _, _ => None
                        end
            end) fs)
  | VFun g cs =>
      option_map (VFun g)
        ((fix go (l : list value) : option (list value) :=
            match l with
            | [] => Some []
            | x :: r => match remap f x, go r with
                        | Some x', Some r' => Some (x' :: r')
                        | _, _ => None
                        end
            end) cs)
  | _ => Some v
  end.
Fixpoint remap_list (f : nat -> option nat) (l : list value) : option (list value) :=
  match l with
  | [] => Some []
  | x :: r => match remap f x, remap_list f r with
              | Some x', Some r' => Some (x' :: r')
              | _, _ => None
              end
  end.

Fixpoint read_all (h : heap) (idx : list nat) : outcome (list (list Z)) :=
  match idx with
  | [] => Val []
  | i :: t =>
      match nth_error (cells h) i with
      | None => Err InvalidArgument
      | Some r => rest <- read_all h t ;; Val (bytes_of r :: rest)
      end
  end.

(* extract_heap_data: (remapped value, flattened bytes of every referenced slot, ascending) *)
Definition extract (h : heap) (v : value) : outcome (value * list (list Z)) :=
  let idx := sort_u (refs_of v) in
  data <- read_all h idx ;;
  match remap (fun i => index_of i idx) v with
  | Some v' => Val (v', data)
  | None => Err InvalidArgument
  end.

Fixpoint alloc_all (h : heap) (data : list (list Z)) : outcome (heap * list nat) :=
  match data with
  | [] => Val (h, [])
  | bs :: t =>
      pr2 <- alloc h (Owned bs) ;;
      let '(h1, i) := pr2 in
      pr3 <- alloc_all h1 t ;;
      let '(h2, js) := pr3 in
      Val (h2, i :: js)
  end.

(* inject_heap_data: allocate ALL of `data`, then remap the value *)
Definition inject (h : heap) (v : value) (data : list (list Z)) : outcome (heap * value) :=
  pr4 <- alloc_all h data ;;
  let '(h1, js) := pr4 in
  match remap (fun k => nth_error js k) v with
  | Some v' => Val (h1, v')
  | None => Err InvalidArgument
  end.

(* ---- the denotation of a value on a heap: binaries replaced by their bytes ---- *)
Inductive dval :=
| DBin (bs : list Z)
| DNode (tag : nat) (kind : bool) (fs : list dval)   (* kind: false = tuple, true = closure *)
| DLeaf (v : value).

Fixpoint denote (h : heap) (v : value) : option dval :=
  match v with
  | VBin i => option_map (fun r => DBin (bytes_of r)) (nth_error (cells h) i)
  | VTuple t fs =>
      option_map (DNode t false)
        ((fix go (l : list value) : option (list dval) :=
            match l with
            | [] => Some []
            | x :: r => match denote h x, go r with
                        | Some x', Some r' => Some (x' :: r')
                        | _, _ => None
                        end
            end) fs)
  | VFun g cs =>
      option_map (DNode g true)
        ((fix go (l : list value) : option (list dval) :=
            match l with
            | [] => Some []
            | x :: r => match denote h x, go r with
                        | Some x', Some r' => Some (x' :: r')
                        | _, _ => None
                        end
            end) cs)
  | _ => Some (DLeaf v)
  end.

(* the denotation of a value carried with its extracted heap data *)
Fixpoint denote_data (data : list (list Z)) (v : value) : option dval :=
  match v with
  | VBin k => option_map DBin (nth_error data k)
  | VTuple t fs =>
      option_map (DNode t false)
        ((fix go (l : list value) : option (list dval) :=
            match l with
            | [] => Some []
            | x :: r => match denote_data data x, go r with
                        | Some x', Some r' => Some (x' :: r')
                        | _, _ => None
                        end
            end) fs)
  | VFun g cs =>
      option_map (DNode g true)
        ((fix go (l : list value) : option (list dval) :=
            match l with
            | [] => Some []
            | x :: r => match denote_data data x, go r with
                        | Some x', Some r' => Some (x' :: r')
                        | _, _ => None
                        end
            end) cs)
  | _ => Some (DLeaf v)
  end.

(* spec-level reads (defaults are fine here: these are used in invariants, never in the model) *)
Definition rc_at (h : heap) (i : nat) : nat := nth i (rcs h) 0.
Definition freed_at (h : heap) (i : nat) : bool := nth i (freed h) false.
Definition bytes_at (h : heap) (i : nat) : list Z := bytes_of (nth i (cells h) (Owned [])).
Definition cnt (i : nat) (l : list nat) : nat := count_occ Nat.eq_dec l i.
Definition cb_refs (h : heap) : list nat :=
  flat_map (fun o => match o with Some i => [i] | None => [] end) (cbins h).
