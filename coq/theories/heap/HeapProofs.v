(* HeapProofs.v — invariants and per-primitive specifications of the heap model (Heap.v). *)
From Quiver Require Import heap.Heap.
Require Import Lia List Arith.
Import ListNotations.
Local Open Scope nat_scope.

(* ------------------------------------------------------------------ *)
(* generic list lemmas                                                 *)
(* ------------------------------------------------------------------ *)

Lemma upd_length {A} (l : list A) i x : length (upd l i x) = length l.
Proof.
  revert i; induction l as [|a t IH]; intros [|j]; simpl; auto.
Qed.

Lemma nth_upd_eq {A} (l : list A) i x d : i < length l -> nth i (upd l i x) d = x.
Proof.
  revert i; induction l as [|a t IH]; intros [|j] H; simpl in *; try lia; auto.
  apply IH; lia.
Qed.

Lemma nth_upd_neq {A} (l : list A) i j x d : i <> j -> nth j (upd l i x) d = nth j l d.
Proof.
  revert i j; induction l as [|a t IH]; intros [|i] [|j] H; simpl; auto; try congruence;
    try (apply IH; congruence).
Qed.

Lemma nth_error_upd_eq {A} (l : list A) i x :
  i < length l -> nth_error (upd l i x) i = Some x.
Proof.
  revert i; induction l as [|a t IH]; intros [|j] H; simpl in *; try lia; auto.
  apply IH; lia.
Qed.

Lemma nth_error_upd_neq {A} (l : list A) i j x :
  i <> j -> nth_error (upd l i x) j = nth_error l j.
Proof.
  revert i j; induction l as [|a t IH]; intros [|i] [|j] H; simpl; auto; try congruence;
    try (apply IH; congruence).
Qed.

Lemma upd_oob {A} (l : list A) i x : length l <= i -> upd l i x = l.
Proof.
  revert i; induction l as [|a t IH]; intros [|j] H; simpl in *; try lia; auto.
  f_equal; apply IH; lia.
Qed.

Lemma upd_nth_id {A} (l : list A) i d : upd l i (nth i l d) = l.
Proof.
  revert i; induction l as [|a t IH]; intros [|j]; simpl; auto.
  f_equal; apply IH.
Qed.

Lemma nth_error_Some_lt {A} (l : list A) i x : nth_error l i = Some x -> i < length l.
Proof. intros H; apply nth_error_Some; congruence. Qed.

Lemma nth_error_nth_d {A} (l : list A) i x d : nth_error l i = Some x -> nth i l d = x.
Proof.
  revert i; induction l as [|a t IH]; intros [|j] H; simpl in *; try discriminate.
  - congruence.
  - auto.
Qed.

Lemma nth_error_of_nth {A} (l : list A) i d : i < length l -> nth_error l i = Some (nth i l d).
Proof.
  revert i; induction l as [|a t IH]; intros [|j] H; simpl in *; try lia; auto.
  apply IH; lia.
Qed.

Lemma nth_app_default {A} (l : list A) d j : nth j (l ++ [d]) d = nth j l d.
Proof.
  destruct (Nat.lt_ge_cases j (length l)) as [Hlt|Hge].
  - apply app_nth1; assumption.
  - rewrite (nth_overflow l d Hge).
    rewrite app_nth2 by assumption.
    destruct (j - length l) as [|[|m]]; reflexivity.
Qed.

Lemma nth_app_neq {A} (l : list A) x d j : j <> length l -> nth j (l ++ [x]) d = nth j l d.
Proof.
  intros Hne.
  destruct (Nat.lt_ge_cases j (length l)) as [Hlt|Hge].
  - apply app_nth1; assumption.
  - rewrite (nth_overflow l d Hge).
    apply nth_overflow. rewrite app_length; simpl; lia.
Qed.

Lemma cnt_cons i a t : cnt i (a :: t) = (if Nat.eq_dec a i then 1 else 0) + cnt i t.
Proof. unfold cnt; simpl. destruct (Nat.eq_dec a i); reflexivity. Qed.

Lemma cnt_nil i : cnt i [] = 0.
Proof. reflexivity. Qed.

Lemma cnt_app i l1 l2 : cnt i (l1 ++ l2) = cnt i l1 + cnt i l2.
Proof. unfold cnt. apply count_occ_app. Qed.

Lemma cnt_pos_In i l : cnt i l > 0 <-> In i l.
Proof. unfold cnt. symmetry. apply count_occ_In. Qed.

Lemma cnt_zero_notIn i l : cnt i l = 0 <-> ~ In i l.
Proof. unfold cnt. symmetry. apply count_occ_not_In. Qed.

(* ------------------------------------------------------------------ *)
(* outcome helpers                                                     *)
(* ------------------------------------------------------------------ *)

Lemma obind_val {A B} (o : outcome A) (k : A -> outcome B) b :
  obind o k = Val b -> exists a, o = Val a /\ k a = Val b.
Proof.
  destruct o as [a|e|s]; simpl; intros H; try discriminate. eauto.
Qed.

(* ------------------------------------------------------------------ *)
(* invariants                                                          *)
(* ------------------------------------------------------------------ *)

Definition WFh (h : heap) : Prop :=
  length (rcs h) = length (cells h) /\ length (freed h) = length (cells h) /\
  NoDup (free h) /\
  (forall i, In i (free h) <-> (i < length (cells h) /\ freed_at h i = true)) /\
  (forall i, freed_at h i = true -> rc_at h i = 0) /\
  (forall i, In i (pending h) -> i < length (cells h)).

Definition NoOrphan (h : heap) : Prop :=
  forall i, i < length (cells h) -> rc_at h i = 0 -> freed_at h i = true \/ In i (pending h).

(* handler-level stability of bytes: slots that are not free keep their bytes and stay not free *)
Definition stable (h h' : heap) : Prop :=
  length (cells h) <= length (cells h') /\
  forall i, i < length (cells h) -> freed_at h i = false ->
            freed_at h' i = false /\ bytes_at h' i = bytes_at h i.

Lemma stable_refl h : stable h h.
Proof. split; [lia|]. intros i Hi Hf; auto. Qed.

Lemma stable_trans h1 h2 h3 : stable h1 h2 -> stable h2 h3 -> stable h1 h3.
Proof.
  intros [L12 S12] [L23 S23]. split; [lia|].
  intros i Hi Hf. destruct (S12 i Hi Hf) as [Hf2 Hb2].
  destruct (S23 i ltac:(lia) Hf2) as [Hf3 Hb3]. split; congruence.
Qed.

(* ------------------------------------------------------------------ *)
(* retain1 / release1                                                  *)
(* ------------------------------------------------------------------ *)

Lemma retain1_inv h i h' :
  retain1 h i = Val h' ->
  nth_error (freed h) i = Some false /\
  exists c, nth_error (rcs h) i = Some c /\ h' = set_rcs h (upd (rcs h) i (S c)).
Proof.
  unfold retain1.
  destruct (nth_error (freed h) i) as [[|]|] eqn:Ef;
    destruct (nth_error (rcs h) i) as [c|] eqn:Er; intros H; try discriminate.
  inversion H; subst. eauto.
Qed.

Lemma release1_inv h i h' :
  release1 h i = Val h' ->
  nth_error (freed h) i = Some false /\
  exists c, nth_error (rcs h) i = Some (S c) /\
    h' = (if c =? 0 then set_pending (set_rcs h (upd (rcs h) i c)) (i :: pending h)
          else set_rcs h (upd (rcs h) i c)).
Proof.
  unfold release1.
  destruct (nth_error (freed h) i) as [[|]|] eqn:Ef;
    destruct (nth_error (rcs h) i) as [[|c]|] eqn:Er; intros H; try discriminate.
  inversion H; subst. split; [reflexivity|]. exists c. split; [reflexivity|].
  destruct (c =? 0); reflexivity.
Qed.

(* ------------------------------------------------------------------ *)
(* 1. retain_l                                                         *)
(* ------------------------------------------------------------------ *)

Lemma retain_l_spec : forall l h h', retain_l h l = Val h' ->
  cells h' = cells h /\ free h' = free h /\ pending h' = pending h /\ freed h' = freed h /\
  cbins h' = cbins h /\ length (rcs h') = length (rcs h) /\
  forall i, rc_at h' i = rc_at h i + cnt i l.
Proof.
  induction l as [|a t IH]; intros h h' H; simpl in H.
  - inversion H; subst. repeat split; auto; intros i; rewrite cnt_nil; lia.
  - apply obind_val in H as (h1 & H1 & H2).
    apply retain1_inv in H1 as (Hf & c & Hc & ->).
    apply IH in H2 as (Hce & Hfr & Hp & Hfd & Hcb & Hlen & Hrc).
    simpl in Hce, Hfr, Hp, Hfd, Hcb, Hlen.
    repeat split; try assumption.
    + rewrite Hlen, upd_length. reflexivity.
    + intros i. rewrite Hrc, cnt_cons. unfold rc_at; cbn [rcs set_rcs].
      destruct (Nat.eq_dec a i) as [->|Hne].
      * rewrite nth_upd_eq by (eapply nth_error_Some_lt; eauto).
        rewrite (nth_error_nth_d _ _ _ 0 Hc). lia.
      * rewrite nth_upd_neq by assumption. lia.
Qed.

(* every retained index is a live (not freed, in range) slot *)
Lemma retain_l_live : forall l h h', retain_l h l = Val h' ->
  forall i, In i l -> nth_error (freed h) i = Some false.
Proof.
  induction l as [|a t IH]; intros h h' H i Hi; simpl in *; [contradiction|].
  apply obind_val in H as (h1 & H1 & H2).
  apply retain1_inv in H1 as (Hf & c & Hc & ->).
  destruct Hi as [->|Hi]; [assumption|].
  apply (IH _ _ H2 i Hi).
Qed.

(* ------------------------------------------------------------------ *)
(* 2. release_l                                                        *)
(* ------------------------------------------------------------------ *)

Lemma release_l_live : forall l h h', release_l h l = Val h' ->
  forall i, In i l -> nth_error (freed h) i = Some false.
Proof.
  induction l as [|a t IH]; intros h h' H i Hi; simpl in *; [contradiction|].
  apply obind_val in H as (h1 & H1 & H2).
  apply release1_inv in H1 as (Hf & c & Hc & ->).
  destruct Hi as [->|Hi]; [assumption|].
  specialize (IH _ _ H2 i Hi). destruct (c =? 0); simpl in IH; assumption.
Qed.

Lemma release_l_spec : forall l h h', release_l h l = Val h' ->
  cells h' = cells h /\ free h' = free h /\ freed h' = freed h /\ cbins h' = cbins h /\
  length (rcs h') = length (rcs h) /\
  (forall i, rc_at h' i + cnt i l = rc_at h i) /\
  (exists new, pending h' = new ++ pending h /\
               forall i, In i new <-> (In i l /\ rc_at h' i = 0)).
Proof.
  induction l as [|a t IH]; intros h h' H; simpl in H.
  - inversion H; subst. repeat split; auto; try (intros i; rewrite cnt_nil; lia).
    exists []. split; [reflexivity|]. intros i; simpl; tauto.
  - apply obind_val in H as (h1 & H1 & H2).
    apply release1_inv in H1 as (Hf & c & Hc & Hh1).
    apply IH in H2 as (Hce & Hfr & Hfd & Hcb & Hlen & Hrc & new & Hnew & Hin).
    assert (Hbase : cells h1 = cells h /\ free h1 = free h /\ freed h1 = freed h /\
                    cbins h1 = cbins h /\ rcs h1 = upd (rcs h) a c).
    { subst h1. destruct (c =? 0); simpl; repeat split; reflexivity. }
    destruct Hbase as (B1 & B2 & B3 & B4 & B5).
    assert (Ha : a < length (rcs h)) by (eapply nth_error_Some_lt; eauto).
    assert (Hrc1 : forall i, rc_at h1 i + (if Nat.eq_dec a i then 1 else 0) = rc_at h i).
    { intros i. unfold rc_at. rewrite B5.
      destruct (Nat.eq_dec a i) as [->|Hne].
      - rewrite nth_upd_eq by assumption. rewrite (nth_error_nth_d _ _ _ 0 Hc). lia.
      - rewrite nth_upd_neq by assumption. lia. }
    repeat split; try congruence.
    + rewrite Hlen, B5, upd_length. reflexivity.
    + intros i. rewrite cnt_cons. specialize (Hrc i). specialize (Hrc1 i). lia.
    + destruct (c =? 0) eqn:Ec.
      * apply Nat.eqb_eq in Ec. subst c.
        assert (Hp1 : pending h1 = a :: pending h) by (subst h1; reflexivity).
        exists (new ++ [a]). split.
        { rewrite Hnew, Hp1, <- app_assoc. reflexivity. }
        intros i. rewrite in_app_iff, Hin. simpl.
        assert (Ha0 : rc_at h' a = 0).
        { specialize (Hrc a). specialize (Hrc1 a).
          destruct (Nat.eq_dec a a) as [_|N]; [|congruence].
          unfold rc_at in Hrc1 at 2. rewrite (nth_error_nth_d _ _ _ 0 Hc) in Hrc1. lia. }
        split.
        { intros [[Hit Hz]|[Hai|[]]]; [tauto|]. subst i. split; [left; reflexivity|assumption]. }
        { intros [[Hai|Hit] Hz]; [right; left; assumption | left; split; assumption]. }
      * apply Nat.eqb_neq in Ec.
        assert (Hp1 : pending h1 = pending h) by (subst h1; reflexivity).
        exists new. split; [congruence|].
        intros i. rewrite Hin. simpl. split; [tauto|].
        intros [[Hai|Hit] Hz]; [|tauto]. subst i. split; [|assumption].
        apply cnt_pos_In.
        specialize (Hrc a). specialize (Hrc1 a).
        destruct (Nat.eq_dec a a) as [_|N]; [|congruence].
        unfold rc_at in Hrc1 at 2. rewrite (nth_error_nth_d _ _ _ 0 Hc) in Hrc1. lia.
Qed.

(* ------------------------------------------------------------------ *)
(* 3. WFh / NoOrphan preservation by retain_l / release_l              *)
(* ------------------------------------------------------------------ *)

Ltac split6 := split; [|split; [|split; [|split; [|split]]]].

Lemma freed_at_of_nth_error h i b : nth_error (freed h) i = Some b -> freed_at h i = b.
Proof. intros H. unfold freed_at. apply nth_error_nth_d; assumption. Qed.

Lemma rc_at_of_nth_error h i c : nth_error (rcs h) i = Some c -> rc_at h i = c.
Proof. intros H. unfold rc_at. apply nth_error_nth_d; assumption. Qed.

Lemma retain_l_WF h l h' : WFh h -> retain_l h l = Val h' -> WFh h'.
Proof.
  intros (W1 & W2 & W3 & W4 & W5 & W6) H.
  destruct (retain_l_spec _ _ _ H) as (Hce & Hfr & Hp & Hfd & Hcb & Hlen & Hrc).
  assert (Hfa : forall i, freed_at h' i = freed_at h i).
  { intros i; unfold freed_at; rewrite Hfd; reflexivity. }
  unfold WFh. rewrite Hce, Hfr, Hp, Hfd, Hlen. split6; try assumption.
  - intros i. rewrite Hfa. apply W4.
  - intros i Hf. rewrite Hfa in Hf. rewrite Hrc, (W5 i Hf).
    destruct (in_dec Nat.eq_dec i l) as [Hin|Hnin].
    + apply (retain_l_live _ _ _ H) in Hin. apply freed_at_of_nth_error in Hin. congruence.
    + apply cnt_zero_notIn in Hnin. lia.
Qed.

Lemma release_l_WF h l h' : WFh h -> release_l h l = Val h' -> WFh h'.
Proof.
  intros (W1 & W2 & W3 & W4 & W5 & W6) H.
  destruct (release_l_spec _ _ _ H) as (Hce & Hfr & Hfd & Hcb & Hlen & Hrc & new & Hnew & Hin).
  assert (Hfa : forall i, freed_at h' i = freed_at h i).
  { intros i; unfold freed_at; rewrite Hfd; reflexivity. }
  unfold WFh. rewrite Hce, Hfr, Hfd, Hlen. split6; try assumption.
  - intros i. rewrite Hfa. apply W4.
  - intros i Hf. rewrite Hfa in Hf. specialize (Hrc i). rewrite (W5 i Hf) in Hrc. lia.
  - intros i Hi. rewrite Hnew in Hi. apply in_app_or in Hi as [Hi|Hi]; [|auto].
    apply Hin in Hi as [Hil _]. apply (release_l_live _ _ _ H) in Hil.
    apply nth_error_Some_lt in Hil. lia.
Qed.

Lemma retain_l_NoOrphan h l h' : WFh h -> NoOrphan h -> retain_l h l = Val h' -> NoOrphan h'.
Proof.
  intros _ NO H.
  destruct (retain_l_spec _ _ _ H) as (Hce & Hfr & Hp & Hfd & Hcb & Hlen & Hrc).
  intros i Hi Hz. unfold freed_at. rewrite Hfd, Hp. rewrite Hce in Hi. rewrite Hrc in Hz.
  apply NO; [assumption|lia].
Qed.

Lemma release_l_NoOrphan h l h' : WFh h -> NoOrphan h -> release_l h l = Val h' -> NoOrphan h'.
Proof.
  intros _ NO H.
  destruct (release_l_spec _ _ _ H) as (Hce & Hfr & Hfd & Hcb & Hlen & Hrc & new & Hnew & Hin).
  intros i Hi Hz. unfold freed_at. rewrite Hfd, Hnew. rewrite Hce in Hi.
  destruct (in_dec Nat.eq_dec i l) as [Hil|Hnil].
  - right. apply in_or_app. left. apply Hin. split; assumption.
  - apply cnt_zero_notIn in Hnil. specialize (Hrc i).
    destruct (NO i Hi ltac:(lia)) as [Hf|Hp]; [left; exact Hf|right; apply in_or_app; right; exact Hp].
Qed.

(* 8 (part). stability *)
Lemma retain_l_stable h l h' : retain_l h l = Val h' -> stable h h'.
Proof.
  intros H. destruct (retain_l_spec _ _ _ H) as (Hce & Hfr & Hp & Hfd & Hcb & Hlen & Hrc).
  unfold stable, freed_at, bytes_at. rewrite Hce, Hfd. split; [lia|]. intros i Hi Hf; auto.
Qed.

Lemma release_l_stable h l h' : release_l h l = Val h' -> stable h h'.
Proof.
  intros H.
  destruct (release_l_spec _ _ _ H) as (Hce & Hfr & Hfd & Hcb & Hlen & Hrc & _).
  unfold stable, freed_at, bytes_at. rewrite Hce, Hfd. split; [lia|]. intros i Hi Hf; auto.
Qed.

(* ------------------------------------------------------------------ *)
(* 4. alloc                                                            *)
(* ------------------------------------------------------------------ *)

Lemma alloc_spec h r h' i : WFh h -> alloc h r = Val (h', i) ->
  WFh h' /\ (freed_at h i = true \/ i = length (cells h)) /\ freed_at h' i = false /\
  nth_error (cells h') i = Some r /\ (forall j, rc_at h' j = rc_at h j) /\ rc_at h' i = 0 /\
  pending h' = pending h /\ cbins h' = cbins h /\
  (forall j, j <> i -> freed_at h' j = freed_at h j /\
                       nth j (cells h') (Owned []) = nth j (cells h) (Owned [])) /\
  stable h h'.
Proof.
  intros (W1 & W2 & W3 & W4 & W5 & W6) H. unfold alloc in H.
  destruct (MAX_BINARY_SIZE <? rlen r)%Z; [discriminate|].
  destruct (free h) as [|i0 fr] eqn:Efree.
  - (* grow *)
    inversion H; subst h' i; clear H.
    set (h' := mkHeap (cells h ++ [r]) (rcs h ++ [0]) [] (pending h) (freed h ++ [false]) (cbins h)).
    assert (Hrc : forall j, rc_at h' j = rc_at h j).
    { intros j. unfold rc_at, h'; cbn [rcs]. apply nth_app_default. }
    assert (Hfa : forall j, freed_at h' j = freed_at h j).
    { intros j. unfold freed_at, h'; cbn [freed]. apply nth_app_default. }
    assert (Hnofree : forall j, freed_at h j = false).
    { intros j. destruct (freed_at h j) eqn:E; [|reflexivity]. exfalso.
      destruct (Nat.lt_ge_cases j (length (cells h))) as [Hlt|Hge].
      - assert (Hin : In j []) by (apply W4; split; assumption).
        destruct Hin.
      - unfold freed_at in E. rewrite nth_overflow in E by lia. discriminate. }
    assert (Hlen : length (cells h') = S (length (cells h))).
    { unfold h'; cbn [cells]. rewrite app_length; simpl; lia. }
    assert (Hov : rc_at h (length (cells h)) = 0).
    { unfold rc_at. apply nth_overflow. lia. }
    split; [|split; [|split; [|split; [|split; [|split; [|split; [|split; [|split]]]]]]]].
    + unfold WFh. split6.
      * unfold h'; cbn [rcs cells]. rewrite !app_length; simpl; lia.
      * unfold h'; cbn [freed cells]. rewrite !app_length; simpl; lia.
      * unfold h'; cbn [free]. constructor.
      * intros j. unfold h' at 1; cbn [free]. split; [intros []|].
        intros [_ Hf]. rewrite Hfa, Hnofree in Hf. discriminate.
      * intros j Hf. rewrite Hfa in Hf. rewrite Hrc. apply W5; assumption.
      * intros j Hj. rewrite Hlen. unfold h' in Hj; cbn [pending] in Hj. apply W6 in Hj. lia.
    + right; reflexivity.
    + rewrite Hfa. apply Hnofree.
    + unfold h'; cbn [cells]. rewrite nth_error_app2 by lia. rewrite Nat.sub_diag. reflexivity.
    + exact Hrc.
    + rewrite Hrc. exact Hov.
    + reflexivity.
    + reflexivity.
    + intros j Hne. split; [apply Hfa|]. unfold h'; cbn [cells]. apply nth_app_neq; assumption.
    + split; [lia|]. intros j Hj Hf. split; [rewrite Hfa; assumption|].
      unfold bytes_at. unfold h'; cbn [cells]. rewrite nth_app_neq by lia. reflexivity.
  - (* reuse *)
    destruct (i0 <? length (cells h)) eqn:Elt; [|discriminate].
    apply Nat.ltb_lt in Elt. inversion H; subst h' i0; clear H.
    set (h' := mkHeap (upd (cells h) i r) (upd (rcs h) i 0) fr (pending h)
                      (upd (freed h) i false) (cbins h)).
    assert (Hif : freed_at h i = true) by (apply W4; left; reflexivity).
    assert (Hiz : rc_at h i = 0) by (apply W5; assumption).
    inversion W3 as [|x xs Hnin Hnd]; subst x xs.
    assert (Hrc : forall j, rc_at h' j = rc_at h j).
    { intros j. unfold rc_at, h'; cbn [rcs].
      destruct (Nat.eq_dec i j) as [<-|Hne].
      - rewrite nth_upd_eq by lia. symmetry; exact Hiz.
      - apply nth_upd_neq; assumption. }
    assert (Hfi : freed_at h' i = false).
    { unfold freed_at, h'; cbn [freed]. apply nth_upd_eq; lia. }
    assert (Hfa : forall j, j <> i -> freed_at h' j = freed_at h j).
    { intros j Hne. unfold freed_at, h'; cbn [freed]. apply nth_upd_neq; congruence. }
    assert (Hlen : length (cells h') = length (cells h)).
    { unfold h'; cbn [cells]. apply upd_length. }
    assert (Hce : forall j, j <> i -> nth j (cells h') (Owned []) = nth j (cells h) (Owned [])).
    { intros j Hne. unfold h'; cbn [cells]. apply nth_upd_neq; congruence. }
    split; [|split; [|split; [|split; [|split; [|split; [|split; [|split; [|split]]]]]]]].
    + unfold WFh. rewrite Hlen. split6.
      * unfold h'; cbn [rcs]. rewrite upd_length; assumption.
      * unfold h'; cbn [freed]. rewrite upd_length; assumption.
      * exact Hnd.
      * intros j. unfold h' at 1; cbn [free]. split.
        { intros Hj. assert (Hne : j <> i) by (intros ->; contradiction).
          rewrite (Hfa j Hne). apply W4. right; assumption. }
        { intros [Hj Hf]. assert (Hne : j <> i) by (intros ->; congruence).
          rewrite (Hfa j Hne) in Hf.
          assert (Hin : In j (i :: fr)) by (apply W4; split; assumption).
          destruct Hin as [->|Hin]; [congruence|assumption]. }
      * intros j Hf. rewrite Hrc.
        destruct (Nat.eq_dec j i) as [->|Hne]; [assumption|].
        rewrite (Hfa j Hne) in Hf. apply W5; assumption.
      * exact W6.
    + left; exact Hif.
    + exact Hfi.
    + unfold h'; cbn [cells]. apply nth_error_upd_eq; assumption.
    + exact Hrc.
    + rewrite Hrc; exact Hiz.
    + reflexivity.
    + reflexivity.
    + intros j Hne. split; [apply Hfa; assumption|apply Hce; assumption].
    + split; [lia|]. intros j Hj Hf.
      assert (Hne : j <> i) by (intros ->; congruence).
      split; [rewrite Hfa; assumption|]. unfold bytes_at. rewrite Hce by assumption. reflexivity.
Qed.

(* ------------------------------------------------------------------ *)
(* 5. process_pending_free                                             *)
(* ------------------------------------------------------------------ *)

Definition ppf_step (h : heap) (i : nat) : heap :=
  mkHeap (upd (cells h) i (Owned [])) (rcs h) (i :: free h) (pending h)
         (upd (freed h) i true) (cbins h).

Lemma ppf_step_facts h i :
  WFh h -> nth_error (rcs h) i = Some 0 -> nth_error (freed h) i = Some false ->
  WFh (ppf_step h i) /\
  (forall j, freed_at (ppf_step h i) j = true <-> (freed_at h j = true \/ j = i)) /\
  (forall j, j <> i -> nth j (cells (ppf_step h i)) (Owned []) = nth j (cells h) (Owned [])).
Proof.
  intros (W1 & W2 & W3 & W4 & W5 & W6) Hc Hf.
  assert (Hi : i < length (freed h)) by (eapply nth_error_Some_lt; eauto).
  apply freed_at_of_nth_error in Hf. apply rc_at_of_nth_error in Hc.
  assert (Hfi : freed_at (ppf_step h i) i = true).
  { unfold freed_at, ppf_step; cbn [freed]. apply nth_upd_eq; assumption. }
  assert (Hfa : forall j, j <> i -> freed_at (ppf_step h i) j = freed_at h j).
  { intros j Hne. unfold freed_at, ppf_step; cbn [freed]. apply nth_upd_neq; congruence. }
  assert (Hiff : forall j, freed_at (ppf_step h i) j = true <-> (freed_at h j = true \/ j = i)).
  { intros j. destruct (Nat.eq_dec j i) as [->|Hne].
    - split; auto.
    - rewrite (Hfa j Hne). split; [auto|]. intros [H|H]; [assumption|contradiction]. }
  split; [|split].
  - unfold WFh.
    change (free (ppf_step h i)) with (i :: free h).
    change (pending (ppf_step h i)) with (pending h).
    change (rcs (ppf_step h i)) with (rcs h).
    replace (length (cells (ppf_step h i))) with (length (cells h))
      by (unfold ppf_step; cbn [cells]; rewrite upd_length; reflexivity).
    replace (length (freed (ppf_step h i))) with (length (freed h))
      by (unfold ppf_step; cbn [freed]; rewrite upd_length; reflexivity).
    split6; try assumption.
    + constructor; [|assumption]. intros Hin. apply W4 in Hin as [_ Hin]. congruence.
    + intros j. rewrite Hiff. simpl. rewrite W4. split.
      * intros [->|[Hj Hfj]]; [split; [lia|right; reflexivity]|split; [assumption|left; assumption]].
      * intros [Hj [Hfj| ->]]; [right; split; assumption|left; reflexivity].
    + intros j Hfj. unfold rc_at, ppf_step; cbn [rcs]. fold (rc_at h j).
      apply Hiff in Hfj as [Hfj| ->]; [apply W5; assumption|assumption].
  - exact Hiff.
  - intros j Hne. unfold ppf_step; cbn [cells]. apply nth_upd_neq; congruence.
Qed.

Lemma ppf_l_spec : forall l h h',
  WFh h -> (forall i, In i l -> i < length (cells h)) -> ppf_l h l = Val h' ->
  WFh h' /\ rcs h' = rcs h /\ pending h' = pending h /\ cbins h' = cbins h /\
  length (cells h') = length (cells h) /\
  (forall i, freed_at h' i = true <-> (freed_at h i = true \/ (In i l /\ rc_at h i = 0))) /\
  (forall i, freed_at h' i = false ->
             nth i (cells h') (Owned []) = nth i (cells h) (Owned [])).
Proof.
  induction l as [|a t IH]; intros h h' W Hr H; simpl in H.
  - inversion H; subst h'. split6; auto. split; [|auto].
    intros i. simpl. tauto.
  - destruct (nth_error (rcs h) a) as [c|] eqn:Ec; [|discriminate].
    destruct (nth_error (freed h) a) as [f|] eqn:Ef; [|discriminate].
    destruct ((c =? 0) && negb f) eqn:Econd.
    + apply andb_prop in Econd as [Ec0 Enf]. apply Nat.eqb_eq in Ec0. subst c.
      destruct f; [discriminate|]. clear Enf.
      fold (ppf_step h a) in H.
      destruct (ppf_step_facts h a W Ec Ef) as (W1 & Hiff & Hcells).
      assert (Hlen1 : length (cells (ppf_step h a)) = length (cells h)).
      { unfold ppf_step; cbn [cells]. apply upd_length. }
      assert (Hr1 : forall i, In i t -> i < length (cells (ppf_step h a))).
      { intros i Hi. rewrite Hlen1. apply Hr. right; assumption. }
      destruct (IH _ _ W1 Hr1 H) as (W' & Hrcs & Hpe & Hcb & Hlen & Hfr & Hce).
      assert (Hrc1 : forall i, rc_at (ppf_step h a) i = rc_at h i) by reflexivity.
      split6; try assumption; try congruence.
      split.
      * intros i. rewrite Hfr, Hiff, Hrc1. simpl.
        pose proof (rc_at_of_nth_error _ _ _ Ec) as Hz.
        split.
        { intros [[Hf| ->]|[Hi Hz']]; [tauto| |tauto]. right; split; [left; reflexivity|assumption]. }
        { intros [Hf|[[->|Hi] Hz']]; [tauto| |tauto]. left; right; reflexivity. }
      * intros i Hfi. rewrite (Hce i Hfi). apply Hcells.
        intros ->. assert (Ht : freed_at h' a = true).
        { apply Hfr. left. apply Hiff. right; reflexivity. }
        congruence.
    + assert (Hr1 : forall i, In i t -> i < length (cells h)).
      { intros i Hi. apply Hr. right; assumption. }
      destruct (IH _ _ W Hr1 H) as (W' & Hrcs & Hpe & Hcb & Hlen & Hfr & Hce).
      split6; try assumption. split; [|assumption].
      intros i. rewrite Hfr. simpl.
      pose proof (rc_at_of_nth_error _ _ _ Ec) as Hz.
      pose proof (freed_at_of_nth_error _ _ _ Ef) as Hf.
      split; [tauto|].
      intros [Hfi|[[->|Hi] Hz']]; [tauto| |tauto].
      left. rewrite Hz in Hz'. subst c. destruct f; [assumption|]. rewrite Hz' in Econd. simpl in Econd; discriminate.
Qed.

Lemma ppf_l_total : forall l h,
  WFh h -> (forall i, In i l -> i < length (cells h)) -> exists h', ppf_l h l = Val h'.
Proof.
  induction l as [|a t IH]; intros h W Hr; simpl.
  - eauto.
  - pose proof W as (W1 & W2 & _).
    assert (Ha : a < length (cells h)) by (apply Hr; left; reflexivity).
    destruct (nth_error (rcs h) a) as [c|] eqn:Ec;
      [|apply nth_error_None in Ec; lia].
    destruct (nth_error (freed h) a) as [f|] eqn:Ef;
      [|apply nth_error_None in Ef; lia].
    destruct ((c =? 0) && negb f) eqn:Econd.
    + apply andb_prop in Econd as [Ec0 Enf]. apply Nat.eqb_eq in Ec0. subst c.
      destruct f; [discriminate|].
      fold (ppf_step h a).
      destruct (ppf_step_facts h a W Ec Ef) as (Wn & _ & _).
      apply IH; [assumption|].
      intros i Hi. unfold ppf_step; cbn [cells]. rewrite upd_length. apply Hr; right; assumption.
    + apply IH; [assumption|]. intros i Hi. apply Hr; right; assumption.
Qed.

Lemma WFh_set_pending_nil h : WFh h -> WFh (set_pending h []).
Proof.
  intros (W1 & W2 & W3 & W4 & W5 & W6). unfold WFh. split6; try assumption.
  intros i [].
Qed.

Lemma ppf_spec h h' : WFh h -> ppf h = Val h' ->
  WFh h' /\ rcs h' = rcs h /\ pending h' = [] /\ cbins h' = cbins h /\
  length (cells h') = length (cells h) /\
  (forall i, freed_at h' i = true <-> (freed_at h i = true \/ (In i (pending h) /\ rc_at h i = 0))) /\
  (forall i, freed_at h' i = false -> nth i (cells h') (Owned []) = nth i (cells h) (Owned [])).
Proof.
  intros W H. unfold ppf in H.
  pose proof W as (_ & _ & _ & _ & _ & W6).
  apply ppf_l_spec in H; [|apply WFh_set_pending_nil; assumption|exact W6].
  exact H.
Qed.

Lemma ppf_total h : WFh h -> exists h', ppf h = Val h'.
Proof.
  intros W. unfold ppf. pose proof W as (_ & _ & _ & _ & _ & W6).
  apply ppf_l_total; [apply WFh_set_pending_nil; assumption|exact W6].
Qed.

Lemma reclaim_sound_l h h' : WFh h -> ppf h = Val h' ->
  forall i, freed_at h' i = true -> freed_at h i = false -> rc_at h i = 0 /\ In i (pending h).
Proof.
  intros W H i Hf' Hf.
  destruct (ppf_spec _ _ W H) as (_ & _ & _ & _ & _ & Hiff & _).
  apply Hiff in Hf' as [Hf'|[Hin Hz]]; [congruence|split; assumption].
Qed.

Lemma reclaim_complete_l h h' : WFh h -> NoOrphan h -> ppf h = Val h' ->
  forall i, i < length (cells h') -> rc_at h' i = 0 -> freed_at h' i = true.
Proof.
  intros W NO H i Hi Hz.
  destruct (ppf_spec _ _ W H) as (_ & Hrcs & _ & _ & Hlen & Hiff & _).
  assert (Hz0 : rc_at h i = 0) by (unfold rc_at in *; rewrite <- Hrcs; assumption).
  apply Hiff. rewrite Hlen in Hi.
  destruct (NO i Hi Hz0) as [Hf|Hp]; [left; assumption|right; split; assumption].
Qed.

Lemma ppf_NoOrphan h h' : WFh h -> NoOrphan h -> ppf h = Val h' -> NoOrphan h'.
Proof.
  intros W NO H i Hi Hz. left. eapply reclaim_complete_l; eauto.
Qed.

(* ppf is NOT `stable` (it frees slots); what survives keeps its bytes *)
Lemma ppf_preserves_live h h' : WFh h -> ppf h = Val h' ->
  forall i, freed_at h' i = false -> freed_at h i = false /\ bytes_at h' i = bytes_at h i.
Proof.
  intros W H.
  destruct (ppf_spec _ _ W H) as (_ & _ & _ & _ & _ & Hiff & Hce).
  intros i Hf. split.
  - destruct (freed_at h i) eqn:E; [|reflexivity].
    assert (Ht : freed_at h' i = true) by (apply Hiff; left; exact E). congruence.
  - unfold bytes_at. rewrite (Hce i Hf). reflexivity.
Qed.

(* ------------------------------------------------------------------ *)
(* 6. materialize                                                      *)
(* ------------------------------------------------------------------ *)

Lemma WFh_ext h h' :
  length (cells h') = length (cells h) -> rcs h' = rcs h -> free h' = free h ->
  pending h' = pending h -> freed h' = freed h -> WFh h -> WFh h'.
Proof.
  intros Hl Hr Hf Hp Hd. unfold WFh, freed_at, rc_at. rewrite Hl, Hr, Hf, Hp, Hd. tauto.
Qed.

Lemma stable_ext h h1 h2 :
  cells h2 = cells h1 -> freed h2 = freed h1 -> stable h h1 -> stable h h2.
Proof.
  intros Hc Hf. unfold stable, freed_at, bytes_at. rewrite Hc, Hf. tauto.
Qed.

Lemma materialize_inv h i h' bs : materialize h i = Val (h', bs) ->
  exists r, nth_error (cells h) i = Some r /\ bs = bytes_of r /\
            (h' = h \/ h' = set_cells h (upd (cells h) i (Owned (bytes_of r)))).
Proof.
  unfold materialize. intros H.
  assert (H' : match nth_error (cells h) i with
               | None => Panic 523
               | Some (Owned bs) => Val (h, bs)
               | Some r => let bs := bytes_of r in
                           Val (set_cells h (upd (cells h) i (Owned bs)), bs)
               end = Val (h', bs)).
  { destruct (nth_error (freed h) i) as [[|]|]; [discriminate|exact H|exact H]. }
  clear H. destruct (nth_error (cells h) i) as [r|]; [|discriminate].
  exists r. split; [reflexivity|].
  destruct r; cbv zeta in H'; inversion H'; subst; auto.
Qed.

Lemma bytes_at_set_cells_owned h i r j :
  nth_error (cells h) i = Some r ->
  bytes_at (set_cells h (upd (cells h) i (Owned (bytes_of r)))) j = bytes_at h j.
Proof.
  intros Hr. unfold bytes_at; cbn [cells set_cells].
  destruct (Nat.eq_dec i j) as [<-|Hne].
  - rewrite nth_upd_eq by (eapply nth_error_Some_lt; eauto).
    rewrite (nth_error_nth_d _ _ _ (Owned []) Hr). reflexivity.
  - rewrite nth_upd_neq by assumption. reflexivity.
Qed.

Lemma materialize_spec h i h' bs : materialize h i = Val (h', bs) ->
  rcs h' = rcs h /\ free h' = free h /\ pending h' = pending h /\ freed h' = freed h /\
  cbins h' = cbins h /\ length (cells h') = length (cells h) /\
  (forall j, bytes_at h' j = bytes_at h j) /\ bs = bytes_at h i.
Proof.
  intros H. apply materialize_inv in H as (r & Hr & -> & Hh).
  assert (Hb : bytes_of r = bytes_at h i).
  { unfold bytes_at. rewrite (nth_error_nth_d _ _ _ (Owned []) Hr). reflexivity. }
  destruct Hh as [->| ->].
  - repeat split; auto.
  - cbn [rcs free pending freed cbins cells set_cells]. rewrite upd_length.
    repeat split; auto. intros j. apply bytes_at_set_cells_owned; assumption.
Qed.

Lemma materialize_WF h i h' bs : WFh h -> materialize h i = Val (h', bs) -> WFh h'.
Proof.
  intros W H. apply materialize_spec in H as (H1 & H2 & H3 & H4 & H5 & H6 & _).
  eapply WFh_ext; eauto.
Qed.

Lemma materialize_stable h i h' bs : materialize h i = Val (h', bs) -> stable h h'.
Proof.
  intros H. apply materialize_spec in H as (H1 & H2 & H3 & H4 & H5 & H6 & H7 & _).
  split; [lia|]. intros j Hj Hf. unfold freed_at. rewrite H4. split; [exact Hf|apply H7].
Qed.

(* ------------------------------------------------------------------ *)
(* 7. cached_constant                                                  *)
(* ------------------------------------------------------------------ *)

Definition refs_o (l : list (option nat)) : list nat :=
  flat_map (fun o => match o with Some i => [i] | None => [] end) l.

Lemma cb_refs_refs_o h : cb_refs h = refs_o (cbins h).
Proof. reflexivity. Qed.

Lemma refs_o_app l1 l2 : refs_o (l1 ++ l2) = refs_o l1 ++ refs_o l2.
Proof. unfold refs_o. apply flat_map_app. Qed.

Lemma refs_o_repeat_None n : refs_o (repeat None n) = [].
Proof. induction n as [|n IH]; simpl; auto. Qed.

Lemma nth_error_repeat_lt {A} (a : A) n k : k < n -> nth_error (repeat a n) k = Some a.
Proof.
  revert k; induction n as [|n IH]; intros [|k] H; simpl; try lia; auto.
  apply IH; lia.
Qed.

Lemma cnt_refs_o_upd : forall l k i j, nth_error l k = Some None ->
  cnt j (refs_o (upd l k (Some i))) = cnt j (refs_o l) + (if Nat.eq_dec j i then 1 else 0).
Proof.
  induction l as [|a t IH]; intros [|k] i j H; simpl in H; try discriminate.
  - inversion H; subst a. cbn [upd]. unfold refs_o; cbn [flat_map]. fold (refs_o t).
    cbn [app]. rewrite cnt_cons.
    destruct (Nat.eq_dec i j) as [E1|E1]; destruct (Nat.eq_dec j i) as [E2|E2];
      try congruence; lia.
  - cbn [upd]. unfold refs_o; cbn [flat_map]. fold (refs_o t). fold (refs_o (upd t k (Some i))).
    rewrite !cnt_app. rewrite (IH k i j H). lia.
Qed.

Lemma cached_constant_spec h k bs h' i :
  WFh h -> cached_constant h k (Some bs) = Val (h', i) ->
  (h' = h /\ nth_error (cbins h) k = Some (Some i)) \/
  (WFh h' /\ stable h h' /\ bytes_at h' i = bs /\ freed_at h' i = false /\
   (forall j, rc_at h' j = rc_at h j + (if Nat.eq_dec j i then 1 else 0)) /\
   (forall j, cnt j (cb_refs h') = cnt j (cb_refs h) + (if Nat.eq_dec j i then 1 else 0)) /\
   pending h' = pending h).
Proof.
  intros W H. unfold cached_constant in H.
  assert (Hk : (exists i0, nth_error (cbins h) k = Some (Some i0)) \/
               ((nth_error (cbins h) k = Some None \/ nth_error (cbins h) k = None) /\
                (pr1 <- alloc h (Owned bs) ;;
                 let '(h1, i) := pr1 in
                 let cb := if length (cbins h1) <=? k
                           then resize_opt (cbins h1) (S k) else cbins h1 in
                 h2 <- retain1 (set_cbins h1 (upd cb k (Some i))) i ;;
                 Val (h2, i)) = Val (h', i))).
  { destruct (nth_error (cbins h) k) as [[i0|]|] eqn:Ek; [left; eauto| |]; right; auto. }
  destruct Hk as [[i0 Ek]|[Ek H']].
  { rewrite Ek in H. inversion H; subst. left; auto. }
  clear H. right.
  apply obind_val in H' as ([h1 i1] & Ha & H).
  apply obind_val in H as (h2 & Hr & H).
  inversion H; subst h2 i1; clear H.
  destruct (alloc_spec _ _ _ _ W Ha) as
        (W1 & _ & Hfi & Hci & Hrc1 & Hz1 & Hp1 & Hcb1 & _ & St1).
  set (cb := if length (cbins h1) <=? k then resize_opt (cbins h1) (S k) else cbins h1) in Hr.
  assert (Hcbk : nth_error cb k = Some None /\
                 forall j, cnt j (refs_o cb) = cnt j (refs_o (cbins h))).
  { unfold cb. rewrite Hcb1. destruct Ek as [Ek|Ek].
    - assert (Hlt : k < length (cbins h)) by (eapply nth_error_Some_lt; eauto).
      destruct (length (cbins h) <=? k) eqn:El; [apply Nat.leb_le in El; lia|].
      split; [assumption|reflexivity].
    - apply nth_error_None in Ek.
      destruct (length (cbins h) <=? k) eqn:El; [|apply Nat.leb_gt in El; lia].
      unfold resize_opt. split.
      + rewrite nth_error_app2 by assumption. apply nth_error_repeat_lt. lia.
      + intros j. rewrite refs_o_app, refs_o_repeat_None, app_nil_r. reflexivity. }
  destruct Hcbk as [Hcbk Hcnt].
  set (h1' := set_cbins h1 (upd cb k (Some i))) in Hr.
  assert (W1' : WFh h1') by (eapply WFh_ext; [| | | | |exact W1]; reflexivity).
  assert (Hrl : retain_l h1' [i] = Val h') by (simpl; rewrite Hr; reflexivity).
  destruct (retain_l_spec _ _ _ Hrl) as (Hce & Hfr & Hp & Hfd & Hcb & Hlen & Hrc).
  split; [|split; [|split; [|split; [|split; [|split]]]]].
  - eapply retain_l_WF; eauto.
  - eapply stable_ext; [exact Hce|exact Hfd|].
    eapply stable_ext; [| |exact St1]; reflexivity.
  - unfold bytes_at. rewrite Hce. cbn [h1' cells set_cbins].
    rewrite (nth_error_nth_d _ _ _ (Owned []) Hci). reflexivity.
  - unfold freed_at. rewrite Hfd. exact Hfi.
  - intros j. rewrite Hrc. unfold rc_at at 1. cbn [h1' rcs set_cbins].
    fold (rc_at h1 j). rewrite Hrc1, cnt_cons, cnt_nil.
    destruct (Nat.eq_dec i j) as [E1|E1]; destruct (Nat.eq_dec j i) as [E2|E2];
      try congruence; lia.
  - intros j. rewrite !cb_refs_refs_o, Hcb. cbn [h1' cbins set_cbins].
    rewrite (cnt_refs_o_upd _ _ _ _ Hcbk), Hcnt. reflexivity.
  - rewrite Hp. exact Hp1.
Qed.

(* ------------------------------------------------------------------ *)
(* 9. non-vacuity                                                      *)
(* ------------------------------------------------------------------ *)

(* slot 0: freed; slot 1: pending with count 0; slot 2: live with count 2 *)
Definition ex_heap : heap :=
  mkHeap [Owned []; Owned [1%Z; 2%Z]; Owned [3%Z]] [0; 0; 2] [0] [1]
         [true; false; false] [].

Lemma lt3_cases i : i < 3 -> i = 0 \/ i = 1 \/ i = 2.
Proof. lia. Qed.

Example ex_heap_WF : WFh ex_heap.
Proof.
  unfold WFh, ex_heap; cbn [cells rcs free pending freed length].
  split6; try reflexivity.
  - constructor; [intros []|constructor].
  - intros i. split.
    + intros [<-|[]]. split; [lia|reflexivity].
    + intros [Hi Hf]. apply lt3_cases in Hi as [->|[->| ->]];
        [left; reflexivity|discriminate Hf|discriminate Hf].
  - intros i Hf.
    destruct i as [|[|[|i]]]; try discriminate Hf; try reflexivity.
    unfold freed_at in Hf; simpl in Hf. destruct i; discriminate Hf.
  - intros i [<-|[]]. lia.
Qed.

Example ex_heap_NoOrphan : NoOrphan ex_heap.
Proof.
  intros i Hi Hz. change (length (cells ex_heap)) with 3 in Hi.
  apply lt3_cases in Hi as [->|[->| ->]].
  - left; reflexivity.
  - right; left; reflexivity.
  - discriminate Hz.
Qed.

Example ex_heap_ppf :
  exists h', ppf ex_heap = Val h' /\
    freed h' = [true; true; false] /\ free h' = [1; 0] /\ pending h' = [] /\
    cells h' = [Owned []; Owned []; Owned [3%Z]] /\ rcs h' = [0; 0; 2] /\
    WFh h' /\ NoOrphan h'.
Proof.
  destruct (ppf_total _ ex_heap_WF) as [h' H]. exists h'. split; [exact H|].
  pose proof (ppf_spec _ _ ex_heap_WF H) as (W' & _).
  pose proof (ppf_NoOrphan _ _ ex_heap_WF ex_heap_NoOrphan H) as NO'.
  vm_compute in H. inversion H; subst h'; clear H.
  do 5 (split; [reflexivity|]). split; assumption.
Qed.

Print Assumptions release_l_spec.
Print Assumptions alloc_spec.
Print Assumptions ppf_spec.
Print Assumptions cached_constant_spec.
