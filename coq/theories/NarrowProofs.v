(* NarrowProofs.v — intersect_types / compute_complement never drop a value that can occur, on the
   first-order cycle-free fragment (ints, bins, refs, resources, tuples, unions).
   Ingredients: every narrowing function only EXTENDS the registry (so memberships carry over,
   TypesProofs.inhab_extends); union_type_ids keeps every value of every piece; the `never`
   answers of the default arms are justified by overlap_false_disjoint (OverlapProofs) and the
   `is_compatible` shortcut of subtract_one by check_sound (RelProofs). *)
From Quiver Require Import Base Types Rel Sem SemProofs RelProofs OverlapProofs TypesProofs Narrow.
From Coq Require Import Arith Lia.
Close Scope Z_scope.
Open Scope nat_scope.

Ltac inv H := inversion H; subst; clear H.

(* ---------------------------------------------------------------- the fragment *)
Lemma FO_CF P b t : FO P t -> CF P b t.
Proof.
  induction 1 as [t Hl|t Hl|t Hl|t r Hl|t vs Hl Hvs IH|t tid info Hl Ht Hfs IH].
  - eapply CF_int; eassumption.
  - eapply CF_bin; eassumption.
  - eapply CF_ref; eassumption.
  - eapply CF_res; eassumption.
  - eapply CF_union; eassumption.
  - eapply CF_tuple; eassumption.
Qed.

Lemma FO_extends P P' t : extends P P' -> FO P t -> FO P' t.
Proof.
  intros [HT HU]. induction 1 as [t Hl|t Hl|t Hl|t r Hl|t vs Hl Hvs IH|t tid info Hl Ht Hfs IH].
  - eapply FO_int; eauto.
  - eapply FO_bin; eauto.
  - eapply FO_ref; eauto.
  - eapply FO_res; eauto.
  - eapply FO_union; eauto.
  - eapply FO_tuple; eauto.
Qed.

Lemma lk_type P t a b : lookup_type P t = Some a -> lookup_type P t = Some b -> a = b.
Proof. congruence. Qed.

Lemma fov_fields_all (R : value -> nat -> Prop) name fs vs :
  Forall2 (field_ok R) fs vs -> (forall f x, In f fs -> R x (snd f) -> fov x = true) -> fov (VTup name vs) = true.
Proof.
  cbn. induction 1 as [|f fv fs' vs' [Hlab Hr] HF IHF]; intros Hall; [reflexivity|].
  destruct fv as [l x]. cbn in *. rewrite (Hall f x (or_introl eq_refl) Hr). cbn.
  apply IHF. intros f0 x0 Hf0. apply Hall. right; exact Hf0.
Qed.

(* an inhabitant of a first-order type contains no function / process value *)
Lemma fov_of_FO P : forall n t, FO P t -> forall E v, inhab P n E v t -> fov v = true.
Proof.
  induction n as [|m IHm]; intros t Hfo E v H; [destruct H|].
  revert E v H. induction Hfo as [t Hl|t Hl|t Hl|t r Hl|t vs Hl Hvs IH|t tid info Hl Ht Hfs IH]; intros E v H;
    cbn [inhab] in H; inv H;
    try (match goal with H1 : lookup_type P ?t = Some _, H2 : lookup_type P ?t = Some _ |- _ =>
           rewrite H1 in H2; inv H2 end); try reflexivity.
  - eapply IH; eassumption.
  - match goal with H1 : lookup_tuple P ?t = Some _, H2 : lookup_tuple P ?t = Some _ |- _ => rewrite H1 in H2; inv H2 end.
    eapply fov_fields_all; [eassumption|]. intros f x Hf Hx. eapply IHm; [apply Hfs; exact Hf|exact Hx].
Qed.

Lemma never_uninhabited P t n E v : lookup_type P t = Some (TUnion []) -> inhab P n E v t -> False.
Proof.
  intros Hl H. destruct n; [exact H|]. cbn [inhab] in H. inv H;
    try (match goal with H1 : lookup_type P ?t = Some _ |- _ => rewrite Hl in H1; inv H1 end).
  match goal with Hin : In _ [] |- _ => destruct Hin end.
Qed.

Lemma never_spec P P0 nid : never P = (P0, nid) -> extends P P0 /\ lookup_type P0 nid = Some (TUnion []).
Proof. unfold never. apply register_type_spec. Qed.

Lemma FO_never P t : lookup_type P t = Some (TUnion []) -> FO P t.
Proof. intros Hl. eapply FO_union; [exact Hl|intros u []]. Qed.

(* membership in a first-order type, at the empty environment, carried along an extension *)
Lemma mem_extends P P' n v t : extends P P' -> FO P t -> inhab P n [] v t -> inhab P' n [] v t.
Proof. intros He Hfo H. eapply inhab_extends; [exact He|eapply fov_of_FO; eassumption|exact H]. Qed.

Lemma FO_env P n t E1 E2 v : FO P t -> inhab P n E1 v t -> inhab P n E2 v t.
Proof. intros Hfo. apply (env_indep P true n t (FO_CF P true t Hfo)). Qed.

(* the variants of a type: a value of the type is a value of one of them *)
Lemma variants_FO P a : FO P a -> forall x, In x (get_type_variants P a) -> FO P x.
Proof.
  intros Hfo x Hin. unfold get_type_variants in Hin.
  inversion Hfo as [? Hl|? Hl|? Hl|? ? Hl|? vs Hl Hvs|? tid info Hl Ht Hfs]; subst; rewrite Hl in Hin;
    try (destruct Hin as [<-|[]]; exact Hfo).
  apply Hvs. exact Hin.
Qed.

Lemma variants_cover P a n v : FO P a -> inhab P n [] v a ->
  exists x, In x (get_type_variants P a) /\ inhab P n [] v x.
Proof.
  intros Hfo H. unfold get_type_variants.
  inversion Hfo as [? Hl|? Hl|? Hl|? ? Hl|? vs Hl Hvs|? tid info Hl Ht Hfs]; subst; rewrite Hl;
    try (exists a; split; [left; reflexivity|exact H]).
  destruct n; [destruct H|]. cbn [inhab] in H. inv H;
    try (match goal with H1 : lookup_type P a = Some _ |- _ => rewrite Hl in H1; inv H1 end).
  exists u. split; [assumption|]. eapply (FO_env P (S n)); [apply Hvs; assumption|]. cbn [inhab]. eassumption.
Qed.

Lemma variant_member P a n v x : FO P a -> In x (get_type_variants P a) -> inhab P n [] v x -> inhab P n [] v a.
Proof.
  intros Hfo Hin H. unfold get_type_variants in Hin.
  inversion Hfo as [? Hl|? Hl|? Hl|? ? Hl|? vs Hl Hvs|? tid info Hl Ht Hfs]; subst; rewrite Hl in Hin;
    try (destruct Hin as [<-|[]]; exact H).
  destruct n; [destruct H|]. cbn [inhab]. eapply Inh_union; [exact Hl|exact Hin|].
  apply (FO_env P (S n) x [] [a] v (Hvs x Hin) H).
Qed.

(* ---------------------------------------------------------------- union_type_ids *)
Lemma In_dedup l : forall seen x, In x (dedup seen l) <-> In x l /\ ~ In x seen.
Proof.
  induction l as [|a l IH]; intros seen x; cbn; [tauto|].
  destruct (existsb (Nat.eqb a) seen) eqn:E.
  - rewrite IH. apply existsb_exists in E. destruct E as [y [Hy Hay]]. apply Nat.eqb_eq in Hay. subst y.
    split; [tauto|]. intros [[->|H] Hn]; [contradiction|tauto].
  - assert (Hna : ~ In a seen).
    { intros Hin. assert (existsb (Nat.eqb a) seen = true); [|congruence].
      apply existsb_exists. exists a. split; [exact Hin|apply Nat.eqb_refl]. }
    cbn. rewrite IH. cbn. split.
    + intros [->|[H Hn]]; [tauto|]. split; [tauto|]. intros Hs. apply Hn. right; exact Hs.
    + intros [[->|H] Hn]; [left; reflexivity|]. destruct (Nat.eq_dec a x) as [->|Hne]; [left; reflexivity|].
      right. split; [exact H|]. intros [Heq|Hs]; [contradiction|contradiction].
Qed.

Lemma union_type_ids_keeps P pieces P' r :
  (forall x, In x pieces -> FO P x) ->
  union_type_ids P pieces = (P', r) ->
  extends P P' /\ FO P' r /\
  (forall n v x, In x pieces -> inhab P n [] v x -> inhab P' n [] v r).
Proof.
  intros Hfo H. unfold union_type_ids in H.
  set (flat := flat_map (fun id => match lookup_type P id with Some (TUnion variants) => variants | _ => [id] end) pieces) in *.
  assert (Hflat_fo : forall y, In y flat -> FO P y).
  { intros y Hy. apply in_flat_map in Hy. destruct Hy as [x [Hx Hy]].
    pose proof (variants_FO P x (Hfo x Hx) y) as Hv. unfold get_type_variants in Hv.
    destruct (lookup_type P x) as [[]|] eqn:Hl; try (apply Hv; exact Hy).
    pose proof (Hfo x Hx) as Hq. inversion Hq; congruence. }
  assert (Hflat_cov : forall n v x, In x pieces -> inhab P n [] v x -> exists y, In y flat /\ inhab P n [] v y).
  { intros n v x Hx Hv. destruct (variants_cover P x n v (Hfo x Hx) Hv) as [y [Hy Hvy]].
    exists y. split; [|exact Hvy]. apply in_flat_map. exists x. split; [exact Hx|].
    unfold get_type_variants in Hy. destruct (lookup_type P x) as [[]|]; try exact Hy. destruct Hy. }
  assert (Huniq : forall y, In y (dedup [] flat) <-> In y flat).
  { intros y. rewrite In_dedup. cbn. tauto. }
  destruct (dedup [] flat) as [|u1 [|u2 us]] eqn:Hd.
  - (* no piece at all: never *)
    destruct (never_spec _ _ _ H) as [He Hl]. split; [exact He|]. split; [apply FO_never; exact Hl|].
    intros n v x Hx Hv. destruct (Hflat_cov n v x Hx Hv) as [y [Hy _]]. apply Huniq in Hy. destruct Hy.
  - (* a single piece: returned as it is *)
    inversion H; subst. split; [apply extends_refl|]. split; [apply Hflat_fo; apply Huniq; left; reflexivity|].
    intros n v x Hx Hv. destruct (Hflat_cov n v x Hx Hv) as [y [Hy Hvy]]. apply Huniq in Hy.
    destruct Hy as [<-|[]]. exact Hvy.
  - destruct (register_type_spec _ _ _ _ H) as [He Hl]. split; [exact He|].
    assert (Hfo' : forall y, In y (u1 :: u2 :: us) -> FO P' y).
    { intros y Hy. eapply FO_extends; [exact He|]. apply Hflat_fo. apply Huniq. exact Hy. }
    split; [eapply FO_union; [exact Hl|exact Hfo']|].
    intros n v x Hx Hv. destruct (Hflat_cov n v x Hx Hv) as [y [Hy Hvy]]. apply Huniq in Hy.
    destruct n; [destruct Hv|]. cbn [inhab]. eapply Inh_union; [exact Hl|exact Hy|].
    apply (FO_env P' (S n) y [] [r] v (Hfo' y Hy)).
    eapply mem_extends; [exact He|apply Hflat_fo; apply Huniq; exact Hy|exact Hvy].
Qed.

(* ---------------------------------------------------------------- intersect_types *)
Definition ISpec (f : registry -> nat -> nat -> option (registry * nat)) : Prop :=
  forall P a b P' r, f P a b = Some (P', r) -> FO P a -> FO P b ->
    extends P P' /\ FO P' r /\
    (forall n v, inhab P n [] v a -> inhab P n [] v b -> inhab P' n [] v r).

Section IntersectLoops.
  Variable ipair : registry -> nat -> nat -> option (registry * nat).
  Hypothesis Hpair : ISpec ipair.

  Lemma isect_inner_spec nid av : forall bvs P pieces P1 pieces1,
    isect_inner ipair nid P pieces av bvs = Some (P1, pieces1) ->
    lookup_type P nid = Some (TUnion []) -> FO P av ->
    (forall bv, In bv bvs -> FO P bv) -> (forall x, In x pieces -> FO P x) ->
    extends P P1 /\ (forall x, In x pieces1 -> FO P1 x) /\ (forall x, In x pieces -> In x pieces1) /\
    (forall n v bv, In bv bvs -> inhab P n [] v av -> inhab P n [] v bv ->
                    exists x, In x pieces1 /\ inhab P1 n [] v x).
  Proof.
    induction bvs as [|bv bvs IH]; intros P pieces P1 pieces1 H Hnid Hav Hbvs Hpieces; cbn in H.
    - inv H. split; [apply extends_refl|]. split; [exact Hpieces|]. split; [auto|]. intros n v bv [].
    - destruct (ipair P av bv) as [[P' piece]|] eqn:Hp; [|discriminate].
      destruct (Hpair P av bv P' piece Hp Hav (Hbvs bv (or_introl eq_refl))) as (He & Hfo & Hkeep).
      set (pieces' := if Nat.eqb piece nid then pieces else pieces ++ [piece]) in *.
      assert (Hpieces' : forall x, In x pieces' -> FO P' x).
      { intros x Hx. unfold pieces' in Hx. destruct (Nat.eqb piece nid).
        - eapply FO_extends; [exact He|apply Hpieces; exact Hx].
        - apply in_app_or in Hx. destruct Hx as [Hx|[<-|[]]]; [eapply FO_extends; [exact He|apply Hpieces; exact Hx]|exact Hfo]. }
      destruct (IH P' pieces' P1 pieces1 H (proj1 He nid _ Hnid) (FO_extends _ _ _ He Hav)
                   (fun x Hx => FO_extends _ _ _ He (Hbvs x (or_intror Hx))) Hpieces') as (He2 & Hfo2 & Hinc & Hcov).
      split; [eapply extends_trans; eassumption|]. split; [exact Hfo2|]. split.
      + intros x Hx. apply Hinc. unfold pieces'. destruct (Nat.eqb piece nid); [exact Hx|apply in_or_app; left; exact Hx].
      + intros n v bv0 [<-|Hin] Hva Hvb.
        * pose proof (Hkeep n v Hva Hvb) as Hvp.
          destruct (Nat.eqb piece nid) eqn:En.
          { apply Nat.eqb_eq in En. subst piece. exfalso. eapply never_uninhabited; [apply (proj1 He nid _ Hnid)|exact Hvp]. }
          exists piece. split; [apply Hinc; unfold pieces'; rewrite ?En; cbv iota; apply in_or_app; right; left; reflexivity|].
          eapply mem_extends; [exact He2|exact Hfo|exact Hvp].
        * apply (Hcov n v bv0 Hin); eapply mem_extends; try exact He; auto. apply Hbvs. right; exact Hin.
  Qed.

  Lemma isect_outer_spec nid bvs : forall avs P pieces P1 pieces1,
    isect_outer ipair nid bvs P pieces avs = Some (P1, pieces1) ->
    lookup_type P nid = Some (TUnion []) ->
    (forall av, In av avs -> FO P av) -> (forall bv, In bv bvs -> FO P bv) -> (forall x, In x pieces -> FO P x) ->
    extends P P1 /\ (forall x, In x pieces1 -> FO P1 x) /\ (forall x, In x pieces -> In x pieces1) /\
    (forall n v av bv, In av avs -> In bv bvs -> inhab P n [] v av -> inhab P n [] v bv ->
                       exists x, In x pieces1 /\ inhab P1 n [] v x).
  Proof.
    induction avs as [|av avs IH]; intros P pieces P1 pieces1 H Hnid Havs Hbvs Hpieces; cbn in H.
    - inv H. split; [apply extends_refl|]. split; [exact Hpieces|]. split; [auto|]. intros n v av bv [].
    - destruct (isect_inner ipair nid P pieces av bvs) as [[P' pieces']|] eqn:Hin; [|discriminate].
      destruct (isect_inner_spec nid av bvs P pieces P' pieces' Hin Hnid (Havs av (or_introl eq_refl)) Hbvs Hpieces)
        as (He & Hfo & Hinc & Hcov).
      destruct (IH P' pieces' P1 pieces1 H (proj1 He nid _ Hnid)
                   (fun x Hx => FO_extends _ _ _ He (Havs x (or_intror Hx)))
                   (fun x Hx => FO_extends _ _ _ He (Hbvs x Hx)) Hfo) as (He2 & Hfo2 & Hinc2 & Hcov2).
      split; [eapply extends_trans; eassumption|]. split; [exact Hfo2|]. split; [intros x Hx; apply Hinc2; apply Hinc; exact Hx|].
      intros n v av0 bv [<-|Ha] Hb Hva Hvb.
      + destruct (Hcov n v bv Hb Hva Hvb) as [x [Hx Hvx]]. exists x. split; [apply Hinc2; exact Hx|].
        eapply mem_extends; [exact He2|apply Hfo; exact Hx|exact Hvx].
      + apply (Hcov2 n v av0 bv Ha Hb); eapply mem_extends; try exact He; auto. apply Havs. right; exact Ha.
  Qed.
End IntersectLoops.

Section IntersectFields.
  Variable itypes : registry -> nat -> nat -> option (registry * nat).
  Hypothesis Htypes : ISpec itypes.

  Lemma isect_fields_spec : forall fs1 fs2 P acc P1 res,
    isect_fields itypes P acc fs1 fs2 = Some (P1, res) ->
    (forall f, In f fs1 -> FO P (snd f)) -> (forall f, In f fs2 -> FO P (snd f)) ->
    length fs1 = length fs2 ->
    extends P P1 /\
    match res with
    | Some fields =>
      exists new, fields = acc ++ new /\ (forall f, In f new -> FO P1 (snd f)) /\
        (forall n vs, Forall2 (field_ok (inhab P n [])) fs1 vs -> Forall2 (field_ok (inhab P n [])) fs2 vs ->
                      Forall2 (field_ok (inhab P1 n [])) new vs)
    | None =>
      forall n vs, Forall2 (field_ok (inhab P n [])) fs1 vs -> Forall2 (field_ok (inhab P n [])) fs2 vs -> False
    end.
  Proof.
    induction fs1 as [|[name f1] fs1 IH]; intros [|[n2 f2] fs2] P acc P1 res H Hfo1 Hfo2 Hlen; cbn in H, Hlen; try discriminate.
    - inv H. split; [apply extends_refl|]. exists []. split; [rewrite app_nil_r; reflexivity|]. split; [intros f []|].
      intros n vs H1 _. inv H1. constructor.
    - destruct (itypes P f1 f2) as [[P' fi]|] eqn:Hi; [|discriminate].
      destruct (Htypes P f1 f2 P' fi Hi (Hfo1 (name, f1) (or_introl eq_refl)) (Hfo2 (n2, f2) (or_introl eq_refl))) as (He & Hfi & Hkeep).
      destruct (never P') as [P'' nv] eqn:Hnv. destruct (never_spec _ _ _ Hnv) as [He' Hlnv].
      assert (He2 : extends P P'') by (eapply extends_trans; eassumption).
      destruct (Nat.eqb fi nv) eqn:En.
      + inv H. split; [exact He2|]. intros n vs H1 H2. inv H1. inv H2.
        repeat match goal with Hok : field_ok _ _ _ |- _ => destruct Hok as [? ?] end. cbn in *.
        apply Nat.eqb_eq in En. subst fi.
        eapply never_uninhabited; [exact Hlnv|]. eapply mem_extends; [exact He'|exact Hfi|]. eapply Hkeep; eassumption.
      + destruct (IH fs2 P'' (acc ++ [(name, fi)]) P1 res H
                     (fun f Hf => FO_extends _ _ _ He2 (Hfo1 f (or_intror Hf)))
                     (fun f Hf => FO_extends _ _ _ He2 (Hfo2 f (or_intror Hf))) ltac:(lia)) as (He3 & Hres).
        split; [eapply extends_trans; eassumption|].
        destruct res as [fields|].
        * destruct Hres as (new & Hfields & Hnew_fo & Hnew).
          exists ((name, fi) :: new). split; [rewrite Hfields, <- app_assoc; reflexivity|]. split.
          { intros f [<-|Hf]; [cbn; eapply FO_extends; [exact He3|]; eapply FO_extends; [exact He'|exact Hfi]|apply Hnew_fo; exact Hf]. }
          intros n vs H1 H2. inv H1. inv H2.
          match goal with Ha : field_ok _ (name, f1) ?y, Hb : field_ok _ (n2, f2) ?y |- _ =>
            destruct Ha as [Hl1 Hr1]; destruct Hb as [Hl2 Hr2] end. cbn in *.
          constructor.
          { split; [exact Hl1|]. cbn. eapply mem_extends; [exact He3|eapply FO_extends; [exact He'|exact Hfi]|].
            eapply mem_extends; [exact He'|exact Hfi|]. eapply Hkeep; eassumption. }
          apply Hnew.
          { eapply Forall2_field_ok_impl; [|eassumption]. intros f fv Hf Hr. eapply mem_extends; [exact He2|apply Hfo1; right; exact Hf|exact Hr]. }
          { eapply Forall2_field_ok_impl; [|eassumption]. intros f fv Hf Hr. eapply mem_extends; [exact He2|apply Hfo2; right; exact Hf|exact Hr]. }
        * intros n vs H1 H2. inv H1. inv H2. eapply Hres.
          { eapply Forall2_field_ok_impl; [|eassumption]. intros f fv Hf Hr. eapply mem_extends; [exact He2|apply Hfo1; right; exact Hf|exact Hr]. }
          { eapply Forall2_field_ok_impl; [|eassumption]. intros f fv Hf Hr. eapply mem_extends; [exact He2|apply Hfo2; right; exact Hf|exact Hr]. }
  Qed.
End IntersectFields.

Lemma opt_eqb_refl' o : opt_eqb o o = true.
Proof. destruct o; cbn; [apply Nat.eqb_refl|reflexivity]. Qed.

Arguments types_overlap : simpl never.
Arguments is_compatible : simpl never.

Section IntersectMain.
  Variable cfg : rel_cfg.
  Variable rel_fuel : nat.

  Lemma overlap_false_no_common P a b n v :
    types_overlap cfg rel_fuel P a b = Some false -> FO P a -> FO P b ->
    inhab P n [] v a -> inhab P n [] v b -> False.
  Proof.
    unfold types_overlap, types_overlap_with. intros H Ha Hb Hva Hvb.
    destruct (check_rel cfg P Any rel_fuel [] [] [] a b) as [[r A1]|] eqn:Hc; [|discriminate]. cbn in H. inv H.
    eapply (overlap_false_disjoint cfg P rel_fuel [] [] [] a b A1 Ha Hb Hc); eassumption.
  Qed.

  (* two tuple types that share a value have the same name and arity *)
  Lemma tuples_share_shape P a b id1 id2 i1 i2 n v :
    lookup_type P a = Some (TTuple id1) -> lookup_type P b = Some (TTuple id2) ->
    lookup_tuple P id1 = Some i1 -> lookup_tuple P id2 = Some i2 ->
    inhab P n [] v a -> inhab P n [] v b ->
    exists m vs, n = S m /\ v = VTup (tname i1) vs /\ tname i1 = tname i2 /\
                 Forall2 (field_ok (inhab P m [])) (tfields i1) vs /\
                 Forall2 (field_ok (inhab P m [])) (tfields i2) vs.
  Proof.
    intros Hla Hlb Ht1 Ht2 Hva Hvb. destruct n; [destruct Hva|]. cbn [inhab] in Hva, Hvb.
    inversion Hva; subst; try congruence. inversion Hvb; subst; try congruence.
    repeat match goal with
           | H1 : lookup_type P ?t = Some _, H2 : lookup_type P ?t = Some _ |- _ => rewrite H1 in H2; inv H2
           | H1 : lookup_tuple P ?t = Some _, H2 : lookup_tuple P ?t = Some _ |- _ => rewrite H1 in H2; inv H2
           end.
    exists n, fs. repeat split; try assumption; congruence.
  Qed.

  Lemma Forall2_len {A B} (R : A -> B -> Prop) l1 l2 : Forall2 R l1 l2 -> length l1 = length l2.
  Proof. induction 1; cbn; congruence. Qed.

  Lemma intersect_types_S f P a b :
    intersect_types cfg rel_fuel (S f) P a b =
    let '(P0, never_id) := never P in
    match isect_outer (intersect_pair cfg rel_fuel f) never_id (get_type_variants P b) P0 [] (get_type_variants P a) with
    | None => None
    | Some (P1, pieces) => Some (union_type_ids P1 pieces)
    end.
  Proof. reflexivity. Qed.

  Lemma intersect_pair_S f P a b :
    intersect_pair cfg rel_fuel (S f) P a b =
    if Nat.eqb a b then Some (P, a) else
    let '(P0, never_id) := never P in
    match lookup_type P0 a, lookup_type P0 b with
    | Some ta, Some tb =>
      match ta, tb with
      | TVariable _, _ => Some (P0, a)
      | _, TVariable _ => Some (P0, a)
      | TCycle _, _ => Some (P0, a)
      | _, TCycle _ => Some (P0, a)
      | TInteger, TInteger => Some (P0, a)
      | TBinary, TBinary => Some (P0, a)
      | TReference, TReference => Some (P0, a)
      | TTuple id1, TTuple id2 =>
        match lookup_tuple P0 id1, lookup_tuple P0 id2 with
        | Some i1, Some i2 =>
          if negb (opt_eqb (tname i1) (tname i2)) || negb (Nat.eqb (length (tfields i1)) (length (tfields i2)))
          then Some (P0, never_id)
          else
            match isect_fields (intersect_types cfg rel_fuel f) P0 [] (tfields i1) (tfields i2) with
            | None => None
            | Some (P1, None) => Some (P1, never_id)
            | Some (P1, Some fields) =>
              let '(P2, tuple_id) := register_tuple P1 (tname i1) fields in
              Some (register_type P2 (TTuple tuple_id))
            end
        | _, _ => Some (P0, never_id)
        end
        (* fix_F25b: `if !contains_cycle(a) && !contains_cycle(b)` guards both arms *)
        | TCallable p1 r1 c1, TCallable p2 r2 c2 =>
          let default :=
            match types_overlap cfg rel_fuel P0 a b with
            | None => None
            | Some true => Some (P0, a)
            | Some false => Some (P0, never_id)
            end in
          if negb current_meet_callable then default else
          match cyclic cfg rel_fuel P0 a with
          | None => None
          | Some ca =>
          match (if ca then Some true else cyclic cfg rel_fuel P0 b) with
          | None => None
          | Some true => default
          | Some false =>
            match is_compatible cfg rel_fuel P0 a b with
            | None => None
            | Some true => Some (P0, a)
            | Some false =>
            match is_compatible cfg rel_fuel P0 b a with
            | None => None
            | Some true => Some (P0, b)
            | Some false =>
              let '(P1, parameter) := union_type_ids P0 [p1; p2] in
              match intersect_types cfg rel_fuel f P1 r1 r2 with
              | None => None
              | Some (P2, result) =>
                let '(P3, receive) := union_type_ids P2 [c1; c2] in
                Some (register_type P3 (TCallable parameter result receive))
              end
            end end
          end end
        | TProcess s1 r1, TProcess s2 r2 =>
          let default :=
            match types_overlap cfg rel_fuel P0 a b with
            | None => None
            | Some true => Some (P0, a)
            | Some false => Some (P0, never_id)
            end in
          if negb current_meet_callable then default else
          match cyclic cfg rel_fuel P0 a with
          | None => None
          | Some ca =>
          match (if ca then Some true else cyclic cfg rel_fuel P0 b) with
          | None => None
          | Some true => default
          | Some false =>
            match is_compatible cfg rel_fuel P0 a b with
            | None => None
            | Some true => Some (P0, a)
            | Some false =>
            match is_compatible cfg rel_fuel P0 b a with
            | None => None
            | Some true => Some (P0, b)
            | Some false =>
              (* meet(x, y): both known => intersect; one unknown => the other; none => unknown *)
              let meet (P : registry) (x y : option nat) : option (registry * option nat) :=
                match x, y with
                | Some x, Some y => match intersect_types cfg rel_fuel f P x y with
                                    | None => None
                                    | Some (P', m) => Some (P', Some m)
                                    end
                | Some x, None => Some (P, Some x)
                | None, Some y => Some (P, Some y)
                | None, None => Some (P, None)
                end in
              match meet P0 s1 s2 with
              | None => None
              | Some (P1, send) =>
                match meet P1 r1 r2 with
                | None => None
                | Some (P2, receive) => Some (register_type P2 (TProcess send receive))
                end
              end
            end end
          end end
      | _, _ =>
        match types_overlap cfg rel_fuel P0 a b with
        | None => None
        | Some true => Some (P0, a)
        | Some false => Some (P0, never_id)
        end
      end
    | _, _ => Some (P0, never_id)
    end.
  Proof. reflexivity. Qed.

  Theorem intersect_spec : forall fuel,
    ISpec (intersect_types cfg rel_fuel fuel) /\ ISpec (intersect_pair cfg rel_fuel fuel).
  Proof.
    induction fuel as [|f [IHt IHp]]; [split; intros P a b P' r H; cbn in H; discriminate H|].
    split.
    - (* intersect_types *)
      intros P a b P' r H Ha Hb. rewrite intersect_types_S in H.
      destruct (never P) as [P0 nid] eqn:Hn. destruct (never_spec _ _ _ Hn) as [He0 Hlnid].
      destruct (isect_outer (intersect_pair cfg rel_fuel f) nid (get_type_variants P b) P0 [] (get_type_variants P a))
        as [[P1 pieces]|] eqn:Ho; [|discriminate H]. inv H.
      destruct (isect_outer_spec _ IHp nid (get_type_variants P b) (get_type_variants P a) P0 [] P1 pieces Ho Hlnid
                  (fun x Hx => FO_extends _ _ _ He0 (variants_FO P a Ha x Hx))
                  (fun x Hx => FO_extends _ _ _ He0 (variants_FO P b Hb x Hx))
                  (fun x (Hx : In x []) => match Hx with end)) as (He1 & Hfo1 & _ & Hcov).
      destruct (union_type_ids P1 pieces) as [P2 r2] eqn:Hu. match goal with H : (P2, r2) = (P', r) |- _ => inv H end.
      destruct (union_type_ids_keeps P1 pieces P' r Hfo1 Hu) as (He2 & Hfor & Hkeep).
      split; [eapply extends_trans; [exact He0|eapply extends_trans; eassumption]|]. split; [exact Hfor|].
      intros n v Hva Hvb.
      destruct (variants_cover P a n v Ha Hva) as [av [Hav Hvav]].
      destruct (variants_cover P b n v Hb Hvb) as [bv [Hbv Hvbv]].
      destruct (Hcov n v av bv Hav Hbv
                  (mem_extends _ _ _ _ _ He0 (variants_FO P a Ha av Hav) Hvav)
                  (mem_extends _ _ _ _ _ He0 (variants_FO P b Hb bv Hbv) Hvbv)) as [x [Hx Hvx]].
      eapply Hkeep; eassumption.
    - (* intersect_pair *)
      intros P a b P' r H Ha Hb. rewrite intersect_pair_S in H.
      destruct (Nat.eqb a b) eqn:Eab.
      { injection H as HP Hr; subst P' r. split; [apply extends_refl|]. split; [exact Ha|]. intros n v Hva _. exact Hva. }
      destruct (never P) as [P0 nid] eqn:Hn. destruct (never_spec _ _ _ Hn) as [He0 Hlnid].
      pose proof (FO_extends _ _ _ He0 Ha) as Ha0. pose proof (FO_extends _ _ _ He0 Hb) as Hb0.
      assert (Hkeep_a : extends P P0 /\ FO P0 a /\ (forall n v, inhab P n [] v a -> inhab P n [] v b -> inhab P0 n [] v a)).
      { split; [exact He0|]. split; [exact Ha0|]. intros n v Hva _. eapply mem_extends; eassumption. }
      assert (Hnever : (forall n v, inhab P0 n [] v a -> inhab P0 n [] v b -> False) ->
                       extends P P0 /\ FO P0 nid /\ (forall n v, inhab P n [] v a -> inhab P n [] v b -> inhab P0 n [] v nid)).
      { intros Hno. split; [exact He0|]. split; [apply FO_never; exact Hlnid|]. intros n v Hva Hvb. exfalso.
        eapply Hno; eapply mem_extends; eassumption. }
      assert (Hdefault : forall R0 : option (registry * nat),
                 match types_overlap cfg rel_fuel P0 a b with
                 | Some true => Some (P0, a) | Some false => Some (P0, nid) | None => None end = Some (P', r) ->
                 extends P P' /\ FO P' r /\ (forall n v, inhab P n [] v a -> inhab P n [] v b -> inhab P' n [] v r)).
      { intros _ Hd. destruct (types_overlap cfg rel_fuel P0 a b) as [[|]|] eqn:Hov; [injection Hd as HP Hr; subst P' r|injection Hd as HP Hr; subst P' r|discriminate Hd].
        - exact Hkeep_a.
        - apply Hnever. intros n v Hva Hvb. eapply overlap_false_no_common; eassumption. }
      inversion Ha0 as [? Hla|? Hla|? Hla|? ? Hla|? vsa Hla Hvsa|? tid1 info1 Hla Ht1 Hfs1]; subst;
      inversion Hb0 as [? Hlb|? Hlb|? Hlb|? ? Hlb|? vsb Hlb Hvsb|? tid2 info2 Hlb Ht2 Hfs2]; subst;
      rewrite Hla, Hlb in H; cbn in H;
      try (apply (Hdefault None); exact H);
      try (injection H as HP Hr; subst P' r; exact Hkeep_a).
      (* tuple / tuple *)
      rewrite Ht1, Ht2 in H.
      destruct (negb (opt_eqb (tname info1) (tname info2)) || negb (length (tfields info1) =? length (tfields info2))) eqn:Eshape.
      { injection H as HP Hr; subst P' r. apply Hnever. intros n v Hva Hvb.
        destruct (tuples_share_shape P0 a b tid1 tid2 info1 info2 n v Hla Hlb Ht1 Ht2 Hva Hvb) as (m & vs & _ & _ & Hnm & HF1 & HF2).
        apply orb_true_iff in Eshape. destruct Eshape as [E|E]; apply negb_true_iff in E.
        - rewrite Hnm, opt_eqb_refl' in E. discriminate.
        - apply Nat.eqb_neq in E. apply E. rewrite (Forall2_len _ _ _ HF1), (Forall2_len _ _ _ HF2). reflexivity. }
      apply orb_false_iff in Eshape. destruct Eshape as [En El]. apply negb_false_iff in En. apply negb_false_iff in El.
      apply opt_eqb_eq in En. apply Nat.eqb_eq in El.
      destruct (isect_fields (intersect_types cfg rel_fuel f) P0 [] (tfields info1) (tfields info2)) as [[P1 res]|] eqn:Hf; [|cbn in H; discriminate H].
      destruct (isect_fields_spec _ IHt (tfields info1) (tfields info2) P0 [] P1 res Hf Hfs1 Hfs2 El) as (He1 & Hres).
      destruct res as [fields|].
      + destruct Hres as (new & Hfields & Hnew_fo & Hnew). cbn in Hfields. subst fields.
        destruct (register_tuple P1 (tname info1) new) as [P2 tuple_id] eqn:Hrt.
        destruct (register_tuple_spec _ _ _ _ _ Hrt) as [He2 Hlt].
        injection H as H. destruct (register_type_spec _ _ _ _ H) as [He3 Hlr].
        split; [eapply extends_trans; [exact He0|eapply extends_trans; [exact He1|eapply extends_trans; eassumption]]|].
        assert (He23 : extends P1 P') by (eapply extends_trans; eassumption).
        split.
        * eapply FO_tuple; [exact Hlr|apply (proj2 He3); exact Hlt|]. cbn. intros fl Hfl. eapply FO_extends; [exact He23|apply Hnew_fo; exact Hfl].
        * intros n v Hva Hvb.
          destruct (tuples_share_shape P0 a b tid1 tid2 info1 info2 n v Hla Hlb Ht1 Ht2
                      (mem_extends _ _ _ _ _ He0 Ha Hva) (mem_extends _ _ _ _ _ He0 Hb Hvb)) as (m & vs & -> & -> & _ & HF1 & HF2).
          cbn [inhab]. change (tname info1) with (tname (mk_tuple (tname info1) new)).
          eapply Inh_tuple; [exact Hlr|apply (proj2 He3); exact Hlt|]. cbn.
          eapply Forall2_field_ok_impl; [|apply (Hnew m vs HF1 HF2)].
          intros fl fv Hfl Hr. eapply mem_extends; [exact He23|apply Hnew_fo; exact Hfl|exact Hr].
      + injection H as HP Hr; subst P' r. split; [eapply extends_trans; eassumption|]. split; [apply FO_never; apply (proj1 He1); exact Hlnid|].
        intros n v Hva Hvb. exfalso.
        destruct (tuples_share_shape P0 a b tid1 tid2 info1 info2 n v Hla Hlb Ht1 Ht2
                    (mem_extends _ _ _ _ _ He0 Ha Hva) (mem_extends _ _ _ _ _ He0 Hb Hvb)) as (m & vs & _ & _ & _ & HF1 & HF2).
        eapply Hres; eassumption.
  Qed.
End IntersectMain.

Theorem intersect_keeps_fo : forall cfg rel_fuel fuel P a b P' r,
  intersect_types cfg rel_fuel fuel P a b = Some (P', r) ->
  fo_domain P a = true -> fo_domain P b = true ->
  extends P P' /\ forall n v, inhab P n [] v a -> inhab P n [] v b -> inhab P' n [] v r.
Proof.
  intros cfg rel_fuel fuel P a b P' r H Da Db.
  destruct (proj1 (intersect_spec cfg rel_fuel fuel) P a b P' r H (fob_FO _ _ _ Da) (fob_FO _ _ _ Db)) as (He & _ & Hk).
  split; assumption.
Qed.

(* ---------------------------------------------------------------- more about the fragment *)
(* membership in a first-order type of P is the same in every extension of P *)
Lemma mem_reflects P P' : extends P P' -> forall n t, FO P t -> forall E v, inhab P' n E v t -> inhab P n E v t.
Proof.
  intros [HT HU]. induction n as [|m IHm]; intros t Hfo E v H; [exact H|].
  revert E v H. induction Hfo as [t Hl|t Hl|t Hl|t r Hl|t vs Hl Hvs IH|t tid info Hl Ht Hfs IH]; intros E v H;
    cbn [inhab] in *; pose proof (HT _ _ Hl) as Hl'; inv H;
    try (match goal with H1 : lookup_type P' ?t = Some _ |- _ => rewrite Hl' in H1; inv H1 end).
  - apply Inh_int; exact Hl.
  - apply Inh_bin; exact Hl.
  - apply Inh_ref; exact Hl.
  - apply Inh_res; exact Hl.
  - eapply Inh_union; [exact Hl|eassumption|]. apply IH; assumption.
  - pose proof (HU _ _ Ht) as Ht'.
    match goal with H1 : lookup_tuple P' _ = Some ?i, H2 : Forall2 _ (tfields ?i) _ |- _ => rewrite Ht' in H1; inv H1 end.
    eapply Inh_tuple; [exact Hl|exact Ht|].
    eapply Forall2_field_ok_impl; [|eassumption]. intros f fv Hf Hr. eapply IHm; [apply Hfs; exact Hf|exact Hr].
Qed.

Lemma Forall2_field_ok_dec (R : value -> nat -> Prop) fs :
  (forall f, In f fs -> forall x, R x (snd f) \/ ~ R x (snd f)) ->
  forall vs, Forall2 (field_ok R) fs vs \/ ~ Forall2 (field_ok R) fs vs.
Proof.
  induction fs as [|[l t] fs IH]; intros Hdec [|[l' x] vs].
  - left; constructor.
  - right; intros H; inversion H.
  - right; intros H; inversion H.
  - destruct (IH (fun f Hf => Hdec f (or_intror Hf)) vs) as [Hy|Hn].
    + destruct (Hdec (l, t) (or_introl eq_refl) x) as [Hx|Hx].
      * destruct (opt_eqb l l') eqn:El.
        { apply opt_eqb_eq in El. subst. left. constructor; [split; [reflexivity|exact Hx]|exact Hy]. }
        { right. intros H. inversion H; subst. match goal with Hok : field_ok _ _ _ |- _ => destruct Hok as [Hq _] end.
          cbn in Hq. subst. rewrite opt_eqb_refl' in El. discriminate. }
      * right. intros H. inversion H; subst. match goal with Hok : field_ok _ _ _ |- _ => destruct Hok as [_ Hq] end. exact (Hx Hq).
    + right. intros H. inversion H; subst. exact (Hn ltac:(assumption)).
Qed.

(* membership in a first-order type is decidable *)
Lemma mem_dec P : forall n t, FO P t -> forall E v, inhab P n E v t \/ ~ inhab P n E v t.
Proof.
  induction n as [|m IHm]; intros t Hfo E v; [right; intros H; exact H|].
  revert E v. induction Hfo as [t Hl|t Hl|t Hl|t r Hl|t vs Hl Hvs IH|t tid info Hl Ht Hfs IH]; intros E v; cbn [inhab].
  - destruct v; try (right; intros H; inv H; congruence). left. apply Inh_int; exact Hl.
  - destruct v; try (right; intros H; inv H; congruence). left. apply Inh_bin; exact Hl.
  - destruct v; try (right; intros H; inv H; congruence). left. apply Inh_ref; exact Hl.
  - destruct v as [| | | | | |r']; try (right; intros H; inv H; congruence).
    destruct (Nat.eq_dec r r') as [->|Hne]; [left; apply Inh_res; exact Hl|].
    right. intros H. inv H; try congruence.
  - (* union: one of finitely many variants *)
    assert (Hany : (exists u, In u vs /\ Inh P (inhab P m) (t :: E) v u) \/ ~ (exists u, In u vs /\ Inh P (inhab P m) (t :: E) v u)).
    { clear Hl. induction vs as [|u vs IHvs]; [right; intros [u [[] _]]|].
      destruct (IH u (or_introl eq_refl) (t :: E) v) as [Hy|Hn]; [left; exists u; split; [left; reflexivity|exact Hy]|].
      destruct (IHvs (fun x Hx => Hvs x (or_intror Hx)) (fun x Hx => IH x (or_intror Hx))) as [[w [Hw Hyw]]|Hn2].
      - left. exists w. split; [right; exact Hw|exact Hyw].
      - right. intros [w [[<-|Hw] Hyw]]; [exact (Hn Hyw)|apply Hn2; exists w; split; assumption]. }
    destruct Hany as [[u [Hu Hy]]|Hn]; [left; eapply Inh_union; eassumption|].
    right. intros H. inv H; try congruence. apply Hn. exists u.
    match goal with H1 : lookup_type P t = Some (TUnion ?vs0) |- _ => rewrite Hl in H1; inv H1 end. split; assumption.
  - destruct v as [| | |name fs| | |]; try (right; intros H; inv H; congruence).
    destruct (opt_eqb name (tname info)) eqn:En.
    + apply opt_eqb_eq in En. subst name.
      destruct (Forall2_field_ok_dec (inhab P m E) (tfields info) (fun f Hf x => IHm (snd f) (Hfs f Hf) E x) fs) as [Hy|Hn].
      * left. eapply Inh_tuple; eassumption.
      * right. intros H. inv H; try congruence.
        all: match goal with H1 : lookup_type _ _ = Some (TTuple _) |- _ => rewrite Hl in H1; inv H1 end.
        all: match goal with H1 : lookup_tuple _ _ = Some _ |- _ => rewrite Ht in H1; inv H1 end.
        all: exact (Hn ltac:(assumption)).
    + right. intros H. inv H; try congruence.
      all: match goal with H1 : lookup_type _ _ = Some (TTuple _) |- _ => rewrite Hl in H1; inv H1 end.
      all: match goal with H1 : lookup_tuple _ _ = Some _ |- _ => rewrite Ht in H1; inv H1 end.
      all: rewrite opt_eqb_refl' in En; discriminate.
Qed.

(* ---------------------------------------------------------------- well-formed registries *)
(* what Program::register_* maintain when types are built bottom-up: ids topologically ordered,
   every Tuple type names an existing tuple entry, every tuple field names an existing type *)
Definition wfreg (P : registry) : Prop :=
  topo P /\
  (forall id tid, lookup_type P id = Some (TTuple tid) -> tid < length (tuples P)) /\
  (forall tid info f, lookup_tuple P tid = Some info -> In f (tfields info) -> snd f < length (types P)).

Definition wfregb (P : registry) : bool :=
  topob P
  && forallb (fun t => match t with TTuple tid => tid <? length (tuples P) | _ => true end) (types P)
  && forallb (fun info => forallb (fun f => snd f <? length (types P)) (tfields info)) (tuples P).

Lemma wfregb_wfreg P : wfregb P = true -> wfreg P.
Proof.
  unfold wfregb. intros H. apply andb_true_iff in H. destruct H as [H H3]. apply andb_true_iff in H. destruct H as [H1 H2].
  split; [apply topob_topo; exact H1|]. split.
  - intros id tid Hl. rewrite forallb_forall in H2. specialize (H2 (TTuple tid) (nth_error_In _ _ Hl)). apply Nat.ltb_lt. exact H2.
  - intros tid info f Hl Hf. rewrite forallb_forall in H3. specialize (H3 info (nth_error_In _ _ Hl)).
    rewrite forallb_forall in H3. apply Nat.ltb_lt. apply H3. exact Hf.
Qed.

Lemma lookup_lt P x t : lookup_type P x = Some t -> x < length (types P).
Proof. intros H. apply nth_error_Some. unfold lookup_type in H. congruence. Qed.

Lemma FO_lt P x : FO P x -> x < length (types P).
Proof. intros H. inversion H; eapply lookup_lt; eassumption. Qed.

Lemma position_lt {A} (pred : A -> bool) l i : position pred l = Some i -> i < length l.
Proof. intros H. destruct (position_spec _ _ _ H) as [x [Hx _]]. apply nth_error_Some. congruence. Qed.

Lemma wf_register_type P t P' id :
  wfreg P -> register_type P t = (P', id) ->
  (forall c, In c (children P t) -> c < length (types P)) ->
  (forall tid, t = TTuple tid -> tid < length (tuples P)) ->
  wfreg P'.
Proof.
  intros (Htopo & Hw2 & Hw3) H Hch Htid. unfold register_type in H.
  destruct (position (ty_eqb t) (types P)) as [i|]; inv H; [repeat split; assumption|].
  assert (Hlk : forall x ty, lookup_type (mk_reg (tuples P) (types P ++ [t])) x = Some ty ->
                (lookup_type P x = Some ty) \/ (x = length (types P) /\ ty = t)).
  { intros x ty Hl. unfold lookup_type in *. cbn in Hl. destruct (Nat.lt_ge_cases x (length (types P))) as [Hlt|Hge].
    - rewrite nth_error_app1 in Hl by exact Hlt. left; exact Hl.
    - rewrite nth_error_app2 in Hl by exact Hge. destruct (x - length (types P)) eqn:E; cbn in Hl; [|destruct n; discriminate].
      inv Hl. right. split; [lia|reflexivity]. }
  split; [|split].
  - intros x ty Hl c Hc. destruct (Hlk x ty Hl) as [Hold|[-> ->]].
    + apply (Htopo x ty Hold c). exact Hc.
    + apply Hch. exact Hc.
  - intros x tid Hl. cbn. destruct (Hlk x _ Hl) as [Hold|[-> Heq]]; [eapply Hw2; exact Hold|apply Htid; symmetry; exact Heq].
  - intros tid info f Hl Hf. cbn. rewrite app_length. cbn. pose proof (Hw3 tid info f Hl Hf). lia.
Qed.

Lemma wf_register_tuple P name fields P' tid :
  wfreg P -> register_tuple P name fields = (P', tid) ->
  (forall f, In f fields -> snd f < length (types P)) ->
  wfreg P' /\ tid < length (tuples P').
Proof.
  intros (Htopo & Hw2 & Hw3) H Hf. unfold register_tuple in H.
  destruct (position (tuple_eqb name fields) (tuples P)) as [i|] eqn:Hp; inv H.
  - split; [repeat split; assumption|]. eapply position_lt; exact Hp.
  - split; [|cbn; rewrite app_length; cbn; lia].
    assert (Hlt : forall t info, lookup_tuple (mk_reg (tuples P ++ [mk_tuple name fields]) (types P)) t = Some info ->
                  lookup_tuple P t = Some info \/ (t = length (tuples P) /\ info = mk_tuple name fields)).
    { intros t info Hl. unfold lookup_tuple in *. cbn in Hl. destruct (Nat.lt_ge_cases t (length (tuples P))) as [Hlt|Hge].
      - rewrite nth_error_app1 in Hl by exact Hlt. left; exact Hl.
      - rewrite nth_error_app2 in Hl by exact Hge. destruct (t - length (tuples P)) eqn:E; cbn in Hl; [|destruct n; discriminate].
        inv Hl. right. split; [lia|reflexivity]. }
    split; [|split].
    + intros x ty Hl c Hc. change (lookup_type P x = Some ty) in Hl. apply (Htopo x ty Hl c).
      destruct ty; cbn in Hc |- *; try exact Hc.
      pose proof (Hw2 x _ Hl) as Hlt2. unfold lookup_tuple in *. cbn in Hc. rewrite nth_error_app1 in Hc by exact Hlt2. exact Hc.
    + intros x t Hl. cbn. rewrite app_length. cbn. change (lookup_type P x = Some (TTuple t)) in Hl. pose proof (Hw2 x t Hl). lia.
    + intros t info f Hl Hin. cbn. destruct (Hlt t info Hl) as [Hold|[_ ->]]; [eapply Hw3; eassumption|apply Hf; exact Hin].
Qed.

Lemma wf_never P P0 nid : wfreg P -> never P = (P0, nid) -> wfreg P0.
Proof. intros Hw H. eapply wf_register_type; [exact Hw|exact H|intros c []|intros tid Ht; discriminate]. Qed.

Lemma wf_union_type_ids P pieces P' r :
  wfreg P -> (forall x, In x pieces -> FO P x) -> union_type_ids P pieces = (P', r) -> wfreg P'.
Proof.
  intros Hw Hfo H. unfold union_type_ids in H.
  set (flat := flat_map (fun id => match lookup_type P id with Some (TUnion variants) => variants | _ => [id] end) pieces) in *.
  assert (Hflat : forall y, In y flat -> y < length (types P)).
  { intros y Hy. apply in_flat_map in Hy. destruct Hy as [x [Hx Hy]].
    pose proof (variants_FO P x (Hfo x Hx) y) as Hv. unfold get_type_variants in Hv.
    destruct (lookup_type P x) as [[]|] eqn:Hl; try (apply FO_lt; apply Hv; exact Hy).
    pose proof (Hfo x Hx) as Hq. inversion Hq; congruence. }
  destruct (dedup [] flat) as [|u1 [|u2 us]] eqn:Hd.
  - eapply wf_never; eassumption.
  - inv H. exact Hw.
  - eapply wf_register_type; [exact Hw|exact H| |intros tid Ht; discriminate].
    cbn. intros c Hc. apply Hflat. apply (In_dedup flat [] c). rewrite Hd. exact Hc.
Qed.

(* ---------------------------------------------------------------- compute_complement *)
Definition CSpec (f : registry -> nat -> nat -> option (registry * nat)) : Prop :=
  forall P o nr P' r, f P o nr = Some (P', r) -> wfreg P -> FO P o -> FO P nr ->
    extends P P' /\ wfreg P' /\ FO P' r /\
    (forall n v, inhab P n [] v o -> ~ inhab P n [] v nr -> inhab P' n [] v r).

Definition SSpec (f : registry -> nat -> nat -> option (registry * list nat)) : Prop :=
  forall P a b P' out, f P a b = Some (P', out) -> wfreg P -> FO P a -> FO P b ->
    extends P P' /\ wfreg P' /\ (forall x, In x out -> FO P' x) /\
    (forall n v, inhab P n [] v a -> ~ inhab P n [] v b -> exists x, In x out /\ inhab P' n [] v x).

Section ComplementLoops.
  Variable sub1 : registry -> nat -> nat -> option (registry * list nat).
  Hypothesis Hsub : SSpec sub1.

  Lemma compl_per_piece_spec nv : forall pieces P next P1 next1,
    compl_per_piece sub1 P next pieces nv = Some (P1, next1) ->
    wfreg P -> FO P nv -> (forall x, In x pieces -> FO P x) -> (forall x, In x next -> FO P x) ->
    extends P P1 /\ wfreg P1 /\ (forall x, In x next1 -> FO P1 x) /\ (forall x, In x next -> In x next1) /\
    (forall n v piece, In piece pieces -> inhab P n [] v piece -> ~ inhab P n [] v nv ->
                       exists x, In x next1 /\ inhab P1 n [] v x).
  Proof.
    induction pieces as [|piece pieces IH]; intros P next P1 next1 H Hw Hnv Hpieces Hnext; cbn in H.
    - inv H. split; [apply extends_refl|]. split; [exact Hw|]. split; [exact Hnext|]. split; [auto|]. intros n v p [].
    - destruct (sub1 P piece nv) as [[P' out]|] eqn:Hs; [|discriminate].
      destruct (Hsub P piece nv P' out Hs Hw (Hpieces piece (or_introl eq_refl)) Hnv) as (He & Hw' & Hout & Hcov).
      assert (Hnext' : forall x, In x (next ++ out) -> FO P' x).
      { intros x Hx. apply in_app_or in Hx. destruct Hx as [Hx|Hx]; [eapply FO_extends; [exact He|apply Hnext; exact Hx]|apply Hout; exact Hx]. }
      destruct (IH P' (next ++ out) P1 next1 H Hw' (FO_extends _ _ _ He Hnv)
                   (fun x Hx => FO_extends _ _ _ He (Hpieces x (or_intror Hx))) Hnext') as (He2 & Hw2 & Hfo2 & Hinc & Hcov2).
      split; [eapply extends_trans; eassumption|]. split; [exact Hw2|]. split; [exact Hfo2|]. split.
      + intros x Hx. apply Hinc. apply in_or_app. left; exact Hx.
      + intros n v p [<-|Hp] Hvp Hnvn.
        * destruct (Hcov n v Hvp Hnvn) as [x [Hx Hvx]]. exists x. split; [apply Hinc; apply in_or_app; right; exact Hx|].
          eapply mem_extends; [exact He2|apply Hout; exact Hx|exact Hvx].
        * apply (Hcov2 n v p Hp).
          { eapply mem_extends; [exact He|apply Hpieces; right; exact Hp|exact Hvp]. }
          { intros Hc. apply Hnvn. eapply mem_reflects; [exact He|exact Hnv|exact Hc]. }
  Qed.

  Lemma compl_per_nv_spec : forall nvs P pieces P1 pieces1,
    compl_per_nv sub1 P pieces nvs = Some (P1, pieces1) ->
    wfreg P -> (forall x, In x pieces -> FO P x) -> (forall nv, In nv nvs -> FO P nv) ->
    extends P P1 /\ wfreg P1 /\ (forall x, In x pieces1 -> FO P1 x) /\
    (forall n v piece, In piece pieces -> inhab P n [] v piece -> (forall nv, In nv nvs -> ~ inhab P n [] v nv) ->
                       exists x, In x pieces1 /\ inhab P1 n [] v x).
  Proof.
    induction nvs as [|nv nvs IH]; intros P pieces P1 pieces1 H Hw Hpieces Hnvs; cbn in H.
    - inv H. split; [apply extends_refl|]. split; [exact Hw|]. split; [exact Hpieces|].
      intros n v piece Hp Hv _. exists piece. split; assumption.
    - destruct (compl_per_piece sub1 P [] pieces nv) as [[P' next]|] eqn:Hpp; [|discriminate].
      destruct (compl_per_piece_spec nv pieces P [] P' next Hpp Hw (Hnvs nv (or_introl eq_refl)) Hpieces
                  (fun x (Hx : In x []) => match Hx with end)) as (He & Hw' & Hfo & _ & Hcov).
      destruct (IH P' next P1 pieces1 H Hw' Hfo (fun x Hx => FO_extends _ _ _ He (Hnvs x (or_intror Hx)))) as (He2 & Hw2 & Hfo2 & Hcov2).
      split; [eapply extends_trans; eassumption|]. split; [exact Hw2|]. split; [exact Hfo2|].
      intros n v piece Hp Hv Hnone.
      destruct (Hcov n v piece Hp Hv (Hnone nv (or_introl eq_refl))) as [x [Hx Hvx]].
      apply (Hcov2 n v x Hx Hvx). intros nv' Hnv' Hc. apply (Hnone nv' (or_intror Hnv')).
      eapply mem_reflects; [exact He|apply Hnvs; right; exact Hnv'|exact Hc].
  Qed.
End ComplementLoops.

Lemma set_field_type_app pre l f rest fc :
  set_field_type (pre ++ (l, f) :: rest) (length pre) fc = pre ++ (l, fc) :: rest.
Proof. induction pre as [|[l0 f0] pre IH]; cbn; [reflexivity|]. rewrite IH. reflexivity. Qed.

Lemma Forall2_app_inv_l' {A B} (R : A -> B -> Prop) l1 l2 v1 v2 :
  Forall2 R l1 v1 -> Forall2 R l2 v2 -> Forall2 R (l1 ++ l2) (v1 ++ v2).
Proof. induction 1; cbn; intros; [assumption|constructor; auto]. Qed.

Section ComplementFields.
  Variable compl : registry -> nat -> nat -> option (registry * nat).
  Hypothesis Hcompl : CSpec compl.

  Lemma compl_fields_spec nid name all : forall fs1 fs2 P out i P1 out1 pre,
    compl_fields compl nid name all P out i fs1 fs2 = Some (P1, out1) ->
    all = pre ++ fs1 -> length pre = i -> map fst fs1 = map fst fs2 ->
    wfreg P -> lookup_type P nid = Some (TUnion []) ->
    (forall f, In f all -> FO P (snd f)) -> (forall f, In f fs2 -> FO P (snd f)) -> (forall x, In x out -> FO P x) ->
    extends P P1 /\ wfreg P1 /\ (forall x, In x out1 -> FO P1 x) /\ (forall x, In x out -> In x out1) /\
    (forall n pvs ws, Forall2 (field_ok (inhab P n [])) pre pvs -> Forall2 (field_ok (inhab P n [])) fs1 ws ->
                      ~ Forall2 (field_ok (inhab P n [])) fs2 ws ->
                      exists x, In x out1 /\ inhab P1 (S n) [] (VTup name (pvs ++ ws)) x).
  Proof.
    induction fs1 as [|[l1 f1] fs1 IH]; intros [|[l2 f2] fs2] P out i P1 out1 pre H Hall Hlen Hlab Hw Hnid Hfo_all Hfo2 Hout; cbn in H, Hlab; try discriminate.
    - inv H. split; [apply extends_refl|]. split; [exact Hw|]. split; [exact Hout|]. split; [auto|].
      intros n pvs ws _ H1 Hn. inv H1. exfalso. apply Hn. constructor.
    - injection Hlab as Hl12 Hlab'. subst l2.
      assert (Hf1 : FO P f1) by (apply (Hfo_all (l1, f1)); rewrite Hall; apply in_or_app; right; left; reflexivity).
      assert (Hf2 : FO P f2) by (apply (Hfo2 (l1, f2)); left; reflexivity).
      destruct (compl P f1 f2) as [[P' fc]|] eqn:Hc; [|discriminate].
      destruct (Hcompl P f1 f2 P' fc Hc Hw Hf1 Hf2) as (He & Hw' & Hfc & Hkeep).
      assert (Hall' : all = (pre ++ [(l1, f1)]) ++ fs1) by (rewrite <- app_assoc; exact Hall).
      assert (Hlen' : length (pre ++ [(l1, f1)]) = S i) by (rewrite app_length; cbn; lia).
      (* the continuation, from whatever registry Q the step ends in *)
      assert (Hcont : forall Q outQ, extends P' Q -> wfreg Q -> (forall x, In x outQ -> FO Q x) -> (forall x, In x out -> In x outQ) ->
                compl_fields compl nid name all Q outQ (S i) fs1 fs2 = Some (P1, out1) ->
                extends P P1 /\ wfreg P1 /\ (forall x, In x out1 -> FO P1 x) /\ (forall x, In x out -> In x out1) /\
                (forall x, In x outQ -> In x out1) /\ extends Q P1 /\
                (forall n pvs w ws, Forall2 (field_ok (inhab P n [])) pre pvs -> field_ok (inhab P n []) (l1, f1) w ->
                   Forall2 (field_ok (inhab P n [])) fs1 ws -> inhab P n [] (snd w) f2 ->
                   ~ Forall2 (field_ok (inhab P n [])) fs2 ws ->
                   exists x, In x out1 /\ inhab P1 (S n) [] (VTup name ((pvs ++ [w]) ++ ws)) x)).
      { intros Q outQ HeQ HwQ HoutQ Hincl HQ.
        assert (HePQ : extends P Q) by (eapply extends_trans; eassumption).
        destruct (IH fs2 Q outQ (S i) P1 out1 (pre ++ [(l1, f1)]) HQ Hall' Hlen' Hlab' HwQ (proj1 HePQ nid _ Hnid)
                     (fun f Hf => FO_extends _ _ _ HePQ (Hfo_all f Hf))
                     (fun f Hf => FO_extends _ _ _ HePQ (Hfo2 f (or_intror Hf))) HoutQ) as (He2 & Hw2 & Hfo_out & Hinc2 & Hcov).
        split; [eapply extends_trans; eassumption|]. split; [exact Hw2|]. split; [exact Hfo_out|].
        split; [intros x Hx; apply Hinc2; apply Hincl; exact Hx|]. split; [exact Hinc2|]. split; [exact He2|].
        intros n pvs w ws Hpre Hw1 Hws Hwin Hnot.
        apply (Hcov n (pvs ++ [w]) ws).
        - apply Forall2_app_inv_l'.
          + eapply Forall2_field_ok_impl; [|exact Hpre]. intros f fv Hf Hr. eapply mem_extends; [exact HePQ| |exact Hr].
            apply Hfo_all. rewrite Hall. apply in_or_app. left; exact Hf.
          + constructor; [|constructor]. destruct Hw1 as [Hq1 Hq2]. split; [exact Hq1|]. eapply mem_extends; [exact HePQ|exact Hf1|exact Hq2].
        - eapply Forall2_field_ok_impl; [|exact Hws]. intros f fv Hf Hr. eapply mem_extends; [exact HePQ| |exact Hr].
          apply Hfo_all. rewrite Hall. apply in_or_app. right. right. exact Hf.
        - intros Hcc. apply Hnot. eapply Forall2_field_ok_impl; [|exact Hcc]. intros f fv Hf Hr.
          eapply mem_reflects; [exact HePQ|apply Hfo2; right; exact Hf|exact Hr]. }
      destruct (Nat.eqb fc nid) eqn:En.
      + (* the field difference is empty: continue *)
        destruct (Hcont P' out (extends_refl _) Hw' (fun x Hx => FO_extends _ _ _ He (Hout x Hx)) (fun x Hx => Hx) H)
          as (HeA & HwA & HfoA & HincA & _ & _ & HcovA).
        split; [exact HeA|]. split; [exact HwA|]. split; [exact HfoA|]. split; [exact HincA|].
        intros n pvs ws Hpre H1 Hnot. inversion H1 as [|x0 w l0 ws' Hok HF Hx0 Hws]. subst ws. clear H1 Hx0.
        pose proof Hok as Hw1. destruct Hok as [Hq1 Hq2]. cbn in Hq1, Hq2.
        destruct (mem_dec P n f2 Hf2 [] (snd w)) as [Hin2|Hnin2].
        * replace (pvs ++ w :: ws') with ((pvs ++ [w]) ++ ws') by (rewrite <- app_assoc; reflexivity).
          apply (HcovA n pvs w ws' Hpre Hw1 HF Hin2).
          intros Hcc. apply Hnot. constructor; [split; [exact Hq1|exact Hin2]|exact Hcc].
        * exfalso. apply Nat.eqb_eq in En. subst fc.
          eapply never_uninhabited; [apply (proj1 He nid _ Hnid)|]. apply (Hkeep n (snd w) Hq2 Hnin2).
      + (* a piece [A0 .. Ai \ bi .. An] is registered *)
        destruct (register_tuple P' name (set_field_type all i fc)) as [P2 tuple_id] eqn:Hrt.
        destruct (register_type P2 (TTuple tuple_id)) as [P3 ty_id] eqn:Hrty.
        assert (Hfields : set_field_type all i fc = pre ++ (l1, fc) :: fs1).
        { rewrite Hall, <- Hlen. apply set_field_type_app. }
        assert (Hfields_fo : forall f, In f (set_field_type all i fc) -> FO P' (snd f)).
        { rewrite Hfields. intros f Hf. apply in_app_or in Hf. destruct Hf as [Hf|[<-|Hf]].
          - eapply FO_extends; [exact He|]. apply Hfo_all. rewrite Hall. apply in_or_app. left; exact Hf.
          - exact Hfc.
          - eapply FO_extends; [exact He|]. apply Hfo_all. rewrite Hall. apply in_or_app. right. right. exact Hf. }
        destruct (wf_register_tuple P' name _ P2 tuple_id Hw' Hrt (fun f Hf => FO_lt _ _ (Hfields_fo f Hf))) as [Hw2 Htid].
        destruct (register_tuple_spec _ _ _ _ _ Hrt) as [He2 Hlt].
        assert (Hw3 : wfreg P3).
        { eapply wf_register_type; [exact Hw2|exact Hrty| |intros t Ht; inv Ht; exact Htid].
          cbn. rewrite Hlt. cbn. intros c Hcx. apply in_map_iff in Hcx. destruct Hcx as [f [<- Hf]].
          eapply Nat.lt_le_trans; [apply FO_lt; apply Hfields_fo; exact Hf|]. destruct He2 as [HT _].
          clear - HT. destruct (Nat.le_gt_cases (length (types P')) (length (types P2))) as [Hle|Hgt]; [exact Hle|].
          exfalso. destruct (nth_error (types P') (length (types P2))) as [t|] eqn:E.
          - pose proof (HT _ _ E) as E2. apply lookup_lt in E2. lia.
          - apply nth_error_None in E. lia. }
        destruct (register_type_spec _ _ _ _ Hrty) as [He3 Hlty].
        assert (He13 : extends P' P3) by (eapply extends_trans; eassumption).
        assert (Hty_fo : FO P3 ty_id).
        { eapply FO_tuple; [exact Hlty|apply (proj2 He3); exact Hlt|]. cbn. intros f Hf. eapply FO_extends; [exact He13|apply Hfields_fo; exact Hf]. }
        assert (Hout3 : forall x, In x (out ++ [ty_id]) -> FO P3 x).
        { intros x Hx. apply in_app_or in Hx. destruct Hx as [Hx|[<-|[]]]; [|exact Hty_fo].
          eapply FO_extends; [eapply extends_trans; [exact He|exact He13]|apply Hout; exact Hx]. }
        destruct (Hcont P3 (out ++ [ty_id]) He13 Hw3 Hout3 (fun x Hx => in_or_app _ _ _ (or_introl Hx)) H)
          as (HeA & HwA & HfoA & HincA & HincQ & HeQ1 & HcovA).
        split; [exact HeA|]. split; [exact HwA|]. split; [exact HfoA|]. split; [exact HincA|].
        intros n pvs ws Hpre H1 Hnot. inversion H1 as [|x0 w l0 ws' Hok HF Hx0 Hws]. subst ws. clear H1 Hx0.
        pose proof Hok as Hw1. destruct Hok as [Hq1 Hq2]. cbn in Hq1, Hq2.
        destruct (mem_dec P n f2 Hf2 [] (snd w)) as [Hin2|Hnin2].
        * replace (pvs ++ w :: ws') with ((pvs ++ [w]) ++ ws') by (rewrite <- app_assoc; reflexivity).
          apply (HcovA n pvs w ws' Hpre Hw1 HF Hin2).
          intros Hcc. apply Hnot. constructor; [split; [exact Hq1|exact Hin2]|exact Hcc].
        * exists ty_id. split; [apply HincQ; apply in_or_app; right; left; reflexivity|].
          eapply mem_extends; [exact HeQ1|exact Hty_fo|].
          cbn [inhab]. match type of Hlt with _ = Some ?ti => change name with (tname ti) end.
          eapply Inh_tuple; [exact Hlty|apply (proj2 He3); exact Hlt|]. cbn. rewrite Hfields.
          assert (HeP3 : extends P P3) by (eapply extends_trans; [exact He|exact He13]).
          apply Forall2_app_inv_l'.
          { eapply Forall2_field_ok_impl; [|exact Hpre]. intros f fv Hf Hr. eapply mem_extends; [exact HeP3| |exact Hr].
            apply Hfo_all. rewrite Hall. apply in_or_app. left; exact Hf. }
          constructor.
          { split; [exact Hq1|]. cbn. eapply mem_extends; [exact He13|exact Hfc|]. apply (Hkeep n (snd w) Hq2 Hnin2). }
          eapply Forall2_field_ok_impl; [|exact HF]. intros f fv Hf Hr. eapply mem_extends; [exact HeP3| |exact Hr].
          apply Hfo_all. rewrite Hall. apply in_or_app. right. right. exact Hf.
  Qed.
End ComplementFields.

Arguments cyclic : simpl never.

Section ComplementMain.
  Variable cfg : rel_cfg.
  Variable rel_fuel : nat.
  Hypothesis Hretract : cfg_retract cfg = true.

  Lemma compute_complement_S f P o nr :
    compute_complement cfg rel_fuel (S f) P o nr =
    match compl_per_nv (subtract_one cfg rel_fuel f) P (get_type_variants P o) (get_type_variants P nr) with
    | None => None
    | Some (P1, pieces) => Some (union_type_ids P1 pieces)
    end.
  Proof. reflexivity. Qed.

  Definition is_cycle_ty (t : ty) : bool := match t with TCycle _ => true | _ => false end.

  Lemma subtract_one_S f P a b :
    subtract_one cfg rel_fuel (S f) P a b =
    if Nat.eqb a b then Some (P, []) else
    match lookup_type P a, lookup_type P b with
    | Some ta, Some tb =>
      if is_cycle_ty ta || is_cycle_ty tb then Some (P, [a]) else
      match cyclic cfg rel_fuel P a with
      | None => None
      | Some ca =>
      match (if ca then Some true else cyclic cfg rel_fuel P b) with
      | None => None
      | Some cyc =>
        match (if cyc then Some None else
               match is_compatible cfg rel_fuel P a b with
               | None => None
               | Some true => Some (Some [])
               | Some false =>
                 match types_overlap cfg rel_fuel P a b with
                 | None => None
                 | Some false => Some (Some [a])
                 | Some true => Some None
                 end
               end) with
        | None => None
        | Some (Some early) => Some (P, early)
        | Some None =>
          let '(P0, never_id) := never P in
          match ta, tb with
          | TTuple id1, TTuple id2 =>
            match lookup_tuple P0 id1, lookup_tuple P0 id2 with
            | Some i1, Some i2 =>
              if negb (opt_eqb (tname i1) (tname i2))
                 || negb (Nat.eqb (length (tfields i1)) (length (tfields i2)))
                 || existsb (fun ab => negb (opt_eqb (fst (fst ab)) (fst (snd ab)))) (combine (tfields i1) (tfields i2))
              then Some (P0, [a])
              else compl_fields (compute_complement cfg rel_fuel f) never_id (tname i1) (tfields i1) P0 [] 0
                                (tfields i1) (tfields i2)
            | _, _ => Some (P0, [a])
            end
          | _, _ => Some (P0, [a])
          end
        end
      end end
    | _, _ => Some (P, [a])
    end.
  Proof. reflexivity. Qed.

  (* the `is_compatible` shortcut of subtract_one is sound on well-formed registries *)
  Lemma compatible_contains P a b n v :
    wfreg P -> FO P a -> FO P b -> is_compatible cfg rel_fuel P a b = Some true ->
    inhab P n [] v a -> inhab P n [] v b.
  Proof.
    intros (Htopo & _ & _) Ha Hb H Hv. unfold is_compatible, is_compatible_with in H.
    destruct (check_rel cfg P All rel_fuel [] [] [] a b) as [[r A1]|] eqn:Hc; [|discriminate]. cbn in H. inv H.
    destruct (check_sound cfg P false Hretract (or_intror eq_refl) Htopo rel_fuel [] [] [] a b true A1
                (FO_CF P false a Ha) (FO_CF P false b Hb) (fun k (Hin : In k []) => match Hin with end) Hc) as [_ Hsub].
    eapply (Hsub eq_refl). exact Hv.
  Qed.

  Lemma labels_equal_of_combine (fs1 fs2 : list (option nat * nat)) :
    length fs1 = length fs2 ->
    existsb (fun ab => negb (opt_eqb (fst (fst ab)) (fst (snd ab)))) (combine fs1 fs2) = false ->
    map fst fs1 = map fst fs2.
  Proof.
    revert fs2. induction fs1 as [|[l1 t1] fs1 IH]; intros [|[l2 t2] fs2] Hlen H; cbn in *; try discriminate; [reflexivity|].
    apply orb_false_iff in H. destruct H as [H1 H2]. apply negb_false_iff in H1. apply opt_eqb_eq in H1. subst.
    f_equal. apply IH; [lia|exact H2].
  Qed.

  Theorem complement_spec : forall fuel,
    CSpec (compute_complement cfg rel_fuel fuel) /\ SSpec (subtract_one cfg rel_fuel fuel).
  Proof.
    induction fuel as [|f [IHc IHs]]; [split; intros P a b P' r H; cbn in H; discriminate H|].
    split.
    - (* compute_complement *)
      intros P o nr P' r H Hw Ho Hnr. rewrite compute_complement_S in H.
      destruct (compl_per_nv (subtract_one cfg rel_fuel f) P (get_type_variants P o) (get_type_variants P nr))
        as [[P1 pieces]|] eqn:Hl; [|discriminate H]. injection H as H.
      destruct (compl_per_nv_spec _ IHs (get_type_variants P nr) P (get_type_variants P o) P1 pieces Hl Hw
                  (variants_FO P o Ho) (variants_FO P nr Hnr)) as (He1 & Hw1 & Hfo1 & Hcov).
      destruct (union_type_ids_keeps P1 pieces P' r Hfo1 H) as (He2 & Hfor & Hkeep).
      split; [eapply extends_trans; eassumption|]. split; [eapply wf_union_type_ids; eassumption|]. split; [exact Hfor|].
      intros n v Hvo Hnvn.
      destruct (variants_cover P o n v Ho Hvo) as [ov [Hov Hvov]].
      destruct (Hcov n v ov Hov Hvov) as [x [Hx Hvx]].
      { intros nv Hnv Hc. apply Hnvn. eapply variant_member; eassumption. }
      eapply Hkeep; eassumption.
    - (* subtract_one *)
      intros P a b P' out H Hw Ha Hb. rewrite subtract_one_S in H.
      destruct (Nat.eqb a b) eqn:Eab.
      { injection H as HP Ho; subst P' out. apply Nat.eqb_eq in Eab. subst b.
        split; [apply extends_refl|]. split; [exact Hw|]. split; [intros x []|]. intros n v Hv Hn. contradiction. }
      assert (Hkeep_at : forall Q, extends P Q -> wfreg Q ->
                extends P Q /\ wfreg Q /\ (forall x, In x [a] -> FO Q x) /\
                (forall n v, inhab P n [] v a -> ~ inhab P n [] v b -> exists x, In x [a] /\ inhab Q n [] v x)).
      { intros Q He HwQ. split; [exact He|]. split; [exact HwQ|]. split.
        - intros x [<-|[]]. eapply FO_extends; eassumption.
        - intros n v Hv _. exists a. split; [left; reflexivity|eapply mem_extends; eassumption]. }
      assert (Hla : exists ta, lookup_type P a = Some ta /\ is_cycle_ty ta = false) by (inversion Ha; eexists; split; try eassumption; reflexivity).
      assert (Hlb : exists tb, lookup_type P b = Some tb /\ is_cycle_ty tb = false) by (inversion Hb; eexists; split; try eassumption; reflexivity).
      destruct Hla as (ta & Hla & Hca). destruct Hlb as (tb & Hlb & Hcb). rewrite Hla, Hlb, Hca, Hcb in H. cbn [orb] in H.
      destruct (cyclic cfg rel_fuel P a) as [ca|]; [|discriminate H].
      destruct (if ca then Some true else cyclic cfg rel_fuel P b) as [cyc|]; [|discriminate H].
      (* the structural part, entered when no shortcut applies *)
      assert (Hstruct :
        (let '(P0, never_id) := never P in
          match ta, tb with
          | TTuple id1, TTuple id2 =>
            match lookup_tuple P0 id1, lookup_tuple P0 id2 with
            | Some i1, Some i2 =>
              if negb (opt_eqb (tname i1) (tname i2))
                 || negb (Nat.eqb (length (tfields i1)) (length (tfields i2)))
                 || existsb (fun ab => negb (opt_eqb (fst (fst ab)) (fst (snd ab)))) (combine (tfields i1) (tfields i2))
              then Some (P0, [a])
              else compl_fields (compute_complement cfg rel_fuel f) never_id (tname i1) (tfields i1) P0 [] 0
                                (tfields i1) (tfields i2)
            | _, _ => Some (P0, [a])
            end
          | _, _ => Some (P0, [a])
          end) = Some (P', out) ->
        extends P P' /\ wfreg P' /\ (forall x, In x out -> FO P' x) /\
        (forall n v, inhab P n [] v a -> ~ inhab P n [] v b -> exists x, In x out /\ inhab P' n [] v x)).
      { intros Hs. destruct (never P) as [P0 nid] eqn:Hn. destruct (never_spec _ _ _ Hn) as [He0 Hlnid].
        pose proof (wf_never _ _ _ Hw Hn) as Hw0.
        pose proof (Hkeep_at P0 He0 Hw0) as Hk0.
        destruct ta; try (injection Hs as HP Ho; subst P' out; exact Hk0).
        destruct tb; try (injection Hs as HP Ho; subst P' out; exact Hk0).
        rename tuple_id into id1. rename tuple_id0 into id2.
        assert (Hi1 : exists i1, lookup_tuple P id1 = Some i1 /\ (forall fl, In fl (tfields i1) -> FO P (snd fl))).
        { inversion Ha; try congruence. match goal with H1 : lookup_type P a = Some (TTuple ?t) |- _ => rewrite Hla in H1; inv H1 end. eauto. }
        assert (Hi2 : exists i2, lookup_tuple P id2 = Some i2 /\ (forall fl, In fl (tfields i2) -> FO P (snd fl))).
        { inversion Hb; try congruence. match goal with H1 : lookup_type P b = Some (TTuple ?t) |- _ => rewrite Hlb in H1; inv H1 end. eauto. }
        destruct Hi1 as (i1 & Ht1 & Hfs1). destruct Hi2 as (i2 & Ht2 & Hfs2).
        rewrite (proj2 He0 _ _ Ht1), (proj2 He0 _ _ Ht2) in Hs.
        match type of Hs with (if ?c then _ else _) = _ => destruct c eqn:Eshape end.
        { injection Hs as HP Ho; subst P' out. exact Hk0. }
        apply orb_false_iff in Eshape. destruct Eshape as [Eshape Elab]. apply orb_false_iff in Eshape. destruct Eshape as [En El].
        apply negb_false_iff in En. apply negb_false_iff in El. apply opt_eqb_eq in En. apply Nat.eqb_eq in El.
        pose proof (labels_equal_of_combine _ _ El Elab) as Hlabs.
        destruct (compl_fields_spec _ IHc nid (tname i1) (tfields i1) (tfields i1) (tfields i2) P0 [] 0 P' out [] Hs eq_refl eq_refl Hlabs
                    Hw0 Hlnid (fun fl Hfl => FO_extends _ _ _ He0 (Hfs1 fl Hfl)) (fun fl Hfl => FO_extends _ _ _ He0 (Hfs2 fl Hfl))
                    (fun x (Hx : In x []) => match Hx with end)) as (He1 & Hw1 & Hfo1 & _ & Hcov).
        split; [eapply extends_trans; eassumption|]. split; [exact Hw1|]. split; [exact Hfo1|].
        intros n v Hva Hnvb.
        destruct n; [destruct Hva|]. cbn [inhab] in Hva. inversion Hva; subst; try congruence.
        match goal with H1 : lookup_type P a = Some (TTuple ?t) |- _ => rewrite Hla in H1; inv H1 end.
        match goal with H1 : lookup_tuple _ _ = Some ?i, H2 : Forall2 _ (tfields ?i) _ |- _ => rewrite Ht1 in H1; inv H1 end.
        match goal with HF : Forall2 (field_ok (inhab _ _ _)) (tfields _) ?vs |- _ => rename HF into HF1; rename vs into vs1 end.
        apply (Hcov n [] vs1 (Forall2_nil _)).
        - eapply Forall2_field_ok_impl; [|exact HF1]. intros fl fv Hfl Hr. eapply mem_extends; [exact He0|apply Hfs1; exact Hfl|exact Hr].
        - intros Hc. apply Hnvb. cbn [inhab]. rewrite En. eapply Inh_tuple; [exact Hlb|exact Ht2|].
          eapply Forall2_field_ok_impl; [|exact Hc]. intros fl fv Hfl Hr. eapply mem_reflects; [exact He0|apply Hfs2; exact Hfl|exact Hr]. }
      destruct cyc.
      + apply Hstruct. exact H.
      + destruct (is_compatible cfg rel_fuel P a b) as [[|]|] eqn:Hcmp; [| |discriminate H].
        * injection H as HP Ho; subst P' out. split; [apply extends_refl|]. split; [exact Hw|]. split; [intros x []|].
          intros n v Hva Hnvb. exfalso. apply Hnvb. exact (compatible_contains P a b n v Hw Ha Hb Hcmp Hva).
        * destruct (types_overlap cfg rel_fuel P a b) as [[|]|] eqn:Hov; [| |discriminate H].
          { apply Hstruct. exact H. }
          { injection H as HP Ho; subst P' out. apply Hkeep_at; [apply extends_refl|exact Hw]. }
  Qed.
End ComplementMain.

Theorem complement_keeps_fo : forall cfg rel_fuel fuel P o nr P' r,
  cfg_retract cfg = true -> wfregb P = true ->
  compute_complement cfg rel_fuel fuel P o nr = Some (P', r) ->
  fo_domain P o = true -> fo_domain P nr = true ->
  extends P P' /\ forall n v, inhab P n [] v o -> ~ inhab P n [] v nr -> inhab P' n [] v r.
Proof.
  intros cfg rel_fuel fuel P o nr P' r Hret Hw H Do Dn.
  destruct (proj1 (complement_spec cfg rel_fuel Hret fuel) P o nr P' r H (wfregb_wfreg _ Hw) (fob_FO _ _ _ Do) (fob_FO _ _ _ Dn))
    as (He & _ & _ & Hk).
  split; assumption.
Qed.

Lemma tuple_value_inv P x tid info n name fs :
  lookup_type P x = Some (TTuple tid) -> lookup_tuple P tid = Some info ->
  inhab P (S n) [] (VTup name fs) x ->
  name = tname info /\ Forall2 (field_ok (inhab P n [])) (tfields info) fs.
Proof.
  intros Hl Ht H. cbn [inhab] in H. inversion H as [| | | | | | |E0 t0 tid0 info0 fs0 Hl0 Ht0 HF| | |]; subst; try congruence.
  rewrite Hl in Hl0. inversion Hl0; subst tid0. rewrite Ht in Ht0. inversion Ht0; subst info0. split; [reflexivity|exact HF].
Qed.

Lemma nth_field_member (R : value -> nat -> Prop) fs vs idx fl f :
  Forall2 (field_ok R) fs vs -> nth_error fs idx = Some fl -> nth_error vs idx = Some f -> R (snd f) (snd fl).
Proof.
  intros HF. revert idx. induction HF as [|a b l1 l2 [_ Hr] HF IH]; intros [|idx] Hn Hnth; cbn in *; try discriminate.
  - inversion Hn; inversion Hnth; subst. exact Hr.
  - eapply IH; eassumption.
Qed.

(* ---------------------------------------------------------------- filter_variants_by_field *)
Section Filter.
  Variable cfg : rel_cfg.
  Variable rel_fuel : nat.

  Definition non_union (P : registry) (x : nat) : Prop := forall vs, lookup_type P x <> Some (TUnion vs).

  (* the field type collected for a non-union variant covers the field of every tuple value of it *)
  Lemma get_field_type_spec P x idx :
    FO P x -> non_union P x ->
    match get_field_type P x idx with
    | Some (P1, ft) =>
      extends P P1 /\ FO P1 ft /\
      (forall n name fs f, inhab P (S n) [] (VTup name fs) x -> nth_error fs idx = Some f -> inhab P1 n [] (snd f) ft)
    | None => forall n name fs f, inhab P (S n) [] (VTup name fs) x -> nth_error fs idx = Some f -> False
    end.
  Proof.
    intros Hfo Hnu. unfold get_field_type, get_type_variants.
    inversion Hfo as [? Hl|? Hl|? Hl|? ? Hl|? vs Hl Hvs|? tid info Hl Ht Hfs]; subst; rewrite Hl; cbn; rewrite ?Hl; cbn;
      try (intros n name fs f H; cbn [inhab] in H; inversion H; congruence).
    - exfalso. eapply Hnu; exact Hl.
    - rewrite Ht. destruct (nth_error (tfields info) idx) as [fl|] eqn:Hn; cbn.
      + destruct (union_type_ids P [snd fl]) as [P1 ft] eqn:Hu.
        assert (Hfl : FO P (snd fl)) by (apply Hfs; eapply nth_error_In; exact Hn).
        destruct (union_type_ids_keeps P [snd fl] P1 ft (fun y Hy => match Hy with or_introl e => eq_ind _ (FO P) Hfl _ e | or_intror e => match e with end end) Hu)
          as (He & Hft & Hkeep).
        split; [exact He|]. split; [exact Hft|].
        intros n name fs f H Hnth. destruct (tuple_value_inv P x tid info n name fs Hl Ht H) as [_ HF0].
        apply (Hkeep n (snd f) (snd fl) (or_introl eq_refl)). eapply nth_field_member; eassumption.
      + intros n name fs f H Hnth. destruct (tuple_value_inv P x tid info n name fs Hl Ht H) as [_ HF0].
        apply Forall2_len in HF0. apply nth_error_None in Hn. assert (idx < length fs) by (apply nth_error_Some; congruence). lia.
  Qed.

  Lemma filter_loop_spec idx must : forall vs P filtered P1 filtered1,
    filter_loop cfg rel_fuel true idx must P filtered vs = Some (P1, filtered1) ->
    (forall x, In x vs -> FO P x /\ non_union P x) -> FO P must -> (forall x, In x filtered -> FO P x) ->
    extends P P1 /\ (forall x, In x filtered1 -> FO P1 x) /\ (forall x, In x filtered -> In x filtered1) /\
    (forall x n name fs f, In x vs -> inhab P (S n) [] (VTup name fs) x -> nth_error fs idx = Some f ->
                           inhab P n [] (snd f) must -> In x filtered1).
  Proof.
    induction vs as [|x vs IH]; intros P filtered P1 filtered1 H Hvs Hmust Hfil; cbn in H.
    - inv H. split; [apply extends_refl|]. split; [exact Hfil|]. split; [auto|]. intros x n name fs f [].
    - destruct (Hvs x (or_introl eq_refl)) as [Hx Hnu]. pose proof (get_field_type_spec P x idx Hx Hnu) as Hg.
      assert (Hnu_ext : forall Q y, extends P Q -> FO P y -> non_union P y -> non_union Q y).
      { intros Q y He Hy Hn vs0 Hl. inversion Hy as [? Hq|? Hq|? Hq|? ? Hq|? ws Hq _|? t i Hq _ _]; subst;
          pose proof (proj1 He _ _ Hq) as Hq'; try congruence; try (eapply Hn; exact Hq). }
      destruct (get_field_type P x idx) as [[Pg ft]|].
      + destruct Hg as (He & Hft & Hcov).
        assert (Hrest : forall Q flt, extends Pg Q -> (forall y, In y flt -> FO Q y) -> (forall y, In y filtered -> In y flt) ->
                  filter_loop cfg rel_fuel true idx must Q flt vs = Some (P1, filtered1) ->
                  extends P P1 /\ (forall y, In y filtered1 -> FO P1 y) /\ (forall y, In y filtered -> In y filtered1) /\
                  (forall y, In y flt -> In y filtered1) /\
                  (forall y n name fs f, In y vs -> inhab P (S n) [] (VTup name fs) y -> nth_error fs idx = Some f ->
                                         inhab P n [] (snd f) must -> In y filtered1)).
        { intros Q flt HeQ Hflt Hinc HQ. assert (HePQ : extends P Q) by (eapply extends_trans; eassumption).
          destruct (IH Q flt P1 filtered1 HQ
                       (fun y Hy => conj (FO_extends _ _ _ HePQ (proj1 (Hvs y (or_intror Hy))))
                                         (Hnu_ext Q y HePQ (proj1 (Hvs y (or_intror Hy))) (proj2 (Hvs y (or_intror Hy)))))
                       (FO_extends _ _ _ HePQ Hmust) Hflt) as (He2 & Hfo2 & Hinc2 & Hcov2).
          split; [eapply extends_trans; eassumption|]. split; [exact Hfo2|]. split; [intros y Hy; apply Hinc2; apply Hinc; exact Hy|].
          split; [exact Hinc2|]. intros y n name fs f Hy Hv Hnth Hm. apply (Hcov2 y n name fs f Hy).
          - eapply mem_extends; [exact HePQ|apply Hvs; right; exact Hy|exact Hv].
          - exact Hnth.
          - eapply mem_extends; [exact HePQ|exact Hmust|exact Hm]. }
        destruct (types_overlap cfg rel_fuel Pg ft must) as [[|]|] eqn:Hov; [| |discriminate H].
        * destruct (Hrest Pg (filtered ++ [x]) (extends_refl _)
                      (fun y Hy => match in_app_or _ _ _ Hy with
                                   | or_introl Hy' => FO_extends _ _ _ He (Hfil y Hy')
                                   | or_intror Hy' => match Hy' with or_introl e => eq_ind _ (FO Pg) (FO_extends _ _ _ He Hx) _ e | or_intror e => match e with end end
                                   end)
                      (fun y Hy => in_or_app _ _ _ (or_introl Hy)) H) as (HeA & HfoA & HincA & HincB & HcovA).
          split; [exact HeA|]. split; [exact HfoA|]. split; [exact HincA|].
          intros y n name fs f [<-|Hy] Hv Hnth Hm; [apply HincB; apply in_or_app; right; left; reflexivity|eapply HcovA; eassumption].
        * destruct (Hrest Pg filtered (extends_refl _) (fun y Hy => FO_extends _ _ _ He (Hfil y Hy)) (fun y Hy => Hy) H)
            as (HeA & HfoA & HincA & _ & HcovA).
          split; [exact HeA|]. split; [exact HfoA|]. split; [exact HincA|].
          intros y n name fs f [<-|Hy] Hv Hnth Hm; [|eapply HcovA; eassumption].
          exfalso. eapply (overlap_false_no_common cfg rel_fuel Pg ft must n (snd f) Hov Hft (FO_extends _ _ _ He Hmust)).
          -- eapply Hcov; eassumption.
          -- eapply mem_extends; [exact He|exact Hmust|exact Hm].
      + destruct (IH P filtered P1 filtered1 H (fun y Hy => Hvs y (or_intror Hy)) Hmust Hfil) as (He2 & Hfo2 & Hinc2 & Hcov2).
        split; [exact He2|]. split; [exact Hfo2|]. split; [exact Hinc2|].
        intros y n name fs f [<-|Hy] Hv Hnth Hm; [exfalso; eapply Hg; eassumption|eapply Hcov2; eassumption].
  Qed.

  (* with the overlap test (the proposed repair), filtering after a successful runtime test of field
     idx against `must` keeps every tuple value of the parent whose field idx is a value of `must` *)
  Theorem filter_keeps_fo : forall P parent idx must P' r,
    filter_variants_by_field cfg rel_fuel true P parent idx must = Some (P', r) ->
    FO P parent -> FO P must ->
    (forall x, In x (get_type_variants P parent) -> non_union P x) ->
    extends P P' /\
    forall n name fs f, inhab P (S n) [] (VTup name fs) parent -> nth_error fs idx = Some f ->
                        inhab P n [] (snd f) must -> inhab P' (S n) [] (VTup name fs) r.
  Proof.
    intros P parent idx must P' r H Hp Hm Hflat. unfold filter_variants_by_field in H.
    destruct (filter_loop cfg rel_fuel true idx must P [] (get_type_variants P parent)) as [[P1 filtered]|] eqn:Hl; [|discriminate H].
    injection H as H.
    destruct (filter_loop_spec idx must _ P [] P1 filtered Hl
                (fun x Hx => conj (variants_FO P parent Hp x Hx) (Hflat x Hx)) Hm (fun x (Hx : In x []) => match Hx with end))
      as (He1 & Hfo1 & _ & Hcov).
    destruct (union_type_ids_keeps P1 filtered P' r Hfo1 H) as (He2 & _ & Hkeep).
    split; [eapply extends_trans; eassumption|].
    intros n name fs f Hv Hnth Hmem.
    destruct (variants_cover P parent (S n) _ Hp Hv) as [x [Hx Hvx]].
    eapply (Hkeep (S n) _ x); [eapply Hcov; eassumption|].
    eapply mem_extends; [exact He1|apply (variants_FO P parent Hp x Hx)|exact Hvx].
  Qed.
End Filter.
