(* IntBitProofs.v — integer_not / integer_shift / integer_popcount agree with their reference specs. *)
From Quiver Require Import BuiltinSpec BuiltinProofs.
From Coq Require Import Lia.

(* ------------------------------------------------------------------ generic helpers *)

Lemma in_i64_true n : in_i64 n = true -> - two63 <= n < two63.
Proof.
  unfold in_i64. intros H. apply andb_true_iff in H. destruct H as [H1 H2].
  apply Z.leb_le in H1. apply Z.ltb_lt in H2. lia.
Qed.

Lemma two64_neq0 : two64 <> 0.
Proof. unfold two64. lia. Qed.

(* to_i64 only looks at the residue mod 2^64 *)
Lemma to_i64_mod_eq x y : x mod two64 = y mod two64 -> to_i64 x = to_i64 y.
Proof. intros H. unfold to_i64. rewrite H. reflexivity. Qed.

Lemma to_i64_0 : to_i64 0 = 0.
Proof. apply to_i64_id. unfold two63. lia. Qed.

(* ------------------------------------------------------------------ not *)

Lemma lnot_spec_not n : - two63 <= n < two63 -> Z.lnot n = spec_not n.
Proof.
  intros Hn. unfold spec_not, wrap_u64.
  rewrite (to_i64_mod_eq (two64 - 1 - n mod two64) (Z.lnot n)).
  - symmetry. apply to_i64_id. unfold Z.lnot, Z.pred. lia.
  - rewrite (Z.mod_eq n two64) by apply two64_neq0.
    replace (two64 - 1 - (n - two64 * (n / two64))) with (Z.lnot n + (1 + n / two64) * two64)
      by (unfold Z.lnot, Z.pred; ring).
    apply Z.mod_add. apply two64_neq0.
Qed.

Theorem integer_not_correct : forall a : bval, flatten_out (impl_integer_not a) = spec_integer_not (flatten a).
Proof.
  intros a. destruct a as [n|r|fs|]; try reflexivity.
  unfold impl_integer_not, to_i64_checked. cbn [flatten spec_integer_not].
  destruct (in_i64 n) eqn:En; cbn [obind flatten_out flatten]; [|reflexivity].
  rewrite (lnot_spec_not n (in_i64_true n En)). reflexivity.
Qed.

(* ------------------------------------------------------------------ shift *)

Lemma shl_small v k : 0 <= k -> to_i64 (Z.shiftl v k) = spec_shl v k.
Proof.
  intros Hk. unfold spec_shl, wrap_u64. rewrite Z.shiftl_mul_pow2 by assumption.
  apply to_i64_mod_eq. rewrite Z.mul_mod_idemp_l by apply two64_neq0. reflexivity.
Qed.

Lemma shl_big v k : 64 <= k -> spec_shl v k = 0.
Proof.
  intros Hk. unfold spec_shl.
  replace (2 ^ k) with (two64 * 2 ^ (k - 64)).
  - rewrite <- to_i64_0. apply to_i64_mod_eq.
    replace (wrap_u64 v * (two64 * 2 ^ (k - 64))) with ((wrap_u64 v * 2 ^ (k - 64)) * two64) by ring.
    rewrite Z.mod_mul by apply two64_neq0. rewrite Z.mod_0_l by apply two64_neq0. reflexivity.
  - unfold two64. rewrite <- Z.pow_add_r by lia. f_equal. lia.
Qed.

Lemma shl_zero v : - two63 <= v < two63 -> spec_shl v 0 = v.
Proof.
  intros Hv. unfold spec_shl. rewrite Z.pow_0_r, Z.mul_1_r, to_i64_wrap. apply to_i64_id. assumption.
Qed.

Lemma sar_big v k : - two63 <= v < two63 -> 63 <= k -> spec_sar v k = if 0 <=? v then 0 else -1.
Proof.
  intros Hv Hk. unfold spec_sar.
  assert (HP : two63 <= 2 ^ k) by (unfold two63; apply Z.pow_le_mono_r; lia).
  set (P := 2 ^ k) in *.
  destruct (Z.leb_spec 0 v) as [Hv0|Hv0].
  - apply Z.div_small. lia.
  - symmetry. apply Z.div_unique with (r := v + P); lia.
Qed.

Lemma shift_core v k : in_i64 v = true -> in_i64 k = true ->
  impl_integer_shift (BTup [BInt v; BInt k]) =
  Val (BInt (if 0 <=? k then spec_shl v k else spec_sar v (- k))).
Proof.
  intros Ev Ek. unfold impl_integer_shift, two_i64, to_i64_checked.
  rewrite Ev, Ek. cbn [obind fst snd]. cbv zeta.
  apply in_i64_true in Ev. apply in_i64_true in Ek.
  destruct (Z.eqb_spec k 0) as [Hk0|Hk0].
  - subst k. rewrite Z.leb_refl. rewrite shl_zero by assumption. reflexivity.
  - destruct (Z.leb_spec 64 (Z.abs k)) as [Hb|Hb];
    destruct (Z.ltb_spec 0 k) as [Hp|Hp];
    destruct (Z.leb_spec 0 k) as [Hq|Hq]; try lia; do 2 f_equal.
    + symmetry. apply shl_big. lia.
    + symmetry. apply sar_big; [assumption | lia].
    + rewrite Z.abs_eq by lia. apply shl_small. lia.
    + rewrite Z.abs_neq by lia. unfold spec_sar. apply Z.shiftr_div_pow2. lia.
Qed.

Theorem integer_shift_correct : forall a : bval, flatten_out (impl_integer_shift a) = spec_integer_shift (flatten a).
Proof.
  intros a. destruct a as [n|r|fs|]; try reflexivity.
  destruct fs as [|x [|y [|w fs]]]; try reflexivity.
  - (* one field *) destruct x; reflexivity.
  - (* two fields *)
    destruct x as [v|r|gs|]; try reflexivity.
    destruct (in_i64 v) eqn:Ev.
    + destruct y as [k|r|gs|];
        try (unfold impl_integer_shift, two_i64, to_i64_checked;
             cbn [flatten map spec_integer_shift]; rewrite Ev; reflexivity).
      destruct (in_i64 k) eqn:Ek.
      * rewrite shift_core by assumption.
        cbn [flatten_out flatten map spec_integer_shift]. rewrite Ev, Ek. reflexivity.
      * unfold impl_integer_shift, two_i64, to_i64_checked.
        cbn [flatten map spec_integer_shift]. rewrite Ev, Ek. reflexivity.
    + unfold impl_integer_shift, two_i64, to_i64_checked.
      cbn [flatten map spec_integer_shift]. rewrite Ev. reflexivity.
  - (* three or more fields *) destruct x; destruct y; reflexivity.
Qed.

(* ------------------------------------------------------------------ popcount *)

Lemma filter_map_length {A B} (f : B -> bool) (g : A -> B) (l : list A) :
  length (filter f (map g l)) = length (filter (fun x => f (g x)) l).
Proof.
  induction l as [|x l IH]; [reflexivity|].
  cbn [map filter]. destruct (f (g x)); cbn [length]; rewrite IH; reflexivity.
Qed.

Lemma popcount_step z : 0 <= z -> popcount z = Z.b2z (Z.testbit z 0) + popcount (Z.div2 z).
Proof.
  intros Hz. destruct z as [|p|p]; [reflexivity | destruct p; reflexivity | lia].
Qed.

Lemma popcount_bits : forall (m : nat) (z : Z), 0 <= z < 2 ^ Z.of_nat m ->
  popcount z = Z.of_nat (length (filter (fun i => Z.testbit z (Z.of_nat i)) (seq 0 m))).
Proof.
  induction m as [|m IH]; intros z Hz.
  - change (2 ^ Z.of_nat 0) with 1 in Hz. assert (z = 0) by lia. subst z. reflexivity.
  - rewrite Nat2Z.inj_succ, Z.pow_succ_r in Hz by apply Nat2Z.is_nonneg.
    rewrite popcount_step by lia.
    cbn [seq]. rewrite <- seq_shift. cbn [filter].
    assert (Hd : 0 <= Z.div2 z < 2 ^ Z.of_nat m).
    { rewrite Z.div2_div. split; [apply Z.div_pos; lia | apply Z.div_lt_upper_bound; lia]. }
    rewrite (IH (Z.div2 z) Hd).
    assert (Hl : length (filter (fun i => Z.testbit z (Z.of_nat i)) (map S (seq 0 m))) =
                 length (filter (fun i => Z.testbit (Z.div2 z) (Z.of_nat i)) (seq 0 m))).
    { rewrite filter_map_length. f_equal. apply filter_ext. intros i.
      rewrite Nat2Z.inj_succ, Z.div2_div. symmetry. apply Z.div2_bits. apply Nat2Z.is_nonneg. }
    change (Z.of_nat 0) with 0.
    destruct (Z.testbit z 0); cbn [length Z.b2z]; rewrite Hl; [rewrite Nat2Z.inj_succ|]; lia.
Qed.

Lemma popcount_wrap n : popcount (wrap_u64 n) = spec_popcount64 n.
Proof.
  unfold spec_popcount64. apply popcount_bits.
  unfold wrap_u64. change (2 ^ Z.of_nat 64) with two64.
  apply Z.mod_pos_bound. unfold two64. lia.
Qed.

Theorem integer_popcount_correct : forall a : bval, flatten_out (impl_integer_popcount a) = spec_integer_popcount (flatten a).
Proof.
  intros a. destruct a as [n|r|fs|]; try reflexivity.
  unfold impl_integer_popcount, to_i64_checked. cbn [flatten spec_integer_popcount].
  destruct (in_i64 n) eqn:En; cbn [obind flatten_out flatten]; [|reflexivity].
  rewrite popcount_wrap. reflexivity.
Qed.

(* ------------------------------------------------------------------ non-vacuity / sanity examples *)

Example integer_shift_example :
  impl_integer_shift (BTup [BInt (-5); BInt (-1)]) = Val (BInt (-3)) /\
  impl_integer_shift (BTup [BInt 1; BInt 63]) = Val (BInt (- 2^63)).
Proof. split; vm_compute; reflexivity. Qed.

Example integer_popcount_example : impl_integer_popcount (BInt (-1)) = Val (BInt 64).
Proof. vm_compute. reflexivity. Qed.
