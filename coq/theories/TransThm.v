(* TransThm.v — transitivity of is_compatible on the cycle-free fragment (compat_trans_cf). *)
From Quiver Require Import Base Types Rel Sem SemProofs RelProofs TransProofs TransCheck.
From Coq Require Import Arith Lia.
Close Scope Z_scope.
Open Scope nat_scope.

(* ---------------------------------------------------------------- the theorem *)
Fixpoint nodupb_ty (l : list ty) : bool :=
  match l with
  | [] => true
  | x :: l' => negb (existsb (ty_eqb x) l') && nodupb_ty l'
  end.

Lemma list_eqb_refl {A} (eqb : A -> A -> bool) : (forall x, eqb x x = true) -> forall l, list_eqb eqb l l = true.
Proof. intros H. induction l as [|a l IH]; cbn; [reflexivity|]. rewrite H, IH. reflexivity. Qed.

Lemma ty_eqb_refl t : ty_eqb t t = true.
Proof.
  destruct t; cbn; rewrite ?Nat.eqb_refl, ?opt_eqb_refl; cbn; try reflexivity.
  - apply list_eqb_refl. intros [a b]. unfold pfield_eqb. cbn. rewrite !Nat.eqb_refl. reflexivity.
  - apply list_eqb_refl. apply Nat.eqb_refl.
Qed.

Lemma nodupb_ty_inj l : nodupb_ty l = true ->
  forall x y t, nth_error l x = Some t -> nth_error l y = Some t -> x = y.
Proof.
  induction l as [|a l IH]; intros H x y t Hx Hy; [destruct x; discriminate|].
  cbn in H. apply andb_true_iff in H. destruct H as [Hna Hl]. apply negb_true_iff in Hna.
  assert (Hnot : forall i, nth_error l i = Some a -> False).
  { intros i Hi. assert (existsb (ty_eqb a) l = true); [|congruence].
    apply existsb_exists. exists a. split; [eapply nth_error_In; exact Hi|apply ty_eqb_refl]. }
  destruct x as [|x], y as [|y]; cbn in Hx, Hy.
  - reflexivity.
  - inversion Hx; subst. exfalso. eapply Hnot; exact Hy.
  - inversion Hy; subst. exfalso. eapply Hnot; exact Hx.
  - f_equal. eapply IH; eassumption.
Qed.

(* the fragment on which transitivity is proved: ids topologically ordered, no duplicate type
   entries (both maintained by Program::register_type), no Cycle / Variable reachable *)
Definition trans_domain (P : registry) (t : nat) : bool :=
  topob P && nodupb_ty (types P) && cfb P true (S (length (types P))) t.

Theorem compat_trans_cf : forall cfg P fuel a b c,
  cfg_retract cfg = true -> cfg_partial_name cfg = true ->
  trans_domain P a = true -> trans_domain P b = true -> trans_domain P c = true ->
  a + b < fuel -> b + c < fuel -> a + c < fuel ->
  is_compatible_with cfg fuel P a b = Some true ->
  is_compatible_with cfg fuel P b c = Some true ->
  is_compatible_with cfg fuel P a c = Some true.
Proof.
  intros cfg P fuel a b c Hret Hpn Da Db Dc Fab Fbc Fac Hab Hbc.
  unfold trans_domain in *.
  apply andb_true_iff in Da. destruct Da as [Da Ca]. apply andb_true_iff in Da. destruct Da as [Ht Hnd].
  apply andb_true_iff in Db. destruct Db as [_ Cb]. apply andb_true_iff in Dc. destruct Dc as [_ Cc].
  apply topob_topo in Ht. apply cfb_CF in Ca. apply cfb_CF in Cb. apply cfb_CF in Cc.
  pose proof (nodupb_ty_inj _ Hnd) as Hinj.
  assert (HI0 : forall m, InvR P [] m) by (intros m k []).
  destruct (check_exact cfg P Hret Hpn Ht fuel [] [] [] a b Fab Ca Cb (HI0 _)) as (b1 & A1 & E1 & _ & Hb1).
  destruct (check_exact cfg P Hret Hpn Ht fuel [] [] [] b c Fbc Cb Cc (HI0 _)) as (b2 & A2 & E2 & _ & Hb2).
  destruct (check_exact cfg P Hret Hpn Ht fuel [] [] [] a c Fac Ca Cc (HI0 _)) as (b3 & A3 & E3 & _ & Hb3).
  unfold is_compatible_with in *. rewrite E1 in Hab. rewrite E2 in Hbc. rewrite E3. cbn in *.
  inversion Hab; subst b1. inversion Hbc; subst b2.
  rewrite Hb3. f_equal.
  eapply (R_trans P Ht Hinj (S (a + b + c)) a b c); [lia|exact Ca|exact Cb|exact Cc|assumption|assumption].
Qed.
